import OnlVerif.Kernel.Replay
import OnlVerif.Net.FifoReplay
import OnlVerif.Net.GenSinkReplay
import OnlVerif.Util.TimerReplay
import OnlVerif.Net.StampReplay
import OnlVerif.Net.RouteReplay
import OnlVerif.Tcp.Replay
import OnlVerif.Net.MultiQueueReplay
import OnlVerif.Util.RtReplay
import OnlVerif.Net.PortOnKReplay
import OnlVerif.Util.TimerOnKReplay
import OnlVerif.Net.WireOnKReplay
import OnlVerif.Net.SPOnKReplay
import OnlVerif.Net.TBOnKReplay
import OnlVerif.Net.TwoRateOnKReplay
import OnlVerif.Net.RROnKReplay
import OnlVerif.Net.WRROnKReplay
import OnlVerif.Net.DRROnKReplay
import OnlVerif.Tcp.SenderOnKReplay
import OnlVerif.Net.VCOnKReplay
import OnlVerif.Net.WFQOnKReplay
import OnlVerif.Net.NetworkReplay
import OnlVerif.Net.REDOnKReplay
/-! Line-protocol driver: `driver <mode>` reads cases on stdin and prints the model's observations. -/

def main (args : List String) : IO UInt32 := do
  let stdin ← IO.getStdin
  match args with
  | ["kernel"] => kernelLoop stdin {}; return 0
  | ["fifo"] => fifoLoop stdin; return 0
  | ["gensink"] => gensinkLoop stdin; return 0
  | ["timer"] => timerLoop stdin none; return 0
  | ["stamp"] => stampLoop stdin; return 0
  | ["route"] => routeLoop stdin; return 0
  | ["mq"] => mqLoop stdin; return 0
  | ["tcpsink"] => tcpLoop stdin "tcpsink"; return 0
  | ["tcpsender"] => tcpLoop stdin "tcpsender"; return 0
  | ["rt"] => rtLoop stdin {}; return 0
  | ["portk"] => portkLoop stdin; return 0
  | ["timerk"] => timerkLoop stdin; return 0
  | ["wirek"] => wirekLoop stdin; return 0
  | ["spk"] => spkLoop stdin; return 0
  | ["tbk"] => tbkLoop stdin; return 0
  | ["trk"] => trkLoop stdin; return 0
  | ["rrk"] => rrkLoop stdin; return 0
  | ["wrrk"] => wrrkLoop stdin; return 0
  | ["drrk"] => drrkLoop stdin; return 0
  | ["sndk"] => sndkLoop stdin; return 0
  | ["vck"] => vckLoop stdin; return 0
  | ["wfqk"] => wfqkLoop stdin; return 0
  | ["net"] => netLoop stdin; return 0
  | ["redk"] => redkLoop stdin; return 0
  | _ => IO.eprintln "usage: driver <kernel|fifo|gensink|timer|rt|…>"; return 2
