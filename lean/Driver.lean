import OnlVerif.Kernel.Replay
import OnlVerif.Net.FifoReplay
import OnlVerif.Net.GenSinkReplay
/-! Line-protocol driver: `driver <mode>` reads cases on stdin and prints the model's observations. -/

def main (args : List String) : IO UInt32 := do
  let stdin ← IO.getStdin
  match args with
  | ["kernel"] => kernelLoop stdin {}; return 0
  | ["fifo"] => fifoLoop stdin; return 0
  | ["gensink"] => gensinkLoop stdin; return 0
  | _ => IO.eprintln "usage: driver <kernel>"; return 2
