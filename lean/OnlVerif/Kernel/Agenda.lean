import OnlVerif.Basic.Num
/-!
# The event queue of `onl.sim.core.Environment`

`Environment.schedule` pushes `(now + delay, priority, next(eid), event)` on a `heapq`;
`Environment.step` pops the smallest tuple.  The binary-heap layout is library behaviour
(trusted: `heappop` returns a minimum of the tuples, which are pairwise different because the
`eid` component is a fresh counter value).  The model keeps the entries in a list and pops the
lexicographic minimum.
-/

abbrev EvId := Nat

/-- priorities of `onl.sim.events` -/
def URGENT : Nat := 0
def NORMAL : Nat := 1

structure QEntry (τ : Type) where
  time : τ
  prio : Nat
  eid : Nat
  ev : EvId

namespace QEntry
variable {τ : Type} [Num τ]

/-- Python tuple comparison `(time, prio, eid, _) < (time', prio', eid', _)` -/
def lt (a b : QEntry τ) : Bool :=
  decide (a.time < b.time) ||
    (!decide (b.time < a.time) && (a.prio < b.prio || (a.prio == b.prio && a.eid < b.eid)))

end QEntry

/-- remove and return the lexicographic minimum (what `heappop` returns) -/
def popMin {τ : Type} [Num τ] : List (QEntry τ) → Option (QEntry τ × List (QEntry τ))
  | [] => none
  | x :: xs =>
    match popMin xs with
    | none => some (x, [])
    | some (m, rest) => if m.lt x then some (m, x :: rest) else some (x, xs)

/-- `Environment.peek`: the time of the next entry -/
def peekTime {τ : Type} [Num τ] (l : List (QEntry τ)) : Option τ := (popMin l).map (·.1.time)
