import OnlVerif.Kernel.Types
/-!
# Carrying a stamp through the `PriorityStore` of `K`

The `PriorityStore` of the kernel model (`ResKind.pstore`) holds plain integers and hands out the least one
(`Kernel/Ops.lean`, `listMin`); the real store of the stamp schedulers holds `PriorityItem((stamp, now), packet)` and
`heapq` compares the key tuples.  Programs that use the `pstore` put the integer

    code(stamp) * N + k

into it (`N` = a bound on the packet numbers `k`, so `k` is recovered as the remainder), where `code` is an
*order-preserving* integer code of the scalar:

* at `Float` the bit pattern (for non-negative doubles the order of the values is the order of the bit patterns as
  integers; stamps are sums of non-negative numbers);
* at `ℚ` the floor of `scale · stamp`.  No map `ℚ → ℤ` preserves `<` everywhere, but on the grid `ℤ / scale` this one does
  (`Lemmas/StampCodeQ.lean`), and every finite workload of rationals lives on such a grid; the theorems carry the
  hypothesis that the configuration and the workload do (`OnGrid`) and prove that every stamp the program computes does.
-/

/-- an order-preserving integer code of a non-negative scalar (`scale` is used by the rational instance only) -/
class StampCode (τ : Type) where
  code : (scale : Nat) → τ → Int

instance : StampCode Float where
  code _ x := (x.toBits.toNat : Int)

instance : StampCode Rat where
  code scale x := (x * (scale : Rat)).floor

/-- the integer a `PriorityItem((stamp, now), packet k)` is carried by (`k < N`) -/
def stampItem {τ : Type} [StampCode τ] (scale N : Nat) (stamp : τ) (k : Int) : Int :=
  StampCode.code scale stamp * (N : Int) + k

/-- `item.item`: the packet number of a carried item -/
def itemPkt (N : Nat) (item : Int) : Int := item % (N : Int)
