import OnlVerif.Kernel.Ops
/-!
# Kernel model `K`: `Process._resume`, `Environment.step`, `Environment.run`
-/

variable {τ σ : Type} [Num τ]

inductive Term (σ : Type) where
  | yielded (e : EvId) (st : σ)
  | returned (v : Val)
  | raised (x : Exc)

/-- an API call that raised is observed by the calling process (it catches and logs the exception) -/
def noteErr (self : EvId) (sr : KState τ σ × Reply) : KState τ σ :=
  match sr.2 with
  | .err x => sr.1.emit (.callErr self x sr.1.now)
  | _ => sr.1

/-- run one burst of process `self`: execute its API calls up to the next yield/return/raise -/
def runBurst (self : EvId) : Burst τ σ → KState τ σ → KState τ σ × Term σ
  | .call c k, s => runBurst self (k (doCall s self c).2) (noteErr self (doCall s self c))
  | .yield e st, s => (s, .yielded e st)
  | .ret v, s => (s, .returned v)
  | .raise x, s => (s, .raised x)

/-- what `_resume(event)` sends (`.value`) or throws (`.exc`) into the generator -/
def resumeArg (s : KState τ σ) (p e : EvId) : Resume :=
  match (s.ev e).out with
  | some (.ok v) => if (s.ev e).kind = Kind.init p then Resume.start else Resume.value v
  | some (.fail x) => Resume.exc x
  | none => Resume.value Val.none

/-- first part of `_resume`: the process becomes the active one; a failed event counts as handled -/
def deliverSt (s : KState τ σ) (p e : EvId) : KState τ σ :=
  match (s.ev e).out with
  | some (.fail _) => KState.defuse { s with active := some p } e
  | _ => { s with active := some p }

def deliver (s : KState τ σ) (p e : EvId) : KState τ σ × Resume := (deliverSt s p e, resumeArg s p e)

/-- the generator finished: the process's own event is triggered with its result, NORMAL, now -/
def finishProc (s : KState τ σ) (p : EvId) (pr : ProcRec σ) (o : Outcome) : KState τ σ :=
  let s := (s.trigger p o).emit (.ended p o s.now)
  { (s.setProc p { pr with target := none }) with active := none }

/-- the generator yielded `e'`: append `_resume` to its callbacks unless it is already processed -/
def register (s : KState τ σ) (p e' : EvId) : Option (KState τ σ) :=
  if s.processed e' then none else some { (s.addCb e' (.resume p)) with active := none }

/-- `Process._resume(event)`: loops while the yielded event is already processed (fuel bounds that loop;
running out of fuel models a process that yields processed events for ever, i.e. a Python hang). -/
def resume (body : σ → Resume → Burst τ σ) (p : EvId) : Nat → EvId → KState τ σ → KState τ σ
  | 0, _, s => s
  | fuel + 1, e, s =>
    match s.proc? p with
    | none => s
    | some pr =>
      let sr := deliver s p e
      let bt := runBurst p (body pr.st sr.2) (sr.1.emit (.resumed p sr.2 sr.1.now))
      match bt.2 with
      | .returned v => finishProc bt.1 p pr (.ok v)
      | .raised x => finishProc bt.1 p pr (.fail x)
      | .yielded e' st' =>
        let s2 := bt.1.setProc p { st := st', target := some e' }
        match register s2 p e' with
        | some s3 => s3
        | none => resume body p fuel e' s2

/-- `Interruption._interrupt`: ignore a dead victim; detach it from its target; resume it with the Interrupt -/
def deliverInterrupt (body : σ → Resume → Burst τ σ) (fuel : Nat) (iv p : EvId) (s : KState τ σ) : KState τ σ :=
  if s.triggered p then s else
  match s.proc? p with
  | none => s
  | some pr =>
    match pr.target with
    | some t => resume body p fuel iv (s.eraseCb t (.resume p))
    | none => resume body p fuel iv s

/-- what the callback loop of `step` carries along -/
structure LoopSt (τ σ : Type) where
  s : KState τ σ
  /-- `StopSimulation` was raised by a callback of this event, carrying the event's outcome (the stop is deferred to
  the end of the loop, for successful and failed until-events alike) -/
  stop : Option Outcome := none

/-- one callback invocation `callback(event)` -/
def runCb (body : σ → Resume → Burst τ σ) (fuel : Nat) (e : EvId) (l : LoopSt τ σ) (cb : Cb) : LoopSt τ σ :=
  let s := l.s
  match cb with
  | .resume p => { l with s := resume body p fuel e s }
  | .probe tag =>
    let o := match (s.ev e).out with
      | some (.ok v) => Outcome.ok (freezeVal s v)     -- a ConditionValue is looked at now
      | some o => o
      | none => Outcome.ok .none
    { l with s := s.emit (.probe tag e o s.now) }
  | .stop => { l with stop := some ((s.ev e).out.getD (.ok .none)) }
  | .intr iv =>
    match (s.ev iv).kind with
    | .intr p => { l with s := deliverInterrupt body fuel iv p s }
    | _ => l
  | .check c => { l with s := condCheck s c e }
  | .build c => { l with s := condBuild s c }
  | .trigPut r => { l with s := triggerPut s r }
  | .trigGet r => { l with s := triggerGet s r }

inductive StepResult (τ σ : Type) where
  | ok (s : KState τ σ)
  /-- `StopSimulation(outcome of the until-event)` left `step()` -/
  | stopped (o : Outcome) (s : KState τ σ)
  | empty
  /-- an exception left `step()` -/
  | crash (x : Exc) (s : KState τ σ)

/-- the clock jumps to the popped entry's time and the event's callbacks are detached -/
def openEvent (s : KState τ σ) (q : QEntry τ) (rest : List (QEntry τ)) : KState τ σ :=
  { s with now := q.time, agenda := rest, events := s.events.setIfInBounds q.ev { s.ev q.ev with cbs := none } }

/-- after the callback loop -/
def closeEvent (l : LoopSt τ σ) (e : EvId) : StepResult τ σ :=
  match l.stop with
  | some o => .stopped o l.s
  | none =>
    match (l.s.ev e).out with
    | some (.fail x) => if (l.s.ev e).defused then .ok l.s else .crash x l.s
    | _ => .ok l.s

/-- `Environment.step` -/
def step (body : σ → Resume → Burst τ σ) (fuel : Nat) (s : KState τ σ) : StepResult τ σ :=
  match popMin s.agenda with
  | none => .empty
  | some (q, rest) =>
    match (s.ev q.ev).cbs with
    | none =>
      -- the event was scheduled twice (e.g. succeed() on a live Process): `for callback in None`
      .crash ⟨"TypeError", [.str "'NoneType' object is not iterable"]⟩ (openEvent s q rest)
    | some cbs => closeEvent (cbs.foldl (runCb body fuel q.ev) { s := openEvent s q rest }) q.ev

/-- how a call of `Environment.run` ended -/
inductive RunResult (τ σ : Type) where
  | returned (v : Val) (s : KState τ σ)
  | raised (x : Exc) (s : KState τ σ)
  /-- the step budget of the model ran out (never reported as a result of the implementation) -/
  | outOfFuel (s : KState τ σ)

/-- what `run` does with a `StopSimulation(outcome)` that left `step()`: if its own until-event has failed it
re-raises that event's exception, otherwise it returns the value the stop carries (for a stale stop of an earlier,
aborted `run` on a failed event that is the exception object) -/
def onStop (untilEv : Option EvId) (o : Outcome) (s : KState τ σ) : RunResult τ σ :=
  match untilEv.bind (fun e => (s.ev e).out) with
  | some (.fail x) => .raised x s
  | _ =>
    match o with
    | .ok v => .returned v s
    | .fail x => .returned (.str x.ty) s

/-- the `while True: self.step()` loop of `run`; `untilEv` = the until-event (the sentinel for a numeric until) -/
def runLoop (body : σ → Resume → Burst τ σ) (fuel : Nat) (untilEv : Option EvId) : Nat → KState τ σ → RunResult τ σ
  | 0, s => .outOfFuel s
  | n + 1, s =>
    match step body fuel s with
    | .ok s' => runLoop body fuel untilEv n s'
    | .stopped o s' => onStop untilEv o s'
    | .crash x s' => .raised x s'
    | .empty => if untilEv.isSome then .raised (runtimeErr "No scheduled events left but \"until\" event was not triggered") s
                else .returned .none s

/-- `run(until=None)` -/
def runAll (body : σ → Resume → Burst τ σ) (fuel n : Nat) (s : KState τ σ) : RunResult τ σ :=
  runLoop body fuel none n s

/-- `run(until=at)` for a number `at` -/
def runUntilTime (body : σ → Resume → Burst τ σ) (fuel n : Nat) (at_ : τ) (s : KState τ σ) : RunResult τ σ :=
  if at_ ≤ s.now then .raised (valueErr "until must be > the current simulation time") s else
  let u := s.events.size
  let s := (s.newEv { kind := .sentinel, cbs := some [], out := some (.ok .none) }).1
  let s := s.scheduleAt u URGENT at_
  let s := s.addCb u .stop
  runLoop body fuel (some u) n s

/-- `run(until=event)` -/
def runUntilEvent (body : σ → Resume → Burst τ σ) (fuel n : Nat) (e : EvId) (s : KState τ σ) : RunResult τ σ :=
  if s.processed e then
    match (s.ev e).out with
    | some (.ok v) => .returned v s
    | some (.fail x) => .returned (.str x.ty) s   -- `until.value` of a failed event is the exception object
    | none => .returned .none s
  else runLoop body fuel (some e) n (s.addCb e .stop)
