import OnlVerif.Kernel.Step
/-!
# A small script language for kernel programs

The correspondence check generates programs in this language, interprets them as genuine Python
generators on the real `onl.sim` kernel (`harness/kscript.py`) and as `body : SSt → Resume → Burst`
on the model.  Events live in numbered *slots* shared by all processes of a program.
-/

inductive Instr (τ : Type) where
  | timeout (slot : Nat) (d : τ) (v : Val)
  | event (slot : Nat)
  | succeed (slot : Nat) (v : Val)
  | fail (slot : Nat) (ty : String) (arg : Int)
  | spawn (slot : Nat) (prog : Nat) (name : Nat)
  | interrupt (slot : Nat) (cause : Int)
  | probe (slot : Nat) (tag : Nat)
  | log (tag : Int)
  | yield (slot : Nat) (h : Nat)
  | cond (all : Bool) (slot : Nat) (ops : List Nat)
  | request (slot : Nat) (res : Nat) (prio : Int) (preempt : Bool)
  | release (slot : Nat) (res : Nat) (reqSlot : Nat)
  | cancel (slot : Nat)
  | exit (slot : Nat) (res : Nat)
  | cput (slot : Nat) (res : Nat) (amount : Int)
  | cget (slot : Nat) (res : Nat) (amount : Int)
  | sput (slot : Nat) (res : Nat) (item : Int)
  | sget (slot : Nat) (res : Nat) (filter : Nat)
  | ret (v : Val)
  | raise (ty : String) (arg : Int)
  | retev (slot : Nat)
  deriving Inhabited

/-- handlers of `yield`: what the process does when an exception arrives at the yield
0 = go on, 1 = yield the same slot again (once), 2 = return 0, 3 = re-raise, 10+k = skip k instructions -/
abbrev Handler := Nat

/-- local state of a script process -/
structure SSt where
  name : Nat
  prog : Nat
  pc : Nat
  pend : Option (Nat × Handler) := none
  deriving Inhabited

abbrev Progs (τ : Type) := Array (Array (Instr τ))

variable {τ : Type} [Num τ]

/-- tagged log line -/
def logS (what : String) (v : Val) (k : Burst τ SSt) : Burst τ SSt :=
  .call (.log what v) fun _ => k

/-- store the created event in `slot` (API errors were already recorded by `runBurst`) -/
def bindSlot (slot : Nat) (r : Reply) (next : Burst τ SSt) : Burst τ SSt :=
  match r with
  | .ev e => .call (.store slot (.ev e)) fun _ => next
  | _ => next

/-- load a slot and continue with the event it holds, or skip the instruction if it holds none -/
def withSlot (slot : Nat) (next : Burst τ SSt) (f : EvId → Burst τ SSt) : Burst τ SSt :=
  .call (.load slot) fun r =>
    match r with
    | .val (.ev e) => f e
    | _ => next

/-- load the events of several slots (slots without event are dropped) -/
def loadAll : List Nat → List EvId → (List EvId → Burst τ SSt) → Burst τ SSt
  | [], acc, k => k acc.reverse
  | sl :: rest, acc, k => .call (.load sl) fun r =>
    match r with
    | .val (.ev e) => loadAll rest (e :: acc) k
    | _ => loadAll rest acc k

/-- execute the instruction suffix `is` of program `prog` starting at index `pc` -/
def execL (name prog : Nat) : Nat → List (Instr τ) → Burst τ SSt
  | _, [] => .ret .none
  | pc, i :: is =>
    let next := execL name prog (pc + 1) is
    match i with
    | .timeout slot d v => .call (.timeout d v) fun r => bindSlot slot r next
    | .event slot => .call .event fun r => bindSlot slot r next
    | .succeed slot v => withSlot slot next fun e => .call (.succeed e v) fun _ => next
    | .fail slot ty arg => withSlot slot next fun e => .call (.fail e ⟨ty, [.int arg]⟩) fun _ => next
    | .spawn slot p nm => .call (.spawn { name := nm, prog := p, pc := 0 }) fun r => bindSlot slot r next
    | .interrupt slot cause => withSlot slot next fun e => .call (.interrupt e (.int cause)) fun _ => next
    | .probe slot tag => withSlot slot next fun e => .call (.probe e tag) fun _ => next
    | .log tag => logS "log" (.int tag) next
    | .yield slot h => withSlot slot next fun e => .yield e { name, prog, pc := pc + 1, pend := some (slot, h) }
    | .cond all slot ops => loadAll ops [] fun es => .call (.cond all es) fun r => bindSlot slot r next
    | .request slot res prio pre => .call (.request res prio pre) fun r => bindSlot slot r next
    | .release slot res rs => withSlot rs next fun e => .call (.release res e) fun r => bindSlot slot r next
    | .cancel slot => withSlot slot next fun e => .call (.cancel e) fun _ => next
    | .exit slot res => withSlot slot next fun e => .call (.cancel e) fun r =>
        match r with
        | .err _ => next
        | _ => .call (.release res e) fun _ => next
    | .cput slot res a => .call (.cput res a) fun r => bindSlot slot r next
    | .cget slot res a => .call (.cget res a) fun r => bindSlot slot r next
    | .sput slot res it => .call (.sput res it) fun r => bindSlot slot r next
    | .sget slot res f => .call (.sget res f) fun r => bindSlot slot r next
    | .ret v => .ret v
    | .raise ty arg => .raise ⟨ty, [.int arg]⟩
    -- `return slots.get(slot)`: the generator returns the event object a slot holds (a launcher that hands the handle of the
    -- process it started to its caller), `None` if the slot holds none; the value is an event like any other value
    | .retev slot => withSlot slot (.ret .none) fun e => .ret (.ev e)

def cont (progs : Progs τ) (st : SSt) : Burst τ SSt :=
  execL st.name st.prog st.pc (((progs.getD st.prog #[]).toList).drop st.pc)

/-- the generator body of a script process -/
def body (progs : Progs τ) (st : SSt) (r : Resume) : Burst τ SSt :=
  match r with
  | .start => logS "start" .none (cont progs st)
  | .value v => logS "got" v (cont progs st)
  | .exc x =>
    logS s!"exc {x.ty}" (x.args.headD .none) <|
    match st.pend with
    | some (slot, 1) =>
      withSlot slot (cont progs st) fun e => .yield e { st with pend := some (slot, 0) }
    | some (_, 2) => .ret (.int 0)
    | some (_, 3) => .raise x
    | some (_, h) => if 10 ≤ h then cont progs { st with pc := st.pc + (h - 10) } else cont progs st
    | none => cont progs st
