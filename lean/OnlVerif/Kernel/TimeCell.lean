import OnlVerif.Kernel.Types
/-!
# Keeping a time value in a shared cell of `K`

The shared cells of the kernel model (`Call.load/store`) hold `Val`s, and `Val` has no scalar constructor.  Programs that
keep a time in an attribute (`Timer.expire_time`, `Packet.current_time`) go through this codec; the theorems use only
`dec (enc x) = some x`.
-/

/-- how a time value is kept in a shared cell -/
class TimeCell (τ : Type) where
  enc : τ → Val
  dec : Val → Option τ

/-- a `float` is kept by its bit pattern -/
instance : TimeCell Float where
  enc x := .int (x.toBits.toNat : Int)
  dec
    | .int i => some (Float.ofBits i.toNat.toUInt64)
    | _ => none

/-- a rational is kept as sign, numerator, denominator (in the three number fields of a `Val.preempted`, the only
constructor with three numbers that `freezeVal` leaves alone when a value is logged) -/
instance : TimeCell Rat where
  enc x := .preempted (some (if x.num < 0 then 1 else 0)) x.num.natAbs x.den
  dec
    | .preempted (some sg) n d => some (mkRat (if sg = 1 then -(n : Int) else (n : Int)) d)
    | _ => none

