import OnlVerif.Kernel.Types
/-!
# Kernel model `K`: interrupts, resources, conditions, API calls

Every state change is a small named function so that invariants can be proved one function at a
time (`OnlVerif/Lemmas/Kernel*.lean`).
-/

variable {τ σ : Type} [Num τ]

/-! ## Interruption -/

/-- `Interruption.__init__` (reached through `Process.interrupt`) -/
def mkInterrupt (s : KState τ σ) (p : EvId) (cause : Val) : KState τ σ × Option Exc :=
  if s.triggered p then (s, some (runtimeErr "terminated")) else
  if s.active == some p then (s, some (runtimeErr "self")) else
  let iv := s.events.size
  let s := (s.newEv { kind := .intr p, cbs := some [.intr iv], out := some (.fail ⟨"Interrupt", [cause]⟩), defused := true }).1
  (s.schedule iv URGENT Num.zero, none)

/-! ## Resources (`onl/sim/resources`) -/

/-- `PriorityRequest.key = (priority, time, not preempt)`, compared as a Python tuple -/
def keyLt (a b : ReqData τ) : Bool :=
  a.prio < b.prio || (a.prio == b.prio &&
    (decide (a.time < b.time) || (!decide (b.time < a.time) && (a.preempt && !b.preempt))))

def reqOf (s : KState τ σ) (e : EvId) : ReqData τ :=
  (s.ev e).req.getD { res := 0, time := Num.zero }

/-- `SortedQueue.append`: append, then stable sort by key = insert behind every entry whose key is ≤ -/
def insertSorted (s : KState τ σ) (e : EvId) : List EvId → List EvId
  | [] => [e]
  | x :: xs => if keyLt (reqOf s e) (reqOf s x) then e :: x :: xs else x :: insertSorted s e xs

/-- `sorted(users, key=key)[-1]`: the maximal key, the last one among equals -/
def worstUser (s : KState τ σ) : List EvId → Option EvId
  | [] => none
  | u :: us =>
    match worstUser s us with
    | none => some u
    | some w => if keyLt (reqOf s w) (reqOf s u) then some u else some w

/-- `PreemptiveResource._do_put`, the part before `super()._do_put` -/
def preemptStep (s : KState τ σ) (r : ResId) (e : EvId) : KState τ σ :=
  let rr := s.res r
  let rq := reqOf s e
  if rr.capacity.any (fun c => decide (c ≤ rr.users.length)) && rq.preempt then
    match worstUser s rr.users with
    | none => s
    | some w =>
      if keyLt rq (reqOf s w) then
        match (reqOf s w).proc with
        | some vp => (mkInterrupt (s.setUsers r (rr.users.erase w)) vp (.preempted rq.proc w r)).1
        | none => s.setUsers r (rr.users.erase w)
      else s
  else s

def hasRoom (cap : Option Nat) (n : Nat) : Bool :=
  match cap with
  | none => true
  | some c => n < c

/-- `PreemptiveResource._do_put` runs its eviction step before the common `_do_put` -/
def prePut (s : KState τ σ) (r : ResId) (e : EvId) : KState τ σ :=
  if (s.res r).kind == .preemptive then preemptStep s r e else s

/-- the guard of `_do_put`: can request `e` be granted in state `s`? -/
def canPut (s : KState τ σ) (r : ResId) (e : EvId) : Bool :=
  let rr := s.res r
  match rr.kind with
  | .resource | .priority | .preemptive => hasRoom rr.capacity rr.users.length
  | .container =>
    match rr.capacity with
    | none => true
    | some c => decide ((reqOf s e).amount ≤ (c : Int) - rr.level)
  | .store | .pstore | .fstore => hasRoom rr.capacity rr.items.length

/-- the effect of a granted `_do_put` -/
def applyPut (s : KState τ σ) (r : ResId) (e : EvId) : KState τ σ :=
  let rr := s.res r
  let rq := reqOf s e
  match rr.kind with
  | .resource | .priority | .preemptive => ((s.setUsers r (rr.users ++ [e])).setUsage e).trigger e (.ok .none)
  | .container => (s.setLevel r (rr.level + rq.amount)).trigger e (.ok .none)
  | .store | .pstore | .fstore => (s.setItems r (rr.items ++ [rq.item])).trigger e (.ok .none)

/-- `_do_put` of the resource classes. Returns the new state and the `proceed` flag. -/
def doPut (s : KState τ σ) (r : ResId) (e : EvId) : KState τ σ × Bool :=
  if canPut (prePut s r e) r e then (applyPut (prePut s r e) r e, true) else (prePut s r e, false)

/-- the filters a `FilterStore.get` may carry (a small family; index = `ReqData.filter`) -/
def filterOk (f : Nat) (x : Int) : Bool :=
  match f with
  | 0 => true
  | 1 => x % 2 == 0
  | 2 => x % 2 == 1
  | 3 => decide (5 ≤ x)
  | 4 => decide (x < 3)
  | _ => false

def listMin : List Int → Option Int
  | [] => none
  | x :: xs => match listMin xs with
    | none => some x
    | some m => if m < x then some m else some x

/-- what a `_do_get` hands out, if it can be served in state `s` (`Release` and container gets hand out `None`) -/
def getItem (s : KState τ σ) (r : ResId) (e : EvId) : Option Val :=
  let rr := s.res r
  match rr.kind with
  | .resource | .priority | .preemptive => some .none
  | .container => if (reqOf s e).amount ≤ rr.level then some .none else none
  | .store => rr.items.head?.map Val.int
  | .pstore => (listMin rr.items).map Val.int
  | .fstore => (rr.items.find? (filterOk (reqOf s e).filter)).map Val.int

/-- the state after handing `v` to get request `e` (before the request event is triggered) -/
def takeOut (s : KState τ σ) (r : ResId) (e : EvId) (v : Val) : KState τ σ :=
  let rr := s.res r
  match rr.kind with
  | .resource | .priority | .preemptive => s.setUsers r (rr.users.erase (reqOf s e).releaseOf)
  | .container => s.setLevel r (rr.level - (reqOf s e).amount)
  | .store => s.setItems r rr.items.tail
  | .pstore | .fstore =>
    match v with
    | .int x => s.setItems r (rr.items.erase x)
    | _ => s

/-- `_do_get` of the resource classes; a `FilterStore` never stops the scan -/
def doGet (s : KState τ σ) (r : ResId) (e : EvId) : KState τ σ × Bool :=
  match getItem s r e with
  | some v => ((takeOut s r e v).trigger e (.ok v), true)
  | none => (s, (s.res r).kind == .fstore)

def dropPutQ (s : KState τ σ) (r : ResId) (e : EvId) : KState τ σ := s.setPutQ r ((s.res r).putQ.erase e)

def dropGetQ (s : KState τ σ) (r : ResId) (e : EvId) : KState τ σ := s.setGetQ r ((s.res r).getQ.erase e)

/-- `BaseResource._trigger_put`: walk the queue in order; a granted request leaves the queue;
stop at the first request whose `_do_put` says "do not proceed". `q` is the queue as it was when
the scan started (only the entry under the cursor can leave it during the scan). -/
def scanPut (r : ResId) : List EvId → KState τ σ → KState τ σ
  | [], s => s
  | e :: rest, s =>
    let sp := doPut s r e
    let s1 := if sp.1.triggered e then dropPutQ sp.1 r e else sp.1
    if sp.2 then scanPut r rest s1 else s1

def scanGet (r : ResId) : List EvId → KState τ σ → KState τ σ
  | [], s => s
  | e :: rest, s =>
    let sp := doGet s r e
    let s1 := if sp.1.triggered e then dropGetQ sp.1 r e else sp.1
    if sp.2 then scanGet r rest s1 else s1

def triggerPut (s : KState τ σ) (r : ResId) : KState τ σ := scanPut r (s.res r).putQ s
def triggerGet (s : KState τ σ) (r : ResId) : KState τ σ := scanGet r (s.res r).getQ s

def isPrioKind (k : ResKind) : Bool := k == .priority || k == .preemptive
/-- kinds whose `put` is a `Request` -/
def isResKind (k : ResKind) : Bool := k == .resource || k == .priority || k == .preemptive
def isStoreKind (k : ResKind) : Bool := k == .store || k == .pstore || k == .fstore
/-- calling a method the resource class does not have -/
def attrErr : Exc := ⟨"AttributeError", []⟩

/-- `put_queue.append(request)` (a `SortedQueue` for the two priority classes) -/
def enqPut (s : KState τ σ) (r : ResId) (e : EvId) : KState τ σ :=
  s.setPutQ r (if isPrioKind (s.res r).kind then insertSorted s e (s.res r).putQ else (s.res r).putQ ++ [e])

/-- `get_queue.append(request)` -/
def enqGet (s : KState τ σ) (r : ResId) (e : EvId) : KState τ σ := s.setGetQ r ((s.res r).getQ ++ [e])

/-- `Put.__init__`: create the request, enqueue it, subscribe `_trigger_get`, scan -/
def mkPut (s : KState τ σ) (r : ResId) (rq : ReqData τ) : KState τ σ × EvId :=
  let e := s.events.size
  let s := (s.newLabelled { kind := .put r, cbs := some [.trigGet r], out := none, req := some rq }).1
  (triggerPut (enqPut s r e) r, e)

/-- `Get.__init__` -/
def mkGet (s : KState τ σ) (r : ResId) (rq : ReqData τ) : KState τ σ × EvId :=
  let e := s.events.size
  let s := (s.newLabelled { kind := .get r, cbs := some [.trigPut r], out := none, req := some rq }).1
  (triggerGet (enqGet s r e) r, e)

/-- `Put.cancel` / `Get.cancel` (with the rescan) -/
def cancelReq (s : KState τ σ) (e : EvId) : KState τ σ × Option Exc :=
  if s.triggered e then (s, none) else
  match (s.ev e).kind with
  | .put r =>
    if (s.res r).putQ.contains e then (triggerPut (dropPutQ s r e) r, none)
    else (s, some (valueErr "list.remove(x): x not in list"))
  | .get r =>
    if (s.res r).getQ.contains e then (triggerGet (dropGetQ s r e) r, none)
    else (s, some (valueErr "list.remove(x): x not in list"))
  | _ => (s, none)

/-! ## Conditions -/

def condOps (s : KState τ σ) (c : EvId) : Bool × List EvId :=
  match (s.ev c).kind with
  | .cond all ops => (all, ops)
  | _ => (true, [])

def isCond (s : KState τ σ) (e : EvId) : Bool :=
  match (s.ev e).kind with
  | .cond _ _ => true
  | _ => false

/-- `Condition.all_events` / `Condition.any_events` -/
def evaluate (all : Bool) (nOps count : Nat) : Bool :=
  if all then nOps == count else (count > 0 || nOps == 0)

/-- `Condition._check(event)` -/
def condCheck (s : KState τ σ) (c e : EvId) : KState τ σ :=
  if s.triggered c then s else
  match (s.ev e).out with
  | some (.fail x) => ((s.bumpCount c).defuse e).trigger c (.fail x)
  | _ =>
    if evaluate (condOps s c).1 (condOps s c).2.length ((s.ev c).count + 1) then (s.bumpCount c).trigger c (.ok .none)
    else s.bumpCount c

/-- remove one `_check` of condition `c` from the callbacks of `e`, if it is there -/
def eraseCheck (s : KState τ σ) (c e : EvId) : KState τ σ :=
  match (s.ev e).cbs with
  | some l => if l.contains (.check c) then s.eraseCb e (.check c) else s
  | none => s

/-- `Condition._remove_check_callbacks` (fuel bounds the nesting depth) -/
def removeChecks : Nat → EvId → KState τ σ → KState τ σ
  | 0, _, s => s
  | fuel + 1, c, s =>
    (condOps s c).2.foldl (fun s e =>
      if isCond (eraseCheck s c e) e then removeChecks fuel e (eraseCheck s c e) else eraseCheck s c e) s

/-- `Condition._populate_value` -/
def populate : Nat → KState τ σ → EvId → List EvId
  | 0, _, _ => []
  | fuel + 1, s, c =>
    (condOps s c).2.flatMap fun e =>
      if isCond s e then populate fuel s e
      else if s.processed e then [e] else []

/-- `Condition._build_value(event)` -/
def condBuild (s : KState τ σ) (c : EvId) : KState τ σ :=
  let s := removeChecks (c + 1) c s
  match (s.ev c).out with
  | some (.ok _) => s.setOut c (.ok (.cv (populate (c + 1) s c)))
  | _ => s

/-- `Condition.__init__` -/
def mkCond (s : KState τ σ) (all : Bool) (ops : List EvId) : KState τ σ × EvId :=
  let (s, c) := s.newLabelled { kind := .cond all ops, cbs := some [], out := none }
  if ops.isEmpty then (s.trigger c (.ok (.cv [])), c) else
  let s := ops.foldl (fun s e => if s.processed e then condCheck s c e else s.addCb e (.check c)) s
  (s.addCb c (.build c), c)

/-! ## API calls issued by a process body -/

/-- Execute one kernel API call issued by process `self`. -/
def doCall (s : KState τ σ) (self : EvId) : Call τ σ → KState τ σ × Reply
  | .timeout d v =>
    if d < Num.zero then (s, .err (valueErr "Negative delay")) else
    let (s, e) := s.newLabelled { kind := .timeout, cbs := some [], out := some (.ok v) }
    (s.schedule e NORMAL d, .ev e)
  | .event =>
    let (s, e) := s.newLabelled { kind := .plain, cbs := some [], out := none }
    (s, .ev e)
  | .succeed e v =>
    if s.triggered e then (s, .err (runtimeErr "already triggered")) else
    (s.trigger e (.ok v), .unit)
  | .fail e x =>
    if s.triggered e then (s, .err (runtimeErr "already triggered")) else
    (s.trigger e (.fail x), .unit)
  | .spawn st =>
    -- Process.__init__: the process event, then Initialize(env, process) scheduled URGENT
    let p := s.events.size
    let s := (s.newLabelled { kind := .proc, cbs := some [], out := none }).1
    let s := s.setProc p { st, target := some (p + 1) }      -- `self._target = Initialize(env, self)`
    let s := (s.newEv { kind := .init p, cbs := some [.resume p], out := some (.ok .none) }).1
    (s.schedule (p + 1) URGENT Num.zero, .ev p)
  | .interrupt p cause =>
    if (s.ev p).kind != .proc then (s, .val .none) else
    match mkInterrupt s p cause with
    | (s, none) => (s, .unit)
    | (s, some x) => (s, .err x)
  | .probe e tag =>
    if s.processed e then (s, .unit) else (s.addCb e (.probe tag), .unit)
  | .cond all ops =>
    let (s, c) := mkCond s all ops
    (s, .ev c)
  | .request r prio preempt =>
    if !isResKind (s.res r).kind then (s, .err attrErr) else
    let (s, e) := mkPut s r { res := r, prio, preempt, time := s.now, proc := s.active }
    (s, .ev e)
  | .release r req =>
    if !isResKind (s.res r).kind then (s, .err attrErr) else
    let (s, e) := mkGet s r { res := r, time := s.now, proc := s.active, releaseOf := req }
    (s, .ev e)
  | .cancel e =>
    match cancelReq s e with
    | (s, none) => (s, .unit)
    | (s, some x) => (s, .err x)
  | .cput r amount =>
    if (s.res r).kind != .container then (s, .err attrErr) else
    if amount ≤ 0 then (s, .err (valueErr "amount must be > 0")) else
    let (s, e) := mkPut s r { res := r, amount, time := s.now, proc := s.active }
    (s, .ev e)
  | .cget r amount =>
    if (s.res r).kind != .container then (s, .err attrErr) else
    if amount ≤ 0 then (s, .err (valueErr "amount must be > 0")) else
    let (s, e) := mkGet s r { res := r, amount, time := s.now, proc := s.active }
    (s, .ev e)
  | .sput r item =>
    if !isStoreKind (s.res r).kind then (s, .err attrErr) else
    let (s, e) := mkPut s r { res := r, item, time := s.now, proc := s.active }
    (s, .ev e)
  | .sget r filter =>
    if !isStoreKind (s.res r).kind then (s, .err attrErr) else
    let (s, e) := mkGet s r { res := r, filter, time := s.now, proc := s.active }
    (s, .ev e)
  | .log what v => (s.emit (.log self what (freezeVal s v) s.now), .unit)
  | .load k => (s, .val (((s.shared.find? (·.1 == k)).map (·.2)).getD .none))
  | .store k v => ({ s with shared := (k, v) :: s.shared.filter (·.1 != k) }, .unit)
