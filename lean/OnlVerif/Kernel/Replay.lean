import OnlVerif.Kernel.Script
/-!
# Replaying kernel cases through the model (line protocol, `Float` time)

Input (one record per line):
```
CASE <id> <step|plan>
RES <kind> <capacity|inf> <init>
PROG                      -- starts the next program
I <op> <args…>            -- an instruction of the current program
MAIN <prog> <name>        -- a process started before the run, in this order
PLAN <seg>…               -- T<bits> | E<slot> | S<n> | A
END
```
Output: the observation trace of the case, one line per observation, then `ENDCASE`.
-/

abbrev KS := KState Float SSt

def procName (s : KS) (p : EvId) : String :=
  match s.proc? p with
  | some pr => toString pr.st.name
  | none => "?"

partial def fmtVal (s : KS) : Val → String
  | .none => "None"
  | .int i => s!"i{i}"
  | .str _ => "s*"
  | .ev e => s!"e{(s.ev e).label}"
  | .frozen t => t
  | .cv keys => "cv[" ++ ",".intercalate (keys.map fun k =>
      let v := match (s.ev k).out with
        | some (.ok v) => fmtVal s v
        | some (.fail x) => s!"!{x.ty}"
        | none => "?"
      s!"e{(s.ev k).label}={v}") ++ "]"
  | .preempted by_ req res =>
      let b := match by_ with | some p => procName s p | none => "None"
      let u := match (reqOf s req).usageSince with | some t => t.bitsStr | none => "None"
      s!"pre({b},{u},{res})"

def fmtExc (s : KS) (x : Exc) : String :=
  x.ty ++ " " ++ " ".intercalate (x.args.map (fmtVal s))

def fmtObs (s : KS) : Obs Float → Option String
  | .log p what v now => some s!"P {procName s p} {what} {fmtVal s v} @{now.bitsStr}"
  | .probe tag e o now =>
    let os := match o with
      | .ok v => s!"ok {fmtVal s v}"
      | .fail x => s!"fail {fmtExc s x}"
    some s!"B {tag} e{(s.ev e).label} {os} @{now.bitsStr}"
  | .callErr p x now => some s!"P {procName s p} callerr {x.ty} @{now.bitsStr}"
  | .resumed .. => none
  | .ended .. => none

def labels (s : KS) (l : List EvId) : String :=
  "[" ++ ",".intercalate (l.map fun e => toString (s.ev e).label) ++ "]"

def insertSortedInt (x : Int) : List Int → List Int
  | [] => [x]
  | y :: ys => if x ≤ y then x :: y :: ys else y :: insertSortedInt x ys

def fmtRes (s : KS) (r : ResRec) : String :=
  match r.kind with
  | .resource | .priority | .preemptive => s!"u{labels s r.users} q{labels s r.putQ}"
  | .container => s!"lv{r.level} pq{r.putQ.length} gq{r.getQ.length}"
  | .pstore => s!"it{r.items.foldr insertSortedInt []} pq{r.putQ.length} gq{r.getQ.length}"
  | .store | .fstore => s!"it{r.items} pq{r.putQ.length} gq{r.getQ.length}"

def fmtSnap (s : KS) : String :=
  "S " ++ " | ".intercalate (s.resources.toList.map (fmtRes s)) ++ s!" @{s.now.bitsStr}"

inductive PlanSeg where
  | time (t : Float) | event (slot : Nat) | steps (n : Nat) | all

structure KCase where
  id : String := ""
  stepMode : Bool := true
  res : Array ResRec := #[]
  progs : Array (Array (Instr Float)) := #[]
  mains : Array (Nat × Nat) := #[]
  plan : List PlanSeg := []

def parseVal (t : String) : Val :=
  if t == "N" then .none else .int (t.drop 1).toInt!

def parseInstr (ws : List String) : Option (Instr Float) :=
  match ws with
  | ["timeout", sl, d, v] => some (.timeout sl.toNat! (Float.ofBitsStr d) (parseVal v))
  | ["event", sl] => some (.event sl.toNat!)
  | ["succeed", sl, v] => some (.succeed sl.toNat! (parseVal v))
  | ["fail", sl, ty, a] => some (.fail sl.toNat! ty a.toInt!)
  | ["spawn", sl, p, nm] => some (.spawn sl.toNat! p.toNat! nm.toNat!)
  | ["interrupt", sl, c] => some (.interrupt sl.toNat! c.toInt!)
  | ["probe", sl, tag] => some (.probe sl.toNat! tag.toNat!)
  | ["log", tag] => some (.log tag.toInt!)
  | ["yield", sl, h] => some (.yield sl.toNat! h.toNat!)
  | "allof" :: sl :: ops => some (.cond true sl.toNat! (ops.map (·.toNat!)))
  | "anyof" :: sl :: ops => some (.cond false sl.toNat! (ops.map (·.toNat!)))
  | ["request", sl, r, pr, pe] => some (.request sl.toNat! r.toNat! pr.toInt! (pe == "1"))
  | ["release", sl, r, rs] => some (.release sl.toNat! r.toNat! rs.toNat!)
  | ["cancel", sl] => some (.cancel sl.toNat!)
  | ["exit", sl, r] => some (.exit sl.toNat! r.toNat!)
  | ["cput", sl, r, a] => some (.cput sl.toNat! r.toNat! a.toInt!)
  | ["cget", sl, r, a] => some (.cget sl.toNat! r.toNat! a.toInt!)
  | ["sput", sl, r, a] => some (.sput sl.toNat! r.toNat! a.toInt!)
  | ["sget", sl, r, f] => some (.sget sl.toNat! r.toNat! f.toNat!)
  | ["ret", v] => some (.ret (parseVal v))
  | ["raise", ty, a] => some (.raise ty a.toInt!)
  | ["retev", sl] => some (.retev sl.toNat!)
  | _ => none

def parseRes (ws : List String) : Option ResRec :=
  match ws with
  | [k, cap, ini] =>
    let kind : Option ResKind := match k with
      | "resource" => some .resource | "priority" => some .priority | "preemptive" => some .preemptive
      | "container" => some .container | "store" => some .store | "pstore" => some .pstore
      | "fstore" => some .fstore | _ => none
    kind.map fun kind => { kind, capacity := if cap == "inf" then none else some cap.toNat!, level := ini.toInt! }
  | _ => none

def parseSeg (t : String) : Option PlanSeg :=
  if t == "A" then some .all
  else if t.startsWith "T" then some (.time (Float.ofBitsStr (t.drop 1).toString))
  else if t.startsWith "E" then some (.event (t.drop 1).toNat!)
  else if t.startsWith "S" then some (.steps (t.drop 1).toNat!)
  else none

def stepBudget : Nat := 5000
def resumeFuel : Nat := 1000

def initState (c : KCase) : KS :=
  let s : KS := { now := 0, resources := c.res }
  c.mains.foldl (fun s (pn : Nat × Nat) => (doCall s 0 (.spawn { name := pn.2, prog := pn.1, pc := 0 })).1) s

/-- print the observations emitted since index `from_` -/
def flushTrace (s : KS) (from_ : Nat) : IO Unit := do
  for i in [from_:s.trace.size] do
    match s.trace[i]? with
    | some o =>
      match fmtObs s o with
      | some l => IO.println l
      | none => pure ()
    | none => pure ()

def fmtResult (r : RunResult Float SSt) : KS × String :=
  match r with
  | .returned v s => (s, s!"R {fmtVal s v} @{s.now.bitsStr}")
  | .raised x s => (s, s!"X {fmtExc s x} @{s.now.bitsStr}")
  | .outOfFuel s => (s, "OUT-OF-FUEL")

partial def runSteps (progs : Progs Float) (n : Nat) (snap : Bool) (s : KS) : IO (KS × Bool) := do
  if n == 0 then return (s, true)
  let from_ := s.trace.size
  match step (body progs) resumeFuel s with
  | .ok s' =>
    flushTrace s' from_
    if snap then IO.println (fmtSnap s')
    runSteps progs (n - 1) snap s'
  | .stopped o s' =>
    flushTrace s' from_
    let v := match o with | .ok v => fmtVal s' v | .fail _ => "s*"
    IO.println s!"X StopSimulation {v} @{s'.now.bitsStr}"
    if snap then return (s', false) else runSteps progs (n - 1) snap s'
  | .empty => return (s, false)
  | .crash x s' =>
    flushTrace s' from_
    IO.println s!"X {fmtExc s' x} @{s'.now.bitsStr}"
    if snap then return (s', false) else runSteps progs (n - 1) snap s'

def slotEv (s : KS) (slot : Nat) : Option EvId :=
  match s.shared.find? (·.1 == slot) with
  | some (_, Val.ev e) => some e
  | _ => none

def runCase (c : KCase) : IO Unit := do
  IO.println s!"CASE {c.id}"
  let s := initState c
  if c.stepMode then
    let (s, _) ← runSteps c.progs stepBudget true s
    IO.println s!"F @{s.now.bitsStr}"
  else
    let mut s := s
    for seg in c.plan ++ [PlanSeg.all] do
      let from_ := s.trace.size
      match seg with
      | .steps n =>
        let (s', ok) ← runSteps c.progs n false s
        if !ok then IO.println s!"X EmptySchedule  @{s'.now.bitsStr}"
        s := s'
      | .time t =>
        let (s', line) := fmtResult (runUntilTime (body c.progs) resumeFuel stepBudget t s)
        flushTrace s' from_; IO.println line; s := s'
      | .event slot =>
        match slotEv s slot with
        | some e =>
          let (s', line) := fmtResult (runUntilEvent (body c.progs) resumeFuel stepBudget e s)
          flushTrace s' from_; IO.println line; s := s'
        | none => IO.println "R skip"
      | .all =>
        let (s', line) := fmtResult (runAll (body c.progs) resumeFuel stepBudget s)
        flushTrace s' from_; IO.println line; s := s'
    IO.println s!"F @{s.now.bitsStr}"
  IO.println "ENDCASE"

partial def kernelLoop (h : IO.FS.Stream) (c : KCase) : IO Unit := do
  let line ← h.getLine
  if line.isEmpty then return
  let ws := (line.trimAscii.toString.splitOn " ").filter (· ≠ "")
  match ws with
  | ["CASE", id, mode] => kernelLoop h { id, stepMode := mode == "step" }
  | "RES" :: rest =>
    match parseRes rest with
    | some r => kernelLoop h { c with res := c.res.push r }
    | none => IO.println s!"BADLINE {line}"; kernelLoop h c
  | ["PROG"] => kernelLoop h { c with progs := c.progs.push #[] }
  | "I" :: rest =>
    match parseInstr rest with
    | some i => kernelLoop h { c with progs := c.progs.modify (c.progs.size - 1) (·.push i) }
    | none => IO.println s!"BADLINE {line}"; kernelLoop h c
  | ["MAIN", p, nm] => kernelLoop h { c with mains := c.mains.push (p.toNat!, nm.toNat!) }
  | "PLAN" :: segs => kernelLoop h { c with plan := segs.filterMap parseSeg }
  | ["END"] => runCase c; kernelLoop h {}
  | [] => kernelLoop h c
  | _ => IO.println s!"BADLINE {line}"; kernelLoop h c
