import OnlVerif.Kernel.Agenda
/-!
# Kernel model `K`: data

A functional model of `onl.sim`: `Environment`, `Event`, `Timeout`, `Initialize`, `Interruption`,
`Process`, `Condition`, and the resource classes of `onl.sim.resources`.

Process bodies are *interaction trees* (`Burst`): one resumption of a Python generator is a finite
tree of kernel API calls ending in a `yield`, a `return` or a `raise`.  A program is a function
`body : σ → Resume → Burst τ σ` for an arbitrary type `σ` of local states; every theorem about `K`
quantifies over all `σ` and all `body`, which is what "for all process programs" means formally.
-/

abbrev ResId := Nat

inductive Val where
  | none
  | int (i : Int)
  | str (s : String)
  | ev (e : EvId)
  /-- a `ConditionValue`: the processed leaf operands, in operand order -/
  | cv (keys : List EvId)
  /-- `Preempted(by, usage_since, resource)`; `usage_since` is read from the victim's request -/
  | preempted (by_ : Option EvId) (req : EvId) (res : ResId)
  /-- a value rendered at the moment it was observed (used for `ConditionValue`s in log lines) -/
  | frozen (s : String)
  deriving BEq, Inhabited, Repr

structure Exc where
  ty : String
  args : List Val
  deriving BEq, Inhabited, Repr

inductive Outcome where
  | ok (v : Val)
  | fail (x : Exc)
  deriving BEq, Inhabited, Repr

/-- defunctionalised callbacks (`Event.callbacks` holds bound methods) -/
inductive Cb where
  | resume (p : EvId)        -- Process._resume of process p
  | intr (iv : EvId)         -- Interruption._interrupt of interruption iv
  | probe (tag : Nat)        -- a harness probe
  | stop                     -- StopSimulation.callback
  | check (c : EvId)         -- Condition._check of condition c
  | build (c : EvId)         -- Condition._build_value of condition c
  | trigPut (r : ResId)      -- BaseResource._trigger_put
  | trigGet (r : ResId)      -- BaseResource._trigger_get
  deriving DecidableEq, Inhabited, Repr

/-- is this callback a `Process._resume`? -/
def Cb.isResume : Cb → Bool
  | .resume _ => true
  | _ => false

inductive Kind where
  | plain
  | timeout
  | init (p : EvId)
  | intr (p : EvId)
  | proc
  | cond (all : Bool) (ops : List EvId)
  | put (r : ResId)
  | get (r : ResId)
  | sentinel
  deriving DecidableEq, Inhabited, Repr

/-- the data a resource request carries (`Request`, `PriorityRequest`, `Release`,
`ContainerPut/Get`, `StorePut/Get`, `FilterStoreGet`) -/
structure ReqData (τ : Type) where
  res : ResId
  amount : Int := 0
  item : Int := 0
  prio : Int := 0
  preempt : Bool := true
  time : τ
  proc : Option EvId := none
  usageSince : Option τ := none
  filter : Nat := 0
  releaseOf : EvId := 0

structure EvRec (τ : Type) where
  kind : Kind
  /-- `Event.callbacks`; `none` ⇔ processed -/
  cbs : Option (List Cb)
  /-- `none` ⇔ `_value is PENDING` -/
  out : Option Outcome
  defused : Bool := false
  /-- `Condition._count` -/
  count : Nat := 0
  /-- creation index among the events created by program instructions (0 = internal event) -/
  label : Nat := 0
  req : Option (ReqData τ) := none

instance {τ} : Inhabited (EvRec τ) := ⟨{ kind := .plain, cbs := none, out := none }⟩

inductive ResKind where
  | resource | priority | preemptive | container | store | pstore | fstore
  deriving BEq, Inhabited, Repr

structure ResRec where
  kind : ResKind
  /-- `none` = `float('inf')` -/
  capacity : Option Nat
  putQ : List EvId := []
  getQ : List EvId := []
  users : List EvId := []
  level : Int := 0
  items : List Int := []

/-- what `resources.getD` yields for an index that is not a resource: an empty unbounded Resource -/
instance : Inhabited ResRec := ⟨{ kind := .resource, capacity := none }⟩

/-- kernel API calls a process body can make -/
inductive Call (τ σ : Type) where
  | timeout (d : τ) (v : Val)
  | event
  | succeed (e : EvId) (v : Val)
  | fail (e : EvId) (x : Exc)
  | spawn (s : σ)
  | interrupt (p : EvId) (cause : Val)
  | probe (e : EvId) (tag : Nat)
  | cond (all : Bool) (ops : List EvId)
  | request (r : ResId) (prio : Int) (preempt : Bool)
  | release (r : ResId) (req : EvId)
  | cancel (e : EvId)
  | cput (r : ResId) (amount : Int)
  | cget (r : ResId) (amount : Int)
  | sput (r : ResId) (item : Int)
  | sget (r : ResId) (filter : Nat)
  | log (what : String) (v : Val)
  | load (k : Nat)
  | store (k : Nat) (v : Val)

inductive Reply where
  | ev (e : EvId)
  | unit
  | err (x : Exc)
  | val (v : Val)
  deriving Inhabited

/-- one resumption of a generator -/
inductive Burst (τ σ : Type) where
  | call : Call τ σ → (Reply → Burst τ σ) → Burst τ σ
  | yield : EvId → σ → Burst τ σ
  | ret : Val → Burst τ σ
  | raise : Exc → Burst τ σ

/-- what `_resume` sends or throws into the generator -/
inductive Resume where
  | start
  | value (v : Val)
  | exc (x : Exc)
  deriving Inhabited, Repr

structure ProcRec (σ : Type) where
  st : σ
  /-- `Process._target` -/
  target : Option EvId

/-- observations (what process bodies and probe callbacks can see) -/
inductive Obs (τ : Type) where
  | resumed (p : EvId) (r : Resume) (now : τ)
  | log (p : EvId) (what : String) (v : Val) (now : τ)
  | probe (tag : Nat) (e : EvId) (o : Outcome) (now : τ)
  | callErr (p : EvId) (x : Exc) (now : τ)
  | ended (p : EvId) (o : Outcome) (now : τ)

structure KState (τ σ : Type) where
  now : τ
  agenda : List (QEntry τ) := []
  eid : Nat := 0
  events : Array (EvRec τ) := #[]
  procs : List (EvId × ProcRec σ) := []
  active : Option EvId := none
  trace : Array (Obs τ) := #[]
  shared : List (Nat × Val) := []
  resources : Array ResRec := #[]
  nlabel : Nat := 0

namespace KState
variable {τ σ : Type} [Num τ]

def ev (s : KState τ σ) (e : EvId) : EvRec τ := s.events.getD e default
def setEv (s : KState τ σ) (e : EvId) (r : EvRec τ) : KState τ σ :=
  { s with events := s.events.setIfInBounds e r }
/-- allocate an internal event -/
def newEv (s : KState τ σ) (r : EvRec τ) : KState τ σ × EvId :=
  ({ s with events := s.events.push r }, s.events.size)
/-- allocate an event created by a program instruction: it gets the next label -/
def newLabelled (s : KState τ σ) (r : EvRec τ) : KState τ σ × EvId :=
  ({ s with events := s.events.push { r with label := s.nlabel + 1 }, nlabel := s.nlabel + 1 }, s.events.size)
/-- `Environment.schedule` -/
def schedule (s : KState τ σ) (e : EvId) (prio : Nat) (delay : τ) : KState τ σ :=
  { s with agenda := { time := s.now + delay, prio, eid := s.eid, ev := e } :: s.agenda, eid := s.eid + 1 }
/-- `heappush(queue, (t, prio, next(eid), e))` with an absolute time (the numeric until-stop of `run`) -/
def scheduleAt (s : KState τ σ) (e : EvId) (prio : Nat) (t : τ) : KState τ σ :=
  { s with agenda := { time := t, prio, eid := s.eid, ev := e } :: s.agenda, eid := s.eid + 1 }
def emit (s : KState τ σ) (o : Obs τ) : KState τ σ := { s with trace := s.trace.push o }
def proc? (s : KState τ σ) (p : EvId) : Option (ProcRec σ) := (s.procs.find? (·.1 == p)).map (·.2)
def setProc (s : KState τ σ) (p : EvId) (r : ProcRec σ) : KState τ σ :=
  { s with procs := (p, r) :: s.procs.filter (·.1 != p) }
def res (s : KState τ σ) (r : ResId) : ResRec := s.resources.getD r default
def setRes (s : KState τ σ) (r : ResId) (x : ResRec) : KState τ σ :=
  { s with resources := s.resources.setIfInBounds r x }
def triggered (s : KState τ σ) (e : EvId) : Bool := (s.ev e).out.isSome
def processed (s : KState τ σ) (e : EvId) : Bool := (s.ev e).cbs.isNone

/-- append a callback to an event that is not processed yet -/
def addCb (s : KState τ σ) (e : EvId) (cb : Cb) : KState τ σ :=
  let r := s.ev e
  s.setEv e { r with cbs := r.cbs.map (· ++ [cb]) }

/-! ### leaf updates of an event record (each is one attribute assignment of the Python code) -/

/-- `event._ok, event._value = …` -/
def setOut (s : KState τ σ) (e : EvId) (o : Outcome) : KState τ σ := s.setEv e { s.ev e with out := some o }
/-- `event._defused = True` -/
def defuse (s : KState τ σ) (e : EvId) : KState τ σ := s.setEv e { s.ev e with defused := true }
/-- `condition._count += 1` -/
def bumpCount (s : KState τ σ) (c : EvId) : KState τ σ := s.setEv c { s.ev c with count := (s.ev c).count + 1 }
/-- `request.usage_since = now` -/
def setUsage (s : KState τ σ) (e : EvId) : KState τ σ :=
  s.setEv e { s.ev e with req := (s.ev e).req.map fun rq => { rq with usageSince := some s.now } }
/-- `event.callbacks.remove(cb)` (first occurrence; no effect on a processed event) -/
def eraseCb (s : KState τ σ) (e : EvId) (cb : Cb) : KState τ σ :=
  s.setEv e { s.ev e with cbs := (s.ev e).cbs.map (·.erase cb) }

/-- `Event.succeed` / `Event.fail` / `trigger` on an untriggered event: set the outcome, schedule NORMAL now -/
def trigger (s : KState τ σ) (e : EvId) (o : Outcome) : KState τ σ :=
  (s.setOut e o).schedule e NORMAL Num.zero

/-! ### leaf updates of a resource record -/

def setUsers (s : KState τ σ) (r : ResId) (l : List EvId) : KState τ σ := s.setRes r { s.res r with users := l }
def setLevel (s : KState τ σ) (r : ResId) (x : Int) : KState τ σ := s.setRes r { s.res r with level := x }
def setItems (s : KState τ σ) (r : ResId) (l : List Int) : KState τ σ := s.setRes r { s.res r with items := l }
def setPutQ (s : KState τ σ) (r : ResId) (l : List EvId) : KState τ σ := s.setRes r { s.res r with putQ := l }
def setGetQ (s : KState τ σ) (r : ResId) (l : List EvId) : KState τ σ := s.setRes r { s.res r with getQ := l }

end KState

/-- external form of a simple value at the current state -/
def renderSimple {τ σ : Type} [Num τ] (s : KState τ σ) : Val → String
  | .none => "None"
  | .int i => s!"i{i}"
  | .str _ => "s*"
  | .ev e => s!"e{(s.ev e).label}"
  | .frozen t => t
  | _ => "?"

/-- a `ConditionValue` reads its events' values when it is looked at: render it now -/
def freezeVal {τ σ : Type} [Num τ] (s : KState τ σ) : Val → Val
  | .cv keys => .frozen ("cv[" ++ ",".intercalate (keys.map fun k =>
      let v := match (s.ev k).out with
        | some (.ok v) => renderSimple s v
        | some (.fail x) => s!"!{x.ty}"
        | none => "?"
      s!"e{(s.ev k).label}={v}") ++ "]")
  | v => v

def runtimeErr (msg : String) : Exc := ⟨"RuntimeError", [.str msg]⟩
def valueErr (msg : String) : Exc := ⟨"ValueError", [.str msg]⟩
