import OnlVerif.Lemmas.KernelStep
import OnlVerif.Lemmas.KAccess
import OnlVerif.Props.C01
import OnlVerif.Lemmas.OnceRun
/-!
# C04 — interrupts reach a live process once, in issue order, ahead of ordinary events

Model: `Interruption.__init__`, `Interruption._interrupt`, `Initialize`, `Process._resume` in `OnlVerif/Kernel`.
-/

namespace C04
variable {σ : Type}
open QEntry

/-- **`interrupt()` on a live, non-active process schedules the Interruption at the current time with URGENT
priority** and a fresh `eid`; it is pre-failed with `Interrupt(cause)` and pre-defused. -/
theorem interrupt_now_urgent (s : KState ℚ σ) (p : EvId) (c : Val) (h1 : s.triggered p = false)
    (h2 : s.active ≠ some p) :
    (mkInterrupt s p c).2 = none ∧
    (mkInterrupt s p c).1.agenda = { time := s.now + Num.zero, prio := URGENT, eid := s.eid, ev := s.events.size } :: s.agenda ∧
    ((mkInterrupt s p c).1.ev s.events.size).out = some (.fail ⟨"Interrupt", [c]⟩) ∧
    ((mkInterrupt s p c).1.ev s.events.size).defused = true := by
  have h2' : (s.active == some p) = false := by simpa using h2
  unfold mkInterrupt
  simp only [h1, h2', Bool.false_eq_true, if_false]
  refine ⟨trivial, rfl, ?_, ?_⟩
  · show (((s.newEv _).1.schedule _ _ _).ev s.events.size).out = _
    rw [KState.ev_schedule, KState.ev_newEv, if_pos rfl]
  · show (((s.newEv _).1.schedule _ _ _).ev s.events.size).defused = _
    rw [KState.ev_schedule, KState.ev_newEv, if_pos rfl]

/-- hence the interrupt is processed **before any ordinary event of that instant**, whenever that event was triggered -/
theorem interrupt_before_ordinary (a b : QEntry ℚ) (ht : a.time = b.time) (ha : a.prio = URGENT) (hb : b.prio = NORMAL) :
    KeyLt a b := Or.inr ⟨ht, Or.inl (by rw [ha, hb]; decide)⟩

/-- **Several interrupts are delivered in the order issued**: a later `interrupt()` gets a larger `eid` at the same
`(time, URGENT)` key. -/
theorem interrupts_fifo (s : KState ℚ σ) (p p' : EvId) (c c' : Val)
    (h1 : (mkInterrupt s p c).2 = none) (h2 : (mkInterrupt (mkInterrupt s p c).1 p' c').2 = none) :
    ∃ a b rest, (mkInterrupt (mkInterrupt s p c).1 p' c').1.agenda = b :: a :: rest ∧ KeyLt a b := by
  unfold mkInterrupt at h1 h2 ⊢
  split at h1
  · cases h1
  · split at h1
    · cases h1
    · rename_i ha hb
      simp only [ha, hb, Bool.false_eq_true, if_false] at h2 ⊢
      split at h2
      · cases h2
      · split at h2
        · cases h2
        · rename_i hc hd
          simp only [hc, hd, Bool.false_eq_true, if_false]
          refine ⟨_, _, _, rfl, ?_⟩
          exact Or.inr ⟨rfl, Or.inr ⟨rfl, Nat.lt_succ_self _⟩⟩

/-- **Interrupting a finished process raises `RuntimeError` and has no other effect.** -/
theorem interrupt_refused_dead (s : KState ℚ σ) (p : EvId) (c : Val) (h : s.triggered p = true) :
    mkInterrupt s p c = (s, some (runtimeErr "terminated")) := by
  unfold mkInterrupt; simp only [h, if_true]

/-- **Interrupting oneself raises `RuntimeError` and has no other effect.** -/
theorem interrupt_refused_self (s : KState ℚ σ) (p : EvId) (c : Val) (h1 : s.triggered p = false)
    (h2 : s.active = some p) : mkInterrupt s p c = (s, some (runtimeErr "self")) := by
  unfold mkInterrupt
  simp only [h1, Bool.false_eq_true, if_false, h2, beq_self_eq_true, if_true]

/-- **Interrupts still pending when the process ends are discarded without error.** -/
theorem dead_victim_ignored (body : σ → Resume → Burst ℚ σ) (fuel : Nat) (iv p : EvId) (s : KState ℚ σ)
    (h : s.triggered p = true) : deliverInterrupt body fuel iv p s = s := by
  unfold deliverInterrupt; simp only [h, if_true]

/-- **Delivery detaches the victim from the event it was waiting for** (exactly one registration is removed; the
registrations of every other waiter, and the event's outcome, are untouched) **and resumes it with the Interruption**. -/
theorem interrupt_detaches (body : σ → Resume → Burst ℚ σ) (fuel : Nat) (iv p t : EvId) (s : KState ℚ σ)
    (pr : ProcRec σ) (h : s.triggered p = false) (hp : s.proc? p = some pr) (ht : pr.target = some t) :
    deliverInterrupt body fuel iv p s = resume body p fuel iv (s.eraseCb t (.resume p)) := by
  unfold deliverInterrupt
  simp only [h, Bool.false_eq_true, if_false, hp, ht]

theorem detach_keeps_others (s : KState ℚ σ) (t p : EvId) (L : List Cb) (hL : (s.ev t).cbs = some L)
    (hin : t < s.events.size) :
    ((s.eraseCb t (.resume p)).ev t).cbs = some (L.erase (.resume p)) ∧
    ((s.eraseCb t (.resume p)).ev t).out = (s.ev t).out ∧
    ∀ cb, cb ≠ .resume p → (cb ∈ L.erase (.resume p) ↔ cb ∈ L) := by
  unfold KState.eraseCb
  rw [KState.ev_setEv, if_pos ⟨rfl, hin⟩]
  refine ⟨by simp [hL], rfl, ?_⟩
  intro cb hne
  exact List.mem_erase_of_ne hne

/-- the victim receives `Interrupt(cause)` thrown at its current yield -/
theorem victim_receives_cause (s : KState ℚ σ) (p iv : EvId) (c : Val)
    (h : (s.ev iv).out = some (.fail ⟨"Interrupt", [c]⟩)) : (deliver s p iv).2 = .exc ⟨"Interrupt", [c]⟩ := by
  show resumeArg s p iv = _
  unfold resumeArg; rw [h]

/-- **A process can never be interrupted before its first statement has run**: its `Initialize` entry is created by
`env.process(...)`, i.e. before any `interrupt()` that names the process, with the same URGENT priority — so it has
the smaller key whenever both are due at the same instant. -/
theorem never_before_start (s : KState ℚ σ) (self : EvId) (st : σ) (s2 : KState ℚ σ) (p : EvId) (c : Val)
    (hx : Ext (doCall s self (.spawn st)).1 s2) (hok : (mkInterrupt s2 p c).2 = none) :
    ∃ init intr, init ∈ (mkInterrupt s2 p c).1.agenda ∧ intr ∈ (mkInterrupt s2 p c).1.agenda ∧
      init.prio = URGENT ∧ intr.prio = URGENT ∧ init.time ≤ intr.time ∧ init.eid < intr.eid := by
  obtain ⟨new, hag, hnew⟩ := hx.grows
  obtain ⟨i, hi⟩ := C01.process_start_urgent s self st
  have hinit : ({ time := s.now + Num.zero, prio := URGENT, eid := s.eid, ev := i } : QEntry ℚ) ∈ s2.agenda := by
    rw [hag, hi]
    exact List.mem_append_right _ List.mem_cons_self
  unfold mkInterrupt at hok ⊢
  split at hok
  · cases hok
  · split at hok
    · cases hok
    · rename_i ha hb
      simp only [ha, hb, Bool.false_eq_true, if_false]
      refine ⟨{ time := s.now + Num.zero, prio := URGENT, eid := s.eid, ev := i },
        { time := s2.now + Num.zero, prio := URGENT, eid := s2.eid, ev := s2.events.size }, ?_, ?_, rfl, rfl, ?_, ?_⟩
      · exact List.mem_cons_of_mem _ hinit
      · exact List.mem_cons_self
      · show s.now + Num.zero ≤ s2.now + Num.zero
        rw [hx.now_eq]; exact le_refl _
      · show s.eid < s2.eid
        have := hx.eid_le
        have h2 : (doCall s self (.spawn st)).1.eid = s.eid + 1 := by simp only [doCall]; rfl
        omega

/-! ## global: after an interrupt the old target no longer resumes the process

Hypotheses as in `Props/C02.lean`: `Once.Inv0` for the initial state, `Once.SafeRun` for the run. -/

/-- **The detachment is complete**: in any state that satisfies the kernel invariant (also in the middle of a step),
a live victim `p` waiting for `t` is registered on `t` exactly once and nowhere else, so after
`callbacks.remove(_resume)` it is registered nowhere at all — whatever is processed next cannot resume it before it
has yielded again. -/
theorem interrupt_detaches_completely (g : Once.Ghost) (s : KState ℚ σ) (hi : Once.Inv g s) (hg : g.run = none)
    (p t : EvId) (pr : ProcRec σ) (hp : s.proc? p = some pr) (ht : pr.target = some t) (hlive : (s.ev p).out = none) :
    ∀ e L, ((s.eraseCb t (.resume p)).ev e).cbs = some L → Cb.resume p ∉ L :=
  ((hi.detach p t pr hg hp ht hlive).c.pend p (Or.inr rfl)).2.2

/-- **After an interrupt the process is no longer resumed by the event it was waiting for unless it yields it again**
(global form): in every state between two steps of a safe run, the callback list of an event `t` holds `_resume p`
only if `t` is the *current* target of `p` — the event `p` yielded last.  So once the interrupt burst has ended with
`p` waiting for something else (or finished), processing the old target `t`, whenever that happens, does not resume
`p`; and if `p` did yield `t` again it is resumed exactly once. -/
theorem no_resume_by_old_target (body : σ → Resume → Burst ℚ σ) (fuel : Nat) (s0 s : KState ℚ σ)
    (h0 : Once.Inv0 false s0) (hsafe : Once.SafeRun body fuel s0) (hr : KReach body fuel s0 s)
    (t : EvId) (L : List Cb) (p : EvId) (hL : (s.ev t).cbs = some L) :
    (∀ pr, s.proc? p = some pr → pr.target ≠ some t → Cb.resume p ∉ L) ∧
    ((s.ev p).out ≠ none → Cb.resume p ∉ L) ∧
    (Cb.resume p ∈ L → L.count (.resume p) = 1) := by
  have hi := (Once.Inv0.reach body fuel h0 (fun h => by cases h) hsafe (fun h => by cases h) hr).regOnce
  refine ⟨?_, ?_, ?_⟩
  · intro pr hp hne hm
    obtain ⟨_, ⟨pr', h1, h2⟩, _⟩ := hi t L p hL hm
    rw [hp] at h1; cases h1
    exact hne h2
  · intro ho hm
    exact ho (hi t L p hL hm).1
  · intro hm
    exact (hi t L p hL hm).2.2

/-- **…while the event keeps every other waiter**: removing the victim's registration leaves the registration of every
other process on that event (and on every other event) exactly as it was. -/
theorem detach_keeps_other_waiters (s : KState ℚ σ) (t p p' e : EvId) (hne : p' ≠ p) (L : List Cb)
    (hL : (s.ev e).cbs = some L) :
    ∃ L', ((s.eraseCb t (.resume p)).ev e).cbs = some L' ∧ L'.count (.resume p') = L.count (.resume p') ∧
      ((s.eraseCb t (.resume p)).ev e).out = (s.ev e).out := by
  have ho : ((s.eraseCb t (.resume p)).ev e).out = (s.ev e).out := Once.out_setEv s t e _ rfl
  rw [Once.cbs_eraseCb]
  split
  · rename_i h; subst h
    rw [hL]
    exact ⟨L.erase (.resume p), rfl, List.count_erase_of_ne (fun h => hne (by cases h; rfl)), ho⟩
  · exact ⟨L, hL, rfl, ho⟩

end C04
