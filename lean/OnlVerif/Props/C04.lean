import OnlVerif.Lemmas.KernelStep
import OnlVerif.Lemmas.KAccess
import OnlVerif.Props.C01
/-!
# C04 — interrupts reach a live process once, in issue order, ahead of ordinary events

Model: `Interruption.__init__`, `Interruption._interrupt`, `Initialize`, `Process._resume` in `OnlVerif/Kernel`.
-/

namespace C04
variable {σ : Type}
open QEntry

/-- **`interrupt()` on a live, non-active process schedules the Interruption at the current time with URGENT
priority** and a fresh `eid`; it is pre-failed with `Interrupt(cause)` and pre-defused. -/
theorem interrupt_now_urgent (s : KState ℚ σ) (p : EvId) (c : Val) (h1 : s.triggered p = false)
    (h2 : s.active ≠ some p) :
    (mkInterrupt s p c).2 = none ∧
    (mkInterrupt s p c).1.agenda = { time := s.now + Num.zero, prio := URGENT, eid := s.eid, ev := s.events.size } :: s.agenda ∧
    ((mkInterrupt s p c).1.ev s.events.size).out = some (.fail ⟨"Interrupt", [c]⟩) ∧
    ((mkInterrupt s p c).1.ev s.events.size).defused = true := by
  have h2' : (s.active == some p) = false := by simpa using h2
  unfold mkInterrupt
  simp only [h1, h2', Bool.false_eq_true, if_false]
  refine ⟨trivial, rfl, ?_, ?_⟩
  · show (((s.newEv _).1.schedule _ _ _).ev s.events.size).out = _
    rw [KState.ev_schedule, KState.ev_newEv, if_pos rfl]
  · show (((s.newEv _).1.schedule _ _ _).ev s.events.size).defused = _
    rw [KState.ev_schedule, KState.ev_newEv, if_pos rfl]

/-- hence the interrupt is processed **before any ordinary event of that instant**, whenever that event was triggered -/
theorem interrupt_before_ordinary (a b : QEntry ℚ) (ht : a.time = b.time) (ha : a.prio = URGENT) (hb : b.prio = NORMAL) :
    KeyLt a b := Or.inr ⟨ht, Or.inl (by rw [ha, hb]; decide)⟩

/-- **Several interrupts are delivered in the order issued**: a later `interrupt()` gets a larger `eid` at the same
`(time, URGENT)` key. -/
theorem interrupts_fifo (s : KState ℚ σ) (p p' : EvId) (c c' : Val)
    (h1 : (mkInterrupt s p c).2 = none) (h2 : (mkInterrupt (mkInterrupt s p c).1 p' c').2 = none) :
    ∃ a b rest, (mkInterrupt (mkInterrupt s p c).1 p' c').1.agenda = b :: a :: rest ∧ KeyLt a b := by
  unfold mkInterrupt at h1 h2 ⊢
  split at h1
  · cases h1
  · split at h1
    · cases h1
    · rename_i ha hb
      simp only [ha, hb, Bool.false_eq_true, if_false] at h2 ⊢
      split at h2
      · cases h2
      · split at h2
        · cases h2
        · rename_i hc hd
          simp only [hc, hd, Bool.false_eq_true, if_false]
          refine ⟨_, _, _, rfl, ?_⟩
          exact Or.inr ⟨rfl, Or.inr ⟨rfl, Nat.lt_succ_self _⟩⟩

/-- **Interrupting a finished process raises `RuntimeError` and has no other effect.** -/
theorem interrupt_refused_dead (s : KState ℚ σ) (p : EvId) (c : Val) (h : s.triggered p = true) :
    mkInterrupt s p c = (s, some (runtimeErr "terminated")) := by
  unfold mkInterrupt; simp only [h, if_true]

/-- **Interrupting oneself raises `RuntimeError` and has no other effect.** -/
theorem interrupt_refused_self (s : KState ℚ σ) (p : EvId) (c : Val) (h1 : s.triggered p = false)
    (h2 : s.active = some p) : mkInterrupt s p c = (s, some (runtimeErr "self")) := by
  unfold mkInterrupt
  simp only [h1, Bool.false_eq_true, if_false, h2, beq_self_eq_true, if_true]

/-- **Interrupts still pending when the process ends are discarded without error.** -/
theorem dead_victim_ignored (body : σ → Resume → Burst ℚ σ) (fuel : Nat) (iv p : EvId) (s : KState ℚ σ)
    (h : s.triggered p = true) : deliverInterrupt body fuel iv p s = s := by
  unfold deliverInterrupt; simp only [h, if_true]

/-- **Delivery detaches the victim from the event it was waiting for** (exactly one registration is removed; the
registrations of every other waiter, and the event's outcome, are untouched) **and resumes it with the Interruption**. -/
theorem interrupt_detaches (body : σ → Resume → Burst ℚ σ) (fuel : Nat) (iv p t : EvId) (s : KState ℚ σ)
    (pr : ProcRec σ) (h : s.triggered p = false) (hp : s.proc? p = some pr) (ht : pr.target = some t) :
    deliverInterrupt body fuel iv p s = resume body p fuel iv (s.eraseCb t (.resume p)) := by
  unfold deliverInterrupt
  simp only [h, Bool.false_eq_true, if_false, hp, ht]

theorem detach_keeps_others (s : KState ℚ σ) (t p : EvId) (L : List Cb) (hL : (s.ev t).cbs = some L)
    (hin : t < s.events.size) :
    ((s.eraseCb t (.resume p)).ev t).cbs = some (L.erase (.resume p)) ∧
    ((s.eraseCb t (.resume p)).ev t).out = (s.ev t).out ∧
    ∀ cb, cb ≠ .resume p → (cb ∈ L.erase (.resume p) ↔ cb ∈ L) := by
  unfold KState.eraseCb
  rw [KState.ev_setEv, if_pos ⟨rfl, hin⟩]
  refine ⟨by simp [hL], rfl, ?_⟩
  intro cb hne
  exact List.mem_erase_of_ne hne

/-- the victim receives `Interrupt(cause)` thrown at its current yield -/
theorem victim_receives_cause (s : KState ℚ σ) (p iv : EvId) (c : Val)
    (h : (s.ev iv).out = some (.fail ⟨"Interrupt", [c]⟩)) : (deliver s p iv).2 = .exc ⟨"Interrupt", [c]⟩ := by
  show resumeArg s p iv = _
  unfold resumeArg; rw [h]

/-- **A process can never be interrupted before its first statement has run**: its `Initialize` entry is created by
`env.process(...)`, i.e. before any `interrupt()` that names the process, with the same URGENT priority — so it has
the smaller key whenever both are due at the same instant. -/
theorem never_before_start (s : KState ℚ σ) (self : EvId) (st : σ) (s2 : KState ℚ σ) (p : EvId) (c : Val)
    (hx : Ext (doCall s self (.spawn st)).1 s2) (hok : (mkInterrupt s2 p c).2 = none) :
    ∃ init intr, init ∈ (mkInterrupt s2 p c).1.agenda ∧ intr ∈ (mkInterrupt s2 p c).1.agenda ∧
      init.prio = URGENT ∧ intr.prio = URGENT ∧ init.time ≤ intr.time ∧ init.eid < intr.eid := by
  obtain ⟨new, hag, hnew⟩ := hx.grows
  obtain ⟨i, hi⟩ := C01.process_start_urgent s self st
  have hinit : ({ time := s.now + Num.zero, prio := URGENT, eid := s.eid, ev := i } : QEntry ℚ) ∈ s2.agenda := by
    rw [hag, hi]
    exact List.mem_append_right _ List.mem_cons_self
  unfold mkInterrupt at hok ⊢
  split at hok
  · cases hok
  · split at hok
    · cases hok
    · rename_i ha hb
      simp only [ha, hb, Bool.false_eq_true, if_false]
      refine ⟨{ time := s.now + Num.zero, prio := URGENT, eid := s.eid, ev := i },
        { time := s2.now + Num.zero, prio := URGENT, eid := s2.eid, ev := s2.events.size }, ?_, ?_, rfl, rfl, ?_, ?_⟩
      · exact List.mem_cons_of_mem _ hinit
      · exact List.mem_cons_self
      · show s.now + Num.zero ≤ s2.now + Num.zero
        rw [hx.now_eq]; exact le_refl _
      · show s.eid < s2.eid
        have := hx.eid_le
        have h2 : (doCall s self (.spawn st)).1.eid = s.eid + 1 := by simp only [doCall]; rfl
        omega

end C04
