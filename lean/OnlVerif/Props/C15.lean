import OnlVerif.Lemmas.SchedRR
import OnlVerif.Lemmas.SchedWRR
import OnlVerif.Lemmas.SchedDRRProps
import OnlVerif.Lemmas.GenDrr
/-!
# C15 — round-robin schedulers give each backlogged class its per-visit allowance

Models: the MultiQueueServer LTS (`OnlVerif/Net/MultiQueue.lean`) with the records `RR.sched`, `WRR.sched`,
`DRR.sched` (`OnlVerif/Net/Sched/*.lean`, literal transcriptions of the three `run()` loops).  A *decision burst* is
the burst (`init`, `wake`, `sendDone`) in which the loop commits to a class and takes its head packet.
"In every admissible run" = for every action sequence the LTS accepts from the initial state; credits, quanta and
times are exact rationals.  "Backlogged" is what the loops test: `queue_count[flow] > 0` (RR, WRR), `class_count[c] > 0`
(DRR); by C12 (`mq_counters_eq`) these counters are the packets waiting or in transmission.
-/

namespace C15
open MQ

/-! ### RR -/

/-- **RR visits `flows` cyclically in declaration order, skips the flows that are not backlogged, and sends one packet per
visit**: in every admissible run, at every decision burst that hands the loop a packet `p` of flow `c`: `c` is entry `j`
of `flows`, it is backlogged, `p` is its oldest packet, and every entry cyclically from the resume index (0 after a
wake-up, the entry after the one just served otherwise) up to `j` is not backlogged. -/
theorem rr_visit (cfg : RR.Cfg ℚ) (t0 : ℚ) (as : List (MAct ℚ)) (l : List (Entry RR.Pc))
    (h : runLog (RR.sched cfg) (MQ.init (RR.Pc.at 0) t0 []) as = .ok l) (e : Entry RR.Pc) (he : e ∈ l)
    (hdec : e.act = .init ∨ e.act = .wake ∨ e.act = .sendDone) (c : Nat) (p : MPkt)
    (hph : e.post.phase = .pktHanded c p) :
    ∃ j rest, e.post.ctl = .got j ∧ cfg.flows[j]? = some c ∧ 0 < cnt e.pre.queueCount c ∧
      RR.CyclicSkips cfg (cnt e.pre.queueCount) (RR.resumeIndex e.pre) j ∧ storeOf e.pre.stores c = p :: rest := by
  obtain ⟨hc, hs⟩ := runLog_mem_of (RR.sched cfg) RR.CtlOk (fun s a s' o hJ hst => (RR.step_rr cfg s s' a o hJ hst).1)
    as _ l (fun _ => rfl) h e he
  obtain ⟨j, rest, h1, h2, h3, h4, h5, _⟩ := (RR.step_rr cfg e.pre e.post e.act e.out hc hs).2 hdec c p hph
  exact ⟨j, rest, h1, h2, h3, h4, h5⟩

/-- **One packet per visit**: having taken the packet of entry `j` the loop sends it and resumes its scan at entry `j + 1`. -/
theorem rr_one_per_visit (cfg : RR.Cfg ℚ) (s s' : MQState ℚ RR.Pc) (o : MOut ℚ) (j : Nat) (hctl : s.ctl = .got j)
    (hs : step (RR.sched cfg) s .pktResume = .ok (s', o)) :
    ∃ c p, s.phase = .pktHanded c p ∧ s'.phase = .spawned p ∧ RR.resumeIndex s' = j + 1 := by
  obtain ⟨c, p, h1, h2, _, h4⟩ := RR.pktResume_rr cfg s s' o j hctl hs
  exact ⟨c, p, h1, h2, h4⟩

/-! ### WRR -/

/-- **WRR visits `weights` cyclically in declaration order and sends at most `weight` packets per visit**: at every decision
burst that hands the loop a packet `p` of class `c`: `c` is entry `m` of `weights` with weight `wt`, it is backlogged, `p`
is its oldest packet, it is packet number `jj < wt` of this visit; and either the visit of the resume entry simply
continues, or that visit is over (allowance used up or class not backlogged), `jj = 0`, and every entry cyclically in
between has weight 0 or is not backlogged. -/
theorem wrr_visit (cfg : WRR.Cfg ℚ) (t0 : ℚ) (as : List (MAct ℚ)) (l : List (Entry WRR.Pc))
    (h : runLog (WRR.sched cfg) (MQ.init (WRR.Pc.at 0 0) t0 []) as = .ok l) (e : Entry WRR.Pc) (he : e ∈ l)
    (hdec : e.act = .init ∨ e.act = .wake ∨ e.act = .sendDone) (c : Nat) (p : MPkt)
    (hph : e.post.phase = .pktHanded c p) :
    ∃ m jj wt rest, e.post.ctl = .got m jj ∧ cfg.weights[m]? = some (c, wt) ∧ jj < wt ∧ 0 < cnt e.pre.queueCount c ∧
      ((m = (WRR.resumePoint e.pre).1 ∧ jj = (WRR.resumePoint e.pre).2) ∨
       (jj = 0 ∧ WRR.Exhausted cfg (cnt e.pre.queueCount) (WRR.resumePoint e.pre).1 (WRR.resumePoint e.pre).2 ∧
          WRR.CyclicSkips cfg (cnt e.pre.queueCount) ((WRR.resumePoint e.pre).1 + 1) m)) ∧
      storeOf e.pre.stores c = p :: rest := by
  obtain ⟨hc, hs⟩ := runLog_mem_of (WRR.sched cfg) WRR.CtlOk (fun s a s' o hJ hst => (WRR.step_wrr cfg s s' a o hJ hst).1)
    as _ l (fun _ => rfl) h e he
  obtain ⟨m, jj, wt, rest, h1, h2, h3, h4, h5, h6, _⟩ := (WRR.step_wrr cfg e.pre e.post e.act e.out hc hs).2 hdec c p hph
  exact ⟨m, jj, wt, rest, h1, h2, h3, h4, h5, h6⟩

/-- having taken packet number `jj` of the visit of entry `m`, the loop sends it and resumes the same visit with
`jj + 1` packets sent -/
theorem wrr_visit_counts (cfg : WRR.Cfg ℚ) (s s' : MQState ℚ WRR.Pc) (o : MOut ℚ) (m jj : Nat) (hctl : s.ctl = .got m jj)
    (hs : step (WRR.sched cfg) s .pktResume = .ok (s', o)) :
    ∃ c p, s.phase = .pktHanded c p ∧ s'.phase = .spawned p ∧ WRR.resumePoint s' = (m, jj + 1) := by
  obtain ⟨c, p, h1, h2, _, h4⟩ := WRR.pktResume_wrr cfg s s' o m jj hctl hs
  exact ⟨c, p, h1, h2, h4⟩

/-! ### DRR -/

/-- **The quantum** of class `c` with weight `w` is `1500·w / min weight` — at least `MIN_QUANTUM = 1500`. -/
theorem drr_quantum (cfg : DRR.Cfg ℚ) (hc : DRR.CfgOk cfg) (cls w : Nat) (h : lookup cfg.weights cls = some w) :
    DRR.quantum cfg cls = some (((1500 * w : ℕ) : ℚ) / ((DRR.minWeight cfg.weights : ℕ) : ℚ)) ∧
    (1500 : ℚ) ≤ ((1500 * w : ℕ) : ℚ) / ((DRR.minWeight cfg.weights : ℕ) : ℚ) := by
  have hq : DRR.quantum cfg cls = some (((1500 * w : ℕ) : ℚ) / ((DRR.minWeight cfg.weights : ℕ) : ℚ)) := by
    simp only [DRR.quantum, h, Option.map_some]; rfl
  exact ⟨hq, DRR.quantum_ge cfg hc.pos cls _ hq⟩

/-- **The DRR visit rules** (1): every accepted step of the scheduler is one of the explicit rules `DRR.DTrans`, and every
burst of its loop a chain of the moves `DRR.DSettles` (`OnlVerif/Lemmas/SchedDRR.lean`): a round visits the entries of
`class_count` in declaration order; `visitAdd` adds the quantum to the credit of a class with `class_count > 0`,
`visitSkip` adds nothing to one without; while credit > 0 and the class is backlogged its head — the parked
head-of-line packet if there is one (`takeSend`/`takePark`), else the oldest packet of its store (`innerGet`) — is sent
if `size ≤ credit` (`resumeSend`, `current_packet` set at once) and otherwise parked as head of line
(`resumePark`), which ends the visit; `sendDone` books the transmission. -/
theorem drr_visit (cfg : DRR.Cfg ℚ) (s s' : DRR.St) (a : MAct ℚ) (o : MOut ℚ)
    (h : step (DRR.sched cfg) s a = .ok (s', o)) : DRR.DTrans cfg s a s' o :=
  DRR.step_dtrans cfg s s' a o h

/-- **The DRR visit rules** (2), as equations: the quantum is added to the credit on a visit to a backlogged class; the
packet in hand is sent iff `size ≤ credit`, else parked; booking a transmission decrements the class count, subtracts
the size, and zeroes the credit when the class has emptied. -/
theorem drr_visit_rules (cfg : DRR.Cfg ℚ) (k : DRR.Ctl ℚ) (v : View) (i cls : Nat) (n : Int) (d q : ℚ) (p : MPkt)
    (hcc : k.classCount[i]? = some (cls, n)) (hd : lookup k.deficit cls = some d) (hq : DRR.quantum cfg cls = some q) :
    (k.pc = .visit i → 0 < n →
      (DRR.sched cfg).micro k v = .goto { DRR.addQuantum k cls d q with pc := .inner i } ∧
      lookup (DRR.addQuantum k cls d q).deficit cls = some (d + q)) ∧
    (k.pc = .visit i → ¬ 0 < n → (DRR.sched cfg).micro k v = .goto { k with pc := .inner i }) ∧
    (k.pc = .gotPkt i → DRR.classOf cfg p.flow = some cls →
      ((p.size : ℚ) ≤ d → (DRR.sched cfg).onPkt k v cls p = .send true { k with pc := .sent i }) ∧
      (¬ (p.size : ℚ) ≤ d → (DRR.sched cfg).onPkt k v cls p = .park { k with pc := .visit (i + 1) })) ∧
    (k.pc = .sent i →
      (DRR.sched cfg).onDone k p = .ok { DRR.book k cls d n p with pc := .inner i } ∧
      lookup (DRR.book k cls d n p).classCount cls = some (n - 1) ∧
      lookup (DRR.book k cls d n p).deficit cls = some (if n - 1 = 0 then 0 else d - p.size)) := by
  refine ⟨fun hpc hn => ⟨?_, ?_⟩, fun hpc hn => ?_, fun hpc hcl => ⟨fun hle => ?_, fun hle => ?_⟩, fun hpc => ⟨?_, ?_, ?_⟩⟩
  · simp only [DRR.sched, DRR.micro, hpc, hcc, hn, if_true, hd, hq]
  · simp only [DRR.addQuantum, lookup_setKey_same]
  · simp only [DRR.sched, DRR.micro, hpc, hcc, hn, if_false]
  · have : (Num.ofNat p.size : ℚ) ≤ d := hle
    simp only [DRR.sched, DRR.onPkt, hpc, hd, hcl, if_true, this]
  · have : ¬ (Num.ofNat p.size : ℚ) ≤ d := hle
    simp only [DRR.sched, DRR.onPkt, hpc, hd, hcl, if_true, this, if_false]
  · simp only [DRR.sched, DRR.onDone, hpc, hcc, hd]
  · rw [DRR.book_classCount, lookup_setKey_same]
  · rw [DRR.book_deficit, lookup_setKey_same]

/-- **An unaffordable head is the next packet of its class**: the packets of a class leave in the order parked head,
then store — the conservation law of C12 for DRR (`heldC` lists the packet in hand, the parked packet, the store). -/
theorem drr_parked_next (cfg : DRR.Cfg ℚ) (t0 : ℚ) (as : List (MAct ℚ))
    (s : DRR.St) (ins outs : List MPkt) (hr : runActs (DRR.sched cfg) (DRR.start cfg t0) as = .ok (s, ins, outs)) (c : Nat) :
    ofClass (DRR.sched cfg) c ins = ofClass (DRR.sched cfg) c outs ++
      ((inHand s).filter (fun p => decide ((DRR.sched cfg).classOf p.flow = some c)) ++
        (lookupD s.hol c none).toList ++ storeOf s.stores c) := by
  have hz : ∀ e ∈ DRR.counts0 cfg, e.2 = 0 := by
    intro e he
    simp only [DRR.counts0, List.mem_map] at he
    obtain ⟨x, _, rfl⟩ := he; rfl
  have h0 := init_inv (DRR.sched cfg) (DRR.ctl0 cfg) t0 (DRR.counts0 cfg) hz
  have := (run_inv (DRR.sched cfg) (DRR.lawful cfg) as _ s ins outs h0.1 hr).2 c
  rw [h0.2 c] at this
  simpa [heldC] using this

/-- **The credit of every class always stays within `[0, quantum + Lmax)`**: in every state reached by an admissible run
whose packets are at most `L` bytes. -/
theorem drr_credit_range (cfg : DRR.Cfg ℚ) (hc : DRR.CfgOk cfg) (L : ℚ) (hL : 0 < L) (t0 : ℚ) (s : DRR.St)
    (h : DRR.Reached cfg L t0 s) (cls : Nat) (d q : ℚ) (hd : lookup s.ctl.deficit cls = some d)
    (hq : DRR.quantum cfg cls = some q) : 0 ≤ d ∧ d < q + L := by
  have hg := (DRR.good_of_reached cfg hc L hL t0 s h).credit
  have hqp := DRR.quantum_pos cfg hc cls q hq
  refine ⟨hg.nonneg cls d hd, ?_⟩
  by_cases hk : DRR.curKey s.ctl = some cls
  · exact hg.visited cls d q hd hk hq
  · rcases hg.resting cls d hd hk with h1 | ⟨p, hp, h1⟩
    · linarith
    · have := hg.holSmall cls p hp; linarith

/-- **The ledger**: in every reachable state, for every class, bytes booked + credit = quantum × visits − credit forgotten. -/
theorem drr_ledger (cfg : DRR.Cfg ℚ) (hc : DRR.CfgOk cfg) (L : ℚ) (hL : 0 < L) (t0 : ℚ) (s : DRR.St)
    (h : DRR.Reached cfg L t0 s) (cls : Nat) (d q : ℚ) (hd : lookup s.ctl.deficit cls = some d)
    (hq : DRR.quantum cfg cls = some q) :
    (cnt s.ctl.sentBytes cls : ℚ) + d = q * (cnt s.ctl.visits cls : ℚ) - DRR.acc s.ctl.forfeited cls :=
  (DRR.good_of_reached cfg hc L hL t0 s h).ledger cls d q hd hq

/-- **Cyclic service**: over any window in which the classes at entries `ia < ib` both stay backlogged, the numbers of
visits (quantum additions) they receive differ by at most 1, and neither forgets any credit. -/
theorem drr_visits_alternate (cfg : DRR.Cfg ℚ) (hc : DRR.CfgOk cfg) (L : ℚ) (hL : 0 < L) (t0 : ℚ) (s1 s2 : DRR.St)
    (h1 : DRR.Reached cfg L t0 s1) (ia ib a b : Nat) (hlt : ia < ib) (outs : List (MOut ℚ))
    (hw : DRR.Window cfg L (DRR.Both ia ib a b) s1 outs s2) :
    |(cnt s2.ctl.visits a - cnt s1.ctl.visits a) - (cnt s2.ctl.visits b - cnt s1.ctl.visits b)| ≤ 1 ∧
    DRR.acc s2.ctl.forfeited a = DRR.acc s1.ctl.forfeited a ∧ DRR.acc s2.ctl.forfeited b = DRR.acc s1.ctl.forfeited b := by
  have hg := DRR.good_of_reached cfg hc L hL t0 s1 h1
  obtain ⟨_, _, hpsi, hfa, hfb, _⟩ := DRR.window_fair cfg L hL (DRR.quantum_pos cfg hc) ia ib a b s1 s2 outs hw hg
  refine ⟨?_, hfa, hfb⟩
  have mono : ∀ pc, DRR.passed ib pc ≤ DRR.passed ia pc ∧ 0 ≤ DRR.passed ib pc ∧ DRR.passed ia pc ≤ 1 := by
    intro pc
    cases pc <;> simp only [DRR.passed] <;> (repeat' split) <;> omega
  have m1 := mono s1.ctl.pc
  have m2 := mono s2.ctl.pc
  simp only [DRR.psi] at hpsi
  rw [abs_le]
  constructor <;> omega

/-- bytes of class `c` among the departures in a list of outputs -/
def bytesOf (cfg : DRR.Cfg ℚ) (c : Nat) (outs : List (MOut ℚ)) : Int := DRR.bytesOut cfg c outs

/-- **DRR fairness**: over any window of an admissible run (packets of at most `L` bytes) in which two classes `a ≠ b`
both stay backlogged, the bytes sent for them, divided by their quanta, differ by less than
`4 + 3·L·(1/Q_a + 1/Q_b)` — however long the window and whatever the packet sizes. -/
theorem drr_fair (cfg : DRR.Cfg ℚ) (hc : DRR.CfgOk cfg) (L : ℚ) (hL : 0 < L) (t0 : ℚ) (s1 s2 : DRR.St)
    (h1 : DRR.Reached cfg L t0 s1) (ia ib a b : Nat) (outs : List (MOut ℚ))
    (hw : DRR.Window cfg L (DRR.Both ia ib a b) s1 outs s2) (Qa Qb : ℚ)
    (hqa : DRR.quantum cfg a = some Qa) (hqb : DRR.quantum cfg b = some Qb) :
    |(bytesOf cfg a outs : ℚ) / Qa - (bytesOf cfg b outs : ℚ) / Qb| < 4 + 3 * L * (1 / Qa + 1 / Qb) := by
  have hq := DRR.quantum_pos cfg hc
  have hg1 := DRR.good_of_reached cfg hc L hL t0 s1 h1
  obtain ⟨hg2, _, hpsi, hfa, hfb, hacc⟩ := DRR.window_fair cfg L hL hq ia ib a b s1 s2 outs hw hg1
  -- credits exist for configured classes
  have hkey : ∀ (s : DRR.St), DRR.Good cfg L s → ∀ c q, DRR.quantum cfg c = some q → ∃ d, lookup s.ctl.deficit c = some d := by
    intro s hg c q hqc
    apply DRR.lookup_of_mem_keys
    rw [hg.dkeys]
    simp only [DRR.quantum, Option.map_eq_some_iff] at hqc
    obtain ⟨w, hw', _⟩ := hqc
    exact DRR.mem_keys_of_lookup _ _ _ hw'
  obtain ⟨da1, hda1⟩ := hkey s1 hg1 a Qa hqa
  obtain ⟨da2, hda2⟩ := hkey s2 hg2 a Qa hqa
  obtain ⟨db1, hdb1⟩ := hkey s1 hg1 b Qb hqb
  obtain ⟨db2, hdb2⟩ := hkey s2 hg2 b Qb hqb
  have range : ∀ (s : DRR.St), DRR.Good cfg L s → ∀ c d q, lookup s.ctl.deficit c = some d → DRR.quantum cfg c = some q →
      0 ≤ d ∧ d < q + L := by
    intro s hg c d q hd hqc
    have hqp := hq c q hqc
    refine ⟨hg.credit.nonneg c d hd, ?_⟩
    by_cases hk : DRR.curKey s.ctl = some c
    · exact hg.credit.visited c d q hd hk hqc
    · rcases hg.credit.resting c d hd hk with h1 | ⟨p, hp, h1⟩
      · linarith
      · have := hg.credit.holSmall c p hp; linarith
  have pendR : ∀ (s : DRR.St), DRR.Good cfg L s → ∀ c, (0 : ℚ) ≤ (DRR.pend cfg s c : ℚ) ∧ (DRR.pend cfg s c : ℚ) ≤ L := by
    intro s hg c
    simp only [DRR.pend]
    split
    · rename_i p hp
      split
      · obtain ⟨i, hi⟩ := hg.txpc p (Or.inr (Or.inr hp))
        have := (hg.credit.txClass i p hi (Or.inr (Or.inr hp))).2
        exact ⟨by exact_mod_cast Nat.zero_le p.size, by exact_mod_cast this⟩
      · exact ⟨by simp, by simpa using hL.le⟩
    · exact ⟨by simp, by simpa using hL.le⟩
  have pr : ∀ i pc, (0 : ℚ) ≤ (DRR.passed i pc : ℚ) ∧ (DRR.passed i pc : ℚ) ≤ 1 := by
    intro i pc
    have := DRR.passed_range i pc
    exact ⟨by exact_mod_cast this.1, by exact_mod_cast this.2⟩
  have hpsiQ : ((cnt s2.ctl.visits a : ℚ) - (DRR.passed ia s2.ctl.pc : ℚ)) - ((cnt s2.ctl.visits b : ℚ) - (DRR.passed ib s2.ctl.pc : ℚ)) =
      ((cnt s1.ctl.visits a : ℚ) - (DRR.passed ia s1.ctl.pc : ℚ)) - ((cnt s1.ctl.visits b : ℚ) - (DRR.passed ib s1.ctl.pc : ℚ)) := by
    simp only [DRR.psi] at hpsi
    exact_mod_cast hpsi
  have hacca : ((cnt s2.ctl.sentBytes a : ℚ)) + (DRR.pend cfg s2 a : ℚ) =
      (cnt s1.ctl.sentBytes a : ℚ) + (DRR.pend cfg s1 a : ℚ) + (bytesOf cfg a outs : ℚ) := by
    have := hacc a; simp only [bytesOf]; exact_mod_cast this
  have haccb : ((cnt s2.ctl.sentBytes b : ℚ)) + (DRR.pend cfg s2 b : ℚ) =
      (cnt s1.ctl.sentBytes b : ℚ) + (DRR.pend cfg s1 b : ℚ) + (bytesOf cfg b outs : ℚ) := by
    have := hacc b; simp only [bytesOf]; exact_mod_cast this
  have la1 := hg1.ledger a da1 Qa hda1 hqa
  have la2 := hg2.ledger a da2 Qa hda2 hqa
  have lb1 := hg1.ledger b db1 Qb hdb1 hqb
  have lb2 := hg2.ledger b db2 Qb hdb2 hqb
  rw [hfa] at la2
  rw [hfb] at lb2
  exact DRR.fair_arith Qa Qb L _ _ _ _ _ _ _ _ _ _ da1 da2 db1 db2 _ _ _ _ _ _ _ _ _ _ (hq a Qa hqa) (hq b Qb hqb) hL
    la1 la2 lb1 lb2 hacca haccb hpsiQ (pr ia _) (pr ia _) (pr ib _) (pr ib _)
    (range s1 hg1 a da1 Qa hda1 hqa) (range s2 hg2 a da2 Qa hda2 hqa)
    (range s1 hg1 b db1 Qb hdb1 hqb) (range s2 hg2 b db2 Qb hdb2 hqb)
    (pendR s1 hg1 a) (pendR s2 hg2 a) (pendR s1 hg1 b) (pendR s2 hg2 b)

/-! ### The DRR source, re-translated on every run, *is* the model (bridge theorem)

`Generated/Drr.lean` is rewritten by `py2lean` from the current `onl/scheduler/drr.py` before this file is compiled.  The
fragments are seen from one class: `GenDrr.drrObj d q n …` is the object whose entries for that class are credit `d`,
quantum `q`, `class_count` `n`. -/

/-- **The DRR arithmetic as written in the source is the model's**: for a class `cls` with weight `w`, credit `d`, quantum
`q`, count `n`:
* the quantum computed in `__init__` (`MIN_QUANTUM * weight / min_weight`, zero credit and counts) is `DRR.quantum`;
* the first statement of a visit leaves the credit `DRR.addQuantum` leaves when the class is backlogged, and `d` otherwise;
* the inner `while` test and the send test are the propositions `DRR.micro` and `DRR.onPkt` branch on
  (`0 < d ∧ 0 < n`, `size ≤ d`);
* the statements after a transmission leave the `class_count` and credit that `DRR.book` leaves (`n − 1`; `0` if the class
  emptied, else `d − size`);
* `put` leaves the `class_count` that `DRR.onPut` leaves, wakes the loop iff nothing was queued, and stores the packet.
(`MIN_QUANTUM` changed, `/ min_weight` dropped, `>`/`>=` flipped in a guard, `deficit -= size` lost … make this fail.) -/
theorem drr_generated_eq_model (cfg : DRR.Cfg ℚ) (k : DRR.Ctl ℚ) (cls w : Nat) (n qc total : Int) (d q : ℚ) (p : MPkt)
    (e1 e2 e3 : Nat) :
    (lookup cfg.weights cls = some w →
      DRR.quantum cfg cls =
        some (Gen.DRR.init_class (GenDrr.drrObj d q n qc e1 e2 e3) w (DRR.minWeight cfg.weights)).quantum ∧
      Gen.DRR.init_class (GenDrr.drrObj d q n qc e1 e2 e3) w (DRR.minWeight cfg.weights) =
        GenDrr.drrObj 0 (DRR.quantumW cfg w) 0 0 e1 e2 e3) ∧
    (0 < n → lookup (DRR.addQuantum k cls d q).deficit cls =
      some (Gen.DRR.run_visit (GenDrr.drrObj d q n qc e1 e2 e3) n).deficit) ∧
    (¬ 0 < n → Gen.DRR.run_visit (GenDrr.drrObj d q n qc e1 e2 e3) n = GenDrr.drrObj d q n qc e1 e2 e3) ∧
    Gen.DRR.run_inner_guard (GenDrr.drrObj d q n qc e1 e2 e3) = decide ((Num.zero : ℚ) < d ∧ 0 < n) ∧
    Gen.DRR.run_send_guard (GenDrr.drrObj d q n qc e1 e2 e3) p.size = decide ((Num.ofNat p.size : ℚ) ≤ d) ∧
    lookup (DRR.book k cls d n p).classCount cls = some (Gen.DRR.run_book (GenDrr.drrObj d q n qc e1 e2 e3) p.size).class_count ∧
    lookup (DRR.book k cls d n p).deficit cls = some (Gen.DRR.run_book (GenDrr.drrObj d q n qc e1 e2 e3) p.size).deficit ∧
    (lookup k.classCount cls = some n →
      ∃ k', DRR.onPut k cls p = .ok k' ∧
        lookup k'.classCount cls = some (Gen.DRR.put (GenDrr.drrObj d q n qc e1 e2 e3) total).class_count ∧
        Gen.DRR.put (GenDrr.drrObj d q n qc e1 e2 e3) total =
          GenDrr.drrObj d q (n + 1) qc (e1 + if total = 0 then 1 else 0) (e2 + 1) (e3 + 1)) := by
  refine ⟨fun hw => ⟨?_, GenDrr.init_class_eq cfg w d q n qc e1 e2 e3⟩, fun hn => ?_, fun hn => ?_,
    GenDrr.run_inner_guard_eq d q n qc e1 e2 e3, GenDrr.run_send_guard_eq d q n qc e1 e2 e3 p, ?_, ?_, fun hk => ?_⟩
  · rw [GenDrr.init_class_eq]; simp only [DRR.quantum, hw, Option.map_some]; rfl
  · rw [GenDrr.run_visit_eq, if_pos hn]; simp only [DRR.addQuantum, lookup_setKey_same]; rfl
  · rw [GenDrr.run_visit_eq, if_neg hn]
  · rw [GenDrr.run_book_eq, DRR.book_classCount, lookup_setKey_same]; rfl
  · rw [GenDrr.run_book_eq, DRR.book_deficit, lookup_setKey_same]; rfl
  · refine ⟨_, by simp only [DRR.onPut, hk]; rfl, ?_, GenDrr.put_eq d q n qc total e1 e2 e3⟩
    rw [GenDrr.put_eq]; simp only [lookup_setKey_same]; rfl

/-- the translated fragments on a concrete class: weights 1 and 3, the class of weight 3 gets quantum 4500; a visit with credit
100 adds it; a 1500-byte packet is affordable; booking it with one packet counted zeroes the credit -/
example : (Gen.DRR.init_class (GenDrr.drrObj 7 7 7 7 0 0 0) 3 (DRR.minWeight [(0, 1), (1, 3)])).quantum = (4500 : ℚ) ∧
    (Gen.DRR.run_visit (GenDrr.drrObj 100 4500 2 2 0 0 0) 2).deficit = (4600 : ℚ) ∧
    Gen.DRR.run_send_guard (GenDrr.drrObj 4600 4500 2 2 0 0 0) 1500 = true ∧
    (Gen.DRR.run_book (GenDrr.drrObj 4600 4500 1 1 0 0 0) 1500).deficit = (0 : ℚ) := by
  decide +kernel

/-! ### non-vacuity -/

/-- control points after each step of an RR run over three flows of which the middle one is empty: the decision bursts
hand packets of entries 0, 2, 0 (cyclic, skipping entry 1) -/
example : (match runLog (RR.sched { rate := 8, flows := [5, 6, 7] }) (MQ.init (RR.Pc.at 0) 0 [])
    [.init, .put ⟨1, 5, 1⟩, .put ⟨2, 7, 1⟩, .put ⟨3, 5, 1⟩, .tokenHandoff, .wake, .pktResume, .sendInit, .tick 1, .sendFire,
     .sendDone, .pktResume, .sendInit, .tick 2, .sendFire, .sendDone] with
    | .ok l => some (l.map fun e => (phaseName e.post, e.post.ctl)) | .error _ => none) =
    some [("W", .at 0), ("W", .at 0), ("W", .at 0), ("W", .at 0), ("K", .at 0), ("H", .got 0), ("S", .sent 0), ("T", .sent 0),
      ("T", .sent 0), ("F", .sent 0), ("H", .got 2), ("S", .sent 2), ("T", .sent 2), ("T", .sent 2), ("F", .sent 2), ("H", .got 0)] := by
  decide +kernel

/-- a WRR run with weights 2 and 1: the visit of entry 0 sends two packets (`got 0 0`, `got 0 1`), then entry 1 one -/
example : (match runLog (WRR.sched { rate := 8, weights := [(5, 2), (6, 1)] }) (MQ.init (WRR.Pc.at 0 0) 0 [])
    [.init, .put ⟨1, 5, 1⟩, .put ⟨2, 5, 1⟩, .put ⟨3, 5, 1⟩, .put ⟨4, 6, 1⟩, .tokenHandoff, .wake, .pktResume, .sendInit, .tick 1,
     .sendFire, .sendDone, .pktResume, .sendInit, .tick 2, .sendFire, .sendDone] with
    | .ok l => some ((l.filter fun e => phaseName e.post == "H").map fun e => e.post.ctl) | .error _ => none) =
    some [.got 0 0, .got 0 1, .got 1 0] := by
  decide +kernel

/-- a DRR configuration satisfying `DRR.CfgOk` and a window of an admissible run in which both classes stay backlogged -/
example : DRR.CfgOk ({ rate := 8000, weights := [(1, 1), (2, 2)] } : DRR.Cfg ℚ) :=
  ⟨by decide, by decide⟩

/-- a concrete window for `drr_fair` / `drr_visits_alternate`: classes 1 (weight 1, quantum 1500) and 2 (weight 2, quantum 3000),
packets of at most 2000 bytes; after the four arrivals both classes stay backlogged while packets 1 (1000 bytes, class 1) and
3 (2000 bytes, class 2) are transmitted: 1000 and 2000 bytes depart in the window -/
example : DRR.demoWindow { rate := 8000, weights := [(1, 1), (2, 2)] } 2000 0 1 1 2
    [.init, .put ⟨1, 1, 1000⟩, .put ⟨2, 1, 1000⟩, .put ⟨5, 1, 500⟩, .put ⟨3, 2, 2000⟩, .put ⟨4, 2, 2000⟩, .put ⟨6, 2, 100⟩]
    [.tokenHandoff, .wake, .pktResume, .sendInit, .tick 1, .sendFire, .sendDone, .pktResume, .pktResume, .sendInit, .tick 3,
     .sendFire] = some (1000, 2000) := by
  decide +kernel

/-- credits after each step of a concrete DRR run (weights 1 and 2, quanta 1500 and 3000): class 1 gets 1500, sends 1000,
keeps 500 … all within `[0, quantum + 2000)` -/
example : (match runLog (DRR.sched { rate := 8000, weights := [(1, 1), (2, 2)] }) (DRR.start { rate := 8000, weights := [(1, 1), (2, 2)] } 0)
    [.init, .put ⟨1, 1, 1000⟩, .put ⟨2, 1, 1000⟩, .put ⟨3, 2, 2000⟩, .put ⟨4, 2, 2000⟩, .tokenHandoff, .wake, .pktResume, .sendInit,
     .tick 1, .sendFire, .sendDone, .pktResume, .pktResume, .sendInit, .tick 3, .sendFire, .sendDone] with
    | .ok l => some (l.map fun e => e.post.ctl.deficit) | .error _ => none) =
    some [[(1, 0), (2, 0)], [(1, 0), (2, 0)], [(1, 0), (2, 0)], [(1, 0), (2, 0)], [(1, 0), (2, 0)], [(1, 0), (2, 0)],
      [(1, 1500), (2, 0)], [(1, 1500), (2, 0)], [(1, 1500), (2, 0)], [(1, 1500), (2, 0)], [(1, 1500), (2, 0)],
      [(1, 500), (2, 0)], [(1, 500), (2, 3000)], [(1, 500), (2, 3000)], [(1, 500), (2, 3000)], [(1, 500), (2, 3000)],
      [(1, 500), (2, 3000)], [(1, 500), (2, 1000)]] := by
  decide +kernel

end C15
