import OnlVerif.Lemmas.StampFairRun
import OnlVerif.Lemmas.StampVc
import OnlVerif.Lemmas.GenSched
/-!
# C14 — WFQ and VirtualClock transmit in virtual-finish-stamp order

Model: `OnlVerif/Net/StampServer.lean` (the StampServer LTS) instantiated with `OnlVerif/Net/Sched/WFQ.lean` and
`OnlVerif/Net/Sched/VC.lean`.  "For all weight / vtick tables, rates and arrival workloads" = for every
configuration record and every action sequence the LTS accepts from the initial state (`runActs … = .ok …`);
time, rates, weights and stamps are exact rationals.  The correspondence check replays the real `WFQ` / `VC`
through this LTS bit for bit.

`held s` = the packets waiting or in transmission (what `size()` / `total_packets` count): the scheduler *is empty* when
`held s = []`.  `held' s` = `held s` plus the packet whose transmission has ended in this instant but whose end the
loop has not processed yet (its class is still in `active_set` until then).
-/

namespace C14
open Stamp

/-! ### stamps -/

/-- **WFQ stamps every arrival** — also the first of a busy period.  For every reachable state and every accepted
`put(p)`, with `k` the class of `p` and `w` its weight:
* if the scheduler is empty — no packet waiting or in transmission, `held s = []` — a new busy period starts: the new
  virtual time `V'` is 0, the finish time `Fk` the stamp builds on is 0 and the finish time of every other weighted
  class becomes 0 (this also holds in the instant in which the last transmission has just ended and the loop has not
  yet resumed);
* otherwise `V' = V + Δt / Σ_{active} w` and `Fk` is the finish time of the previous packet of class `k`;
the packet is queued under the key `(max(Fk, V') + 8·size/(rate·w), now)`, that stamp becomes the finish time of class
`k`, and `last_time = now`.  The active set over which the weights are summed is exactly the set of classes that had a
packet in the scheduler during the interval `Δt` that ends now: the classes of the packets waiting, in transmission, or
transmitted to the end in this very instant and not yet booked out (`held'`). -/
theorem wfq_stamp (c : WfqCfg ℚ) (t0 : ℚ) (as : List (StAct ℚ)) (s : WFQ.WState) (ins outs : List SPkt)
    (h : runActs (WFQ.sched c) (WFQ.start t0) as = .ok (s, ins, outs)) (p : SPkt) (s' : WFQ.WState) (o : StOut)
    (hput : step (WFQ.sched c) s (.put p) = .ok (s', o)) :
    ∃ k w Fk V', WFQ.clsOf c p.flow = some k ∧ lookup c.weights k = some w ∧
      (held s = [] → V' = 0 ∧ Fk = 0 ∧
        ∀ k' w', k' ≠ k → lookup c.weights k' = some w' → lookup s'.sch.finish k' = some 0) ∧
      (held s ≠ [] → V' = s.sch.vtime + (s.now - s.sch.lastTime) / WFQ.wSum c.weights s.sch.active ∧
        lookup s.sch.finish k = some Fk) ∧
      s'.sch.vtime = V' ∧
      lookup s'.sch.finish k = some (max Fk V' + 8 * (p.size : ℚ) / (c.rate * w)) ∧
      s'.items = s.items ++ [{ stamp := max Fk V' + 8 * (p.size : ℚ) / (c.rate * w), arr := s.now, pkt := p }] ∧
      s'.sch.lastTime = s.now ∧
      (∀ k', k' ∈ s.sch.active ↔ ∃ q ∈ held' s, WFQ.clsOf c q.flow = some k') := by
  have hw := (WFQ.run_winv c (runActs_run _ as _ _ _ _ h)).2
  have ht := step_trans _ _ _ _ _ hput
  cases ht with
  | put _ sch stamp h1 =>
    obtain ⟨k, st1, f, w, hk, ha, hf, hwt, hz, rfl, rfl⟩ := WFQ.put_spec c _ _ _ _ _ _ h1
    refine ⟨k, w, f, st1.vtime, hk, hwt, ?_, ?_, rfl, ?_, ?_, rfl, fun k' => hw.active_iff k'⟩
    · intro he
      have h0 := hw.tot.zero_iff.mpr he
      rcases WFQ.advance_spec c _ _ _ _ ha with ⟨_, rfl⟩ | ⟨hne, _⟩
      · refine ⟨by simp [WFQ.resetVtime, zero_eq_q], ?_, ?_⟩
        · simp only [WFQ.resetVtime, WFQ.lookup_zeroFinish, hwt, Option.isSome_some, if_true, Option.some.injEq] at hf
          exact hf.symm
        · intro k' w' hkk hw'
          show lookup (setKey (WFQ.zeroFinish s.sch.finish c.weights) k _) k' = some 0
          rw [lookup_setKey, if_neg hkk]
          simp [WFQ.lookup_zeroFinish, hw']
      · exact absurd h0 hne
    · intro hne
      have h0 : qcTotal s.queueCount ≠ 0 := fun hc => hne (hw.tot.zero_iff.mp hc)
      rcases WFQ.advance_spec c _ _ _ _ ha with ⟨hz0, _⟩ | ⟨_, _, _, rfl⟩
      · exact absurd hz0 h0
      · exact ⟨rfl, hf⟩
    · show lookup (setKey st1.finish k _) k = _
      rw [lookup_setKey, if_pos rfl, WFQ.stampOf_eq]
    · show s.items ++ [_] = _
      rw [WFQ.stampOf_eq]

/-- **Virtual time at a service end**: when the loop books a transmitted packet out, virtual time advances by
`Δt / Σ_{active} w`; if the scheduler is empty afterwards, virtual time and the finish time of every weighted class
are reset to 0, otherwise the finish times are untouched.  `last_time = now` in both cases. -/
theorem wfq_service_end (c : WfqCfg ℚ) (t0 : ℚ) (as : List (StAct ℚ)) (s : WFQ.WState) (ins outs : List SPkt)
    (h : runActs (WFQ.sched c) (WFQ.start t0) as = .ok (s, ins, outs)) (ch : Option Nat) (s' : WFQ.WState) (o : StOut)
    (hd : step (WFQ.sched c) s (.sendDone ch) = .ok (s', o)) :
    s'.sch.lastTime = s.now ∧
    (held' s' = [] → s'.sch.vtime = 0 ∧ ∀ k w, lookup c.weights k = some w → lookup s'.sch.finish k = some 0) ∧
    (held' s' ≠ [] → s'.sch.vtime = s.sch.vtime + (s.now - s.sch.lastTime) / WFQ.wSum c.weights s.sch.active ∧
      s'.sch.finish = s.sch.finish) := by
  have hgw := WFQ.run_winv c (runActs_run _ as _ _ _ _ h)
  have ht := step_trans _ _ _ _ _ hd
  have hw' := WFQ.step_winv hgw.1 hgw.2 ht
  have main : ∀ (p : SPkt) (sch : WfqSt ℚ), (WFQ.sched c).onDone s.sch s.now p = .ok sch → s'.sch = sch →
      s'.sch.lastTime = s.now ∧
      (held' s' = [] → s'.sch.vtime = 0 ∧ ∀ k w, lookup c.weights k = some w → lookup s'.sch.finish k = some 0) ∧
      (held' s' ≠ [] → s'.sch.vtime = s.sch.vtime + (s.now - s.sch.lastTime) / WFQ.wSum c.weights s.sch.active ∧
        s'.sch.finish = s.sch.finish) := by
    intro p sch h2 hsch
    obtain ⟨st1, k, st2, hu, hk, hl, rfl⟩ := WFQ.done_spec c _ _ _ _ h2
    obtain ⟨_, _, rfl⟩ := WFQ.updateVtime_spec c _ _ _ hu
    obtain ⟨n, _, hcase⟩ := WFQ.leave_spec _ _ _ hl
    have hact : s'.sch.active = st2.active := by rw [hsch, WFQ.settle_active]
    have hfv : st2.finish = s.sch.finish ∧
        st2.vtime = s.sch.vtime + (s.now - s.sch.lastTime) / WFQ.wSum c.weights s.sch.active := by
      rcases hcase with ⟨_, _, rfl⟩ | ⟨_, rfl⟩ <;> exact ⟨rfl, rfl⟩
    refine ⟨by rw [hsch, WFQ.settle_lastTime], ?_, ?_⟩
    · intro he
      have hnil : st2.active = [] := by rw [← hact]; exact hw'.active_nil_iff.mpr he
      have hie : st2.active.isEmpty = true := by simp [hnil]
      rw [hsch]
      simp only [WFQ.settle, hie, if_true, WFQ.resetVtime, zero_eq_q]
      refine ⟨trivial, ?_⟩
      intro k' w' hw''
      simp [WFQ.lookup_zeroFinish, hw'']
    · intro hne
      have hnn : st2.active ≠ [] := by rw [← hact]; exact fun hc => hne (hw'.active_nil_iff.mp hc)
      have hie : ¬ st2.active.isEmpty = true := by simpa using hnn
      rw [hsch]
      simp only [WFQ.settle, hie, if_false, Bool.false_eq_true]
      exact ⟨hfv.2, hfv.1⟩
  cases ht with
  | doneBlock p sch h1 h2 h3 => exact main p sch h2 rfl
  | doneServe p sch id it rest h1 h2 h3 => exact main p sch h2 rfl

/-- **Virtual time and all finish times are 0 whenever the scheduler is empty** and the loop has processed the end of
the last transmission (`held' s = []`): initially and after the service end that empties it.  (An arrival that comes
even earlier — in the instant of that last departure, before the loop has resumed — starts from 0 as well: `wfq_stamp`.) -/
theorem wfq_vtime_reset (c : WfqCfg ℚ) (t0 : ℚ) (as : List (StAct ℚ)) (s : WFQ.WState) (ins outs : List SPkt)
    (h : runActs (WFQ.sched c) (WFQ.start t0) as = .ok (s, ins, outs)) (hempty : held' s = []) :
    s.sch.vtime = 0 ∧ (∀ k F, lookup s.sch.finish k = some F → F = 0) ∧ s.sch.active = [] := by
  have hw := (WFQ.run_winv c (runActs_run _ as _ _ _ _ h)).2
  have hnil := hw.active_nil_iff.mpr hempty
  exact ⟨(hw.zero hnil).1, (hw.zero hnil).2, hnil⟩

/-- **VirtualClock stamps** with `auxVC_c := max(now, auxVC_c) + vtick_c` (in every state, for every accepted
`put`): that value is stored for the class and is the stamp under which the packet is queued, with the arrival
instant as second key component; the other classes are untouched. -/
theorem vc_stamp (c : VcCfg ℚ) (s s' : VC.VState) (p : SPkt) (o : StOut)
    (hput : step (VC.sched c) s (.put p) = .ok (s', o)) :
    ∃ k a vt, VC.clsOf c p.flow = some k ∧ lookup s.sch.aux k = some a ∧ lookup c.vticks k = some vt ∧
      lookup s'.sch.aux k = some (max s.now a + vt) ∧
      s'.items = s.items ++ [{ stamp := max s.now a + vt, arr := s.now, pkt := p }] ∧
      (∀ k', k' ≠ k → lookup s'.sch.aux k' = lookup s.sch.aux k') := by
  have ht := step_trans _ _ _ _ _ hput
  cases ht with
  | put _ sch stamp h1 =>
    obtain ⟨k, v, a, vt, hk, hv, ha, hvt, rfl, rfl⟩ := VC.put_spec c _ _ _ (qcTotal s.queueCount) _ _ h1
    refine ⟨k, a, vt, hk, ha, hvt, ?_, ?_, ?_⟩
    · show lookup (setKey s.sch.aux k _) k = _
      rw [lookup_setKey, if_pos rfl, VC.auxOf_eq]
    · show s.items ++ [_] = _
      rw [VC.auxOf_eq]
    · intro k' hk'
      show lookup (setKey s.sch.aux k _) k' = _
      rw [lookup_setKey, if_neg hk']

/-! ### service order -/

/-- **Each hand-off takes a waiting packet of minimal key**: whenever an accepted action hands an item to the
loop (the hand-off after an arrival, or the `get` served at once after a transmission or at start-up), that item
was in the store, every item in the store had a larger stamp or the same stamp and no earlier arrival instant,
and exactly that item is removed.  (Any scheduler record; the loop then transmits exactly that packet, C12.) -/
theorem min_stamp_service {σ : Type} (d : Sched ℚ σ) (s s' : StState ℚ σ) (a : StAct ℚ) (o : StOut)
    (hst : step d s a = .ok (s', o)) (it : Item ℚ) (h0 : s.handed = none) (h1 : s'.handed = some it) :
    ∃ pre post, s.items = pre ++ it :: post ∧ s'.items = pre ++ post ∧
      ∀ x ∈ s.items, it.stamp < x.stamp ∨ (it.stamp = x.stamp ∧ it.arr ≤ x.arr) := by
  have ht := step_trans d _ _ _ _ hst
  have fin : ∀ id it' rest, Picked s.items id it' rest → some it' = some it →
      ∃ pre post, s.items = pre ++ it :: post ∧ rest = pre ++ post ∧
        ∀ x ∈ s.items, it.stamp < x.stamp ∨ (it.stamp = x.stamp ∧ it.arr ≤ x.arr) := by
    intro id it' rest hp he
    cases he
    obtain ⟨pre, post, hl, hr, _, hm⟩ := hp
    exact ⟨pre, post, hl, hr, fun x hx => hm.spec hx⟩
  cases ht with
  | initBlock _ _ => rw [h0] at h1; cases h1
  | initServe id it' rest _ hp => exact fin id it' rest hp h1
  | put p sch stamp _ => simp only [enqueue] at h1; rw [h0] at h1; cases h1
  | handoff id it' rest _ hp => exact fin id it' rest hp h1
  | resume it' _ => cases h1
  | sendInit p _ _ _ => rw [h0] at h1; cases h1
  | sendFire p due _ _ => simp only [release] at h1; rw [h0] at h1; cases h1
  | doneBlock p sch _ _ _ => rw [h0] at h1; cases h1
  | doneServe p sch id it' rest _ _ hp => exact fin id it' rest hp h1
  | tick t _ => rw [h0] at h1; cases h1
  | sample b => rw [h0] at h1; cases h1

/-- **Equal stamps never crash WFQ**: in every reachable state, for every action (arrivals of configured flows;
positive rate and weights), a failing `step` is a *rejection* of a wrong label — never the `raise` constructor.
No hypothesis excludes equal stamps or equal keys. -/
theorem no_error_on_ties (c : WfqCfg ℚ) (hp : WFQ.Pos c) (t0 : ℚ) (as : List (StAct ℚ)) (s : WFQ.WState)
    (ins outs : List SPkt) (h : runActs (WFQ.sched c) (WFQ.start t0) as = .ok (s, ins, outs)) (a : StAct ℚ)
    (hconf : ∀ p, a = .put p → ∃ k w, WFQ.clsOf c p.flow = some k ∧ lookup c.weights k = some w) (e : String) :
    step (WFQ.sched c) s a ≠ .error (.raise e) :=
  WFQ.step_no_raise hp (WFQ.run_winv c (runActs_run _ as _ _ _ _ h)).2 a hconf e

/-- **Equal stamps never crash VirtualClock** (positive rate and vticks). -/
theorem no_error_on_ties_vc (c : VcCfg ℚ) (hp : VC.Pos c) (t0 : ℚ) (as : List (StAct ℚ)) (s : VC.VState)
    (ins outs : List SPkt) (h : runActs (VC.sched c) (VC.start c t0) as = .ok (s, ins, outs)) (a : StAct ℚ)
    (hconf : ∀ p, a = .put p → ∃ k vt, VC.clsOf c p.flow = some k ∧ lookup c.vticks k = some vt) (e : String) :
    step (VC.sched c) s a ≠ .error (.raise e) :=
  VC.step_no_raise hp (VC.run_vinv c hp (runActs_run _ as _ _ _ _ h)).2 a hconf e

/-- **Any of several packets with an equal minimal key may be handed over**: the hand-off of an item whose key is
not above any key present is accepted — ties included. -/
theorem tie_choice_accepted {σ : Type} (d : Sched ℚ σ) (s : StState ℚ σ) (id : Nat) (it : Item ℚ) (rest : List (Item ℚ))
    (hg : s.getPending = true) (hfind : takeId id s.items = some (it, rest))
    (hmin : ∀ x ∈ s.items, it.stamp < x.stamp ∨ (it.stamp = x.stamp ∧ it.arr ≤ x.arr)) :
    step d s (.handoff id) = .ok ({ s with items := rest, handed := some it, getPending := false }, .nothing) := by
  have hm : IsMin it s.items := by
    intro x hx hlt
    rcases hmin x hx with h1 | ⟨h1, h2⟩
    · rcases hlt with h3 | ⟨h3, _⟩
      · exact absurd h1 (not_lt.mpr (le_of_lt h3))
      · rw [h3] at h1; exact lt_irrefl _ h1
    · rcases hlt with h3 | ⟨_, h4⟩
      · rw [h1] at h3; exact lt_irrefl _ h3
      · exact absurd h4 (not_lt.mpr h2)
  simp only [step, doHandoff, hg, if_true, pick_ok_of_min _ _ _ _ hfind hm]

/-! ### fairness with a static backlog -/

/-- **Stamps are the cumulative normalised service of the class.**  Setting: the scheduler is empty (nothing waiting or
in transmission) in a reachable state `s1`; the packets `ps` (positive sizes ≤ `L`) arrive at that one instant; then any admissible continuation `as2`
without further arrivals.  Then for every class `k` that still has a packet waiting, the oldest such packet `y`
satisfies `stamp(y) · rate · w_k = (bits of class k taken out of the store so far) + 8·size(y)`, and nothing taken
so far exceeds any waiting stamp: `(bits of any class k' taken so far) ≤ stamp(y) · rate · w_k'`. -/
theorem static_backlog_stamps (c : WfqCfg ℚ) (hp : WFQ.Pos c) (t0 : ℚ) (as1 : List (StAct ℚ)) (s1 : WFQ.WState)
    (i1 o1 : List SPkt) (h1 : runActs (WFQ.sched c) (WFQ.start t0) as1 = .ok (s1, i1, o1)) (hempty : held s1 = [])
    (L : Nat) (ps : List SPkt) (hps : ∀ p ∈ ps, 0 < p.size ∧ p.size ≤ L) (as2 : List (StAct ℚ)) (hnp : WFQ.NoPut as2)
    (s : WFQ.WState) (ins outs : List SPkt)
    (h2 : runActs (WFQ.sched c) s1 (ps.map .put ++ as2) = .ok (s, ins, outs))
    (k : Nat) (w : ℚ) (hw : lookup c.weights k = some w) (hb : WFQ.Backlogged c s k) :
    ∃ y ∈ s.items, WFQ.clsOf c y.pkt.flow = some k ∧
      y.stamp * c.rate * w = WFQ.bitsOf c k (outs ++ inHand s) + 8 * (y.pkt.size : ℚ) ∧
      ∀ k' w', lookup c.weights k' = some w' → WFQ.bitsOf c k' (outs ++ inHand s) ≤ y.stamp * c.rate * w' := by
  have hgw := WFQ.run_winv c (runActs_run _ as1 _ _ _ _ h1)
  have hf := WFQ.static_run hp ps hps as2 hnp s1 s ins outs (WFQ.static_of_empty hgw.1 hgw.2 hempty) h2
  obtain ⟨y, hy, hyk, hye⟩ := WFQ.chain_head c k w _ s.items (hf.fl.chain k w hw) hb
  exact ⟨y, hy, hyk, hye, fun k' w' hw' => hf.fl.low k' w' hw' y hy⟩

/-- **Static backlog fairness, service completed**: in the setting of `static_backlog_stamps`, for any two classes
`i`, `j` that still have a packet waiting, the bits transmitted so far (`outs` = the departed packets), normalised by
weight, differ by at most one maximum-size packet each: `|S_i/w_i − S_j/w_j| ≤ 8L/w_i + 8L/w_j`. -/
theorem static_backlog_fair (c : WfqCfg ℚ) (hp : WFQ.Pos c) (t0 : ℚ) (as1 : List (StAct ℚ)) (s1 : WFQ.WState)
    (i1 o1 : List SPkt) (h1 : runActs (WFQ.sched c) (WFQ.start t0) as1 = .ok (s1, i1, o1)) (hempty : held s1 = [])
    (L : Nat) (ps : List SPkt) (hps : ∀ p ∈ ps, 0 < p.size ∧ p.size ≤ L) (as2 : List (StAct ℚ)) (hnp : WFQ.NoPut as2)
    (s : WFQ.WState) (ins outs : List SPkt)
    (h2 : runActs (WFQ.sched c) s1 (ps.map .put ++ as2) = .ok (s, ins, outs))
    (i j : Nat) (wi wj : ℚ) (hwi : lookup c.weights i = some wi) (hwj : lookup c.weights j = some wj)
    (hbi : WFQ.Backlogged c s i) (hbj : WFQ.Backlogged c s j) :
    |WFQ.bitsOf c i outs / wi - WFQ.bitsOf c j outs / wj| ≤ 8 * (L : ℚ) / wi + 8 * (L : ℚ) / wj := by
  have hgw := WFQ.run_winv c (runActs_run _ as1 _ _ _ _ h1)
  have hf := WFQ.static_run hp ps hps as2 hnp s1 s ins outs (WFQ.static_of_empty hgw.1 hgw.2 hempty) h2
  have ha := WFQ.fair_completed_le hp hf i j wi wj hwi hwj hbj
  have hb := WFQ.fair_completed_le hp hf j i wj wi hwj hwi hbi
  have hL : (0 : ℚ) ≤ L := by exact_mod_cast Nat.zero_le _
  have hi : (0 : ℚ) ≤ 8 * (L : ℚ) / wi := div_nonneg (by linarith) (le_of_lt (hp.w i wi hwi))
  have hj : (0 : ℚ) ≤ 8 * (L : ℚ) / wj := div_nonneg (by linarith) (le_of_lt (hp.w j wj hwj))
  rw [abs_le]
  constructor <;> linarith

/-- **Static backlog fairness, service started**: the same bound when the packet taken for transmission (handed
to the loop or in transmission) is counted as served — i.e. at the scheduler's decision points. -/
theorem static_backlog_fair_started (c : WfqCfg ℚ) (hp : WFQ.Pos c) (t0 : ℚ) (as1 : List (StAct ℚ)) (s1 : WFQ.WState)
    (i1 o1 : List SPkt) (h1 : runActs (WFQ.sched c) (WFQ.start t0) as1 = .ok (s1, i1, o1)) (hempty : held s1 = [])
    (L : Nat) (ps : List SPkt) (hps : ∀ p ∈ ps, 0 < p.size ∧ p.size ≤ L) (as2 : List (StAct ℚ)) (hnp : WFQ.NoPut as2)
    (s : WFQ.WState) (ins outs : List SPkt)
    (h2 : runActs (WFQ.sched c) s1 (ps.map .put ++ as2) = .ok (s, ins, outs))
    (i j : Nat) (wi wj : ℚ) (hwi : lookup c.weights i = some wi) (hwj : lookup c.weights j = some wj)
    (hbi : WFQ.Backlogged c s i) (hbj : WFQ.Backlogged c s j) :
    |WFQ.bitsOf c i (outs ++ inHand s) / wi - WFQ.bitsOf c j (outs ++ inHand s) / wj| ≤
      8 * (L : ℚ) / wi + 8 * (L : ℚ) / wj := by
  have hgw := WFQ.run_winv c (runActs_run _ as1 _ _ _ _ h1)
  have hf := WFQ.static_run hp ps hps as2 hnp s1 s ins outs (WFQ.static_of_empty hgw.1 hgw.2 hempty) h2
  have ha := WFQ.fair_started_le hp hf i j wi wj hwi hwj hbj
  have hb := WFQ.fair_started_le hp hf j i wj wi hwj hwi hbi
  have hL : (0 : ℚ) ≤ L := by exact_mod_cast Nat.zero_le _
  have hi : (0 : ℚ) ≤ 8 * (L : ℚ) / wi := div_nonneg (by linarith) (le_of_lt (hp.w i wi hwi))
  have hj : (0 : ℚ) ≤ 8 * (L : ℚ) / wj := div_nonneg (by linarith) (le_of_lt (hp.w j wj hwj))
  rw [abs_le]
  constructor <;> linarith

/-! ### The source, re-translated on every run, *is* the stamp model (bridge theorems)

`Generated/Sched.lean` is rewritten by `py2lean` from the current `onl/scheduler/wfq.py`, `virtual_clock.py` before
this file is compiled (the transmission delay of `Scheduler.send_packet` belongs to C12: `C12.send_delay_generated_eq_model`).  The model keeps the dicts as association lists with explicit `KeyError`s; the translated methods are
*seen from the class of the packet in hand* (`GenSched.wfqObj` / `vcObj`: that class's dict entries as scalar fields, effects
counted, the key of the stored `PriorityItem` recorded), and the loop of `update_vtime` — `for i in self.weights: if i in
self.active_set: weight_sum += self.weights[i]`, the sum in *table order* — folds over `GenSched.weightTable c st` =
`[(i in active_set, weights[i]) for i in weights]`, translating the membership test and the addition.  The model adds the
weights of the active classes in ascending class order; over exact rationals the two sums are the same number
(`GenSched.tableSum_eq_wSum`) when the table is a dict (`GenSched.KeysNodup c`: no class id is a key twice) and the model's
`active_set` is strictly ascending, which it is in every reachable state (`wfq_active_ascending_reachable`). -/

/-- **in every reachable state the model's `active_set` is strictly ascending** (the hypothesis `hs` of the two WFQ bridge
theorems below) -/
theorem wfq_active_ascending_reachable (c : WfqCfg ℚ) (t0 : ℚ) (as : List (StAct ℚ)) (s : WFQ.WState) (ins outs : List SPkt)
    (h : runActs (WFQ.sched c) (WFQ.start t0) as = .ok (s, ins, outs)) : s.sch.active.Pairwise (· < ·) :=
  (WFQ.run_winv c (runActs_run _ as _ _ _ _ h)).2.sorted

/-- **`WFQ.put` as written in the source is the model's `WFQ.put`**: whenever the model accepts `put(p)` (every lookup
hits) with new stamp state `st'` and stamp `F`, the translated method, run on the view of `st` from `p`'s class `k` (weight
`w`), ends in the view of `st'`: same virtual time, `last_time = now`, `finish_times[k] = F`, `class_count[k]` one more, one
`add_packet_to_queue`, one `active_set.add`, and one `store.put(PriorityItem((F, now), packet))`.  (A changed constant or
operator in the stamp formula, `max` ↔ `min`, a swapped reset/update branch, a missing effect, a weight sum that is not the
sum over the table entries whose class is active make this fail to compile.)  `hn`: the weight table is a dict; `hs`: see
`wfq_active_ascending_reachable`. -/
theorem wfq_put_generated_eq_model (c : WfqCfg ℚ) (st st' : WfqSt ℚ) (now : ℚ) (total : Int) (F : ℚ) (p : SPkt)
    (e1 e2 e3 : Nat) (ps pa : ℚ) (hn : GenSched.KeysNodup c) (hs : st.active.Pairwise (· < ·))
    (h : WFQ.put c st now total p = .ok (st', F)) :
    ∃ k w, lookup c.flow2class p.flow = some k ∧ lookup c.weights k = some w ∧
      Gen.WFQ.put (GenSched.wfqObj c st k w e1 e2 e3 ps pa) now total p.size (GenSched.weightTable c st) =
        GenSched.wfqObj c st' k w (e1 + 1) (e2 + 1) (e3 + 1) F now :=
  GenSched.wfq_put_eq c st st' now total F p e1 e2 e3 ps pa hn hs h

/-- **`WFQ.update_vtime` / `reset_vtime` as written in the source are the model's `updateVtime` / `resetVtime`** (seen from
any class `k`; for the reset, a class that has a weight).  The source adds the weights of the active classes in the key order
of the weight table (`for i in self.weights: if i in self.active_set`), the model in ascending class order: the same
rational whenever the table is a dict (`hn`) and the model's active list is strictly ascending (`hs`, every reachable state:
`wfq_active_ascending_reachable`). -/
theorem wfq_vtime_generated_eq_model (c : WfqCfg ℚ) (st : WfqSt ℚ) (now : ℚ) (k : Nat) (w : ℚ) (e1 e2 e3 : Nat) (ps pa : ℚ)
    (hn : GenSched.KeysNodup c) (hs : st.active.Pairwise (· < ·)) :
    (∀ st1, WFQ.updateVtime c st now = .ok st1 →
      Gen.WFQ.update_vtime (GenSched.wfqObj c st k w e1 e2 e3 ps pa) now (GenSched.weightTable c st) =
        GenSched.wfqObj c st1 k w e1 e2 e3 ps pa) ∧
    (lookup c.weights k = some w →
      Gen.WFQ.reset_vtime (GenSched.wfqObj c st k w e1 e2 e3 ps pa) =
        GenSched.wfqObj c (WFQ.resetVtime c st) k w e1 e2 e3 ps pa) :=
  ⟨fun st1 h => GenSched.update_vtime_eq c st st1 now k w e1 e2 e3 ps pa hn hs h,
   fun hw => GenSched.reset_vtime_eq c st k w e1 e2 e3 ps pa hw⟩

/-- **`VC.put` as written in the source is the model's `VC.put`**: whenever the model accepts `put(p)` with stamp `A`, the
translated method, run on the entries `vc[k] = v`, `aux_vc[k] = a`, `vticks[k] = vt` of `p`'s class, leaves exactly the
entries of the model's new state and stores `PriorityItem((A, now), packet)` once. -/
theorem vc_put_generated_eq_model (c : VcCfg ℚ) (st st' : VcSt ℚ) (now : ℚ) (total : Int) (A : ℚ) (p : SPkt)
    (e1 e3 : Nat) (ps pa : ℚ) (h : VC.put c st now total p = .ok (st', A)) :
    ∃ k v a vt v' a', lookup c.flow2class p.flow = some k ∧ lookup st.vc k = some v ∧ lookup st.aux k = some a ∧
      lookup c.vticks k = some vt ∧ lookup st'.vc k = some v' ∧ lookup st'.aux k = some a' ∧
      Gen.VC.put (GenSched.vcObj c v a vt e1 e3 ps pa) now p.size = GenSched.vcObj c v' a' vt (e1 + 1) (e3 + 1) A now :=
  GenSched.vc_put_eq c st st' now total A p e1 e3 ps pa h

/-! ### non-vacuity -/

/-- what a run ended with: departed packet ids, the store as (packet id, stamp), virtual time -/
def wfqSummary (r : Except SErr (WFQ.WState × List SPkt × List SPkt)) : Option (List Nat × List (Nat × ℚ) × ℚ) :=
  match r with
  | .ok (s, _, outs) => some (outs.map (·.id), s.items.map (fun it => (it.pkt.id, it.stamp)), s.sch.vtime)
  | .error _ => none

/-- rate 8 bit/s, class 0 of weight 1 (flows 0 and 2), class 1 of weight 2 (flow 1) -/
def cfg : WfqCfg ℚ := { rate := 8, weights := [(0, 1), (1, 2)], flow2class := [(0, 0), (1, 1), (2, 0)] }

/-- three arrivals at t = 0 into the empty scheduler: packets 1 (class 0, 1 byte) and 2 (class 1, 2 bytes) both get
stamp 1 — an equal key `(1, 0)` —, packet 3 (class 0 via flow 2) gets 2.  The hand-off of packet 2 is accepted,
it is transmitted during [0, 2]; the next `get` is served with packet 1 (stamp 1 < 2); virtual time is then 2/3. -/
example : wfqSummary (runActs (WFQ.sched cfg) (WFQ.start 0)
    [.init none, .put ⟨1, 0, 1⟩, .put ⟨2, 1, 2⟩, .put ⟨3, 2, 1⟩, .handoff 2, .resume, .sendInit, .tick 2, .sendFire,
      .sendDone (some 1)]) = some ([2], [(3, 2)], 2 / 3) := by
  decide +kernel

/-- with the same arrivals the hand-off of packet 1 (the other packet with the minimal key) is accepted as well … -/
example : wfqSummary (runActs (WFQ.sched cfg) (WFQ.start 0)
    [.init none, .put ⟨1, 0, 1⟩, .put ⟨2, 1, 2⟩, .put ⟨3, 2, 1⟩, .handoff 1]) = some ([], [(2, 1), (3, 2)], 0) := by
  decide +kernel

/-- … while handing over packet 3 (stamp 2) is rejected: the model verifies minimality -/
example : wfqSummary (runActs (WFQ.sched cfg) (WFQ.start 0)
    [.init none, .put ⟨1, 0, 1⟩, .put ⟨2, 1, 2⟩, .put ⟨3, 2, 1⟩, .handoff 3]) = none := by
  decide +kernel

/-- a whole busy period and the reset: after the last bookkeeping burst the scheduler is empty, virtual time is 0
again, and the next arrival (t = 10) is stamped from 0: `0 + 8·1/(8·1) = 1` -/
example : wfqSummary (runActs (WFQ.sched cfg) (WFQ.start 0)
    [.init none, .put ⟨1, 0, 1⟩, .handoff 1, .resume, .sendInit, .tick 1, .sendFire, .sendDone none, .tick 10,
      .put ⟨2, 0, 1⟩]) = some ([1], [(2, 1)], 0) := by
  decide +kernel

/-- an arrival in the very instant the last transmission ended, *before* the loop has resumed (`sendDone` comes
later): nothing is waiting or in transmission, so packet 2 (class 1, 2 bytes) is stamped from 0: `0 + 8·2/(8·2) = 1`, not
from the old virtual time 1; after the loop's bookkeeping virtual time is still 0 -/
example : wfqSummary (runActs (WFQ.sched cfg) (WFQ.start 0)
    [.init none, .put ⟨1, 0, 1⟩, .handoff 1, .resume, .sendInit, .tick 1, .sendFire, .put ⟨2, 1, 2⟩]) =
      some ([1], [(2, 1)], 0) ∧
    wfqSummary (runActs (WFQ.sched cfg) (WFQ.start 0)
    [.init none, .put ⟨1, 0, 1⟩, .handoff 1, .resume, .sendInit, .tick 1, .sendFire, .put ⟨2, 1, 2⟩, .sendDone (some 2)]) =
      some ([1], [], 0) := by
  decide +kernel

/-- the hypotheses of the static-backlog theorems are satisfiable: `cfg` is positive … -/
example : WFQ.Pos cfg := by
  refine ⟨by decide +kernel, ?_⟩
  intro k w h
  simp only [cfg, lookup] at h
  split at h
  · cases h; norm_num
  · split at h
    · cases h; norm_num
    · cases h

/-- … and in the first run above, after the `sendDone`, class 0 is still backlogged (packet 3 waits) -/
example : (match runActs (WFQ.sched cfg) (WFQ.start 0)
    [.init none, .put ⟨1, 0, 1⟩, .put ⟨2, 1, 2⟩, .put ⟨3, 2, 1⟩, .handoff 2, .resume, .sendInit, .tick 2, .sendFire,
      .sendDone (some 1)] with
    | .ok (s, _, _) => s.items.map (fun it => WFQ.clsOf cfg it.pkt.flow)
    | .error _ => []) = [some 0] := by
  decide +kernel

/-- all hypotheses of `static_backlog_fair` together: `[.init none]` leaves the scheduler empty; four packets arrive at
t = 0; a continuation without arrivals (`NoPut`) is accepted; afterwards classes 0 and 1 are both still backlogged
(packets 1 and 3 of class 0 and packet 4 of class 1 wait while packet 2 is in transmission) -/
example :
    (match runActs (WFQ.sched cfg) (WFQ.start 0) [.init none] with
     | .ok (s1, _, _) =>
       (held s1,
        match runActs (WFQ.sched cfg) s1
            ([⟨1, 0, 1⟩, ⟨2, 1, 2⟩, ⟨3, 2, 1⟩, ⟨4, 1, 2⟩].map .put ++ [.handoff 2, .resume, .sendInit, .tick 1, .sample true]) with
        | .ok (s, _, outs) => some (s.items.map (fun it => WFQ.clsOf cfg it.pkt.flow), outs, inHand s)
        | .error _ => none)
     | .error _ => ([], none)) = ([], some ([some 0, some 0, some 1], [], [⟨2, 1, 2⟩])) ∧
    WFQ.NoPut ([.handoff 2, .resume, .sendInit, .tick 1, .sample true] : List (StAct ℚ)) := by
  refine ⟨by decide +kernel, ?_⟩
  intro a ha p hp
  subst hp
  simp at ha

def vcSummary (r : Except SErr (VC.VState × List SPkt × List SPkt)) : Option (List Nat × List (Nat × ℚ)) :=
  match r with
  | .ok (s, _, outs) => some (outs.map (·.id), s.items.map (fun it => (it.pkt.id, it.stamp)))
  | .error _ => none

def vcfg : VcCfg ℚ := { rate := 8, vticks := [(0, 1), (1, 1 / 2)], flow2class := [(0, 0), (1, 1)] }

/-- VirtualClock: stamps `max(now, aux) + vtick`: 1, 1/2, 1 (class 1 twice); packet 2 (stamp 1/2) goes first, and
packets 1 and 3 then tie on stamp 1 with equal arrival instants -/
example : vcSummary (runActs (VC.sched vcfg) (VC.start vcfg 0)
    [.init none, .put ⟨1, 0, 1⟩, .put ⟨2, 1, 1⟩, .put ⟨3, 1, 1⟩, .handoff 2, .resume, .sendInit, .tick 1, .sendFire,
      .sendDone (some 3)]) = some ([2], [(1, 1)]) := by
  decide +kernel

/-- the bridge hypotheses are met: the model accepts `put` of a 2-byte packet of flow 1 (class 1, weight 2) at t = 0 into the
empty WFQ scheduler with stamp 1, and the *translated* `WFQ.put`, run on the view from class 1, stores it under `(1, 0)` -/
example : (match WFQ.put cfg WFQ.init0 0 0 ⟨2, 1, 2⟩ with | .ok (_, F) => some F | .error _ => none) = some 1 ∧
    (Gen.WFQ.put (GenSched.wfqObj cfg WFQ.init0 1 2 0 0 0 0 0) 0 0 2 (GenSched.weightTable cfg WFQ.init0)).put_stamp = 1 := by
  decide +kernel

/-- a weight table whose key order is not the ascending class order, with the non-integer weights 3/5, 11/10, 7/10 -/
def tcfg : WfqCfg ℚ := { rate := 8, weights := [(2, 3 / 5), (0, 11 / 10), (1, 7 / 10)], flow2class := [(0, 0), (1, 1), (2, 2)] }

/-- the hypotheses of `wfq_vtime_generated_eq_model` are met by `tcfg` and a state in which classes 0 and 2 are active
(vtime 1, last update at t = 1): at t = 18/5 the *translated* `update_vtime` adds 3/5 (class 2, first in the table) and then
11/10 (class 0), skips class 1, and ends at `1 + (18/5 - 1) / (17/10) = 43/17` — the model, adding 11/10 then 3/5, too -/
example : GenSched.KeysNodup tcfg ∧ ([0, 2] : List Nat).Pairwise (· < ·) ∧
    GenSched.weightTable tcfg { vtime := 1, lastTime := 1, active := [0, 2] } = [(true, 3 / 5), (true, 11 / 10), (false, 7 / 10)] ∧
    (Gen.WFQ.update_vtime (GenSched.wfqObj tcfg { vtime := 1, lastTime := 1, active := [0, 2] } 0 (11 / 10) 0 0 0 0 0) (18 / 5)
      (GenSched.weightTable tcfg { vtime := 1, lastTime := 1, active := [0, 2] })).vtime = 43 / 17 ∧
    (match WFQ.updateVtime tcfg { vtime := 1, lastTime := 1, active := [0, 2] } (18 / 5) with
      | .ok st1 => some st1.vtime | .error _ => none) = some (43 / 17) := by
  unfold GenSched.KeysNodup
  decide +kernel

/-- the translated `VC.put` on the entries of class 1 of `vcfg` (vtick 1/2) at t = 0: stamp `max(0, 0) + 1/2` -/
example : (Gen.VC.put (GenSched.vcObj vcfg 0 0 (1 / 2) 0 0 0 0) 0 1).put_stamp = 1 / 2 := by
  decide +kernel

end C14
