import OnlVerif.Lemmas.EventMono
import OnlVerif.Lemmas.KernelStep
import OnlVerif.Lemmas.OnceExamples
/-!
# C02 — every waiter gets an event's outcome exactly once; failures are never lost

Model: `Environment.step`, `Event.succeed/fail`, `Process._resume` in `OnlVerif/Kernel`.
All theorems hold for every program (`σ`, `body`).

The global theorems at the end (`scheduled_at_most_once` … `registration_invariant`) hold for every state reachable
by kernel steps (`KReach`) from a state that satisfies the invariant `Once.Inv0` (the empty environment does, and
starting processes from outside keeps it: `Once.Inv0.init`, `Once.Inv0.spawn`), under the domain hypothesis
`Once.SafeRun` (DESIGN §3): every `succeed()`/`fail()` the run executes targets an existing plain event or condition
(or an already triggered event, which is refused), and every `yield` names an existing event that is not an
`Interruption` aimed at the yielding process.  `Once.SafeProg` is a sufficient condition on the program text, and
`Once.SafeStep` is decidable, so the hypothesis can be evaluated for a concrete run (`Once.SafeUpTo`).
`Once.NoHangRun` ("no `_resume` loop runs out of fuel") is needed only where it is named.
Without the hypothesis the model reproduces the double scheduling of the real kernel (examples at the end).
-/

namespace C02
variable {σ : Type}

/-- **Processing an event invokes exactly the callbacks registered at that moment, each once, in registration
order**: `step` detaches the list `L` (the event becomes processed) and folds `runCb` over exactly `L`. -/
theorem callbacks_once_in_order (body : σ → Resume → Burst ℚ σ) (fuel : Nat) (s : KState ℚ σ)
    (q : QEntry ℚ) (rest : List (QEntry ℚ)) (L : List Cb)
    (hq : popMin s.agenda = some (q, rest)) (hL : (s.ev q.ev).cbs = some L) :
    step body fuel s = closeEvent (L.foldl (runCb body fuel q.ev) { s := openEvent s q rest }) q.ev ∧
    ((openEvent s q rest).ev q.ev).cbs = none ∨ ¬ q.ev < s.events.size := by
  by_cases hin : q.ev < s.events.size
  · left
    refine ⟨by simp only [step, hq, hL], ?_⟩
    show (((s.setEv q.ev { s.ev q.ev with cbs := none }).ev q.ev)).cbs = none
    rw [KState.ev_setEv, if_pos ⟨rfl, hin⟩]
  · right; exact hin

/-- registration appends at the end of the callback list: registration order is invocation order -/
theorem registration_appends (s : KState ℚ σ) (e : EvId) (cb : Cb) (L : List Cb) (hL : (s.ev e).cbs = some L)
    (hin : e < s.events.size) : ((s.addCb e cb).ev e).cbs = some (L ++ [cb]) := by
  unfold KState.addCb
  rw [KState.ev_setEv, if_pos ⟨rfl, hin⟩]
  simp [hL]

/-- **A processed event stays processed for ever** — through every callback, burst and resource scan of every later
step — so none of its callbacks can be invoked a second time and nothing can be registered on it any more. -/
theorem processed_forever (body : σ → Resume → Burst ℚ σ) (fuel : Nat) (s s' : KState ℚ σ) (e : EvId)
    (he : e < s.events.size) (hp : (s.ev e).cbs = none) (hs : (step body fuel s).state? = some s') :
    (s'.ev e).cbs = none := by
  unfold step at hs
  split at hs
  · cases hs
  · rename_i q rest hq
    have ho : EvMono s (openEvent s q rest) := by
      show EvMono s { s with now := q.time, agenda := rest, events := s.events.setIfInBounds q.ev _ }
      have := EvMono.of_setEv s q.ev { s.ev q.ev with cbs := none } rfl (fun _ => rfl)
      exact ⟨this.size_le, this.kind, this.processed⟩
    split at hs
    · cases hs; exact ho.processed e he hp
    · rename_i cbs _
      rw [closeEvent_state] at hs
      cases hs
      have := EvMono.krel.foldCbs body fuel q.ev cbs { s := openEvent s q rest }
      exact (ho.trans this).processed e he hp

/-- **A waiting process receives precisely the event's outcome**: the value of a successful event is sent, a failed
event's exception (same type and arguments) is thrown at the yield and the failure then counts as handled. -/
theorem waiter_receives_outcome (s : KState ℚ σ) (p e : EvId) (hin : e < s.events.size) :
    (∀ v, (s.ev e).out = some (.ok v) → (s.ev e).kind ≠ .init p → (deliver s p e).2 = .value v) ∧
    (∀ x, (s.ev e).out = some (.fail x) → (deliver s p e).2 = .exc x ∧ ((deliver s p e).1.ev e).defused = true) := by
  constructor
  · intro v hv hk
    show resumeArg s p e = _
    unfold resumeArg
    rw [hv]
    simp only [hk, if_false]
  · intro x hx
    refine ⟨?_, ?_⟩
    · show resumeArg s p e = _
      unfold resumeArg
      rw [hx]
    · show ((deliverSt s p e).ev e).defused = true
      unfold deliverSt
      rw [hx]
      unfold KState.defuse
      rw [KState.ev_setEv, if_pos ⟨rfl, hin⟩]

/-- **Yielding an already processed event continues at once**: no registration happens, the `_resume` loop goes
round again in the same burst with that event. -/
theorem yield_processed_continues (s : KState ℚ σ) (p e : EvId) :
    (s.processed e = true → register s p e = none) ∧ (s.processed e = false → (register s p e).isSome) := by
  unfold register
  constructor <;> intro h <;> simp [h]

/-- **An event can be triggered only once**: `succeed` / `fail` on a triggered event raise `RuntimeError` and change nothing. -/
theorem trigger_once (s : KState ℚ σ) (self e : EvId) (v : Val) (x : Exc) (h : s.triggered e = true) :
    doCall s self (.succeed e v) = (s, .err (runtimeErr "already triggered")) ∧
    doCall s self (.fail e x) = (s, .err (runtimeErr "already triggered")) := by
  simp only [doCall, h, if_true, and_self]

/-- **A process's termination is an event carrying its result**: returning `v` (raising `x`) triggers the process's own
event with `ok v` (`fail x`), scheduled now with NORMAL priority. -/
theorem termination_event (s : KState ℚ σ) (p : EvId) (pr : ProcRec σ) (o : Outcome) (hin : p < s.events.size) :
    ((finishProc s p pr o).ev p).out = some o ∧
    (finishProc s p pr o).agenda = { time := s.now + Num.zero, prio := NORMAL, eid := s.eid, ev := p } :: s.agenda := by
  unfold finishProc
  refine ⟨?_, rfl⟩
  show ((s.setOut p o).ev p).out = some o
  unfold KState.setOut
  rw [KState.ev_setEv, if_pos ⟨rfl, hin⟩]

/-- **A failed event nobody handled makes `step()` raise that exception** instead of continuing silently; a handled
(defused) failure, or a success, lets the run continue. -/
theorem failure_not_lost (l : LoopSt ℚ σ) (e : EvId) (x : Exc) (hs : l.stop = none)
    (hx : (l.s.ev e).out = some (.fail x)) :
    ((l.s.ev e).defused = false → closeEvent l e = .crash x l.s) ∧
    ((l.s.ev e).defused = true → closeEvent l e = .ok l.s) := by
  unfold closeEvent
  simp only [hs, hx]
  constructor <;> intro h <;> simp [h]

/-- …and when the failed event is the one `run(until=event)` waits for, `run` re-raises its exception (after every
waiter of the event has been resumed). -/
theorem failed_until_event_raises (body : σ → Resume → Burst ℚ σ) (fuel n : Nat) (e : EvId) (s s' : KState ℚ σ)
    (o : Outcome) (x : Exc) (h : step body fuel s = .stopped o s') (hx : (s'.ev e).out = some (.fail x)) :
    runLoop body fuel (some e) (n + 1) s = .raised x s' := by
  simp only [runLoop, h, onStop, Option.bind_some, hx]

/-! non-vacuity: a failed, undefused event in a concrete state -/
example : closeEvent ({ s := ({ now := 0, events := #[{ kind := .plain, cbs := none, out := some (.fail ⟨"KeyError", [.int 3]⟩) }] }
    : KState ℚ Unit) }) 0 = .crash ⟨"KeyError", [.int 3]⟩
      ({ now := 0, events := #[{ kind := .plain, cbs := none, out := some (.fail ⟨"KeyError", [.int 3]⟩) }] }) := rfl

/-! ## global: scheduled at most once, processed at most once, registered exactly once -/

/-- **An event is scheduled at most once**: in every state of every safe run the agenda holds at most one entry per
event, and exactly for the events that are triggered and not yet processed. -/
theorem scheduled_at_most_once (body : σ → Resume → Burst ℚ σ) (fuel : Nat) (s0 s : KState ℚ σ)
    (h0 : Once.Inv0 false s0) (hsafe : Once.SafeRun body fuel s0) (hr : KReach body fuel s0 s) :
    Once.AgendaOnce s :=
  (Once.Inv0.reach body fuel h0 (fun h => by cases h) hsafe (fun h => by cases h) hr).agendaOnce

/-- **An event is in the agenda exactly while it is triggered and unprocessed** — so a triggered event is never
forgotten: it stays scheduled until the step that processes it (and hands its outcome to every waiter). -/
theorem scheduled_iff_triggered_unprocessed (body : σ → Resume → Burst ℚ σ) (fuel : Nat) (s0 s : KState ℚ σ)
    (h0 : Once.Inv0 false s0) (hsafe : Once.SafeRun body fuel s0) (hr : KReach body fuel s0 s) (e : EvId) :
    (∃ q ∈ s.agenda, q.ev = e) ↔ ((s.ev e).out ≠ none ∧ (s.ev e).cbs ≠ none) := by
  have h := scheduled_at_most_once body fuel s0 s h0 hsafe hr
  constructor
  · rintro ⟨q, hq, rfl⟩; exact h.live q hq
  · rintro ⟨h1, h2⟩; exact h.sched e h1 h2

/-- **`step` never dies of a doubly scheduled event**: the event it pops is unprocessed, so the step is exactly the
callback loop over the callbacks registered at that moment (never the `TypeError: 'NoneType' object is not iterable`
branch). -/
theorem never_pops_processed (body : σ → Resume → Burst ℚ σ) (fuel : Nat) (s0 s : KState ℚ σ)
    (h0 : Once.Inv0 false s0) (hsafe : Once.SafeRun body fuel s0) (hr : KReach body fuel s0 s)
    (q : QEntry ℚ) (rest : List (QEntry ℚ)) (hq : popMin s.agenda = some (q, rest)) :
    ∃ L, (s.ev q.ev).cbs = some L ∧
      step body fuel s = closeEvent (L.foldl (runCb body fuel q.ev) { s := openEvent s q rest }) q.ev := by
  have hi := Once.Inv0.reach body fuel h0 (fun h => by cases h) hsafe (fun h => by cases h) hr
  have hne := hi.pop_unprocessed q rest hq
  cases hc : (s.ev q.ev).cbs with
  | none => exact absurd hc hne
  | some L => exact ⟨L, rfl, by simp only [step, hq, hc]⟩

/-- …so **an exception leaving `step()` is always the failure of the processed event that nobody handled** — there is
no other way for a step of a safe run to crash. -/
theorem crash_is_unhandled_failure (body : σ → Resume → Burst ℚ σ) (fuel : Nat) (s0 s s' : KState ℚ σ) (x : Exc)
    (h0 : Once.Inv0 false s0) (hsafe : Once.SafeRun body fuel s0) (hr : KReach body fuel s0 s)
    (hc : step body fuel s = .crash x s') :
    ∃ q rest, popMin s.agenda = some (q, rest) ∧ (s'.ev q.ev).out = some (.fail x) ∧ (s'.ev q.ev).defused = false := by
  cases hq : popMin s.agenda with
  | none => simp only [step, hq] at hc; cases hc
  | some qr =>
    obtain ⟨q, rest⟩ := qr
    obtain ⟨L, _, hstep⟩ := never_pops_processed body fuel s0 s h0 hsafe hr q rest hq
    refine ⟨q, rest, rfl, ?_⟩
    rw [hstep] at hc
    unfold closeEvent at hc
    split at hc
    · cases hc
    · split at hc
      · rename_i y hy
        split at hc
        · cases hc
        · rename_i hd
          cases hc
          exact ⟨hy, by simpa using hd⟩
      · cases hc

/-- **A processed event never appears in the agenda again.** -/
theorem processed_never_rescheduled (body : σ → Resume → Burst ℚ σ) (fuel : Nat) (s0 s : KState ℚ σ)
    (h0 : Once.Inv0 false s0) (hsafe : Once.SafeRun body fuel s0) (hr : KReach body fuel s0 s)
    (e : EvId) (hp : (s.ev e).cbs = none) : ∀ q ∈ s.agenda, q.ev ≠ e := by
  intro q hq hqe
  have := ((scheduled_at_most_once body fuel s0 s h0 hsafe hr).live q hq).2
  rw [hqe] at this
  exact this hp

/-- **An event is processed at most once over the whole run**: once a step has popped (an entry of) event `e`, `e` is
processed in every later state and no later step pops an entry of `e`.  With `callbacks_once_in_order` (the step that
processes `e` invokes exactly the callbacks registered at that moment, each once, in order): every registered callback
is invoked at most once over the whole run. -/
theorem processed_at_most_once (body : σ → Resume → Burst ℚ σ) (fuel : Nat) (s0 s s' s2 : KState ℚ σ)
    (h0 : Once.Inv0 false s0) (hsafe : Once.SafeRun body fuel s0) (hr : KReach body fuel s0 s)
    (q : QEntry ℚ) (rest : List (QEntry ℚ)) (hq : popMin s.agenda = some (q, rest))
    (hs : (step body fuel s).state? = some s') (hr2 : KReach body fuel s' s2) :
    (s2.ev q.ev).cbs = none ∧
    ∀ q2 rest2, popMin s2.agenda = some (q2, rest2) → q2.ev ≠ q.ev := by
  have hi := Once.Inv0.reach body fuel h0 (fun h => by cases h) hsafe (fun h => by cases h) hr
  have hlt : q.ev < s.events.size := Once.lt_of_cbs s _ (hi.pop_unprocessed q rest hq)
  obtain ⟨hp', hlt'⟩ := Once.step_processes body fuel s s' q rest hq hlt hs
  have hp2 : (s2.ev q.ev).cbs = none := (Once.reach_evMono body fuel s' s2 hr2).processed q.ev hlt' hp'
  refine ⟨hp2, ?_⟩
  intro q2 rest2 hq2
  have hr02 : KReach body fuel s0 s2 := Once.KReach.trans (KReach.step hr hs) hr2
  exact processed_never_rescheduled body fuel s0 s2 h0 hsafe hr02 q.ev hp2 q2
    ((popMin_spec _ _ _ hq2).1.symm.subset List.mem_cons_self)

/-- **The registration invariant**: in every state between two steps of a safe run, `Process._resume` of `p` is in the
callback list of an event `e` only if `p` is an unfinished process whose current target is `e` — and then it is there
exactly once.  Hence a process is registered on at most one event, never twice, a finished process nowhere, and
(`probe` callbacks and a condition's `_check` are not `_resume`s) processing `e` resumes `p` exactly once. -/
theorem registration_invariant (body : σ → Resume → Burst ℚ σ) (fuel : Nat) (s0 s : KState ℚ σ)
    (h0 : Once.Inv0 false s0) (hsafe : Once.SafeRun body fuel s0) (hr : KReach body fuel s0 s)
    (e : EvId) (L : List Cb) (p : EvId) (hL : (s.ev e).cbs = some L) (hm : Cb.resume p ∈ L) :
    (s.ev p).out = none ∧ (∃ pr, s.proc? p = some pr ∧ pr.target = some e) ∧ L.count (.resume p) = 1 :=
  (Once.Inv0.reach body fuel h0 (fun h => by cases h) hsafe (fun h => by cases h) hr).regOnce e L p hL hm

/-- **No waiting process is lost** (`0 < fuel`): between two steps every unfinished process has a target that exists,
and — unless that target has been processed already, which between steps means that the `_resume` loop ran out of fuel
on a process that keeps yielding processed events (a Python hang) — `_resume` of the process is in the target's
callback list, exactly once, and in no other list. -/
theorem waiting_process_registered_once (body : σ → Resume → Burst ℚ σ) (fuel : Nat) (s0 s : KState ℚ σ)
    (h0 : Once.Inv0 true s0) (hfuel : 0 < fuel) (hsafe : Once.SafeRun body fuel s0) (hr : KReach body fuel s0 s)
    (p : EvId) (pr : ProcRec σ) (hp : s.proc? p = some pr) (hlive : (s.ev p).out = none) :
    ∃ t, pr.target = some t ∧ t < s.events.size ∧
      (∀ L, (s.ev t).cbs = some L → L.count (.resume p) = 1) ∧
      (∀ e L, e ≠ t → (s.ev e).cbs = some L → Cb.resume p ∉ L) := by
  have hi := Once.Inv0.reach body fuel h0 (fun _ => hfuel) hsafe (fun h => by cases h) hr
  obtain ⟨t, h1, h2, h3⟩ := hi.noneLost p pr hp hlive
  refine ⟨t, h1, h2, ?_, ?_⟩
  · intro L hL
    rcases h3 with h3 | ⟨L', h3, h4⟩
    · rw [hL] at h3; cases h3
    · rw [hL] at h3; cases h3
      exact (hi.regOnce t L p hL h4).2.2
  · intro e L hne hL hm
    obtain ⟨_, ⟨pr', h5, h6⟩, _⟩ := hi.regOnce e L p hL hm
    rw [hp] at h5; cases h5
    rw [h1] at h6; cases h6
    exact hne rfl

/-- **Every waiting process is registered exactly once** — without the caveat, for runs in which no `_resume` loop runs
out of fuel (`Once.NoHangRun`: no process yields already-processed events for ever, which would be a hang of the real
kernel): between two steps every unfinished process is in the callback list of its (unprocessed) target exactly once,
and in no other list. -/
theorem waiting_process_registered_exactly_once (body : σ → Resume → Burst ℚ σ) (fuel : Nat) (s0 s : KState ℚ σ)
    (h0 : Once.Inv0 true s0 true) (hfuel : 0 < fuel) (hsafe : Once.SafeRun body fuel s0)
    (hnh : Once.NoHangRun body fuel s0) (hr : KReach body fuel s0 s)
    (p : EvId) (pr : ProcRec σ) (hp : s.proc? p = some pr) (hlive : (s.ev p).out = none) :
    ∃ t L, pr.target = some t ∧ (s.ev t).cbs = some L ∧ L.count (.resume p) = 1 ∧
      (∀ e L', e ≠ t → (s.ev e).cbs = some L' → Cb.resume p ∉ L') := by
  have hi := Once.Inv0.reach body fuel h0 (fun _ => hfuel) hsafe (fun _ => hnh) hr
  obtain ⟨t, L, h1, h2, h3⟩ := hi.allRegistered p pr hp hlive
  refine ⟨t, L, h1, h2, (hi.regOnce t L p h2 h3).2.2, ?_⟩
  intro e L' hne hL' hm
  obtain ⟨_, ⟨pr', h5, h6⟩, _⟩ := hi.regOnce e L' p hL' hm
  rw [hp] at h5; cases h5
  rw [h1] at h6; cases h6
  exact hne rfl

/-- **A waiter is resumed exactly once per wait**: the step that processes the target `t` of a waiting process `p`
runs a callback list that contains `_resume p` exactly once (and the event is never processed again). -/
theorem waiter_resumed_once (body : σ → Resume → Burst ℚ σ) (fuel : Nat) (s0 s : KState ℚ σ)
    (h0 : Once.Inv0 true s0) (hfuel : 0 < fuel) (hsafe : Once.SafeRun body fuel s0) (hr : KReach body fuel s0 s)
    (q : QEntry ℚ) (rest : List (QEntry ℚ)) (hq : popMin s.agenda = some (q, rest))
    (p : EvId) (pr : ProcRec σ) (hp : s.proc? p = some pr) (hlive : (s.ev p).out = none) (ht : pr.target = some q.ev) :
    ∃ L : List Cb, step body fuel s = closeEvent (L.foldl (runCb body fuel q.ev) { s := openEvent s q rest }) q.ev ∧
      L.count (.resume p) = 1 := by
  obtain ⟨L, hL, hstep⟩ := never_pops_processed body fuel s0 s h0.weaken hsafe hr q rest hq
  obtain ⟨t, h1, _, h3, _⟩ := waiting_process_registered_once body fuel s0 s h0 hfuel hsafe hr p pr hp hlive
  rw [ht] at h1; cases h1
  exact ⟨L, hstep, h3 L hL⟩

/-! ### the hypotheses are satisfiable; without them the crash is real -/

/-- the empty environment, and a main program that starts processes, satisfy the initial invariant -/
example : Once.Inv0 true (doCall ({ now := 0 } : KState ℚ Nat) 0 (.spawn 0)).1 :=
  (Once.Inv0.init true 0 #[] (fun r => by simp [default])).spawn 0 0

/-- a program that creates an event, succeeds it with a value, starts a child that sleeps, and waits for the event is
safe in every state; so every state it can reach has each event at most once in the agenda -/
example (fuel : Nat) (s : KState ℚ Nat)
    (hr : KReach Once.demoBody fuel (doCall ({ now := 0 } : KState ℚ Nat) 0 (.spawn 0)).1 s) : Once.AgendaOnce s :=
  scheduled_at_most_once Once.demoBody fuel _ s
    ((Once.Inv0.init false 0 #[] (fun r => by simp [default])).spawn 0 0) (Once.demo_safe.run fuel _) hr

/-- a run in which one process waits for an event that another process succeeds one time unit later satisfies the
hypotheses (decided by evaluating its 6 steps), although the program text alone is not `SafeProg` -/
example : Once.Inv0 true Once.wait0 true ∧ Once.SafeRun Once.waitBody 5 Once.wait0 ∧
    Once.NoHangRun Once.waitBody 5 Once.wait0 ∧ ¬ Once.SafeProg Once.waitBody :=
  ⟨Once.wait0_inv, Once.wait_safe, Once.wait_noHang, Once.wait_not_safeProg⟩

/-- a process that calls `succeed()` on its own Process object: the start state satisfies the invariant, … -/
example : Once.Inv0 false Once.bad0 := Once.bad0_inv
/-- … the third step of the run pops an event that has been processed already and raises the `TypeError`, exactly as
the real kernel does, … -/
example : Once.isDoubleScheduleCrash (step Once.badBody 5
    (Once.after (Once.after Once.bad0 (step Once.badBody 5 Once.bad0))
      (step Once.badBody 5 (Once.after Once.bad0 (step Once.badBody 5 Once.bad0))))) = true := by decide +kernel
/-- … and indeed the run violates the domain hypothesis. -/
example : ¬ Once.SafeRun Once.badBody 5 Once.bad0 := Once.bad_unsafe

end C02
