import OnlVerif.Lemmas.EventMono
import OnlVerif.Lemmas.KernelStep
/-!
# C02 — every waiter gets an event's outcome exactly once; failures are never lost

Model: `Environment.step`, `Event.succeed/fail`, `Process._resume` in `OnlVerif/Kernel`.
All theorems hold for every program (`σ`, `body`).
-/

namespace C02
variable {σ : Type}

/-- **Processing an event invokes exactly the callbacks registered at that moment, each once, in registration
order**: `step` detaches the list `L` (the event becomes processed) and folds `runCb` over exactly `L`. -/
theorem callbacks_once_in_order (body : σ → Resume → Burst ℚ σ) (fuel : Nat) (s : KState ℚ σ)
    (q : QEntry ℚ) (rest : List (QEntry ℚ)) (L : List Cb)
    (hq : popMin s.agenda = some (q, rest)) (hL : (s.ev q.ev).cbs = some L) :
    step body fuel s = closeEvent (L.foldl (runCb body fuel q.ev) { s := openEvent s q rest }) q.ev ∧
    ((openEvent s q rest).ev q.ev).cbs = none ∨ ¬ q.ev < s.events.size := by
  by_cases hin : q.ev < s.events.size
  · left
    refine ⟨by simp only [step, hq, hL], ?_⟩
    show (((s.setEv q.ev { s.ev q.ev with cbs := none }).ev q.ev)).cbs = none
    rw [KState.ev_setEv, if_pos ⟨rfl, hin⟩]
  · right; exact hin

/-- registration appends at the end of the callback list: registration order is invocation order -/
theorem registration_appends (s : KState ℚ σ) (e : EvId) (cb : Cb) (L : List Cb) (hL : (s.ev e).cbs = some L)
    (hin : e < s.events.size) : ((s.addCb e cb).ev e).cbs = some (L ++ [cb]) := by
  unfold KState.addCb
  rw [KState.ev_setEv, if_pos ⟨rfl, hin⟩]
  simp [hL]

/-- **A processed event stays processed for ever** — through every callback, burst and resource scan of every later
step — so none of its callbacks can be invoked a second time and nothing can be registered on it any more. -/
theorem processed_forever (body : σ → Resume → Burst ℚ σ) (fuel : Nat) (s s' : KState ℚ σ) (e : EvId)
    (he : e < s.events.size) (hp : (s.ev e).cbs = none) (hs : (step body fuel s).state? = some s') :
    (s'.ev e).cbs = none := by
  unfold step at hs
  split at hs
  · cases hs
  · rename_i q rest hq
    have ho : EvMono s (openEvent s q rest) := by
      show EvMono s { s with now := q.time, agenda := rest, events := s.events.setIfInBounds q.ev _ }
      have := EvMono.of_setEv s q.ev { s.ev q.ev with cbs := none } rfl (fun _ => rfl)
      exact ⟨this.size_le, this.kind, this.processed⟩
    split at hs
    · cases hs; exact ho.processed e he hp
    · rename_i cbs _
      rw [closeEvent_state] at hs
      cases hs
      have := EvMono.krel.foldCbs body fuel q.ev cbs { s := openEvent s q rest }
      exact (ho.trans this).processed e he hp

/-- **A waiting process receives precisely the event's outcome**: the value of a successful event is sent, a failed
event's exception (same type and arguments) is thrown at the yield and the failure then counts as handled. -/
theorem waiter_receives_outcome (s : KState ℚ σ) (p e : EvId) (hin : e < s.events.size) :
    (∀ v, (s.ev e).out = some (.ok v) → (s.ev e).kind ≠ .init p → (deliver s p e).2 = .value v) ∧
    (∀ x, (s.ev e).out = some (.fail x) → (deliver s p e).2 = .exc x ∧ ((deliver s p e).1.ev e).defused = true) := by
  constructor
  · intro v hv hk
    show resumeArg s p e = _
    unfold resumeArg
    rw [hv]
    simp only [hk, if_false]
  · intro x hx
    refine ⟨?_, ?_⟩
    · show resumeArg s p e = _
      unfold resumeArg
      rw [hx]
    · show ((deliverSt s p e).ev e).defused = true
      unfold deliverSt
      rw [hx]
      unfold KState.defuse
      rw [KState.ev_setEv, if_pos ⟨rfl, hin⟩]

/-- **Yielding an already processed event continues at once**: no registration happens, the `_resume` loop goes
round again in the same burst with that event. -/
theorem yield_processed_continues (s : KState ℚ σ) (p e : EvId) :
    (s.processed e = true → register s p e = none) ∧ (s.processed e = false → (register s p e).isSome) := by
  unfold register
  constructor <;> intro h <;> simp [h]

/-- **An event can be triggered only once**: `succeed` / `fail` on a triggered event raise `RuntimeError` and change nothing. -/
theorem trigger_once (s : KState ℚ σ) (self e : EvId) (v : Val) (x : Exc) (h : s.triggered e = true) :
    doCall s self (.succeed e v) = (s, .err (runtimeErr "already triggered")) ∧
    doCall s self (.fail e x) = (s, .err (runtimeErr "already triggered")) := by
  simp only [doCall, h, if_true, and_self]

/-- **A process's termination is an event carrying its result**: returning `v` (raising `x`) triggers the process's own
event with `ok v` (`fail x`), scheduled now with NORMAL priority. -/
theorem termination_event (s : KState ℚ σ) (p : EvId) (pr : ProcRec σ) (o : Outcome) (hin : p < s.events.size) :
    ((finishProc s p pr o).ev p).out = some o ∧
    (finishProc s p pr o).agenda = { time := s.now + Num.zero, prio := NORMAL, eid := s.eid, ev := p } :: s.agenda := by
  unfold finishProc
  refine ⟨?_, rfl⟩
  show ((s.setOut p o).ev p).out = some o
  unfold KState.setOut
  rw [KState.ev_setEv, if_pos ⟨rfl, hin⟩]

/-- **A failed event nobody handled makes `step()` raise that exception** instead of continuing silently; a handled
(defused) failure, or a success, lets the run continue. -/
theorem failure_not_lost (l : LoopSt ℚ σ) (e : EvId) (x : Exc) (hs : l.stop = none)
    (hx : (l.s.ev e).out = some (.fail x)) :
    ((l.s.ev e).defused = false → closeEvent l e = .crash x l.s) ∧
    ((l.s.ev e).defused = true → closeEvent l e = .ok l.s) := by
  unfold closeEvent
  simp only [hs, hx]
  constructor <;> intro h <;> simp [h]

/-- …and when the failed event is the one `run(until=event)` waits for, `run` re-raises its exception (after every
waiter of the event has been resumed). -/
theorem failed_until_event_raises (body : σ → Resume → Burst ℚ σ) (fuel n : Nat) (e : EvId) (s s' : KState ℚ σ)
    (o : Outcome) (x : Exc) (h : step body fuel s = .stopped o s') (hx : (s'.ev e).out = some (.fail x)) :
    runLoop body fuel (some e) (n + 1) s = .raised x s' := by
  simp only [runLoop, h, onStop, Option.bind_some, hx]

/-! non-vacuity: a failed, undefused event in a concrete state -/
example : closeEvent ({ s := ({ now := 0, events := #[{ kind := .plain, cbs := none, out := some (.fail ⟨"KeyError", [.int 3]⟩) }] }
    : KState ℚ Unit) }) 0 = .crash ⟨"KeyError", [.int 3]⟩
      ({ now := 0, events := #[{ kind := .plain, cbs := none, out := some (.fail ⟨"KeyError", [.int 3]⟩) }] }) := rfl

end C02
