import OnlVerif.Lemmas.Wire
import OnlVerif.Lemmas.GenWire
import OnlVerif.Props.C10K
/-!
# C10 — a wire delays each packet by its drawn delay, keeps order, loses only by rate

Model: `OnlVerif/Net/Fifo.lean` (the FifoServer LTS) instantiated with `OnlVerif/Net/Wire.lean` (`Wire.put`, `Wire.run`,
`Cable`).  "For all arrival sequences, delay sequences, loss rates and seeds" = for every action sequence the LTS
accepts (`Fifo.runActs … = .ok …`) from the initial state; the delay `y` and the loss draw `x` of each packet are the
arguments of its `resume x y` action, arbitrary rationals.  The model's ghost log (`WireSt.log`, newest first) records
for every packet that left: arrival `a`, drawn delay `d`, the instant `t` it left, and whether it was discarded;
`log_records_outputs` ties the log to the LTS's outputs.  Time is exact (ℚ); the correspondence check replays the real
`Wire`/`Cable` through this LTS bit for bit.

"Independently with probability p" is not addressed: the theorems say *lost ⇔ draw < loss_rate*.
-/

namespace C10
open Fifo Wire

/-- initial state of a wire created at `t0` -/
def start (t0 : ℚ) : FState ℚ (WireSt ℚ) := Fifo.init (Wire.st0 t0) t0

/-- **The log is what happened**: a step that forwards (discards) packet `q` records it as delivered (lost) with
its arrival stamp and the current instant; no other step touches the log. -/
theorem log_records_outputs (c : WireCfg ℚ) (s s' : FState ℚ (WireSt ℚ)) (a : FAct ℚ) (o : FOut ℚ)
    (h : step (Wire.dev c) s a = .ok (s', o)) : LogStep s s' o :=
  log_step c s s' a o h

/-- **Entering**: `put` never refuses, counts the packet and stamps it with the current instant: that stamp is the `a`
of the theorems below. -/
theorem wire_put_stamps (c : WireCfg ℚ) (s s' : FState ℚ (WireSt ℚ)) (p : Pkt ℚ) (o : FOut ℚ)
    (h : step (Wire.dev c) s (.put p) = .ok (s', o)) :
    o = .accepted ∧ s'.items = s.items ++ [{ p with ctime := s.now }] ∧ s'.dev.packetsRec = s.dev.packetsRec + 1 ∧
    s'.now = s.now := by
  simp only [Fifo.step, dev_admit, admitPkt, if_true, Except.ok.injEq, Prod.mk.injEq] at h
  obtain ⟨rfl, rfl⟩ := h
  exact ⟨rfl, rfl, rfl, rfl⟩

/-- **The delay on record is the delay drawn**: a `resume x y` that does not lose the packet records `y` for the packet
in hand, and no other step changes the record until the packet leaves (`log_records_outputs` then copies it into
the log as `e.d`). -/
theorem wire_delay_recorded (c : WireCfg ℚ) (s s' : FState ℚ (WireSt ℚ)) (a : FAct ℚ) (o : FOut ℚ)
    (h : step (Wire.dev c) s a = .ok (s', o)) :
    (∀ x y, a = .resume x y → lostNow c x = false → s'.dev.curD = y) ∧
    ((∀ x y, a ≠ .resume x y) → s'.dev.curD = s.dev.curD) :=
  curD_step c s s' a o h

/-- **Taken as soon as possible**: in every reachable state, a packet handed to the server has been handed over at
`max(its arrival, the instant the server finished with its predecessor)` — and that is now, because the clock cannot
advance while a hand-over is pending (`Fifo.tick_ok_iff`). -/
theorem wire_taken_at (c : WireCfg ℚ) (t0 : ℚ) (as : List (FAct ℚ)) (s : FState ℚ (WireSt ℚ)) (ins outs : List Nat)
    (h : runActs (Wire.dev c) (start t0) as = .ok (s, ins, outs)) (p : Pkt ℚ) (hp : s.handed = some p) :
    s.now = max p.ctime s.dev.lastDone ∧ ∀ t s' o, step (Wire.dev c) s (.tick t) ≠ .ok (s', o) := by
  have hi := run_inv c t0 as (start t0) s ins outs (init_inv t0) h
  refine ⟨hi.core.taken p hp, ?_⟩
  intro t s' o hs
  have := (tick_ok_iff _ s t).mp ⟨s', o, hs⟩
  rw [this.2.2.1] at hp; cases hp

/-- **Delivery, local form**: when the server takes packet `p` (arrival stamp `a = p.ctime`) at `now` and it is not
lost, with drawn delay `y`: if `now < a + y` it sleeps until exactly `a + y`, otherwise it forwards `p` in this very
burst; so `p` leaves at `max(now, a + y)`. -/
theorem wire_delivery_step (c : WireCfg ℚ) (s s' : FState ℚ (WireSt ℚ)) (x y : ℚ) (o : FOut ℚ) (p : Pkt ℚ)
    (hp : s.handed = some p) (hl : lostNow c x = false) (h : step (Wire.dev c) s (.resume x y) = .ok (s', o)) :
    s'.now = s.now ∧
    (s.now < p.ctime + y → o = .nothing ∧ ∃ due, s'.tx = some (p, due, 0) ∧ due = p.ctime + y) ∧
    (¬ s.now < p.ctime + y → o = .depart p ∧ AtGet s') := by
  simp only [Fifo.step, hp, dev_onResume] at h
  rcases onResume_cases c s.dev s.now x y p with ⟨hl', _⟩ | ⟨_, hq, he⟩ | ⟨_, hq, he⟩
  · rw [hl] at hl'; cases hl'
  · rw [he] at h
    simp only [proceed, Except.ok.injEq, Prod.mk.injEq] at h
    obtain ⟨rfl, rfl⟩ := h
    refine ⟨rfl, fun _ => ⟨rfl, _, rfl, by ring⟩, fun hn => ?_⟩
    exact absurd (by linarith : s.now < p.ctime + y) hn
  · rw [he] at h
    simp only [proceed, Except.ok.injEq, Prod.mk.injEq] at h
    obtain ⟨rfl, rfl⟩ := h
    refine ⟨by rw [issueGet_now], fun hn => ?_, fun _ => ⟨rfl, issueGet_atGet _ rfl⟩⟩
    exact absurd (by linarith : s.now - p.ctime < y) hq

/-- **Never held longer, never released early**: a sleeping wire forwards its packet exactly at the due instant —
`fire` is accepted only then, and the clock cannot pass it. -/
theorem wire_leaves_exactly_when_due (c : WireCfg ℚ) (s : FState ℚ (WireSt ℚ)) (p : Pkt ℚ) (due : ℚ) (k : Nat)
    (htx : s.tx = some (p, due, k)) :
    (∀ s' o, step (Wire.dev c) s .fire = .ok (s', o) → s.now = due ∧ o = .depart p ∧ AtGet s') ∧
    (∀ t s' o, step (Wire.dev c) s (.tick t) = .ok (s', o) → t ≤ due) := by
  constructor
  · intro s' o h
    have ht := step_trans _ _ _ _ _ h
    cases ht with
    | fireEmit p' due' k' htx' hnow hn =>
      rw [htx] at htx'; cases htx'
      exact ⟨hnow, rfl, issueGet_atGet _ rfl⟩
    | fireLose p' due' k' htx' hnow hn => simp [Wire.dev, onFire] at hn
    | fireWait p' due' k' dt htx' hnow hn => simp [Wire.dev, onFire] at hn
  · intro t s' o h
    exact ((tick_ok_iff _ s t).mp ⟨s', o, h⟩).2.2.2.2 p due k htx

/-- **Delivery, over whole runs.**  After any admissible action sequence, every delivered packet `e` of the log
(arrival `e.a`, drawn delay `e.d`) left at `max(e.a + e.d, max(e.a, latest earlier delivery))`; with a non-negative
delay that is `max(e.a + e.d, latest earlier delivery)`.  Packets discarded in between do not enter: `prevDeliv`
skips them. -/
theorem wire_delivery (c : WireCfg ℚ) (t0 : ℚ) (as : List (FAct ℚ)) (s : FState ℚ (WireSt ℚ)) (ins outs : List Nat)
    (h : runActs (Wire.dev c) (start t0) as = .ok (s, ins, outs))
    (newer older : List (WireRec ℚ)) (e : WireRec ℚ) (hlog : s.dev.log = newer ++ e :: older) (hl : e.lost = false) :
    e.t = max (e.a + e.d) (max e.a (prevDeliv t0 older)) ∧
    (0 ≤ e.d → e.t = max (e.a + e.d) (prevDeliv t0 older)) := by
  have hi := run_inv c t0 as (start t0) s ins outs (init_inv t0) h
  have hch := hi.core.chain
  rw [hlog] at hch
  obtain ⟨last', hch'⟩ := chain_suffix t0 newer (e :: older) _ hch
  obtain ⟨_, hco, ht⟩ := hch'
  simp only [hl, Bool.false_eq_true, if_false] at ht
  have hso := log_sorted t0 s hi.core newer older e hlog
  have hm := chain_max t0 e.a older e.prev hco hso
  have h1 : e.t = max (e.a + e.d) (max e.a (prevDeliv t0 older)) := by rw [ht, hm]
  refine ⟨h1, fun hd => ?_⟩
  rw [h1, ← max_assoc, max_eq_left (by linarith : e.a ≤ e.a + e.d)]

/-- **Never before `a + d`.** -/
theorem wire_never_early (c : WireCfg ℚ) (t0 : ℚ) (as : List (FAct ℚ)) (s : FState ℚ (WireSt ℚ)) (ins outs : List Nat)
    (h : runActs (Wire.dev c) (start t0) as = .ok (s, ins, outs)) (e : WireRec ℚ) (he : e ∈ s.dev.log)
    (hl : e.lost = false) : e.a + e.d ≤ e.t := by
  have hi := run_inv c t0 as (start t0) s ins outs (init_inv t0) h
  have := chain_mem t0 _ _ hi.core.chain e he
  simp only [hl, Bool.false_eq_true, if_false] at this
  rw [this]; exact le_max_left _ _

/-- **Never reordered, nothing duplicated, nothing vanishes**: the accepted packets are, in order, exactly the
packets that left (forwarded or discarded) followed by the packets still inside. -/
theorem wire_order (c : WireCfg ℚ) (t0 : ℚ) (as : List (FAct ℚ)) (s : FState ℚ (WireSt ℚ)) (ins outs : List Nat)
    (h : runActs (Wire.dev c) (start t0) as = .ok (s, ins, outs)) : ins = outs ++ held s := by
  have := (run_conserves (Wire.dev c) (idPreserving c) as (start t0) s ins outs (init_shape _ _) h).1
  simpa [start, init_held] using this

/-- **Exactly once**: if the accepted packets are distinct, none leaves twice and none that left is still inside. -/
theorem wire_exactly_once (c : WireCfg ℚ) (t0 : ℚ) (as : List (FAct ℚ)) (s : FState ℚ (WireSt ℚ)) (ins outs : List Nat)
    (h : runActs (Wire.dev c) (start t0) as = .ok (s, ins, outs)) (hn : ins.Nodup) :
    outs.Nodup ∧ ∀ i ∈ outs, i ∉ held s := by
  rw [wire_order c t0 as s ins outs h] at hn
  have := List.nodup_append.mp hn
  exact ⟨this.1, fun i hi hh => this.2.2 i hi i hh rfl⟩

/-- **No loss rate, no loss**: with `loss_rate` `None` or 0 no step ever discards a packet, no record of the log is a
loss, every accepted packet has been forwarded or is still inside, and once the wire is quiescent (nothing handed
over, nothing sleeping) every accepted packet has been forwarded — exactly once by `wire_exactly_once`. -/
theorem wire_no_loss (c : WireCfg ℚ) (hc : NoLoss c) :
    (∀ s a s' o, step (Wire.dev c) s a = .ok (s', o) → ∀ q, o ≠ .lost q) ∧
    (∀ t0 as s ins outs, runActs (Wire.dev c) (start t0) as = .ok (s, ins, outs) →
      (∀ e ∈ s.dev.log, e.lost = false) ∧ ins = outs ++ held s ∧ (Quiescent s → ins = outs)) := by
  have h1 : ∀ s a s' o, step (Wire.dev c) s a = .ok (s', o) → ∀ q, o ≠ .lost q := by
    intro s a s' o h q hq
    subst hq
    have ht := step_trans _ _ _ _ _ h
    cases ht with
    | resumeLose x y p hp hn =>
      simp only [dev_onResume] at hn
      rcases onResume_cases c s.dev s.now x y p with ⟨hl, _⟩ | ⟨_, _, he⟩ | ⟨_, _, he⟩
      · rw [noLoss_lostNow c hc x] at hl; cases hl
      · rw [he] at hn; cases hn
      · rw [he] at hn; cases hn
    | fireLose p due k htx hnow hn => simp [Wire.dev, onFire] at hn
  refine ⟨h1, ?_⟩
  intro t0 as s ins outs h
  have hlog : ∀ e ∈ s.dev.log, e.lost = false := by
    refine run_induct (Wire.dev c) (fun s => ∀ e ∈ s.dev.log, e.lost = false) ?_ as (start t0) s ins outs ?_ h
    · intro s a s' o hP hs e he
      have hl := log_step c s s' a o hs
      unfold LogStep at hl
      cases o with
      | nothing => rw [hl] at he; exact hP e he
      | accepted => rw [hl] at he; exact hP e he
      | dropped => rw [hl] at he; exact hP e he
      | depart q =>
        obtain ⟨e', hl1, hl2, _⟩ := hl
        rw [hl1] at he
        rcases List.mem_cons.mp he with rfl | he
        · exact hl2
        · exact hP e he
      | lost q => exact absurd rfl (h1 s a s' _ hs q)
    · intro e he; simp [start, Fifo.init, st0] at he
  have hcons := run_conserves (Wire.dev c) (idPreserving c) as (start t0) s ins outs (init_shape _ _) h
  have hio : ins = outs ++ held s := by simpa [start, init_held] using hcons.1
  refine ⟨hlog, hio, fun hq => ?_⟩
  rw [hio, quiescent_held_empty s hcons.2 hq, List.append_nil]

/-- **Loss rule**: the packet the server takes is discarded iff a loss rate is configured (set, not zero) and the
draw is below it.  A discarded packet costs no time: in the same burst, at the same instant, the server is back at
`store.get()` (blocked, or already served with the next packet). It is recorded as lost (`log_records_outputs`) and,
having left once, never leaves again (`wire_exactly_once`). -/
theorem wire_loss_rule (c : WireCfg ℚ) (s s' : FState ℚ (WireSt ℚ)) (x y : ℚ) (o : FOut ℚ) (p : Pkt ℚ)
    (hp : s.handed = some p) (h : step (Wire.dev c) s (.resume x y) = .ok (s', o)) :
    ((∃ q, o = .lost q) ↔ ∃ r, c.lossRate = some r ∧ r ≠ 0 ∧ x < r) ∧
    ((∃ q, o = .lost q) → o = .lost p ∧ s'.now = s.now ∧ AtGet s') := by
  have hiff : lostNow c x = true ↔ ∃ r, c.lossRate = some r ∧ r ≠ 0 ∧ x < r := by
    rw [lostNow_iff]
    constructor
    · rintro ⟨r, h1, h2⟩
      exact ⟨r, ((lossOn_iff c r).mp h1).1, ((lossOn_iff c r).mp h1).2, h2⟩
    · rintro ⟨r, h1, h2, h3⟩
      exact ⟨r, (lossOn_iff c r).mpr ⟨h1, h2⟩, h3⟩
  simp only [Fifo.step, hp, dev_onResume] at h
  rcases onResume_cases c s.dev s.now x y p with ⟨hl, he⟩ | ⟨hl, hq, he⟩ | ⟨hl, hq, he⟩
  · rw [he] at h
    simp only [proceed, Except.ok.injEq, Prod.mk.injEq] at h
    obtain ⟨rfl, rfl⟩ := h
    refine ⟨⟨fun _ => hiff.mp hl, fun _ => ⟨p, rfl⟩⟩, fun _ => ⟨rfl, by rw [issueGet_now], issueGet_atGet _ rfl⟩⟩
  · rw [he] at h
    simp only [proceed, Except.ok.injEq, Prod.mk.injEq] at h
    obtain ⟨rfl, rfl⟩ := h
    refine ⟨⟨fun ⟨q, hq'⟩ => (by cases hq'), fun hr => ?_⟩, fun ⟨q, hq'⟩ => (by cases hq')⟩
    rw [hiff.mpr hr] at hl; cases hl
  · rw [he] at h
    simp only [proceed, Except.ok.injEq, Prod.mk.injEq] at h
    obtain ⟨rfl, rfl⟩ := h
    refine ⟨⟨fun ⟨q, hq'⟩ => (by cases hq'), fun hr => ?_⟩, fun ⟨q, hq'⟩ => (by cases hq')⟩
    rw [hiff.mpr hr] at hl; cases hl

/-- **A Cable is two independent wires**: an action of one wire is exactly that wire's own step and leaves the other
wire's state untouched; the clock advances for both. -/
theorem cable_independent (c : WireCfg ℚ) (s s' : Cable.St ℚ) (a : FAct ℚ) (o : FOut ℚ) :
    (Cable.step c s (.w1 a) = .ok (s', o) → s'.2 = s.2 ∧ step (Wire.dev c) s.1 a = .ok (s'.1, o)) ∧
    (Cable.step c s (.w2 a) = .ok (s', o) → s'.1 = s.1 ∧ step (Wire.dev c) s.2 a = .ok (s'.2, o)) :=
  ⟨Cable.step_w1 c s s' a o, Cable.step_w2 c s s' a o⟩

/-- **Each direction of a cable behaves as a stand-alone wire** fed with its own arrivals, its own draws and the
clock: whatever the other direction does, the state of wire 1 (wire 2) after a cable run is the state a single wire
reaches on the projected action sequence — to which all the `wire_…` theorems above apply. -/
theorem cable_projection (c : WireCfg ℚ) (as : List (CableAct ℚ)) (s s' : Cable.St ℚ) (h : Cable.run c s as = .ok s') :
    (∃ ins outs, runActs (Wire.dev c) s.1 (Cable.proj1 as) = .ok (s'.1, ins, outs)) ∧
    (∃ ins outs, runActs (Wire.dev c) s.2 (Cable.proj2 as) = .ok (s'.2, ins, outs)) := by
  induction as generalizing s with
  | nil =>
    simp only [Cable.run, Except.ok.injEq] at h
    subst h
    exact ⟨⟨[], [], rfl⟩, ⟨[], [], rfl⟩⟩
  | cons a as ih =>
    simp only [Cable.run] at h
    split at h
    · cases h
    · rename_i s1 o h1
      obtain ⟨⟨i1, o1, r1⟩, ⟨i2, o2, r2⟩⟩ := ih s1 h
      cases a with
      | w1 a =>
        obtain ⟨e2, e1⟩ := Cable.step_w1 c s s1 a o h1
        refine ⟨⟨entered a o ++ i1, left o ++ o1, ?_⟩, ⟨i2, o2, ?_⟩⟩
        · simp only [Cable.proj1, runActs, e1, r1]
        · simp only [Cable.proj2]; rw [← e2]; exact r2
      | w2 a =>
        obtain ⟨e1, e2⟩ := Cable.step_w2 c s s1 a o h1
        refine ⟨⟨i1, o1, ?_⟩, ⟨entered a o ++ i2, left o ++ o2, ?_⟩⟩
        · simp only [Cable.proj1]; rw [← e1]; exact r1
        · simp only [Cable.proj2, runActs, e2, r2]
      | tick t =>
        obtain ⟨⟨p1, e1⟩, ⟨p2, e2⟩⟩ := Cable.step_tick c s s1 t o h1
        refine ⟨⟨entered (.tick t) p1 ++ i1, left p1 ++ o1, ?_⟩, ⟨entered (.tick t) p2 ++ i2, left p2 ++ o2, ?_⟩⟩
        · simp only [Cable.proj1, runActs, e1, r1]
        · simp only [Cable.proj2, runActs, e2, r2]

/-! ### The source, re-translated on every run, *is* the model (bridge theorems)

`Generated/Wire.lean` is rewritten by `py2lean` from the current `onl/netdev/wire.py` before this file is compiled: `put`, and
one round of the server generator `run`, split at its `yield env.timeout(delay - queued_time)`.  `GenWire.wireObj` encodes a
model state as the Python object (`out` attached); `GenWire.WireAgrees` says what a burst of the model's server leaves:
asleep in the yield for the model's timeout / round complete with one more `out.put` / round complete without (discarded). -/

/-- **`Wire.put` as written in the source is the model's `admitPkt`**: one more packet counted, `packet.current_time =
self.env.now` (checked structurally by the translator, counted as `eff_stamp`), one `self.store.put(packet)`. -/
theorem wire_put_generated_eq_model (c : WireCfg ℚ) (d : WireSt ℚ) (puts outs stamps ra ya : Nat) (ydt now : ℚ) (w : Nat)
    (p : Pkt ℚ) :
    Gen.Wire.put (GenWire.wireObj c d puts outs stamps ra ya ydt) =
      GenWire.wireObj c (admitPkt d now w p).1 (puts + 1) outs (stamps + 1) ra ya ydt :=
  GenWire.wire_put_eq c d puts outs stamps ra ya ydt now w p

/-- **A round of `Wire.run` as written in the source is the model's `onResume` / `onFire`**: with loss draw `x` and delay
`y`, the translated code from the `get` on discards the packet iff `loss_rate` is truthy and `x < loss_rate`, else sleeps
`y - (now - current_time)` iff that is positive, else forwards at once — exactly as `Wire.onResume`; and after the sleep it
forwards — as `Wire.onFire`.  (A flipped comparison, `delay + queued_time`, a draw taken when `loss_rate` is unset make
this fail to compile.) -/
theorem wire_run_generated_eq_model (c : WireCfg ℚ) (d : WireSt ℚ) (puts outs stamps ya : Nat) (ydt now x y : ℚ) (k : Nat)
    (p : Pkt ℚ) :
    GenWire.WireAgrees c (Gen.Wire.run_resume (GenWire.wireObj c d puts outs stamps 0 ya ydt) now p.ctime x y)
      (onResume c d now x y p) puts outs stamps ∧
    GenWire.WireAgrees c (Gen.Wire.run_after_1 (GenWire.wireObj c d puts outs stamps 0 ya ydt) now p.ctime x y)
      (onFire d now k p) puts outs stamps :=
  ⟨GenWire.wire_resume_agrees c d puts outs stamps ya ydt now x y p,
   GenWire.wire_after_wait_agrees c d puts outs stamps ya ydt now x y k p⟩

/-- the translated round on a concrete wire: loss rate 1/2, draw 3/4 (kept), arrived at 1, now 2, delay 5 → sleeps 4 -/
example : (Gen.Wire.run_resume (GenWire.wireObj { lossRate := some (1 / 2) } (Wire.st0 0) 1 0 1 0 0 0) 2 1 (3 / 4) 5).yield_dt = 4 ∧
    (Gen.Wire.run_resume (GenWire.wireObj { lossRate := some (1 / 2) } (Wire.st0 0) 1 0 1 0 0 0) 2 1 (1 / 4) 5).yield_at = 0 := by
  decide +kernel

/-! ### non-vacuity -/

/-- what a run ended with: accepted ids and ids that left -/
def ids (r : Except String (FState ℚ (WireSt ℚ) × List Nat × List Nat)) : Option (List Nat × List Nat) :=
  match r with
  | .ok (_, ins, outs) => some (ins, outs)
  | .error _ => none

/-- the log a run ended with, oldest first, as (id, arrival, left at, lost) -/
def logOf (r : Except String (FState ℚ (WireSt ℚ) × List Nat × List Nat)) : Option (List (Nat × ℚ × ℚ × Bool)) :=
  match r with
  | .ok (s, _, _) => some (s.dev.log.reverse.map fun e => (e.id, e.a, e.t, e.lost))
  | .error _ => none

/-- a concrete admissible run (loss rate 1/2) -/
def demo : List (FAct ℚ) :=
  [.init, .put ⟨1, 0, 100, 0, 0, 0⟩, .handoff, .resume (3/4) 5, .tick 1, .put ⟨2, 0, 100, 0, 0, 0⟩,
   .put ⟨3, 0, 100, 0, 0, 0⟩, .tick 5, .fire, .resume (1/4) 0, .resume (3/4) 2]

/-- packet 1 enters at 0 with delay 5; packets 2 and 3 enter at 1 while 1 propagates; 1 leaves at 5; 2 (draw 1/4 < 1/2)
is discarded at 5 and costs no time; 3 (draw 3/4, delay 2) has been queued 4 ≥ 2 and leaves at 5 as well:
`max(1 + 2, 5) = 5`. -/
example : logOf (runActs (Wire.dev { lossRate := some (1/2) }) (start 0) demo) =
    some [(1, 0, 5, false), (2, 1, 5, true), (3, 1, 5, false)] := by
  decide +kernel

example : ids (runActs (Wire.dev { lossRate := some (1/2) }) (start 0) demo) = some ([1, 2, 3], [1, 2, 3]) := by
  decide +kernel

/-- the hypotheses of `wire_loss_rule` / `wire_delivery_step` are met in that run: after `.tick 5, .fire` packet 2 is
handed over -/
example : (match runActs (Wire.dev { lossRate := some (1/2) }) (start 0)
    [.init, .put ⟨1, 0, 100, 0, 0, 0⟩, .handoff, .resume (3/4) 5, .tick 1, .put ⟨2, 0, 100, 0, 0, 0⟩,
     .put ⟨3, 0, 100, 0, 0, 0⟩, .tick 5, .fire] with
    | .ok (s, _, _) => s.handed.map (·.id)
    | .error _ => none) = some 2 := by
  decide +kernel

/-- a cable run: both directions carry a packet, independently -/
example : (match Cable.run { lossRate := none } (start 0, start 0)
    [.w1 .init, .w2 .init, .w1 (.put ⟨1, 0, 100, 0, 0, 0⟩), .w2 (.put ⟨2, 0, 64, 0, 0, 0⟩), .w1 .handoff, .w2 .handoff,
     .w1 (.resume 0 3), .w2 (.resume 0 1), .tick 1, .w2 .fire, .tick 3, .w1 .fire] with
    | .ok s => some (s.1.dev.log.map (fun e => (e.id, e.t)), s.2.dev.log.map (fun e => (e.id, e.t)))
    | .error _ => none) = some ([(1, 3)], [(2, 1)]) := by
  decide +kernel

/-! ### the link to the kernel model (`OnlVerif/Props/C10K.lean`)

The admissibility rules of the FifoServer LTS were so far *assumed* of the kernel for the wire.  `OnlVerif/Net/WireOnK.lean`
writes `Wire.put`/`Wire.run` and a packet source as a program of the kernel model `K`, with the loss and delay draws as
part of the workload; `Props/C10K.lean` proves the delivery formula of this property for its runs with no admissibility
assumption.  The headline theorems are restated here so that the axiom audit covers them. -/

/-- **The delivery recurrence holds for the Wire as a kernel process** (every `loss_rate`, every finite workload with
non-negative gaps — bursts and arrivals at delivery instants included —, non-negative delay draws, any loss draws):
`run()` of the kernel model returns with an empty agenda within `4·n + 4` steps and the `out.put` observations are exactly
the packets whose loss draw is not `< loss_rate`, in arrival order, each at `max(a_k + d, previous delivery)`
(`WireOnK.deliveries`, unfolded by `wire_on_kernel_delivery_recurrence`); lost packets delay nobody. -/
theorem wire_on_kernel_deliveries (cfg : WireCfg ℚ) (losses delays arrivals : List ℚ)
    (hg : ∀ x ∈ arrivals, 0 ≤ x) (hd : ∀ d ∈ delays, 0 ≤ d) (fuel n : Nat) (hn : 4 * arrivals.length + 4 ≤ n) :
    ∃ sF, runAll (WireOnK.body cfg losses delays) (fuel + 1) n (WireOnK.initState arrivals) = .returned .none sF ∧
      sF.agenda = [] ∧ WireOnK.outsOf sF.trace = WireOnK.deliveries cfg losses delays none 0 0 0 0 arrivals :=
  C10K.wire_on_kernel_deliveries cfg losses delays arrivals hg hd fuel n hn

/-- **What `WireOnK.deliveries` is**: a packet whose loss draw says "lost" is skipped and changes nothing for the others;
any other packet is delivered at `max(arrival + d, previous delivery)` (`arrival + d` for the first). -/
theorem wire_on_kernel_delivery_recurrence (cfg : WireCfg ℚ) (losses delays : List ℚ) (prev : Option ℚ) (t : ℚ)
    (k nl nd : Nat) (gap : ℚ) (rest : List ℚ) :
    (WireOnK.isLost cfg (WireOnK.draw losses nl) = true →
      WireOnK.deliveries cfg losses delays prev t k nl nd (gap :: rest) =
        WireOnK.deliveries cfg losses delays prev (t + gap) (k + 1) (WireOnK.nlNext cfg nl) nd rest) ∧
    (WireOnK.isLost cfg (WireOnK.draw losses nl) = false →
      WireOnK.deliveries cfg losses delays prev t k nl nd (gap :: rest) =
        ((k : Int), (match prev with
          | none => t + gap + WireOnK.draw delays nd
          | some p => max (t + gap + WireOnK.draw delays nd) p)) ::
          WireOnK.deliveries cfg losses delays
            (some (match prev with
              | none => t + gap + WireOnK.draw delays nd
              | some p => max (t + gap + WireOnK.draw delays nd) p))
            (t + gap) (k + 1) (WireOnK.nlNext cfg nl) (nd + 1) rest) :=
  C10K.delivery_recurrence cfg losses delays prev t k nl nd gap rest

/-- **`wire_no_loss` on the kernel**: with `loss_rate` `None` or `0` every packet handed to `put` is delivered, once, in
arrival order, by the kernel run. -/
theorem wire_on_kernel_no_loss (cfg : WireCfg ℚ) (hcfg : cfg.lossRate = none ∨ cfg.lossRate = some 0)
    (losses delays arrivals : List ℚ) (hg : ∀ x ∈ arrivals, 0 ≤ x) (hd : ∀ d ∈ delays, 0 ≤ d) (fuel n : Nat)
    (hn : 4 * arrivals.length + 4 ≤ n) :
    ∃ sF, runAll (WireOnK.body cfg losses delays) (fuel + 1) n (WireOnK.initState arrivals) = .returned .none sF ∧
      (WireOnK.outsOf sF.trace).map (·.1) = (List.range arrivals.length).map (fun (k : Nat) => (k : Int)) :=
  C10K.wire_on_kernel_no_loss cfg hcfg losses delays arrivals hg hd fuel n hn

/-- **The Wire process on the kernel model refines this LTS**: every kernel state reachable from the initial state is the
image (under the abstraction function `WireOnK.absWire`, with some values `gh` in the ghost fields of the device state) of
an action sequence this LTS accepts from `start 0`; the packets that entered are `0, …, packets_rec - 1`, the packets that
left (forwarded or dropped) are those the kernel trace reports, in order. -/
theorem wire_on_kernel_refines_lts (cfg : WireCfg ℚ) (losses delays arrivals : List ℚ) (hg : ∀ x ∈ arrivals, 0 ≤ x)
    (fuel : Nat) (s : KState ℚ (WSt ℚ))
    (hreach : KReach (WireOnK.body cfg losses delays) (fuel + 1) (WireOnK.initState arrivals) s) :
    ∃ acts gh, runActs (Wire.dev cfg) (start 0) acts =
      .ok (WireOnK.setGhost (WireOnK.absWire s) gh, List.range (WireOnK.recCell s),
        (WireOnK.leftsOf s.trace).map Int.toNat) :=
  C10K.wire_on_kernel_refines_lts cfg losses delays arrivals hg fuel s hreach

/-- **`wire_order` transferred to kernel runs**: at every reachable kernel state the packets handed to `put` so far are,
in order, exactly the packets that left (the `out` and `lost` observations of the trace) followed by the packets the wire
still holds (handed over / propagating / waiting in the store): never reordered, nothing duplicated, nothing vanishes. -/
theorem kernel_run_wire_order (cfg : WireCfg ℚ) (losses delays arrivals : List ℚ) (hg : ∀ x ∈ arrivals, 0 ≤ x)
    (fuel : Nat) (s : KState ℚ (WSt ℚ))
    (hreach : KReach (WireOnK.body cfg losses delays) (fuel + 1) (WireOnK.initState arrivals) s) :
    List.range (WireOnK.recCell s) = (WireOnK.leftsOf s.trace).map Int.toNat ++ held (WireOnK.absWire s) := by
  obtain ⟨acts, gh, h⟩ := wire_on_kernel_refines_lts cfg losses delays arrivals hg fuel s hreach
  have := wire_order cfg 0 acts _ _ _ h
  exact this

/-- **`wire_delivery` / `wire_never_early` transferred to kernel runs**: the ghost log of the LTS run a reachable kernel state
is the image of records, for every forwarded packet, `t = max(a + d, max(a, latest earlier delivery))`, never before `a + d`. -/
theorem kernel_run_wire_delivery (cfg : WireCfg ℚ) (losses delays arrivals : List ℚ) (hg : ∀ x ∈ arrivals, 0 ≤ x)
    (fuel : Nat) (s : KState ℚ (WSt ℚ))
    (hreach : KReach (WireOnK.body cfg losses delays) (fuel + 1) (WireOnK.initState arrivals) s) :
    ∃ gh : WireSt ℚ, ∀ (newer older : List (WireRec ℚ)) (e : WireRec ℚ), gh.log = newer ++ e :: older → e.lost = false →
      e.t = max (e.a + e.d) (max e.a (prevDeliv 0 older)) ∧ e.a + e.d ≤ e.t := by
  obtain ⟨acts, gh, h⟩ := wire_on_kernel_refines_lts cfg losses delays arrivals hg fuel s hreach
  refine ⟨gh, ?_⟩
  intro newer older e hlog hl
  have h1 := (wire_delivery cfg 0 acts _ _ _ h newer older e hlog hl).1
  have h2 := wire_never_early cfg 0 acts _ _ _ h e (by show e ∈ gh.log; rw [hlog]; simp) hl
  exact ⟨h1, h2⟩

end C10
