import OnlVerif.Lemmas.ResStep
import OnlVerif.Lemmas.StrandStep
import OnlVerif.Lemmas.StrandDemo
/-!
# C07 — containers and stores are bounded, conservative, ordered, never strand a request

Model: the resource part of the kernel model `K` (`Container/Store/PriorityStore/FilterStore._do_put/_do_get`,
the queue scans, `cancel` with its rescan).  The global theorems hold for every program and every reachable state.
-/

namespace C07
variable {σ : Type}

/-- **A Container's level always stays within `[0, capacity]`**, in every state any program can reach. -/
theorem level_bounds (body : σ → Resume → Burst ℚ σ) (fuel : Nat) (s0 s : KState ℚ σ)
    (h0 : ResInv s0) (hr : KReach body fuel s0 s) (r : ResId) (hk : (s.res r).kind = .container) :
    0 ≤ (s.res r).level ∧ ∀ c, (s.res r).capacity = some c → (s.res r).level ≤ (c : Int) :=
  (reach_resInv body fuel s0 s h0 hr).level r hk

/-- **A Store never holds more than `capacity` items**, in every state any program can reach. -/
theorem store_bounded (body : σ → Resume → Burst ℚ σ) (fuel : Nat) (s0 s : KState ℚ σ)
    (h0 : ResInv s0) (hr : KReach body fuel s0 s) (r : ResId) (c : Nat)
    (hk : isStoreKind (s.res r).kind = true) (hc : (s.res r).capacity = some c) :
    (s.res r).items.length ≤ c :=
  (reach_resInv body fuel s0 s h0 hr).items r c hk hc

/-- **A granted container put adds exactly its amount, a refused one changes nothing** (level = level + amount
iff `capacity - level >= amount`). -/
theorem container_put (s : KState ℚ σ) (r : ResId) (e : EvId) (hk : (s.res r).kind = .container)
    (hin : r < s.resources.size) :
    (canPut s r e = true → ((applyPut s r e).res r).level = (s.res r).level + (reqOf s e).amount) ∧
    (canPut s r e = false → doPut s r e = (s, false)) := by
  have hp : prePut s r e = s := by
    unfold prePut; rw [hk]; rfl
  constructor
  · intro _
    unfold applyPut
    simp only [hk, KState.trigger, KState.setOut, KState.setLevel]
    show ((s.setRes r _).res r).level = _
    rw [KState.res_setRes, if_pos ⟨rfl, hin⟩]
  · intro hc
    unfold doPut
    rw [hp, hc]; rfl

/-- **A granted container get removes exactly its amount; it is granted iff `level >= amount`.** -/
theorem container_get (s : KState ℚ σ) (r : ResId) (e : EvId) (hk : (s.res r).kind = .container)
    (hin : r < s.resources.size) :
    ((reqOf s e).amount ≤ (s.res r).level →
      (doGet s r e).2 = true ∧ ((doGet s r e).1.res r).level = (s.res r).level - (reqOf s e).amount) ∧
    (¬ (reqOf s e).amount ≤ (s.res r).level → doGet s r e = (s, false)) := by
  constructor
  · intro h
    have hg : getItem s r e = some .none := by unfold getItem; simp only [hk, h, if_true]
    unfold doGet
    rw [hg]
    refine ⟨rfl, ?_⟩
    unfold takeOut
    simp only [hk, KState.trigger, KState.setOut, KState.setLevel]
    show ((s.setRes r _).res r).level = _
    rw [KState.res_setRes, if_pos ⟨rfl, hin⟩]
  · intro h
    have hg : getItem s r e = none := by unfold getItem; simp only [hk, h, if_false]
    unfold doGet
    rw [hg, hk]; rfl

/-- **Store hands out in insertion order**: a get on a non-empty Store receives the oldest item, which leaves the store. -/
theorem store_fifo (s : KState ℚ σ) (r : ResId) (e : EvId) (x : Int) (rest : List Int)
    (hk : (s.res r).kind = .store) (hi : (s.res r).items = x :: rest) (hin : r < s.resources.size) :
    getItem s r e = some (.int x) ∧ ((doGet s r e).1.res r).items = rest := by
  have hg : getItem s r e = some (.int x) := by unfold getItem; simp only [hk, hi, List.head?_cons, Option.map_some]
  refine ⟨hg, ?_⟩
  unfold doGet
  rw [hg]
  unfold takeOut
  simp only [hk, KState.trigger, KState.setOut, KState.setItems]
  show ((s.setRes r _).res r).items = _
  rw [KState.res_setRes, if_pos ⟨rfl, hin⟩, hi]; rfl

/-- `listMin` returns a least element of the list -/
theorem listMin_le : ∀ (l : List Int) (m : Int), listMin l = some m → m ∈ l ∧ ∀ y ∈ l, m ≤ y
  | [], m, h => by simp [listMin] at h
  | x :: xs, m, h => by
    unfold listMin at h
    cases hx : listMin xs with
    | none =>
      rw [hx] at h; simp only [Option.some.injEq] at h; subst h
      have : xs = [] := by
        cases xs with
        | nil => rfl
        | cons y ys =>
          unfold listMin at hx
          cases h2 : listMin ys <;> rw [h2] at hx <;> simp at hx
          split at hx <;> simp at hx
      subst this; simp
    | some m' =>
      rw [hx] at h
      have ih := listMin_le xs m' hx
      simp only at h
      split at h
      · rename_i hlt
        simp only [Option.some.injEq] at h; subst h
        refine ⟨List.mem_cons_of_mem _ ih.1, ?_⟩
        intro y hy
        rcases List.mem_cons.mp hy with rfl | hy
        · exact Int.le_of_lt hlt
        · exact ih.2 y hy
      · rename_i hnlt
        simp only [Option.some.injEq] at h; subst h
        refine ⟨List.mem_cons_self, ?_⟩
        intro y hy
        rcases List.mem_cons.mp hy with rfl | hy
        · exact Int.le_refl _
        · exact Int.le_trans (Int.not_lt.mp hnlt) (ih.2 y hy)

/-- **PriorityStore hands out the smallest item first.** -/
theorem pstore_smallest_first (s : KState ℚ σ) (r : ResId) (e : EvId) (v : Val)
    (hk : (s.res r).kind = .pstore) (hg : getItem s r e = some v) :
    ∃ m, v = .int m ∧ m ∈ (s.res r).items ∧ ∀ y ∈ (s.res r).items, m ≤ y := by
  unfold getItem at hg
  simp only [hk] at hg
  cases hm : listMin (s.res r).items with
  | none => rw [hm] at hg; simp at hg
  | some m =>
    rw [hm] at hg
    simp only [Option.map_some, Option.some.injEq] at hg
    exact ⟨m, hg.symm, listMin_le _ _ hm⟩

/-- **FilterStore hands out the first match in insertion order, and never blocks the getters behind one whose
filter matches nothing.** -/
theorem fstore_first_match (s : KState ℚ σ) (r : ResId) (e : EvId) (hk : (s.res r).kind = .fstore) :
    getItem s r e = ((s.res r).items.find? (filterOk (reqOf s e).filter)).map Val.int ∧ (doGet s r e).2 = true := by
  refine ⟨by unfold getItem; simp only [hk], ?_⟩
  unfold doGet
  split
  · rfl
  · simp only [hk]; rfl

/-- **First come first served**: the scan of the put queue stops at the first put that cannot be granted
(so does the scan of the get queue, except for a FilterStore). -/
theorem fcfs_put (r : ResId) (e : EvId) (rest : List EvId) (s : KState ℚ σ)
    (hb : canPut (prePut s r e) r e = false) (hu : (prePut s r e).triggered e = false) :
    scanPut r (e :: rest) s = prePut s r e := by
  unfold scanPut doPut
  simp only [hb, Bool.false_eq_true, if_false, hu]

theorem fcfs_get (r : ResId) (e : EvId) (rest : List EvId) (s : KState ℚ σ)
    (hb : getItem s r e = none) (hf : (s.res r).kind ≠ .fstore) (hu : s.triggered e = false) :
    scanGet r (e :: rest) s = s := by
  unfold scanGet doGet
  have : ((s.res r).kind == ResKind.fstore) = false := by
    cases hk : (s.res r).kind <;> first | rfl | exact absurd hk hf
  simp only [hb, this, Bool.false_eq_true, if_false, hu]

/-- **Cancelling rescans**: cancelling a pending put removes it from the queue and immediately re-evaluates the
requests behind it, so they are not stranded. -/
theorem cancel_rescans (s : KState ℚ σ) (e : EvId) (r : ResId) (hk : (s.ev e).kind = .put r)
    (hu : s.triggered e = false) (hq : (s.res r).putQ.contains e = true) :
    cancelReq s e = (triggerPut (dropPutQ s r e) r, none) := by
  unfold cancelReq
  simp only [hu, Bool.false_eq_true, if_false, hk, hq, if_true]

/-! ## ---- begin: "never strand a request" (global theorems, builder b-strand) ----

Vocabulary (`Lemmas/StrandDefs.lean`): `AboutToAdvance s` — the agenda is empty or its next entry is due strictly
later than `s.now`; `SInv s` — the invariant (for every resource: the oldest pending put/get is unsatisfiable or a
rescan of that queue is pending at the current instant, plus the structural facts that make this inductive);
`DReach body fuel s0 s` — reachable by kernel steps of program `body`, each step inside the domain `stepDom` (no
`succeed()/fail()` on a non-existent event or on a request still waiting in a queue); `NoTrigCalls` — the static
sufficient condition "the program never calls `succeed()/fail()`". -/

/-- **After a complete `_trigger_put` scan the oldest pending put cannot be satisfied** (Container: more than the free
room; Store: the store is full). -/
theorem put_scan_leaves_head_unsatisfiable (s : KState ℚ σ) (r : ResId) (h : Pkg s none) (e : EvId)
    (he : ((triggerPut s r).res r).putQ.head? = some e) :
    canPut (prePut (triggerPut s r) r e) r e = false :=
  (triggerPut_post h r).2.2.2.1 e he

/-- **After a complete `_trigger_get` scan the oldest pending get cannot be satisfied; for a `FilterStore` no pending
get at all has a matching item.** -/
theorem get_scan_leaves_head_unsatisfiable (s : KState ℚ σ) (r : ResId) (h : Pkg s none) :
    (∀ e, ((triggerGet s r).res r).getQ.head? = some e → getItem (triggerGet s r) r e = none) ∧
    (((triggerGet s r).res r).kind = .fstore → ∀ e ∈ ((triggerGet s r).res r).getQ, getItem (triggerGet s r) r e = none) :=
  (triggerGet_post h r).2.2.2.1

/-- **Cancelling keeps the invariant**: `cancel()` removes the request and rescans the queue in the same burst, so the
requests behind a cancelled one are re-evaluated at once (`rem` = callbacks of the current event still to run). -/
theorem cancel_keeps_invariant (s : KState ℚ σ) (rem : List Cb) (h : J s rem) (e : EvId) : J (cancelReq s e).1 rem :=
  (h.cancel e).1

/-- **The invariant, in every reachable state**: if the oldest pending put could be satisfied, a rescan of the put
queue is pending at the current instant; if the oldest pending get (for a `FilterStore`: any pending get) could be
satisfied, a rescan of the get queue is pending at the current instant. -/
theorem satisfiable_head_implies_rescan_pending (body : σ → Resume → Burst ℚ σ) (fuel : Nat) (s0 s : KState ℚ σ)
    (h0 : SInv s0) (hr : DReach body fuel s0 s) (r : ResId) :
    (∀ e, (s.res r).putQ.head? = some e → canPut (prePut s r e) r e = true →
      ∃ q ∈ s.agenda, q.time = s.now ∧ ∃ l, (s.ev q.ev).cbs = some l ∧ Cb.trigPut r ∈ l) ∧
    (∀ e, (s.res r).getQ.head? = some e ∨ ((s.res r).kind = .fstore ∧ e ∈ (s.res r).getQ) → getItem s r e ≠ none →
      ∃ q ∈ s.agenda, q.time = s.now ∧ ∃ l, (s.ev q.ev).cbs = some l ∧ Cb.trigGet r ∈ l) := by
  have h := reach_sinv body fuel s0 s h0 hr
  constructor
  · intro e he hfree
    rcases (h.j.main r).1 with hb | hp
    · have := hb e he
      unfold putOk at this
      rw [this] at hfree; cases hfree
    · rcases hp with hp | hp
      · cases hp
      · exact hp
  · intro e he hsat
    rcases (h.j.main r).2 with hb | hp
    · exfalso
      rcases he with he | ⟨hk, hm⟩
      · exact hsat (hb.1 e he)
      · exact hsat (hb.2 hk e hm)
    · rcases hp with hp | hp
      · cases hp
      · exact hp

/-- **Whenever the clock is about to advance, the oldest pending put and the oldest pending get genuinely cannot be
satisfied in the current state** (for a `FilterStore`: no pending get has a matching item) — for every program, every
reachable state, all of Container / Store / PriorityStore / FilterStore (and the Resource classes), also after other
requests have been cancelled. -/
theorem heads_unsatisfiable_at_advance (body : σ → Resume → Burst ℚ σ) (fuel : Nat) (s0 s : KState ℚ σ)
    (h0 : SInv s0) (hr : DReach body fuel s0 s) (ha : AboutToAdvance s) (r : ResId) :
    (∀ e, (s.res r).putQ.head? = some e → canPut (prePut s r e) r e = false) ∧
    (∀ e, (s.res r).getQ.head? = some e → getItem s r e = none) ∧
    ((s.res r).kind = .fstore → ∀ e ∈ (s.res r).getQ, getItem s r e = none) :=
  have h := sinv_advance (reach_sinv body fuel s0 s h0 hr) ha r
  ⟨h.1, h.2.1, h.2.2⟩

/-- **… in plain words for a Container**: the oldest pending put asks for more than the free room, the oldest pending
get for more than the level. -/
theorem container_heads_at_advance (body : σ → Resume → Burst ℚ σ) (fuel : Nat) (s0 s : KState ℚ σ)
    (h0 : SInv s0) (hr : DReach body fuel s0 s) (ha : AboutToAdvance s) (r : ResId) (hk : (s.res r).kind = .container) :
    (∀ e, (s.res r).putQ.head? = some e →
      ∃ c, (s.res r).capacity = some c ∧ (c : Int) - (s.res r).level < (reqOf s e).amount) ∧
    (∀ e, (s.res r).getQ.head? = some e → (s.res r).level < (reqOf s e).amount) := by
  obtain ⟨hp, hg, _⟩ := heads_unsatisfiable_at_advance body fuel s0 s h0 hr ha r
  constructor
  · intro e he
    have := hp e he
    rw [prePut_of_ne s r e (beq_preemptive_of_container hk)] at this
    unfold canPut at this
    simp only [hk] at this
    cases hc : (s.res r).capacity with
    | none => rw [hc] at this; cases this
    | some c =>
      rw [hc] at this
      simp only [decide_eq_false_iff_not, not_le] at this
      exact ⟨c, rfl, this⟩
  · intro e he
    have := hg e he
    unfold getItem at this
    simp only [hk] at this
    split at this
    · cases this
    · rename_i hlt; exact not_le.mp hlt

/-- **… in plain words for the stores**: a pending put at a clock advance means the store is full; a pending get on a
`Store`/`PriorityStore` means the store is empty; on a `FilterStore` no stored item passes the filter of any pending
get. -/
theorem store_heads_at_advance (body : σ → Resume → Burst ℚ σ) (fuel : Nat) (s0 s : KState ℚ σ)
    (h0 : SInv s0) (hr : DReach body fuel s0 s) (ha : AboutToAdvance s) (r : ResId)
    (hk : isStoreKind (s.res r).kind = true) :
    ((s.res r).putQ ≠ [] → ∃ c, (s.res r).capacity = some c ∧ c ≤ (s.res r).items.length) ∧
    ((s.res r).kind ≠ .fstore → (s.res r).getQ ≠ [] → (s.res r).items = []) ∧
    ((s.res r).kind = .fstore → ∀ e ∈ (s.res r).getQ, ∀ x ∈ (s.res r).items, filterOk (reqOf s e).filter x = false) := by
  obtain ⟨hp, hg, hf⟩ := heads_unsatisfiable_at_advance body fuel s0 s h0 hr ha r
  refine ⟨?_, ?_, ?_⟩
  · intro hq
    obtain ⟨e, rest, hqe⟩ := List.exists_cons_of_ne_nil hq
    have := hp e (by rw [hqe]; rfl)
    rw [prePut_of_ne s r e (not_preemptive_of_store hk)] at this
    have hroom : hasRoom (s.res r).capacity (s.res r).items.length = false := by
      unfold canPut at this
      unfold isStoreKind at hk
      cases hkk : (s.res r).kind <;> simp only [hkk] at this hk <;> first | exact this | exact absurd hk (by decide)
    cases hc : (s.res r).capacity with
    | none => rw [hc] at hroom; cases hroom
    | some c =>
      rw [hc, hasRoom_some] at hroom
      simp only [decide_eq_false_iff_not, not_lt] at hroom
      exact ⟨c, rfl, hroom⟩
  · intro hnf hq
    obtain ⟨e, rest, hqe⟩ := List.exists_cons_of_ne_nil hq
    have := hg e (by rw [hqe]; rfl)
    unfold getItem at this
    unfold isStoreKind at hk
    cases hkk : (s.res r).kind <;> simp only [hkk] at this hk hnf <;> first
      | exact absurd hk (by decide)
      | exact absurd rfl hnf
      | (simp only [Option.map_eq_none_iff] at this
         first
           | exact List.head?_eq_none_iff.mp this
           | exact listMin_eq_none _ this)
  · intro hkf e hm x hx
    have := hf hkf e hm
    rw [getItem_fstore s r e hkf] at this
    simp only [Option.map_eq_none_iff, List.find?_eq_none] at this
    simpa using this x hx

/-- **For programs that never call `succeed()/fail()` the domain hypothesis is automatic** (plain reachability `KReach`). -/
theorem heads_unsatisfiable_at_advance_static (body : σ → Resume → Burst ℚ σ) (hb : ∀ st rs, NoTrigCalls (body st rs))
    (fuel : Nat) (s0 s : KState ℚ σ) (h0 : SInv s0) (hr : KReach body fuel s0 s) (ha : AboutToAdvance s) (r : ResId) :
    (∀ e, (s.res r).putQ.head? = some e → canPut (prePut s r e) r e = false) ∧
    (∀ e, (s.res r).getQ.head? = some e → getItem s r e = none) ∧
    ((s.res r).kind = .fstore → ∀ e ∈ (s.res r).getQ, getItem s r e = none) :=
  heads_unsatisfiable_at_advance body fuel s0 s h0 (dreach_of_noTrig body hb fuel s0 s hr) ha r

/-! non-vacuity of the block above: `Container(capacity=10, init=7)` with a pending `put(5)` (event 0) at a moment
when nothing is scheduled: the invariant holds, the clock is about to advance, the head put is genuinely blocked. -/
example :
    let s : KState ℚ Unit :=
      { now := 0,
        events := #[{ kind := .put 0, cbs := some [.trigGet 0], out := none,
                      req := some { res := 0, amount := 5, time := 0 } }],
        resources := #[{ kind := .container, capacity := some 10, level := 7, putQ := [0] }] }
    SInv s ∧ AboutToAdvance s ∧ (s.res 0).putQ = [0] ∧ canPut (prePut s 0 0) 0 0 = false := by
  intro s
  have hev : ∀ x, s.ev x = if x = 0 then
        { kind := .put 0, cbs := some [.trigGet 0], out := none, req := some { res := 0, amount := 5, time := 0 } }
      else default := by
    intro x
    match x with
    | 0 => rfl
    | n + 1 => simp [s, KState.ev]
  have hres : ∀ r, s.res r = if r = 0 then { kind := .container, capacity := some 10, level := 7, putQ := [0] }
      else default := by
    intro r
    match r with
    | 0 => rfl
    | n + 1 => simp [s, KState.res]
  have hblocked : canPut (prePut s 0 0) 0 0 = false := by
    rw [prePut_of_ne s 0 0 (by rw [hres]; simp)]
    unfold canPut reqOf; rw [hres, hev]; decide
  refine ⟨⟨⟨(by intro q hq; cases hq), (by intro q hq; cases hq), List.Pairwise.nil⟩,
    ⟨⟨?_, ?_, ?_, ?_, ?_, ?_, ?_, ?_, ?_⟩, ?_, ?_⟩⟩, (by intro q rest hq; cases hq), (by rw [hres]; rfl), hblocked⟩
  · intro q hq; cases hq
  · intro p hp; exact absurd rfl hp
  · intro x l c hl hm
    rw [hev] at hl
    split at hl
    · simp only [Option.some.injEq] at hl; subst hl; simp at hm
    · cases hl
  · intro r e hm
    rw [hres] at hm
    split at hm
    · rename_i hr; subst hr
      simp only [List.mem_singleton] at hm; subst hm
      rw [hev]; exact ⟨rfl, Or.inl rfl, [.trigGet 0], rfl, List.mem_singleton.mpr rfl⟩
    · cases hm
  · intro r e hm
    rw [hres] at hm
    split at hm <;> cases hm
  · intro r; rw [hres]; split
    · simp
    · exact List.nodup_nil
  · intro r; rw [hres]; split <;> exact List.nodup_nil
  · intro r w hm
    rw [hres] at hm
    split at hm <;> cases hm
  · intro r c hk hc
    by_cases hr : r = 0
    · subst hr
      rw [hres]; exact Nat.zero_le _
    · rw [hres, if_neg hr]; exact Nat.zero_le _
  · intro c hc; cases hc
  · intro r
    refine ⟨Or.inl ?_, Or.inl ⟨?_, ?_⟩⟩
    · intro e he
      rw [hres] at he
      split at he
      · rename_i hr; subst hr
        simp only [List.head?_cons, Option.some.injEq] at he; subst he
        exact hblocked
      · cases he
    · intro e he
      rw [hres] at he
      split at he <;> cases he
    · intro _ e he
      rw [hres] at he
      split at he <;> cases he

/-! non-vacuity by a run (`Lemmas/StrandDemo.lean`): `Container(capacity=10, init=7)`; one process issues `put(5)`
(blocked) and will cancel it at time 1, a second one issues `put(1)` (queued behind).  After two kernel steps both are
queued and only the timeout at 1 is scheduled: all hypotheses hold and the head `put(5)` is indeed blocked.  Four steps
later (the cancel and what it triggered) the queue is empty and the level is 8: the `put(1)` was not stranded. -/
example : SInv Demo.conS0 ∧ DReach Demo.conBody 3 Demo.conS0 Demo.conS2 ∧ AboutToAdvance Demo.conS2 ∧
    (Demo.conS2.res 0).putQ.length = 2 ∧
    (∀ e, (Demo.conS2.res 0).putQ.head? = some e → canPut (prePut Demo.conS2 0 e) 0 e = false) ∧
    DReach Demo.conBody 3 Demo.conS0 Demo.conS6 ∧ AboutToAdvance Demo.conS6 ∧
    (Demo.conS6.res 0).putQ.length = 0 ∧ (Demo.conS6.res 0).level = 8 :=
  ⟨Demo.conS0_sinv, Demo.conS2_reach, Demo.conS2_advance, Demo.conS_facts.1,
    (heads_unsatisfiable_at_advance _ 3 _ _ Demo.conS0_sinv Demo.conS2_reach Demo.conS2_advance 0).1,
    Demo.conS6_reach, Demo.conS6_advance, Demo.conS_facts.2.2.1, Demo.conS_facts.2.2.2⟩

/-! ## ---- end: "never strand a request" ---- -/

/-! non-vacuity -/
example : listMin [5, 2, 9, 2] = some 2 := by decide

end C07
