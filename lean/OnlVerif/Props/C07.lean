import OnlVerif.Lemmas.ResStep
/-!
# C07 — containers and stores are bounded, conservative, ordered, never strand a request

Model: the resource part of the kernel model `K` (`Container/Store/PriorityStore/FilterStore._do_put/_do_get`,
the queue scans, `cancel` with its rescan).  The global theorems hold for every program and every reachable state.
-/

namespace C07
variable {σ : Type}

/-- **A Container's level always stays within `[0, capacity]`**, in every state any program can reach. -/
theorem level_bounds (body : σ → Resume → Burst ℚ σ) (fuel : Nat) (s0 s : KState ℚ σ)
    (h0 : ResInv s0) (hr : KReach body fuel s0 s) (r : ResId) (hk : (s.res r).kind = .container) :
    0 ≤ (s.res r).level ∧ ∀ c, (s.res r).capacity = some c → (s.res r).level ≤ (c : Int) :=
  (reach_resInv body fuel s0 s h0 hr).level r hk

/-- **A Store never holds more than `capacity` items**, in every state any program can reach. -/
theorem store_bounded (body : σ → Resume → Burst ℚ σ) (fuel : Nat) (s0 s : KState ℚ σ)
    (h0 : ResInv s0) (hr : KReach body fuel s0 s) (r : ResId) (c : Nat)
    (hk : isStoreKind (s.res r).kind = true) (hc : (s.res r).capacity = some c) :
    (s.res r).items.length ≤ c :=
  (reach_resInv body fuel s0 s h0 hr).items r c hk hc

/-- **A granted container put adds exactly its amount, a refused one changes nothing** (level = level + amount
iff `capacity - level >= amount`). -/
theorem container_put (s : KState ℚ σ) (r : ResId) (e : EvId) (hk : (s.res r).kind = .container)
    (hin : r < s.resources.size) :
    (canPut s r e = true → ((applyPut s r e).res r).level = (s.res r).level + (reqOf s e).amount) ∧
    (canPut s r e = false → doPut s r e = (s, false)) := by
  have hp : prePut s r e = s := by
    unfold prePut; rw [hk]; rfl
  constructor
  · intro _
    unfold applyPut
    simp only [hk, KState.trigger, KState.setOut, KState.setLevel]
    show ((s.setRes r _).res r).level = _
    rw [KState.res_setRes, if_pos ⟨rfl, hin⟩]
  · intro hc
    unfold doPut
    rw [hp, hc]; rfl

/-- **A granted container get removes exactly its amount; it is granted iff `level >= amount`.** -/
theorem container_get (s : KState ℚ σ) (r : ResId) (e : EvId) (hk : (s.res r).kind = .container)
    (hin : r < s.resources.size) :
    ((reqOf s e).amount ≤ (s.res r).level →
      (doGet s r e).2 = true ∧ ((doGet s r e).1.res r).level = (s.res r).level - (reqOf s e).amount) ∧
    (¬ (reqOf s e).amount ≤ (s.res r).level → doGet s r e = (s, false)) := by
  constructor
  · intro h
    have hg : getItem s r e = some .none := by unfold getItem; simp only [hk, h, if_true]
    unfold doGet
    rw [hg]
    refine ⟨rfl, ?_⟩
    unfold takeOut
    simp only [hk, KState.trigger, KState.setOut, KState.setLevel]
    show ((s.setRes r _).res r).level = _
    rw [KState.res_setRes, if_pos ⟨rfl, hin⟩]
  · intro h
    have hg : getItem s r e = none := by unfold getItem; simp only [hk, h, if_false]
    unfold doGet
    rw [hg, hk]; rfl

/-- **Store hands out in insertion order**: a get on a non-empty Store receives the oldest item, which leaves the store. -/
theorem store_fifo (s : KState ℚ σ) (r : ResId) (e : EvId) (x : Int) (rest : List Int)
    (hk : (s.res r).kind = .store) (hi : (s.res r).items = x :: rest) (hin : r < s.resources.size) :
    getItem s r e = some (.int x) ∧ ((doGet s r e).1.res r).items = rest := by
  have hg : getItem s r e = some (.int x) := by unfold getItem; simp only [hk, hi, List.head?_cons, Option.map_some]
  refine ⟨hg, ?_⟩
  unfold doGet
  rw [hg]
  unfold takeOut
  simp only [hk, KState.trigger, KState.setOut, KState.setItems]
  show ((s.setRes r _).res r).items = _
  rw [KState.res_setRes, if_pos ⟨rfl, hin⟩, hi]; rfl

/-- `listMin` returns a least element of the list -/
theorem listMin_le : ∀ (l : List Int) (m : Int), listMin l = some m → m ∈ l ∧ ∀ y ∈ l, m ≤ y
  | [], m, h => by simp [listMin] at h
  | x :: xs, m, h => by
    unfold listMin at h
    cases hx : listMin xs with
    | none =>
      rw [hx] at h; simp only [Option.some.injEq] at h; subst h
      have : xs = [] := by
        cases xs with
        | nil => rfl
        | cons y ys =>
          unfold listMin at hx
          cases h2 : listMin ys <;> rw [h2] at hx <;> simp at hx
          split at hx <;> simp at hx
      subst this; simp
    | some m' =>
      rw [hx] at h
      have ih := listMin_le xs m' hx
      simp only at h
      split at h
      · rename_i hlt
        simp only [Option.some.injEq] at h; subst h
        refine ⟨List.mem_cons_of_mem _ ih.1, ?_⟩
        intro y hy
        rcases List.mem_cons.mp hy with rfl | hy
        · exact Int.le_of_lt hlt
        · exact ih.2 y hy
      · rename_i hnlt
        simp only [Option.some.injEq] at h; subst h
        refine ⟨List.mem_cons_self, ?_⟩
        intro y hy
        rcases List.mem_cons.mp hy with rfl | hy
        · exact Int.le_refl _
        · exact Int.le_trans (Int.not_lt.mp hnlt) (ih.2 y hy)

/-- **PriorityStore hands out the smallest item first.** -/
theorem pstore_smallest_first (s : KState ℚ σ) (r : ResId) (e : EvId) (v : Val)
    (hk : (s.res r).kind = .pstore) (hg : getItem s r e = some v) :
    ∃ m, v = .int m ∧ m ∈ (s.res r).items ∧ ∀ y ∈ (s.res r).items, m ≤ y := by
  unfold getItem at hg
  simp only [hk] at hg
  cases hm : listMin (s.res r).items with
  | none => rw [hm] at hg; simp at hg
  | some m =>
    rw [hm] at hg
    simp only [Option.map_some, Option.some.injEq] at hg
    exact ⟨m, hg.symm, listMin_le _ _ hm⟩

/-- **FilterStore hands out the first match in insertion order, and never blocks the getters behind one whose
filter matches nothing.** -/
theorem fstore_first_match (s : KState ℚ σ) (r : ResId) (e : EvId) (hk : (s.res r).kind = .fstore) :
    getItem s r e = ((s.res r).items.find? (filterOk (reqOf s e).filter)).map Val.int ∧ (doGet s r e).2 = true := by
  refine ⟨by unfold getItem; simp only [hk], ?_⟩
  unfold doGet
  split
  · rfl
  · simp only [hk]; rfl

/-- **First come first served**: the scan of the put queue stops at the first put that cannot be granted
(so does the scan of the get queue, except for a FilterStore). -/
theorem fcfs_put (r : ResId) (e : EvId) (rest : List EvId) (s : KState ℚ σ)
    (hb : canPut (prePut s r e) r e = false) (hu : (prePut s r e).triggered e = false) :
    scanPut r (e :: rest) s = prePut s r e := by
  unfold scanPut doPut
  simp only [hb, Bool.false_eq_true, if_false, hu]

theorem fcfs_get (r : ResId) (e : EvId) (rest : List EvId) (s : KState ℚ σ)
    (hb : getItem s r e = none) (hf : (s.res r).kind ≠ .fstore) (hu : s.triggered e = false) :
    scanGet r (e :: rest) s = s := by
  unfold scanGet doGet
  have : ((s.res r).kind == ResKind.fstore) = false := by
    cases hk : (s.res r).kind <;> first | rfl | exact absurd hk hf
  simp only [hb, this, Bool.false_eq_true, if_false, hu]

/-- **Cancelling rescans**: cancelling a pending put removes it from the queue and immediately re-evaluates the
requests behind it, so they are not stranded. -/
theorem cancel_rescans (s : KState ℚ σ) (e : EvId) (r : ResId) (hk : (s.ev e).kind = .put r)
    (hu : s.triggered e = false) (hq : (s.res r).putQ.contains e = true) :
    cancelReq s e = (triggerPut (dropPutQ s r e) r, none) := by
  unfold cancelReq
  simp only [hu, Bool.false_eq_true, if_false, hk, hq, if_true]

/-! non-vacuity -/
example : listMin [5, 2, 9, 2] = some 2 := by decide

end C07
