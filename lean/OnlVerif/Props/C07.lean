import OnlVerif.Lemmas.ResStep
import OnlVerif.Lemmas.ConserveExamples
/-!
# C07 — containers and stores are bounded, conservative, ordered, never strand a request

Model: the resource part of the kernel model `K` (`Container/Store/PriorityStore/FilterStore._do_put/_do_get`,
the queue scans, `cancel` with its rescan).  The global theorems hold for every program and every reachable state.
-/

namespace C07
variable {σ : Type}

/-- **A Container's level always stays within `[0, capacity]`**, in every state any program can reach. -/
theorem level_bounds (body : σ → Resume → Burst ℚ σ) (fuel : Nat) (s0 s : KState ℚ σ)
    (h0 : ResInv s0) (hr : KReach body fuel s0 s) (r : ResId) (hk : (s.res r).kind = .container) :
    0 ≤ (s.res r).level ∧ ∀ c, (s.res r).capacity = some c → (s.res r).level ≤ (c : Int) :=
  (reach_resInv body fuel s0 s h0 hr).level r hk

/-- **A Store never holds more than `capacity` items**, in every state any program can reach. -/
theorem store_bounded (body : σ → Resume → Burst ℚ σ) (fuel : Nat) (s0 s : KState ℚ σ)
    (h0 : ResInv s0) (hr : KReach body fuel s0 s) (r : ResId) (c : Nat)
    (hk : isStoreKind (s.res r).kind = true) (hc : (s.res r).capacity = some c) :
    (s.res r).items.length ≤ c :=
  (reach_resInv body fuel s0 s h0 hr).items r c hk hc

/-- **A granted container put adds exactly its amount, a refused one changes nothing** (level = level + amount
iff `capacity - level >= amount`). -/
theorem container_put (s : KState ℚ σ) (r : ResId) (e : EvId) (hk : (s.res r).kind = .container)
    (hin : r < s.resources.size) :
    (canPut s r e = true → ((applyPut s r e).res r).level = (s.res r).level + (reqOf s e).amount) ∧
    (canPut s r e = false → doPut s r e = (s, false)) := by
  have hp : prePut s r e = s := by
    unfold prePut; rw [hk]; rfl
  constructor
  · intro _
    unfold applyPut
    simp only [hk, KState.trigger, KState.setOut, KState.setLevel]
    show ((s.setRes r _).res r).level = _
    rw [KState.res_setRes, if_pos ⟨rfl, hin⟩]
  · intro hc
    unfold doPut
    rw [hp, hc]; rfl

/-- **A granted container get removes exactly its amount; it is granted iff `level >= amount`.** -/
theorem container_get (s : KState ℚ σ) (r : ResId) (e : EvId) (hk : (s.res r).kind = .container)
    (hin : r < s.resources.size) :
    ((reqOf s e).amount ≤ (s.res r).level →
      (doGet s r e).2 = true ∧ ((doGet s r e).1.res r).level = (s.res r).level - (reqOf s e).amount) ∧
    (¬ (reqOf s e).amount ≤ (s.res r).level → doGet s r e = (s, false)) := by
  constructor
  · intro h
    have hg : getItem s r e = some .none := by unfold getItem; simp only [hk, h, if_true]
    unfold doGet
    rw [hg]
    refine ⟨rfl, ?_⟩
    unfold takeOut
    simp only [hk, KState.trigger, KState.setOut, KState.setLevel]
    show ((s.setRes r _).res r).level = _
    rw [KState.res_setRes, if_pos ⟨rfl, hin⟩]
  · intro h
    have hg : getItem s r e = none := by unfold getItem; simp only [hk, h, if_false]
    unfold doGet
    rw [hg, hk]; rfl

/-- **Store hands out in insertion order**: a get on a non-empty Store receives the oldest item, which leaves the store. -/
theorem store_fifo (s : KState ℚ σ) (r : ResId) (e : EvId) (x : Int) (rest : List Int)
    (hk : (s.res r).kind = .store) (hi : (s.res r).items = x :: rest) (hin : r < s.resources.size) :
    getItem s r e = some (.int x) ∧ ((doGet s r e).1.res r).items = rest := by
  have hg : getItem s r e = some (.int x) := by unfold getItem; simp only [hk, hi, List.head?_cons, Option.map_some]
  refine ⟨hg, ?_⟩
  unfold doGet
  rw [hg]
  unfold takeOut
  simp only [hk, KState.trigger, KState.setOut, KState.setItems]
  show ((s.setRes r _).res r).items = _
  rw [KState.res_setRes, if_pos ⟨rfl, hin⟩, hi]; rfl

/-- `listMin` returns a least element of the list -/
theorem listMin_le : ∀ (l : List Int) (m : Int), listMin l = some m → m ∈ l ∧ ∀ y ∈ l, m ≤ y
  | [], m, h => by simp [listMin] at h
  | x :: xs, m, h => by
    unfold listMin at h
    cases hx : listMin xs with
    | none =>
      rw [hx] at h; simp only [Option.some.injEq] at h; subst h
      have : xs = [] := by
        cases xs with
        | nil => rfl
        | cons y ys =>
          unfold listMin at hx
          cases h2 : listMin ys <;> rw [h2] at hx <;> simp at hx
          split at hx <;> simp at hx
      subst this; simp
    | some m' =>
      rw [hx] at h
      have ih := listMin_le xs m' hx
      simp only at h
      split at h
      · rename_i hlt
        simp only [Option.some.injEq] at h; subst h
        refine ⟨List.mem_cons_of_mem _ ih.1, ?_⟩
        intro y hy
        rcases List.mem_cons.mp hy with rfl | hy
        · exact Int.le_of_lt hlt
        · exact ih.2 y hy
      · rename_i hnlt
        simp only [Option.some.injEq] at h; subst h
        refine ⟨List.mem_cons_self, ?_⟩
        intro y hy
        rcases List.mem_cons.mp hy with rfl | hy
        · exact Int.le_refl _
        · exact Int.le_trans (Int.not_lt.mp hnlt) (ih.2 y hy)

/-- **PriorityStore hands out the smallest item first.** -/
theorem pstore_smallest_first (s : KState ℚ σ) (r : ResId) (e : EvId) (v : Val)
    (hk : (s.res r).kind = .pstore) (hg : getItem s r e = some v) :
    ∃ m, v = .int m ∧ m ∈ (s.res r).items ∧ ∀ y ∈ (s.res r).items, m ≤ y := by
  unfold getItem at hg
  simp only [hk] at hg
  cases hm : listMin (s.res r).items with
  | none => rw [hm] at hg; simp at hg
  | some m =>
    rw [hm] at hg
    simp only [Option.map_some, Option.some.injEq] at hg
    exact ⟨m, hg.symm, listMin_le _ _ hm⟩

/-- **FilterStore hands out the first match in insertion order, and never blocks the getters behind one whose
filter matches nothing.** -/
theorem fstore_first_match (s : KState ℚ σ) (r : ResId) (e : EvId) (hk : (s.res r).kind = .fstore) :
    getItem s r e = ((s.res r).items.find? (filterOk (reqOf s e).filter)).map Val.int ∧ (doGet s r e).2 = true := by
  refine ⟨by unfold getItem; simp only [hk], ?_⟩
  unfold doGet
  split
  · rfl
  · simp only [hk]; rfl

/-- **First come first served**: the scan of the put queue stops at the first put that cannot be granted
(so does the scan of the get queue, except for a FilterStore). -/
theorem fcfs_put (r : ResId) (e : EvId) (rest : List EvId) (s : KState ℚ σ)
    (hb : canPut (prePut s r e) r e = false) (hu : (prePut s r e).triggered e = false) :
    scanPut r (e :: rest) s = prePut s r e := by
  unfold scanPut doPut
  simp only [hb, Bool.false_eq_true, if_false, hu]

theorem fcfs_get (r : ResId) (e : EvId) (rest : List EvId) (s : KState ℚ σ)
    (hb : getItem s r e = none) (hf : (s.res r).kind ≠ .fstore) (hu : s.triggered e = false) :
    scanGet r (e :: rest) s = s := by
  unfold scanGet doGet
  have : ((s.res r).kind == ResKind.fstore) = false := by
    cases hk : (s.res r).kind <;> first | rfl | exact absurd hk hf
  simp only [hb, this, Bool.false_eq_true, if_false, hu]

/-- **Cancelling rescans**: cancelling a pending put removes it from the queue and immediately re-evaluates the
requests behind it, so they are not stranded. -/
theorem cancel_rescans (s : KState ℚ σ) (e : EvId) (r : ResId) (hk : (s.ev e).kind = .put r)
    (hu : s.triggered e = false) (hq : (s.res r).putQ.contains e = true) :
    cancelReq s e = (triggerPut (dropPutQ s r e) r, none) := by
  unfold cancelReq
  simp only [hu, Bool.false_eq_true, if_false, hk, hq, if_true]

/-! non-vacuity -/
example : listMin [5, 2, 9, 2] = some 2 := by decide

section ConserveBlock
open Conserve

/-! ## ===== b-conserve: global conservation theorems (whole runs, every program) — BEGIN =====

Vocabulary (`Lemmas/Conserve*.lean`).  A request event is *granted* exactly when it is triggered.
`grantedPuts s r` / `grantedGets s r`: the triggered put / get events of resource `r` in the event table of `s`;
`amountSum s l`: the sum of the amounts the requests in `l` carry; `putItems s r`: the items of the granted puts;
`gotItems s r`: the values `x` with which get events of `r` were triggered (`out = ok (int x)`).
`WF s0`: the initial state is well-formed (callbacks `check c`/`build c` name conditions, process-table entries name
process events, queues hold untriggered requests of their own resource, no duplicates) — `WF.init`: every fresh
environment is.  `SafeReach body fuel s0 s`: `s` is reachable from `s0` by kernel steps of program `body` during
which no `succeed`/`fail` API call of the program targets a request event (`stepOK`; the real `_do_put` would raise
"already triggered" there — outside the domain of C07).  `domain_covers_programs_without_succeed` shows the
hypothesis is met by every run of every program that never calls `succeed`/`fail`; the examples exhibit concrete runs. -/

/-- **A Container's level equals its initial level plus all granted puts minus all granted gets** — in every state
any program can reach from an environment in which no request has been issued yet. -/
theorem level_conservation (body : σ → Resume → Burst ℚ σ) (fuel : Nat) (s0 s : KState ℚ σ)
    (hW : WF s0) (h0 : ∀ e, isReq s0 e = false) (hr : SafeReach body fuel s0 s)
    (r : ResId) (hk : (s.res r).kind = .container) :
    (s.res r).level = (s0.res r).level + amountSum s (grantedPuts s r) - amountSum s (grantedGets s r) := by
  have h := reach_levelCons body fuel s0 s hW hr r hk
  rw [grantedPuts_noReq s0 r h0, grantedGets_noReq s0 r h0] at h
  simp only [amountSum, List.map_nil, List.sum_nil] at h
  have h' : (s.res r).level - amountSum s (grantedPuts s r) + amountSum s (grantedGets s r) = (s0.res r).level := by
    simpa [amountSum] using h
  omega

/-- **The same between any two states of a run**: `level − Σ granted puts + Σ granted gets` is a constant of every run. -/
theorem level_conservation_between (body : σ → Resume → Burst ℚ σ) (fuel : Nat) (s s' : KState ℚ σ)
    (hW : WF s) (hr : SafeReach body fuel s s') (r : ResId) (hk : (s'.res r).kind = .container) :
    (s'.res r).level - amountSum s' (grantedPuts s' r) + amountSum s' (grantedGets s' r) =
      (s.res r).level - amountSum s (grantedPuts s r) + amountSum s (grantedGets s r) :=
  reach_levelCons body fuel s s' hW hr r hk

/-- **Every item a Store / PriorityStore / FilterStore accepted is handed to exactly one getter exactly once**: as
multisets, items still held ⊎ items handed to getters = initial items ⊎ items of the granted puts. -/
theorem store_exactly_once (body : σ → Resume → Burst ℚ σ) (fuel : Nat) (s0 s : KState ℚ σ)
    (hW : WF s0) (h0 : ∀ e, isReq s0 e = false) (hr : SafeReach body fuel s0 s)
    (r : ResId) (hk : isStoreKind (s.res r).kind = true) :
    ((s.res r).items ++ gotItems s r).Perm ((s0.res r).items ++ putItems s r) := by
  have h := reach_storeCons body fuel s0 s hW hr r hk
  have hp0 : putItems s0 r = [] := by unfold putItems; rw [grantedPuts_noReq s0 r h0]; rfl
  rw [gotItems_noReq s0 r h0, hp0] at h
  simpa using h

/-- **A granted get of a store carries exactly one item** (its outcome is `ok (int x)` for one `x`). -/
theorem store_get_carries_one_item (body : σ → Resume → Burst ℚ σ) (fuel : Nat) (s0 s : KState ℚ σ)
    (hW : WF s0) (h0 : ∀ e, isReq s0 e = false) (hr : SafeReach body fuel s0 s)
    (r : ResId) (e : EvId) (hk : isStoreKind (s.res r).kind = true) (hg : (s.ev e).kind = .get r)
    (ht : (s.ev e).out ≠ none) : ∃ x, (s.ev e).out = some (.ok (.int x)) :=
  ((StoreRel.crel.reach body fuel s0 s hW hr).2 hW).2 (gotInt_noReq s0 h0) r e hk hg ht

/-- **A request is granted at most once: the outcome of a granted request never changes afterwards**, and neither do
its kind nor the data it carries (amount, item, priority, time, filter). -/
theorem granted_outcome_never_changes (body : σ → Resume → Burst ℚ σ) (fuel : Nat) (s0 s s' : KState ℚ σ)
    (hW : WF s0) (hr0 : SafeReach body fuel s0 s) (hr : SafeReach body fuel s s')
    (e : EvId) (hq : isReq s e = true) (ht : (s.ev e).out ≠ none) :
    (s'.ev e).out = (s.ev e).out ∧ (s'.ev e).kind = (s.ev e).kind ∧ coreOf s' e = coreOf s e := by
  have hWs := (reach_base body fuel s0 s hW hr0).2
  have hB := (reach_base body fuel s s' hWs hr).1
  have hlt := lt_size_of_isReq hq
  exact ⟨hB.outStable e hq ht, hB.kind e hlt, hB.core e hlt⟩

/-- **Queues only ever hold untriggered requests of their own resource, without duplicates** (so `trigger` is only
ever applied to an untriggered request: the scans grant queue members only), in every reachable state. -/
theorem queues_hold_pending_requests (body : σ → Resume → Burst ℚ σ) (fuel : Nat) (s0 s : KState ℚ σ)
    (hW : WF s0) (hr : SafeReach body fuel s0 s) (r : ResId) :
    (∀ e ∈ (s.res r).putQ, (s.ev e).kind = .put r ∧ (s.ev e).out = none) ∧ (s.res r).putQ.Nodup ∧
    (∀ e ∈ (s.res r).getQ, (s.ev e).kind = .get r ∧ (s.ev e).out = none) ∧ (s.res r).getQ.Nodup :=
  have h := (reach_base body fuel s0 s hW hr).2
  ⟨h.putQ r, h.putNodup r, h.getQ r, h.getNodup r⟩

/-- **The domain hypothesis is satisfiable by whole classes of programs**: for a program that never calls
`succeed`/`fail`, every reachable state is reachable inside the domain. -/
theorem domain_covers_programs_without_succeed (body : σ → Resume → Burst ℚ σ) (h : ∀ st rs, NoTrig (body st rs))
    (fuel : Nat) (s0 s : KState ℚ σ) (hr : KReach body fuel s0 s) : SafeReach body fuel s0 s :=
  safeReach_of_noTrig body h fuel s0 s hr

/-! non-vacuity: `Container(capacity=10, init=1)`, one process doing `put(3); put(2); get(4)`: two granted puts and one
granted get, level `1 + 3 + 2 − 4 = 2` -/
example : WF ExContainer.s0 ∧ (∀ e, isReq ExContainer.s0 e = false) ∧ SafeReach ExContainer.body 5 ExContainer.s0 ExContainer.s1 :=
  ⟨ExContainer.wf0, ExContainer.noReq0, ExContainer.reach⟩
example : (ExContainer.s1.res 0).kind = .container :=
  ((reach_base _ _ _ _ ExContainer.wf0 ExContainer.reach).1.resKind 0).trans rfl
example : (ExContainer.s0.res 0).level = 1 ∧ (ExContainer.s1.res 0).level = 2 ∧
    grantedPuts ExContainer.s1 0 = [2, 3] ∧ grantedGets ExContainer.s1 0 = [4] ∧
    amountSum ExContainer.s1 (grantedPuts ExContainer.s1 0) = 5 ∧ amountSum ExContainer.s1 (grantedGets ExContainer.s1 0) = 4 := by
  decide +kernel
/-! non-vacuity: `Store(capacity=2)`, `put(7); put(5); put(9); get()`: after four kernel steps the third put has been
granted by the rescan the get caused; the getter holds 7, the store holds 5 and 9 -/
example : WF ExStore.s0 ∧ (∀ e, isReq ExStore.s0 e = false) ∧ SafeReach ExStore.body 5 ExStore.s0 ExStore.s4 :=
  ⟨ExStore.wf0, ExStore.noReq0, ExStore.reach4⟩
example : isStoreKind (ExStore.s4.res 0).kind = true ∧ (ExStore.s4.res 0).items = [5, 9] ∧ gotItems ExStore.s4 0 = [7] ∧
    putItems ExStore.s4 0 = [7, 5, 9] ∧ (ExStore.s1.res 0).putQ = [4] ∧ (ExStore.s4.res 0).putQ = [] := by
  decide +kernel

/-! ### b-conserve, part 2: first come first served, along whole runs

`Before l a b`: `a` stands before `b` in `l`.  `AUnit t t'`: one atomic unit of the model with the guard under which
the model executes it (see `Lemmas/ConserveTrace.lean`); every run is a finite sequence of such units
(`C06.run_is_unit_sequence`). -/

/-- **Put queues and get queues of containers and stores are in creation order (event ids increasing)** and hold only
waiting requests of their own resource, each once — in every reachable state. -/
theorem queues_in_creation_order (body : σ → Resume → Burst ℚ σ) (fuel : Nat) (s0 s : KState ℚ σ)
    (hW : WF s0) (hS : QSorted s0) (hr : SafeReach body fuel s0 s) (r : ResId) (hk : isPrioKind (s.res r).kind = false) :
    (s.res r).putQ.Pairwise (fun a b => a < b) ∧ (s.res r).getQ.Pairwise (fun a b => a < b) := by
  have h := (reach_queue body fuel s0 s hW hr).2 hS
  refine ⟨?_, h.get r⟩
  have := h.put r
  rw [hk] at this
  exact this.imp (fun hab => by unfold rankLt at hab; simpa using hab)

/-- **Put requests are served first come first served, along whole runs**: if put `a` is queued before put `b` in some
reachable state, then in every later state in which `b` has been granted, `a` has been granted too, or was cancelled. -/
theorem fcfs_put_global (body : σ → Resume → Burst ℚ σ) (fuel : Nat) (s0 s s' : KState ℚ σ)
    (hW : WF s0) (hr0 : SafeReach body fuel s0 s) (hr : SafeReach body fuel s s') (r : ResId) (a b : EvId)
    (hab : Before (s.res r).putQ a b) (hb : (s'.ev b).out ≠ none) :
    (s'.ev a).out ≠ none ∨ (a ∉ (s'.res r).putQ ∧ (s'.ev a).out = none) :=
  have hWs := (reach_base body fuel s0 s hW hr0).2
  ((reach_queue body fuel s s' hWs hr).1.put r).order trivial a b hab hb

/-- **Get requests are served first come first served, along whole runs — for every class except FilterStore.** -/
theorem fcfs_get_global (body : σ → Resume → Burst ℚ σ) (fuel : Nat) (s0 s s' : KState ℚ σ)
    (hW : WF s0) (hr0 : SafeReach body fuel s0 s) (hr : SafeReach body fuel s s') (r : ResId) (a b : EvId)
    (hf : (s.res r).kind ≠ .fstore) (hab : Before (s.res r).getQ a b) (hb : (s'.ev b).out ≠ none) :
    (s'.ev a).out ≠ none ∨ (a ∉ (s'.res r).getQ ∧ (s'.ev a).out = none) :=
  have hWs := (reach_base body fuel s0 s hW hr0).2
  ((reach_queue body fuel s s' hWs hr).1.get r).order hf a b hab hb

/-- **A cancelled request (put or get) is never granted and never re-enters its queue; requests that stay queued keep
their relative order** — for every class, FilterStore included. -/
theorem cancelled_stays_cancelled (body : σ → Resume → Burst ℚ σ) (fuel : Nat) (s0 s s' : KState ℚ σ)
    (hW : WF s0) (hr0 : SafeReach body fuel s0 s) (hr : SafeReach body fuel s s') (r : ResId) :
    (∀ a, (s.ev a).kind = .put r → a ∉ (s.res r).putQ → (s.ev a).out = none → a ∉ (s'.res r).putQ ∧ (s'.ev a).out = none) ∧
    (∀ a, (s.ev a).kind = .get r → a ∉ (s.res r).getQ → (s.ev a).out = none → a ∉ (s'.res r).getQ ∧ (s'.ev a).out = none) ∧
    (∀ a b, Before (s.res r).getQ a b → a ∈ (s'.res r).getQ → b ∈ (s'.res r).getQ → Before (s'.res r).getQ a b) :=
  have hWs := (reach_base body fuel s0 s hW hr0).2
  have h := (reach_queue body fuel s s' hWs hr).1
  ⟨(h.put r).dead, (h.get r).dead, (h.get r).keep⟩

/-- **A put is granted only while it is the oldest waiting put and `_do_put`'s guard holds** (the only atomic unit
that triggers a waiting put request is `_do_put` on the head of the queue). -/
theorem put_granted_only_at_head (t t' : KState ℚ σ) (h : AUnit t t') (r : ResId) (e : EvId)
    (hk : (t.ev e).kind = .put r) (ho : (t.ev e).out = none) (ho' : (t'.ev e).out ≠ none) :
    ∃ rest, (t.res r).putQ = e :: rest ∧ canPut t r e = true ∧ t' = grantPutSt t r e :=
  h.grant_put hk ho ho'

/-- **A get is granted only in its turn; only FilterStore lets a later getter overtake, and only getters whose filter
matches nothing**: at the moment get `e` is granted it can be served (`getItem = some v`), it receives `v`, and every
queue member in front of it belongs to a FilterStore and matches no item at that moment. -/
theorem get_granted_only_in_turn (t t' : KState ℚ σ) (h : AUnit t t') (r : ResId) (e : EvId)
    (hk : (t.ev e).kind = .get r) (ho : (t.ev e).out = none) (ho' : (t'.ev e).out ≠ none) :
    ∃ v pre rest, (t.res r).getQ = pre ++ e :: rest ∧ getItem t r e = some v ∧ (t'.ev e).out = some (.ok v) ∧
      (∀ a ∈ pre, (t.res r).kind = .fstore ∧
        (t.res r).items.find? (filterOk (reqOf t a).filter) = none) ∧
      ((t.res r).kind ≠ .fstore → pre = []) := by
  obtain ⟨v, pre, rest, hq, hg, hp, hs⟩ := h.grant_get hk ho ho'
  have hWt : WF t := by cases h <;> assumption
  refine ⟨v, pre, rest, hq, hg, ?_, ?_, ?_⟩
  · rw [hs]; exact (Base.getEffect_of_guard hWt hq hg).outE
  · intro a ha
    obtain ⟨hf, hn⟩ := hp a ha
    refine ⟨hf, ?_⟩
    unfold getItem at hn
    simp only [hf, Option.map_eq_none_iff] at hn
    exact hn
  · intro hf
    cases pre with
    | nil => rfl
    | cons p ps => exact absurd (hp p List.mem_cons_self).1 hf

/-- **PriorityStore hands out a smallest item, at every grant of every run**: at the moment a get of a PriorityStore
is granted, the value it receives is an item of the store and no item of the store is smaller. -/
theorem pstore_grant_is_min (t t' : KState ℚ σ) (h : AUnit t t') (r : ResId) (e : EvId)
    (hk : (t.ev e).kind = .get r) (ho : (t.ev e).out = none) (ho' : (t'.ev e).out ≠ none)
    (hp : (t.res r).kind = .pstore) :
    ∃ m, (t'.ev e).out = some (.ok (.int m)) ∧ m ∈ (t.res r).items ∧ ∀ y ∈ (t.res r).items, m ≤ y := by
  obtain ⟨v, pre, rest, _, hg, hout, _, _⟩ := get_granted_only_in_turn t t' h r e hk ho ho'
  obtain ⟨m, hv, hm⟩ := pstore_smallest_first t r e v hp hg
  exact ⟨m, by rw [hout, hv], hm⟩

/-- **Along every run, every granted get was granted in its turn and received what `_do_get` selects at that moment**:
if get `e` waits in a reachable state `s` and has been granted in a later state `s'`, the run passed through a state `t`
in which `e` could be served with `v` (`getItem`: oldest item for Store, a smallest for PriorityStore, first match for
FilterStore), every queue member in front of `e` belonged to a FilterStore and matched no item, and `e`'s outcome in
`s'` is `v`. -/
theorem every_get_grant_was_in_turn (body : σ → Resume → Burst ℚ σ) (fuel : Nat) (s0 s s' : KState ℚ σ)
    (hW : WF s0) (hr0 : SafeReach body fuel s0 s) (hr : SafeReach body fuel s s') (r : ResId) (e : EvId)
    (hk : (s.ev e).kind = .get r) (ho : (s.ev e).out = none) (ho' : (s'.ev e).out ≠ none) :
    ∃ t v pre rest, UnitSeq s t ∧ UnitSeq (grantGetSt t r e v) s' ∧ (t.res r).getQ = pre ++ e :: rest ∧
      getItem t r e = some v ∧ (∀ a ∈ pre, (t.res r).kind = .fstore ∧ getItem t r a = none) ∧ (t.ev e).out = none ∧
      (s'.ev e).out = some (.ok v) :=
  have hWs := (reach_base body fuel s0 s hW hr0).2
  (reach_units body fuel s s' hWs hr).grant_get_moment hk ho ho'

/-- **Along every run, a granted get of a PriorityStore received a smallest item of the store at the moment of the grant.** -/
theorem pstore_smallest_first_global (body : σ → Resume → Burst ℚ σ) (fuel : Nat) (s0 s s' : KState ℚ σ)
    (hW : WF s0) (hr0 : SafeReach body fuel s0 s) (hr : SafeReach body fuel s s') (r : ResId) (e : EvId)
    (hp : (s.res r).kind = .pstore)
    (hk : (s.ev e).kind = .get r) (ho : (s.ev e).out = none) (ho' : (s'.ev e).out ≠ none) :
    ∃ t m, UnitSeq s t ∧ UnitSeq (grantGetSt t r e (.int m)) s' ∧ (s'.ev e).out = some (.ok (.int m)) ∧
      m ∈ (t.res r).items ∧ ∀ y ∈ (t.res r).items, m ≤ y := by
  obtain ⟨t, v, pre, rest, ht, ht', _, hg, _, _, hout⟩ :=
    every_get_grant_was_in_turn body fuel s0 s s' hW hr0 hr r e hk ho ho'
  have hpt : (t.res r).kind = .pstore := by rw [ht.base.resKind]; exact hp
  obtain ⟨m, hv, hm⟩ := pstore_smallest_first t r e v hpt hg
  subst hv
  exact ⟨t, m, ht, ht', hout, hm⟩

/-! non-vacuity: in the Store run above the put of 9 (event 4) waits in `s1`, and is granted in `s4` -/
example : (ExStore.s1.ev 4).kind = .put 0 ∧ ExStore.s1.triggered 4 = false ∧ ExStore.s4.triggered 4 = true ∧
    (ExStore.s1.res 0).putQ = [4] := by decide +kernel

/-! ### b-conserve, part 3: a Store is first-in first-out across the whole run -/

/-- **Store hands items out in insertion order, across the whole run**: as lists, the initial items followed by the
items of the granted puts (in creation order of the puts — which is the order in which a Store grants them,
`fcfs_put_global`) equal the items handed to the getters (in creation order of the gets — the order in which they are
granted, `fcfs_get_global`) followed by the items still held. -/
theorem store_fifo_global (body : σ → Resume → Burst ℚ σ) (fuel : Nat) (s0 s : KState ℚ σ)
    (hW : WF s0) (hS : QSorted s0) (h0 : ∀ e, isReq s0 e = false) (hr : SafeReach body fuel s0 s)
    (r : ResId) (hk : (s.res r).kind = .store) :
    (s0.res r).items ++ putItems s r = gotItems s r ++ (s.res r).items :=
  reach_fifo body fuel s0 s hW hS h0 hr r hk

/-- **The k-th granted get of a Store receives the k-th accepted item.** -/
theorem store_kth_get_receives_kth_item (body : σ → Resume → Burst ℚ σ) (fuel : Nat) (s0 s : KState ℚ σ)
    (hW : WF s0) (hS : QSorted s0) (h0 : ∀ e, isReq s0 e = false) (hr : SafeReach body fuel s0 s)
    (r : ResId) (hk : (s.res r).kind = .store) (k : Nat) (hlt : k < (gotItems s r).length) :
    (gotItems s r)[k]? = ((s0.res r).items ++ putItems s r)[k]? := by
  rw [store_fifo_global body fuel s0 s hW hS h0 hr r hk, List.getElem?_append_left hlt]

/-! non-vacuity: the Store run above: accepted `[7, 5, 9]` = handed out `[7]` ++ held `[5, 9]` -/
example : QSorted ExStore.s0 := ExStore.sorted0
example : (ExStore.s4.res 0).kind = .store :=
  ((reach_base _ _ _ _ ExStore.wf0 ExStore.reach4).1.resKind 0).trans rfl
example : (ExStore.s0.res 0).items ++ putItems ExStore.s4 0 = [7, 5, 9] ∧
    gotItems ExStore.s4 0 ++ (ExStore.s4.res 0).items = [7, 5, 9] := by decide +kernel

/-! ### b-conserve: the domain hypothesis is neither vacuous nor dispensable

* a program that calls `succeed` on a *plain* event and then uses a container is inside the domain (`stepOK` is
  decidable: `Lemmas/ConserveDecide.lean`), and conservation holds for its run;
* a program that calls `succeed` on its own waiting `ContainerPut(20)` is outside the domain, and for that run the
  conservation equation is indeed false in the model (level 1, "granted" puts 20): the hypothesis cannot be dropped. -/
example : WF ExSucceed.s0 ∧ (∀ e, isReq ExSucceed.s0 e = false) ∧ SafeReach ExSucceed.body 5 ExSucceed.s0 ExSucceed.s1 :=
  ⟨ExSucceed.wf0, ExSucceed.noReq0, ExSucceed.reach⟩
example : (ExSucceed.s1.res 0).level = 4 ∧ amountSum ExSucceed.s1 (grantedPuts ExSucceed.s1 0) = 3 ∧
    grantedGets ExSucceed.s1 0 = [] := by decide +kernel
example : ¬ stepOK ExBad.body 5 ExBad.s0 := by decide +kernel
example : (ExBad.s0.res 0).level = 1 ∧ (ExBad.s1.res 0).level = 1 ∧ amountSum ExBad.s1 (grantedPuts ExBad.s1 0) = 20 ∧
    grantedGets ExBad.s1 0 = [] := by decide +kernel

/-! ## ===== b-conserve — END ===== -/
end ConserveBlock

end C07
