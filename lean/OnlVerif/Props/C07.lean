import OnlVerif.Lemmas.ResStep
import OnlVerif.Lemmas.ConserveExamples
import OnlVerif.Lemmas.StrandStep
import OnlVerif.Lemmas.StrandDemo
/-!
# C07 — containers and stores are bounded, conservative, ordered, never strand a request

Model: the resource part of the kernel model `K` (`Container/Store/PriorityStore/FilterStore._do_put/_do_get`,
the queue scans, `cancel` with its rescan).  The global theorems hold for every program and every reachable state.
-/

namespace C07
variable {σ : Type}

/-- **A Container's level always stays within `[0, capacity]`**, in every state any program can reach. -/
theorem level_bounds (body : σ → Resume → Burst ℚ σ) (fuel : Nat) (s0 s : KState ℚ σ)
    (h0 : ResInv s0) (hr : KReach body fuel s0 s) (r : ResId) (hk : (s.res r).kind = .container) :
    0 ≤ (s.res r).level ∧ ∀ c, (s.res r).capacity = some c → (s.res r).level ≤ (c : Int) :=
  (reach_resInv body fuel s0 s h0 hr).level r hk

/-- **A Store never holds more than `capacity` items**, in every state any program can reach. -/
theorem store_bounded (body : σ → Resume → Burst ℚ σ) (fuel : Nat) (s0 s : KState ℚ σ)
    (h0 : ResInv s0) (hr : KReach body fuel s0 s) (r : ResId) (c : Nat)
    (hk : isStoreKind (s.res r).kind = true) (hc : (s.res r).capacity = some c) :
    (s.res r).items.length ≤ c :=
  (reach_resInv body fuel s0 s h0 hr).items r c hk hc

/-- **A granted container put adds exactly its amount, a refused one changes nothing** (level = level + amount
iff `capacity - level >= amount`). -/
theorem container_put (s : KState ℚ σ) (r : ResId) (e : EvId) (hk : (s.res r).kind = .container)
    (hin : r < s.resources.size) :
    (canPut s r e = true → ((applyPut s r e).res r).level = (s.res r).level + (reqOf s e).amount) ∧
    (canPut s r e = false → doPut s r e = (s, false)) := by
  have hp : prePut s r e = s := by
    unfold prePut; rw [hk]; rfl
  constructor
  · intro _
    unfold applyPut
    simp only [hk, KState.trigger, KState.setOut, KState.setLevel]
    show ((s.setRes r _).res r).level = _
    rw [KState.res_setRes, if_pos ⟨rfl, hin⟩]
  · intro hc
    unfold doPut
    rw [hp, hc]; rfl

/-- **A granted container get removes exactly its amount; it is granted iff `level >= amount`.** -/
theorem container_get (s : KState ℚ σ) (r : ResId) (e : EvId) (hk : (s.res r).kind = .container)
    (hin : r < s.resources.size) :
    ((reqOf s e).amount ≤ (s.res r).level →
      (doGet s r e).2 = true ∧ ((doGet s r e).1.res r).level = (s.res r).level - (reqOf s e).amount) ∧
    (¬ (reqOf s e).amount ≤ (s.res r).level → doGet s r e = (s, false)) := by
  constructor
  · intro h
    have hg : getItem s r e = some .none := by unfold getItem; simp only [hk, h, if_true]
    unfold doGet
    rw [hg]
    refine ⟨rfl, ?_⟩
    unfold takeOut
    simp only [hk, KState.trigger, KState.setOut, KState.setLevel]
    show ((s.setRes r _).res r).level = _
    rw [KState.res_setRes, if_pos ⟨rfl, hin⟩]
  · intro h
    have hg : getItem s r e = none := by unfold getItem; simp only [hk, h, if_false]
    unfold doGet
    rw [hg, hk]; rfl

/-- **Store hands out in insertion order**: a get on a non-empty Store receives the oldest item, which leaves the store. -/
theorem store_fifo (s : KState ℚ σ) (r : ResId) (e : EvId) (x : Int) (rest : List Int)
    (hk : (s.res r).kind = .store) (hi : (s.res r).items = x :: rest) (hin : r < s.resources.size) :
    getItem s r e = some (.int x) ∧ ((doGet s r e).1.res r).items = rest := by
  have hg : getItem s r e = some (.int x) := by unfold getItem; simp only [hk, hi, List.head?_cons, Option.map_some]
  refine ⟨hg, ?_⟩
  unfold doGet
  rw [hg]
  unfold takeOut
  simp only [hk, KState.trigger, KState.setOut, KState.setItems]
  show ((s.setRes r _).res r).items = _
  rw [KState.res_setRes, if_pos ⟨rfl, hin⟩, hi]; rfl

/-- `listMin` returns a least element of the list -/
theorem listMin_le : ∀ (l : List Int) (m : Int), listMin l = some m → m ∈ l ∧ ∀ y ∈ l, m ≤ y
  | [], m, h => by simp [listMin] at h
  | x :: xs, m, h => by
    unfold listMin at h
    cases hx : listMin xs with
    | none =>
      rw [hx] at h; simp only [Option.some.injEq] at h; subst h
      have : xs = [] := by
        cases xs with
        | nil => rfl
        | cons y ys =>
          unfold listMin at hx
          cases h2 : listMin ys <;> rw [h2] at hx <;> simp at hx
          split at hx <;> simp at hx
      subst this; simp
    | some m' =>
      rw [hx] at h
      have ih := listMin_le xs m' hx
      simp only at h
      split at h
      · rename_i hlt
        simp only [Option.some.injEq] at h; subst h
        refine ⟨List.mem_cons_of_mem _ ih.1, ?_⟩
        intro y hy
        rcases List.mem_cons.mp hy with rfl | hy
        · exact Int.le_of_lt hlt
        · exact ih.2 y hy
      · rename_i hnlt
        simp only [Option.some.injEq] at h; subst h
        refine ⟨List.mem_cons_self, ?_⟩
        intro y hy
        rcases List.mem_cons.mp hy with rfl | hy
        · exact Int.le_refl _
        · exact Int.le_trans (Int.not_lt.mp hnlt) (ih.2 y hy)

/-- **PriorityStore hands out the smallest item first.** -/
theorem pstore_smallest_first (s : KState ℚ σ) (r : ResId) (e : EvId) (v : Val)
    (hk : (s.res r).kind = .pstore) (hg : getItem s r e = some v) :
    ∃ m, v = .int m ∧ m ∈ (s.res r).items ∧ ∀ y ∈ (s.res r).items, m ≤ y := by
  unfold getItem at hg
  simp only [hk] at hg
  cases hm : listMin (s.res r).items with
  | none => rw [hm] at hg; simp at hg
  | some m =>
    rw [hm] at hg
    simp only [Option.map_some, Option.some.injEq] at hg
    exact ⟨m, hg.symm, listMin_le _ _ hm⟩

/-- **FilterStore hands out the first match in insertion order, and never blocks the getters behind one whose
filter matches nothing.** -/
theorem fstore_first_match (s : KState ℚ σ) (r : ResId) (e : EvId) (hk : (s.res r).kind = .fstore) :
    getItem s r e = ((s.res r).items.find? (filterOk (reqOf s e).filter)).map Val.int ∧ (doGet s r e).2 = true := by
  refine ⟨by unfold getItem; simp only [hk], ?_⟩
  unfold doGet
  split
  · rfl
  · simp only [hk]; rfl

/-- **First come first served**: the scan of the put queue stops at the first put that cannot be granted
(so does the scan of the get queue, except for a FilterStore). -/
theorem fcfs_put (r : ResId) (e : EvId) (rest : List EvId) (s : KState ℚ σ)
    (hb : canPut (prePut s r e) r e = false) (hu : (prePut s r e).triggered e = false) :
    scanPut r (e :: rest) s = prePut s r e := by
  unfold scanPut doPut
  simp only [hb, Bool.false_eq_true, if_false, hu]

theorem fcfs_get (r : ResId) (e : EvId) (rest : List EvId) (s : KState ℚ σ)
    (hb : getItem s r e = none) (hf : (s.res r).kind ≠ .fstore) (hu : s.triggered e = false) :
    scanGet r (e :: rest) s = s := by
  unfold scanGet doGet
  have : ((s.res r).kind == ResKind.fstore) = false := by
    cases hk : (s.res r).kind <;> first | rfl | exact absurd hk hf
  simp only [hb, this, Bool.false_eq_true, if_false, hu]

/-- **Cancelling rescans**: cancelling a pending put removes it from the queue and immediately re-evaluates the
requests behind it, so they are not stranded. -/
theorem cancel_rescans (s : KState ℚ σ) (e : EvId) (r : ResId) (hk : (s.ev e).kind = .put r)
    (hu : s.triggered e = false) (hq : (s.res r).putQ.contains e = true) :
    cancelReq s e = (triggerPut (dropPutQ s r e) r, none) := by
  unfold cancelReq
  simp only [hu, Bool.false_eq_true, if_false, hk, hq, if_true]

/-! ## ---- begin: "never strand a request" (global theorems, builder b-strand) ----

Vocabulary (`Lemmas/StrandDefs.lean`): `AboutToAdvance s` — the agenda is empty or its next entry is due strictly
later than `s.now`; `SInv s` — the invariant (for every resource: the oldest pending put/get is unsatisfiable or a
rescan of that queue is pending at the current instant, plus the structural facts that make this inductive);
`DReach body fuel s0 s` — reachable by kernel steps of program `body`, each step inside the domain `stepDom` (no
`succeed()/fail()` on a non-existent event or on a request still waiting in a queue); `NoTrigCalls` — the static
sufficient condition "the program never calls `succeed()/fail()`". -/

/-- **After a complete `_trigger_put` scan the oldest pending put cannot be satisfied** (Container: more than the free
room; Store: the store is full). -/
theorem put_scan_leaves_head_unsatisfiable (s : KState ℚ σ) (r : ResId) (h : Pkg s none) (e : EvId)
    (he : ((triggerPut s r).res r).putQ.head? = some e) :
    canPut (prePut (triggerPut s r) r e) r e = false :=
  (triggerPut_post h r).2.2.2.1 e he

/-- **After a complete `_trigger_get` scan the oldest pending get cannot be satisfied; for a `FilterStore` no pending
get at all has a matching item.** -/
theorem get_scan_leaves_head_unsatisfiable (s : KState ℚ σ) (r : ResId) (h : Pkg s none) :
    (∀ e, ((triggerGet s r).res r).getQ.head? = some e → getItem (triggerGet s r) r e = none) ∧
    (((triggerGet s r).res r).kind = .fstore → ∀ e ∈ ((triggerGet s r).res r).getQ, getItem (triggerGet s r) r e = none) :=
  (triggerGet_post h r).2.2.2.1

/-- **Cancelling keeps the invariant**: `cancel()` removes the request and rescans the queue in the same burst, so the
requests behind a cancelled one are re-evaluated at once (`rem` = callbacks of the current event still to run). -/
theorem cancel_keeps_invariant (s : KState ℚ σ) (rem : List Cb) (h : J s rem) (e : EvId) : J (cancelReq s e).1 rem :=
  (h.cancel e).1

/-- **The invariant, in every reachable state**: if the oldest pending put could be satisfied, a rescan of the put
queue is pending at the current instant; if the oldest pending get (for a `FilterStore`: any pending get) could be
satisfied, a rescan of the get queue is pending at the current instant. -/
theorem satisfiable_head_implies_rescan_pending (body : σ → Resume → Burst ℚ σ) (fuel : Nat) (s0 s : KState ℚ σ)
    (h0 : SInv s0) (hr : DReach body fuel s0 s) (r : ResId) :
    (∀ e, (s.res r).putQ.head? = some e → canPut (prePut s r e) r e = true →
      ∃ q ∈ s.agenda, q.time = s.now ∧ ∃ l, (s.ev q.ev).cbs = some l ∧ Cb.trigPut r ∈ l) ∧
    (∀ e, (s.res r).getQ.head? = some e ∨ ((s.res r).kind = .fstore ∧ e ∈ (s.res r).getQ) → getItem s r e ≠ none →
      ∃ q ∈ s.agenda, q.time = s.now ∧ ∃ l, (s.ev q.ev).cbs = some l ∧ Cb.trigGet r ∈ l) := by
  have h := reach_sinv body fuel s0 s h0 hr
  constructor
  · intro e he hfree
    rcases (h.j.main r).1 with hb | hp
    · have := hb e he
      unfold putOk at this
      rw [this] at hfree; cases hfree
    · rcases hp with hp | hp
      · cases hp
      · exact hp
  · intro e he hsat
    rcases (h.j.main r).2 with hb | hp
    · exfalso
      rcases he with he | ⟨hk, hm⟩
      · exact hsat (hb.1 e he)
      · exact hsat (hb.2 hk e hm)
    · rcases hp with hp | hp
      · cases hp
      · exact hp

/-- **Whenever the clock is about to advance, the oldest pending put and the oldest pending get genuinely cannot be
satisfied in the current state** (for a `FilterStore`: no pending get has a matching item) — for every program, every
reachable state, all of Container / Store / PriorityStore / FilterStore (and the Resource classes), also after other
requests have been cancelled. -/
theorem heads_unsatisfiable_at_advance (body : σ → Resume → Burst ℚ σ) (fuel : Nat) (s0 s : KState ℚ σ)
    (h0 : SInv s0) (hr : DReach body fuel s0 s) (ha : AboutToAdvance s) (r : ResId) :
    (∀ e, (s.res r).putQ.head? = some e → canPut (prePut s r e) r e = false) ∧
    (∀ e, (s.res r).getQ.head? = some e → getItem s r e = none) ∧
    ((s.res r).kind = .fstore → ∀ e ∈ (s.res r).getQ, getItem s r e = none) :=
  have h := sinv_advance (reach_sinv body fuel s0 s h0 hr) ha r
  ⟨h.1, h.2.1, h.2.2⟩

/-- **… in plain words for a Container**: the oldest pending put asks for more than the free room, the oldest pending
get for more than the level. -/
theorem container_heads_at_advance (body : σ → Resume → Burst ℚ σ) (fuel : Nat) (s0 s : KState ℚ σ)
    (h0 : SInv s0) (hr : DReach body fuel s0 s) (ha : AboutToAdvance s) (r : ResId) (hk : (s.res r).kind = .container) :
    (∀ e, (s.res r).putQ.head? = some e →
      ∃ c, (s.res r).capacity = some c ∧ (c : Int) - (s.res r).level < (reqOf s e).amount) ∧
    (∀ e, (s.res r).getQ.head? = some e → (s.res r).level < (reqOf s e).amount) := by
  obtain ⟨hp, hg, _⟩ := heads_unsatisfiable_at_advance body fuel s0 s h0 hr ha r
  constructor
  · intro e he
    have := hp e he
    rw [prePut_of_ne s r e (beq_preemptive_of_container hk)] at this
    unfold canPut at this
    simp only [hk] at this
    cases hc : (s.res r).capacity with
    | none => rw [hc] at this; cases this
    | some c =>
      rw [hc] at this
      simp only [decide_eq_false_iff_not, not_le] at this
      exact ⟨c, rfl, this⟩
  · intro e he
    have := hg e he
    unfold getItem at this
    simp only [hk] at this
    split at this
    · cases this
    · rename_i hlt; exact not_le.mp hlt

/-- **… in plain words for the stores**: a pending put at a clock advance means the store is full; a pending get on a
`Store`/`PriorityStore` means the store is empty; on a `FilterStore` no stored item passes the filter of any pending
get. -/
theorem store_heads_at_advance (body : σ → Resume → Burst ℚ σ) (fuel : Nat) (s0 s : KState ℚ σ)
    (h0 : SInv s0) (hr : DReach body fuel s0 s) (ha : AboutToAdvance s) (r : ResId)
    (hk : isStoreKind (s.res r).kind = true) :
    ((s.res r).putQ ≠ [] → ∃ c, (s.res r).capacity = some c ∧ c ≤ (s.res r).items.length) ∧
    ((s.res r).kind ≠ .fstore → (s.res r).getQ ≠ [] → (s.res r).items = []) ∧
    ((s.res r).kind = .fstore → ∀ e ∈ (s.res r).getQ, ∀ x ∈ (s.res r).items, filterOk (reqOf s e).filter x = false) := by
  obtain ⟨hp, hg, hf⟩ := heads_unsatisfiable_at_advance body fuel s0 s h0 hr ha r
  refine ⟨?_, ?_, ?_⟩
  · intro hq
    obtain ⟨e, rest, hqe⟩ := List.exists_cons_of_ne_nil hq
    have := hp e (by rw [hqe]; rfl)
    rw [prePut_of_ne s r e (not_preemptive_of_store hk)] at this
    have hroom : hasRoom (s.res r).capacity (s.res r).items.length = false := by
      unfold canPut at this
      unfold isStoreKind at hk
      cases hkk : (s.res r).kind <;> simp only [hkk] at this hk <;> first | exact this | exact absurd hk (by decide)
    cases hc : (s.res r).capacity with
    | none => rw [hc] at hroom; cases hroom
    | some c =>
      rw [hc, hasRoom_some] at hroom
      simp only [decide_eq_false_iff_not, not_lt] at hroom
      exact ⟨c, rfl, hroom⟩
  · intro hnf hq
    obtain ⟨e, rest, hqe⟩ := List.exists_cons_of_ne_nil hq
    have := hg e (by rw [hqe]; rfl)
    unfold getItem at this
    unfold isStoreKind at hk
    cases hkk : (s.res r).kind <;> simp only [hkk] at this hk hnf <;> first
      | exact absurd hk (by decide)
      | exact absurd rfl hnf
      | (simp only [Option.map_eq_none_iff] at this
         first
           | exact List.head?_eq_none_iff.mp this
           | exact listMin_eq_none _ this)
  · intro hkf e hm x hx
    have := hf hkf e hm
    rw [getItem_fstore s r e hkf] at this
    simp only [Option.map_eq_none_iff, List.find?_eq_none] at this
    simpa using this x hx

/-- **For programs that never call `succeed()/fail()` the domain hypothesis is automatic** (plain reachability `KReach`). -/
theorem heads_unsatisfiable_at_advance_static (body : σ → Resume → Burst ℚ σ) (hb : ∀ st rs, NoTrigCalls (body st rs))
    (fuel : Nat) (s0 s : KState ℚ σ) (h0 : SInv s0) (hr : KReach body fuel s0 s) (ha : AboutToAdvance s) (r : ResId) :
    (∀ e, (s.res r).putQ.head? = some e → canPut (prePut s r e) r e = false) ∧
    (∀ e, (s.res r).getQ.head? = some e → getItem s r e = none) ∧
    ((s.res r).kind = .fstore → ∀ e ∈ (s.res r).getQ, getItem s r e = none) :=
  heads_unsatisfiable_at_advance body fuel s0 s h0 (dreach_of_noTrig body hb fuel s0 s hr) ha r

/-! non-vacuity of the block above: `Container(capacity=10, init=7)` with a pending `put(5)` (event 0) at a moment
when nothing is scheduled: the invariant holds, the clock is about to advance, the head put is genuinely blocked. -/
example :
    let s : KState ℚ Unit :=
      { now := 0,
        events := #[{ kind := .put 0, cbs := some [.trigGet 0], out := none,
                      req := some { res := 0, amount := 5, time := 0 } }],
        resources := #[{ kind := .container, capacity := some 10, level := 7, putQ := [0] }] }
    SInv s ∧ AboutToAdvance s ∧ (s.res 0).putQ = [0] ∧ canPut (prePut s 0 0) 0 0 = false := by
  intro s
  have hev : ∀ x, s.ev x = if x = 0 then
        { kind := .put 0, cbs := some [.trigGet 0], out := none, req := some { res := 0, amount := 5, time := 0 } }
      else default := by
    intro x
    match x with
    | 0 => rfl
    | n + 1 => simp [s, KState.ev]
  have hres : ∀ r, s.res r = if r = 0 then { kind := .container, capacity := some 10, level := 7, putQ := [0] }
      else default := by
    intro r
    match r with
    | 0 => rfl
    | n + 1 => simp [s, KState.res]
  have hblocked : canPut (prePut s 0 0) 0 0 = false := by
    rw [prePut_of_ne s 0 0 (by rw [hres]; simp)]
    unfold canPut reqOf; rw [hres, hev]; decide
  refine ⟨⟨⟨(by intro q hq; cases hq), (by intro q hq; cases hq), List.Pairwise.nil⟩,
    ⟨⟨?_, ?_, ?_, ?_, ?_, ?_, ?_, ?_, ?_⟩, ?_, ?_⟩⟩, (by intro q rest hq; cases hq), (by rw [hres]; rfl), hblocked⟩
  · intro q hq; cases hq
  · intro p hp; exact absurd rfl hp
  · intro x l c hl hm
    rw [hev] at hl
    split at hl
    · simp only [Option.some.injEq] at hl; subst hl; simp at hm
    · cases hl
  · intro r e hm
    rw [hres] at hm
    split at hm
    · rename_i hr; subst hr
      simp only [List.mem_singleton] at hm; subst hm
      rw [hev]; exact ⟨rfl, Or.inl rfl, [.trigGet 0], rfl, List.mem_singleton.mpr rfl⟩
    · cases hm
  · intro r e hm
    rw [hres] at hm
    split at hm <;> cases hm
  · intro r; rw [hres]; split
    · simp
    · exact List.nodup_nil
  · intro r; rw [hres]; split <;> exact List.nodup_nil
  · intro r w hm
    rw [hres] at hm
    split at hm <;> cases hm
  · intro r c hk hc
    by_cases hr : r = 0
    · subst hr
      rw [hres]; exact Nat.zero_le _
    · rw [hres, if_neg hr]; exact Nat.zero_le _
  · intro c hc; cases hc
  · intro r
    refine ⟨Or.inl ?_, Or.inl ⟨?_, ?_⟩⟩
    · intro e he
      rw [hres] at he
      split at he
      · rename_i hr; subst hr
        simp only [List.head?_cons, Option.some.injEq] at he; subst he
        exact hblocked
      · cases he
    · intro e he
      rw [hres] at he
      split at he <;> cases he
    · intro _ e he
      rw [hres] at he
      split at he <;> cases he

/-! non-vacuity by a run (`Lemmas/StrandDemo.lean`): `Container(capacity=10, init=7)`; one process issues `put(5)`
(blocked) and will cancel it at time 1, a second one issues `put(1)` (queued behind).  After two kernel steps both are
queued and only the timeout at 1 is scheduled: all hypotheses hold and the head `put(5)` is indeed blocked.  Four steps
later (the cancel and what it triggered) the queue is empty and the level is 8: the `put(1)` was not stranded. -/
example : SInv Demo.conS0 ∧ DReach Demo.conBody 3 Demo.conS0 Demo.conS2 ∧ AboutToAdvance Demo.conS2 ∧
    (Demo.conS2.res 0).putQ.length = 2 ∧
    (∀ e, (Demo.conS2.res 0).putQ.head? = some e → canPut (prePut Demo.conS2 0 e) 0 e = false) ∧
    DReach Demo.conBody 3 Demo.conS0 Demo.conS6 ∧ AboutToAdvance Demo.conS6 ∧
    (Demo.conS6.res 0).putQ.length = 0 ∧ (Demo.conS6.res 0).level = 8 :=
  ⟨Demo.conS0_sinv, Demo.conS2_reach, Demo.conS2_advance, Demo.conS_facts.1,
    (heads_unsatisfiable_at_advance _ 3 _ _ Demo.conS0_sinv Demo.conS2_reach Demo.conS2_advance 0).1,
    Demo.conS6_reach, Demo.conS6_advance, Demo.conS_facts.2.2.1, Demo.conS_facts.2.2.2⟩

/-! ## ---- end: "never strand a request" ---- -/

/-! non-vacuity -/
example : listMin [5, 2, 9, 2] = some 2 := by decide

section ConserveBlock
open Conserve

/-! ## ===== b-conserve: global conservation theorems (whole runs, every program) — BEGIN =====

Vocabulary (`Lemmas/Conserve*.lean`).  A request event is *granted* exactly when it is triggered.
`grantedPuts s r` / `grantedGets s r`: the triggered put / get events of resource `r` in the event table of `s`;
`amountSum s l`: the sum of the amounts the requests in `l` carry; `putItems s r`: the items of the granted puts;
`gotItems s r`: the values `x` with which get events of `r` were triggered (`out = ok (int x)`).
`WF s0`: the initial state is well-formed (callbacks `check c`/`build c` name conditions, process-table entries name
process events, queues hold untriggered requests of their own resource, no duplicates) — `WF.init`: every fresh
environment is.  `SafeReach body fuel s0 s`: `s` is reachable from `s0` by kernel steps of program `body` during
which no `succeed`/`fail` API call of the program targets a request event (`stepOK`; the real `_do_put` would raise
"already triggered" there — outside the domain of C07).  `domain_covers_programs_without_succeed` shows the
hypothesis is met by every run of every program that never calls `succeed`/`fail`; the examples exhibit concrete runs. -/

/-- **A Container's level equals its initial level plus all granted puts minus all granted gets** — in every state
any program can reach from an environment in which no request has been issued yet. -/
theorem level_conservation (body : σ → Resume → Burst ℚ σ) (fuel : Nat) (s0 s : KState ℚ σ)
    (hW : WF s0) (h0 : ∀ e, isReq s0 e = false) (hr : SafeReach body fuel s0 s)
    (r : ResId) (hk : (s.res r).kind = .container) :
    (s.res r).level = (s0.res r).level + amountSum s (grantedPuts s r) - amountSum s (grantedGets s r) := by
  have h := reach_levelCons body fuel s0 s hW hr r hk
  rw [grantedPuts_noReq s0 r h0, grantedGets_noReq s0 r h0] at h
  simp only [amountSum, List.map_nil, List.sum_nil] at h
  have h' : (s.res r).level - amountSum s (grantedPuts s r) + amountSum s (grantedGets s r) = (s0.res r).level := by
    simpa [amountSum] using h
  omega

/-- **The same between any two states of a run**: `level − Σ granted puts + Σ granted gets` is a constant of every run. -/
theorem level_conservation_between (body : σ → Resume → Burst ℚ σ) (fuel : Nat) (s s' : KState ℚ σ)
    (hW : WF s) (hr : SafeReach body fuel s s') (r : ResId) (hk : (s'.res r).kind = .container) :
    (s'.res r).level - amountSum s' (grantedPuts s' r) + amountSum s' (grantedGets s' r) =
      (s.res r).level - amountSum s (grantedPuts s r) + amountSum s (grantedGets s r) :=
  reach_levelCons body fuel s s' hW hr r hk

/-- **Every item a Store / PriorityStore / FilterStore accepted is handed to exactly one getter exactly once**: as
multisets, items still held ⊎ items handed to getters = initial items ⊎ items of the granted puts. -/
theorem store_exactly_once (body : σ → Resume → Burst ℚ σ) (fuel : Nat) (s0 s : KState ℚ σ)
    (hW : WF s0) (h0 : ∀ e, isReq s0 e = false) (hr : SafeReach body fuel s0 s)
    (r : ResId) (hk : isStoreKind (s.res r).kind = true) :
    ((s.res r).items ++ gotItems s r).Perm ((s0.res r).items ++ putItems s r) := by
  have h := reach_storeCons body fuel s0 s hW hr r hk
  have hp0 : putItems s0 r = [] := by unfold putItems; rw [grantedPuts_noReq s0 r h0]; rfl
  rw [gotItems_noReq s0 r h0, hp0] at h
  simpa using h

/-- **A granted get of a store carries exactly one item** (its outcome is `ok (int x)` for one `x`). -/
theorem store_get_carries_one_item (body : σ → Resume → Burst ℚ σ) (fuel : Nat) (s0 s : KState ℚ σ)
    (hW : WF s0) (h0 : ∀ e, isReq s0 e = false) (hr : SafeReach body fuel s0 s)
    (r : ResId) (e : EvId) (hk : isStoreKind (s.res r).kind = true) (hg : (s.ev e).kind = .get r)
    (ht : (s.ev e).out ≠ none) : ∃ x, (s.ev e).out = some (.ok (.int x)) :=
  ((StoreRel.crel.reach body fuel s0 s hW hr).2 hW).2 (gotInt_noReq s0 h0) r e hk hg ht

/-- **A request is granted at most once: the outcome of a granted request never changes afterwards**, and neither do
its kind nor the data it carries (amount, item, priority, time, filter). -/
theorem granted_outcome_never_changes (body : σ → Resume → Burst ℚ σ) (fuel : Nat) (s0 s s' : KState ℚ σ)
    (hW : WF s0) (hr0 : SafeReach body fuel s0 s) (hr : SafeReach body fuel s s')
    (e : EvId) (hq : isReq s e = true) (ht : (s.ev e).out ≠ none) :
    (s'.ev e).out = (s.ev e).out ∧ (s'.ev e).kind = (s.ev e).kind ∧ coreOf s' e = coreOf s e := by
  have hWs := (reach_base body fuel s0 s hW hr0).2
  have hB := (reach_base body fuel s s' hWs hr).1
  have hlt := lt_size_of_isReq hq
  exact ⟨hB.outStable e hq ht, hB.kind e hlt, hB.core e hlt⟩

/-- **Queues only ever hold untriggered requests of their own resource, without duplicates** (so `trigger` is only
ever applied to an untriggered request: the scans grant queue members only), in every reachable state. -/
theorem queues_hold_pending_requests (body : σ → Resume → Burst ℚ σ) (fuel : Nat) (s0 s : KState ℚ σ)
    (hW : WF s0) (hr : SafeReach body fuel s0 s) (r : ResId) :
    (∀ e ∈ (s.res r).putQ, (s.ev e).kind = .put r ∧ (s.ev e).out = none) ∧ (s.res r).putQ.Nodup ∧
    (∀ e ∈ (s.res r).getQ, (s.ev e).kind = .get r ∧ (s.ev e).out = none) ∧ (s.res r).getQ.Nodup :=
  have h := (reach_base body fuel s0 s hW hr).2
  ⟨h.putQ r, h.putNodup r, h.getQ r, h.getNodup r⟩

/-- **The domain hypothesis is satisfiable by whole classes of programs**: for a program that never calls
`succeed`/`fail`, every reachable state is reachable inside the domain. -/
theorem domain_covers_programs_without_succeed (body : σ → Resume → Burst ℚ σ) (h : ∀ st rs, NoTrig (body st rs))
    (fuel : Nat) (s0 s : KState ℚ σ) (hr : KReach body fuel s0 s) : SafeReach body fuel s0 s :=
  safeReach_of_noTrig body h fuel s0 s hr

/-! non-vacuity: `Container(capacity=10, init=1)`, one process doing `put(3); put(2); get(4)`: two granted puts and one
granted get, level `1 + 3 + 2 − 4 = 2` -/
example : WF ExContainer.s0 ∧ (∀ e, isReq ExContainer.s0 e = false) ∧ SafeReach ExContainer.body 5 ExContainer.s0 ExContainer.s1 :=
  ⟨ExContainer.wf0, ExContainer.noReq0, ExContainer.reach⟩
example : (ExContainer.s1.res 0).kind = .container :=
  ((reach_base _ _ _ _ ExContainer.wf0 ExContainer.reach).1.resKind 0).trans rfl
example : (ExContainer.s0.res 0).level = 1 ∧ (ExContainer.s1.res 0).level = 2 ∧
    grantedPuts ExContainer.s1 0 = [2, 3] ∧ grantedGets ExContainer.s1 0 = [4] ∧
    amountSum ExContainer.s1 (grantedPuts ExContainer.s1 0) = 5 ∧ amountSum ExContainer.s1 (grantedGets ExContainer.s1 0) = 4 := by
  decide +kernel
/-! non-vacuity: `Store(capacity=2)`, `put(7); put(5); put(9); get()`: after four kernel steps the third put has been
granted by the rescan the get caused; the getter holds 7, the store holds 5 and 9 -/
example : WF ExStore.s0 ∧ (∀ e, isReq ExStore.s0 e = false) ∧ SafeReach ExStore.body 5 ExStore.s0 ExStore.s4 :=
  ⟨ExStore.wf0, ExStore.noReq0, ExStore.reach4⟩
example : isStoreKind (ExStore.s4.res 0).kind = true ∧ (ExStore.s4.res 0).items = [5, 9] ∧ gotItems ExStore.s4 0 = [7] ∧
    putItems ExStore.s4 0 = [7, 5, 9] ∧ (ExStore.s1.res 0).putQ = [4] ∧ (ExStore.s4.res 0).putQ = [] := by
  decide +kernel

/-! ### b-conserve, part 2: first come first served, along whole runs

`Before l a b`: `a` stands before `b` in `l`.  `AUnit t t'`: one atomic unit of the model with the guard under which
the model executes it (see `Lemmas/ConserveTrace.lean`); every run is a finite sequence of such units
(`C06.run_is_unit_sequence`). -/

/-- **Put queues and get queues of containers and stores are in creation order (event ids increasing)** and hold only
waiting requests of their own resource, each once — in every reachable state. -/
theorem queues_in_creation_order (body : σ → Resume → Burst ℚ σ) (fuel : Nat) (s0 s : KState ℚ σ)
    (hW : WF s0) (hS : QSorted s0) (hr : SafeReach body fuel s0 s) (r : ResId) (hk : isPrioKind (s.res r).kind = false) :
    (s.res r).putQ.Pairwise (fun a b => a < b) ∧ (s.res r).getQ.Pairwise (fun a b => a < b) := by
  have h := (reach_queue body fuel s0 s hW hr).2 hS
  refine ⟨?_, h.get r⟩
  have := h.put r
  rw [hk] at this
  exact this.imp (fun hab => by unfold rankLt at hab; simpa using hab)

/-- **Put requests are served first come first served, along whole runs**: if put `a` is queued before put `b` in some
reachable state, then in every later state in which `b` has been granted, `a` has been granted too, or was cancelled. -/
theorem fcfs_put_global (body : σ → Resume → Burst ℚ σ) (fuel : Nat) (s0 s s' : KState ℚ σ)
    (hW : WF s0) (hr0 : SafeReach body fuel s0 s) (hr : SafeReach body fuel s s') (r : ResId) (a b : EvId)
    (hab : Before (s.res r).putQ a b) (hb : (s'.ev b).out ≠ none) :
    (s'.ev a).out ≠ none ∨ (a ∉ (s'.res r).putQ ∧ (s'.ev a).out = none) :=
  have hWs := (reach_base body fuel s0 s hW hr0).2
  ((reach_queue body fuel s s' hWs hr).1.put r).order trivial a b hab hb

/-- **Get requests are served first come first served, along whole runs — for every class except FilterStore.** -/
theorem fcfs_get_global (body : σ → Resume → Burst ℚ σ) (fuel : Nat) (s0 s s' : KState ℚ σ)
    (hW : WF s0) (hr0 : SafeReach body fuel s0 s) (hr : SafeReach body fuel s s') (r : ResId) (a b : EvId)
    (hf : (s.res r).kind ≠ .fstore) (hab : Before (s.res r).getQ a b) (hb : (s'.ev b).out ≠ none) :
    (s'.ev a).out ≠ none ∨ (a ∉ (s'.res r).getQ ∧ (s'.ev a).out = none) :=
  have hWs := (reach_base body fuel s0 s hW hr0).2
  ((reach_queue body fuel s s' hWs hr).1.get r).order hf a b hab hb

/-- **A cancelled request (put or get) is never granted and never re-enters its queue; requests that stay queued keep
their relative order** — for every class, FilterStore included. -/
theorem cancelled_stays_cancelled (body : σ → Resume → Burst ℚ σ) (fuel : Nat) (s0 s s' : KState ℚ σ)
    (hW : WF s0) (hr0 : SafeReach body fuel s0 s) (hr : SafeReach body fuel s s') (r : ResId) :
    (∀ a, (s.ev a).kind = .put r → a ∉ (s.res r).putQ → (s.ev a).out = none → a ∉ (s'.res r).putQ ∧ (s'.ev a).out = none) ∧
    (∀ a, (s.ev a).kind = .get r → a ∉ (s.res r).getQ → (s.ev a).out = none → a ∉ (s'.res r).getQ ∧ (s'.ev a).out = none) ∧
    (∀ a b, Before (s.res r).getQ a b → a ∈ (s'.res r).getQ → b ∈ (s'.res r).getQ → Before (s'.res r).getQ a b) :=
  have hWs := (reach_base body fuel s0 s hW hr0).2
  have h := (reach_queue body fuel s s' hWs hr).1
  ⟨(h.put r).dead, (h.get r).dead, (h.get r).keep⟩

/-- **A put is granted only while it is the oldest waiting put and `_do_put`'s guard holds** (the only atomic unit
that triggers a waiting put request is `_do_put` on the head of the queue). -/
theorem put_granted_only_at_head (t t' : KState ℚ σ) (h : AUnit t t') (r : ResId) (e : EvId)
    (hk : (t.ev e).kind = .put r) (ho : (t.ev e).out = none) (ho' : (t'.ev e).out ≠ none) :
    ∃ rest, (t.res r).putQ = e :: rest ∧ canPut t r e = true ∧ t' = grantPutSt t r e :=
  h.grant_put hk ho ho'

/-- **A get is granted only in its turn; only FilterStore lets a later getter overtake, and only getters whose filter
matches nothing**: at the moment get `e` is granted it can be served (`getItem = some v`), it receives `v`, and every
queue member in front of it belongs to a FilterStore and matches no item at that moment. -/
theorem get_granted_only_in_turn (t t' : KState ℚ σ) (h : AUnit t t') (r : ResId) (e : EvId)
    (hk : (t.ev e).kind = .get r) (ho : (t.ev e).out = none) (ho' : (t'.ev e).out ≠ none) :
    ∃ v pre rest, (t.res r).getQ = pre ++ e :: rest ∧ getItem t r e = some v ∧ (t'.ev e).out = some (.ok v) ∧
      (∀ a ∈ pre, (t.res r).kind = .fstore ∧
        (t.res r).items.find? (filterOk (reqOf t a).filter) = none) ∧
      ((t.res r).kind ≠ .fstore → pre = []) := by
  obtain ⟨v, pre, rest, hq, hg, hp, hs⟩ := h.grant_get hk ho ho'
  have hWt : WF t := by cases h <;> assumption
  refine ⟨v, pre, rest, hq, hg, ?_, ?_, ?_⟩
  · rw [hs]; exact (Base.getEffect_of_guard hWt hq hg).outE
  · intro a ha
    obtain ⟨hf, hn⟩ := hp a ha
    refine ⟨hf, ?_⟩
    unfold getItem at hn
    simp only [hf, Option.map_eq_none_iff] at hn
    exact hn
  · intro hf
    cases pre with
    | nil => rfl
    | cons p ps => exact absurd (hp p List.mem_cons_self).1 hf

/-- **PriorityStore hands out a smallest item, at every grant of every run**: at the moment a get of a PriorityStore
is granted, the value it receives is an item of the store and no item of the store is smaller. -/
theorem pstore_grant_is_min (t t' : KState ℚ σ) (h : AUnit t t') (r : ResId) (e : EvId)
    (hk : (t.ev e).kind = .get r) (ho : (t.ev e).out = none) (ho' : (t'.ev e).out ≠ none)
    (hp : (t.res r).kind = .pstore) :
    ∃ m, (t'.ev e).out = some (.ok (.int m)) ∧ m ∈ (t.res r).items ∧ ∀ y ∈ (t.res r).items, m ≤ y := by
  obtain ⟨v, pre, rest, _, hg, hout, _, _⟩ := get_granted_only_in_turn t t' h r e hk ho ho'
  obtain ⟨m, hv, hm⟩ := pstore_smallest_first t r e v hp hg
  exact ⟨m, by rw [hout, hv], hm⟩

/-- **Along every run, every granted get was granted in its turn and received what `_do_get` selects at that moment**:
if get `e` waits in a reachable state `s` and has been granted in a later state `s'`, the run passed through a state `t`
in which `e` could be served with `v` (`getItem`: oldest item for Store, a smallest for PriorityStore, first match for
FilterStore), every queue member in front of `e` belonged to a FilterStore and matched no item, and `e`'s outcome in
`s'` is `v`. -/
theorem every_get_grant_was_in_turn (body : σ → Resume → Burst ℚ σ) (fuel : Nat) (s0 s s' : KState ℚ σ)
    (hW : WF s0) (hr0 : SafeReach body fuel s0 s) (hr : SafeReach body fuel s s') (r : ResId) (e : EvId)
    (hk : (s.ev e).kind = .get r) (ho : (s.ev e).out = none) (ho' : (s'.ev e).out ≠ none) :
    ∃ t v pre rest, UnitSeq s t ∧ UnitSeq (grantGetSt t r e v) s' ∧ (t.res r).getQ = pre ++ e :: rest ∧
      getItem t r e = some v ∧ (∀ a ∈ pre, (t.res r).kind = .fstore ∧ getItem t r a = none) ∧ (t.ev e).out = none ∧
      (s'.ev e).out = some (.ok v) :=
  have hWs := (reach_base body fuel s0 s hW hr0).2
  (reach_units body fuel s s' hWs hr).grant_get_moment hk ho ho'

/-- **Along every run, a granted get of a PriorityStore received a smallest item of the store at the moment of the grant.** -/
theorem pstore_smallest_first_global (body : σ → Resume → Burst ℚ σ) (fuel : Nat) (s0 s s' : KState ℚ σ)
    (hW : WF s0) (hr0 : SafeReach body fuel s0 s) (hr : SafeReach body fuel s s') (r : ResId) (e : EvId)
    (hp : (s.res r).kind = .pstore)
    (hk : (s.ev e).kind = .get r) (ho : (s.ev e).out = none) (ho' : (s'.ev e).out ≠ none) :
    ∃ t m, UnitSeq s t ∧ UnitSeq (grantGetSt t r e (.int m)) s' ∧ (s'.ev e).out = some (.ok (.int m)) ∧
      m ∈ (t.res r).items ∧ ∀ y ∈ (t.res r).items, m ≤ y := by
  obtain ⟨t, v, pre, rest, ht, ht', _, hg, _, _, hout⟩ :=
    every_get_grant_was_in_turn body fuel s0 s s' hW hr0 hr r e hk ho ho'
  have hpt : (t.res r).kind = .pstore := by rw [ht.base.resKind]; exact hp
  obtain ⟨m, hv, hm⟩ := pstore_smallest_first t r e v hpt hg
  subst hv
  exact ⟨t, m, ht, ht', hout, hm⟩

/-! non-vacuity: in the Store run above the put of 9 (event 4) waits in `s1`, and is granted in `s4` -/
example : (ExStore.s1.ev 4).kind = .put 0 ∧ ExStore.s1.triggered 4 = false ∧ ExStore.s4.triggered 4 = true ∧
    (ExStore.s1.res 0).putQ = [4] := by decide +kernel

/-! ### b-conserve, part 3: a Store is first-in first-out across the whole run -/

/-- **Store hands items out in insertion order, across the whole run**: as lists, the initial items followed by the
items of the granted puts (in creation order of the puts — which is the order in which a Store grants them,
`fcfs_put_global`) equal the items handed to the getters (in creation order of the gets — the order in which they are
granted, `fcfs_get_global`) followed by the items still held. -/
theorem store_fifo_global (body : σ → Resume → Burst ℚ σ) (fuel : Nat) (s0 s : KState ℚ σ)
    (hW : WF s0) (hS : QSorted s0) (h0 : ∀ e, isReq s0 e = false) (hr : SafeReach body fuel s0 s)
    (r : ResId) (hk : (s.res r).kind = .store) :
    (s0.res r).items ++ putItems s r = gotItems s r ++ (s.res r).items :=
  reach_fifo body fuel s0 s hW hS h0 hr r hk

/-- **The k-th granted get of a Store receives the k-th accepted item.** -/
theorem store_kth_get_receives_kth_item (body : σ → Resume → Burst ℚ σ) (fuel : Nat) (s0 s : KState ℚ σ)
    (hW : WF s0) (hS : QSorted s0) (h0 : ∀ e, isReq s0 e = false) (hr : SafeReach body fuel s0 s)
    (r : ResId) (hk : (s.res r).kind = .store) (k : Nat) (hlt : k < (gotItems s r).length) :
    (gotItems s r)[k]? = ((s0.res r).items ++ putItems s r)[k]? := by
  rw [store_fifo_global body fuel s0 s hW hS h0 hr r hk, List.getElem?_append_left hlt]

/-! non-vacuity: the Store run above: accepted `[7, 5, 9]` = handed out `[7]` ++ held `[5, 9]` -/
example : QSorted ExStore.s0 := ExStore.sorted0
example : (ExStore.s4.res 0).kind = .store :=
  ((reach_base _ _ _ _ ExStore.wf0 ExStore.reach4).1.resKind 0).trans rfl
example : (ExStore.s0.res 0).items ++ putItems ExStore.s4 0 = [7, 5, 9] ∧
    gotItems ExStore.s4 0 ++ (ExStore.s4.res 0).items = [7, 5, 9] := by decide +kernel

/-! ### b-conserve: the domain hypothesis is neither vacuous nor dispensable

* a program that calls `succeed` on a *plain* event and then uses a container is inside the domain (`stepOK` is
  decidable: `Lemmas/ConserveDecide.lean`), and conservation holds for its run;
* a program that calls `succeed` on its own waiting `ContainerPut(20)` is outside the domain, and for that run the
  conservation equation is indeed false in the model (level 1, "granted" puts 20): the hypothesis cannot be dropped. -/
example : WF ExSucceed.s0 ∧ (∀ e, isReq ExSucceed.s0 e = false) ∧ SafeReach ExSucceed.body 5 ExSucceed.s0 ExSucceed.s1 :=
  ⟨ExSucceed.wf0, ExSucceed.noReq0, ExSucceed.reach⟩
example : (ExSucceed.s1.res 0).level = 4 ∧ amountSum ExSucceed.s1 (grantedPuts ExSucceed.s1 0) = 3 ∧
    grantedGets ExSucceed.s1 0 = [] := by decide +kernel
example : ¬ stepOK ExBad.body 5 ExBad.s0 := by decide +kernel
example : (ExBad.s0.res 0).level = 1 ∧ (ExBad.s1.res 0).level = 1 ∧ amountSum ExBad.s1 (grantedPuts ExBad.s1 0) = 20 ∧
    grantedGets ExBad.s1 0 = [] := by decide +kernel

/-! ## ===== b-conserve — END ===== -/
end ConserveBlock

end C07
