import OnlVerif.Lemmas.GenKernelRes6
/-!
# KernelGen06 - the resource classes *as written in the source* are the kernel model `K` (C06)

One of the bridge modules into which `Props/KernelGen.lean` was split, one per owning property (`py2lean/SCOPE.md`): `py2lean/kernel.py`
regenerates the `Generated/Kernel*.lean` files named in the imports from `onl/sim` on every `./check` of the owning property, and the
theorems below (bridge theorems) prove that the generated definitions coincide with the functions of the hand-written kernel
model `K` (`Kernel/Agenda.lean`, `Ops.lean`, `Step.lean`) that the property theorems are about.  A flipped comparison, a changed
constant, priority or refusal, a lost or reordered effect in the source changes a generated definition and one of these proofs
no longer compiles - for every input, not for sampled ones.  Here: `hasRoom`, `canPut` / `applyPut` (= `doPut`), `keyLt`, `preemptStep`, `doGet` of `Resource`, `PriorityResource`, `PreemptiveResource` (C06).

The encoding between the generated object views and the model state is explicit and hand-written
(`OnlVerif/Lemmas/GenKernelDefs.lean`: `resObj`, `runEff`, `buildEvent`, `applyTrig`, `toEntry`; the `run…` functions next to the
lemmas).  All statements hold for every scalar type `τ` (no arithmetic identity is used), in particular for `ℚ` and `Float`.
This module imports no generated file of another property.
-/

namespace KernelGen
open GenKernel
variable {τ σ : Type} [Num τ]

/-! ## resources (C06) -/

/-- **`Resource._do_put` as written in the source is the model's `doPut`** (free-slot test `hasRoom`, `canPut`; effects
`applyPut`: `users.append(event)`, `usage_since = now`, `succeed()`) for `Resource` and `PriorityResource`: running the
translated method on the object view of the state, performing its effect list in program order and pairing the result
with the returned bool gives exactly `doPut s r e`. -/
theorem resource_do_put_generated_eq_model (s : KState τ σ) (r : ResId) (e : EvId)
    (hk : (s.res r).kind = .resource ∨ (s.res r).kind = .priority) :
    runResourcePut { r := r, e := e } s = some (doPut s r e) :=
  resource_put_run s r e hk

/-- **the free-slot test of `Resource._do_put` is `hasRoom`**: the translated method returns `True` exactly when
`len(users) < capacity` in the model's sense (`capacity = inf` always has room). -/
theorem resource_guard_generated_eq_model (rr : ResRec) (n : Nat) :
    (Gen.Resource.do_put (resObj (τ := τ) rr) (n : Int)).ret = hasRoom rr.capacity n :=
  resource_guard rr n

/-- **`Resource._do_get` (release) as written in the source is the model's `doGet`** for the three resource classes:
remove the released request from `users` if it is there, `succeed()`, return `True`. -/
theorem resource_do_get_generated_eq_model (s : KState τ σ) (r : ResId) (e : EvId)
    (hk : (s.res r).kind = .resource ∨ (s.res r).kind = .priority ∨ (s.res r).kind = .preemptive) :
    runResourceGet { r := r, e := e } s = some (doGet s r e) :=
  resource_get_run s r e hk

/-- **`PriorityRequest.key` as written in the source orders requests like the model's `keyLt`**: Python's tuple `<` on the
generated key `(priority, time, not preempt)` is `keyLt`. -/
theorem priority_key_generated_eq_model (a b : ReqData τ) : keyLt a b = Py.keyLt (keyOf a) (keyOf b) :=
  keyLt_eq a b

/-- **`PreemptiveResource._do_put` as written in the source is the model's `doPut`** (`preemptStep`, then the common
`_do_put`): the eviction test `len(users) >= capacity and event.preempt`, the comparison `preempt.key > event.key`,
`users.remove(preempt)` and the interrupt of the victim's process, then `Resource._do_put`.  `w` is the victim
`sorted(users, key=key)[-1]` (`worstUser`, a landmark) whenever there is a user; the capacity is not 0
(`Resource.__init__` refuses it). -/
theorem preemptive_do_put_generated_eq_model (s : KState τ σ) (r : ResId) (e w : EvId) (hk : (s.res r).kind = .preemptive)
    (hw : ∀ w', worstUser s (s.res r).users = some w' → w' = w) (hcap : (s.res r).capacity ≠ some 0) :
    runPreemptStep { r := r, e := e, w := w } s = some (preemptStep s r e) ∧
    runPreemptivePut { r := r, e := e, w := w } s = some (doPut s r e) :=
  ⟨preemptive_pre_put s r e w hw hcap, preemptive_do_put s r e w hk hw hcap⟩

/-- **the guard of `Resource._do_put` as written in the source is the model's `canPut`** for the three resource classes: the bool
the translated `_do_put` returns in state `s` is `canPut s r e` (a free slot).  (First conjunct of the former
`put_guards_generated_eq_model`; the container / store conjuncts are `KernelGen.put_guards_generated_eq_model` in
`Props/KernelGen07.lean`.) -/
theorem resource_put_guard_generated_eq_model (s : KState τ σ) (r : ResId) (e : EvId) :
    ((s.res r).kind = .resource ∨ (s.res r).kind = .priority ∨ (s.res r).kind = .preemptive →
      (Gen.Resource.do_put (resObj (τ := τ) (s.res r)) (s.res r).users.length).ret = canPut s r e) :=
  fun hk => (resource_do_put_at s r e 0 hk).2

/-! ## non-vacuity: the generated definitions on concrete objects -/

/-- a full `Resource` (capacity 1, one user) refuses; with a free slot it grants with the three effects in order -/
example : (Gen.Resource.do_put (resObj (τ := Rat) { kind := .resource, capacity := some 1, users := [3] }) 1).ret = false ∧
    ((Gen.Resource.do_put (resObj (τ := Rat) { kind := .resource, capacity := some 2, users := [3] }) 1).eff.length = 3) := by
  decide

/-- a preempting request with a better key evicts: remove + interrupt; with an equal key it does not -/
example : (Gen.PreemptiveResource.pre_put (resObj (τ := Rat) { kind := .preemptive, capacity := some 1, users := [3] }) 1 true
      (Gen.PriorityRequest.key 0 (2 : Rat) true) (Gen.PriorityRequest.key 1 (1 : Rat) true)).eff.length = 2 ∧
    (Gen.PreemptiveResource.pre_put (resObj (τ := Rat) { kind := .preemptive, capacity := some 1, users := [3] }) 1 true
      (Gen.PriorityRequest.key 1 (1 : Rat) true) (Gen.PriorityRequest.key 1 (1 : Rat) true)).eff.length = 0 := by
  decide

end KernelGen
