import OnlVerif.Lemmas.Scalar
import OnlVerif.Net.TBOnK
/-!
# C11 on the kernel: the TokenBucket *as a process on the kernel model*

`OnlVerif/Net/TBOnK.lean` writes `TokenBucket.run` and a packet source (`yield env.timeout(gap); shaper.put(packet)` for
every arrival) as a program of the kernel model `K` (`OnlVerif/Kernel`).  Nothing is assumed about scheduling:
`Environment.step` of the kernel model decides what runs when.
-/

namespace C11K
open TBOnK

/-! ### concrete runs of the kernel model, evaluated by the kernel of Lean (exact arithmetic) -/

/-- one byte of tokens per time unit, a bucket of 3 -/
def slow : TbCfg ℚ := { rate := 8, bucket := 3, peak := none }
/-- the same with a peak rate of two bytes per time unit -/
def slowPeak : TbCfg ℚ := { rate := 8, bucket := 3, peak := some 16 }
def two : Int → Nat := fun _ => 2

/-- what a finished run shows: entries left in the agenda, the departures, and the packets the oracle still waits for -/
def runTB (cfg : TbCfg ℚ) (n : Nat) (arr : List ℚ) : Option (Nat × List (Int × ℚ) × Option Nat) :=
  (finalState (runAll (body two cfg) 1 n (initState cfg arr))).map fun s =>
    (s.agenda.length, outsOf s.trace, (orun two cfg (oInit cfg) (histOf s.trace)).map (·.waiting.length))

/-- a burst of three packets of 2 bytes at 0, then arrivals at 1 and 6: the first passes at once (the bucket holds 3), the
second waits one time unit for its missing byte, the others two each (the bucket is empty after every wait); the packet
arriving at 6 finds the server busy until 5 and one byte in the bucket: it leaves at 7.  The oracle accepts the history. -/
example : runTB slow 40 [0, 0, 0, 1, 5] = some (0, [(0, 0), (1, 1), (2, 3), (3, 5), (4, 7)], some 0) := by
  decide +kernel

/-- with a peak rate every packet is held for `size·8/peak = 1` more -/
example : runTB slowPeak 40 [0, 0, 0, 1, 5] = some (0, [(0, 1), (1, 2), (2, 4), (3, 6), (4, 8)], some 0) := by
  decide +kernel

/-- the oracle is not vacuous: it rejects a departure that is too early, too late, or out of order -/
example : orun two slow (oInit slow) [.put 0 0, .put 1 0, .out 0 0, .out 1 1] ≠ none ∧
    orun two slow (oInit slow) [.put 0 0, .put 1 0, .out 0 0, .out 1 (1/2)] = none ∧
    orun two slow (oInit slow) [.put 0 0, .put 1 0, .out 0 0, .out 1 2] = none ∧
    orun two slow (oInit slow) [.put 0 0, .put 1 0, .out 1 0] = none := by
  decide +kernel

end C11K
