import OnlVerif.Lemmas.TBKRefine
import OnlVerif.Props.C11
/-!
# C11 on the kernel: the TokenBucket *as a process on the kernel model*

`OnlVerif/Net/TBOnK.lean` writes `TokenBucket.run` and a packet source (`yield env.timeout(gap); shaper.put(packet)` for
every arrival) as a program of the kernel model `K` (`OnlVerif/Kernel`).  Nothing is assumed about scheduling:
`Environment.step` of the kernel model decides what runs when (the store's `StorePut` / `StoreGet` events, the source's
timeouts, the shaper's two timeouts).  The theorems below are the token-bucket recurrence of C11 for kernel runs, with **no**
admissibility assumption.

Scope: one `TokenBucket` with `rate > 0`, `bucket_size ≥ 0`, `peak` `None`, `0` or positive, an `out` attached; one source
process with non-negative gaps (zero gaps = bursts, and arrivals exactly at release instants, included); packets of any
sizes (also larger than the bucket); exact rational time; `fuel + 1` = any positive bound of the `_resume` loop.
-/

namespace C11K
open TBOnK TBK

/-- **What the oracle accepts** (`TBOnK.ostep` at exact rational time, spelled out): an `out id t` observation is accepted
in oracle state `o` iff `id` is the oldest waiting packet — put at `tp`, say — and `t` is the departure instant the
recurrence prescribes (`oOut`); then the level and its update instant become what the recurrence prescribes and the server
is free from `t`. -/
theorem oracle_accepts_iff (size : Int → Nat) (cfg : TbCfg ℚ) (o : OSt ℚ) (id : Int) (t : ℚ) :
    (ostep size cfg o (.out id t)).isSome ↔ ∃ tp rest, o.waiting = (id, tp) :: rest ∧ t = (oOut size cfg o id tp).1 := by
  simp only [ostep]
  cases hw : o.waiting with
  | nil => simp
  | cons x rest =>
    obtain ⟨id', tp⟩ := x
    simp only [eqT_iff, List.cons.injEq, Prod.mk.injEq]
    constructor
    · intro h
      split at h
      · rename_i hc
        obtain ⟨rfl, h2⟩ := hc
        exact ⟨tp, rest, ⟨⟨rfl, rfl⟩, rfl⟩, h2⟩
      · simp at h
    · rintro ⟨tp', rest', ⟨⟨rfl, rfl⟩, rfl⟩, h2⟩
      rw [if_pos ⟨rfl, h2⟩]
      rfl

/-- **The recurrence, one packet at a time** (`oOut` spelled out): a packet of `size` bytes put at `tp`, with the server free
from `free`, the level `level` last updated at `upd`, reaches the head at `g = max(free, tp)`; the bucket is refilled to
`L = min(bucket, level + rate·(g − upd)/8)`; if `L < size` it waits `(size − L)·8/rate`, after which the level is `0`,
otherwise the level becomes `L − size` at once; with a truthy `peak` it is held `size·8/peak` longer. -/
theorem recurrence_step (size : Int → Nat) (cfg : TbCfg ℚ) (o : OSt ℚ) (id : Int) (tp : ℚ) :
    let g := max o.free tp
    let L := min cfg.bucket (o.level + cfg.rate * (g - o.upd) / 8)
    let hold (x : ℚ) : ℚ := match TokenBucket.peakOn cfg with
      | some k => x + (size id : ℚ) * 8 / k
      | none => x
    oOut size cfg o id tp =
      if L < (size id : ℚ) then (hold (g + ((size id : ℚ) - L) * 8 / cfg.rate), 0, g + ((size id : ℚ) - L) * 8 / cfg.rate)
      else (hold g, L - (size id : ℚ), g) := by
  intro g L hold
  have hL : Num.pymin cfg.bucket (o.level + cfg.rate * (g - o.upd) / Num.ofNat 8) = L := by
    simp only [Num.pymin_eq, Num.ofNat_rat]; norm_num [L]
  have hg : Num.pymax o.free tp = g := Num.pymax_eq _ _
  unfold oOut
  simp only [hg]
  simp only [hL]
  by_cases h : L < (size id : ℚ)
  · have h' : L < Num.ofNat (size id) := by rw [Num.ofNat_rat]; exact h
    simp only [h, h', if_true]
    cases hp : TokenBucket.peakOn cfg <;>
      simp [hold, hp, TokenBucket.tokenWait, TokenBucket.peakWait, pktOf, Num.ofNat_rat, zero_eq']
  · have h' : ¬ L < Num.ofNat (size id) := by rw [Num.ofNat_rat]; exact h
    simp only [h, h', if_false]
    cases hp : TokenBucket.peakOn cfg <;>
      simp [hold, hp, TokenBucket.tokenWait, TokenBucket.peakWait, pktOf, Num.ofNat_rat, zero_eq']

/-- **The history of every kernel run passes the oracle, step by step, and no step crashes**: at every state reachable by
kernel steps the next `Environment.step` processes an event normally or finds the agenda empty, and the `put` / `out`
observations recorded so far are accepted by `TBOnK.orun` from the state of a fresh shaper: every packet that has left did
so in arrival order and exactly at the instant the token-bucket recurrence prescribes. -/
theorem tb_on_kernel_history_accepted (size : Int → Nat) (cfg : TbCfg ℚ) (arrivals : List ℚ) (hg : GapsOK arrivals)
    (hgood : TokenBucket.Good cfg) (hpk : PeakOK cfg) (fuel : Nat) (s : KState ℚ (TbS ℚ))
    (hreach : KReach (body size cfg) (fuel + 1) (initState cfg arrivals) s) :
    ((∃ s', step (body size cfg) (fuel + 1) s = .ok s') ∨ step (body size cfg) (fuel + 1) s = .empty) ∧
    ∃ o, orun size cfg (oInit cfg) (histOf s.trace) = some o := by
  obtain ⟨a, hi⟩ := reach_inv3 (size := size) fuel hg hgood hpk hreach
  refine ⟨?_, ?_⟩
  · cases hp : popMin s.agenda with
    | none => right; simp [step, hp]
    | some qr =>
      obtain ⟨q, rest⟩ := qr
      obtain ⟨s', _, _, h1, _⟩ := inv3_step fuel hi hp
      exact Or.inl ⟨s', h1⟩
  · obtain ⟨o, ho⟩ := hi.o
    exact ⟨o, ho.run⟩

/-- **The token-bucket recurrence holds for the TokenBucket as a kernel process, for every workload, with no admissibility
assumption.**  For every `rate > 0`, `bucket_size ≥ 0`, `peak` (`None`, `0` or positive), all packet sizes and every finite
arrival list with non-negative gaps: `run()` of the kernel model on the two spawned processes returns (agenda empty, no
exception) within `6·n + 4` steps; it has handed exactly the workload to `put` (packet `k` at the sum of the first `k + 1`
gaps); and its `put` / `out` history is accepted by the oracle and leaves nothing waiting — every packet was forwarded, in
arrival order, exactly at the instant the recurrence prescribes (`oracle_accepts_iff`, `recurrence_step`). -/
theorem tb_on_kernel_releases (size : Int → Nat) (cfg : TbCfg ℚ) (arrivals : List ℚ) (hg : GapsOK arrivals)
    (hgood : TokenBucket.Good cfg) (hpk : PeakOK cfg) (fuel n : Nat) (hn : 6 * arrivals.length + 4 ≤ n) :
    ∃ sF o, runAll (body size cfg) (fuel + 1) n (initState cfg arrivals) = .returned .none sF ∧ sF.agenda = [] ∧
      obsPuts (histOf sF.trace) = arrivalsFrom 0 0 arrivals ∧
      orun size cfg (oInit cfg) (histOf sF.trace) = some o ∧ o.waiting = [] := by
  obtain ⟨sF, aF, h1, h2, h3, -⟩ := run_returns3 fuel (initState cfg arrivals) n _ _
    (inv3_init (size := size) hg hgood hpk) (by rw [a0_mu]; omega) KReach.init
  obtain ⟨o, g1, g2, g3⟩ := inv3_final h2 h3
  exact ⟨sF, o, h1, h3, g3, g1, g2⟩

/-! ### refinement: the kernel run is an admissible run of the FifoServer LTS of the shaper -/

/-- **Refinement, step by step**: let `s` be reachable by kernel steps from the initial state and let the next kernel step
end in `s'`.  Then that step is a normal one (`.ok`), and whatever values the ghost fields (`log`, `outLog`) of the LTS's
device state hold, there is a (possibly empty) sequence of LTS actions that the shaper's LTS (`Net/Fifo.lean` with
`TokenBucket.dev`) *accepts* from the abstraction of `s` and that ends in the abstraction of `s'` (with some ghost values):
the step commutes with `absTB`; the packets that enter / leave in it are those the kernel step reports. -/
theorem tb_on_kernel_step_refines (size : Int → Nat) (cfg : TbCfg ℚ) (arrivals : List ℚ) (hg : GapsOK arrivals)
    (hgood : TokenBucket.Good cfg) (hpk : PeakOK cfg) (fuel : Nat) (s s' : KState ℚ (TbS ℚ))
    (hreach : KReach (body size cfg) (fuel + 1) (initState cfg arrivals) s)
    (hstep : (step (body size cfg) (fuel + 1) s).state? = some s') :
    step (body size cfg) (fuel + 1) s = .ok s' ∧
    ∃ new, histOf s'.trace = histOf s.trace ++ new ∧
      ∀ lg ol, ∃ lg' ol' acts, Fifo.runActs (TokenBucket.dev cfg) (setGhost (absTB size s) lg ol) acts =
        .ok (setGhost (absTB size s') lg' ol', putIds new, outIds new) := by
  obtain ⟨a, _, _, _, hi, hsent, _⟩ := reach_lts (size := size) fuel hg hgood hpk hreach
  cases hp : popMin s.agenda with
  | none => simp [step, hp, StepResult.state?] at hstep
  | some qr =>
    obtain ⟨q, rest⟩ := qr
    obtain ⟨s'', a', new, h1, h2, -, h4, h5⟩ := inv_step_lts fuel hi hsent hp
    rw [h1] at hstep
    simp only [StepResult.state?, Option.some.injEq] at hstep
    subst hstep
    refine ⟨h1, new, h4, ?_⟩
    intro lg ol
    obtain ⟨lg', ol', acts, h7⟩ := h5 lg ol
    exact ⟨lg', ol', acts, by rw [absTB_eq hi, absTB_eq h2]; exact h7⟩

/-- **Refinement, whole runs**: every state reachable by kernel steps is the image (under `absTB`, with some values in the
ghost fields) of an *admissible* run of the shaper's LTS from its initial state: the LTS accepts some action sequence in
which the packets that entered are those handed to `put` and the packets that left are those handed to `out.put`, in the
order of the kernel trace. -/
theorem tb_on_kernel_refines_lts (size : Int → Nat) (cfg : TbCfg ℚ) (arrivals : List ℚ) (hg : GapsOK arrivals)
    (hgood : TokenBucket.Good cfg) (hpk : PeakOK cfg) (fuel : Nat) (s : KState ℚ (TbS ℚ))
    (hreach : KReach (body size cfg) (fuel + 1) (initState cfg arrivals) s) :
    ∃ acts lg ol, Fifo.runActs (TokenBucket.dev cfg) (C11.tbStart cfg 0) acts =
      .ok (setGhost (absTB size s) lg ol, putIds (histOf s.trace), outIds (histOf s.trace)) := by
  obtain ⟨a, acts, lg, ol, hi, -, hrun⟩ := reach_lts (size := size) fuel hg hgood hpk hreach
  exact ⟨acts, lg, ol, by rw [absTB_eq hi]; exact hrun⟩

/-- **Level bounds on the kernel** (`C11.tb_level_bounds`): in every state reachable by kernel steps the attribute cells
satisfy `0 ≤ current_bucket ≤ bucket_size` and `update_time ≤ env.now`. -/
theorem kernel_tb_level_bounds (size : Int → Nat) (cfg : TbCfg ℚ) (arrivals : List ℚ) (hg : GapsOK arrivals)
    (hgood : TokenBucket.Good cfg) (hpk : PeakOK cfg) (fuel : Nat) (s : KState ℚ (TbS ℚ))
    (hreach : KReach (body size cfg) (fuel + 1) (initState cfg arrivals) s) :
    0 ≤ cellTime s cLevel ∧ cellTime s cLevel ≤ cfg.bucket ∧ cellTime s cUpd ≤ s.now := by
  obtain ⟨acts, lg, ol, h⟩ := tb_on_kernel_refines_lts size cfg arrivals hg hgood hpk fuel s hreach
  have := C11.tb_level_bounds cfg hgood 0 (le_refl _) acts _ _ _ h
  have hd : (setGhost (absTB size s) lg ol).dev.level = cellTime s cLevel ∧
      (setGhost (absTB size s) lg ol).dev.upd = cellTime s cUpd ∧ (setGhost (absTB size s) lg ol).now = s.now := by
    unfold setGhost absTB
    split
    · split <;> exact ⟨rfl, rfl, rfl⟩
    · exact ⟨rfl, rfl, rfl⟩
    · exact ⟨rfl, rfl, rfl⟩
    · exact ⟨rfl, rfl, rfl⟩
  rw [hd.1, hd.2.1, hd.2.2] at this
  exact this

/-- **First in first out, nothing lost, on the kernel** (`C11.tb_lossless_fifo`): at every state reachable by kernel steps
the packets handed to `put` so far are, in order, exactly those handed to `out.put` followed by those still inside (held by
`run`, then waiting in the store). -/
theorem kernel_tb_lossless_fifo (size : Int → Nat) (cfg : TbCfg ℚ) (arrivals : List ℚ) (hg : GapsOK arrivals)
    (hgood : TokenBucket.Good cfg) (hpk : PeakOK cfg) (fuel : Nat) (s : KState ℚ (TbS ℚ))
    (hreach : KReach (body size cfg) (fuel + 1) (initState cfg arrivals) s) :
    putIds (histOf s.trace) = outIds (histOf s.trace) ++ Fifo.held (absTB size s) := by
  obtain ⟨acts, lg, ol, h⟩ := tb_on_kernel_refines_lts size cfg arrivals hg hgood hpk fuel s hreach
  have := ((C11.tb_lossless_fifo cfg).2 0 acts _ _ _ h).1
  have hh : Fifo.held (setGhost (absTB size s) lg ol) = Fifo.held (absTB size s) := rfl
  rw [hh] at this
  exact this

/-- **The (rate, bucket) envelope on the kernel** (`C11.tb_envelope`): the kernel run so far is the image of an LTS run whose
debit log `lg` (one entry per packet whose tokens have been debited: instant and size) satisfies the envelope for all
`i ≤ j`: `size_i + … + size_j ≤ max(bucket_size, size_i) + rate·(t_j − t_i)/8`. -/
theorem kernel_tb_envelope (size : Int → Nat) (cfg : TbCfg ℚ) (arrivals : List ℚ) (hg : GapsOK arrivals)
    (hgood : TokenBucket.Good cfg) (hpk : PeakOK cfg) (fuel : Nat) (s : KState ℚ (TbS ℚ))
    (hreach : KReach (body size cfg) (fuel + 1) (initState cfg arrivals) s) :
    ∃ acts lg ol, Fifo.runActs (TokenBucket.dev cfg) (C11.tbStart cfg 0) acts =
        .ok (setGhost (absTB size s) lg ol, putIds (histOf s.trace), outIds (histOf s.trace)) ∧
      ∀ (newer mid older : List (ℚ × ℕ)) (ej ei : ℚ × ℕ), lg = newer ++ ej :: (mid ++ ei :: older) →
        (ej.2 : ℚ) + Envelope.bytes mid + ei.2 ≤ max cfg.bucket ei.2 + cfg.rate * (ej.1 - ei.1) / 8 := by
  obtain ⟨acts, lg, ol, h⟩ := tb_on_kernel_refines_lts size cfg arrivals hg hgood hpk fuel s hreach
  refine ⟨acts, lg, ol, h, ?_⟩
  intro newer mid older ej ei hlog
  exact C11.tb_envelope cfg hgood 0 (le_refl _) acts _ _ _ h newer mid older ej ei hlog

/-! ### concrete runs of the kernel model, evaluated by the kernel of Lean (exact arithmetic) -/

/-- one byte of tokens per time unit, a bucket of 3 -/
def slow : TbCfg ℚ := { rate := 8, bucket := 3, peak := none }
/-- the same with a peak rate of two bytes per time unit -/
def slowPeak : TbCfg ℚ := { rate := 8, bucket := 3, peak := some 16 }
def two : Int → Nat := fun _ => 2

/-- what a finished run shows: entries left in the agenda, the departures, and the packets the oracle still waits for -/
def runTB (cfg : TbCfg ℚ) (n : Nat) (arr : List ℚ) : Option (Nat × List (Int × ℚ) × Option Nat) :=
  (finalState (runAll (body two cfg) 1 n (initState cfg arr))).map fun s =>
    (s.agenda.length, outsOf s.trace, (orun two cfg (oInit cfg) (histOf s.trace)).map (·.waiting.length))

/-- a burst of three packets of 2 bytes at 0, then arrivals at 1 and 6: the first passes at once (the bucket holds 3), the
second waits one time unit for its missing byte, the others two each (the bucket is empty after every wait); the packet
arriving at 6 finds the server busy until 5 and one byte in the bucket: it leaves at 7.  The oracle accepts the history. -/
example : runTB slow 40 [0, 0, 0, 1, 5] = some (0, [(0, 0), (1, 1), (2, 3), (3, 5), (4, 7)], some 0) := by
  decide +kernel

/-- with a peak rate every packet is held for `size·8/peak = 1` more -/
example : runTB slowPeak 40 [0, 0, 0, 1, 5] = some (0, [(0, 1), (1, 2), (2, 4), (3, 6), (4, 8)], some 0) := by
  decide +kernel

/-- the oracle is not vacuous: it rejects a departure that is too early, too late, or out of order -/
example : orun two slow (oInit slow) [.put 0 0, .put 1 0, .out 0 0, .out 1 1] ≠ none ∧
    orun two slow (oInit slow) [.put 0 0, .put 1 0, .out 0 0, .out 1 (1/2)] = none ∧
    orun two slow (oInit slow) [.put 0 0, .put 1 0, .out 0 0, .out 1 2] = none ∧
    orun two slow (oInit slow) [.put 0 0, .put 1 0, .out 1 0] = none := by
  decide +kernel

/-- the hypotheses of the theorems are met by these configurations -/
example : GapsOK [0, 0, 0, 1, 5] ∧ TokenBucket.Good slow ∧ PeakOK slow ∧ TokenBucket.Good slowPeak ∧ PeakOK slowPeak := by
  refine ⟨by intro x hx; simp at hx; rcases hx with rfl | rfl | rfl | rfl <;> norm_num, ⟨by norm_num [slow], by norm_num [slow]⟩,
    ?_, ⟨by norm_num [slowPeak], by norm_num [slowPeak]⟩, ?_⟩
  · intro k hk; simp [TokenBucket.peakOn, Num.optOn, slow] at hk
  · intro k hk
    have : TokenBucket.peakOn slowPeak = some 16 := by decide +kernel
    rw [this] at hk; cases hk; norm_num

end C11K
