import OnlVerif.Lemmas.VCKFinal
import OnlVerif.Lemmas.VCKGridEx
import OnlVerif.Lemmas.WFQKFair
import OnlVerif.Lemmas.WFQKGridEx
import OnlVerif.Props.C12
import OnlVerif.Props.C14
/-!
# C12/C14 on the kernel: the stamp schedulers *as processes on the kernel model* refine the StampServer LTS

`OnlVerif/Net/VCOnK.lean` writes `VC.put`, `Scheduler.send_packet` (a child process per transmission, joined with
`yield process`), `VC.run` and a packet source as one program of the kernel model `K` (`OnlVerif/Kernel`).  Nothing is
assumed about scheduling: `Environment.step` of the kernel model decides what runs when (the `StorePut` / `StoreGet` events of
the `PriorityStore`, the `Initialize` and `Process` events of the sender, the timeouts of the source and of the sender).  The
theorems close the gap DESIGN §2.3 names for this device: every kernel step of this program is a (possibly empty) sequence of
actions the StampServer LTS with the VC record (`OnlVerif/Net/StampServer.lean`, `Net/Sched/VC.lean`) *accepts*, so the
admissibility rules of the LTS (a triggered event is processed before the clock moves, a transmission ends exactly at its due
instant, a hand-off happens before the clock moves) are consequences of the kernel model, and the C12/C14 theorems hold of
kernel runs.

Scope: one `VC` over the classes `0 … F-1` (`F` arbitrary), each with a positive vtick (`VCK.CfgOK`), `flow2class` the
identity, an `out` attached, `rate > 0`; one source process with non-negative gaps (zero gaps = bursts, and arrivals exactly at
transmission ends, included) whose packets carry increasing ids in `0 … N-1` and belong to configured classes (`VCK.WorkOK`);
exact rational time; `fuel + 1` = any positive bound of the `_resume` loop.  **The `PriorityStore` key.**  The kernel model's
`PriorityStore` orders plain integers; the program carries the key `(stamp, now)` of a `PriorityItem` as the integer
`⌊scale·stamp⌋·N + id` (`Kernel/StampCode.lean`, header of `Net/VCOnK.lean`).  The floor preserves the order of the stamps
when vticks and gaps lie on the grid `ℤ/scale` (`VCK.GridOK`; `Lemmas/StampCodeQ.lean`) — which every configuration and every
finite workload of rationals does for `scale := VCK.scaleOf cfg arrivals` (`grid_exists` below), so this is a hypothesis about
the *parameter* `scale` of the encoding, not about the workload.  That every stamp the program computes stays on the grid is
part of the proved invariant.
-/

namespace C14K

/-! ## VirtualClock -/

section VC
open VCOnK VCK Stamp


/-- **Every configuration and every finite rational workload lies on a grid**: the hypothesis `GridOK` of the theorems below
is met by the scale `VCK.scaleOf cfg arrivals` (the product of the denominators of the vticks and of the gaps). -/
theorem grid_exists (cfg : VcCfg ℚ) (arrivals : List (ℚ × Int)) : GridOK (scaleOf cfg arrivals) cfg arrivals :=
  gridOK_scaleOf cfg arrivals

/-- **Refinement, step by step**: let `s` be reachable by kernel steps from the initial state and let the next kernel step
end in `s'`.  Then that step is a normal one (`.ok`: no exception, no stop), and there is a (possibly empty) sequence of LTS
actions that the StampServer LTS with the VC record *accepts* from the abstraction of `s`, that ends exactly in the
abstraction of `s'` (the step commutes with the executable abstraction function `absVC`), and in which the packets accepted /
sent out are exactly the `put` / `out` observations the kernel step appended to the trace. -/
theorem vc_on_kernel_step_refines (N scale F : Nat) (flow size : Int → Nat) (cfg : VcCfg ℚ) (arrivals : List (ℚ × Int))
    (hc : CfgOK F cfg) (hg : GridOK scale cfg arrivals) (hw : WorkOK N scale F flow arrivals) (fuel : Nat)
    (s s' : KState ℚ (VcKSt ℚ))
    (hreach : KReach (prog flow size cfg N scale) (fuel + 1) (initState F cfg arrivals) s)
    (hstep : (step (prog flow size cfg N scale) (fuel + 1) s).state? = some s') :
    step (prog flow size cfg N scale) (fuel + 1) s = .ok s' ∧
    ∃ new acts, histOf s'.trace = histOf s.trace ++ new ∧
      runActs (VC.sched cfg) (absVC flow size cfg N s) acts =
        .ok (absVC flow size cfg N s', putPk flow size new, outPk flow size new) := by
  obtain ⟨a, _, hi, _⟩ := reach_lts (size := size) fuel hc hg hw hreach
  cases hp : popMin s.agenda with
  | none => simp [_root_.step, hp, StepResult.state?] at hstep
  | some qr =>
    obtain ⟨q, rest⟩ := qr
    obtain ⟨s'', a', new, h1, h2, -, -, -, h6, acts, h7⟩ := inv_step_lts (size := size) fuel hi hp
    rw [h1] at hstep
    simp only [StepResult.state?, Option.some.injEq] at hstep
    subst hstep
    exact ⟨h1, new, acts, h6, by rw [absVC_eq hi.k hi.ai hi.l, absVC_eq h2.k h2.ai h2.l]; exact h7⟩

/-- **Refinement, whole runs**: every state reachable by kernel steps is the image under `absVC` of an *admissible* run of
the LTS from the state of a fresh `VC` (`VC.start cfg 0`): the LTS accepts some action sequence that ends in `absVC s` and in
which the packets accepted are the `put` observations and the packets sent out the `out` observations of the kernel trace, in
order — the hypothesis of the C12 / C14 theorems. -/
theorem vc_on_kernel_refines_lts (N scale F : Nat) (flow size : Int → Nat) (cfg : VcCfg ℚ) (arrivals : List (ℚ × Int))
    (hc : CfgOK F cfg) (hg : GridOK scale cfg arrivals) (hw : WorkOK N scale F flow arrivals) (fuel : Nat)
    (s : KState ℚ (VcKSt ℚ))
    (hreach : KReach (prog flow size cfg N scale) (fuel + 1) (initState F cfg arrivals) s) :
    ∃ acts, runActs (VC.sched cfg) (VC.start cfg 0) acts =
      .ok (absVC flow size cfg N s, putPk flow size (histOf s.trace), outPk flow size (histOf s.trace)) := by
  obtain ⟨a, acts, hi, hrun⟩ := reach_lts (size := size) fuel hc hg hw hreach
  exact ⟨acts, by rw [absVC_eq hi.k hi.ai hi.l]; exact hrun⟩

/-- **No kernel step ever crashes, and `run()` returns**: for every workload as above, every state reachable by kernel steps
is followed by a normal step or has an empty agenda — so none of the exceptions the program can raise (`KeyError` for an
unconfigured class, `TypeError` for a reply or an item it cannot use, a negative delay) and no exception of the kernel ever
leaves `step()` —, and `run()` of the kernel model returns (agenda empty) within `6·n + 4` kernel steps, `n` = the number of
packets. -/
theorem vc_on_kernel_run_returns (N scale F : Nat) (flow size : Int → Nat) (cfg : VcCfg ℚ) (arrivals : List (ℚ × Int))
    (hc : CfgOK F cfg) (hg : GridOK scale cfg arrivals) (hw : WorkOK N scale F flow arrivals) (fuel n : Nat)
    (hn : 6 * arrivals.length + 4 ≤ n) :
    (∀ s, KReach (prog flow size cfg N scale) (fuel + 1) (initState F cfg arrivals) s →
      (∃ s', step (prog flow size cfg N scale) (fuel + 1) s = .ok s') ∨
        step (prog flow size cfg N scale) (fuel + 1) s = .empty) ∧
    ∃ sF, runAll (prog flow size cfg N scale) (fuel + 1) n (initState F cfg arrivals) = .returned .none sF ∧
      sF.agenda = [] ∧ KReach (prog flow size cfg N scale) (fuel + 1) (initState F cfg arrivals) sF := by
  constructor
  · intro s hs
    obtain ⟨a, _, hi, _⟩ := reach_lts (size := size) fuel hc hg hw hs
    cases hp : popMin s.agenda with
    | none => right; simp [_root_.step, hp]
    | some qr =>
      obtain ⟨q, rest⟩ := qr
      obtain ⟨s', _, _, h1, _⟩ := inv_step_lts (size := size) fuel hi hp
      exact Or.inl ⟨s', h1⟩
  · have h0 := inv_init (N := N) (flow := flow) hc hg hw
    obtain ⟨sF, aF, h1, -, h3, h4⟩ := run_returns (size := size) fuel (initState F cfg arrivals) n _ _ h0
      (by rw [a0_mu]; omega) KReach.init
    exact ⟨sF, h1, h3, h4⟩

/-! ### the C12/C14 theorems for kernel runs (by transfer through the refinement) -/

/-- **Per-flow FIFO and conservation on the kernel** (`C12.stamp_flow_fifo_vc`): at every state reachable by kernel steps
the waiting items of one flow carry strictly increasing stamps, and the packets of flow `f` handed to `put` so far are, in
order, those of `f` handed to `out.put` followed by those of `f` still held (handed over, in transmission, waiting). -/
theorem kernel_flow_fifo (N scale F : Nat) (flow size : Int → Nat) (cfg : VcCfg ℚ) (arrivals : List (ℚ × Int))
    (hc : CfgOK F cfg) (hg : GridOK scale cfg arrivals) (hw : WorkOK N scale F flow arrivals) (fuel : Nat)
    (s : KState ℚ (VcKSt ℚ))
    (hreach : KReach (prog flow size cfg N scale) (fuel + 1) (initState F cfg arrivals) s) (f : Nat) :
    FlowSorted (absVC flow size cfg N s).items ∧
    ofFlow f (putPk flow size (histOf s.trace)) =
      ofFlow f (outPk flow size (histOf s.trace)) ++ ofFlow f (held (absVC flow size cfg N s)) := by
  obtain ⟨acts, h⟩ := vc_on_kernel_refines_lts N scale F flow size cfg arrivals hc hg hw fuel s hreach
  exact C12.stamp_flow_fifo_vc cfg (pos_of_cfgOK hc) 0 acts _ _ _ h f

/-- **The counters are exact on the kernel** (`C12.stamp_counters_eq`): `queue_count[f]` and `queue_byte_size[f]`, read from
the attribute cells of a reachable kernel state, equal the number / bytes of the packets of `f` waiting or in transmission. -/
theorem kernel_counters_eq (N scale F : Nat) (flow size : Int → Nat) (cfg : VcCfg ℚ) (arrivals : List (ℚ × Int))
    (hc : CfgOK F cfg) (hg : GridOK scale cfg arrivals) (hw : WorkOK N scale F flow arrivals) (fuel : Nat)
    (s : KState ℚ (VcKSt ℚ))
    (hreach : KReach (prog flow size cfg N scale) (fuel + 1) (initState F cfg arrivals) s) (f : Nat) :
    getD (absVC flow size cfg N s).queueCount f = ((ofFlow f (held (absVC flow size cfg N s))).length : Int) ∧
    getD (absVC flow size cfg N s).queueBytes f =
      ((ofFlow f (held (absVC flow size cfg N s))).map fun p => (p.size : Int)).sum := by
  obtain ⟨acts, h⟩ := vc_on_kernel_refines_lts N scale F flow size cfg arrivals hc hg hw fuel s hreach
  exact C12.stamp_counters_eq (VC.sched cfg) (VC.init0 cfg) 0 acts _ _ _ h f

/-- **Minimal stamp at every hand-off, on kernel states.**  Let `s` be reachable by kernel steps and let the next kernel
step be one in which the store hands an item over (the abstraction of the state after it has a handed item `it`, the one
before has none: the `StorePut` event processed while `run` is blocked, or `run`'s own `store.get()` after a transmission).
Then, read from the `PriorityStore` resource of the kernel state itself: `K` handed out its least integer `c`, `it` is the
`PriorityItem` that integer stands for, exactly that integer left the store, and **no item in the store had a smaller
`(stamp, arrival instant)`** — for every stored integer `x`, `it.stamp < stamp(x)`, or the stamps are equal and `it` did not
arrive later. -/
theorem vc_on_kernel_decision (N scale F : Nat) (flow size : Int → Nat) (cfg : VcCfg ℚ) (arrivals : List (ℚ × Int))
    (hc : CfgOK F cfg) (hg : GridOK scale cfg arrivals) (hw : WorkOK N scale F flow arrivals) (fuel : Nat)
    (s s' : KState ℚ (VcKSt ℚ))
    (hreach : KReach (prog flow size cfg N scale) (fuel + 1) (initState F cfg arrivals) s)
    (hstep : step (prog flow size cfg N scale) (fuel + 1) s = .ok s') (it : Item ℚ)
    (hpost : (absVC flow size cfg N s').handed = some it) (hpre : (absVC flow size cfg N s).handed = none) :
    ∃ c, listMin (s.res pst).items = some c ∧ it = itemOf flow size N s.trace c ∧
      (s'.res pst).items = (s.res pst).items.erase c ∧
      ∀ x ∈ (s.res pst).items, it.stamp < (itemOf flow size N s.trace x).stamp ∨
        (it.stamp = (itemOf flow size N s.trace x).stamp ∧ it.arr ≤ (itemOf flow size N s.trace x).arr) := by
  obtain ⟨a, _, hi, _⟩ := reach_lts (size := size) fuel hc hg hw hreach
  cases hp : popMin s.agenda with
  | none => simp [_root_.step, hp] at hstep
  | some qr =>
    obtain ⟨q, rest⟩ := qr
    obtain ⟨s'', a', new, h1, h2, -, h4, -⟩ := inv_step_lts (size := size) fuel hi hp
    rw [h1] at hstep
    simp only [StepResult.ok.injEq] at hstep
    subst hstep
    rw [absVC_eq h2.k h2.ai h2.l] at hpost
    rw [absVC_eq hi.k hi.ai hi.l] at hpre
    have hmin := (isMin_of_pop hi.k hp).1
    have hia := hi.ai.advance hmin
    have key : ∀ w, IsLeast N scale a.items w → a'.items = a.items.erase w → it = itemW flow size w →
        ∃ c, listMin (s.res pst).items = some c ∧ it = itemOf flow size N s.trace c ∧
          (s''.res pst).items = (s.res pst).items.erase c ∧
          ∀ x ∈ (s.res pst).items, it.stamp < (itemOf flow size N s.trace x).stamp ∨
            (it.stamp = (itemOf flow size N s.trace x).stamp ∧ it.arr ≤ (itemOf flow size N s.trace x).arr) := by
      intro w hw hit hitw
      have hwp : w ∈ a.puts := hia.sub.subset hw.1
      have hitem : ∀ x ∈ a.puts, itemOf flow size N s.trace (codeOf N scale x) = itemW flow size x := fun x hx =>
        itemOf_eq hi.l (nodup_of_mono hia.mono) hx (hia.putOK x hx).2.1 (hia.putOK x hx).2.2.1
      have hst : (s.res pst).items = a.items.map (codeOf N scale) := by
        show (s.res 0).items = _; rw [hi.k.st]; rfl
      have hst' : (s''.res pst).items = a'.items.map (codeOf N scale) := by
        show (s''.res 0).items = _; rw [h2.k.st]; rfl
      obtain ⟨pre, post, e1, -, -, hm⟩ := pick_spec _ _ _ _ (pick_least (size := size) hia hw)
      refine ⟨codeOf N scale w, by rw [hst]; exact listMin_codes hw, by rw [hitw, hitem w hwp], ?_, ?_⟩
      · rw [hst', hst, hit, erase_codes (AInv.inj hia hw.1)]
      · intro x hx
        rw [hst] at hx
        obtain ⟨y, hy, rfl⟩ := List.mem_map.mp hx
        rw [hitem y (hia.sub.subset hy), hitw]
        exact hm.spec (List.mem_map_of_mem hy)
    cases h4 with
    | runInit h0 => simp [toM] at hpost
    | pktResume g w h0 => simp [toM] at hpost
    | sendInit p id h0 => simp [toM] at hpost
    | sendFire p t id h0 => simp [toM] at hpost
    | doneHit p id0 w h0 hw =>
      simp only [toM, Option.some.injEq] at hpost
      exact key w hw rfl hpost.symm
    | doneBlock p id0 h0 hit => simp [toM] at hpost
    | srcInit arr h0 => simp only [toM] at hpost hpre; rw [hpre] at hpost; cases hpost
    | srcPut id arr h0 => simp only [toM] at hpost hpre; rw [hpre] at hpost; cases hpost
    | srcEnd h0 => simp only [toM] at hpost hpre; rw [hpre] at hpost; cases hpost
    | pendNoop l1 l2 hpe hno => simp only [toM] at hpost hpre; rw [hpre] at hpost; cases hpost
    | pendHand g w l1 l2 hpe h0 hw =>
      simp only [toM, Option.some.injEq] at hpost
      exact key w hw rfl hpost.symm

/-- **Minimal stamp at every hand-off, on the LTS image** (`C14.min_stamp_service` for kernel steps): under the hypotheses of
`vc_on_kernel_decision` the handed item was in the store of the abstraction of `s`, exactly it is missing from the store of
the abstraction of `s'`, and every item in the store had a larger stamp, or the same stamp and no earlier arrival instant. -/
theorem kernel_vc_min_stamp (N scale F : Nat) (flow size : Int → Nat) (cfg : VcCfg ℚ) (arrivals : List (ℚ × Int))
    (hc : CfgOK F cfg) (hg : GridOK scale cfg arrivals) (hw : WorkOK N scale F flow arrivals) (fuel : Nat)
    (s s' : KState ℚ (VcKSt ℚ))
    (hreach : KReach (prog flow size cfg N scale) (fuel + 1) (initState F cfg arrivals) s)
    (hstep : step (prog flow size cfg N scale) (fuel + 1) s = .ok s') (it : Item ℚ)
    (hpost : (absVC flow size cfg N s').handed = some it) (hpre : (absVC flow size cfg N s).handed = none) :
    it ∈ (absVC flow size cfg N s).items ∧
    (absVC flow size cfg N s').items.length + 1 = (absVC flow size cfg N s).items.length ∧
    ∀ x ∈ (absVC flow size cfg N s).items, it.stamp < x.stamp ∨ (it.stamp = x.stamp ∧ it.arr ≤ x.arr) := by
  obtain ⟨c, h1, h2, h3, h4⟩ := vc_on_kernel_decision N scale F flow size cfg arrivals hc hg hw fuel s s' hreach hstep it hpost hpre
  have hne : (s.res pst).items ≠ [] := by
    intro h0; rw [h0] at h1; simp [listMin] at h1
  obtain ⟨m, hm1, hm2, -⟩ := listMin_spec _ hne
  rw [h1] at hm1
  cases hm1
  refine ⟨?_, ?_, ?_⟩
  · show it ∈ (s.res pst).items.map _
    rw [h2]; exact List.mem_map_of_mem hm2
  · show ((s'.res pst).items.map _).length + 1 = ((s.res pst).items.map _).length
    rw [List.length_map, List.length_map, h3, List.length_erase_of_mem hm2]
    have : 0 < (s.res pst).items.length := List.length_pos_of_mem hm2
    omega
  · intro x hx
    obtain ⟨y, hy, rfl⟩ := List.mem_map.mp hx
    exact h4 y hy

/-! ### the direct form: stamp rule, minimal key, exact service times, work conservation, drain -/

/-- **What the oracle accepts** (`VCOnK.ostep` at exact rational time, the two central clauses spelled out).  A `stamp x`
observation after `put id t` is accepted iff `x = max(t, aux_vc[c]) + vtick[c]` for the class `c` of the packet (`aux_vc` as the
rule itself prescribes it so far); an `out id t` observation is accepted iff `id` is in transmission since `s` and
`t = s + 8·size/rate`. -/
theorem oracle_accepts_iff (flow size : Int → Nat) (cfg : VcCfg ℚ) (o : OSt ℚ) (id : Int) (t x : ℚ) (ho : o.pend = some (id, t)) :
    ((ostep flow size cfg o (.stamp x)).isSome ↔ ∃ kv ∈ cfg.vticks, kv.1 = flow id ∧ x = max t (o.aux (flow id)) + kv.2) ∧
    ((ostep flow size cfg o (.out id t)).isSome ↔ ∃ s, o.busy = some (id, s) ∧ t = s + (size id * 8 : ℕ) / cfg.rate) := by
  constructor
  · simp only [ostep, ho]
    have hiff : StampOK flow cfg o id t x ↔ ∃ kv ∈ cfg.vticks, kv.1 = flow id ∧ x = max t (o.aux (flow id)) + kv.2 := by
      unfold StampOK
      constructor
      · rintro ⟨kv, h1, h2, h3⟩
        refine ⟨kv, h1, h2, ?_⟩
        have := (eqT_iff _ _).mp h3
        rw [this]
        have := VC.auxOf_eq t (o.aux (flow id)) kv.2
        unfold VC.auxOf at this
        exact this
      · rintro ⟨kv, h1, h2, h3⟩
        refine ⟨kv, h1, h2, (eqT_iff _ _).mpr ?_⟩
        rw [h3]
        have := VC.auxOf_eq t (o.aux (flow id)) kv.2
        unfold VC.auxOf at this
        exact this.symm
    by_cases hok : StampOK flow cfg o id t x
    · simp only [hok, if_true, Option.isSome_some, true_iff]; exact hiff.mp hok
    · simp only [hok, if_false, Option.isSome_none, Bool.false_eq_true, false_iff]; exact fun h => hok (hiff.mpr h)
  · have hiff : OutOK size cfg.rate o id t ↔ ∃ s, o.busy = some (id, s) ∧ t = s + (size id * 8 : ℕ) / cfg.rate := by
      unfold OutOK
      cases hb : o.busy with
      | none => simp
      | some y =>
        obtain ⟨id', s0⟩ := y
        simp only [eqT_iff, VCOnK.txTime, Num.ofNat_rat, Option.some.injEq, Prod.mk.injEq]
        constructor
        · rintro ⟨rfl, h⟩; exact ⟨s0, ⟨rfl, rfl⟩, h⟩
        · rintro ⟨s1, ⟨rfl, rfl⟩, h⟩; exact ⟨rfl, h⟩
    simp only [ostep]
    by_cases hok : OutOK size cfg.rate o id t
    · simp only [hok, if_true, Option.isSome_some, true_iff]; exact hiff.mp hok
    · simp only [hok, if_false, Option.isSome_none, Bool.false_eq_true, false_iff]; exact fun h => hok (hiff.mpr h)

/-- **What the oracle accepts at a service start** (`VCOnK.ostep`, the `serve` clause spelled out): `serve id t` is accepted iff
nothing is in transmission, a hand-off is under way with candidates `l` since instant `t`, `id` is one of the candidates `w`,
**every candidate `w'` has a larger stamp than `w`, or the same stamp and no earlier arrival instant**, and `id` is the oldest
waiting packet of its flow. -/
theorem oracle_serve_iff (flow size : Int → Nat) (cfg : VcCfg ℚ) (o : OSt ℚ) (id : Int) (t : ℚ) :
    (ostep flow size cfg o (.serve id t)).isSome ↔
      o.busy = none ∧ o.pend = none ∧ ∃ l, o.cand = some (l, t) ∧ ∃ w ∈ l, w.1 = id ∧
        (∀ w' ∈ l, w.2.1 < w'.2.1 ∨ (w.2.1 = w'.2.1 ∧ w.2.2 ≤ w'.2.2)) ∧
        ((o.waiting.filter fun y => flow y.1 = flow id).head?.map (·.1)) = some id := by
  have hk : ∀ w w' : WItem ℚ, ¬ VCOnK.keyLt w' w ↔ (w.2.1 < w'.2.1 ∨ (w.2.1 = w'.2.1 ∧ w.2.2 ≤ w'.2.2)) := by
    intro w w'
    unfold VCOnK.keyLt
    constructor
    · intro h
      simp only [not_or, not_and, not_lt] at h
      rcases lt_or_eq_of_le h.1 with h1 | h1
      · exact Or.inl h1
      · exact Or.inr ⟨h1, h.2 (le_of_eq h1.symm)⟩
    · rintro (h | ⟨h1, h2⟩)
      · simp only [not_or, not_and, not_lt]; exact ⟨le_of_lt h, fun h' => absurd h (not_lt.mpr h')⟩
      · simp only [not_or, not_and, not_lt]; exact ⟨le_of_eq h1, fun _ => h2⟩
  have hiff : ServeOK flow o id t ↔
      o.busy = none ∧ o.pend = none ∧ ∃ l, o.cand = some (l, t) ∧ ∃ w ∈ l, w.1 = id ∧
        (∀ w' ∈ l, w.2.1 < w'.2.1 ∨ (w.2.1 = w'.2.1 ∧ w.2.2 ≤ w'.2.2)) ∧
        ((o.waiting.filter fun y => flow y.1 = flow id).head?.map (·.1)) = some id := by
    unfold ServeOK
    cases hc : o.cand with
    | none => simp
    | some x =>
      obtain ⟨l, th⟩ := x
      simp only [Option.isNone_iff_eq_none, eqT_iff, Option.some.injEq, Prod.mk.injEq]
      constructor
      · rintro ⟨h1, h2, rfl, w, hw, h3, h4, h5⟩
        exact ⟨h1, h2, l, ⟨rfl, rfl⟩, w, hw, h3, fun w' hw' => (hk w w').mp (h4 w' hw'), h5⟩
      · rintro ⟨h1, h2, l', ⟨rfl, rfl⟩, w, hw, h3, h4, h5⟩
        exact ⟨h1, h2, rfl, w, hw, h3, fun w' hw' => (hk w w').mpr (h4 w' hw'), h5⟩
  simp only [ostep]
  by_cases hok : ServeOK flow o id t
  · simp only [hok, if_true, Option.isSome_some, true_iff]; exact hiff.mp hok
  · simp only [hok, if_false, Option.isSome_none, Bool.false_eq_true, false_iff]; exact fun h => hok (hiff.mpr h)

/-- **The history of every kernel run passes the oracle, step by step**: at every state reachable by kernel steps the
`put` / `stamp` / `get` / `serve` / `out` observations recorded so far are accepted by `VCOnK.orun` from the empty oracle state —
every arrival so far was stamped `max(now, aux_vc) + vtick`, every hand-off so far took a candidate of minimal
`(stamp, arrival instant)` that was the oldest of its flow, in the instant of the `get` resp. of the arrival, every `get` was
issued at instant 0 or in the instant of the last departure, every departure came exactly `8·size/rate` after its service
start (header of the oracle in `Net/VCOnK.lean`, `oracle_accepts_iff`). -/
theorem vc_on_kernel_history_accepted (N scale F : Nat) (flow size : Int → Nat) (cfg : VcCfg ℚ) (arrivals : List (ℚ × Int))
    (hc : CfgOK F cfg) (hg : GridOK scale cfg arrivals) (hw : WorkOK N scale F flow arrivals) (fuel : Nat)
    (s : KState ℚ (VcKSt ℚ))
    (hreach : KReach (prog flow size cfg N scale) (fuel + 1) (initState F cfg arrivals) s) :
    ∃ o, orun flow size cfg oInit (histOf s.trace) = some o := by
  obtain ⟨a, hi⟩ := reach_inv3 (size := size) fuel hc hg hw hreach
  obtain ⟨o, ho, -⟩ := hi.o
  exact ⟨o, ho⟩

/-- **Stamp rule, minimal-key service, exact service times, work conservation and drain for the VirtualClock scheduler as
kernel processes (direct form, no admissibility assumption).**  For every number of classes `F`, every vtick table with
positive vticks over them, every `rate > 0` and every finite workload with non-negative gaps (bursts and arrivals exactly at
transmission ends included), `run()` of the kernel model on the spawned processes

* returns (agenda empty, no exception ever leaves `step()`) within `6·n + 4` kernel steps;
* has handed exactly the workload to `put`: packet `k` at the sum of the first `k + 1` gaps (`arrivalsFrom`);
* has a `put` / `stamp` / `get` / `serve` / `out` history that the oracle accepts: **every arrival was stamped
  `max(now, aux_vc[c]) + vtick[c]`**; the server asked for the next packet at instant 0 and then **in the very instant of each
  departure** (never idle with a backlog); **every hand-off took a packet with minimal `(stamp, arrival instant)`** among
  those waiting when the server asked (if none was: the first to arrive), the oldest of its flow, and its service started in
  the instant of the hand-off; one packet at a time (non-preemptive); every packet left **exactly `8·size/rate`** after its
  service start;
* ends drained: nothing waits, nothing is in transmission, and for every flow the packets handed to `out.put` are exactly
  the packets of that flow handed to `put`, in the same order (every packet leaves once, per flow in arrival order). -/
theorem vc_on_kernel_stamp_rules (N scale F : Nat) (flow size : Int → Nat) (cfg : VcCfg ℚ) (arrivals : List (ℚ × Int))
    (hc : CfgOK F cfg) (hg : GridOK scale cfg arrivals) (hw : WorkOK N scale F flow arrivals) (fuel n : Nat)
    (hn : 6 * arrivals.length + 4 ≤ n) :
    ∃ sF o, runAll (prog flow size cfg N scale) (fuel + 1) n (initState F cfg arrivals) = .returned .none sF ∧
      sF.agenda = [] ∧ putsOf sF.trace = arrivalsFrom 0 arrivals ∧
      orun flow size cfg oInit (histOf sF.trace) = some o ∧ drained o = true ∧
      ∀ f, ofFlow f (outPk flow size (histOf sF.trace)) = ofFlow f (putPk flow size (histOf sF.trace)) := by
  obtain ⟨sF, aF, h1, h2, h3, h4⟩ := run_returns3 fuel (initState F cfg arrivals) n _ _
    (inv3_init (size := size) hc hg hw) (by rw [a0_mu]; omega) KReach.init
  obtain ⟨o, g1, g2, g3, g4⟩ := inv3_final h2 h3
  refine ⟨sF, o, h1, h3, g3, g1, g2, ?_⟩
  intro f
  have := (kernel_flow_fifo N scale F flow size cfg arrivals hc hg hw fuel sF h4 f).2
  rw [absVC_eq h2.i.k h2.i.ai h2.i.l, g4] at this
  simpa [ofFlow] using this.symm

/-- a workload as the property names it, without reference to the encoding: gaps are not negative, the packets belong to the
classes `0 … F-1` and carry increasing ids in `0 … N-1` -/
def Workload (N F : Nat) (flow : Int → Nat) (l : List (ℚ × Int)) : Prop :=
  (∀ x ∈ l, 0 ≤ x.1 ∧ flow x.2 < F ∧ 0 ≤ x.2 ∧ x.2 < N) ∧ (l.map (·.2)).Pairwise (· < ·)

/-- **For all configurations and all workloads** (the encoding parameter chosen by the theorem, no grid hypothesis left): for
every vtick table with positive vticks over the classes `0 … F-1`, every `rate > 0` and every finite workload with gaps `≥ 0`,
the program with `scale := VCK.scaleOf cfg arrivals` has all the properties of `vc_on_kernel_stamp_rules`. -/
theorem vc_on_kernel_all_workloads (N F : Nat) (flow size : Int → Nat) (cfg : VcCfg ℚ) (arrivals : List (ℚ × Int))
    (hc : CfgOK F cfg) (hw : Workload N F flow arrivals) (fuel n : Nat) (hn : 6 * arrivals.length + 4 ≤ n) :
    ∃ sF o, runAll (prog flow size cfg N (scaleOf cfg arrivals)) (fuel + 1) n (initState F cfg arrivals) = .returned .none sF ∧
      sF.agenda = [] ∧ putsOf sF.trace = arrivalsFrom 0 arrivals ∧
      orun flow size cfg oInit (histOf sF.trace) = some o ∧ drained o = true ∧
      ∀ f, ofFlow f (outPk flow size (histOf sF.trace)) = ofFlow f (putPk flow size (histOf sF.trace)) := by
  have hg := gridOK_scaleOf cfg arrivals
  refine vc_on_kernel_stamp_rules N _ F flow size cfg arrivals hc hg ⟨?_, hw.2⟩ fuel n hn
  intro x hx
  obtain ⟨h1, h2, h3, h4⟩ := hw.1 x hx
  exact ⟨h1, h2, h3, h4, hg.gaps x hx⟩


/-! ### concrete runs of the kernel model, evaluated by the kernel of Lean (exact arithmetic) -/

/-- classes 0 and 1 with vticks 1 and 1/2, rate 8 (a packet of size 1 is transmitted in one time unit) -/
def vcfg : VcCfg ℚ := { rate := 8, vticks := [(0, 1), (1, 1 / 2)], flow2class := [(0, 0), (1, 1)] }
/-- packet `i` belongs to flow `fl[i]` -/
def flowOf (fl : List Nat) : Int → Nat := fun i => fl.getD i.toNat 0
def unit : Int → Nat := fun _ => 1

/-- the final state of `run()` within `n` steps -/
def finalVc (fl : List Nat) (n : Nat) (arr : List (ℚ × Int)) : Option (KState ℚ (VcKSt ℚ)) :=
  finalState (runAll (prog (flowOf fl) unit vcfg arr.length 2) 1 n (initState 2 vcfg arr))

/-- what a finished run shows: entries left in the agenda, the stamps, whether the oracle of the property accepts the history
and ends drained -/
def runVc (fl : List Nat) (n : Nat) (arr : List (ℚ × Int)) : Option (Nat × List ℚ × Bool) :=
  (finalVc fl n arr).map fun s =>
    (s.agenda.length, stampsOf s.trace, ((orun (flowOf fl) unit vcfg oInit (histOf s.trace)).map drained).getD false)

/-- … the service starts and the departures -/
def runVcT (fl : List Nat) (n : Nat) (arr : List (ℚ × Int)) : Option (List (Int × ℚ) × List (Int × ℚ)) :=
  (finalVc fl n arr).map fun s => (servesOf s.trace, outsOf s.trace)

/-- packets 0, 1 (class 0: stamps 1, 2) and 2 (class 1: stamp 1/2) arrive at 0, packets 3, 4 (class 1) at 1 and 2 — exactly
when transmissions end —, packet 5 (class 0) at 2.  The first packet is handed over at once; then stamp order: 2 (1/2), 3
(3/2, arrived at 1 *before* the server asked again at 1), 1 (2), 4 (5/2), 5 (3); back to back, one time unit each -/
example : runVc [0, 0, 1, 1, 1, 0] 80 [(0, 0), (0, 1), (0, 2), (1, 3), (1, 4), (0, 5)] =
      some (0, [1, 2, 1/2, 3/2, 5/2, 3], true) ∧
    runVcT [0, 0, 1, 1, 1, 0] 80 [(0, 0), (0, 1), (0, 2), (1, 3), (1, 4), (0, 5)] =
      some ([(0, 0), (2, 1), (3, 2), (1, 3), (4, 4), (5, 5)], [(0, 1), (2, 2), (3, 3), (1, 4), (4, 5), (5, 6)]) := by
  decide +kernel

/-- … and every kernel step of that run (39 of them) is an action sequence the StampServer LTS accepts between the
abstractions of the two states (`refineCheck` replays the inferred actions through `Stamp.step` and compares with `absVC`) -/
example : refineCheck (flowOf [0, 0, 1, 1, 1, 0]) unit vcfg 6 2 80
    (initState 2 vcfg [(0, 0), (0, 1), (0, 2), (1, 3), (1, 4), (0, 5)]) 0 = some 39 := by
  decide +kernel

/-- the bound `6·n + 4` of `vc_on_kernel_run_returns` is exact for that workload (`n = 6`): `run()` has not returned after 39
iterations (the 39th kernel step has just been taken, the empty agenda is noticed by the 40th) and has after 40 -/
example : (finalVc [0, 0, 1, 1, 1, 0] 39 [(0, 0), (0, 1), (0, 2), (1, 3), (1, 4), (0, 5)]).isNone = true ∧
    (finalVc [0, 0, 1, 1, 1, 0] 40 [(0, 0), (0, 1), (0, 2), (1, 3), (1, 4), (0, 5)]).isSome = true := by
  decide +kernel

/-- idle gaps: a class that returns after its `aux_vc` has fallen behind the clock is stamped `now + vtick` (13/2, 15/2);
each packet is served at its arrival instant -/
example : runVc [0, 1, 0] 80 [(1, 0), (5, 1), (1/2, 2)] = some (0, [2, 13/2, 15/2], true) ∧
    runVcT [0, 1, 0] 80 [(1, 0), (5, 1), (1/2, 2)] = some ([(0, 1), (1, 6), (2, 7)], [(0, 2), (1, 7), (2, 8)]) ∧
    refineCheck (flowOf [0, 1, 0]) unit vcfg 3 2 80 (initState 2 vcfg [(1, 0), (5, 1), (1/2, 2)]) 0 = some 21 := by
  decide +kernel

/-- equal stamps, different instants: packet 0 (class 0) is served 0→1; packet 1 (class 0, stamp 2) arrives at 1/4, packets
2, 3 (class 1, stamps 1, 3/2) at 1/2 and packet 4 (class 1, stamp 2) at 3/4: packets 1 and 4 carry the stamp 2, the earlier
arrival (1) goes first -/
example : runVc [0, 0, 1, 1, 1] 80 [(0, 0), (1/4, 1), (1/4, 2), (0, 3), (1/4, 4)] = some (0, [1, 2, 1, 3/2, 2], true) ∧
    runVcT [0, 0, 1, 1, 1] 80 [(0, 0), (1/4, 1), (1/4, 2), (0, 3), (1/4, 4)] =
      some ([(0, 0), (2, 1), (3, 2), (1, 3), (4, 4)], [(0, 1), (2, 2), (3, 3), (1, 4), (4, 5)]) := by
  decide +kernel

/-- the hypotheses of the theorems are met by that configuration and workload (`CfgOK`, `WorkOK`, `GridOK` with scale 2:
vticks 1, 1/2 and gaps 0, 1 lie on the grid `ℤ/2`) -/
example : CfgOK 2 vcfg ∧ GridOK 2 vcfg [(0, 0), (0, 1), (0, 2), (1, 3), (1, 4), (0, 5)] ∧
    WorkOK 6 2 2 (flowOf [0, 0, 1, 1, 1, 0]) [(0, 0), (0, 1), (0, 2), (1, 3), (1, 4), (0, 5)] := by
  have g0 : OnGrid 2 (0 : ℚ) := ⟨0, by norm_num⟩
  have g1 : OnGrid 2 (1 : ℚ) := ⟨2, by norm_num⟩
  have gh : OnGrid 2 (1 / 2 : ℚ) := ⟨1, by norm_num⟩
  refine ⟨⟨by norm_num [vcfg], ?_, ?_, by decide, ?_⟩, ⟨by norm_num, ?_, ?_⟩, ⟨?_, by decide⟩⟩
  · intro f hf
    have : f = 0 ∨ f = 1 := by omega
    rcases this with rfl | rfl
    · exact ⟨1, rfl, by norm_num⟩
    · exact ⟨1 / 2, rfl, by norm_num⟩
  · intro kv hkv
    simp only [vcfg, List.mem_cons, List.not_mem_nil, or_false] at hkv
    rcases hkv with rfl | rfl <;> decide
  · intro f hf
    have : f = 0 ∨ f = 1 := by omega
    rcases this with rfl | rfl <;> rfl
  · intro kv hkv
    simp only [vcfg, List.mem_cons, List.not_mem_nil, or_false] at hkv
    rcases hkv with rfl | rfl
    · exact g1
    · exact gh
  · intro x hx
    simp only [List.mem_cons, List.not_mem_nil, or_false] at hx
    rcases hx with rfl | rfl | rfl | rfl | rfl | rfl <;> first | exact g0 | exact g1
  · intro x hx
    simp only [List.mem_cons, List.not_mem_nil, or_false] at hx
    rcases hx with rfl | rfl | rfl | rfl | rfl | rfl <;>
      exact ⟨by norm_num, by decide, by decide, by decide, by first | exact g0 | exact g1⟩

/-- the oracle is not vacuous.  Packet 0 (class 0) arrives at 0 and is served at once; 1 (class 0, stamp 2) and 2 (class 1,
stamp 1) arrive at 1/2.  Serving 2 at 1 is accepted; serving 1 at 1 is rejected (2 has the smaller stamp); a wrong stamp is
rejected; a service that starts late is rejected; a departure later than `start + 8·size/rate` is rejected. -/
example : (orun (flowOf [0, 0, 1]) unit vcfg oInit
      [.get 0, .put 0 0, .stamp 1, .serve 0 0, .put 1 (1/2), .stamp 2, .put 2 (1/2), .stamp 1, .out 0 1, .get 1,
       .serve 2 1, .out 2 2, .get 2, .serve 1 2, .out 1 3, .get 3]).isSome = true ∧
    (orun (flowOf [0, 0, 1]) unit vcfg oInit
      [.get 0, .put 0 0, .stamp 1, .serve 0 0, .put 1 (1/2), .stamp 2, .put 2 (1/2), .stamp 1, .out 0 1, .get 1,
       .serve 1 1]).isNone = true ∧
    (orun (flowOf [0, 0, 1]) unit vcfg oInit [.get 0, .put 0 0, .stamp 2]).isNone = true ∧
    (orun (flowOf [0, 0, 1]) unit vcfg oInit [.get 0, .put 0 0, .stamp 1, .serve 0 1]).isNone = true ∧
    (orun (flowOf [0, 0, 1]) unit vcfg oInit [.get 0, .put 0 0, .stamp 1, .serve 0 0, .out 0 2]).isNone = true := by
  decide +kernel

end VC

/-! ## WFQ

`OnlVerif/Net/WFQOnK.lean` writes `WFQ.put` (with `update_vtime` / `reset_vtime`), `Scheduler.send_packet`, `WFQ.run` (with its
bookkeeping after each transmission: `update_vtime()`, `class_count[c] -= 1`, `active_set.remove`, `reset_vtime()` when the
active set is empty, `last_time = env.now`) and a packet source as one program of the kernel model.  Scope: one `WFQ` over the
classes `0 … F-1`, each with a positive **whole** weight (`WFQK.CfgOK`; the constructor's annotation is `Dict[FlowId, int]`),
`flow2class` the identity, `rate > 0`; one source with non-negative gaps whose packets carry increasing ids in `0 … N-1`
(`WFQK.WorkOK`); exact rational time.  The `PriorityStore` key is carried as for VC; here two grids are needed
(`WFQK.GridOK`): instants (arrivals, departures) lie on `ℤ/d1`, virtual time and finish times on `ℤ/scale` with
`scale = d1·L`, where every possible weight sum divides `L` (so that `Δt / Σw` and `8·size/(rate·w)` stay on the grid) — met by
`d1 := WFQK.d1Of size cfg arrivals`, `L := (Σ weights)!` for every configuration and workload (`wfq_grid_exists`).  That virtual
time, finish times and all instants stay on their grids is part of the proved invariant, as is the *ghost read* of `last_time`
by which `run` learns the clock (`env.now = last_time` whenever `run` resumes from `store.get()`), and that no `KeyError` /
`ZeroDivisionError` of the dict and set operations can occur.
-/

section WFQ
open WFQOnK WFQK Stamp

/-- **Every WFQ configuration and every finite rational workload lies on the grids** (`GridOK` is satisfiable for all inputs). -/
theorem wfq_grid_exists (size : Int → Nat) (F : Nat) (cfg : WfqCfg ℚ) (arrivals : List (ℚ × Int)) :
    WFQK.GridOK (d1Of size cfg arrivals * LOf F cfg) size F cfg (d1Of size cfg arrivals) (LOf F cfg) arrivals :=
  gridOK_of size F cfg arrivals

/-- **Refinement, step by step** (WFQ): every kernel step of every reachable state is a normal one (`.ok`), and is a (possibly
empty) sequence of actions the StampServer LTS with the WFQ record accepts from the abstraction of the state before to the
abstraction of the state after (it commutes with the executable `absWFQ`), in which the packets accepted / sent out are the
`put` / `out` observations the step appended to the trace. -/
theorem wfq_on_kernel_step_refines (N scale F : Nat) (flow size : Int → Nat) (cfg : WfqCfg ℚ) (d1 L : Nat)
    (arrivals : List (ℚ × Int)) (hc : WFQK.CfgOK F cfg) (hg : WFQK.GridOK scale size F cfg d1 L arrivals)
    (hw : WFQK.WorkOK N size F flow cfg d1 arrivals) (fuel : Nat) (s s' : KState ℚ (WfqKSt ℚ))
    (hreach : KReach (prog F flow size cfg N scale) (fuel + 1) (initState F arrivals) s)
    (hstep : (step (prog F flow size cfg N scale) (fuel + 1) s).state? = some s') :
    step (prog F flow size cfg N scale) (fuel + 1) s = .ok s' ∧
    ∃ new acts, histOf s'.trace = histOf s.trace ++ new ∧
      runActs (WFQ.sched cfg) (absWFQ F flow size cfg N s) acts =
        .ok (absWFQ F flow size cfg N s', WFQK.putPk size flow new, WFQK.outPk size flow new) := by
  obtain ⟨a, _, hi, _⟩ := WFQK.reach_lts (size := size) fuel hc hg hw hreach
  cases hp : popMin s.agenda with
  | none => simp [_root_.step, hp, StepResult.state?] at hstep
  | some qr =>
    obtain ⟨q, rest⟩ := qr
    obtain ⟨s'', a', new, h1, h2, -, -, -, h6, acts, h7⟩ := WFQK.inv_step_lts (size := size) fuel hi hp
    rw [h1] at hstep
    simp only [StepResult.state?, Option.some.injEq] at hstep
    subst hstep
    exact ⟨h1, new, acts, h6, by rw [absWFQ_eq hi.k hi.ai hi.l, absWFQ_eq h2.k h2.ai h2.l]; exact h7⟩

/-- **Refinement, whole runs** (WFQ): every state reachable by kernel steps is the image under `absWFQ` of an admissible run of
the LTS from the state of a fresh `WFQ` (`WFQ.start 0`), with the `put` / `out` observations as the packets that entered /
left — the hypothesis of the C12 / C14 theorems. -/
theorem wfq_on_kernel_refines_lts (N scale F : Nat) (flow size : Int → Nat) (cfg : WfqCfg ℚ) (d1 L : Nat)
    (arrivals : List (ℚ × Int)) (hc : WFQK.CfgOK F cfg) (hg : WFQK.GridOK scale size F cfg d1 L arrivals)
    (hw : WFQK.WorkOK N size F flow cfg d1 arrivals) (fuel : Nat) (s : KState ℚ (WfqKSt ℚ))
    (hreach : KReach (prog F flow size cfg N scale) (fuel + 1) (initState F arrivals) s) :
    ∃ acts, runActs (WFQ.sched cfg) (WFQ.start 0) acts =
      .ok (absWFQ F flow size cfg N s, WFQK.putPk size flow (histOf s.trace), WFQK.outPk size flow (histOf s.trace)) := by
  obtain ⟨a, acts, hi, hrun⟩ := WFQK.reach_lts (size := size) fuel hc hg hw hreach
  exact ⟨acts, by rw [absWFQ_eq hi.k hi.ai hi.l]; exact hrun⟩

/-- **No kernel step ever crashes, and `run()` returns** (WFQ): every reachable state is followed by a normal step or has an
empty agenda — so neither the `KeyError`s of `finish_times[c]`, `class_count[c] -= 1`, `active_set.remove(c)`, `weights[c]`, nor
the `ZeroDivisionError` of `update_vtime` on an empty active set or of a zero `rate·weight`, nor a `TypeError`, nor any exception
of the kernel ever leaves `step()` —, and `run()` returns (agenda empty) within `6·n + 4` kernel steps. -/
theorem wfq_on_kernel_run_returns (N scale F : Nat) (flow size : Int → Nat) (cfg : WfqCfg ℚ) (d1 L : Nat)
    (arrivals : List (ℚ × Int)) (hc : WFQK.CfgOK F cfg) (hg : WFQK.GridOK scale size F cfg d1 L arrivals)
    (hw : WFQK.WorkOK N size F flow cfg d1 arrivals) (fuel n : Nat) (hn : 6 * arrivals.length + 4 ≤ n) :
    (∀ s, KReach (prog F flow size cfg N scale) (fuel + 1) (initState F arrivals) s →
      (∃ s', step (prog F flow size cfg N scale) (fuel + 1) s = .ok s') ∨
        step (prog F flow size cfg N scale) (fuel + 1) s = .empty) ∧
    ∃ sF, runAll (prog F flow size cfg N scale) (fuel + 1) n (initState F arrivals) = .returned .none sF ∧
      sF.agenda = [] ∧ KReach (prog F flow size cfg N scale) (fuel + 1) (initState F arrivals) sF := by
  constructor
  · intro s hs
    obtain ⟨a, _, hi, _⟩ := WFQK.reach_lts (size := size) fuel hc hg hw hs
    cases hp : popMin s.agenda with
    | none => right; simp [_root_.step, hp]
    | some qr =>
      obtain ⟨q, rest⟩ := qr
      obtain ⟨s', _, _, h1, _⟩ := WFQK.inv_step_lts (size := size) fuel hi hp
      exact Or.inl ⟨s', h1⟩
  · have h0 := WFQK.inv_init (N := N) (flow := flow) hc hg hw
    obtain ⟨sF, aF, h1, -, h3, h4⟩ := WFQK.run_returns (size := size) fuel (initState F arrivals) n _ _ h0
      (by rw [WFQK.a0_mu]; omega) KReach.init
    exact ⟨sF, h1, h3, h4⟩

/-- positive rate and weights: the hypothesis of the C12 / C14 theorems of the LTS -/
theorem wfq_pos_of_cfgOK {F : Nat} {cfg : WfqCfg ℚ} (hc : WFQK.CfgOK F cfg) : WFQ.Pos cfg := by
  refine ⟨hc.rate, ?_⟩
  intro k v hk
  have hkF : k < F := hc.keys _ (WFQK.lookup_mem_o _ _ _ hk)
  obtain ⟨n, h1, h2⟩ := hc.w k hkF
  rw [hk] at h2
  cases h2
  exact_mod_cast h1

/-- **Virtual time and all finish times are 0 whenever the scheduler is empty after the loop's bookkeeping**
(`C14.wfq_vtime_reset` through the refinement): in every state reachable by kernel steps in which nothing is waiting, handed
over, in transmission or finished-and-unbooked (read through `absWFQ`), the `vtime` cell holds 0, every `finish_times` cell
holds 0 and no class is marked active. -/
theorem kernel_wfq_vtime_reset (N scale F : Nat) (flow size : Int → Nat) (cfg : WfqCfg ℚ) (d1 L : Nat)
    (arrivals : List (ℚ × Int)) (hc : WFQK.CfgOK F cfg) (hg : WFQK.GridOK scale size F cfg d1 L arrivals)
    (hw : WFQK.WorkOK N size F flow cfg d1 arrivals) (fuel : Nat) (s : KState ℚ (WfqKSt ℚ))
    (hreach : KReach (prog F flow size cfg N scale) (fuel + 1) (initState F arrivals) s)
    (hempty : held' (absWFQ F flow size cfg N s) = []) :
    cellNum s cVtime = 0 ∧ (∀ k x, lookup (absFinish cfg s) k = some x → x = 0) ∧
      (∀ c, c < F → cellInt s (cAct c) ≠ 1) := by
  obtain ⟨acts, h⟩ := wfq_on_kernel_refines_lts N scale F flow size cfg d1 L arrivals hc hg hw fuel s hreach
  obtain ⟨h1, h2, h3⟩ := C14.wfq_vtime_reset cfg 0 acts _ _ _ h hempty
  refine ⟨h1, h2, ?_⟩
  intro c hcF hone
  have : c ∈ (absWFQ F flow size cfg N s).sch.active := by
    show c ∈ (List.range F).filter _
    simp [List.mem_filter, hcF, hone]
  rw [h3] at this
  cases this

/-- **Per-flow FIFO and conservation on the kernel** (WFQ; `C12.stamp_flow_fifo_wfq`; packets of positive size). -/
theorem kernel_wfq_flow_fifo (N scale F : Nat) (flow size : Int → Nat) (cfg : WfqCfg ℚ) (d1 L : Nat)
    (arrivals : List (ℚ × Int)) (hc : WFQK.CfgOK F cfg) (hg : WFQK.GridOK scale size F cfg d1 L arrivals)
    (hw : WFQK.WorkOK N size F flow cfg d1 arrivals) (hsz : ∀ id, 0 < size id) (fuel : Nat) (s : KState ℚ (WfqKSt ℚ))
    (hreach : KReach (prog F flow size cfg N scale) (fuel + 1) (initState F arrivals) s) (f : Nat) :
    FlowSorted (absWFQ F flow size cfg N s).items ∧
    ofFlow f (WFQK.putPk size flow (histOf s.trace)) =
      ofFlow f (WFQK.outPk size flow (histOf s.trace)) ++ ofFlow f (held (absWFQ F flow size cfg N s)) := by
  obtain ⟨acts, h⟩ := wfq_on_kernel_refines_lts N scale F flow size cfg d1 L arrivals hc hg hw fuel s hreach
  refine C12.stamp_flow_fifo_wfq cfg (wfq_pos_of_cfgOK hc) 0 acts _ _ _ h ?_ f
  intro p hp
  simp only [WFQK.putPk, List.mem_filterMap] at hp
  obtain ⟨ev, _, hev⟩ := hp
  cases ev <;> simp at hev
  subst hev
  exact hsz _

/-- **The counters are exact on the kernel** (WFQ; `C12.stamp_counters_eq`). -/
theorem kernel_wfq_counters_eq (N scale F : Nat) (flow size : Int → Nat) (cfg : WfqCfg ℚ) (d1 L : Nat)
    (arrivals : List (ℚ × Int)) (hc : WFQK.CfgOK F cfg) (hg : WFQK.GridOK scale size F cfg d1 L arrivals)
    (hw : WFQK.WorkOK N size F flow cfg d1 arrivals) (fuel : Nat) (s : KState ℚ (WfqKSt ℚ))
    (hreach : KReach (prog F flow size cfg N scale) (fuel + 1) (initState F arrivals) s) (f : Nat) :
    getD (absWFQ F flow size cfg N s).queueCount f = ((ofFlow f (held (absWFQ F flow size cfg N s))).length : Int) ∧
    getD (absWFQ F flow size cfg N s).queueBytes f =
      ((ofFlow f (held (absWFQ F flow size cfg N s))).map fun p => (p.size : Int)).sum := by
  obtain ⟨acts, h⟩ := wfq_on_kernel_refines_lts N scale F flow size cfg d1 L arrivals hc hg hw fuel s hreach
  exact C12.stamp_counters_eq (WFQ.sched cfg) WFQ.init0 0 acts _ _ _ h f

/-- **Static-backlog fairness on the kernel** (service started).  Workload: one burst — every packet arrives at the one
instant `t0` (the first gap is `t0`, all others are 0), sizes in `(0, Lm]`.  On the kernel such a burst is *not* the action
sequence `C14.static_backlog_fair` is stated for (all `put`s before any other action): the kernel processes the `StorePut` event
of the first packet — the hand-off to the blocked loop — before the source's next zero-delay timeout, so one packet is taken
out of the store before the others have arrived, although later arrivals of the instant may carry smaller stamps.  The LTS
lemma is therefore generalised (`Lemmas/StampFairBurst.lean`: arrivals of one instant interleaved with arbitrary other actions;
at most one packet is taken early because no transmission can end within the instant) and transferred step by step through the
refinement.  Statement: in every state reachable by kernel steps, for any two classes `i`, `j` that still have a packet waiting
in the store, the bits handed to `send_packet` so far (`out.put` observations plus the packet held by the server), normalised
by weight, differ by at most one maximum-size packet each: `|S_i/w_i − S_j/w_j| ≤ 8·Lm/w_i + 8·Lm/w_j`. -/
theorem kernel_wfq_static_backlog_fair (N scale F : Nat) (flow size : Int → Nat) (cfg : WfqCfg ℚ) (d1 L : Nat)
    (arrivals : List (ℚ × Int)) (hc : WFQK.CfgOK F cfg) (hg : WFQK.GridOK scale size F cfg d1 L arrivals)
    (hw : WFQK.WorkOK N size F flow cfg d1 arrivals) (Lm : Nat) (t0 : ℚ) (hb : WFQK.BurstOK size Lm t0 arrivals)
    (fuel : Nat) (s : KState ℚ (WfqKSt ℚ))
    (hreach : KReach (prog F flow size cfg N scale) (fuel + 1) (initState F arrivals) s)
    (i j : Nat) (wi wj : ℚ) (hwi : lookup cfg.weights i = some wi) (hwj : lookup cfg.weights j = some wj)
    (hbi : WFQ.Backlogged cfg (absWFQ F flow size cfg N s) i) (hbj : WFQ.Backlogged cfg (absWFQ F flow size cfg N s) j) :
    |WFQ.bitsOf cfg i (WFQK.outPk size flow (histOf s.trace) ++ inHand (absWFQ F flow size cfg N s)) / wi -
      WFQ.bitsOf cfg j (WFQK.outPk size flow (histOf s.trace) ++ inHand (absWFQ F flow size cfg N s)) / wj| ≤
      8 * (Lm : ℚ) / wi + 8 * (Lm : ℚ) / wj := by
  obtain ⟨a, hi⟩ := WFQK.reach_invF (size := size) fuel hc hg hw hb hreach
  have he := absWFQ_eq hi.i.i.k hi.i.i.ai hi.i.i.l
  rw [he] at hbi hbj ⊢
  exact WFQ.fairB_bound (WFQK.pos_of_cfgOK hc) hi.f i j wi wj hwi hwj hbi hbj

/-- the premise of `kernel_wfq_static_backlog_fair` is satisfiable: a burst of four unit packets at instant 1 -/
example : WFQK.BurstOK (fun _ => 1) 1 1 [(1, 0), (0, 1), (0, 2), (0, 3)] := by
  refine ⟨?_, fun _ => ⟨by norm_num, le_refl _⟩⟩
  intro x hx
  simp only [arrivalsFrom, List.mem_cons, List.not_mem_nil, or_false] at hx
  rcases hx with rfl | rfl | rfl | rfl <;> norm_num

/-- **Minimal stamp at every hand-off, on kernel states** (WFQ).  Let `s` be reachable by kernel steps and let the next
kernel step be one in which the store hands an item over (the abstraction of the state after it has a handed item `it`, the
one before has none).  Then, read from the `PriorityStore` resource of the kernel state itself: `K` handed out its least
integer `c`, `it` is the `PriorityItem` that integer stands for, exactly that integer left the store, and **no item in the
store had a smaller `(finish time, arrival instant)`**. -/
theorem wfq_on_kernel_decision (N scale F : Nat) (flow size : Int → Nat) (cfg : WfqCfg ℚ) (d1 L : Nat)
    (arrivals : List (ℚ × Int)) (hc : WFQK.CfgOK F cfg) (hg : WFQK.GridOK scale size F cfg d1 L arrivals)
    (hw : WFQK.WorkOK N size F flow cfg d1 arrivals) (fuel : Nat) (s s' : KState ℚ (WfqKSt ℚ))
    (hreach : KReach (prog F flow size cfg N scale) (fuel + 1) (initState F arrivals) s)
    (hstep : step (prog F flow size cfg N scale) (fuel + 1) s = .ok s') (it : Item ℚ)
    (hpost : (absWFQ F flow size cfg N s').handed = some it) (hpre : (absWFQ F flow size cfg N s).handed = none) :
    ∃ c, listMin (s.res pst).items = some c ∧ it = itemOf flow size N s.trace c ∧
      (s'.res pst).items = (s.res pst).items.erase c ∧
      ∀ x ∈ (s.res pst).items, it.stamp < (itemOf flow size N s.trace x).stamp ∨
        (it.stamp = (itemOf flow size N s.trace x).stamp ∧ it.arr ≤ (itemOf flow size N s.trace x).arr) := by
  obtain ⟨a, _, hi, _⟩ := WFQK.reach_lts (size := size) fuel hc hg hw hreach
  cases hp : popMin s.agenda with
  | none => simp [_root_.step, hp] at hstep
  | some qr =>
    obtain ⟨q, rest⟩ := qr
    obtain ⟨s'', a', new, h1, h2, -, h4, -⟩ := WFQK.inv_step_lts (size := size) fuel hi hp
    rw [h1] at hstep
    simp only [StepResult.ok.injEq] at hstep
    subst hstep
    rw [absWFQ_eq h2.k h2.ai h2.l] at hpost
    rw [absWFQ_eq hi.k hi.ai hi.l] at hpre
    have hmin := (WFQK.isMin_of_pop hi.k hp).1
    have hia := hi.ai.advance hmin
    have key : ∀ w, WFQK.IsLeast N scale a.items w → a'.items = a.items.erase w → it = WFQK.itemW size flow w →
        ∃ c, listMin (s.res pst).items = some c ∧ it = itemOf flow size N s.trace c ∧
          (s''.res pst).items = (s.res pst).items.erase c ∧
          ∀ x ∈ (s.res pst).items, it.stamp < (itemOf flow size N s.trace x).stamp ∨
            (it.stamp = (itemOf flow size N s.trace x).stamp ∧ it.arr ≤ (itemOf flow size N s.trace x).arr) := by
      intro w hw hit hitw
      have hwp : w ∈ a.puts := hia.sub.subset hw.1
      have hitem : ∀ x ∈ a.puts, itemOf flow size N s.trace (WFQK.codeOf N scale x) = WFQK.itemW size flow x := fun x hx =>
        WFQK.itemOf_eq hi.l (WFQK.nodup_of_mono hia.mono) hx (hia.putOK x hx).2.1 (hia.putOK x hx).2.2.1
      have hst : (s.res pst).items = a.items.map (WFQK.codeOf N scale) := by
        show (s.res 0).items = _; rw [hi.k.st]; rfl
      have hst' : (s''.res pst).items = a'.items.map (WFQK.codeOf N scale) := by
        show (s''.res 0).items = _; rw [h2.k.st]; rfl
      obtain ⟨pre, post, e1, -, -, hm⟩ := pick_spec _ _ _ _ (WFQK.pick_least (size := size) hia hw)
      refine ⟨WFQK.codeOf N scale w, by rw [hst]; exact WFQK.listMin_codes hw, by rw [hitw, hitem w hwp], ?_, ?_⟩
      · rw [hst', hst, hit, WFQK.erase_codes (WFQK.AInv.inj hia hw.1)]
      · intro x hx
        rw [hst] at hx
        obtain ⟨y, hy, rfl⟩ := List.mem_map.mp hx
        rw [hitem y (hia.sub.subset hy), hitw]
        exact hm.spec (List.mem_map_of_mem hy)
    cases h4 with
    | runInit h0 => simp [WFQK.toM] at hpost
    | pktResume g w h0 => simp [WFQK.toM] at hpost
    | sendInit p id h0 => simp [WFQK.toM] at hpost
    | sendFire p t id h0 => simp [WFQK.toM] at hpost
    | doneHit p id0 w h0 hw =>
      simp only [WFQK.toM, Option.some.injEq] at hpost
      exact key w hw rfl hpost.symm
    | doneBlock p id0 h0 hit => simp [WFQK.toM] at hpost
    | srcInit arr h0 => simp only [WFQK.toM] at hpost hpre; rw [hpre] at hpost; cases hpost
    | srcPut id arr h0 =>
      simp only [WFQK.toM, WFQK.A.afterPut] at hpost hpre; rw [hpre] at hpost; cases hpost
    | srcEnd h0 => simp only [WFQK.toM] at hpost hpre; rw [hpre] at hpost; cases hpost
    | pendNoop l1 l2 hpe hno => simp only [WFQK.toM] at hpost hpre; rw [hpre] at hpost; cases hpost
    | pendHand g w l1 l2 hpe h0 hw =>
      simp only [WFQK.toM, Option.some.injEq] at hpost
      exact key w hw rfl hpost.symm

/-- **Minimal stamp at every hand-off, on the LTS image** (WFQ; `C14.min_stamp_service` for kernel steps). -/
theorem kernel_wfq_min_stamp (N scale F : Nat) (flow size : Int → Nat) (cfg : WfqCfg ℚ) (d1 L : Nat)
    (arrivals : List (ℚ × Int)) (hc : WFQK.CfgOK F cfg) (hg : WFQK.GridOK scale size F cfg d1 L arrivals)
    (hw : WFQK.WorkOK N size F flow cfg d1 arrivals) (fuel : Nat) (s s' : KState ℚ (WfqKSt ℚ))
    (hreach : KReach (prog F flow size cfg N scale) (fuel + 1) (initState F arrivals) s)
    (hstep : step (prog F flow size cfg N scale) (fuel + 1) s = .ok s') (it : Item ℚ)
    (hpost : (absWFQ F flow size cfg N s').handed = some it) (hpre : (absWFQ F flow size cfg N s).handed = none) :
    it ∈ (absWFQ F flow size cfg N s).items ∧
    (absWFQ F flow size cfg N s').items.length + 1 = (absWFQ F flow size cfg N s).items.length ∧
    ∀ x ∈ (absWFQ F flow size cfg N s).items, it.stamp < x.stamp ∨ (it.stamp = x.stamp ∧ it.arr ≤ x.arr) := by
  obtain ⟨c, h1, h2, h3, h4⟩ :=
    wfq_on_kernel_decision N scale F flow size cfg d1 L arrivals hc hg hw fuel s s' hreach hstep it hpost hpre
  have hne : (s.res pst).items ≠ [] := by
    intro h0; rw [h0] at h1; simp [listMin] at h1
  obtain ⟨m, hm1, hm2, -⟩ := WFQK.listMin_spec _ hne
  rw [h1] at hm1
  cases hm1
  refine ⟨?_, ?_, ?_⟩
  · show it ∈ (s.res pst).items.map _
    rw [h2]; exact List.mem_map_of_mem hm2
  · show ((s'.res pst).items.map _).length + 1 = ((s.res pst).items.map _).length
    rw [List.length_map, List.length_map, h3, List.length_erase_of_mem hm2]
    have : 0 < (s.res pst).items.length := List.length_pos_of_mem hm2
    omega
  · intro x hx
    obtain ⟨y, hy, rfl⟩ := List.mem_map.mp hx
    exact h4 y hy

/-- **What the oracle accepts at a service start** (WFQ; `WFQOnK.ostep`, the `serve` clause spelled out): `serve id t` is accepted iff
nothing is in transmission, a hand-off is under way with candidates `l` since instant `t`, `id` is one of the candidates `w`,
**every candidate `w'` has a larger stamp than `w`, or the same stamp and no earlier arrival instant**, and `id` is the oldest
waiting packet of its flow. -/
theorem wfq_oracle_serve_iff (F : Nat) (flow size : Int → Nat) (cfg : WfqCfg ℚ) (o : OSt ℚ) (id : Int) (t : ℚ) :
    (ostep F flow size cfg o (.serve id t)).isSome ↔
      o.busy = none ∧ o.pend = none ∧ ∃ l, o.cand = some (l, t) ∧ ∃ w ∈ l, w.1 = id ∧
        (∀ w' ∈ l, w.2.1 < w'.2.1 ∨ (w.2.1 = w'.2.1 ∧ w.2.2 ≤ w'.2.2)) ∧
        ((o.waiting.filter fun y => flow y.1 = flow id).head?.map (·.1)) = some id := by
  have hk : ∀ w w' : WItem ℚ, ¬ WFQOnK.keyLt w' w ↔ (w.2.1 < w'.2.1 ∨ (w.2.1 = w'.2.1 ∧ w.2.2 ≤ w'.2.2)) := by
    intro w w'
    unfold WFQOnK.keyLt
    constructor
    · intro h
      simp only [not_or, not_and, not_lt] at h
      rcases lt_or_eq_of_le h.1 with h1 | h1
      · exact Or.inl h1
      · exact Or.inr ⟨h1, h.2 (le_of_eq h1.symm)⟩
    · rintro (h | ⟨h1, h2⟩)
      · simp only [not_or, not_and, not_lt]; exact ⟨le_of_lt h, fun h' => absurd h (not_lt.mpr h')⟩
      · simp only [not_or, not_and, not_lt]; exact ⟨le_of_eq h1, fun _ => h2⟩
  have hiff : ServeOK flow o id t ↔
      o.busy = none ∧ o.pend = none ∧ ∃ l, o.cand = some (l, t) ∧ ∃ w ∈ l, w.1 = id ∧
        (∀ w' ∈ l, w.2.1 < w'.2.1 ∨ (w.2.1 = w'.2.1 ∧ w.2.2 ≤ w'.2.2)) ∧
        ((o.waiting.filter fun y => flow y.1 = flow id).head?.map (·.1)) = some id := by
    unfold ServeOK
    cases hc : o.cand with
    | none => simp
    | some x =>
      obtain ⟨l, th⟩ := x
      simp only [Option.isNone_iff_eq_none, WFQK.eqT_iff, Option.some.injEq, Prod.mk.injEq]
      constructor
      · rintro ⟨h1, h2, rfl, w, hw, h3, h4, h5⟩
        exact ⟨h1, h2, l, ⟨rfl, rfl⟩, w, hw, h3, fun w' hw' => (hk w w').mp (h4 w' hw'), h5⟩
      · rintro ⟨h1, h2, l', ⟨rfl, rfl⟩, w, hw, h3, h4, h5⟩
        exact ⟨h1, h2, rfl, w, hw, h3, fun w' hw' => (hk w w').mpr (h4 w' hw'), h5⟩
  simp only [ostep]
  by_cases hok : ServeOK flow o id t
  · simp only [hok, if_true, Option.isSome_some, true_iff]; exact hiff.mp hok
  · simp only [hok, if_false, Option.isSome_none, Bool.false_eq_true, false_iff]; exact fun h => hok (hiff.mpr h)

/-- **The history of every kernel run passes the WFQ oracle, step by step** (`WFQOnK.orun`, header of the oracle in
`Net/WFQOnK.lean`): every arrival so far saw virtual time 0 (and all finish times 0) if the scheduler was empty, else
`V + Δt/Σ weights of the active classes`, and was stamped `max(F_c, V) + 8·size/(rate·w_c)`; every hand-off took a candidate of
minimal `(stamp, arrival instant)`, the oldest of its flow; every `get` came at instant 0 or in the instant of the last
departure; every departure came exactly `8·size/rate` after its service start; at the end of every pass of the loop virtual
time had advanced by `Δt/Σw` (the departed packet's class included) and was reset to 0 with all finish times when nothing
was waiting. -/
theorem wfq_on_kernel_history_accepted (N scale F : Nat) (flow size : Int → Nat) (cfg : WfqCfg ℚ) (d1 L : Nat)
    (arrivals : List (ℚ × Int)) (hc : WFQK.CfgOK F cfg) (hg : WFQK.GridOK scale size F cfg d1 L arrivals)
    (hw : WFQK.WorkOK N size F flow cfg d1 arrivals) (fuel : Nat) (s : KState ℚ (WfqKSt ℚ))
    (hreach : KReach (prog F flow size cfg N scale) (fuel + 1) (initState F arrivals) s) :
    ∃ o, orun F flow size cfg oInit (histOf s.trace) = some o := by
  obtain ⟨a, hi⟩ := WFQK.reach_inv3 (size := size) fuel hc hg hw hreach
  obtain ⟨o, ho, -⟩ := hi.o
  exact ⟨o, ho⟩

/-- **Virtual time, stamp rule, minimal-key service, exact service times, work conservation and drain for the WFQ scheduler
as kernel processes (direct form, no admissibility assumption).**  For every number of classes `F`, every table of positive
whole weights over them, every `rate > 0` and every finite workload with non-negative gaps and packets of positive size,
`run()` of the kernel model on the spawned processes returns (agenda empty, no exception ever leaves `step()`) within
`6·n + 4` kernel steps; has handed exactly the workload to `put` (`arrivalsFrom`); has a history the oracle accepts
(`wfq_on_kernel_history_accepted`); and ends drained: nothing waits, nothing is in transmission or unbooked, and for every
flow the packets handed to `out.put` are exactly those handed to `put`, in the same order. -/
theorem wfq_on_kernel_stamp_rules (N scale F : Nat) (flow size : Int → Nat) (cfg : WfqCfg ℚ) (d1 L : Nat)
    (arrivals : List (ℚ × Int)) (hc : WFQK.CfgOK F cfg) (hg : WFQK.GridOK scale size F cfg d1 L arrivals)
    (hw : WFQK.WorkOK N size F flow cfg d1 arrivals) (hsz : ∀ id, 0 < size id) (fuel n : Nat)
    (hn : 6 * arrivals.length + 4 ≤ n) :
    ∃ sF o, runAll (prog F flow size cfg N scale) (fuel + 1) n (initState F arrivals) = .returned .none sF ∧
      sF.agenda = [] ∧ putsOf sF.trace = arrivalsFrom 0 arrivals ∧
      orun F flow size cfg oInit (histOf sF.trace) = some o ∧ drained o = true ∧
      ∀ f, ofFlow f (WFQK.outPk size flow (histOf sF.trace)) = ofFlow f (WFQK.putPk size flow (histOf sF.trace)) := by
  obtain ⟨sF, aF, h1, h2, h3, h4⟩ := WFQK.run_returns3 fuel (initState F arrivals) n _ _
    (WFQK.inv3_init (size := size) hc hg hw) (by rw [WFQK.a0_mu]; omega) KReach.init
  obtain ⟨o, g1, g2, g3, g4⟩ := WFQK.inv3_final h2 h3
  refine ⟨sF, o, h1, h3, g3, g1, g2, ?_⟩
  intro f
  have := (kernel_wfq_flow_fifo N scale F flow size cfg d1 L arrivals hc hg hw hsz fuel sF h4 f).2
  rw [absWFQ_eq h2.i.k h2.i.ai h2.i.l, g4] at this
  simpa [ofFlow] using this.symm


/-- **For all WFQ configurations and all workloads** (the encoding parameters chosen by the theorem, no grid hypothesis left):
for every table of positive whole weights over the classes `0 … F-1`, every `rate > 0` and every finite workload with gaps
`≥ 0` and packets of positive size, the program with `scale := d1Of … · LOf …` has all the properties of
`wfq_on_kernel_stamp_rules`. -/
theorem wfq_on_kernel_all_workloads (N F : Nat) (flow size : Int → Nat) (cfg : WfqCfg ℚ) (arrivals : List (ℚ × Int))
    (hc : WFQK.CfgOK F cfg) (hw : Workload N F flow arrivals) (hsz : ∀ id, 0 < size id) (fuel n : Nat)
    (hn : 6 * arrivals.length + 4 ≤ n) :
    ∃ sF o, runAll (prog F flow size cfg N (d1Of size cfg arrivals * LOf F cfg)) (fuel + 1) n (initState F arrivals) =
        .returned .none sF ∧
      sF.agenda = [] ∧ putsOf sF.trace = arrivalsFrom 0 arrivals ∧
      orun F flow size cfg oInit (histOf sF.trace) = some o ∧ drained o = true ∧
      ∀ f, ofFlow f (WFQK.outPk size flow (histOf sF.trace)) = ofFlow f (WFQK.putPk size flow (histOf sF.trace)) := by
  have hg := gridOK_of size F cfg arrivals
  refine wfq_on_kernel_stamp_rules N _ F flow size cfg _ _ arrivals hc hg ⟨?_, hw.2⟩ hsz fuel n hn
  intro x hx
  obtain ⟨h1, h2, h3, h4⟩ := hw.1 x hx
  exact ⟨h1, h2, h3, h4, hg.gaps x hx, hg.tx x hx⟩


/-- **What the WFQ oracle accepts at an arrival** (`WFQOnK.ostep` at exact rational time, the virtual-time and the stamp
clause spelled out).  After `put id t` a `vtime v` observation is accepted iff `v = 0` when no packet is waiting or in
transmission, and otherwise iff `v = V + (t − last event instant) / Σ weights of the active classes` (the sum not 0); then a
`stamp x` observation is accepted iff `x = max(F_c, V) + 8·size/(rate·w_c)` for the class `c` of the packet. -/
theorem wfq_oracle_accepts_iff (F : Nat) (flow size : Int → Nat) (cfg : WfqCfg ℚ) (o : OSt ℚ) (id : Int) (t v x : ℚ) :
    (o.pend = some (id, t, false) →
      ((ostep F flow size cfg o (.vtime v)).isSome ↔
        if isEmpty o = true then v = 0
        else ∃ ws, WFQ.weightSum cfg.weights (actives F flow o) 0 = .ok ws ∧ ws ≠ 0 ∧ v = o.vt + (t - o.last) / ws)) ∧
    (o.pend = some (id, t, true) →
      ((ostep F flow size cfg o (.stamp x)).isSome ↔
        ∃ kv ∈ cfg.weights, kv.1 = flow id ∧
          x = max (o.fin (flow id)) o.vt + ((size id * 8 : ℕ) : ℚ) / (cfg.rate * kv.2))) := by
  constructor
  · intro hp
    have hiff : VtimeOK F flow cfg o t v ↔
        if isEmpty o = true then v = 0
        else ∃ ws, WFQ.weightSum cfg.weights (actives F flow o) 0 = .ok ws ∧ ws ≠ 0 ∧ v = o.vt + (t - o.last) / ws := by
      unfold VtimeOK
      by_cases he : isEmpty o = true
      · simp only [he, if_true, WFQK.eqT_iff, Stamp.zero_eq_q]
      · simp only [he, if_false, Bool.false_eq_true]
        unfold advV
        simp only [Stamp.zero_eq_q]
        cases hws : WFQ.weightSum cfg.weights (actives F flow o) 0 with
        | error e => simp
        | ok ws =>
          by_cases h0 : ws = 0
          · subst h0
            simp [Num.eqb]
          · have hb : Num.eqb ws 0 = false := by
              unfold Num.eqb
              rcases lt_or_gt_of_ne h0 with h | h <;> simp [h]
            simp only [hb, Bool.false_eq_true, if_false, WFQK.eqT_iff, Except.ok.injEq]
            constructor
            · intro h; exact ⟨ws, rfl, h0, h⟩
            · rintro ⟨ws', rfl, -, h⟩; exact h
    simp only [ostep, hp]
    by_cases hok : VtimeOK F flow cfg o t v
    · simp only [hok, if_true, Option.isSome_some, true_iff]; exact hiff.mp hok
    · simp only [hok, if_false, Option.isSome_none, Bool.false_eq_true, false_iff]; exact fun h => hok (hiff.mpr h)
  · intro hp
    have hiff : StampOK flow size cfg o id x ↔ ∃ kv ∈ cfg.weights, kv.1 = flow id ∧
        x = max (o.fin (flow id)) o.vt + ((size id * 8 : ℕ) : ℚ) / (cfg.rate * kv.2) := by
      unfold StampOK
      constructor
      · rintro ⟨kv, h1, h2, h3⟩
        refine ⟨kv, h1, h2, ?_⟩
        rw [(WFQK.eqT_iff _ _).mp h3]
        simp only [WFQ.stampOf, Num.pymax_eq, Num.ofNat_rat]
      · rintro ⟨kv, h1, h2, h3⟩
        refine ⟨kv, h1, h2, (WFQK.eqT_iff _ _).mpr ?_⟩
        rw [h3]
        simp only [WFQ.stampOf, Num.pymax_eq, Num.ofNat_rat]
    simp only [ostep, hp]
    by_cases hok : StampOK flow size cfg o id x
    · simp only [hok, if_true, Option.isSome_some, true_iff]; exact hiff.mp hok
    · simp only [hok, if_false, Option.isSome_none, Bool.false_eq_true, false_iff]; exact fun h => hok (hiff.mpr h)


/-! ### concrete runs of the kernel model, evaluated by the kernel of Lean (exact arithmetic) -/

/-- classes 0 and 1 with weights 1 and 3 (the `weights` dict lists class 1 first), rate 8 (a packet of size 1 is transmitted in
one time unit; it adds 1 resp. 1/3 to the finish time of its class) -/
def wcfg : WfqCfg ℚ := { rate := 8, weights := [(1, 3), (0, 1)], flow2class := [(0, 0), (1, 1)] }
/-- packet `i` belongs to flow `fl[i]` -/
def flowOfW (fl : List Nat) : Int → Nat := fun i => fl.getD i.toNat 0
def unitW : Int → Nat := fun _ => 1

/-- the hypotheses of the WFQ theorems are met by the configuration and the first workload of the examples below (weights 3 and
1, so every weight sum 1 … 4 divides `L = 12`; gaps 0, 1 and transmission time 1 lie on `ℤ/1`; `scale = 1·12`) -/
example : WFQK.CfgOK 2 wcfg ∧ WFQK.GridOK 12 unitW 2 wcfg 1 12 [(0, 0), (0, 1), (0, 2), (1, 3), (1, 4), (0, 5)] ∧
    WFQK.WorkOK 6 unitW 2 (flowOfW [0, 0, 1, 1, 1, 0]) wcfg 1 [(0, 0), (0, 1), (0, 2), (1, 3), (1, 4), (0, 5)] := by
  have g0 : WFQK.OnGrid 1 (0 : ℚ) := ⟨0, by norm_num⟩
  have g1 : WFQK.OnGrid 1 (1 : ℚ) := ⟨1, by norm_num⟩
  have gt : ∀ id : Int, WFQK.OnGrid 1 (txTime unitW wcfg.rate id) := by
    intro id
    refine ⟨1, ?_⟩
    show (Num.ofNat (unitW id * 8) : ℚ) / wcfg.rate = _
    norm_num [unitW, wcfg, Num.ofNat_rat]
  have hW : WFQK.wTotal 2 wcfg = 4 := by decide +kernel
  refine ⟨⟨by norm_num [wcfg], ?_, ?_, by decide, ?_⟩, ⟨by norm_num, by norm_num, rfl, ?_, ?_, ?_⟩, ⟨?_, by decide⟩⟩
  · intro f hf
    have : f = 0 ∨ f = 1 := by omega
    rcases this with rfl | rfl
    · exact ⟨1, by norm_num, by simp [wcfg, Stamp.lookup]⟩
    · exact ⟨3, by norm_num, by simp [wcfg, Stamp.lookup]⟩
  · intro kv hkv
    simp only [wcfg, List.mem_cons, List.not_mem_nil, or_false] at hkv
    rcases hkv with rfl | rfl <;> decide
  · intro f hf
    have : f = 0 ∨ f = 1 := by omega
    rcases this with rfl | rfl <;> rfl
  · intro k h1 h2
    rw [hW] at h2
    have : k = 1 ∨ k = 2 ∨ k = 3 ∨ k = 4 := by omega
    rcases this with rfl | rfl | rfl | rfl <;> decide
  · intro x hx
    simp only [List.mem_cons, List.not_mem_nil, or_false] at hx
    rcases hx with rfl | rfl | rfl | rfl | rfl | rfl <;> first | exact g0 | exact g1
  · intro x hx; exact gt _
  · intro x hx
    simp only [List.mem_cons, List.not_mem_nil, or_false] at hx
    rcases hx with rfl | rfl | rfl | rfl | rfl | rfl <;>
      exact ⟨by norm_num, by decide, by decide, by decide, by first | exact g0 | exact g1, gt _⟩

/-- the final state of `run()` within `n` steps (stamps and instants live on the grid `ℤ/12`) -/
def finalWfq (fl : List Nat) (n : Nat) (arr : List (ℚ × Int)) : Option (KState ℚ (WfqKSt ℚ)) :=
  finalState (runAll (prog 2 (flowOfW fl) unitW wcfg arr.length 12) 1 n (initState 2 arr))

/-- what a finished run shows: entries left in the agenda, the stamps, whether the oracle of the property accepts the history
and ends drained -/
def runWfq (fl : List Nat) (n : Nat) (arr : List (ℚ × Int)) : Option (Nat × List ℚ × Bool) :=
  (finalWfq fl n arr).map fun s =>
    (s.agenda.length, stampsOf s.trace, ((orun 2 (flowOfW fl) unitW wcfg oInit (histOf s.trace)).map drained).getD false)

/-- … the service starts and the departures -/
def runWfqT (fl : List Nat) (n : Nat) (arr : List (ℚ × Int)) : Option (List (Int × ℚ) × List (Int × ℚ)) :=
  (finalWfq fl n arr).map fun s => (servesOf s.trace, outsOf s.trace)

/-- … the virtual time at every arrival and at the end of every pass of the loop (in the order of the trace), and the final
`finish_times` -/
def runWfqV (fl : List Nat) (n : Nat) (arr : List (ℚ × Int)) : Option (List ℚ × List (Nat × ℚ)) :=
  (finalWfq fl n arr).map fun s => (vtimesOf s.trace, (absWFQ 2 (flowOfW fl) unitW wcfg arr.length s).sch.finish)

/-- packets 0, 1 (class 0: stamps 1, 2) and 2 (class 1: stamp 1/3) arrive at 0, packets 3, 4 (class 1: 2/3, 1) at 1 and 2 —
exactly when transmissions end —, packet 5 (class 0) at 2.  The first packet is handed over at once; then stamp order: 2
(1/3), 3 (2/3, arrived at 1 *before* the server asked again at 1), 4 (1), 1 (2), 5 (3); back to back, one time unit each.
Virtual time advances by 1/4 per time unit while both classes are active, by 1 when only class 0 is, and is back at 0 with
all finish times when the last packet has left -/
example : runWfq [0, 0, 1, 1, 1, 0] 80 [(0, 0), (0, 1), (0, 2), (1, 3), (1, 4), (0, 5)] =
      some (0, [1, 2, 1/3, 2/3, 1, 3], true) ∧
    runWfqT [0, 0, 1, 1, 1, 0] 80 [(0, 0), (0, 1), (0, 2), (1, 3), (1, 4), (0, 5)] =
      some ([(0, 0), (2, 1), (3, 2), (4, 3), (1, 4), (5, 5)], [(0, 1), (2, 2), (3, 3), (4, 4), (1, 5), (5, 6)]) ∧
    runWfqV [0, 0, 1, 1, 1, 0] 80 [(0, 0), (0, 1), (0, 2), (1, 3), (1, 4), (0, 5)] =
      some ([0, 0, 0, 1/4, 1/4, 1/2, 1/2, 1/2, 3/4, 1, 2, 0], [(1, 0), (0, 0)]) := by
  decide +kernel

/-- … and every kernel step of that run (39 of them) is an action sequence the StampServer LTS with the WFQ record accepts
between the abstractions of the two states (`refineCheck` replays the inferred actions through `Stamp.step (WFQ.sched cfg)` and
compares with `absWFQ`) -/
example : refineCheck 2 (flowOfW [0, 0, 1, 1, 1, 0]) unitW wcfg 6 12 80
    (initState 2 [(0, 0), (0, 1), (0, 2), (1, 3), (1, 4), (0, 5)]) 0 = some 39 := by
  decide +kernel

/-- the bound `6·n + 4` of `wfq_on_kernel_run_returns` is exact for that workload (`n = 6`): `run()` has not returned after 39
iterations and has after 40 -/
example : (finalWfq [0, 0, 1, 1, 1, 0] 39 [(0, 0), (0, 1), (0, 2), (1, 3), (1, 4), (0, 5)]).isNone = true ∧
    (finalWfq [0, 0, 1, 1, 1, 0] 40 [(0, 0), (0, 1), (0, 2), (1, 3), (1, 4), (0, 5)]).isSome = true := by
  decide +kernel

/-- a burst on the kernel (the setting of `kernel_wfq_static_backlog_fair`): packets 0 (class 0, stamp 1), 1, 2 (class 1, stamps
1/3, 2/3) and 3 (class 0, stamp 2) all arrive at instant 1.  Packet 0 is handed to the blocked loop before packet 1 has arrived
and is served first, 1→2, although packets 1 and 2 carry smaller stamps; then stamp order: 1, 2, 3 -/
example : runWfq [0, 1, 1, 0] 80 [(1, 0), (0, 1), (0, 2), (0, 3)] = some (0, [1, 1/3, 2/3, 2], true) ∧
    runWfqT [0, 1, 1, 0] 80 [(1, 0), (0, 1), (0, 2), (0, 3)] =
      some ([(0, 1), (1, 2), (2, 3), (3, 4)], [(0, 2), (1, 3), (2, 4), (3, 5)]) := by
  decide +kernel

/-- a busy period that ends and restarts: packets 0 (class 0) and 1 (class 1) arrive at 1, packet 2 (class 0, stamp 2) at 3/2;
they leave at 2, 3, 4 and the loop resets virtual time and the finish times at 4.  Packet 3 (class 1) arrives at 13/2: virtual
time 0, and its stamp is 1/3 again — as for packet 1 —, packet 4 (class 0) at 7: virtual time (1/2)/3 = 1/6, stamp 7/6 -/
example : runWfq [0, 1, 0, 1, 0] 80 [(1, 0), (0, 1), (1/2, 2), (5, 3), (1/2, 4)] = some (0, [1, 1/3, 2, 1/3, 7/6], true) ∧
    runWfqT [0, 1, 0, 1, 0] 80 [(1, 0), (0, 1), (1/2, 2), (5, 3), (1/2, 4)] =
      some ([(0, 1), (1, 2), (2, 3), (3, 13/2), (4, 15/2)], [(0, 2), (1, 3), (2, 4), (3, 15/2), (4, 17/2)]) ∧
    runWfqV [0, 1, 0, 1, 0] 80 [(1, 0), (0, 1), (1/2, 2), (5, 3), (1/2, 4)] =
      some ([0, 0, 1/8, 1/4, 1/2, 0, 0, 1/6, 7/24, 0], [(1, 0), (0, 0)]) := by
  decide +kernel

example : refineCheck 2 (flowOfW [0, 1, 0, 1, 0]) unitW wcfg 5 12 80
    (initState 2 [(1, 0), (0, 1), (1/2, 2), (5, 3), (1/2, 4)]) 0 = some 33 := by
  decide +kernel

/-- equal stamps, different instants: packet 0 (class 0) is served 0→1; packet 1 (class 0, stamp 2) arrives at 1/4, packets
2, 3, 4, 5 (class 1) at 2/3, when virtual time is 2/3: stamps 1, 4/3, 5/3, 2.  Packets 1 and 5 carry the stamp 2, the earlier
arrival (1) goes first -/
example : runWfq [0, 0, 1, 1, 1, 1] 80 [(0, 0), (1/4, 1), (5/12, 2), (0, 3), (0, 4), (0, 5)] =
      some (0, [1, 2, 1, 4/3, 5/3, 2], true) ∧
    runWfqT [0, 0, 1, 1, 1, 1] 80 [(0, 0), (1/4, 1), (5/12, 2), (0, 3), (0, 4), (0, 5)] =
      some ([(0, 0), (2, 1), (3, 2), (4, 3), (1, 4), (5, 5)], [(0, 1), (2, 2), (3, 3), (4, 4), (1, 5), (5, 6)]) ∧
    refineCheck 2 (flowOfW [0, 0, 1, 1, 1, 1]) unitW wcfg 6 12 80
      (initState 2 [(0, 0), (1/4, 1), (5/12, 2), (0, 3), (0, 4), (0, 5)]) 0 = some 39 := by
  decide +kernel

/-- the oracle is not vacuous.  Packet 0 (class 0) arrives at 0 and is served at once; 1 (class 0, stamp 2) and 2 (class 1,
stamp 1/2 + 1/3) arrive at 1/2, when virtual time is 1/2.  Serving 2 at 1 is accepted (virtual time 5/8 at 1, 7/8 at 2, reset
at 3); serving 1 at 1 is rejected (2 has the smaller stamp); a wrong stamp is rejected; a service that starts late is
rejected; a departure later than `start + 8·size/rate` is rejected; a virtual time that has not advanced at an arrival is
rejected; a virtual time that is not reset at the end of the busy period is rejected. -/
example : (orun 2 (flowOfW [0, 0, 1]) unitW wcfg oInit
      [.get 0, .put 0 0, .vtime 0, .stamp 1, .serve 0 0, .put 1 (1/2), .vtime (1/2), .stamp 2, .put 2 (1/2), .vtime (1/2),
       .stamp (5/6), .out 0 1, .done (5/8), .get 1, .serve 2 1, .out 2 2, .done (7/8), .get 2, .serve 1 2, .out 1 3, .done 0,
       .get 3]).isSome = true ∧
    (orun 2 (flowOfW [0, 0, 1]) unitW wcfg oInit
      [.get 0, .put 0 0, .vtime 0, .stamp 1, .serve 0 0, .put 1 (1/2), .vtime (1/2), .stamp 2, .put 2 (1/2), .vtime (1/2),
       .stamp (5/6), .out 0 1, .done (5/8), .get 1, .serve 1 1]).isNone = true ∧
    (orun 2 (flowOfW [0, 0, 1]) unitW wcfg oInit [.get 0, .put 0 0, .vtime 0, .stamp 2]).isNone = true ∧
    (orun 2 (flowOfW [0, 0, 1]) unitW wcfg oInit [.get 0, .put 0 0, .vtime 0, .stamp 1, .serve 0 1]).isNone = true ∧
    (orun 2 (flowOfW [0, 0, 1]) unitW wcfg oInit [.get 0, .put 0 0, .vtime 0, .stamp 1, .serve 0 0, .out 0 2]).isNone = true ∧
    (orun 2 (flowOfW [0, 0, 1]) unitW wcfg oInit
      [.get 0, .put 0 0, .vtime 0, .stamp 1, .serve 0 0, .put 1 (1/2), .vtime 0]).isNone = true ∧
    (orun 2 (flowOfW [0, 0, 1]) unitW wcfg oInit
      [.get 0, .put 0 0, .vtime 0, .stamp 1, .serve 0 0, .out 0 1, .done 1]).isNone = true := by
  decide +kernel


end WFQ

end C14K
