import OnlVerif.Net.VCOnK
import Mathlib.Algebra.Order.Field.Rat
/-!
# C12/C14 on the kernel: the stamp schedulers *as processes on the kernel model* refine the StampServer LTS

`OnlVerif/Net/VCOnK.lean` writes `VC.put`, `Scheduler.send_packet` (a child process per transmission, joined with
`yield process`), `VC.run` and a packet source as one program of the kernel model `K` (`OnlVerif/Kernel`).  Nothing is
assumed about scheduling: `Environment.step` of the kernel model decides what runs when (the `StorePut` / `StoreGet` events of
the `PriorityStore`, the `Initialize` and `Process` events of the sender, the timeouts of the source and of the sender).
-/

namespace C14K
open VCOnK

/-! ### concrete runs of the kernel model, evaluated by the kernel of Lean (exact arithmetic) -/

/-- classes 0 and 1 with vticks 1 and 1/2, rate 8 (a packet of size 1 is transmitted in one time unit) -/
def vcfg : VcCfg ℚ := { rate := 8, vticks := [(0, 1), (1, 1 / 2)], flow2class := [(0, 0), (1, 1)] }
/-- packet `i` belongs to flow `fl[i]` -/
def flowOf (fl : List Nat) : Int → Nat := fun i => fl.getD i.toNat 0
def unit : Int → Nat := fun _ => 1

/-- the final state of `run()` within `n` steps -/
def finalVc (fl : List Nat) (n : Nat) (arr : List (ℚ × Int)) : Option (KState ℚ (VcKSt ℚ)) :=
  finalState (runAll (prog (flowOf fl) unit vcfg arr.length 2) 1 n (initState 2 vcfg arr))

/-- what a finished run shows: entries left in the agenda, the stamps, whether the oracle of the property accepts the history
and ends drained -/
def runVc (fl : List Nat) (n : Nat) (arr : List (ℚ × Int)) : Option (Nat × List ℚ × Bool) :=
  (finalVc fl n arr).map fun s =>
    (s.agenda.length, stampsOf s.trace, ((orun (flowOf fl) unit vcfg oInit (histOf s.trace)).map drained).getD false)

/-- … the service starts and the departures -/
def runVcT (fl : List Nat) (n : Nat) (arr : List (ℚ × Int)) : Option (List (Int × ℚ) × List (Int × ℚ)) :=
  (finalVc fl n arr).map fun s => (servesOf s.trace, outsOf s.trace)

/-- packets 0, 1 (class 0: stamps 1, 2) and 2 (class 1: stamp 1/2) arrive at 0, packets 3, 4 (class 1) at 1 and 2 — exactly
when transmissions end —, packet 5 (class 0) at 2.  The first packet is handed over at once; then stamp order: 2 (1/2), 3
(3/2, arrived at 1 *before* the server asked again at 1), 1 (2), 4 (5/2), 5 (3); back to back, one time unit each -/
example : runVc [0, 0, 1, 1, 1, 0] 80 [(0, 0), (0, 1), (0, 2), (1, 3), (1, 4), (0, 5)] =
      some (0, [1, 2, 1/2, 3/2, 5/2, 3], true) ∧
    runVcT [0, 0, 1, 1, 1, 0] 80 [(0, 0), (0, 1), (0, 2), (1, 3), (1, 4), (0, 5)] =
      some ([(0, 0), (2, 1), (3, 2), (1, 3), (4, 4), (5, 5)], [(0, 1), (2, 2), (3, 3), (1, 4), (4, 5), (5, 6)]) := by
  decide +kernel

/-- … and every kernel step of that run (39 of them) is an action sequence the StampServer LTS accepts between the
abstractions of the two states (`refineCheck` replays the inferred actions through `Stamp.step` and compares with `absVC`) -/
example : refineCheck (flowOf [0, 0, 1, 1, 1, 0]) unit vcfg 6 2 80
    (initState 2 vcfg [(0, 0), (0, 1), (0, 2), (1, 3), (1, 4), (0, 5)]) 0 = some 39 := by
  decide +kernel

/-- idle gaps: a class that returns after its `aux_vc` has fallen behind the clock is stamped `now + vtick` (13/2, 15/2);
each packet is served at its arrival instant -/
example : runVc [0, 1, 0] 80 [(1, 0), (5, 1), (1/2, 2)] = some (0, [2, 13/2, 15/2], true) ∧
    runVcT [0, 1, 0] 80 [(1, 0), (5, 1), (1/2, 2)] = some ([(0, 1), (1, 6), (2, 7)], [(0, 2), (1, 7), (2, 8)]) ∧
    refineCheck (flowOf [0, 1, 0]) unit vcfg 3 2 80 (initState 2 vcfg [(1, 0), (5, 1), (1/2, 2)]) 0 = some 21 := by
  decide +kernel

/-- equal stamps, different instants: packet 0 (class 0) is served 0→1; packet 1 (class 0, stamp 2) arrives at 1/4, packets
2, 3 (class 1, stamps 1, 3/2) at 1/2 and packet 4 (class 1, stamp 2) at 3/4: packets 1 and 4 carry the stamp 2, the earlier
arrival (1) goes first -/
example : runVc [0, 0, 1, 1, 1] 80 [(0, 0), (1/4, 1), (1/4, 2), (0, 3), (1/4, 4)] = some (0, [1, 2, 1, 3/2, 2], true) ∧
    runVcT [0, 0, 1, 1, 1] 80 [(0, 0), (1/4, 1), (1/4, 2), (0, 3), (1/4, 4)] =
      some ([(0, 0), (2, 1), (3, 2), (1, 3), (4, 4)], [(0, 1), (2, 2), (3, 3), (1, 4), (4, 5)]) := by
  decide +kernel

/-- the oracle is not vacuous.  Packet 0 (class 0) arrives at 0 and is served at once; 1 (class 0, stamp 2) and 2 (class 1,
stamp 1) arrive at 1/2.  Serving 2 at 1 is accepted; serving 1 at 1 is rejected (2 has the smaller stamp); a wrong stamp is
rejected; a service that starts late is rejected; a departure later than `start + 8·size/rate` is rejected. -/
example : (orun (flowOf [0, 0, 1]) unit vcfg oInit
      [.get 0, .put 0 0, .stamp 1, .serve 0 0, .put 1 (1/2), .stamp 2, .put 2 (1/2), .stamp 1, .out 0 1, .get 1,
       .serve 2 1, .out 2 2, .get 2, .serve 1 2, .out 1 3, .get 3]).isSome = true ∧
    (orun (flowOf [0, 0, 1]) unit vcfg oInit
      [.get 0, .put 0 0, .stamp 1, .serve 0 0, .put 1 (1/2), .stamp 2, .put 2 (1/2), .stamp 1, .out 0 1, .get 1,
       .serve 1 1]).isNone = true ∧
    (orun (flowOf [0, 0, 1]) unit vcfg oInit [.get 0, .put 0 0, .stamp 2]).isNone = true ∧
    (orun (flowOf [0, 0, 1]) unit vcfg oInit [.get 0, .put 0 0, .stamp 1, .serve 0 1]).isNone = true ∧
    (orun (flowOf [0, 0, 1]) unit vcfg oInit [.get 0, .put 0 0, .stamp 1, .serve 0 0, .out 0 2]).isNone = true := by
  decide +kernel

end C14K
