import OnlVerif.Lemmas.TimerFire
import OnlVerif.Lemmas.GenTimer19
import OnlVerif.Props.C19K
/-!
# C19 — a Timer fires exactly at its expiry, and stop/restart always take effect

Model: `OnlVerif/Util/Timer.lean`, the Timer as a labelled transition system over its atomic bursts
(`init pid`, `wake pid cb`, `intr pid`, `stop`, `restart τ`, `tick t`; the callback's own `stop()`/`restart(τ)`
calls are the parameter `cb` of `wake`).  `run s acts = .ok s' outs` says: the action sequence `acts` is
*admissible* from `s` (URGENT events are processed in creation order before any wake and before the clock moves,
a process wakes exactly at the instant it sleeps until, the clock cannot pass a due wake) and produces the
callback invocations `outs`.  All theorems quantify over **every** admissible sequence; time is exact (`ℚ`),
the executable model runs at `Float` and is compared bit for bit with `onl.utils.timer.Timer` by the
correspondence check.

`Quiet a`: `a` is neither `stop`/`restart` nor a wake whose callback calls them — a run of quiet actions is a
history on which the timer is "not stopped or restarted".
-/

namespace C19
open Timer

/-- **One-shot: exactly once, exactly at `t0 + timeout`, with the given arguments — unless stopped or restarted
first.**  Split any admissible history at its first `stop`/`restart` (`pre` is quiet, `post` is anything): during
`pre` the callback is invoked at most once, at exactly `t0 + T` with `normArgs a`; while it has not been invoked the
clock has not passed `t0 + T` (so it cannot be skipped), and once invoked it is never invoked again within `pre`.
With `post = []` this is the whole life of an undisturbed timer. -/
theorem fires_at_expiry (t0 T : ℚ) (a : ArgSpec) (s0 : State ℚ) (hc : create t0 T false a = .ok s0)
    (pre post : List (Action ℚ)) (hq : ∀ x ∈ pre, Quiet x) (s' : State ℚ) (outs : List (Out ℚ))
    (hr : run s0 (pre ++ post) = .ok s' outs) :
    ∃ s1 o1 o2, run s0 pre = .ok s1 o1 ∧ run s1 post = .ok s' o2 ∧ outs = o1 ++ o2 ∧
      ((o1 = [] ∧ s1.now ≤ t0 + T) ∨ (o1 = [.fire (t0 + T) (normArgs a)] ∧ t0 + T ≤ s1.now)) := by
  obtain ⟨s1, o1, o2, h1, h2, h3⟩ := run_append_ok hr
  obtain ⟨harm, hargs, hauto, _, _⟩ := create_armed hc
  have := (armed_run harm hq h1).1 hauto
  rw [hargs] at this
  exact ⟨s1, o1, o2, h1, h2, h3, this⟩

/-- **Auto-restart: every `timeout` thereafter.**  During the quiet prefix of any admissible history the callback is
invoked exactly at `t0 + T, t0 + 2T, …, t0 + kT` (each with `normArgs a`), none of them is skipped (the clock has not
passed `t0 + (k+1)T`) and none lies in the future. -/
theorem fires_at_expiry_auto (t0 T : ℚ) (a : ArgSpec) (s0 : State ℚ) (hc : create t0 T true a = .ok s0)
    (pre post : List (Action ℚ)) (hq : ∀ x ∈ pre, Quiet x) (s' : State ℚ) (outs : List (Out ℚ))
    (hr : run s0 (pre ++ post) = .ok s' outs) :
    ∃ s1 o2 k, run s0 pre = .ok s1 (firesFrom (t0 + T) T (normArgs a) k) ∧ run s1 post = .ok s' o2 ∧
      outs = firesFrom (t0 + T) T (normArgs a) k ++ o2 ∧ s1.now ≤ t0 + T + (k : ℚ) * T ∧
      ∀ x ∈ firesFrom (t0 + T) T (normArgs a) k, x.time ≤ s1.now := by
  obtain ⟨s1, o1, o2, h1, h2, h3⟩ := run_append_ok hr
  obtain ⟨harm, hargs, hauto, htmo, _⟩ := create_armed hc
  obtain ⟨k, hk, hle⟩ := (armed_run harm hq h1).2 hauto
  rw [hargs, htmo] at hk
  rw [htmo] at hle
  subst hk
  refine ⟨s1, o2, k, h1, h2, h3, hle, ?_⟩
  intro x hx
  obtain ⟨t, rfl, _, h5⟩ := (run_frame harm.inv h1).2.2.2 x hx
  exact h5

/-- **After `stop()` the callback never fires again**, in any continuation whatsoever (any further `stop`/`restart`
calls, any interleaving): `stop` is always enabled, and every admissible run from the state it leaves has no
output. -/
theorem stop_is_final (s : State ℚ) (hs : Reachable s) :
    ∃ s1, step s .stop = .ok s1 [] ∧
      ∀ (post : List (Action ℚ)) (s' : State ℚ) (outs : List (Out ℚ)), run s1 post = .ok s' outs → outs = [] := by
  refine ⟨stopBody s, rfl, ?_⟩
  intro post s' outs hr
  exact (run_stopped (inv_stopBody hs.inv) rfl hr).1

/-- **… also when `stop()` is called from the timer's own callback** (anywhere among the callback's calls): that
invocation is the last one. -/
theorem stop_in_callback_is_final (s : State ℚ) (hs : Reachable s) (pid : Nat) (cb : List (CbOp ℚ))
    (hm : CbOp.stop ∈ cb) (s1 : State ℚ) (o : List (Out ℚ)) (hw : step s (.wake pid cb) = .ok s1 o) :
    ∀ (post : List (Action ℚ)) (s' : State ℚ) (outs : List (Out ℚ)), run s1 post = .ok s' outs → outs = [] := by
  intro post s' outs hr
  have hst : s1.stopped = true := by
    obtain ⟨_, _, hb⟩ := doWake_ok hw
    rcases wakeBody_ok hb with ⟨_, hnil, _⟩ | ⟨_, s2, hrun, rfl, _⟩
    · subst hnil; cases hm
    · simpa using runCb_stop_mem hs.inv hrun (Or.inl hm)
  exact (run_stopped (step_inv hs.inv hw) hst hr).1

/-- **`restart(τ)` at `r` on a pending timer re-bases the expiry to exactly `r + τ`.**  In any reachable state in which
the timer is not stopped and its process is alive (sleeping — possibly due at this very instant — or not yet
started), `restart τ` is enabled, raises nothing, and in every quiet continuation a one-shot timer fires at most
once, exactly at `r + τ` (not before, not at the old expiry, and not skipped), an auto-restart timer exactly at
`r + τ, r + 2τ, …`. -/
theorem restart_rebases (s : State ℚ) (hs : Reachable s) (hns : s.stopped = false)
    (hal : ∃ st, s.procs[s.proc]? = some st ∧ st ≠ PStat.finished) (tau : ℚ) (htau : 0 < tau) :
    ∃ s1, step s (.restart tau) = .ok s1 [] ∧
      ∀ (acts : List (Action ℚ)) (s' : State ℚ) (outs : List (Out ℚ)), (∀ x ∈ acts, Quiet x) →
        run s1 acts = .ok s' outs →
        (s.auto = false → (outs = [] ∧ s'.now ≤ s.now + tau) ∨
          (outs = [.fire (s.now + tau) s.args] ∧ s.now + tau ≤ s'.now)) ∧
        (s.auto = true → ∃ k : Nat, outs = firesFrom (s.now + tau) tau s.args k ∧
          s'.now ≤ s.now + tau + (k : ℚ) * tau) := by
  obtain ⟨s1, h1, harm, hauto, hargs, htmo, _⟩ := armed_after_restart hs.inv hns hal htau
  refine ⟨s1, h1, ?_⟩
  intro acts s' outs hq hr
  have := armed_run harm hq hr
  rw [hauto, hargs, htmo] at this
  exact this

/-- **`restart(τ)` from inside the timer's own callback** (as the last timer call of the callback, no `stop()` before
it) at the firing instant `r`: the invocation in progress is the only one at `r`, and the next one is at exactly
`r + τ` — for a one-shot timer too (it is re-armed), for an auto-restart timer then every `τ`. -/
theorem restart_in_callback_rebases (s : State ℚ) (hs : Reachable s) (pid : Nat) (ops : List (CbOp ℚ))
    (hno : ∀ op ∈ ops, op ≠ CbOp.stop) (tau : ℚ) (htau : 0 < tau) (s1 : State ℚ) (o : List (Out ℚ))
    (hw : step s (.wake pid (ops ++ [.restart tau])) = .ok s1 o) :
    o = [.fire s.now s.args] ∧
      ∀ (acts : List (Action ℚ)) (s' : State ℚ) (outs : List (Out ℚ)), (∀ x ∈ acts, Quiet x) →
        run s1 acts = .ok s' outs →
        (s.auto = false → (outs = [] ∧ s'.now ≤ s.now + tau) ∨
          (outs = [.fire (s.now + tau) s.args] ∧ s.now + tau ≤ s'.now)) ∧
        (s.auto = true → ∃ k : Nat, outs = firesFrom (s.now + tau) tau s.args k ∧
          s'.now ≤ s.now + tau + (k : ℚ) * tau) := by
  obtain ⟨ho, harm, hauto, hargs, htmo, _⟩ := armed_after_cb_restart hs.inv hno htau hw
  refine ⟨ho, ?_⟩
  intro acts s' outs hq hr
  have := armed_run harm hq hr
  rw [hauto, hargs, htmo] at this
  exact this

/-- **At most one process can ever wake un-interrupted.**  In every reachable state each started process other than
`self.proc` that is still alive has an `Interruption` pending in the URGENT queue, and a wake is enabled only when
that queue is empty: so the process that wakes is `self.proc`, and all the others have finished. -/
theorem no_double_fire (s : State ℚ) (hs : Reachable s) :
    (∀ (q : Nat) (st : PStat ℚ), s.procs[q]? = some st → q ≠ s.proc → st ≠ PStat.finished → UEv.intr q ∈ s.uq) ∧
    (∀ (pid : Nat) (cb : List (CbOp ℚ)) (s' : State ℚ) (o : List (Out ℚ)), step s (.wake pid cb) = .ok s' o →
      pid = s.proc ∧ s.uq = [] ∧ o.length ≤ 1 ∧
        ∀ (q : Nat) (st : PStat ℚ), q ≠ pid → s.procs[q]? = some st → st = PStat.finished) := by
  refine ⟨hs.inv.old_intr, ?_⟩
  intro pid cb s' o hw
  obtain ⟨h1, h2, _, h4⟩ := wake_only_proc hs.inv hw
  refine ⟨h1, h2, ?_, h4⟩
  obtain ⟨_, _, hb⟩ := doWake_ok hw
  rcases wakeBody_ok hb with ⟨_, _, _, rfl⟩ | ⟨_, _, _, _, rfl⟩ <;> simp

/-- **No expiry fires twice, and never with the wrong arguments**: along every admissible history — any
`stop`/`restart` calls from other processes and from the callback, at any instants, in any admissible interleaving —
the callback invocations happen at strictly increasing instants, each with exactly the constructor's arguments. -/
theorem fire_instants_strictly_increase (t0 T : ℚ) (auto : Bool) (a : ArgSpec) (s0 : State ℚ)
    (hc : create t0 T auto a = .ok s0) (acts : List (Action ℚ)) (s' : State ℚ) (outs : List (Out ℚ))
    (hr : run s0 acts = .ok s' outs) :
    (outs.map Out.time).Pairwise (· < ·) ∧ ∀ x ∈ outs, ∃ t, x = Out.fire t (normArgs a) ∧ t0 ≤ t := by
  obtain ⟨harm, hargs, _, _, hnow⟩ := create_armed hc
  have hb := run_bound (b := t0 - 1) harm.inv (by rw [hnow]; linarith) (by
    intro pid w hg
    exfalso
    unfold create at hc
    split at hc
    · cases hc
    · cases hc
      have := lt_of_get hg
      simp only [List.length_singleton] at this
      have hp : pid = 0 := by omega
      subst hp
      simp at hg) hr
  refine ⟨hb.2, ?_⟩
  intro x hx
  obtain ⟨t, rfl, h1, _⟩ := (run_frame harm.inv hr).2.2.2 x hx
  exact ⟨t, by rw [hargs], by rw [← hnow]; exact h1⟩

/-- **No sequence of stop/restart calls raises.**  The constructor accepts exactly the positive timeouts (others:
`ValueError`); from the state it builds, no action sequence at all — admissible or not, with any callbacks and any
`restart` arguments, at any instants including the expiry instant on either side of the wake — reaches a Python
exception (the kernel's refusals "process has terminated" / "a process is not allowed to interrupt itself" are the
error results `Err.terminated` / `Err.selfInterrupt` of the model). -/
theorem never_raises (t0 T : ℚ) (auto : Bool) (a : ArgSpec) :
    (0 < T → ∃ s0, create t0 T auto a = .ok s0 ∧ ∀ (acts : List (Action ℚ)) (e : Err), run s0 acts ≠ .raised e) ∧
    (T ≤ 0 → create t0 T auto a = .error Err.valueError) := by
  constructor
  · intro hT
    obtain ⟨s0, h0⟩ := (create_ok_iff t0 T auto a).mpr hT
    exact ⟨s0, h0, fun acts e => run_no_raise e (create_inv h0)⟩
  · intro hT
    unfold create
    rw [Timer.zero_eq, if_pos hT]

/-! ### non-vacuity: concrete admissible histories (exact arithmetic) -/

/-- a one-shot timer created at 0 with timeout 1 and `args=7` -/
def ex0 : State ℚ :=
  { now := 0, timeout := 1, expire := 1, start := 0, stopped := false, auto := false, args := [7],
    procs := [.notStarted], proc := 0, uq := [.init 0] }

example : create (0 : ℚ) 1 false (.scalar 7) = .ok ex0 := by simp [create, ex0, normArgs, Timer.zero_eq]

/-- undisturbed: fires once at 1 with `[7]`; the clock may then go on (`fires_at_expiry` with `post = []`) -/
example : outsOf (run ex0 [.init 0, .tick (1/2), .tick 1, .wake 0 [], .tick 3]) = some [.fire 1 [7]] := by
  unfold ex0; timer_eval

/-- a quiet prefix followed by a `restart 2` at 1/2 (`fires_at_expiry` with a non-empty `post`, and `restart_rebases`):
the old expiry 1 passes silently, the callback fires at 5/2 -/
example : outsOf (run ex0 [.init 0, .tick (1/2), .restart 2, .intr 0, .init 1, .tick 1, .tick (5/2), .wake 1 []])
    = some [.fire (5/2) [7]] := by
  unfold ex0; timer_eval

/-- `restart` at the expiry instant *before* the wake: the interrupt is URGENT, the old process never wakes -/
example : outsOf (run ex0 [.init 0, .tick 1, .restart 1, .intr 0, .init 1, .tick 2, .wake 1 []]) = some [.fire 2 [7]] := by
  unfold ex0; timer_eval

/-- … and the wake is indeed not admissible while the interrupt is pending -/
example : outsOf (run ex0 [.init 0, .tick 1, .restart 1, .wake 0 []]) = none := by
  unfold ex0; timer_eval

/-- `restart` at the expiry instant *after* the wake of a one-shot timer: does not raise (and does not re-arm) -/
example : outsOf (run ex0 [.init 0, .tick 1, .wake 0 [], .restart 1, .tick 5]) = some [.fire 1 [7]] := by
  unfold ex0; timer_eval

/-- `restart` from the callback of a one-shot timer re-arms it (`restart_in_callback_rebases`): 1, then 1 + 3/2 -/
example : outsOf (run ex0 [.init 0, .tick 1, .wake 0 [.restart (3/2)], .tick (5/2), .wake 0 [], .tick 9])
    = some [.fire 1 [7], .fire (5/2) [7]] := by
  unfold ex0; timer_eval

/-- `stop()` at the expiry instant before the wake: the process wakes but the callback is suppressed, also after a
later `restart` (`stop_is_final`) -/
example : outsOf (run ex0 [.init 0, .tick 1, .stop, .wake 0 [], .restart 1, .tick 7]) = some [] := by
  unfold ex0; timer_eval

/-- an auto-restart timer (timeout 1/2, list arguments) whose callback stops it at its third firing -/
def ex1 : State ℚ :=
  { now := 2, timeout := 1/2, expire := 5/2, start := 2, stopped := false, auto := true, args := [1, 2],
    procs := [.notStarted], proc := 0, uq := [.init 0] }

example : create (2 : ℚ) (1/2) true (.list [1, 2]) = .ok ex1 := by
  simp [create, ex1, normArgs, Timer.zero_eq]; norm_num

example : outsOf (run ex1 [.init 0, .tick (5/2), .wake 0 [], .tick 3, .wake 0 [], .tick (7/2), .wake 0 [.stop],
    .tick 4, .wake 0 [], .tick 10]) = some [.fire (5/2) [1, 2], .fire 3 [1, 2], .fire (7/2) [1, 2]] := by
  unfold ex1; timer_eval

/-- several calls at one instant, the second `restart` hits a process that has not started yet; the interrupt of the
middle process is delivered after its `Initialize` -/
example : outsOf (run ex1 [.restart 1, .restart 2, .init 0, .intr 0, .init 1, .intr 1, .init 2, .tick 4, .wake 2 []])
    = some [.fire 4 [1, 2]] := by
  unfold ex1; timer_eval

/-! ### The source, re-translated on every run, *is* the model (bridge theorems)

`Generated/Timer19.lean` is rewritten by `py2lean` (`more.py`) from the current `onl/utils/timer.py` before this file is
compiled.  `GenTimer19.withModel o s` is the Python object with the five modelled attributes (`timeout`, `start_time`,
`expire_time`, `auto_restart`, `stopped`) taken from the model state `s` and everything else (effect counters, `raised`, where
the generator is suspended) from `o`; `GenTimer19.statOf g now` reads the suspension point the translated burst of `run` ends
in as the model's process status (`yield self.env.timeout(dt)` at `now` = sleeping until `now + dt`; generator ended =
finished).  All statements hold for every scalar type (`[Num α]`: `ℚ` above, `Float` in the driver). -/

/-- **`Timer.__init__` as written in the source is the model's `create`**: `timeout <= 0` is refused with `ValueError`
(and nothing is started); otherwise `timeout`, `start_time = now`, `expire_time = start_time + timeout`, `auto_restart`,
`stopped = False` are set as in `create` and exactly one process is started; and the list stored in `self.args` is
`normArgs`: `None → []`, a list or tuple as it is, any other value `v → [v]`. -/
theorem timer_init_generated_eq_model {α : Type} [Num α] (o : Gen.TimerObj α) (t0 timeout : α) (auto : Bool) (a : ArgSpec)
    (vs : List Int) :
    (Gen.Timer.init o t0 timeout auto =
      match create t0 timeout auto a with
      | .error _ => { o with raised := 2 }
      | .ok s => GenTimer19.withModel { o with eff_spawn := o.eff_spawn + 1, proc_new := true } s) ∧
    Gen.Timer.init_args (GenTimer19.pyArgs a) = normArgs a ∧ Gen.Timer.init_args (.tuple vs) = normArgs (.list vs) :=
  ⟨GenTimer19.init_eq o t0 timeout auto a, GenTimer19.init_args_eq a vs⟩

/-- **One turn of `Timer.run` as written in the source is the model's `loopTest` / `wakeBody`.**  (i) From its start the
generator tests `env.now < expire_time` and sleeps `expire_time - env.now` or ends — `loopTest`.  (ii) Woken while
`stopped`, it does not invoke the callback and goes on with the loop test.  (iii) Woken while running, it invokes the
callback exactly once (`f` is what the callback does to the Python object, `cb` the same calls in the model), then
re-bases `expire_time = env.now + timeout` iff `auto_restart`, then tests the loop again — `wakeBody`; the callback fires
with `self.args` at the current instant.  Besides the suspension point nothing but what the callback and the re-base did
changes.  (The swallowed `Interrupt` around the loop is checked structurally by the translator.) -/
theorem timer_run_generated_eq_model {α : Type} [Num α] (pid : Nat) (o : Gen.TimerObj α) (s : State α)
    (f : Gen.TimerObj α → Gen.TimerObj α) :
    (loopTest pid s = setStat s pid (GenTimer19.statOf (Gen.Timer.run_start (GenTimer19.withModel o s) s.now) s.now) ∧
     Gen.Timer.run_start (GenTimer19.withModel o s) s.now =
       GenTimer19.suspendedAs (GenTimer19.withModel o s) (Gen.Timer.run_start (GenTimer19.withModel o s) s.now)) ∧
    (s.stopped = true →
      wakeBody pid [] s =
        .ok (setStat s pid (GenTimer19.statOf (Gen.Timer.run_wake (GenTimer19.withModel o s) s.now f) s.now)) [] ∧
      Gen.Timer.run_wake (GenTimer19.withModel o s) s.now f =
        GenTimer19.suspendedAs (GenTimer19.withModel o s) (Gen.Timer.run_wake (GenTimer19.withModel o s) s.now f)) ∧
    (s.stopped = false → ∀ (cb : List (CbOp α)) (s' : State α) (o' : Gen.TimerObj α), runCb pid cb s = .ok s' →
      f (GenTimer19.withModel { o with yield_at := 0, yield_dt := Num.ofNat 0, eff_callback := o.eff_callback + 1 } s) =
        GenTimer19.withModel o' s' → o'.yield_at = 0 →
      wakeBody pid cb s =
        .ok (setStat (autoRebase s') pid (GenTimer19.statOf (Gen.Timer.run_wake (GenTimer19.withModel o s) s.now f) s.now))
          [.fire s.now s.args] ∧
      Gen.Timer.run_wake (GenTimer19.withModel o s) s.now f =
        GenTimer19.suspendedAs (GenTimer19.withModel o' (autoRebase s')) (Gen.Timer.run_wake (GenTimer19.withModel o s) s.now f)) :=
  ⟨GenTimer19.loopTest_eq pid o s, fun hs => GenTimer19.wake_stopped_eq pid o s f hs,
   fun hs cb s' o' hcb hf ho => GenTimer19.wake_running_eq pid o o' s s' cb f hs hcb hf ho⟩

/-- **`Timer.stop` as written in the source is the model's `stopBody`**: `stopped = True`, `expire_time = env.now`, nothing
else (no early return, no interrupt). -/
theorem timer_stop_generated_eq_model {α : Type} [Num α] (o : Gen.TimerObj α) (s : State α) :
    Gen.Timer.stop (GenTimer19.withModel o s) s.now = GenTimer19.withModel o (stopBody s) :=
  GenTimer19.stop_eq o s

/-- **`Timer.restart` as written in the source is the model's `restartCall`** on a timer whose `self.proc` is a process
of the timer (`st`): it always re-bases `start_time = env.now`, `timeout = τ`, `expire_time = start_time + τ`; called from
the timer's own callback (`env.active_process is self.proc`) it does nothing more; otherwise, iff `self.proc` is alive, it
interrupts that process — the old one, before `self.proc` is re-bound (`intr_new` stays as it was) — and starts exactly one
new process; a dead `self.proc` is neither interrupted nor replaced. -/
theorem timer_restart_generated_eq_model {α : Type} [Num α] (o : Gen.TimerObj α) (s : State α) (active : Option Nat) (tau : α)
    (st : PStat α) (hp : s.procs[s.proc]? = some st) :
    (active = some s.proc →
      restartCall active tau s = .ok (rebase tau s) ∧
      Gen.Timer.restart (GenTimer19.withModel o s) s.now tau true st.alive = GenTimer19.withModel o (rebase tau s)) ∧
    (active ≠ some s.proc → st.alive = false →
      restartCall active tau s = .ok (rebase tau s) ∧
      Gen.Timer.restart (GenTimer19.withModel o s) s.now tau false false = GenTimer19.withModel o (rebase tau s)) ∧
    (active ≠ some s.proc → st.alive = true →
      restartCall active tau s = .ok (spawn { rebase tau s with uq := s.uq ++ [.intr s.proc] }) ∧
      Gen.Timer.restart (GenTimer19.withModel o s) s.now tau false true =
        GenTimer19.withModel (GenTimer19.respawned o) (spawn { rebase tau s with uq := s.uq ++ [.intr s.proc] })) :=
  GenTimer19.restart_eq o s active tau st hp

/-- the translated code on a concrete timer (created at 0 with timeout 1, one-shot): `run` first sleeps 1; woken at 1 with a
callback that calls `restart(3/2)` on its own timer (re-base only) it sleeps 3/2 more; `restart(2)` from another process at
1/2 interrupts and respawns once -/
example :
    (Gen.Timer.run_start (GenTimer19.withModel ⟨0, 0, 0, false, false, 0, 0, 0, false, false, 0, 0, 0⟩ ex0) (0 : ℚ)).yield_dt = 1 ∧
    (Gen.Timer.run_wake (GenTimer19.withModel ⟨0, 0, 0, false, false, 0, 0, 0, false, false, 0, 0, 0⟩ ex0) (1 : ℚ)
      (fun g => Gen.Timer.restart g 1 (3/2) true true)).yield_dt = 3/2 ∧
    (Gen.Timer.restart (GenTimer19.withModel ⟨0, 0, 0, false, false, 0, 0, 0, false, false, 0, 0, 0⟩ ex0) (1/2 : ℚ) 2 false true).eff_spawn = 1 := by
  decide +kernel

/-! ### the link to the kernel model (`OnlVerif/Props/C19K.lean`)

The admissibility rules of this LTS (URGENT events before any wake and before the clock moves; a wake exactly at its due
instant) were so far *assumed* of the kernel.  `OnlVerif/Util/TimerOnK.lean` writes `Timer.run/stop/restart` and a
controller process as a program of the kernel model `K`; `Props/C19K.lean` proves that every kernel step of that program
is a sequence of actions this LTS accepts, and that the callback fires exactly when the property prescribes.  The headline
theorems are restated here so that the axiom audit covers them, and theorems of this file are transferred to kernel
runs through the refinement. -/

/-- **The Timer processes on the kernel model refine this LTS**: every kernel state reachable from the initial state
(timer created at 0 with a positive timeout, a controller process that calls `stop()`/`restart(τ)` by a script, a callback
that may call them too) is the image, under the executable abstraction function `TimerOnK.absTimer`, of an action sequence
this LTS accepts from the state `create` builds, with the `fire` observations of the kernel trace as its outputs. -/
theorem timer_on_kernel_refines_lts (auto : Bool) (arg : Int) (cbs : List (Option (CbOp ℚ))) (ctlFirst : Bool) (T : ℚ)
    (script : List (ℚ × CbOp ℚ)) (hT : 0 < T) (hsc : TimerK.ScriptOK script) (hcbs : TimerK.CbsOK cbs) (fuel : Nat)
    (s : KState ℚ (TSt ℚ))
    (hreach : KReach (TimerOnK.body auto arg cbs) (fuel + 1) (TimerOnK.initState ctlFirst T script) s) :
    ∃ s0 acts, create (0 : ℚ) T auto (.scalar arg) = .ok s0 ∧
      run s0 acts = .ok (TimerOnK.absTimer auto arg s) ((TimerOnK.firesOf s.trace).map fun t => Out.fire t [arg]) :=
  C19K.timer_on_kernel_refines_lts auto arg cbs ctlFirst T script hT hsc hcbs fuel s hreach

/-- **Every kernel step is accepted by this LTS**: the next kernel step of a reachable state ends normally (`.ok`), and
is a (possibly empty) action sequence this LTS accepts from the abstraction of the state before to the abstraction of the
state after, with the step's `fire` observations as outputs. -/
theorem timer_on_kernel_step_refines (auto : Bool) (arg : Int) (cbs : List (Option (CbOp ℚ))) (ctlFirst : Bool) (T : ℚ)
    (script : List (ℚ × CbOp ℚ)) (hT : 0 < T) (hsc : TimerK.ScriptOK script) (hcbs : TimerK.CbsOK cbs) (fuel : Nat)
    (s s' : KState ℚ (TSt ℚ))
    (hreach : KReach (TimerOnK.body auto arg cbs) (fuel + 1) (TimerOnK.initState ctlFirst T script) s)
    (hstep : (_root_.step (TimerOnK.body auto arg cbs) (fuel + 1) s).state? = some s') :
    _root_.step (TimerOnK.body auto arg cbs) (fuel + 1) s = .ok s' ∧
    ∃ acts new, run (TimerOnK.absTimer auto arg s) acts =
        .ok (TimerOnK.absTimer auto arg s') (new.map fun t => Out.fire t [arg]) ∧
      TimerOnK.firesOf s'.trace = TimerOnK.firesOf s.trace ++ new :=
  C19K.timer_on_kernel_step_refines auto arg cbs ctlFirst T script hT hsc hcbs fuel s s' hreach hstep

/-- **The callback fires exactly at the prescribed instants on the kernel model, and nothing raises**: at every state
reachable by kernel steps the next `Environment.step` ends normally or finds the agenda empty; the call/fire history of
the trace passes the C19 oracle `TimerOnK.ostep` (a firing exactly at the pending instant: `timeout` after creation, after
the previous firing of an auto-restart timer; `τ` after a `restart(τ)`; none after `stop()`; no call finds a firing
overdue); nothing is overdue now, and nothing is pending once the agenda is empty. -/
theorem timer_on_kernel_fire_instants (auto : Bool) (arg : Int) (cbs : List (Option (CbOp ℚ))) (ctlFirst : Bool) (T : ℚ)
    (script : List (ℚ × CbOp ℚ)) (hT : 0 < T) (hsc : TimerK.ScriptOK script) (hcbs : TimerK.CbsOK cbs) (fuel : Nat)
    (s : KState ℚ (TSt ℚ))
    (hreach : KReach (TimerOnK.body auto arg cbs) (fuel + 1) (TimerOnK.initState ctlFirst T script) s) :
    ((∃ s', _root_.step (TimerOnK.body auto arg cbs) (fuel + 1) s = .ok s') ∨
      _root_.step (TimerOnK.body auto arg cbs) (fuel + 1) s = .empty) ∧
    ∃ o, TimerOnK.orun auto cbs (TimerOnK.o0 T) (TimerOnK.histOf s.trace) = some o ∧
      (∀ e, o.pending = some e → s.now ≤ e) ∧ (s.agenda = [] → o.pending = none) :=
  C19K.timer_on_kernel_fire_instants auto arg cbs ctlFirst T script hT hsc hcbs fuel s hreach

/-- **A one-shot timer's run on the kernel model ends with nothing pending**: with `auto_restart = False`, `run()` returns
(no exception, agenda empty) within `6·(controller calls) + (length of the callback script) + 6` kernel steps; the call/fire
history of the final trace passes the oracle and leaves nothing pending — every prescribed firing has happened, exactly at
its instant, and there was no other. -/
theorem timer_on_kernel_one_shot_returns (arg : Int) (cbs : List (Option (CbOp ℚ))) (ctlFirst : Bool) (T : ℚ)
    (script : List (ℚ × CbOp ℚ)) (hT : 0 < T) (hsc : TimerK.ScriptOK script) (hcbs : TimerK.CbsOK cbs) (fuel n : Nat)
    (hn : 6 * script.length + cbs.length + 6 ≤ n) :
    ∃ sF o, runAll (TimerOnK.body false arg cbs) (fuel + 1) n (TimerOnK.initState ctlFirst T script) = .returned .none sF ∧
      sF.agenda = [] ∧ TimerOnK.orun false cbs (TimerOnK.o0 T) (TimerOnK.histOf sF.trace) = some o ∧ o.pending = none :=
  C19K.timer_on_kernel_one_shot_returns arg cbs ctlFirst T script hT hsc hcbs fuel n hn

/-- **`fire_instants_strictly_increase` transferred to kernel runs**: at every reachable kernel state the callback
invocations recorded in the trace happened at strictly increasing, non-negative instants (no expiry fires twice). -/
theorem kernel_run_fire_instants_strictly_increase (auto : Bool) (arg : Int) (cbs : List (Option (CbOp ℚ)))
    (ctlFirst : Bool) (T : ℚ) (script : List (ℚ × CbOp ℚ)) (hT : 0 < T) (hsc : TimerK.ScriptOK script)
    (hcbs : TimerK.CbsOK cbs) (fuel : Nat) (s : KState ℚ (TSt ℚ))
    (hreach : KReach (TimerOnK.body auto arg cbs) (fuel + 1) (TimerOnK.initState ctlFirst T script) s) :
    (TimerOnK.firesOf s.trace).Pairwise (· < ·) ∧ ∀ t ∈ TimerOnK.firesOf s.trace, 0 ≤ t := by
  obtain ⟨s0, acts, hc, hr⟩ := timer_on_kernel_refines_lts auto arg cbs ctlFirst T script hT hsc hcbs fuel s hreach
  obtain ⟨h1, h2⟩ := fire_instants_strictly_increase 0 T auto (.scalar arg) s0 hc acts _ _ hr
  have hm : ((TimerOnK.firesOf s.trace).map fun t => Out.fire t [arg]).map Out.time = TimerOnK.firesOf s.trace := by
    rw [List.map_map]
    exact List.map_id' _
  rw [hm] at h1
  refine ⟨h1, ?_⟩
  intro t ht
  obtain ⟨t', h3, h4⟩ := h2 (Out.fire t [arg]) (List.mem_map.mpr ⟨t, ht, rfl⟩)
  cases h3
  exact h4

/-- **`no_double_fire` transferred to kernel runs**: in the LTS state a reachable kernel state stands for, every timer
process other than `self.proc` that is still alive has an interrupt pending in the URGENT queue. -/
theorem kernel_run_no_double_fire (auto : Bool) (arg : Int) (cbs : List (Option (CbOp ℚ))) (ctlFirst : Bool) (T : ℚ)
    (script : List (ℚ × CbOp ℚ)) (hT : 0 < T) (hsc : TimerK.ScriptOK script) (hcbs : TimerK.CbsOK cbs) (fuel : Nat)
    (s : KState ℚ (TSt ℚ))
    (hreach : KReach (TimerOnK.body auto arg cbs) (fuel + 1) (TimerOnK.initState ctlFirst T script) s) :
    ∀ (q : Nat) (st : PStat ℚ), (TimerOnK.absTimer auto arg s).procs[q]? = some st →
      q ≠ (TimerOnK.absTimer auto arg s).proc → st ≠ PStat.finished → UEv.intr q ∈ (TimerOnK.absTimer auto arg s).uq := by
  obtain ⟨s0, acts, hc, hr⟩ := timer_on_kernel_refines_lts auto arg cbs ctlFirst T script hT hsc hcbs fuel s hreach
  have hre : Reachable (TimerOnK.absTimer auto arg s) := (Reachable.create hc).run hr
  exact (no_double_fire _ hre).1

end C19
