import OnlVerif.Lemmas.TRKRefine
import OnlVerif.Props.C11
/-!
# C11 on the kernel, second device: the TwoRateTokenBucket *as a process on the kernel model*

`OnlVerif/Net/TwoRateOnK.lean` writes `TwoRateTokenBucket.run` and a packet source (`yield env.timeout(gap); shaper.put(packet)`
for every arrival) as a program of the kernel model `K` (`OnlVerif/Kernel`), with the encoding of `Net/TBOnK.lean`.  Nothing is
assumed about scheduling: `Environment.step` of the kernel model decides what runs when (the store's `StorePut` / `StoreGet`
events, the source's timeouts, the shaper's timeout).  The theorems below are the release recurrence and the colour rule of
C11 for kernel runs, with **no** admissibility assumption, and the refinement of the FifoServer LTS with `TwoRate.dev`.

Scope: one `TwoRateTokenBucket` in either configuration — with PIR and PBS (`pir > 0`, `pbs > 0`) or CIR / CBS only (`pir`
`None` or `0`; a `pbs` may be given, it is not used) — `cir > 0`, `cbs ≥ 0` (`TwoRate.Good`), an `out` attached; one source
process with non-negative gaps (zero gaps = bursts, and arrivals exactly at release instants, included); packets of any sizes
(also larger than the buckets); exact rational time; `fuel + 1` = any positive bound of the `_resume` loop.
-/

namespace C11K2
open TwoRateOnK TRK

/-- **What the oracle accepts** (`TwoRateOnK.ostep` at exact rational time, spelled out): an `out id colour t` observation is
accepted in oracle state `o` iff `id` is the oldest waiting packet — put at `tp`, say — and the rule (`oOut`) prescribes
departure instant `t` and this colour for it; then the two levels become what the rule prescribes, `update_time` is `t` and
the server is free from `t`. -/
theorem oracle_accepts_iff (size : Int → Nat) (cfg : TrCfg ℚ) (o : OSt ℚ) (id : Int) (col : Nat) (t : ℚ) :
    (ostep size cfg o (.out id col t)).isSome ↔
      ∃ tp rest cm pk, o.waiting = (id, tp) :: rest ∧ oOut size cfg o id tp = some (t, col, cm, pk) := by
  simp only [ostep]
  cases hw : o.waiting with
  | nil => simp
  | cons x rest =>
    obtain ⟨id', tp⟩ := x
    simp only
    constructor
    · intro h
      cases ho : oOut size cfg o id tp with
      | none => rw [ho] at h; simp at h
      | some r =>
        rw [ho] at h
        simp only at h
        split at h
        · rename_i hc
          obtain ⟨rfl, h2, h3⟩ := hc
          obtain ⟨t', col', cm, pk⟩ := r
          exact ⟨tp, rest, cm, pk, rfl, by rw [(eqT_iff _ _).mp h3, h2]; exact ho⟩
        · simp at h
    · rintro ⟨tp', rest', cm, pk, hcons, h2⟩
      simp only [List.cons.injEq, Prod.mk.injEq] at hcons
      obtain ⟨⟨rfl, rfl⟩, rfl⟩ := hcons
      rw [h2]
      simp [eqT_iff]

/-- **The rule, one packet at a time** (`oOut` spelled out): a packet of `size` bytes put at `tp`, with the server free from
`free`, the committed level `commit` and the peak level `peak` last updated at `upd`, reaches the head at
`g = max(free, tp)`; the committed bucket is refilled to `C = min(cbs, commit + cir·(g − upd)/8)`.
*With PIR* `k` and PBS `b` the peak bucket is refilled to `P = min(b, peak + k·(g − upd)/8)` and the packet is
**red** iff `P < size` — it then leaves `(size − P)·8/k` later, the peak bucket is emptied, the committed level stays `C` —,
**yellow** iff `P ≥ size` and `C < size` (it leaves at `g`; the peak bucket pays, the committed bucket is emptied),
**green** iff both cover it (it leaves at `g`; both pay).
*Without PIR* it is **green** iff `C ≥ size` (it leaves at `g`, the committed bucket pays), else **yellow**
`(size − C)·8/cir` later (the committed bucket is emptied); the peak level is never touched. -/
theorem colour_rule_step (size : Int → Nat) (cfg : TrCfg ℚ) (o : OSt ℚ) (id : Int) (tp : ℚ) :
    let g := max o.free tp
    let C := min cfg.cbs (o.commit + cfg.cir * (g - o.upd) / 8)
    let sz : ℚ := (size id : ℚ)
    (∀ k b pl, TwoRate.pirOn cfg = some k → TwoRate.pbsOn cfg = some b → o.peak = some pl →
      let P := min b (pl + k * (g - o.upd) / 8)
      oOut size cfg o id tp =
        if P < sz then some (g + (sz - P) * 8 / k, TwoRate.red, C, some 0)
        else if C < sz then some (g, TwoRate.yellow, 0, some (P - sz))
        else some (g, TwoRate.green, C - sz, some (P - sz))) ∧
    (TwoRate.pirOn cfg = none →
      oOut size cfg o id tp =
        if C < sz then some (g + (sz - C) * 8 / cfg.cir, TwoRate.yellow, 0, o.peak)
        else some (g, TwoRate.green, C - sz, o.peak)) := by
  intro g C sz
  have hg : Num.pymax o.free tp = g := Num.pymax_eq _ _
  have hC : TwoRate.refillLevel cfg.cbs o.commit cfg.cir o.upd g = C := TwoRate.refillLevel_eq _ _ _ _ _
  have hsz : (Num.ofNat (pktOf (τ := ℚ) size id).size : ℚ) = sz := by simp [pktOf, sz]
  constructor
  · intro k b pl hk hb hpl P
    have hP : TwoRate.refillLevel b pl k o.upd g = P := TwoRate.refillLevel_eq _ _ _ _ _
    unfold oOut verdict
    simp only [hg, hk, hb, hpl, hC, hP, hsz]
    by_cases h1 : P < sz
    · simp only [if_pos h1, afterWait, hk, TwoRate.tokenWait_eq, zero_eq']
      simp [pktOf, sz]
    · simp only [if_neg h1]
      by_cases h2 : C < sz
      · simp only [if_pos h2, zero_eq']
      · simp only [if_neg h2]
  · intro hk
    unfold oOut verdict
    simp only [hg, hk, hC, hsz]
    by_cases h2 : C < sz
    · simp only [if_pos h2, afterWait, hk, TwoRate.tokenWait_eq, zero_eq']
      simp [pktOf, sz]
    · simp only [if_neg h2]

/-- **The history of every kernel run passes the oracle, step by step, and no step crashes**: at every state reachable by
kernel steps the next `Environment.step` processes an event normally or finds the agenda empty — no exception leaves a
process, in particular neither `assert self.pbs` nor `assert self.current_bucket_peak is not None` fails —, and the `put` /
`out` observations recorded so far are accepted by `TwoRateOnK.orun` from the state of a fresh shaper: every packet that has
left did so in arrival order, exactly at the instant and with the colour the rule prescribes. -/
theorem tworate_on_kernel_history_accepted (size : Int → Nat) (cfg : TrCfg ℚ) (arrivals : List ℚ) (hg : GapsOK arrivals)
    (hgood : TwoRate.Good cfg) (fuel : Nat) (s : KState ℚ (TrS ℚ))
    (hreach : KReach (body size cfg) (fuel + 1) (initState cfg arrivals) s) :
    ((∃ s', step (body size cfg) (fuel + 1) s = .ok s') ∨ step (body size cfg) (fuel + 1) s = .empty) ∧
    ∃ o, orun size cfg (oInit cfg) (histOf s.trace) = some o := by
  obtain ⟨a, hi⟩ := reach_inv3 (size := size) fuel hg hgood hreach
  refine ⟨?_, ?_⟩
  · cases hp : popMin s.agenda with
    | none => right; simp [step, hp]
    | some qr =>
      obtain ⟨q, rest⟩ := qr
      obtain ⟨s', _, _, h1, _⟩ := inv3_step fuel hi hp
      exact Or.inl ⟨s', h1⟩
  · obtain ⟨o, ho⟩ := hi.o
    exact ⟨o, ho.run⟩

/-- **Release recurrence and colour rule hold for the TwoRateTokenBucket as a kernel process, for every workload, with no
admissibility assumption.**  For every good configuration (with PIR / PBS or CIR / CBS only), all packet sizes and every
finite arrival list with non-negative gaps: `run()` of the kernel model on the two spawned processes returns (agenda empty,
no exception — no `assert` fails) within `5·n + 4` steps; it has handed exactly the workload to `put` (packet `k` at the sum
of the first `k + 1` gaps); and its `put` / `out` history is accepted by the oracle and leaves nothing waiting — every packet
was forwarded once, in arrival order, exactly at the instant the recurrence prescribes against the shaping bucket (the peak
bucket with PIR, the committed bucket without), painted green iff all configured buckets covered it when it reached the
head, yellow iff only the committed tokens were short (with PIR) resp. it waited for committed tokens (without), red iff it
waited for peak tokens (`oracle_accepts_iff`, `colour_rule_step`). -/
theorem tworate_on_kernel_releases (size : Int → Nat) (cfg : TrCfg ℚ) (arrivals : List ℚ) (hg : GapsOK arrivals)
    (hgood : TwoRate.Good cfg) (fuel n : Nat) (hn : 5 * arrivals.length + 4 ≤ n) :
    ∃ sF o, runAll (body size cfg) (fuel + 1) n (initState cfg arrivals) = .returned .none sF ∧ sF.agenda = [] ∧
      obsPuts (histOf sF.trace) = arrivalsFrom 0 0 arrivals ∧
      orun size cfg (oInit cfg) (histOf sF.trace) = some o ∧ o.waiting = [] := by
  obtain ⟨sF, aF, h1, h2, h3, -⟩ := run_returns3 fuel (initState cfg arrivals) n _ _
    (inv3_init (size := size) hg hgood) (by rw [a0_mu]; omega) KReach.init
  obtain ⟨o, g1, g2, g3⟩ := inv3_final h2 h3
  exact ⟨sF, o, h1, h3, g3, g1, g2⟩

/-! ### refinement: the kernel run is an admissible run of the FifoServer LTS of the shaper -/

/-- **Refinement, step by step**: let `s` be reachable by kernel steps from the initial state and let the next kernel step
end in `s'`.  Then that step is a normal one (`.ok`), and whatever value the ghost field (`log`) of the LTS's device state
holds, there is a (possibly empty) sequence of LTS actions that the shaper's LTS (`Net/Fifo.lean` with `TwoRate.dev`)
*accepts* from the abstraction of `s` and that ends in the abstraction of `s'` (with some ghost value): the step commutes with
`absTR`; the packets that enter / leave in it are those the kernel step reports. -/
theorem tworate_on_kernel_step_refines (size : Int → Nat) (cfg : TrCfg ℚ) (arrivals : List ℚ) (hg : GapsOK arrivals)
    (hgood : TwoRate.Good cfg) (fuel : Nat) (s s' : KState ℚ (TrS ℚ))
    (hreach : KReach (body size cfg) (fuel + 1) (initState cfg arrivals) s)
    (hstep : (step (body size cfg) (fuel + 1) s).state? = some s') :
    step (body size cfg) (fuel + 1) s = .ok s' ∧
    ∃ new, histOf s'.trace = histOf s.trace ++ new ∧
      ∀ lg, ∃ lg' acts, Fifo.runActs (TwoRate.dev cfg) (setGhost (absTR size s) lg) acts =
        .ok (setGhost (absTR size s') lg', putIds new, outIds new) := by
  obtain ⟨a, _, _, hi, hsent, _⟩ := reach_lts (size := size) fuel hg hgood hreach
  cases hp : popMin s.agenda with
  | none => simp [step, hp, StepResult.state?] at hstep
  | some qr =>
    obtain ⟨q, rest⟩ := qr
    obtain ⟨s'', a', new, h1, h2, -, h4, h5⟩ := inv_step_lts fuel hi hsent hp
    rw [h1] at hstep
    simp only [StepResult.state?, Option.some.injEq] at hstep
    subst hstep
    refine ⟨h1, new, h4, ?_⟩
    intro lg
    obtain ⟨lg', acts, h7⟩ := h5 lg
    exact ⟨lg', acts, by rw [absTR_eq hi, absTR_eq h2]; exact h7⟩

/-- **Refinement, whole runs**: every state reachable by kernel steps is the image (under `absTR`, with some value in the
ghost field) of an *admissible* run of the shaper's LTS from its initial state: the LTS accepts some action sequence in which
the packets that entered are those handed to `put` and the packets that left are those handed to `out.put`, in the order of
the kernel trace. -/
theorem tworate_on_kernel_refines_lts (size : Int → Nat) (cfg : TrCfg ℚ) (arrivals : List ℚ) (hg : GapsOK arrivals)
    (hgood : TwoRate.Good cfg) (fuel : Nat) (s : KState ℚ (TrS ℚ))
    (hreach : KReach (body size cfg) (fuel + 1) (initState cfg arrivals) s) :
    ∃ acts lg, Fifo.runActs (TwoRate.dev cfg) (C11.trStart cfg 0) acts =
      .ok (setGhost (absTR size s) lg, putIds (histOf s.trace), outIds (histOf s.trace)) := by
  obtain ⟨a, acts, lg, hi, -, hrun⟩ := reach_lts (size := size) fuel hg hgood hreach
  exact ⟨acts, lg, by rw [absTR_eq hi]; exact hrun⟩

/-- **First in first out, nothing lost, on the kernel** (`C11.tworate_lossless_fifo`): at every state reachable by kernel
steps the packets handed to `put` so far are, in order, exactly those handed to `out.put` followed by those still inside
(held by `run`, then waiting in the store). -/
theorem kernel_tworate_lossless_fifo (size : Int → Nat) (cfg : TrCfg ℚ) (arrivals : List ℚ) (hg : GapsOK arrivals)
    (hgood : TwoRate.Good cfg) (fuel : Nat) (s : KState ℚ (TrS ℚ))
    (hreach : KReach (body size cfg) (fuel + 1) (initState cfg arrivals) s) :
    putIds (histOf s.trace) = outIds (histOf s.trace) ++ Fifo.held (absTR size s) := by
  obtain ⟨acts, lg, h⟩ := tworate_on_kernel_refines_lts size cfg arrivals hg hgood fuel s hreach
  have := (C11.tworate_lossless_fifo cfg 0 acts _ _ _ h).1
  have hh : Fifo.held (setGhost (absTR size s) lg) = Fifo.held (absTR size s) := rfl
  rw [hh] at this
  exact this

/-- **Green traffic conforms to (CIR, CBS) on the kernel** (`C11.green_conforms`): the kernel run so far is the image of an
LTS run whose debit log `lg` (one entry per forwarded packet: instant, size, colour) satisfies, over any stretch of its green
entries and for all `i ≤ j`: `size_i + … + size_j ≤ max(CBS, size_i) + CIR·(t_j − t_i)/8`. -/
theorem kernel_green_conforms (size : Int → Nat) (cfg : TrCfg ℚ) (arrivals : List ℚ) (hg : GapsOK arrivals)
    (hgood : TwoRate.Good cfg) (fuel : Nat) (s : KState ℚ (TrS ℚ))
    (hreach : KReach (body size cfg) (fuel + 1) (initState cfg arrivals) s) :
    ∃ acts lg, Fifo.runActs (TwoRate.dev cfg) (C11.trStart cfg 0) acts =
        .ok (setGhost (absTR size s) lg, putIds (histOf s.trace), outIds (histOf s.trace)) ∧
      ∀ (newer mid older : List (ℚ × ℕ)) (ej ei : ℚ × ℕ), TwoRate.greens lg = newer ++ ej :: (mid ++ ei :: older) →
        (ej.2 : ℚ) + Envelope.bytes mid + ei.2 ≤ max cfg.cbs ei.2 + cfg.cir * (ej.1 - ei.1) / 8 := by
  obtain ⟨acts, lg, h⟩ := tworate_on_kernel_refines_lts size cfg arrivals hg hgood fuel s hreach
  refine ⟨acts, lg, h, ?_⟩
  intro newer mid older ej ei hlog
  exact C11.green_conforms cfg hgood 0 (le_refl _) acts _ _ _ h newer mid older ej ei hlog

/-- **All traffic is shaped on the kernel** (`C11.tworate_envelope`): the kernel run so far is the image of an LTS run whose
debit log satisfies the envelope of the shaping bucket for all `i ≤ j` — (PIR, PBS) when a PIR is given, (CIR, CBS)
otherwise. -/
theorem kernel_tworate_envelope (size : Int → Nat) (cfg : TrCfg ℚ) (arrivals : List ℚ) (hg : GapsOK arrivals)
    (hgood : TwoRate.Good cfg) (fuel : Nat) (s : KState ℚ (TrS ℚ))
    (hreach : KReach (body size cfg) (fuel + 1) (initState cfg arrivals) s) :
    ∃ acts lg, Fifo.runActs (TwoRate.dev cfg) (C11.trStart cfg 0) acts =
        .ok (setGhost (absTR size s) lg, putIds (histOf s.trace), outIds (histOf s.trace)) ∧
      ∀ (newer mid older : List (ℚ × ℕ)) (ej ei : ℚ × ℕ), TwoRate.alls lg = newer ++ ej :: (mid ++ ei :: older) →
        (∀ k b, TwoRate.pirOn cfg = some k → TwoRate.pbsOn cfg = some b →
          (ej.2 : ℚ) + Envelope.bytes mid + ei.2 ≤ max b ei.2 + k * (ej.1 - ei.1) / 8) ∧
        (TwoRate.pirOn cfg = none →
          (ej.2 : ℚ) + Envelope.bytes mid + ei.2 ≤ max cfg.cbs ei.2 + cfg.cir * (ej.1 - ei.1) / 8) := by
  obtain ⟨acts, lg, h⟩ := tworate_on_kernel_refines_lts size cfg arrivals hg hgood fuel s hreach
  refine ⟨acts, lg, h, ?_⟩
  intro newer mid older ej ei hlog
  exact C11.tworate_envelope cfg hgood 0 (le_refl _) acts _ _ _ h newer mid older ej ei hlog

/-! ### concrete runs of the kernel model, evaluated by the kernel of Lean (exact arithmetic) -/

/-- one committed byte per time unit into a bucket of 2, two peak bytes per time unit into a bucket of 4 -/
def both : TrCfg ℚ := { cir := 8, cbs := 2, pir := some 16, pbs := some 4 }
/-- the committed bucket alone (a PBS is given and ignored) -/
def cirOnly : TrCfg ℚ := { cir := 8, cbs := 2, pir := none, pbs := some 4 }
def two : Int → Nat := fun _ => 2

/-- what a finished run shows: entries left in the agenda, the departures `(id, colour, instant)`, and the packets the oracle
still waits for -/
def runTR (cfg : TrCfg ℚ) (n : Nat) (arr : List ℚ) : Option (Nat × List (Int × Nat × ℚ) × Option Nat) :=
  (finalState (runAll (body two cfg) 1 n (initState cfg arr))).map fun s =>
    (s.agenda.length, outsOf s.trace, (orun two cfg (oInit cfg) (histOf s.trace)).map (·.waiting.length))

/-- a burst of four packets of 2 bytes at 0, then arrivals at 1 (exactly when the red packet leaves) and at 6: packet 0 is
green (both buckets cover it), packet 1 yellow (the committed bucket is empty, the peak bucket still holds 2), packet 2 finds
the peak bucket empty and leaves red at 1, packet 3 waits again: red at 2; packet 4, put at 1, reaches the head at 2 (peak
bucket empty): red at 3; packet 5 at 6 finds both buckets refilled: green.  The oracle accepts the history. -/
example : runTR both 40 [0, 0, 0, 0, 1, 5] =
    some (0, [(0, 1, 0), (1, 2, 0), (2, 3, 1), (3, 3, 2), (4, 3, 3), (5, 1, 6)], some 0) := by
  decide +kernel

/-- without PIR: green, then yellow after waiting two time units for committed tokens (a same-instant burst), … -/
example : runTR cirOnly 40 [0, 0, 0, 1, 5] = some (0, [(0, 1, 0), (1, 2, 2), (2, 2, 4), (3, 2, 6), (4, 2, 8)], some 0) := by
  decide +kernel

/-- the oracle is not vacuous: it rejects a wrong colour, a departure that is too early or too late, and a wrong order -/
example : orun two both (oInit both) [.put 0 0, .put 1 0, .out 0 1 0, .out 1 2 0] ≠ none ∧
    orun two both (oInit both) [.put 0 0, .put 1 0, .out 0 1 0, .out 1 1 0] = none ∧
    orun two both (oInit both) [.put 0 0, .put 1 0, .out 0 2 0] = none ∧
    orun two both (oInit both) [.put 0 0, .put 1 0, .out 0 1 0, .out 1 2 1] = none ∧
    orun two both (oInit both) [.put 0 0, .put 1 0, .out 1 1 0] = none := by
  decide +kernel

/-- the hypotheses of the theorems are met by these configurations -/
example : GapsOK [0, 0, 0, 0, 1, 5] ∧ TwoRate.Good both ∧ TwoRate.Good cirOnly := by
  have hp : TwoRate.pirOn both = some 16 := by decide +kernel
  have hb : TwoRate.pbsOn both = some 4 := by decide +kernel
  have hn : TwoRate.pirOn cirOnly = none := rfl
  refine ⟨by intro x hx; simp at hx; rcases hx with rfl | rfl | rfl | rfl | rfl | rfl <;> norm_num,
    ⟨by norm_num [both], by norm_num [both], ?_⟩, ⟨by norm_num [cirOnly], by norm_num [cirOnly], ?_⟩⟩
  · intro k hk
    rw [hp] at hk; cases hk
    exact ⟨by norm_num, 4, hb, by norm_num⟩
  · intro k hk
    rw [hn] at hk; cases hk

end C11K2
