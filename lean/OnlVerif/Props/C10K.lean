import OnlVerif.Lemmas.WireKRefine
/-!
# C10 on the kernel: the Wire *as a process on the kernel model* delivers by the recurrence of the property

`OnlVerif/Net/WireOnK.lean` writes `Wire.run` and a packet source (`yield env.timeout(gap); wire.put(packet)` for every
arrival) as a program of the kernel model `K` (`OnlVerif/Kernel`), with the loss draws (`random.uniform(0, 1)`) and the
delay draws (`delay_dist()`) supplied as part of the workload.  Nothing is assumed about scheduling: `Environment.step`
of the kernel model decides what runs when (the store's `StorePut`/`StoreGet` events, the source's and the wire's
timeouts).  The theorem below is the property's formula for kernel runs, with **no** admissibility assumption.

Scope: one `Wire` (a `Cable` is two of them sharing nothing), any `loss_rate` (`None`, `0`, a probability, `1`), one
source process with non-negative gaps (zero gaps = bursts, and arrivals exactly at delivery instants, included),
non-negative delays, an unbounded store; exact rational time; `fuel + 1` = any positive bound of the `_resume` loop.
`wire_on_kernel_refines_lts` is the refinement form against the FifoServer LTS of the wire (`Net/Fifo.lean` with `Net/Wire.lean`):
every kernel step is a (possibly empty) action sequence that LTS accepts, so its admissibility rules are consequences of the
kernel model for this device too.  The LTS's device state carries ghost fields (a log of all packets that left, for its own
theorems; no decision reads them): the abstraction function `absWire` determines everything else.
-/

namespace C10K
open WireOnK WireK

theorem draw_nonneg (delays : List ℚ) (hd : ∀ d ∈ delays, 0 ≤ d) (k : Nat) : 0 ≤ draw delays k := by
  unfold draw
  rw [List.getD_eq_getElem?_getD]
  cases h : delays[k]? with
  | none => simp [zero_eq']
  | some d => exact hd d (List.mem_of_getElem? h)

/-- **The delivery recurrence holds for the Wire as a kernel process, for every workload, with no admissibility
assumption.**  For every `loss_rate`, every finite arrival list with non-negative gaps, every list of non-negative delay
draws and every list of loss draws: `run()` of the kernel model on the two spawned processes returns (agenda empty)
within `4·n + 4` steps, and the `out.put(packet)` observations of the trace are exactly `WireOnK.deliveries`: the packets
whose loss draw is not `< loss_rate` (all of them when `loss_rate` is `None` or `0`), in arrival order, packet `k` at
`max(a_k + d, delivery of the previous delivered packet)`, `a_k` = the sum of the first `k + 1` gaps, `d` = the next unused
delay draw; a lost packet is never delivered and delays nobody (spelled out in `delivery_recurrence`). -/
theorem wire_on_kernel_deliveries (cfg : WireCfg ℚ) (losses delays arrivals : List ℚ)
    (hg : ∀ x ∈ arrivals, 0 ≤ x) (hd : ∀ d ∈ delays, 0 ≤ d) (fuel n : Nat) (hn : 4 * arrivals.length + 4 ≤ n) :
    ∃ sF, runAll (body cfg losses delays) (fuel + 1) n (initState arrivals) = .returned .none sF ∧ sF.agenda = [] ∧
      outsOf sF.trace = deliveries cfg losses delays none 0 0 0 0 arrivals := by
  have h0 : Inv cfg losses delays arrivals (initState arrivals) (a0 arrivals) := inv_init arrivals hg
  have hmu : (a0 arrivals).mu < n := by
    simp [A.mu, a0, WPhase.mu, SPhase.mu]; omega
  obtain ⟨sF, aF, h1, h2, h3⟩ := run_returns fuel n _ _ h0 hmu
  refine ⟨sF, h1, h3, ?_⟩
  rw [(inv_final h2 h3).1]
  exact deliv_eq_deliveries (draw_nonneg delays hd) arrivals hg

/-- **What the list `deliveries` is** (the C10 recurrence, one packet at a time).  With the previous delivery `prev`
(`none` before the first), the previous arrival instant `t`, the next packet id `k` and `nl`/`nd` draws used so far, the
packet that arrives after `gap`
* is skipped if its loss draw is `< loss_rate` (`isLost`): the rest of the list is what it would be without it — it is
  never delivered and delays nobody;
* is otherwise delivered at `max(t + gap + d, prev)` (just `t + gap + d` for the first one), `d` = delay draw number `nd`,
  and that instant is the `prev` of the packets behind it. -/
theorem delivery_recurrence (cfg : WireCfg ℚ) (losses delays : List ℚ) (prev : Option ℚ) (t : ℚ) (k nl nd : Nat) (gap : ℚ)
    (rest : List ℚ) :
    (isLost cfg (draw losses nl) = true →
      deliveries cfg losses delays prev t k nl nd (gap :: rest) =
        deliveries cfg losses delays prev (t + gap) (k + 1) (nlNext cfg nl) nd rest) ∧
    (isLost cfg (draw losses nl) = false →
      deliveries cfg losses delays prev t k nl nd (gap :: rest) =
        ((k : Int), (match prev with | none => t + gap + draw delays nd | some p => max (t + gap + draw delays nd) p)) ::
          deliveries cfg losses delays
            (some (match prev with | none => t + gap + draw delays nd | some p => max (t + gap + draw delays nd) p))
            (t + gap) (k + 1) (nlNext cfg nl) (nd + 1) rest) := by
  constructor
  · intro h; simp [deliveries, h]
  · intro h
    cases prev <;> simp [deliveries, h, Num.pymax_eq]

/-- a packet is lost exactly when `loss_rate` is truthy and its draw is smaller -/
theorem isLost_iff (cfg : WireCfg ℚ) (x : ℚ) :
    isLost cfg x = true ↔ ∃ r, cfg.lossRate = some r ∧ r ≠ 0 ∧ x < r := by
  unfold isLost Wire.lostNow Wire.lossOn Num.optOn Num.truthy
  cases h : cfg.lossRate with
  | none => simp
  | some r =>
    simp only [zero_eq', Option.some.injEq, exists_eq_left']
    by_cases h0 : r = 0
    · simp [h0]
    · have : (decide (r < 0) || decide (0 < r)) = true := by
        rcases lt_or_gt_of_ne h0 with h1 | h1 <;> simp [h1]
      simp [this, h0]

/-- **No loss without a loss rate** (`wire_no_loss` on the kernel): with `loss_rate` `None` or `0` every packet handed to
`put` is delivered, once, in arrival order. -/
theorem wire_on_kernel_no_loss (cfg : WireCfg ℚ) (hcfg : cfg.lossRate = none ∨ cfg.lossRate = some 0)
    (losses delays arrivals : List ℚ) (hg : ∀ x ∈ arrivals, 0 ≤ x) (hd : ∀ d ∈ delays, 0 ≤ d) (fuel n : Nat)
    (hn : 4 * arrivals.length + 4 ≤ n) :
    ∃ sF, runAll (body cfg losses delays) (fuel + 1) n (initState arrivals) = .returned .none sF ∧
      (outsOf sF.trace).map (·.1) = (List.range arrivals.length).map (fun (k : Nat) => (k : Int)) := by
  obtain ⟨sF, h1, -, h3⟩ := wire_on_kernel_deliveries cfg losses delays arrivals hg hd fuel n hn
  refine ⟨sF, h1, ?_⟩
  rw [h3]
  have hnl : ∀ x, isLost cfg x = false := by
    intro x
    cases hl : isLost cfg x with
    | false => rfl
    | true =>
      obtain ⟨r, h4, h5, -⟩ := (isLost_iff cfg x).mp hl
      rcases hcfg with h | h
      · rw [h] at h4; cases h4
      · rw [h] at h4; cases h4; exact absurd rfl h5
  have key : ∀ (gaps : List ℚ) (prev : Option ℚ) (t : ℚ) (k nl nd : Nat),
      (deliveries cfg losses delays prev t k nl nd gaps).map (·.1) = (List.range gaps.length).map (fun j => ((k + j : Nat) : Int)) := by
    intro gaps
    induction gaps with
    | nil => intro prev t k nl nd; simp [deliveries]
    | cons gap rest ih =>
      intro prev t k nl nd
      simp only [deliveries, hnl, Bool.false_eq_true, if_false, List.map_cons, List.length_cons]
      rw [ih, List.range_succ_eq_map, List.map_cons, List.map_map]
      simp only [Nat.add_zero, List.cons.injEq, true_and]
      apply List.map_congr_left
      intro j _
      simp only [Function.comp]
      congr 1
      omega
  have := key arrivals none 0 0 0 0
  simp only [Nat.zero_add] at this
  exact this

def noLoss : WireCfg ℚ := { lossRate := none }
def half : WireCfg ℚ := { lossRate := some (1/2) }

/-- **Refinement, step by step**: let `s` be reachable by kernel steps from the initial state and let the next kernel
step end in `s'`.  Then that step is a normal one (`.ok`), and whatever values `gh` the ghost fields of the LTS's device
state hold, there is a (possibly empty) sequence of LTS actions that the wire's LTS *accepts* from the abstraction of `s`
and that ends in the abstraction of `s'` (with some ghost values `gh'`): the step commutes with `absWire`; the packets
that leave in it are those the kernel step reports (`out` and `lost` observations). -/
theorem wire_on_kernel_step_refines (cfg : WireCfg ℚ) (losses delays arrivals : List ℚ) (hg : ∀ x ∈ arrivals, 0 ≤ x)
    (fuel : Nat) (s s' : KState ℚ (WSt ℚ))
    (hreach : KReach (body cfg losses delays) (fuel + 1) (initState arrivals) s)
    (hstep : (step (body cfg losses delays) (fuel + 1) s).state? = some s') :
    step (body cfg losses delays) (fuel + 1) s = .ok s' ∧
    ∃ lf, leftsOf s'.trace = leftsOf s.trace ++ lf ∧
      ∀ gh, ∃ gh' acts ins, Fifo.runActs (Wire.dev cfg) (setGhost (absWire s) gh) acts =
        .ok (setGhost (absWire s') gh', ins, lf.map Int.toNat) := by
  obtain ⟨a, _, _, hi, _⟩ := reach_inv (cfg := cfg) (losses := losses) (delays := delays) fuel hg hreach
  cases hp : popMin s.agenda with
  | none => simp [step, hp, StepResult.state?] at hstep
  | some qr =>
    obtain ⟨q, rest⟩ := qr
    obtain ⟨s'', a', new, lf, ins, h1, h2, -, h4, -, h6⟩ := inv_step_lts fuel hi hp
    rw [h1] at hstep
    simp only [StepResult.state?, Option.some.injEq] at hstep
    subst hstep
    refine ⟨h1, lf, h4, ?_⟩
    intro gh
    obtain ⟨gh', acts, h7⟩ := h6 gh
    exact ⟨gh', acts, ins, by rw [absWire_eq hi, absWire_eq h2]; exact h7⟩

/-- **Refinement, whole runs**: every state reachable by kernel steps is the image (under `absWire`, with some values in
the ghost fields) of an *admissible* run of the wire's LTS from its initial state: the LTS accepts some action sequence in
which the packets that entered are `0, …, packets_rec - 1` and the packets that left (forwarded or dropped) are exactly
those the kernel trace reports, in order. -/
theorem wire_on_kernel_refines_lts (cfg : WireCfg ℚ) (losses delays arrivals : List ℚ) (hg : ∀ x ∈ arrivals, 0 ≤ x)
    (fuel : Nat) (s : KState ℚ (WSt ℚ))
    (hreach : KReach (body cfg losses delays) (fuel + 1) (initState arrivals) s) :
    ∃ acts gh, Fifo.runActs (Wire.dev cfg) (Fifo.init (Wire.st0 0) 0) acts =
      .ok (setGhost (absWire s) gh, List.range (recCell s), (leftsOf s.trace).map Int.toNat) := by
  obtain ⟨a, acts, gh, hi, hrun⟩ := reach_inv (cfg := cfg) (losses := losses) (delays := delays) fuel hg hreach
  refine ⟨acts, gh, ?_⟩
  have hrec : recCell s = a.cts.length := by
    have := congrArg (fun st => st.dev.packetsRec) (absWire_eq hi gh)
    have hr : (absWire s).dev.packetsRec = recCell s := by
      unfold absWire
      split
      · split <;> rfl
      · rfl
      · rfl
    simp only [setGhost, toF] at this
    rw [← hr]; exact this
  rw [absWire_eq hi, hrec]
  exact hrun

/-- a reachable state in the middle of a run (after 9 kernel steps of a burst of three at t = 1 with delay 2): the
abstraction function gives an LTS state with packet 0 propagating until t = 3 and packets 1, 2 waiting, stamped 1 -/
example : (match runAll (body noLoss [] [2, 2, 2]) 1 9 (initState [1, 0, 0]) with
    | .outOfFuel s => some ((absWire s).now, (absWire s).tx.map (fun x => (x.1.id, x.2.1)),
        (absWire s).items.map (fun p => (p.id, p.ctime)), (absWire s).dev.packetsRec)
    | _ => none) = some (1, some (0, 3), [(1, 1), (2, 1)], 3) := by
  decide +kernel

/-! ### non-vacuity: concrete runs of the kernel model, evaluated by the kernel of Lean (exact arithmetic) -/

/-- constant delay 2, arrivals at 1, 1, 1 (a burst), 3, 4: everything leaves two time units after it arrived, the burst
at one instant, in order -/
example : (finalState (runAll (body noLoss [] [2, 2, 2, 2, 2]) 1 24 (initState [1, 0, 0, 2, 1]))).map
    (fun s => (s.agenda.length, outsOf s.trace)) = some (0, [(0, 3), (1, 3), (2, 3), (3, 5), (4, 6)]) := by
  decide +kernel

/-- decreasing delays 5, 3, 1 for arrivals at 0, 1, 2: no overtaking, all three are delivered at 5 -/
example : (finalState (runAll (body noLoss [] [5, 3, 1]) 1 16 (initState [0, 1, 1]))).map (fun s => outsOf s.trace) =
    some [(0, 5), (1, 5), (2, 5)] ∧
    deliveries noLoss [] [5, 3, 1] none 0 0 0 0 [0, 1, 1] = [(0, 5), (1, 5), (2, 5)] := by
  decide +kernel

/-- loss rate 1/2 with draws 3/4, 1/4, 1/2, 0: packets 1 and 3 are lost (a draw equal to the rate is not); the delays 5 and 1
go to packets 0 and 2; the lost packets delay nobody; an arrival (packet 2 at t = 2) while packet 0 propagates -/
example : (finalState (runAll (body half [3/4, 1/4, 1/2, 0] [5, 1]) 1 20 (initState [0, 1, 1, 1]))).map
    (fun s => (s.agenda.length, outsOf s.trace)) = some (0, [(0, 5), (2, 5)]) ∧
    deliveries half [3/4, 1/4, 1/2, 0] [5, 1] none 0 0 0 0 [0, 1, 1, 1] = [(0, 5), (2, 5)] := by
  decide +kernel

/-- an arrival exactly at a delivery instant (t = 3) and zero delay: it is forwarded in the burst that takes it -/
example : (finalState (runAll (body noLoss [] [3, 0]) 1 12 (initState [0, 3]))).map (fun s => outsOf s.trace) =
    some [(0, 3), (1, 3)] := by
  decide +kernel

/-- with one step less than `4·n + 3` the run is not finished -/
example : (finalState (runAll (body noLoss [] [2, 2]) 1 10 (initState [1, 0]))).isNone = true ∧
    (finalState (runAll (body noLoss [] [2, 2]) 1 11 (initState [1, 0]))).isSome = true := by
  decide +kernel

end C10K
