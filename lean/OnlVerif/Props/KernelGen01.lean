import OnlVerif.Lemmas.GenKernelSched01
/-!
# KernelGen01 - the scheduling constants, the queue entry, `Timeout.__init__` and the priority class of every call site *as written in the source* are the kernel model `K` (C01)

One of the bridge modules into which `Props/KernelGen.lean` was split, one per owning property (`py2lean/SCOPE.md`): `py2lean/kernel.py`
regenerates the `Generated/Kernel*.lean` files named in the imports from `onl/sim` on every `./check` of the owning property, and the
theorems below (bridge theorems) prove that the generated definitions coincide with the functions of the hand-written kernel
model `K` (`Kernel/Agenda.lean`, `Ops.lean`, `Step.lean`) that the property theorems are about.  A flipped comparison, a changed
constant, priority or refusal, a lost or reordered effect in the source changes a generated definition and one of these proofs
no longer compiles - for every input, not for sampled ones.  Here: `QEntry.lt`, `KState.schedule`, the `timeout` call of `doCall`, `URGENT` / `NORMAL` and which of the two every place that schedules an occurrence uses (C01).

The encoding between the generated object views and the model state is explicit and hand-written
(`OnlVerif/Lemmas/GenKernelDefs.lean`: `resObj`, `runEff`, `buildEvent`, `applyTrig`, `toEntry`; the `run…` functions next to the
lemmas).  All statements hold for every scalar type `τ` (no arithmetic identity is used), in particular for `ℚ` and `Float`.
This module imports no generated file of another property.
-/

namespace KernelGen
open GenKernel
variable {τ σ : Type} [Num τ]

/-! ## scheduling (C01) -/

/-- **the priorities and the queue entry as written in the source are the model's**: `URGENT = 0`, `NORMAL = 1`;
`Environment.schedule` pushes `(now + delay, priority, next(eid), event)`, which is `KState.schedule`; Python's order on
those tuples is `QEntry.lt`. -/
theorem schedule_generated_eq_model (s : KState τ σ) (e : EvId) (prio : Nat) (delay : τ) (a b : τ × Nat × Nat × Nat) :
    Gen.URGENT = URGENT ∧ Gen.NORMAL = NORMAL ∧
    s.schedule e prio delay = pushEntry s (Gen.Environment.schedule_entry s.now delay prio s.eid e) ∧
    QEntry.lt (toEntry a) (toEntry b) = Py.entryLt a b :=
  ⟨rfl, rfl, rfl, entry_lt_eq a b⟩

/-- **`Timeout.__init__` as written in the source is the model's `timeout` call**: refused with `ValueError` exactly when
`delay < 0`; otherwise an event with no callbacks, `_ok = True` and the given value is scheduled with the priority and
delay of the source's `schedule` call (`NORMAL`, `delay`). -/
theorem timeout_generated_eq_model (s : KState τ σ) (self : EvId) (d : τ) (v : Val) :
    doCall s self (.timeout d v) =
      (if (Gen.Timeout.init (evObj (τ := τ)) d).raised = 2 then (s, .err (valueErr "Negative delay"))
       else match buildEvent (fun _ => Cb.stop) (Gen.Timeout.init (evObj (τ := τ)) d).eff {} with
         | some o =>
           (schedAll (s.newLabelled (o.toRec .timeout v default)).1 (s.newLabelled (o.toRec (τ := τ) .timeout v default)).2
              (schedOf (Gen.Timeout.init (evObj (τ := τ)) d).eff),
            .ev (s.newLabelled (o.toRec (τ := τ) .timeout v default)).2)
         | none => (s, .unit)) :=
  timeout_init s self d v

/-- **every place where the kernel schedules an occurrence puts it in the class, and at the delay, that the model gives it**
(read from the arguments of the `schedule` call at that place, omitted ones being the defaults of `Environment.schedule`; a site is
`none` when its method no longer contains the call - then the owner of the method refuses it - and `some` on the pinned tree, see
the example below): `Event.succeed`, `Event.fail` and the two handlers of `Process._resume` that end a process schedule an
*ordinary* occurrence now (`NORMAL`, delay 0: `KState.trigger`, used by the model's `succeed` / `fail` calls and by `finishProc`);
`Initialize.__init__` (process start: the model's `spawn` call), `Interruption.__init__` (`mkInterrupt`) and the stop event of
`run(until=<number>)` (`runUntilTime`) are *urgent*; and urgent sorts before ordinary.  What else those methods do is the business
of C02 / C03 / C04 (`Props/KernelGen02.lean` … `KernelGen04.lean`, where the names `URGENT` / `NORMAL` stand for the model's
constants). -/
theorem site_priorities_generated_eq_model (s : KState τ σ) (e : EvId) (o : Outcome) :
    (∀ pd, Gen.Site.succeed (α := τ) = some pd → s.trigger e o = (s.setOut e o).schedule e pd.1 pd.2) ∧
    (∀ pd, Gen.Site.fail (α := τ) = some pd → pd = (NORMAL, Num.zero)) ∧
    (∀ pd, Gen.Site.process_returned (α := τ) = some pd → pd = (NORMAL, Num.zero)) ∧
    (∀ pd, Gen.Site.process_raised (α := τ) = some pd → pd = (NORMAL, Num.zero)) ∧
    (∀ pd, Gen.Site.initialize (α := τ) = some pd → pd = (URGENT, Num.zero)) ∧
    (∀ pd, Gen.Site.interruption (α := τ) = some pd → pd = (URGENT, Num.zero)) ∧
    (∀ p, Gen.Site.run_sentinel_priority = some p → p = URGENT) ∧ URGENT < NORMAL := by
  refine ⟨?_, ?_, ?_, ?_, ?_, ?_, ?_, by decide⟩
  all_goals
    intro pd h
    first
      | (cases h; rfl)
      | (simp only [Gen.Site.succeed, Gen.Site.fail, Gen.Site.process_returned, Gen.Site.process_raised, Gen.Site.initialize,
          Gen.Site.interruption, Gen.Site.run_sentinel_priority, reduceCtorEq] at h)

/-! ## non-vacuity: the generated definitions on concrete objects -/

/-- a negative delay is refused, a zero delay is not; on the pinned tree every site is seen, with these (priority, delay) -/
example : (Gen.Timeout.init (evObj (τ := Rat)) (-1)).raised = 2 ∧ (Gen.Timeout.init (evObj (τ := Rat)) 0).raised = 0 ∧
    Gen.Site.succeed (α := Rat) = some (1, 0) ∧ Gen.Site.fail (α := Rat) = some (1, 0) ∧
    Gen.Site.process_returned (α := Rat) = some (1, 0) ∧ Gen.Site.process_raised (α := Rat) = some (1, 0) ∧
    Gen.Site.initialize (α := Rat) = some (0, 0) ∧ Gen.Site.interruption (α := Rat) = some (0, 0) ∧
    Gen.Site.run_sentinel_priority = some 0 := by
  decide

end KernelGen
