import OnlVerif.Lemmas.PortKRun
import OnlVerif.Lemmas.PortKRec
/-!
# C09 on the kernel: the Port *as a process on the kernel model* refines its LTS and serialises at its line rate

`OnlVerif/Net/PortOnK.lean` writes `Port.run` and a packet source (`yield env.timeout(gap); port.put(packet)` for
every arrival) as a program of the kernel model `K` (`OnlVerif/Kernel`).  Here nothing is assumed about scheduling:
`Environment.step` of the kernel model decides what runs when.  The theorems close the gap DESIGN §2.3 names
("element process on K refines its LTS"): every kernel step of this program is a (possibly empty) sequence of
actions the FifoServer LTS of the port (`OnlVerif/Net/Fifo.lean`, `Net/Port.lean`) *accepts*, so the admissibility
rules G1–G3 of the LTS are consequences of the kernel model, not assumptions, for this device.

Scope: `Port` without RED, `element_id` falsy; `qlimit` = `None` or a limit in bytes (`ql : Option Int`; the
packet-count limit reads `len(store.items)`, which no kernel call of the model exposes); every `rate` (no transmission
delay when `rate ≤ 0`); one source process with non-negative gaps (zero gaps = bursts and arrivals exactly at
departure instants are included); exact rational time; `fuel + 1` = any positive bound of the `_resume` loop.  The departure recurrence is stated for `qlimit = None`
(with a limit, which packets are accepted depends on the history); everything else holds for both.
-/

namespace C09K
open PortOnK PortK

/-- **The departure recurrence holds for the Port as a kernel process, for every workload, with no admissibility
assumption.**  For every finite arrival list with non-negative gaps, every size table and every `rate`, without a
queue limit: `run()` of the kernel model on the two spawned processes returns (agenda empty) within `4·n + 4` steps,
and the `out.put(packet)` observations of the trace are exactly `(id_k, d_k)` in arrival order with
`d_k = max(a_k, d_{k-1}) + 8·size_k/rate` (`+ 0` when `rate ≤ 0`), `a_k` = sum of the first `k + 1` gaps
(`PortOnK.departures`, spelled out by index in `departure_recurrence`). -/
theorem port_on_kernel_departures (size : Int → Nat) (rate : ℚ) (arrivals : List (ℚ × Int))
    (hg : ∀ x ∈ arrivals, 0 ≤ x.1) (fuel n : Nat) (hn : 4 * arrivals.length + 4 ≤ n) :
    ∃ sF, runAll (body size rate none) (fuel + 1) n (initState arrivals) = .returned .none sF ∧ sF.agenda = [] ∧
      outsOf sF.trace = departures size rate none 0 arrivals := by
  have h0 : Inv size rate none arrivals (initState arrivals) (a0 arrivals) := inv_init arrivals hg
  have hmu : (a0 arrivals).mu < n := by
    simp [A.mu, a0, PPhase.mu, SPhase.mu]; omega
  obtain ⟨sF, aF, h1, h2, h3⟩ := run_returns fuel n _ _ h0 hmu
  exact ⟨sF, h1, h3, (inv_final h2 h3).1 rfl⟩

/-- **`run()` returns, with or without a byte limit**: within `4·n + 4` steps the kernel model has run both processes
to the end without an exception leaving `step()`; the agenda and the store are empty and every arrival has been
counted in `packets_received`. -/
theorem port_on_kernel_run_returns (size : Int → Nat) (rate : ℚ) (ql : Option Int) (arrivals : List (ℚ × Int))
    (hg : ∀ x ∈ arrivals, 0 ≤ x.1) (fuel n : Nat) (hn : 4 * arrivals.length + 4 ≤ n) :
    ∃ sF, runAll (body size rate ql) (fuel + 1) n (initState arrivals) = .returned .none sF ∧ sF.agenda = [] ∧
      (sF.res storeId).items = [] ∧ (cellInt sF cReceived).toNat = arrivals.length := by
  have h0 : Inv size rate ql arrivals (initState arrivals) (a0 arrivals) := inv_init arrivals hg
  have hmu : (a0 arrivals).mu < n := by
    simp [A.mu, a0, PPhase.mu, SPhase.mu]; omega
  obtain ⟨sF, aF, h1, h2, h3⟩ := run_returns fuel n _ _ h0 hmu
  have hf := inv_final h2 h3
  refine ⟨sF, h1, h3, ?_, ?_⟩
  · show (sF.res 0).items = []
    rw [h2.k.res]; exact hf.2.1
  · have hc : cellInt sF cReceived = aF.recv := cellInt_of h2.k.c1
    rw [hc, Int.toNat_natCast, ← h2.a.nput, hf.2.2.1, List.length_map]

/-- **What the list `departures` is** (the C09 recurrence, by index): it has one entry per arrival; entry `k` carries
the id of arrival `k` and the instant `max(a_k, d_{k-1}) + tx_k` (just `a_0 + tx_0` for `k = 0`), where `a_k` = the sum
of the first `k + 1` gaps, `d_{k-1}` = the instant of entry `k - 1`, and `tx_k = 8·size_k/rate` when `rate > 0`,
`0` otherwise (`if self.rate > 0`). -/
theorem departure_recurrence (size : Int → Nat) (rate : ℚ) (arrivals : List (ℚ × Int)) (k : Nat)
    (hk : k < arrivals.length) :
    (departures size rate none 0 arrivals).length = arrivals.length ∧
    ((departures size rate none 0 arrivals).getD k (0, 0)).1 = (arrivals.getD k (0, 0)).2 ∧
    ((departures size rate none 0 arrivals).getD k (0, 0)).2 =
      (if k = 0 then arrivalAt 0 arrivals 0
       else max (arrivalAt 0 arrivals k) ((departures size rate none 0 arrivals).getD (k - 1) (0, 0)).2) +
        (if 0 < rate then ((size (arrivals.getD k (0, 0)).2 * 8 : ℕ) : ℚ) / rate else 0) := by
  have h := departures_getD size rate arrivals none 0 k hk
  refine ⟨departures_length size rate arrivals none 0, h.1, ?_⟩
  rw [h.2]
  have htx : ∀ id, txDelay size rate id = if 0 < rate then ((size id * 8 : ℕ) : ℚ) / rate else 0 := by
    intro id; unfold txDelay txTime; rw [zero_eq']; rfl
  rw [htx]
  by_cases h0 : k = 0
  · simp [h0]
  · simp [h0]

/-- a burst of three packets at t = 1, an arrival at t = 3 exactly when packet 2 leaves, an arrival at t = 4 exactly
when packet 3 leaves (`rate = 8`, one-byte packets: one time unit each): the kernel model runs the two processes to
the end and its trace is the recurrence -/
example : (finalState (runAll (body (fun _ => 1) (8 : ℚ) none) 1 24
      (initState [(1, 1), (0, 2), (0, 3), (2, 4), (1, 5)]))).map (fun s => (s.agenda.length, outsOf s.trace)) =
    some (0, [(1, 2), (2, 3), (3, 4), (4, 5), (5, 6)]) := by
  decide +kernel

example : departures (fun _ => 1) (8 : ℚ) none 0 [(1, 1), (0, 2), (0, 3), (2, 4), (1, 5)] =
    [(1, 2), (2, 3), (3, 4), (4, 5), (5, 6)] := by
  decide +kernel

/-- an arrival at the very instant the only packet leaves and the port falls idle (t = 1), then an idle period;
sizes 5 (odd ids) and 10 (even ids) bytes at `rate = 40` -/
example : (finalState (runAll (body (fun i => if i % 2 = 0 then 10 else 5) (40 : ℚ) none) 1 16
      (initState [(0, 1), (1, 2), (7, 3)]))).map (fun s => outsOf s.trace) =
    some (departures (fun i => if i % 2 = 0 then 10 else 5) (40 : ℚ) none 0 [(0, 1), (1, 2), (7, 3)]) := by
  decide +kernel

/-- `rate = 0`: no transmission delay, a packet leaves in the burst that takes it (a burst of three leaves at once) -/
example : (finalState (runAll (body (fun _ => 1) (0 : ℚ) none) 1 16 (initState [(1, 1), (0, 2), (0, 3), (2, 4)]))).map
    (fun s => (s.agenda.length, outsOf s.trace)) = some (0, [(1, 1), (2, 1), (3, 1), (4, 3)]) ∧
    departures (fun _ => 1) (0 : ℚ) none 0 [(1, 1), (0, 2), (0, 3), (2, 4)] = [(1, 1), (2, 1), (3, 1), (4, 3)] := by
  decide +kernel

/-- a byte limit of 2 on the burst workload (one-byte packets): the third packet of the burst is refused
(`2 + 1 > 2`), the others are accepted; all five are counted in `packets_received`, one in `packets_dropped` -/
example : (finalState (runAll (body (fun _ => 1) (8 : ℚ) (some 2)) 1 24
      (initState [(1, 1), (0, 2), (0, 3), (2, 4), (1, 5)]))).map
      (fun s => (outsOf s.trace, cellInt s cReceived, cellInt s cDropped)) =
    some ([(1, 2), (2, 3), (4, 4), (5, 5)], 5, 1) := by
  decide +kernel

/-- with one step less than `4·n + 4` the run is not finished: the bound of `port_on_kernel_departures` is exact -/
example : (finalState (runAll (body (fun _ => 1) (8 : ℚ) none) 1 11 (initState [(1, 1), (0, 2)]))).isNone = true ∧
    (finalState (runAll (body (fun _ => 1) (8 : ℚ) none) 1 12 (initState [(1, 1), (0, 2)]))).isSome = true := by
  decide +kernel

/-- **Refinement, step by step**: let `s` be reachable by kernel steps from the initial state and let the next
kernel step end in `s'`.  Then that step is a normal one (`.ok`: no exception, no stop), and there is a (possibly
empty) sequence of LTS actions that the Port LTS *accepts* from the abstraction of `s`, that ends exactly in the
abstraction of `s'` (the step commutes with `absPort`), and whose departures are exactly the `out.put` observations
the kernel step appended to the trace. -/
theorem port_on_kernel_step_refines (size : Int → Nat) (rate : ℚ) (ql : Option Int) (arrivals : List (ℚ × Int))
    (hg : ∀ x ∈ arrivals, 0 ≤ x.1) (fuel : Nat) (s s' : KState ℚ (PSt ℚ))
    (hreach : KReach (body size rate ql) (fuel + 1) (initState arrivals) s)
    (hstep : (step (body size rate ql) (fuel + 1) s).state? = some s') :
    step (body size rate ql) (fuel + 1) s = .ok s' ∧
    ∃ acts ins outs, Fifo.runActs (Port.dev (cfg rate ql)) (absPort size s) acts = .ok (absPort size s', ins, outs) ∧
      (outsOf s'.trace).map (·.1.toNat) = (outsOf s.trace).map (·.1.toNat) ++ outs := by
  obtain ⟨a, _, hi, _⟩ := reach_inv fuel hg hreach
  cases hp : popMin s.agenda with
  | none => simp [step, hp, StepResult.state?] at hstep
  | some qr =>
    obtain ⟨q, rest⟩ := qr
    obtain ⟨s'', a', new, h1, h2, -, h4, acts, insI, -, h6⟩ := inv_step fuel hi hp
    rw [h1] at hstep
    simp only [StepResult.state?, Option.some.injEq] at hstep
    subst hstep
    refine ⟨h1, acts, insI.map Int.toNat, new.map (·.1.toNat), ?_, ?_⟩
    · rw [absPort_eq hi.k, absPort_eq h2.k]; exact h6
    · rw [h4]; simp

/-- a reachable state in the middle of a run (after 11 kernel steps of the burst workload): the abstraction function
gives an LTS state with one packet in transmission until t = 3 and one waiting, `byte_size = 2` -/
example : (match runAll (body (fun _ => 1) (8 : ℚ) none) 1 11 (initState [(1, 1), (0, 2), (0, 3), (2, 4), (1, 5)]) with
    | .outOfFuel s => some ((absPort (fun _ => 1) s).now, (absPort (fun _ => 1) s).tx.map (fun x => (x.1.id, x.2.1)),
        (absPort (fun _ => 1) s).items.map (·.id), (absPort (fun _ => 1) s).dev.byteSize)
    | _ => none) = some (2, some (2, 3), [3], 2) := by
  decide +kernel

/-- **Refinement, whole runs**: every state reachable by kernel steps is the image of an *admissible* run of the
Port LTS from its initial state: the LTS accepts some action sequence that ends in `absPort s`, in which the departed
packets are the `out.put` observations of the kernel trace, in order; the accepted packets `ins` together with
`packets_dropped` account for `packets_received`, and without a limit they are the first `packets_received`
arrivals. -/
theorem port_on_kernel_refines_lts (size : Int → Nat) (rate : ℚ) (ql : Option Int) (arrivals : List (ℚ × Int))
    (hg : ∀ x ∈ arrivals, 0 ≤ x.1) (fuel : Nat) (s : KState ℚ (PSt ℚ))
    (hreach : KReach (body size rate ql) (fuel + 1) (initState arrivals) s) :
    ∃ acts ins, Fifo.runActs (Port.dev (cfg rate ql)) (Fifo.init ({ avg := 0 } : PortSt ℚ) 0) acts =
        .ok (absPort size s, ins, (outsOf s.trace).map (·.1.toNat)) ∧
      ins.length + (cellInt s cDropped).toNat = (cellInt s cReceived).toNat ∧
      (ql = none → ins = ((arrivals.take (cellInt s cReceived).toNat).map (·.2)).map Int.toNat) := by
  obtain ⟨a, acts, hi, hrun⟩ := reach_inv fuel hg hreach
  refine ⟨acts, a.accIds.map Int.toNat, ?_, ?_, ?_⟩
  · rw [absPort_eq hi.k]; exact hrun
  · have hc1 : cellInt s cReceived = a.recv := cellInt_of hi.k.c1
    have hc4 : cellInt s cDropped = a.dropped := cellInt_of hi.k.c4
    rw [hc1, hc4, List.length_map, Int.toNat_natCast, Int.toNat_natCast]
    exact hi.a.nacc
  · intro hql
    rw [hi.a.accnone hql, putIds_eq hi]

/-- **Corollary (C09 `fifo_and_conservation` on the kernel, no limit)**: at every reachable kernel state the
packets handed to `put` so far are, in order, exactly the packets logged by `out.put` followed by the packets the
port holds (handed over / in transmission / waiting in the store): FIFO, nothing lost, nothing duplicated. -/
theorem kernel_fifo_and_conservation (size : Int → Nat) (rate : ℚ) (arrivals : List (ℚ × Int))
    (hg : ∀ x ∈ arrivals, 0 ≤ x.1) (fuel : Nat) (s : KState ℚ (PSt ℚ))
    (hreach : KReach (body size rate none) (fuel + 1) (initState arrivals) s) :
    ((arrivals.take (cellInt s cReceived).toNat).map (·.2)).map Int.toNat =
      (outsOf s.trace).map (·.1.toNat) ++ Fifo.held (absPort size s) := by
  obtain ⟨acts, ins, h, -, h3⟩ := port_on_kernel_refines_lts size rate none arrivals hg fuel s hreach
  have := (Fifo.run_conserves (Port.dev (cfg rate none)) (Port.idPreserving _) acts _ _ _ _ (Fifo.init_shape _ _) h).1
  rw [← h3 rfl]
  simpa [Fifo.init_held] using this

/-- **Corollary (C09 `byte_occupancy_eq_held` on the kernel)**: at every reachable kernel state the attribute
`byte_size` (shared cell 0) equals the bytes of the packets the port holds. -/
theorem kernel_byte_occupancy_eq_held (size : Int → Nat) (rate : ℚ) (ql : Option Int) (arrivals : List (ℚ × Int))
    (hg : ∀ x ∈ arrivals, 0 ≤ x.1) (fuel : Nat) (s : KState ℚ (PSt ℚ))
    (hreach : KReach (body size rate ql) (fuel + 1) (initState arrivals) s) :
    cellInt s cByteSize = Port.heldBytes (absPort size s) := by
  obtain ⟨acts, ins, h, -, -⟩ := port_on_kernel_refines_lts size rate ql arrivals hg fuel s hreach
  have := (Port.run_inv (cfg rate ql) acts _ _ _ _ (Port.init_inv _ 0) h).bytes
  rw [absPort_dev] at this
  exact this

/-- **Corollary (C09 `occupancy_le_byte_limit` on the kernel)**: with a byte limit `l ≥ 0` the attribute `byte_size`
never exceeds it, at any reachable kernel state. -/
theorem kernel_occupancy_le_byte_limit (size : Int → Nat) (rate : ℚ) (l : Int) (hl : 0 ≤ l)
    (arrivals : List (ℚ × Int)) (hg : ∀ x ∈ arrivals, 0 ≤ x.1) (fuel : Nat) (s : KState ℚ (PSt ℚ))
    (hreach : KReach (body size rate (some l)) (fuel + 1) (initState arrivals) s) :
    cellInt s cByteSize ≤ l := by
  obtain ⟨acts, ins, h, -, -⟩ := port_on_kernel_refines_lts size rate (some l) arrivals hg fuel s hreach
  have := (Port.run_inv (cfg rate (some l)) acts _ _ _ _ (Port.init_inv _ 0) h).limB l rfl rfl rfl hl
  rw [absPort_dev] at this
  exact this

/-- **Corollary: the clock of the kernel never passes a due transmission and never advances past pending work**:
whenever a kernel step of this program advances the clock, the LTS accepts the corresponding `tick`, hence (C09
`never_idle_with_backlog`, `departs_exactly_when_due`) no packet is handed over and unprocessed, no hand-off is
pending, and no transmission ends earlier than the new instant. -/
theorem kernel_clock_advance_is_admissible (size : Int → Nat) (rate : ℚ) (ql : Option Int) (arrivals : List (ℚ × Int))
    (hg : ∀ x ∈ arrivals, 0 ≤ x.1) (fuel : Nat) (s s' : KState ℚ (PSt ℚ))
    (hreach : KReach (body size rate ql) (fuel + 1) (initState arrivals) s)
    (hstep : (step (body size rate ql) (fuel + 1) s).state? = some s') (hadv : s.now < s'.now) :
    (absPort size s).handed = none ∧ ¬ ((absPort size s).getPending = true ∧ (absPort size s).items ≠ []) ∧
      ∀ p due k, (absPort size s).tx = some (p, due, k) → s'.now ≤ due := by
  obtain ⟨a, _, hi, _⟩ := reach_inv fuel hg hreach
  cases hp : popMin s.agenda with
  | none => simp [step, hp, StepResult.state?] at hstep
  | some qr =>
    obtain ⟨q, rest⟩ := qr
    obtain ⟨s'', a', new, h1, h2, h3, h4, -⟩ := kstep fuel hi.k hi.a hp
    rw [h1] at hstep
    simp only [StepResult.state?, Option.some.injEq] at hstep
    subst hstep
    rw [h4] at hadv
    have ht := lts_tick hi.a (isMin_of_pop hi.k hp).1 hadv
    have := (Fifo.tick_ok_iff (Port.dev (cfg rate ql)) (toF size a s.now) q.time).mp ⟨_, _, ht⟩
    rw [absPort_eq hi.k, h4]
    exact ⟨this.2.2.1, this.2.2.2.1, this.2.2.2.2⟩

end C09K
