import OnlVerif.Lemmas.PortKRun
/-!
# C09 on the kernel: the Port *as a process on the kernel model* refines its LTS and serialises at its line rate

`OnlVerif/Net/PortOnK.lean` writes `Port.run` and a packet source (`yield env.timeout(gap); port.put(packet)` for
every arrival) as a program of the kernel model `K` (`OnlVerif/Kernel`).  Here nothing is assumed about scheduling:
`Environment.step` of the kernel model decides what runs when.  The theorems close the gap DESIGN §2.3 names
("element process on K refines its LTS"): every kernel step of this program is a (possibly empty) sequence of
actions the FifoServer LTS of the port (`OnlVerif/Net/Fifo.lean`, `Net/Port.lean`) *accepts*, so the admissibility
rules G1–G3 of the LTS are consequences of the kernel model, not assumptions, for this device.

Scope: plain `Port` (`qlimit = None`, no RED, `element_id` falsy), `rate > 0`, one source process with non-negative
gaps (zero gaps = bursts, arrivals exactly at departure instants are included), exact rational time.
-/

namespace C09K
open PortOnK PortK

/-- **The departure recurrence holds for the Port as a kernel process, for every workload, with no admissibility
assumption.**  For every finite arrival list with non-negative gaps, every size table and every `rate > 0`:
`run()` of the kernel model on the two spawned processes returns (agenda empty) within `4·n + 4` steps, and the
`out.put(packet)` observations of the trace are exactly `(id_k, d_k)` in arrival order with
`d_k = max(a_k, d_{k-1}) + 8·size_k/rate`, `a_k` = sum of the first `k` gaps (`PortOnK.departures`). -/
theorem port_on_kernel_departures (size : Int → Nat) (rate : ℚ) (hr : 0 < rate) (arrivals : List (ℚ × Int))
    (hg : ∀ x ∈ arrivals, 0 ≤ x.1) (fuel n : Nat) (hn : 4 * arrivals.length + 4 ≤ n) :
    ∃ sF, runAll (body size rate) (fuel + 1) n (initState arrivals) = .returned .none sF ∧ sF.agenda = [] ∧
      outsOf sF.trace = departures size rate none 0 arrivals := by
  have h0 : Inv size rate arrivals (initState arrivals) (a0 arrivals) := inv_init arrivals hg
  have hmu : (a0 arrivals).mu < n := by
    simp [A.mu, a0, PPhase.mu, SPhase.mu]; omega
  obtain ⟨sF, aF, h1, h2, h3⟩ := run_returns hr fuel n _ _ h0 hmu
  exact ⟨sF, h1, h3, (inv_final h2 h3).1⟩

/-- **Refinement, step by step**: let `s` be reachable by kernel steps from the initial state and let the next
kernel step end in `s'`.  Then there is a (possibly empty) sequence of LTS actions that the Port LTS *accepts* from
the abstraction of `s`, that ends exactly in the abstraction of `s'` (the step commutes with `absPort`), and whose
departures are exactly the `out.put` observations the kernel step appended to the trace. -/
theorem port_on_kernel_step_refines (size : Int → Nat) (rate : ℚ) (hr : 0 < rate) (arrivals : List (ℚ × Int))
    (hg : ∀ x ∈ arrivals, 0 ≤ x.1) (fuel : Nat) (s s' : KState ℚ (PSt ℚ))
    (hreach : KReach (body size rate) (fuel + 1) (initState arrivals) s)
    (hstep : (step (body size rate) (fuel + 1) s).state? = some s') :
    step (body size rate) (fuel + 1) s = .ok s' ∧
    ∃ acts ins outs, Fifo.runActs (Port.dev (cfg rate)) (absPort size s) acts = .ok (absPort size s', ins, outs) ∧
      (outsOf s'.trace).map (·.1.toNat) = (outsOf s.trace).map (·.1.toNat) ++ outs := by
  obtain ⟨a, _, hi, _⟩ := reach_inv hr fuel hg hreach
  cases hp : popMin s.agenda with
  | none => simp [step, hp, StepResult.state?] at hstep
  | some qr =>
    obtain ⟨q, rest⟩ := qr
    obtain ⟨s'', a', new, h1, h2, -, h4, acts, insI, -, h6⟩ := inv_step hr fuel hi hp
    rw [h1] at hstep
    simp only [StepResult.state?, Option.some.injEq] at hstep
    subst hstep
    refine ⟨h1, acts, insI.map Int.toNat, new.map (·.1.toNat), ?_, ?_⟩
    · rw [absPort_eq hi.k, absPort_eq h2.k]; exact h6
    · rw [h4]; simp

/-- **Refinement, whole runs**: every state reachable by kernel steps is the image of an *admissible* run of the
Port LTS from its initial state: the LTS accepts some action sequence that ends in `absPort s`, in which the accepted
packets are the first `packets_received` arrivals and the departed packets are the `out.put` observations of the
kernel trace, in order. -/
theorem port_on_kernel_refines_lts (size : Int → Nat) (rate : ℚ) (hr : 0 < rate) (arrivals : List (ℚ × Int))
    (hg : ∀ x ∈ arrivals, 0 ≤ x.1) (fuel : Nat) (s : KState ℚ (PSt ℚ))
    (hreach : KReach (body size rate) (fuel + 1) (initState arrivals) s) :
    ∃ acts, Fifo.runActs (Port.dev (cfg rate)) (Fifo.init ({ avg := 0 } : PortSt ℚ) 0) acts =
      .ok (absPort size s, ((arrivals.take (cellInt s cReceived).toNat).map (·.2)).map Int.toNat,
           (outsOf s.trace).map (·.1.toNat)) := by
  obtain ⟨a, acts, hi, hrun⟩ := reach_inv hr fuel hg hreach
  refine ⟨acts, ?_⟩
  rw [absPort_eq hi.k, ← putIds_eq hi]
  exact hrun

/-- **Corollary (C09 `fifo_and_conservation` on the kernel)**: at every reachable kernel state the packets handed
to `put` so far are, in order, exactly the packets logged by `out.put` followed by the packets the port holds
(handed over / in transmission / waiting in the store): FIFO, nothing lost, nothing duplicated. -/
theorem kernel_fifo_and_conservation (size : Int → Nat) (rate : ℚ) (hr : 0 < rate) (arrivals : List (ℚ × Int))
    (hg : ∀ x ∈ arrivals, 0 ≤ x.1) (fuel : Nat) (s : KState ℚ (PSt ℚ))
    (hreach : KReach (body size rate) (fuel + 1) (initState arrivals) s) :
    ((arrivals.take (cellInt s cReceived).toNat).map (·.2)).map Int.toNat =
      (outsOf s.trace).map (·.1.toNat) ++ Fifo.held (absPort size s) := by
  obtain ⟨acts, h⟩ := port_on_kernel_refines_lts size rate hr arrivals hg fuel s hreach
  have := (Fifo.run_conserves (Port.dev (cfg rate)) (Port.idPreserving _) acts _ _ _ _ (Fifo.init_shape _ _) h).1
  simpa [Fifo.init_held] using this

/-- **Corollary (C09 `byte_occupancy_eq_held` on the kernel)**: at every reachable kernel state the attribute
`byte_size` (shared cell 0) equals the bytes of the packets the port holds. -/
theorem kernel_byte_occupancy_eq_held (size : Int → Nat) (rate : ℚ) (hr : 0 < rate) (arrivals : List (ℚ × Int))
    (hg : ∀ x ∈ arrivals, 0 ≤ x.1) (fuel : Nat) (s : KState ℚ (PSt ℚ))
    (hreach : KReach (body size rate) (fuel + 1) (initState arrivals) s) :
    cellInt s cByteSize = Port.heldBytes (absPort size s) := by
  obtain ⟨acts, h⟩ := port_on_kernel_refines_lts size rate hr arrivals hg fuel s hreach
  have := (Port.run_inv (cfg rate) acts _ _ _ _ (Port.init_inv _ 0) h).bytes
  rw [absPort_dev] at this
  exact this

/-- **Corollary: the clock of the kernel never passes a due transmission and never advances past pending work**:
whenever a kernel step of this program advances the clock, the LTS accepts the corresponding `tick`, hence (C09
`never_idle_with_backlog`, `departs_exactly_when_due`) no packet is handed over and unprocessed, no hand-off is
pending, and no transmission ends earlier than the new instant. -/
theorem kernel_clock_advance_is_admissible (size : Int → Nat) (rate : ℚ) (hr : 0 < rate) (arrivals : List (ℚ × Int))
    (hg : ∀ x ∈ arrivals, 0 ≤ x.1) (fuel : Nat) (s s' : KState ℚ (PSt ℚ))
    (hreach : KReach (body size rate) (fuel + 1) (initState arrivals) s)
    (hstep : (step (body size rate) (fuel + 1) s).state? = some s') (hadv : s.now < s'.now) :
    (absPort size s).handed = none ∧ ¬ ((absPort size s).getPending = true ∧ (absPort size s).items ≠ []) ∧
      ∀ p due k, (absPort size s).tx = some (p, due, k) → s'.now ≤ due := by
  obtain ⟨a, _, hi, _⟩ := reach_inv hr fuel hg hreach
  cases hp : popMin s.agenda with
  | none => simp [step, hp, StepResult.state?] at hstep
  | some qr =>
    obtain ⟨q, rest⟩ := qr
    obtain ⟨s'', a', new, h1, h2, h3, h4, -⟩ := kstep hr fuel hi.k hi.a hp
    rw [h1] at hstep
    simp only [StepResult.state?, Option.some.injEq] at hstep
    subst hstep
    rw [h4] at hadv
    have ht := lts_tick hi.a (isMin_of_pop hi.k hp).1 hadv
    have := (Fifo.tick_ok_iff (Port.dev (cfg rate)) (toF size a s.now) q.time).mp ⟨_, _, ht⟩
    rw [absPort_eq hi.k, h4]
    exact ⟨this.2.2.1, this.2.2.2.1, this.2.2.2.2⟩

end C09K
