import Mathlib.Tactic.Ring
import OnlVerif.Lemmas.Port
import OnlVerif.Props.C09K
import OnlVerif.Lemmas.GenPort
/-!
# C09 — a port serialises at its line rate and tail-drops exactly at its limit

Model: `OnlVerif/Net/Fifo.lean` (the FifoServer LTS) instantiated with `OnlVerif/Net/Port.lean`
(`Port.put`, `Port.run`, `REDPort.put`, `PortMonitor`).  "For all arrival workloads" = for every action
sequence the LTS accepts (`Fifo.runActs … = .ok …`) from the initial state; time and rates are exact
rationals.  The correspondence check replays the real `Port` through this LTS bit for bit.
-/

namespace C09
open Fifo Port

/-- initial state of a port -/
def start (t0 : ℚ) : FState ℚ (PortSt ℚ) := Fifo.init { avg := 0 } t0

/-- **FIFO, nothing lost, nothing duplicated**: after any admissible action sequence, the accepted packets
are, in order, exactly the packets that left followed by the packets still held. -/
theorem fifo_and_conservation (c : PortCfg ℚ) (t0 : ℚ) (as : List (FAct ℚ)) (s : FState ℚ (PortSt ℚ))
    (ins outs : List Nat) (h : runActs (Port.dev c) (start t0) as = .ok (s, ins, outs)) :
    ins = outs ++ held s := by
  have := (run_conserves (Port.dev c) (idPreserving c) as (start t0) s ins outs (init_shape _ _) h).1
  simpa [start, init_held] using this

/-- **The advertised byte occupancy always equals the bytes actually held** (waiting + handed over + in
transmission), for every rate including 0. -/
theorem byte_occupancy_eq_held (c : PortCfg ℚ) (t0 : ℚ) (as : List (FAct ℚ)) (s : FState ℚ (PortSt ℚ))
    (ins outs : List Nat) (h : runActs (Port.dev c) (start t0) as = .ok (s, ins, outs)) :
    s.dev.byteSize = heldBytes s :=
  (run_inv c as (start t0) s ins outs (init_inv c t0) h).bytes

/-- **Byte limit never exceeded**. -/
theorem occupancy_le_byte_limit (c : PortCfg ℚ) (hc : Plain c) (q : Int) (hq : c.qlimit = some q) (hb : c.limitBytes = true)
    (h0 : 0 ≤ q) (t0 : ℚ) (as : List (FAct ℚ)) (s : FState ℚ (PortSt ℚ)) (ins outs : List Nat)
    (h : runActs (Port.dev c) (start t0) as = .ok (s, ins, outs)) : heldBytes s ≤ q := by
  have hi := run_inv c as (start t0) s ins outs (init_inv c t0) h
  rw [← hi.bytes]; exact hi.limB q hc hb hq h0

/-- **Packet limit never exceeded**: at most `qlimit - 1` packets wait to start transmission (one place is
reserved for the packet in transmission). -/
theorem occupancy_le_packet_limit (c : PortCfg ℚ) (hc : Plain c) (q : Int) (hq : c.qlimit = some q)
    (hb : c.limitBytes = false) (t0 : ℚ) (as : List (FAct ℚ)) (s : FState ℚ (PortSt ℚ)) (ins outs : List Nat)
    (h : runActs (Port.dev c) (start t0) as = .ok (s, ins, outs)) : (s.items.length : Int) ≤ max (q - 1) 0 :=
  (run_inv c as (start t0) s ins outs (init_inv c t0) h).limP q hc hb hq

/-- **Byte limit: refused iff bytes held + size would exceed `qlimit`.** -/
theorem drop_iff_bytes (c : PortCfg ℚ) (hc : Plain c) (q : Int) (hq : c.qlimit = some q) (hb : c.limitBytes = true)
    (s : FState ℚ (PortSt ℚ)) (p : Pkt ℚ) :
    (∃ s', step (Port.dev c) s (.put p) = .ok (s', .dropped)) ↔ q < s.dev.byteSize + p.size := by
  rw [put_dropped_iff, admit_plain_iff c hc]
  simp only [tailDrop, hq, hb, if_true, decide_eq_true_eq]

/-- **Packet limit: refused iff `qlimit - 1` packets are already waiting.** -/
theorem drop_iff_packets (c : PortCfg ℚ) (hc : Plain c) (q : Int) (hq : c.qlimit = some q) (hb : c.limitBytes = false)
    (s : FState ℚ (PortSt ℚ)) (p : Pkt ℚ) :
    (∃ s', step (Port.dev c) s (.put p) = .ok (s', .dropped)) ↔ q - 1 ≤ (s.items.length : Int) := by
  rw [put_dropped_iff, admit_plain_iff c hc]
  simp only [tailDrop, hq, hb, Bool.false_eq_true, if_false, decide_eq_true_eq]

/-- **No limit: never refused.** -/
theorem never_drop_unlimited (c : PortCfg ℚ) (hc : Plain c) (hq : c.qlimit = none) (s : FState ℚ (PortSt ℚ)) (p : Pkt ℚ) :
    ∃ s', step (Port.dev c) s (.put p) = .ok (s', .accepted) := by
  rw [put_accepted_iff]
  have key := admit_plain_iff c hc s.dev s.now s.items.length p
  simp only [tailDrop, hq, Bool.false_eq_true, iff_false, Bool.not_eq_false] at key
  exact key

/-- **Counters**: every `put` counts as received; it counts as dropped iff it was refused. -/
theorem put_counters (c : PortCfg ℚ) (hc : Plain c) (s s' : FState ℚ (PortSt ℚ)) (p : Pkt ℚ) (o : FOut ℚ)
    (h : step (Port.dev c) s (.put p) = .ok (s', o)) :
    s'.dev.received = s.dev.received + 1 ∧
    ((o = .accepted ∧ s'.dev.dropped = s.dev.dropped) ∨ (o = .dropped ∧ s'.dev.dropped = s.dev.dropped + 1)) ∧
    s'.dev.stamps = s.dev.stamps + (if c.hasId then 1 else 0) := by
  have hr : c.red = none := hc
  simp only [Fifo.step, dev_admit, admitPkt, hr, admitPlain, choice_acc, choice_dev] at h
  split at h
  · rename_i hb
    simp only [Except.ok.injEq, Prod.mk.injEq] at h
    obtain ⟨rfl, rfl⟩ := h
    split
    · rename_i hd; simp [hd] at hb
    · refine ⟨rfl, Or.inl ⟨rfl, rfl⟩, ?_⟩
      dsimp only; split <;> rfl
  · rename_i hb
    simp only [Except.ok.injEq, Prod.mk.injEq] at h
    obtain ⟨rfl, rfl⟩ := h
    split
    · refine ⟨rfl, Or.inr ⟨rfl, rfl⟩, ?_⟩
      dsimp only; split <;> rfl
    · rename_i hd; simp [hd] at hb

/-- **Transmission takes exactly `8·size/rate`**: when the server takes a packet at `now` with `rate > 0` it
sleeps until exactly `now + 8·size/rate`; with `rate = 0` the packet leaves in that very burst. -/
theorem service_time_exact (c : PortCfg ℚ) (s s' : FState ℚ (PortSt ℚ)) (x y : ℚ) (o : FOut ℚ) (p : Pkt ℚ)
    (hp : s.handed = some p) (h : step (Port.dev c) s (.resume x y) = .ok (s', o)) :
    (0 < c.rate → o = .nothing ∧ s'.tx = some (p, s.now + (p.size * 8 : ℕ) / c.rate, 0)) ∧
    (¬ 0 < c.rate → o = .depart p ∧ s'.tx = none) := by
  simp only [Fifo.step, hp, dev_onResume, onResume, dev_onDone] at h
  have hz : (Num.zero : ℚ) = 0 := zero_eq'
  constructor
  · intro hr
    rw [if_pos (by rw [hz]; exact hr)] at h
    simp only [proceed, Except.ok.injEq, Prod.mk.injEq] at h
    obtain ⟨rfl, rfl⟩ := h
    exact ⟨rfl, rfl⟩
  · intro hr
    rw [if_neg (by rw [hz]; exact hr)] at h
    simp only [proceed, Except.ok.injEq, Prod.mk.injEq] at h
    obtain ⟨rfl, rfl⟩ := h
    refine ⟨rfl, ?_⟩
    rw [issueGet_tx]

/-- **The packet leaves exactly when its transmission ends**: `fire` is accepted only at the due instant, and
the clock cannot pass it. -/
theorem departs_exactly_when_due (c : PortCfg ℚ) (s : FState ℚ (PortSt ℚ)) (p : Pkt ℚ) (due : ℚ) (k : Nat)
    (htx : s.tx = some (p, due, k)) :
    (∀ s' o, step (Port.dev c) s .fire = .ok (s', o) → s.now = due ∧ o = .depart p) ∧
    (∀ t s' o, step (Port.dev c) s (.tick t) = .ok (s', o) → t ≤ due) := by
  constructor
  · intro s' o h
    have ht := step_trans _ _ _ _ _ h
    cases ht with
    | fireEmit p' due' k' htx' hnow hn =>
      rw [htx] at htx'; cases htx'
      exact ⟨hnow, rfl⟩
    | fireLose p' due' k' htx' hnow hn => simp [Port.dev, onFire] at hn
    | fireWait p' due' k' dt htx' hnow hn => simp [Port.dev, onFire] at hn
  · intro t s' o h
    exact ((tick_ok_iff _ s t).mp ⟨s', o, h⟩).2.2.2.2 p due k htx

/-- **Work conserving**: the clock cannot advance while a packet is waiting and the server is idle
(hand-off pending) or has been handed a packet it has not started to transmit. -/
theorem never_idle_with_backlog (c : PortCfg ℚ) (s : FState ℚ (PortSt ℚ)) (t : ℚ)
    (h : s.handed.isSome ∨ (s.getPending = true ∧ s.items ≠ [])) :
    ∀ s' o, step (Port.dev c) s (.tick t) ≠ .ok (s', o) := by
  intro s' o hs
  have := (tick_ok_iff _ s t).mp ⟨s', o, hs⟩
  rcases h with h | h
  · rw [this.2.2.1] at h; simp at h
  · exact this.2.2.2.1 h

/-- **PortMonitor**: a sample with the packet in service included reports exactly the bytes held; without it,
the bytes held minus the packet in transmission. -/
theorem monitor_sample (c : PortCfg ℚ) (t0 : ℚ) (as : List (FAct ℚ)) (s : FState ℚ (PortSt ℚ))
    (ins outs : List Nat) (h : runActs (Port.dev c) (start t0) as = .ok (s, ins, outs)) :
    (monitorSample s true).2 = heldBytes s ∧
    (monitorSample s false).2 = heldBytes s - (match s.tx with | some (p, _, _) => (p.size : Int) | none => 0) ∧
    (monitorSample s false).1 = s.items.length ∧
    (monitorSample s true).1 = s.items.length + (if s.tx.isSome then 1 else 0) := by
  have hi := run_inv c as (start t0) s ins outs (init_inv c t0) h
  simp only [monitorSample, if_true, Bool.false_eq_true, if_false]
  refine ⟨hi.bytes, ?_, trivial, ?_⟩
  · rcases hi.busy with ⟨p, due, k, htx, _, hsz⟩ | ⟨htx, _, hsz⟩
    · rw [hi.bytes, htx, hsz]
    · rw [hi.bytes, htx, hsz]; simp
  · rcases hi.busy with ⟨p, due, k, htx, hb, _⟩ | ⟨htx, hb, _⟩
    · rw [htx, hb]; simp
    · rw [htx, hb]; simp

/-! ### RED -/

/-- **RED never drops while the average is below `min_threshold`** (and below `qlimit`). -/
theorem red_never_drops_below_min (q maxTh minTh maxP avg u : ℚ) (h1 : avg < minTh) (h2 : minTh ≤ maxTh) (h3 : avg < q) :
    redDrop q maxTh minTh maxP avg u = false := by
  unfold redDrop
  rw [if_neg (not_le.mpr h3), if_neg (not_le.mpr (lt_of_lt_of_le h1 h2)), if_neg (not_le.mpr h1)]

/-- **RED always drops at or above `qlimit`.** -/
theorem red_always_drops_at_limit (q maxTh minTh maxP avg u : ℚ) (h : q ≤ avg) :
    redDrop q maxTh minTh maxP avg u = true := by
  unfold redDrop; rw [if_pos h]

/-- **In between RED drops iff the uniform draw is at most the RED curve** `(avg − min)/(max − min)·max_p`
(capped at `max_p` from `max_threshold` on). -/
theorem red_between (q maxTh minTh maxP avg u : ℚ) (h0 : avg < q) :
    redDrop q maxTh minTh maxP avg u =
      if maxTh ≤ avg then decide (u ≤ maxP)
      else if minTh ≤ avg then decide (u ≤ (avg - minTh) / (maxTh - minTh) * maxP) else false := by
  unfold redDrop; rw [if_neg (not_le.mpr h0)]

/-- **RED's average is the exponentially weighted average** `avg·(1 − 2^{-w}) + q·2^{-w}`. -/
theorem red_avg_formula (avg cur : ℚ) (w : Nat) :
    redAvg avg cur w = avg * (1 - 1 / 2 ^ w) + cur * (1 / 2 ^ w) := by
  unfold redAvg
  simp only [Num.ofNat]
  push_cast
  rfl

/-! ### The source, re-translated on every run, *is* the model (bridge theorems)

`Generated/Port.lean` is rewritten by `py2lean` from the current `onl/netdev/port.py` / `red_port.py` before this file is
compiled.  The theorems below hold for every scalar type (exact rationals and IEEE doubles alike); the encoding of a model
configuration + state as the Python object is `GenPort.obj` / `GenPort.redObj` (counters `Nat ↦ int`, `busy : Bool ↦ 0/1`,
`qlimit : Option Int ↦ None/int`, the result "accepted" ↦ one more `self.store.put(packet)`). -/

/-- **`Port.put` as written in the source is the model's `admitPlain`**: for every configuration, state, number of waiting
packets and packet, running the translated method on the encoded object gives the encoded result of `Port.admitPlain`:
same counters, same byte count, a `perhop_time` stamp iff `element_id` is truthy, and `self.store.put(packet)` is called
iff the model accepts.  (A flipped comparison, `qlimit - 1` changed to `qlimit`, a dropped counter update or a missing
`store.put` in the source makes this fail to compile.) -/
theorem port_put_generated_eq_model {α : Type} [Num α] (c : PortCfg α) (d : PortSt α) (out : Bool)
    (puts outs waiting : Nat) (p : Pkt α) :
    Gen.Port.put (GenPort.obj c d out puts outs) waiting p.size =
      GenPort.obj c (admitPlain c d waiting p).1 out (puts + GenPort.acc (admitPlain c d waiting p)) outs :=
  GenPort.put_eq c d out puts outs waiting p

/-- **The body of `Port.run` as written in the source is the model's `onResume` / `txTime` / `onDone`**: the statements
between the `get` and the transmission `if` are `onResume`'s state update (`busy`, `busy_packet_size`); the `if` test is
`0 < rate` and the sleep is `txTime = 8·size/rate`, so `onResume` continues exactly as the source says; the statements after
it are `onDone` (`byte_size -= size`, `busy` reset) plus one `self.out.put(packet)`.  (Stated over exact rationals: writing
`8.0` for `8` in the source does not matter, another factor does.) -/
theorem port_run_generated_eq_model (c : PortCfg ℚ) (d : PortSt ℚ) (out : Bool)
    (puts outs : Nat) (now x y : ℚ) (p : Pkt ℚ) :
    Gen.Port.run_start (GenPort.obj c d out puts outs) p.size = GenPort.obj c (onResume c d now x y p).1 out puts outs ∧
    Gen.Port.run_tx_guard (GenPort.obj c d out puts outs) = decide (Num.zero < c.rate) ∧
    Gen.Port.run_tx_delay (GenPort.obj c d out puts outs) p.size = txTime c p ∧
    (onResume c d now x y p).2.2 =
      (if Gen.Port.run_tx_guard (GenPort.obj c d out puts outs) = true
       then Next.wait (Gen.Port.run_tx_delay (GenPort.obj c d out puts outs) p.size) else Next.emit) ∧
    Gen.Port.run_done (GenPort.obj c d true puts outs) p.size = GenPort.obj c (onDone d p) true puts (outs + 1) :=
  ⟨GenPort.run_start_eq c d out puts outs now x y p, GenPort.run_tx_guard_eq c d out puts outs,
   GenPort.run_tx_delay_eq c d out puts outs p, GenPort.run_next_eq c d out puts outs now x y p,
   GenPort.run_done_eq c d puts outs p⟩

/-- **`REDPort.put` as written in the source is the model's `admitRed`** (hence `redAvg`, `redDrop`): for a RED port with
`qlimit = q ≥ 0` and a non-negative byte count (an invariant, `byte_occupancy_eq_held`), running the translated method with
the uniform draw `p.draw` gives the encoded result of `Port.admitRed`: the new average is `redAvg`, the packet is dropped
iff `redDrop` says so, and `self.store.put(packet)` is called iff it is not.  (Over exact rationals; the decision tree after
the average update is proved equal for every scalar type, `GenPort.red_decide_eq`.) -/
theorem red_put_generated_eq_model (c : PortCfg ℚ) (red : ℚ × ℚ × ℚ × Nat) (q : Int) (d : PortSt ℚ)
    (puts waiting : Nat) (p : Pkt ℚ) (hq : c.qlimit = some q) (h0 : 0 ≤ q) (hb : 0 ≤ d.byteSize) :
    Gen.REDPort.put (GenPort.redObj c red q d puts) waiting p.size p.draw =
      GenPort.redObj c red q (admitRed c red d waiting p).1 (puts + GenPort.acc (admitRed c red d waiting p)) :=
  GenPort.red_put_eq c red q d puts waiting p hq h0 hb

/-- the translated `Port.put` on a concrete object: limit 2 packets, one waiting → dropped, no `store.put` -/
example : (Gen.Port.put (GenPort.obj (α := ℚ) { rate := 8, qlimit := some 2, limitBytes := false, hasId := true }
      { byteSize := 10, received := 1, busy := true, busySize := 10, avg := 0, stamps := 1 } true 1 0) 1 10).packets_dropped = 1 := by
  decide +kernel

/-! ### non-vacuity -/

/-- what a run ended with: accepted ids, departed ids, drop counter -/
def summary (r : Except String (FState ℚ (PortSt ℚ) × List Nat × List Nat)) : Option (List Nat × List Nat × Nat) :=
  match r with
  | .ok (s, ins, outs) => some (ins, outs, s.dev.dropped)
  | .error _ => none

/-- a concrete admissible run: three arrivals on a 2-packet-limit port; only the first is accepted (one place
is reserved for the packet in transmission) and it departs at t = 10 -/
example : summary (runActs (Port.dev { rate := 8, qlimit := some 2, limitBytes := false, hasId := true })
    (start 0) [.init, .put ⟨1, 0, 10, 0, 0, 0⟩, .put ⟨2, 0, 10, 0, 0, 0⟩, .put ⟨3, 0, 10, 0, 0, 0⟩, .handoff,
      .resume 0 0, .tick 10, .fire]) = some ([1], [1], 2) := by
  decide +kernel

/-! ### the Port as a process on the kernel model `K`

`OnlVerif/Net/PortOnK.lean` writes `Port.run` and a packet source as a program of the kernel model; `Props/C09K.lean`
proves that every kernel run of that program is an admissible run of the LTS above (no admissibility assumption) and
satisfies the departure recurrence.  The headline statements are restated here so that the axiom audit of this file
covers them, and three theorems of this file are transferred to kernel runs through the refinement. -/

/-- **The departure recurrence holds for the Port as a kernel process** (no queue limit, every `rate`, every finite
workload with non-negative gaps, bursts and arrivals at departure instants included): `run()` of the kernel model
returns with an empty agenda within `4·n + 4` steps and the `out.put` observations are exactly
`(id_k, max(a_k, d_{k-1}) + 8·size_k/rate)` in arrival order (`+ 0` instead of `8·size_k/rate` when `rate ≤ 0`). -/
theorem port_on_kernel_departures (size : Int → Nat) (rate : ℚ) (arrivals : List (ℚ × Int))
    (hg : ∀ x ∈ arrivals, 0 ≤ x.1) (fuel n : Nat) (hn : 4 * arrivals.length + 4 ≤ n) :
    ∃ sF, runAll (PortOnK.body size rate none) (fuel + 1) n (PortOnK.initState arrivals) = .returned .none sF ∧
      sF.agenda = [] ∧ PortOnK.outsOf sF.trace = PortOnK.departures size rate none 0 arrivals :=
  C09K.port_on_kernel_departures size rate arrivals hg fuel n hn

/-- **The Port process on the kernel model refines this LTS** (with or without a byte limit `ql`): every kernel state
reachable from the initial state is the image (under the abstraction function `PortOnK.absPort`) of an action sequence
this LTS accepts from `start 0`, with the `out.put` observations departed; accepted plus dropped packets account for
`packets_received`, and without a limit the accepted packets are the first `packets_received` arrivals. -/
theorem port_on_kernel_refines_lts (size : Int → Nat) (rate : ℚ) (ql : Option Int) (arrivals : List (ℚ × Int))
    (hg : ∀ x ∈ arrivals, 0 ≤ x.1) (fuel : Nat) (s : KState ℚ (PSt ℚ))
    (hreach : KReach (PortOnK.body size rate ql) (fuel + 1) (PortOnK.initState arrivals) s) :
    ∃ acts ins, runActs (Port.dev (PortOnK.cfg rate ql)) (start 0) acts =
        .ok (PortOnK.absPort size s, ins, (PortOnK.outsOf s.trace).map (·.1.toNat)) ∧
      ins.length + (PortOnK.cellInt s PortOnK.cDropped).toNat = (PortOnK.cellInt s PortOnK.cReceived).toNat ∧
      (ql = none →
        ins = ((arrivals.take (PortOnK.cellInt s PortOnK.cReceived).toNat).map (·.2)).map Int.toNat) :=
  C09K.port_on_kernel_refines_lts size rate ql arrivals hg fuel s hreach

/-- **`fifo_and_conservation` transferred to kernel runs**: at every reachable kernel state, the packets `put` has
accepted are, in order, the packets logged by `out.put` followed by the packets the port still holds. -/
theorem kernel_run_fifo_and_conservation (size : Int → Nat) (rate : ℚ) (ql : Option Int) (arrivals : List (ℚ × Int))
    (hg : ∀ x ∈ arrivals, 0 ≤ x.1) (fuel : Nat) (s : KState ℚ (PSt ℚ))
    (hreach : KReach (PortOnK.body size rate ql) (fuel + 1) (PortOnK.initState arrivals) s) :
    ∃ ins, ins = (PortOnK.outsOf s.trace).map (·.1.toNat) ++ held (PortOnK.absPort size s) ∧
      ins.length + (PortOnK.cellInt s PortOnK.cDropped).toNat = (PortOnK.cellInt s PortOnK.cReceived).toNat ∧
      (ql = none →
        ins = ((arrivals.take (PortOnK.cellInt s PortOnK.cReceived).toNat).map (·.2)).map Int.toNat) := by
  obtain ⟨acts, ins, h, h2, h3⟩ := port_on_kernel_refines_lts size rate ql arrivals hg fuel s hreach
  exact ⟨ins, fifo_and_conservation _ 0 acts _ _ _ h, h2, h3⟩

/-- **`byte_occupancy_eq_held` transferred to kernel runs**: the LTS state a reachable kernel state stands for
advertises exactly the bytes it holds (its `byteSize` is the attribute cell `byte_size` of the kernel state). -/
theorem kernel_run_byte_occupancy_eq_held (size : Int → Nat) (rate : ℚ) (ql : Option Int) (arrivals : List (ℚ × Int))
    (hg : ∀ x ∈ arrivals, 0 ≤ x.1) (fuel : Nat) (s : KState ℚ (PSt ℚ))
    (hreach : KReach (PortOnK.body size rate ql) (fuel + 1) (PortOnK.initState arrivals) s) :
    (PortOnK.absPort size s).dev.byteSize = heldBytes (PortOnK.absPort size s) ∧
      (PortOnK.absPort size s).dev.byteSize = PortOnK.cellInt s PortOnK.cByteSize := by
  obtain ⟨acts, ins, h, -, -⟩ := port_on_kernel_refines_lts size rate ql arrivals hg fuel s hreach
  exact ⟨byte_occupancy_eq_held _ 0 acts _ _ _ h, by rw [PortK.absPort_dev]; rfl⟩

/-- **`occupancy_le_byte_limit` transferred to kernel runs**: with a byte limit `l ≥ 0`, `byte_size` never exceeds
it at any reachable kernel state. -/
theorem kernel_run_occupancy_le_byte_limit (size : Int → Nat) (rate : ℚ) (l : Int) (hl : 0 ≤ l)
    (arrivals : List (ℚ × Int)) (hg : ∀ x ∈ arrivals, 0 ≤ x.1) (fuel : Nat) (s : KState ℚ (PSt ℚ))
    (hreach : KReach (PortOnK.body size rate (some l)) (fuel + 1) (PortOnK.initState arrivals) s) :
    PortOnK.cellInt s PortOnK.cByteSize ≤ l := by
  obtain ⟨acts, ins, h, -, -⟩ := port_on_kernel_refines_lts size rate (some l) arrivals hg fuel s hreach
  have h1 := occupancy_le_byte_limit (PortOnK.cfg rate (some l)) rfl l rfl rfl hl 0 acts _ _ _ h
  have h2 := byte_occupancy_eq_held _ 0 acts _ _ _ h
  rw [← h2, PortK.absPort_dev] at h1
  exact h1

end C09
