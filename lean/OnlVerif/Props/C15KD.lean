import OnlVerif.Net.DRROnK
import Mathlib.Algebra.Order.Field.Rat
/-!
# C15/C12 on the kernel: the DRR scheduler *as processes on the kernel model* refines the MultiQueueServer LTS

(work in progress: the kernel-evaluated examples; the theorems follow)
-/

namespace C15KD
open DRROnK

/-! ### concrete runs of the kernel model, evaluated by the kernel of Lean (exact arithmetic) -/

/-- classes 0, 1, 2 declared in the order 2, 0, 1 with weights 1, 2, 1 (quanta 1500, 3000, 1500); rate 4000 (a packet of 500
bytes is transmitted in one time unit) -/
def cfg3 : DRR.Cfg ℚ := { rate := 4000, weights := [(2, 1), (0, 2), (1, 1)] }
/-- packet `i` belongs to flow `fl[i]` and has `sz[i]` bytes -/
def tbl (l : List Nat) : Int → Nat := fun i => l.getD i.toNat 0

/-- what a finished run shows: entries left in the agenda, the service starts and the departures -/
def run3 (fl sz : List Nat) (P n : Nat) (arr : List (ℚ × Int)) : Option (Nat × List (Int × ℚ) × List (Int × ℚ)) :=
  (finalState (runAll (prog 3 (tbl fl) (tbl sz) cfg3 P) 1 n (initState 3 cfg3 arr))).map fun s =>
    (s.agenda.length, servesOf s.trace, outsOf s.trace)

/-- packets 0, 1 (500 bytes) and 2 (4000 bytes) of class 0 and packet 3 (2000 bytes) of class 1 queued at 0; packets 4 (500 bytes)
and 5 (9000 bytes) of class 2 arrive at 1 — exactly when the first transmission ends.  Class 0 (entry 1, quantum 3000) sends
packets 0 and 1 and parks packet 2 (4000 > 2000 left); class 1 parks packet 3 (2000 > 1500); class 2 sends packet 4 and parks
packet 5; class 0 (credit 5000) sends its parked head, empties and forgets its credit; class 1 (credit 3000) sends packet 3;
packet 5 waits until six quanta have been added in one burst: back to back, each transmission exactly `8·size/rate` -/
example : run3 [0, 0, 0, 1, 2, 2] [500, 500, 4000, 2000, 500, 9000] 8 100 [(0, 0), (0, 1), (0, 2), (0, 3), (1, 4), (0, 5)] =
    some (0, [(0, 0), (1, 1), (4, 2), (2, 3), (3, 11), (5, 15)], [(0, 1), (1, 2), (4, 3), (2, 11), (3, 15), (5, 33)]) := by
  decide +kernel

/-- … and every kernel step of that run (41 of them) is an action sequence the LTS accepts between the abstractions of the
two states (`refineCheck`), and its history is accepted by the oracle and ends drained -/
example : refineCheck 3 (tbl [0, 0, 0, 1, 2, 2]) (tbl [500, 500, 4000, 2000, 500, 9000]) cfg3 8 100
      (initState 3 cfg3 [(0, 0), (0, 1), (0, 2), (0, 3), (1, 4), (0, 5)]) 0 = some 41 ∧
    (finalState (runAll (prog 3 (tbl [0, 0, 0, 1, 2, 2]) (tbl [500, 500, 4000, 2000, 500, 9000]) cfg3 8) 1 100
      (initState 3 cfg3 [(0, 0), (0, 1), (0, 2), (0, 3), (1, 4), (0, 5)]))).map
    (fun s => (orun 3 (tbl [0, 0, 0, 1, 2, 2]) (tbl [500, 500, 4000, 2000, 500, 9000]) cfg3 oInit (histOf s.trace)).map (drained 3)) =
      some (some true) := by
  decide +kernel

/-- with too few passes allowed in a burst the modelled spin is reached: the run raises `Hang` (the theorems show that
`passBound Lmax` passes always suffice) -/
example : (match runAll (prog 3 (tbl [2]) (tbl [9000]) cfg3 3) 1 100 (initState 3 cfg3 [(0, 0)]) with
    | .raised x _ => some x.ty | _ => none) = some "Hang" ∧
    (run3 [2] [9000] (passBound 9000) 100 [(0, 0)]).map (·.2.2) = some [(0, 18)] := by
  decide +kernel

/-- a packet of an undeclared class: `put` raises the `KeyError` of `self.class_count[class_id] += 1` (in the source
process) -/
example : (match runAll (prog 3 (tbl [7]) (tbl [100]) cfg3 3) 1 100 (initState 3 cfg3 [(0, 0)]) with
    | .raised x _ => some x.ty | _ => none) = some "KeyError" := by
  decide +kernel

/-- the oracle is not vacuous.  Packets 0 (500 bytes) and 1 (4000 bytes) of class 0 (entry 1, quantum 3000) and packet 2 of
class 1 are put at 0.  Accepted: visit 0, serve 0, …, done, park 1 (4000 > 2500).  Rejected: sending packet 1 with credit 2500;
visiting class 1 (entry 2) before class 0 (entry 1) although class 0 is backlogged; parking packet 0 although the credit
covers it; going idle with a backlog; not resetting the credit of a class that has emptied. -/
example : orun 3 (tbl [0, 0, 1]) (tbl [500, 4000, 100]) cfg3 oInit
      [.idle 0, .put 0 0, .put 1 0, .put 2 0, .visit 0 0, .serve 0 0, .out 0 1, .done 0 1, .park 1 1, .visit 1 1, .serve 2 1] ≠ none ∧
    orun 3 (tbl [0, 0, 1]) (tbl [500, 4000, 100]) cfg3 oInit
      [.idle 0, .put 0 0, .put 1 0, .put 2 0, .visit 0 0, .serve 0 0, .out 0 1, .done 0 1, .serve 1 1] = none ∧
    orun 3 (tbl [0, 0, 1]) (tbl [500, 4000, 100]) cfg3 oInit [.idle 0, .put 0 0, .put 1 0, .put 2 0, .visit 1 0] = none ∧
    orun 3 (tbl [0, 0, 1]) (tbl [500, 4000, 100]) cfg3 oInit [.idle 0, .put 0 0, .put 1 0, .put 2 0, .visit 0 0, .park 0 0] = none ∧
    orun 3 (tbl [0, 0, 1]) (tbl [500, 4000, 100]) cfg3 oInit [.idle 0, .put 0 0, .idle 0] = none ∧
    orun 3 (tbl [0]) (tbl [500]) cfg3 oInit [.idle 0, .put 0 0, .visit 0 0, .serve 0 0, .out 0 1, .done 0 1, .idle 1] = none ∧
    orun 3 (tbl [0]) (tbl [500]) cfg3 oInit [.idle 0, .put 0 0, .visit 0 0, .serve 0 0, .out 0 1, .done 0 1, .reset 0 1, .idle 1] ≠ none := by
  decide +kernel

end C15KD
