import OnlVerif.Lemmas.DRRKFinal
import OnlVerif.Props.C12
import OnlVerif.Props.C15
/-!
# C15/C12 on the kernel: the DRR scheduler *as processes on the kernel model* refines the MultiQueueServer LTS

`OnlVerif/Net/DRROnK.lean` writes `DRR.put`, `Scheduler.send_packet`, `DRR.__init__` (the quanta) and `DRR.run` (the
`while total_packets > 0` / `for class_id, count in class_count.items()` / `while deficit > 0 and class_count > 0` loops with
head-of-line parking) and a packet source as one program of the kernel model `K`; credits and quanta are scalars kept in cells,
the parked head of each class in a cell.  Every kernel step of this program is a (possibly empty) sequence of actions the
MultiQueueServer LTS with the DRR record (`Net/Sched/DRR.lean`) *accepts*, commuting with the executable abstraction `absDRR`;
so the C12 and C15 theorems of the LTS hold of kernel runs — credit range, ledger, fairness bound — with no admissibility
assumption.

Scope: one `DRR` whose `weights` dict names the classes `0 … F-1` each once, in an arbitrary order, with positive weights, the
identity `flow2class` (`FlowsOK`), an `out` attached, `rate > 0`; one source process with non-negative gaps whose packets belong
to these classes and have at most `Lmax` bytes (`WorkOK`); the yield-free loops may run `passBound Lmax = Lmax/1500 + 2` passes
in one burst (more would be the modelled `Hang`, proved unreachable); exact rational time; `fuel + 1` = any positive bound of
the `_resume` loop.
-/

namespace C15KD
open DRROnK DRRK MQ

/-- the bound on the passes of one burst is enough for packets of `Lmax` bytes -/
theorem passBound_ok (Lmax : Nat) : ∃ k, passBound Lmax = k + 1 ∧ Lmax ≤ 1500 * k :=
  ⟨Lmax / 1500 + 1, rfl, le_of_lt (Nat.lt_mul_div_succ Lmax (by norm_num))⟩

/-- **Refinement, step by step**: let `s` be reachable by kernel steps from the initial state and let the next kernel step
end in `s'`.  Then that step is a normal one (`.ok`: no exception — neither the `KeyError` / `AssertionError`s of `put` and `run`
nor `Hang` —, no stop), and there is a (possibly empty) sequence of LTS actions that the MultiQueueServer LTS with the DRR record
*accepts* from the abstraction of `s`, that ends exactly in the abstraction of `s'` (the step commutes with the executable
abstraction function `absDRR`: credits, class counts, parked heads, ghost ledger included), and in which the packets accepted /
sent out are exactly the `put` / `out` observations the kernel step appended to the trace. -/
theorem drr_on_kernel_step_refines (F : Nat) (flow size : Int → Nat) (cfg : DRR.Cfg ℚ) (Lmax : Nat) (arrivals : List (ℚ × Int))
    (hw : WorkOK flow F size Lmax arrivals) (ht : FlowsOK F cfg) (hr : 0 < cfg.rate) (fuel : Nat) (s s' : KState ℚ (DrrSt ℚ))
    (hreach : KReach (prog F flow size cfg (passBound Lmax)) (fuel + 1) (initState F cfg arrivals) s)
    (hstep : (step (prog F flow size cfg (passBound Lmax)) (fuel + 1) s).state? = some s') :
    step (prog F flow size cfg (passBound Lmax)) (fuel + 1) s = .ok s' ∧
    ∃ new acts, histOf s'.trace = histOf s.trace ++ new ∧ (∀ x ∈ acts, DRR.ActOk (Lmax : ℚ) x) ∧
      runActs (DRR.sched cfg) (absDRR cfg flow size s) acts = .ok (absDRR cfg flow size s', putPk flow size new, outPk flow size new) := by
  obtain ⟨a, _, hi, _⟩ := reach_lts fuel hw ht hr (passBound_ok Lmax) hreach
  cases hp : popMin s.agenda with
  | none => simp [_root_.step, hp, StepResult.state?] at hstep
  | some qr =>
    obtain ⟨q, rest⟩ := qr
    obtain ⟨s'', a', new, h1, h2, -, -, -, h6, acts0, acts, -, -, hact, -, -, h7⟩ := inv_step_lts fuel hi hp
    rw [h1] at hstep
    simp only [StepResult.state?, Option.some.injEq] at hstep
    subst hstep
    exact ⟨h1, new, acts0 ++ acts, h6, hact, by rw [absDRR_eq hi, absDRR_eq h2]; exact h7⟩

/-- **Refinement, whole runs**: every state reachable by kernel steps is the image under `absDRR` of an *admissible* run of
the LTS from the state of a fresh `DRR` (`DRR.start`: zero credits, the quanta of `__init__`): the LTS accepts some action
sequence — whose packets have at most `Lmax` bytes — that ends in `absDRR s` and in which the packets accepted are the `put`
observations and the packets sent out the `out` observations of the kernel trace, in order.  So `absDRR s` is `DRR.Reached` and
`MQ.Reached`, the hypotheses of the C15 and C12 theorems. -/
theorem drr_on_kernel_refines_lts (F : Nat) (flow size : Int → Nat) (cfg : DRR.Cfg ℚ) (Lmax : Nat) (arrivals : List (ℚ × Int))
    (hw : WorkOK flow F size Lmax arrivals) (ht : FlowsOK F cfg) (hr : 0 < cfg.rate) (fuel : Nat) (s : KState ℚ (DrrSt ℚ))
    (hreach : KReach (prog F flow size cfg (passBound Lmax)) (fuel + 1) (initState F cfg arrivals) s) :
    DRR.Reached cfg (Lmax : ℚ) 0 (absDRR cfg flow size s) ∧
    Reached (DRR.sched cfg) (DRR.ctl0 cfg) 0 (DRR.counts0 cfg) (absDRR cfg flow size s) (putPk flow size (histOf s.trace))
      (outPk flow size (histOf s.trace)) := by
  obtain ⟨a, acts, hi, hact, hrun⟩ := reach_lts fuel hw ht hr (passBound_ok Lmax) hreach
  rw [absDRR_eq hi]
  refine ⟨⟨acts, _, _, hact, hrun⟩, ?_, acts, hrun⟩
  intro e he
  simp only [DRR.counts0, List.mem_map] at he
  obtain ⟨x, _, rfl⟩ := he
  rfl

/-- **No kernel step ever crashes, and `run()` returns**: for every workload as above, every state reachable by kernel
steps is followed by a normal step or has an empty agenda — `Hang`, the `AssertionError`s of `run` and the `KeyError` of `put` are
unreachable —, and `run()` of the kernel model returns (agenda empty, no exception) within `10·n + 4` kernel steps, `n` = the
number of packets. -/
theorem drr_on_kernel_run_returns (F : Nat) (flow size : Int → Nat) (cfg : DRR.Cfg ℚ) (Lmax : Nat) (arrivals : List (ℚ × Int))
    (hw : WorkOK flow F size Lmax arrivals) (ht : FlowsOK F cfg) (hr : 0 < cfg.rate) (fuel n : Nat)
    (hn : 10 * arrivals.length + 4 ≤ n) :
    (∀ s, KReach (prog F flow size cfg (passBound Lmax)) (fuel + 1) (initState F cfg arrivals) s →
      (∃ s', step (prog F flow size cfg (passBound Lmax)) (fuel + 1) s = .ok s') ∨
        step (prog F flow size cfg (passBound Lmax)) (fuel + 1) s = .empty) ∧
    ∃ sF, runAll (prog F flow size cfg (passBound Lmax)) (fuel + 1) n (initState F cfg arrivals) = .returned .none sF ∧
      sF.agenda = [] ∧ KReach (prog F flow size cfg (passBound Lmax)) (fuel + 1) (initState F cfg arrivals) sF := by
  constructor
  · intro s hs
    obtain ⟨a, hi⟩ := reach_inv fuel hw ht hr (passBound_ok Lmax) hs
    cases hp : popMin s.agenda with
    | none => right; simp [_root_.step, hp]
    | some qr =>
      obtain ⟨q, rest⟩ := qr
      obtain ⟨s', _, _, h1, _⟩ := inv_step fuel hi hp
      exact Or.inl ⟨s', h1⟩
  · have h0 := inv_init (flow := flow) (size := size) arrivals hw ht hr (passBound_ok Lmax)
    obtain ⟨sF, aF, h1, -, h3, h4⟩ := run_returns fuel (initState F cfg arrivals) n _ _ h0
      (by rw [a0_mu]; omega) KReach.init
    exact ⟨sF, h1, h3, h4⟩

/-! ### the C15 theorems of the LTS, for kernel runs -/

/-- **The credit range on the kernel** (`C15.drr_credit_range`): in every state reachable by kernel steps the credit of every
declared class — the value of its `deficit` cell — lies in `[0, quantum + Lmax)`. -/
theorem kernel_drr_credit_range (F : Nat) (flow size : Int → Nat) (cfg : DRR.Cfg ℚ) (Lmax : Nat) (hL : 0 < Lmax)
    (arrivals : List (ℚ × Int)) (hw : WorkOK flow F size Lmax arrivals) (ht : FlowsOK F cfg) (hr : 0 < cfg.rate) (fuel : Nat)
    (s : KState ℚ (DrrSt ℚ))
    (hreach : KReach (prog F flow size cfg (passBound Lmax)) (fuel + 1) (initState F cfg arrivals) s) (c : Nat) (hc : c < F) :
    0 ≤ cellTime s (cDef c) ∧ cellTime s (cDef c) < qOf cfg c + Lmax := by
  have hR := (drr_on_kernel_refines_lts F flow size cfg Lmax arrivals hw ht hr fuel s hreach).1
  have hd : lookup (absDRR cfg flow size s).ctl.deficit c = some (cellTime s (cDef c)) := by
    simp only [absDRR]
    exact lookup_dictOf (cfg.weights.map (·.1)) (fun c => cellTime s (cDef c)) c ▸ by
      rw [if_pos ((mem_flows ht c).mpr hc)]
  exact C15.drr_credit_range cfg (cfgOk_of ht) (Lmax : ℚ) (by exact_mod_cast hL) 0 _ hR c _ _ hd (quantum_eq ht hc)

/-- **The ledger on the kernel** (`C15.drr_ledger`): in every state reachable by kernel steps, for every declared class:
bytes booked (the sizes of its `done` observations) + credit (its `deficit` cell) = quantum × visits (the number of its `visit`
observations) − credit forgotten (its ghost cell). -/
theorem kernel_drr_ledger (F : Nat) (flow size : Int → Nat) (cfg : DRR.Cfg ℚ) (Lmax : Nat) (hL : 0 < Lmax)
    (arrivals : List (ℚ × Int)) (hw : WorkOK flow F size Lmax arrivals) (ht : FlowsOK F cfg) (hr : 0 < cfg.rate) (fuel : Nat)
    (s : KState ℚ (DrrSt ℚ))
    (hreach : KReach (prog F flow size cfg (passBound Lmax)) (fuel + 1) (initState F cfg arrivals) s) (c : Nat) (hc : c < F) :
    (cnt (sentOf flow size (histOf s.trace)) c : ℚ) + cellTime s (cDef c) =
      qOf cfg c * (cnt (visitsOf (histOf s.trace)) c : ℚ) - DRR.acc (absDRR cfg flow size s).ctl.forfeited c := by
  have hR := (drr_on_kernel_refines_lts F flow size cfg Lmax arrivals hw ht hr fuel s hreach).1
  have hd : lookup (absDRR cfg flow size s).ctl.deficit c = some (cellTime s (cDef c)) := by
    simp only [absDRR]
    exact lookup_dictOf (cfg.weights.map (·.1)) (fun c => cellTime s (cDef c)) c ▸ by
      rw [if_pos ((mem_flows ht c).mpr hc)]
  exact C15.drr_ledger cfg (cfgOk_of ht) (Lmax : ℚ) (by exact_mod_cast hL) 0 _ hR c _ _ hd (quantum_eq ht hc)

/-- **DRR fairness on the kernel** (`C15.drr_fair`): over any stretch of a kernel run (from a reachable state `s1` to `s2`,
`KWin`) in every state of which two classes `a ≠ b` (entries `ia`, `ib` of the declaration order) are both backlogged
(`class_count > 0`), the bytes sent for them in the stretch — the sizes of the `out` observations appended to the trace —
divided by their quanta differ by less than `4 + 3·Lmax·(1/Q_a + 1/Q_b)`, however long the stretch. -/
theorem kernel_drr_fair (F : Nat) (flow size : Int → Nat) (cfg : DRR.Cfg ℚ) (Lmax : Nat) (hL : 0 < Lmax)
    (arrivals : List (ℚ × Int)) (hw : WorkOK flow F size Lmax arrivals) (ht : FlowsOK F cfg) (hr : 0 < cfg.rate) (fuel : Nat)
    (s1 s2 : KState ℚ (DrrSt ℚ))
    (hreach : KReach (prog F flow size cfg (passBound Lmax)) (fuel + 1) (initState F cfg arrivals) s1) (ia ib a b : Nat)
    (hwin : KWin (prog F flow size cfg (passBound Lmax)) (fuel + 1) (fun x => DRR.Both ia ib a b (absDRR cfg flow size x)) s1 s2)
    (Qa Qb : ℚ) (hqa : DRR.quantum cfg a = some Qa) (hqb : DRR.quantum cfg b = some Qb) :
    ∃ new, histOf s2.trace = histOf s1.trace ++ new ∧
      |(pkBytes cfg a (outPk flow size new) : ℚ) / Qa - (pkBytes cfg b (outPk flow size new) : ℚ) / Qb| <
        4 + 3 * (Lmax : ℚ) * (1 / Qa + 1 / Qb) := by
  obtain ⟨a1, _, hi, _⟩ := reach_lts fuel hw ht hr (passBound_ok Lmax) hreach
  obtain ⟨a2, mouts, new, -, k2, k3, k4⟩ := kwin_window fuel ia ib a b hi hwin
  have hR := (drr_on_kernel_refines_lts F flow size cfg Lmax arrivals hw ht hr fuel s1 hreach).1
  have := C15.drr_fair cfg (cfgOk_of ht) (Lmax : ℚ) (by exact_mod_cast hL) 0 _ _ hR ia ib a b mouts k3 Qa Qb hqa hqb
  refine ⟨new, k2, ?_⟩
  simp only [C15.bytesOf, k4] at this
  exact this

/-! ### the C12 theorems for kernel runs -/

/-- **Per-flow FIFO and conservation on the kernel** (`C12.mq_flow_fifo`): at every state reachable by kernel steps the
packets of flow `f` handed to `put` so far are, in order, those of `f` handed to `out.put` followed by those of `f` still
held (in transmission, then the parked head, then waiting in `stores[f]`). -/
theorem kernel_flow_fifo (F : Nat) (flow size : Int → Nat) (cfg : DRR.Cfg ℚ) (Lmax : Nat) (arrivals : List (ℚ × Int))
    (hw : WorkOK flow F size Lmax arrivals) (ht : FlowsOK F cfg) (hr : 0 < cfg.rate) (fuel : Nat) (s : KState ℚ (DrrSt ℚ))
    (hreach : KReach (prog F flow size cfg (passBound Lmax)) (fuel + 1) (initState F cfg arrivals) s) (f : Nat) :
    ofFlow f (putPk flow size (histOf s.trace)) =
      ofFlow f (outPk flow size (histOf s.trace)) ++ ofFlow f (heldC (DRR.sched cfg) (absDRR cfg flow size s) f) :=
  C12.mq_flow_fifo (DRR.sched cfg) (DRR.lawful cfg) (DRR.ctl0 cfg) 0 (DRR.counts0 cfg) _ _ _
    (drr_on_kernel_refines_lts F flow size cfg Lmax arrivals hw ht hr fuel s hreach).2 f f (classOf_id ht f)

/-- **The counters are exact on the kernel** (`C12.mq_counters_eq`): `queue_count[f]`, `queue_byte_size[f]` and
`total_packets`, read from the attribute cells of a reachable kernel state, equal the number / bytes of the packets held. -/
theorem kernel_counters_eq (F : Nat) (flow size : Int → Nat) (cfg : DRR.Cfg ℚ) (Lmax : Nat) (arrivals : List (ℚ × Int))
    (hw : WorkOK flow F size Lmax arrivals) (ht : FlowsOK F cfg) (hr : 0 < cfg.rate) (fuel : Nat) (s : KState ℚ (DrrSt ℚ))
    (hreach : KReach (prog F flow size cfg (passBound Lmax)) (fuel + 1) (initState F cfg arrivals) s) (f : Nat) :
    cnt (absDRR cfg flow size s).queueCount f = W (one f) (absDRR cfg flow size s) ∧
    cnt (absDRR cfg flow size s).queueBytes f = W (bytesOf f) (absDRR cfg flow size s) ∧
    total (absDRR cfg flow size s).queueCount = W (fun _ => 1) (absDRR cfg flow size s) :=
  C12.mq_counters_eq (DRR.sched cfg) (DRR.lawful cfg) (DRR.ctl0 cfg) 0 (DRR.counts0 cfg) _ _ _
    (drr_on_kernel_refines_lts F flow size cfg Lmax arrivals hw ht hr fuel s hreach).2 f

/-! ### concrete runs of the kernel model, evaluated by the kernel of Lean (exact arithmetic) -/

/-- classes 0, 1, 2 declared in the order 2, 0, 1 with weights 1, 2, 1 (quanta 1500, 3000, 1500); rate 4000 (a packet of 500
bytes is transmitted in one time unit) -/
def cfg3 : DRR.Cfg ℚ := { rate := 4000, weights := [(2, 1), (0, 2), (1, 1)] }
/-- packet `i` belongs to flow `fl[i]` and has `sz[i]` bytes -/
def tbl (l : List Nat) : Int → Nat := fun i => l.getD i.toNat 0

/-- what a finished run shows: entries left in the agenda, the service starts and the departures -/
def run3 (fl sz : List Nat) (P n : Nat) (arr : List (ℚ × Int)) : Option (Nat × List (Int × ℚ) × List (Int × ℚ)) :=
  (finalState (runAll (prog 3 (tbl fl) (tbl sz) cfg3 P) 1 n (initState 3 cfg3 arr))).map fun s =>
    (s.agenda.length, servesOf s.trace, outsOf s.trace)

/-- packets 0, 1 (500 bytes) and 2 (4000 bytes) of class 0 and packet 3 (2000 bytes) of class 1 queued at 0; packets 4 (500 bytes)
and 5 (9000 bytes) of class 2 arrive at 1 — exactly when the first transmission ends.  Class 0 (entry 1, quantum 3000) sends
packets 0 and 1 and parks packet 2 (4000 > 2000 left); class 1 parks packet 3 (2000 > 1500); class 2 sends packet 4 and parks
packet 5; class 0 (credit 5000) sends its parked head, empties and forgets its credit; class 1 (credit 3000) sends packet 3;
packet 5 waits until six quanta have been added in one burst: back to back, each transmission exactly `8·size/rate` -/
example : run3 [0, 0, 0, 1, 2, 2] [500, 500, 4000, 2000, 500, 9000] 8 100 [(0, 0), (0, 1), (0, 2), (0, 3), (1, 4), (0, 5)] =
    some (0, [(0, 0), (1, 1), (4, 2), (2, 3), (3, 11), (5, 15)], [(0, 1), (1, 2), (4, 3), (2, 11), (3, 15), (5, 33)]) := by
  decide +kernel

/-- … and every kernel step of that run (41 of them) is an action sequence the LTS accepts between the abstractions of the
two states (`refineCheck`), and its history is accepted by the oracle and ends drained -/
example : refineCheck 3 (tbl [0, 0, 0, 1, 2, 2]) (tbl [500, 500, 4000, 2000, 500, 9000]) cfg3 8 100
      (initState 3 cfg3 [(0, 0), (0, 1), (0, 2), (0, 3), (1, 4), (0, 5)]) 0 = some 41 ∧
    (finalState (runAll (prog 3 (tbl [0, 0, 0, 1, 2, 2]) (tbl [500, 500, 4000, 2000, 500, 9000]) cfg3 8) 1 100
      (initState 3 cfg3 [(0, 0), (0, 1), (0, 2), (0, 3), (1, 4), (0, 5)]))).map
    (fun s => (orun 3 (tbl [0, 0, 0, 1, 2, 2]) (tbl [500, 500, 4000, 2000, 500, 9000]) cfg3 oInit (histOf s.trace)).map (drained 3)) =
      some (some true) := by
  decide +kernel

/-- with too few passes allowed in a burst the modelled spin is reached: the run raises `Hang` (the theorems show that
`passBound Lmax` passes always suffice) -/
example : (match runAll (prog 3 (tbl [2]) (tbl [9000]) cfg3 3) 1 100 (initState 3 cfg3 [(0, 0)]) with
    | .raised x _ => some x.ty | _ => none) = some "Hang" ∧
    (run3 [2] [9000] (passBound 9000) 100 [(0, 0)]).map (·.2.2) = some [(0, 18)] := by
  decide +kernel

/-- a packet of an undeclared class: `put` raises the `KeyError` of `self.class_count[class_id] += 1` (in the source
process) -/
example : (match runAll (prog 3 (tbl [7]) (tbl [100]) cfg3 3) 1 100 (initState 3 cfg3 [(0, 0)]) with
    | .raised x _ => some x.ty | _ => none) = some "KeyError" := by
  decide +kernel

/-- the oracle is not vacuous.  Packets 0 (500 bytes) and 1 (4000 bytes) of class 0 (entry 1, quantum 3000) and packet 2 of
class 1 are put at 0.  Accepted: visit 0, serve 0, …, done, park 1 (4000 > 2500).  Rejected: sending packet 1 with credit 2500;
visiting class 1 (entry 2) before class 0 (entry 1) although class 0 is backlogged; parking packet 0 although the credit
covers it; going idle with a backlog; not resetting the credit of a class that has emptied. -/
example : orun 3 (tbl [0, 0, 1]) (tbl [500, 4000, 100]) cfg3 oInit
      [.idle 0, .put 0 0, .put 1 0, .put 2 0, .visit 0 0, .serve 0 0, .out 0 1, .done 0 1, .park 1 1, .visit 1 1, .serve 2 1] ≠ none ∧
    orun 3 (tbl [0, 0, 1]) (tbl [500, 4000, 100]) cfg3 oInit
      [.idle 0, .put 0 0, .put 1 0, .put 2 0, .visit 0 0, .serve 0 0, .out 0 1, .done 0 1, .serve 1 1] = none ∧
    orun 3 (tbl [0, 0, 1]) (tbl [500, 4000, 100]) cfg3 oInit [.idle 0, .put 0 0, .put 1 0, .put 2 0, .visit 1 0] = none ∧
    orun 3 (tbl [0, 0, 1]) (tbl [500, 4000, 100]) cfg3 oInit [.idle 0, .put 0 0, .put 1 0, .put 2 0, .visit 0 0, .park 0 0] = none ∧
    orun 3 (tbl [0, 0, 1]) (tbl [500, 4000, 100]) cfg3 oInit [.idle 0, .put 0 0, .idle 0] = none ∧
    orun 3 (tbl [0]) (tbl [500]) cfg3 oInit [.idle 0, .put 0 0, .visit 0 0, .serve 0 0, .out 0 1, .done 0 1, .idle 1] = none ∧
    orun 3 (tbl [0]) (tbl [500]) cfg3 oInit [.idle 0, .put 0 0, .visit 0 0, .serve 0 0, .out 0 1, .done 0 1, .reset 0 1, .idle 1] ≠ none := by
  decide +kernel

/-- the hypotheses of the theorems are met by that workload (`WorkOK`, `FlowsOK`) with `Lmax = 9000` -/
example : WorkOK (tbl [0, 0, 0, 1, 2, 2]) 3 (tbl [500, 500, 4000, 2000, 500, 9000]) 9000
      [(0, 0), (0, 1), (0, 2), (0, 3), (1, 4), (0, 5)] ∧ FlowsOK 3 cfg3 ∧ passBound 9000 = 8 := by
  refine ⟨?_, by unfold FlowsOK cfg3; decide, rfl⟩
  intro x hx
  simp only [List.mem_cons, List.not_mem_nil, or_false] at hx
  rcases hx with rfl | rfl | rfl | rfl | rfl | rfl <;> exact ⟨by norm_num, by unfold PktOK; decide⟩

end C15KD
