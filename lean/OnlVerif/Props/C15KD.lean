import OnlVerif.Lemmas.DRRKFinal
import OnlVerif.Lemmas.DRRKOracle
import OnlVerif.Lemmas.DRRKDecision
import OnlVerif.Props.C12
import OnlVerif.Props.C15
/-!
# C15/C12 on the kernel: the DRR scheduler *as processes on the kernel model* refines the MultiQueueServer LTS

`OnlVerif/Net/DRROnK.lean` writes `DRR.put`, `Scheduler.send_packet`, `DRR.__init__` (the quanta) and `DRR.run` (the
`while total_packets > 0` / `for class_id, count in class_count.items()` / `while deficit > 0 and class_count > 0` loops with
head-of-line parking) and a packet source as one program of the kernel model `K`; credits and quanta are scalars kept in cells,
the parked head of each class in a cell.  Every kernel step of this program is a (possibly empty) sequence of actions the
MultiQueueServer LTS with the DRR record (`Net/Sched/DRR.lean`) *accepts*, commuting with the executable abstraction `absDRR`;
so the C12 and C15 theorems of the LTS hold of kernel runs — credit range, ledger, fairness bound — with no admissibility
assumption.  In direct form: `run()` returns within a linear number of kernel steps and never crashes, the history of
observations of every run is accepted by an executable oracle that restates the credit rules and the visiting order of DRR
(`drr_on_kernel_credit_rules`, `oracle_accepts_iff`), and the send-or-park decision is read off the attribute cells of the
kernel state at the decision burst (`drr_on_kernel_decision`).

Scope: one `DRR` whose `weights` dict names the classes `0 … F-1` each once, in an arbitrary order, with positive weights, the
identity `flow2class` (`FlowsOK`), an `out` attached, `rate > 0`; one source process with non-negative gaps whose packets belong
to these classes and have at most `Lmax` bytes (`WorkOK`); the yield-free loops may run `passBound Lmax = Lmax/1500 + 2` passes
in one burst (more would be the modelled `Hang`, proved unreachable); exact rational time; `fuel + 1` = any positive bound of
the `_resume` loop.
-/

namespace C15KD
open DRROnK DRRK MQ

/-- the bound on the passes of one burst is enough for packets of `Lmax` bytes -/
theorem passBound_ok (Lmax : Nat) : ∃ k, passBound Lmax = k + 1 ∧ Lmax ≤ 1500 * k :=
  ⟨Lmax / 1500 + 1, rfl, le_of_lt (Nat.lt_mul_div_succ Lmax (by norm_num))⟩

/-- **Refinement, step by step**: let `s` be reachable by kernel steps from the initial state and let the next kernel step
end in `s'`.  Then that step is a normal one (`.ok`: no exception — neither the `KeyError` / `AssertionError`s of `put` and `run`
nor `Hang` —, no stop), and there is a (possibly empty) sequence of LTS actions that the MultiQueueServer LTS with the DRR record
*accepts* from the abstraction of `s`, that ends exactly in the abstraction of `s'` (the step commutes with the executable
abstraction function `absDRR`: credits, class counts, parked heads, ghost ledger included), and in which the packets accepted /
sent out are exactly the `put` / `out` observations the kernel step appended to the trace. -/
theorem drr_on_kernel_step_refines (F : Nat) (flow size : Int → Nat) (cfg : DRR.Cfg ℚ) (Lmax : Nat) (arrivals : List (ℚ × Int))
    (hw : WorkOK flow F size Lmax arrivals) (ht : FlowsOK F cfg) (hr : 0 < cfg.rate) (fuel : Nat) (s s' : KState ℚ (DrrSt ℚ))
    (hreach : KReach (prog F flow size cfg (passBound Lmax)) (fuel + 1) (initState F cfg arrivals) s)
    (hstep : (step (prog F flow size cfg (passBound Lmax)) (fuel + 1) s).state? = some s') :
    step (prog F flow size cfg (passBound Lmax)) (fuel + 1) s = .ok s' ∧
    ∃ new acts, histOf s'.trace = histOf s.trace ++ new ∧ (∀ x ∈ acts, DRR.ActOk (Lmax : ℚ) x) ∧
      runActs (DRR.sched cfg) (absDRR cfg flow size s) acts = .ok (absDRR cfg flow size s', putPk flow size new, outPk flow size new) := by
  obtain ⟨a, _, hi, _⟩ := reach_lts fuel hw ht hr (passBound_ok Lmax) hreach
  cases hp : popMin s.agenda with
  | none => simp [_root_.step, hp, StepResult.state?] at hstep
  | some qr =>
    obtain ⟨q, rest⟩ := qr
    obtain ⟨s'', a', new, h1, h2, -, -, -, h6, acts0, acts, -, -, hact, -, -, h7⟩ := inv_step_lts fuel hi hp
    rw [h1] at hstep
    simp only [StepResult.state?, Option.some.injEq] at hstep
    subst hstep
    exact ⟨h1, new, acts0 ++ acts, h6, hact, by rw [absDRR_eq hi, absDRR_eq h2]; exact h7⟩

/-- **Refinement, whole runs**: every state reachable by kernel steps is the image under `absDRR` of an *admissible* run of
the LTS from the state of a fresh `DRR` (`DRR.start`: zero credits, the quanta of `__init__`): the LTS accepts some action
sequence — whose packets have at most `Lmax` bytes — that ends in `absDRR s` and in which the packets accepted are the `put`
observations and the packets sent out the `out` observations of the kernel trace, in order.  So `absDRR s` is `DRR.Reached` and
`MQ.Reached`, the hypotheses of the C15 and C12 theorems. -/
theorem drr_on_kernel_refines_lts (F : Nat) (flow size : Int → Nat) (cfg : DRR.Cfg ℚ) (Lmax : Nat) (arrivals : List (ℚ × Int))
    (hw : WorkOK flow F size Lmax arrivals) (ht : FlowsOK F cfg) (hr : 0 < cfg.rate) (fuel : Nat) (s : KState ℚ (DrrSt ℚ))
    (hreach : KReach (prog F flow size cfg (passBound Lmax)) (fuel + 1) (initState F cfg arrivals) s) :
    DRR.Reached cfg (Lmax : ℚ) 0 (absDRR cfg flow size s) ∧
    Reached (DRR.sched cfg) (DRR.ctl0 cfg) 0 (DRR.counts0 cfg) (absDRR cfg flow size s) (putPk flow size (histOf s.trace))
      (outPk flow size (histOf s.trace)) := by
  obtain ⟨a, acts, hi, hact, hrun⟩ := reach_lts fuel hw ht hr (passBound_ok Lmax) hreach
  rw [absDRR_eq hi]
  refine ⟨⟨acts, _, _, hact, hrun⟩, ?_, acts, hrun⟩
  intro e he
  simp only [DRR.counts0, List.mem_map] at he
  obtain ⟨x, _, rfl⟩ := he
  rfl

/-- **No kernel step ever crashes, and `run()` returns**: for every workload as above, every state reachable by kernel
steps is followed by a normal step or has an empty agenda — `Hang`, the `AssertionError`s of `run` and the `KeyError` of `put` are
unreachable —, and `run()` of the kernel model returns (agenda empty, no exception) within `10·n + 4` kernel steps, `n` = the
number of packets. -/
theorem drr_on_kernel_run_returns (F : Nat) (flow size : Int → Nat) (cfg : DRR.Cfg ℚ) (Lmax : Nat) (arrivals : List (ℚ × Int))
    (hw : WorkOK flow F size Lmax arrivals) (ht : FlowsOK F cfg) (hr : 0 < cfg.rate) (fuel n : Nat)
    (hn : 10 * arrivals.length + 4 ≤ n) :
    (∀ s, KReach (prog F flow size cfg (passBound Lmax)) (fuel + 1) (initState F cfg arrivals) s →
      (∃ s', step (prog F flow size cfg (passBound Lmax)) (fuel + 1) s = .ok s') ∨
        step (prog F flow size cfg (passBound Lmax)) (fuel + 1) s = .empty) ∧
    ∃ sF, runAll (prog F flow size cfg (passBound Lmax)) (fuel + 1) n (initState F cfg arrivals) = .returned .none sF ∧
      sF.agenda = [] ∧ KReach (prog F flow size cfg (passBound Lmax)) (fuel + 1) (initState F cfg arrivals) sF := by
  constructor
  · intro s hs
    obtain ⟨a, hi⟩ := reach_inv fuel hw ht hr (passBound_ok Lmax) hs
    cases hp : popMin s.agenda with
    | none => right; simp [_root_.step, hp]
    | some qr =>
      obtain ⟨q, rest⟩ := qr
      obtain ⟨s', _, _, h1, _⟩ := inv_step fuel hi hp
      exact Or.inl ⟨s', h1⟩
  · have h0 := inv_init (flow := flow) (size := size) arrivals hw ht hr (passBound_ok Lmax)
    obtain ⟨sF, aF, h1, -, h3, h4⟩ := run_returns fuel (initState F cfg arrivals) n _ _ h0
      (by rw [a0_mu]; omega) KReach.init
    exact ⟨sF, h1, h3, h4⟩

/-! ### the C15 theorems of the LTS, for kernel runs -/

/-- **The credit range on the kernel** (`C15.drr_credit_range`): in every state reachable by kernel steps the credit of every
declared class — the value of its `deficit` cell — lies in `[0, quantum + Lmax)`. -/
theorem kernel_drr_credit_range (F : Nat) (flow size : Int → Nat) (cfg : DRR.Cfg ℚ) (Lmax : Nat) (hL : 0 < Lmax)
    (arrivals : List (ℚ × Int)) (hw : WorkOK flow F size Lmax arrivals) (ht : FlowsOK F cfg) (hr : 0 < cfg.rate) (fuel : Nat)
    (s : KState ℚ (DrrSt ℚ))
    (hreach : KReach (prog F flow size cfg (passBound Lmax)) (fuel + 1) (initState F cfg arrivals) s) (c : Nat) (hc : c < F) :
    0 ≤ cellTime s (cDef c) ∧ cellTime s (cDef c) < qOf cfg c + Lmax := by
  have hR := (drr_on_kernel_refines_lts F flow size cfg Lmax arrivals hw ht hr fuel s hreach).1
  have hd : lookup (absDRR cfg flow size s).ctl.deficit c = some (cellTime s (cDef c)) := by
    simp only [absDRR]
    exact lookup_dictOf (cfg.weights.map (·.1)) (fun c => cellTime s (cDef c)) c ▸ by
      rw [if_pos ((mem_flows ht c).mpr hc)]
  exact C15.drr_credit_range cfg (cfgOk_of ht) (Lmax : ℚ) (by exact_mod_cast hL) 0 _ hR c _ _ hd (quantum_eq ht hc)

/-- **The ledger on the kernel** (`C15.drr_ledger`): in every state reachable by kernel steps, for every declared class:
bytes booked (the sizes of its `done` observations) + credit (its `deficit` cell) = quantum × visits (the number of its `visit`
observations) − credit forgotten (its ghost cell). -/
theorem kernel_drr_ledger (F : Nat) (flow size : Int → Nat) (cfg : DRR.Cfg ℚ) (Lmax : Nat) (hL : 0 < Lmax)
    (arrivals : List (ℚ × Int)) (hw : WorkOK flow F size Lmax arrivals) (ht : FlowsOK F cfg) (hr : 0 < cfg.rate) (fuel : Nat)
    (s : KState ℚ (DrrSt ℚ))
    (hreach : KReach (prog F flow size cfg (passBound Lmax)) (fuel + 1) (initState F cfg arrivals) s) (c : Nat) (hc : c < F) :
    (cnt (sentOf flow size (histOf s.trace)) c : ℚ) + cellTime s (cDef c) =
      qOf cfg c * (cnt (visitsOf (histOf s.trace)) c : ℚ) - DRR.acc (absDRR cfg flow size s).ctl.forfeited c := by
  have hR := (drr_on_kernel_refines_lts F flow size cfg Lmax arrivals hw ht hr fuel s hreach).1
  have hd : lookup (absDRR cfg flow size s).ctl.deficit c = some (cellTime s (cDef c)) := by
    simp only [absDRR]
    exact lookup_dictOf (cfg.weights.map (·.1)) (fun c => cellTime s (cDef c)) c ▸ by
      rw [if_pos ((mem_flows ht c).mpr hc)]
  exact C15.drr_ledger cfg (cfgOk_of ht) (Lmax : ℚ) (by exact_mod_cast hL) 0 _ hR c _ _ hd (quantum_eq ht hc)

/-- **DRR fairness on the kernel** (`C15.drr_fair`): over any stretch of a kernel run (from a reachable state `s1` to `s2`,
`KWin`) in every state of which two classes `a ≠ b` (entries `ia`, `ib` of the declaration order) are both backlogged
(`class_count > 0`), the bytes sent for them in the stretch — the sizes of the `out` observations appended to the trace —
divided by their quanta differ by less than `4 + 3·Lmax·(1/Q_a + 1/Q_b)`, however long the stretch. -/
theorem kernel_drr_fair (F : Nat) (flow size : Int → Nat) (cfg : DRR.Cfg ℚ) (Lmax : Nat) (hL : 0 < Lmax)
    (arrivals : List (ℚ × Int)) (hw : WorkOK flow F size Lmax arrivals) (ht : FlowsOK F cfg) (hr : 0 < cfg.rate) (fuel : Nat)
    (s1 s2 : KState ℚ (DrrSt ℚ))
    (hreach : KReach (prog F flow size cfg (passBound Lmax)) (fuel + 1) (initState F cfg arrivals) s1) (ia ib a b : Nat)
    (hwin : KWin (prog F flow size cfg (passBound Lmax)) (fuel + 1) (fun x => DRR.Both ia ib a b (absDRR cfg flow size x)) s1 s2)
    (Qa Qb : ℚ) (hqa : DRR.quantum cfg a = some Qa) (hqb : DRR.quantum cfg b = some Qb) :
    ∃ new, histOf s2.trace = histOf s1.trace ++ new ∧
      |(pkBytes cfg a (outPk flow size new) : ℚ) / Qa - (pkBytes cfg b (outPk flow size new) : ℚ) / Qb| <
        4 + 3 * (Lmax : ℚ) * (1 / Qa + 1 / Qb) := by
  obtain ⟨a1, _, hi, _⟩ := reach_lts fuel hw ht hr (passBound_ok Lmax) hreach
  obtain ⟨a2, mouts, new, -, k2, k3, k4⟩ := kwin_window fuel ia ib a b hi hwin
  have hR := (drr_on_kernel_refines_lts F flow size cfg Lmax arrivals hw ht hr fuel s1 hreach).1
  have := C15.drr_fair cfg (cfgOk_of ht) (Lmax : ℚ) (by exact_mod_cast hL) 0 _ _ hR ia ib a b mouts k3 Qa Qb hqa hqb
  refine ⟨new, k2, ?_⟩
  simp only [C15.bytesOf, k4] at this
  exact this

/-! ### the C12 theorems for kernel runs -/

/-- **Per-flow FIFO and conservation on the kernel** (`C12.mq_flow_fifo`): at every state reachable by kernel steps the
packets of flow `f` handed to `put` so far are, in order, those of `f` handed to `out.put` followed by those of `f` still
held (in transmission, then the parked head, then waiting in `stores[f]`). -/
theorem kernel_flow_fifo (F : Nat) (flow size : Int → Nat) (cfg : DRR.Cfg ℚ) (Lmax : Nat) (arrivals : List (ℚ × Int))
    (hw : WorkOK flow F size Lmax arrivals) (ht : FlowsOK F cfg) (hr : 0 < cfg.rate) (fuel : Nat) (s : KState ℚ (DrrSt ℚ))
    (hreach : KReach (prog F flow size cfg (passBound Lmax)) (fuel + 1) (initState F cfg arrivals) s) (f : Nat) :
    ofFlow f (putPk flow size (histOf s.trace)) =
      ofFlow f (outPk flow size (histOf s.trace)) ++ ofFlow f (heldC (DRR.sched cfg) (absDRR cfg flow size s) f) :=
  C12.mq_flow_fifo (DRR.sched cfg) (DRR.lawful cfg) (DRR.ctl0 cfg) 0 (DRR.counts0 cfg) _ _ _
    (drr_on_kernel_refines_lts F flow size cfg Lmax arrivals hw ht hr fuel s hreach).2 f f (classOf_id ht f)

/-- **The counters are exact on the kernel** (`C12.mq_counters_eq`): `queue_count[f]`, `queue_byte_size[f]` and
`total_packets`, read from the attribute cells of a reachable kernel state, equal the number / bytes of the packets held. -/
theorem kernel_counters_eq (F : Nat) (flow size : Int → Nat) (cfg : DRR.Cfg ℚ) (Lmax : Nat) (arrivals : List (ℚ × Int))
    (hw : WorkOK flow F size Lmax arrivals) (ht : FlowsOK F cfg) (hr : 0 < cfg.rate) (fuel : Nat) (s : KState ℚ (DrrSt ℚ))
    (hreach : KReach (prog F flow size cfg (passBound Lmax)) (fuel + 1) (initState F cfg arrivals) s) (f : Nat) :
    cnt (absDRR cfg flow size s).queueCount f = W (one f) (absDRR cfg flow size s) ∧
    cnt (absDRR cfg flow size s).queueBytes f = W (bytesOf f) (absDRR cfg flow size s) ∧
    total (absDRR cfg flow size s).queueCount = W (fun _ => 1) (absDRR cfg flow size s) :=
  C12.mq_counters_eq (DRR.sched cfg) (DRR.lawful cfg) (DRR.ctl0 cfg) 0 (DRR.counts0 cfg) _ _ _
    (drr_on_kernel_refines_lts F flow size cfg Lmax arrivals hw ht hr fuel s hreach).2 f

/-! ### the direct form: the credit rules, the visiting order, exact service times, work conservation, drain -/

/-- **What the oracle accepts** (`DRROnK.ostep` at exact rational time, spelled out; `o` = the oracle's state: per class the
packets waiting with the instants of their `put`, the parked head, `credit`, `count` = puts minus booked transmissions; the
packet in transmission, the instant of the last departure, the entry `cur` whose visit is in progress, `closed` = that visit
has ended with a parked head).

* `visit c` (the credit of `c` grows) is accepted iff nothing is in transmission or unbooked, `c` is a declared class with
  `count > 0`, the visit in progress is over — its head was parked, or its credit is `≤ 0`, or its class is empty — and every
  entry the cyclic order passes from the entry after `cur` (entry 0 after an idle period) to the entry of `c` has `count ≤ 0`;
  then `credit[c] += 1500·w/min w`, the visit of `c` is in progress.
* `serve id` / `park id` are accepted iff nothing is in transmission or unbooked, the class of `id` is the one being visited,
  its visit is not closed, its credit is positive, `id` is the parked head of the class if there is one, else the oldest
  waiting packet, the instant is that of the last departure or the one at which everything that waits was put — and
  `size ≤ credit` for `serve`, `size > credit` for `park`.
* `out id t` iff `id` is in transmission since `s` and `t = s + 8·size/rate`; `done id` iff `id` is the packet that has just
  left: then `credit −= size`, `count −= 1`, and `reset` of the class is due iff the count is 0 now; `reset c` iff it is due: the
  credit becomes 0; `idle` iff nothing is in transmission, unbooked, waiting or parked; a `put` is always accepted except
  between `done` and a due `reset`. -/
theorem oracle_accepts_iff (F : Nat) (flow size : Int → Nat) (cfg : DRR.Cfg ℚ) (o : OSt ℚ) (id : Int) (c : Nat) (t : ℚ) :
    ((ostep F flow size cfg o (.visit c t)).isSome ↔
      o.busy = none ∧ o.toBook = none ∧ o.toReset = none ∧ posOf cfg.weights c < cfg.weights.length ∧ 0 < o.count c ∧
      (∀ j, o.cur = some j → o.closed = true ∨ o.credit (flowAt cfg.weights j) ≤ 0 ∨ o.count (flowAt cfg.weights j) ≤ 0) ∧
      ∀ j' ∈ skipped cfg.weights.length (nextOf o) (posOf cfg.weights c), o.count (flowAt cfg.weights j') ≤ 0) ∧
    (∀ o', ostep F flow size cfg o (.visit c t) = some o' →
      o'.credit c = o.credit c + quantumOf cfg c ∧ o'.cur = some (posOf cfg.weights c) ∧ o'.closed = false) ∧
    (TakeOK F flow cfg.weights o id t ↔
      o.busy = none ∧ o.toBook = none ∧ o.toReset = none ∧ o.cur = some (posOf cfg.weights (flow id)) ∧
      posOf cfg.weights (flow id) < cfg.weights.length ∧ o.closed = false ∧ 0 < o.credit (flow id) ∧
      ((∃ x, o.parked (flow id) = some x ∧ x.1 = id) ∨
        (o.parked (flow id) = none ∧ ∃ tp rest, o.waiting (flow id) = (id, tp) :: rest)) ∧
      (o.lastOut = some t ∨ ∀ f, f < F → (∀ x ∈ o.waiting f, x.2 = t) ∧ ∀ x, o.parked f = some x → x.2 = t)) ∧
    ((ostep F flow size cfg o (.serve id t)).isSome ↔ TakeOK F flow cfg.weights o id t ∧ (size id : ℚ) ≤ o.credit (flow id)) ∧
    ((ostep F flow size cfg o (.park id t)).isSome ↔ TakeOK F flow cfg.weights o id t ∧ o.credit (flow id) < (size id : ℚ)) ∧
    ((ostep F flow size cfg o (.out id t)).isSome ↔
      ∃ s, o.busy = some (id, s) ∧ t = s + (size id * 8 : ℕ) / cfg.rate ∧ o.toBook = none ∧ o.toReset = none) ∧
    ((ostep F flow size cfg o (.done id t)).isSome ↔ o.toBook = some id ∧ o.toReset = none) ∧
    (∀ o', ostep F flow size cfg o (.done id t) = some o' →
      o'.credit (flow id) = o.credit (flow id) - (size id : ℚ) ∧ o'.count (flow id) = o.count (flow id) - 1 ∧
      (o'.toReset = some (flow id) ↔ o.count (flow id) - 1 = 0)) ∧
    ((ostep F flow size cfg o (.reset c t)).isSome ↔ o.toReset = some c) ∧
    (∀ o', ostep F flow size cfg o (.reset c t) = some o' → o'.credit c = 0) ∧
    ((ostep F flow size cfg o (.idle t)).isSome ↔
      o.busy = none ∧ o.toBook = none ∧ o.toReset = none ∧ ∀ f, f < F → o.waiting f = [] ∧ o.parked f = none) ∧
    ((ostep F flow size cfg o (.put id t)).isSome ↔ o.toReset = none) := by
  have hquiet : Quiet o ↔ o.busy = none ∧ o.toBook = none ∧ o.toReset = none := by
    unfold Quiet
    simp only [Option.isNone_iff_eq_none]
  refine ⟨?_, ?_, ?_, ?_, ?_, ?_, ?_, ?_, ?_, ?_, ?_, ?_⟩
  · have hiff : VisitOK cfg.weights o c ↔
        (o.busy = none ∧ o.toBook = none ∧ o.toReset = none ∧ posOf cfg.weights c < cfg.weights.length ∧ 0 < o.count c ∧
        (∀ j, o.cur = some j → o.closed = true ∨ o.credit (flowAt cfg.weights j) ≤ 0 ∨ o.count (flowAt cfg.weights j) ≤ 0) ∧
        ∀ j' ∈ skipped cfg.weights.length (nextOf o) (posOf cfg.weights c), o.count (flowAt cfg.weights j') ≤ 0) := by
      unfold VisitOK VisitOver
      rw [hquiet]
      simp only [not_lt, zero_eq', and_assoc]
      refine and_congr Iff.rfl (and_congr Iff.rfl (and_congr Iff.rfl (and_congr Iff.rfl (and_congr Iff.rfl (and_congr ?_ Iff.rfl)))))
      cases o.cur with
      | none => simp
      | some j => simp
    simp only [ostep]
    by_cases hok : VisitOK cfg.weights o c
    · simp only [hok, if_true, Option.isSome_some, true_iff]; exact hiff.mp hok
    · simp only [hok, if_false, Option.isSome_none, Bool.false_eq_true, false_iff]; exact fun h => hok (hiff.mpr h)
  · intro o' ho'
    simp only [ostep] at ho'
    by_cases hok : VisitOK cfg.weights o c
    · rw [if_pos hok] at ho'
      cases ho'
      exact ⟨by simp [setQ], rfl, rfl⟩
    · rw [if_neg hok] at ho'; cases ho'
  · unfold TakeOK IsHead
    rw [hquiet]
    simp only [zero_eq', eqT_iff, List.mem_range, and_assoc]
    refine and_congr Iff.rfl (and_congr Iff.rfl (and_congr Iff.rfl (and_congr Iff.rfl (and_congr Iff.rfl (and_congr Iff.rfl
      (and_congr Iff.rfl (and_congr ?_ ?_)))))))
    · cases hp : o.parked (flow id) with
      | some x => simp
      | none =>
        simp only [reduceCtorEq, false_and, exists_false, true_and, false_or]
        cases hw : o.waiting (flow id) with
        | nil => simp
        | cons x r =>
          obtain ⟨i0, t0⟩ := x
          simp only [List.head?_cons, Option.map_some, Option.some.injEq, List.cons.injEq, Prod.mk.injEq]
          constructor
          · rintro rfl; exact ⟨t0, r, ⟨rfl, rfl⟩, rfl⟩
          · rintro ⟨tp, r', ⟨h1, -⟩, -⟩; exact h1
    · refine or_congr ?_ ?_
      · cases o.lastOut with
        | none => simp [lastIs]
        | some d => simp [lastIs, eqT_iff]
      · refine forall_congr' fun f => imp_congr Iff.rfl (and_congr Iff.rfl ?_)
        simp [Option.mem_toList]
  · simp only [ostep, Num.ofNat_rat]
    by_cases hok : TakeOK F flow cfg.weights o id t ∧ (size id : ℚ) ≤ o.credit (flow id)
    · simp [hok]
    · simp [hok]
  · simp only [ostep, Num.ofNat_rat, not_le]
    by_cases hok : TakeOK F flow cfg.weights o id t ∧ o.credit (flow id) < (size id : ℚ)
    · simp [hok]
    · simp [hok]
  · have hiff : OutOK size cfg.rate o id t ↔
        ∃ s, o.busy = some (id, s) ∧ t = s + (size id * 8 : ℕ) / cfg.rate ∧ o.toBook = none ∧ o.toReset = none := by
      unfold OutOK
      cases hb : o.busy with
      | none => simp
      | some x =>
        obtain ⟨i0, s0⟩ := x
        simp only [eqT_iff, DRROnK.txTime, Option.isNone_iff_eq_none, Option.some.injEq, Prod.mk.injEq]
        constructor
        · rintro ⟨rfl, h2, h3, h4⟩; exact ⟨s0, ⟨rfl, rfl⟩, h2, h3, h4⟩
        · rintro ⟨s1, ⟨rfl, rfl⟩, h2, h3, h4⟩; exact ⟨rfl, h2, h3, h4⟩
    simp only [ostep]
    by_cases hok : OutOK size cfg.rate o id t
    · simp only [hok, if_true, Option.isSome_some, true_iff]; exact hiff.mp hok
    · simp only [hok, if_false, Option.isSome_none, Bool.false_eq_true, false_iff]; exact fun h => hok (hiff.mpr h)
  · simp only [ostep, Option.isNone_iff_eq_none]
    by_cases hok : o.toBook = some id ∧ o.toReset = none
    · simp [hok]
    · simp [hok]
  · intro o' ho'
    simp only [ostep] at ho'
    by_cases hok : o.toBook = some id ∧ o.toReset.isNone = true
    · rw [if_pos hok] at ho'
      cases ho'
      refine ⟨by simp [setQ], by simp [setQ], ?_⟩
      by_cases hz : o.count (flow id) - 1 = 0
      · simp [hz]
      · simp [hz]
    · rw [if_neg hok] at ho'; cases ho'
  · simp only [ostep]
    by_cases hok : o.toReset = some c
    · simp [hok]
    · simp [hok]
  · intro o' ho'
    simp only [ostep] at ho'
    by_cases hok : o.toReset = some c
    · rw [if_pos hok] at ho'
      cases ho'
      simp [setQ]
    · rw [if_neg hok] at ho'; cases ho'
  · have hiff : IdleOK F o ↔
        (o.busy = none ∧ o.toBook = none ∧ o.toReset = none ∧ ∀ f, f < F → o.waiting f = [] ∧ o.parked f = none) := by
      unfold IdleOK
      rw [hquiet]
      simp only [List.mem_range, List.isEmpty_iff, Option.isNone_iff_eq_none, and_assoc]
    simp only [ostep]
    by_cases hok : IdleOK F o
    · simp only [hok, if_true, Option.isSome_some, true_iff]; exact hiff.mp hok
    · simp only [hok, if_false, Option.isSome_none, Bool.false_eq_true, false_iff]; exact fun h => hok (hiff.mpr h)
  · simp only [ostep, Option.isNone_iff_eq_none]
    by_cases hok : o.toReset = none
    · simp [hok]
    · simp [hok]

/-- **The history of every kernel run passes the oracle, step by step**: at every state reachable by kernel steps the
`put` / `visit` / `serve` / `park` / `out` / `done` / `reset` / `idle` observations recorded so far are accepted by `DRROnK.orun`
from the empty oracle state; the oracle's credits and counts are the `deficit` and `class_count` cells of that state. -/
theorem drr_on_kernel_history_accepted (F : Nat) (flow size : Int → Nat) (cfg : DRR.Cfg ℚ) (Lmax : Nat) (arrivals : List (ℚ × Int))
    (hw : WorkOK flow F size Lmax arrivals) (ht : FlowsOK F cfg) (hr : 0 < cfg.rate) (fuel : Nat) (s : KState ℚ (DrrSt ℚ))
    (hreach : KReach (prog F flow size cfg (passBound Lmax)) (fuel + 1) (initState F cfg arrivals) s) :
    ∃ o, orun F flow size cfg oInit (histOf s.trace) = some o ∧
      ∀ c, c < F → o.credit c = cellTime s (cDef c) ∧ o.count c = cellInt s (cCls c) := by
  obtain ⟨a, hi, o, ho⟩ := reach_inv3 fuel hw ht hr (passBound_ok Lmax) hreach
  refine ⟨o, ho.run, fun c hc => ⟨?_, ?_⟩⟩
  · rw [ho.cr c hc, cellTime_def hi.i.k hc]
  · rw [ho.ct c hc, cellInt_cls hi.i.k hc]

/-- **The credit rules of DRR, the visiting order, exact service times, work conservation and drain for the DRR scheduler as
kernel processes (direct form, no admissibility assumption).**  For every number of classes `F`, every weight table over them
(each class once, positive weights, any order), every `rate > 0` and every finite workload with non-negative gaps whose packets
belong to these classes and have at most `Lmax` bytes (bursts, packets larger than a quantum, classes that empty and refill
within a round and arrivals exactly at transmission ends included), `run()` of the kernel model on the spawned processes

* returns (agenda empty, no exception ever leaves `step()` — no `KeyError`, no `AssertionError`, the yield-free loops never
  spin) within `10·n + 4` kernel steps;
* has handed exactly the workload to `put`: packet `k` at the sum of the first `k + 1` gaps;
* has a history of observations that the oracle accepts (`oracle_accepts_iff`): **the credit of a class grows by its quantum
  `1500·w/min w` exactly when the `for` loop reaches it with `class_count > 0`, the visit before being over and every entry in
  between, in cyclic declaration order, being empty; the head of the visited class — the parked packet if there is one — is sent
  iff its size is covered by the (positive) credit and parked otherwise, which ends the visit; the credit is charged the size of
  every packet that has left, and set to 0 when its class has emptied**; every service started at the instant the previous
  transmission ended or at the instant the waiting packets arrived; every packet left exactly `8·size/rate` after its service
  start; the loop waited for the wake-up token only with nothing in the system;
* ends drained, and for every flow the packets handed to `out.put` are exactly the packets of that flow handed to `put`, in
  the same order. -/
theorem drr_on_kernel_credit_rules (F : Nat) (flow size : Int → Nat) (cfg : DRR.Cfg ℚ) (Lmax : Nat) (arrivals : List (ℚ × Int))
    (hw : WorkOK flow F size Lmax arrivals) (ht : FlowsOK F cfg) (hr : 0 < cfg.rate) (fuel n : Nat)
    (hn : 10 * arrivals.length + 4 ≤ n) :
    ∃ sF o, runAll (prog F flow size cfg (passBound Lmax)) (fuel + 1) n (initState F cfg arrivals) = .returned .none sF ∧
      sF.agenda = [] ∧ obsPuts (histOf sF.trace) = arrivalsFrom 0 arrivals ∧
      orun F flow size cfg oInit (histOf sF.trace) = some o ∧ drained F o = true ∧
      ∀ f, ofFlow f (outPk flow size (histOf sF.trace)) = ofFlow f (putPk flow size (histOf sF.trace)) := by
  obtain ⟨-, sF, h1, h3, h4⟩ := drr_on_kernel_run_returns F flow size cfg Lmax arrivals hw ht hr fuel n hn
  obtain ⟨a, hi, o, ho⟩ := reach_inv3 fuel hw ht hr (passBound_ok Lmax) h4
  obtain ⟨g1, g2, g3⟩ := oinv_final hi ho h3
  refine ⟨sF, o, h1, h3, g2, ho.run, g1, ?_⟩
  intro f
  have hfifo := kernel_flow_fifo F flow size cfg Lmax arrivals hw ht hr fuel sF h4 f
  rw [absDRR_eq hi, g3 f] at hfifo
  simpa [ofFlow] using hfifo.symm

/-- **The send-or-park rule at the decision burst, read off the attribute cells of the kernel state**: let `s` be reachable by
kernel steps with `run` resumed with a packet `p` it has just taken from `stores[c]` (the abstraction of `s` is in phase
`pktHanded c p`), and let the next kernel step be one in which a `serve` or `park` is observed (the burst of `run`).  Then
`c` is the entry `m` of `weights` the loop stands at, the cells of `s` hold `deficit[c] > 0`, `head_of_line[c] = None`,
`class_count[c] > 0`; no credit cell falls in the step; and

* if `p.size ≤ deficit[c]` (the cell of `s`): the step observes exactly `serve p`, starts the transmission of `p` (phase
  `spawned p`) and leaves every credit cell as it is (the charge is booked when the packet has left);
* otherwise the step observes `park p` first, and afterwards `p` is the parked head — the cell `head_of_line[c]` of `s'` holds
  its id — unless later in the same burst the quanta added to `c` have covered it and it is being sent (phase `spawned p`). -/
theorem drr_on_kernel_decision (F : Nat) (flow size : Int → Nat) (cfg : DRR.Cfg ℚ) (Lmax : Nat) (arrivals : List (ℚ × Int))
    (hw : WorkOK flow F size Lmax arrivals) (ht : FlowsOK F cfg) (hr : 0 < cfg.rate) (fuel : Nat) (s s' : KState ℚ (DrrSt ℚ))
    (hreach : KReach (prog F flow size cfg (passBound Lmax)) (fuel + 1) (initState F cfg arrivals) s)
    (hstep : step (prog F flow size cfg (passBound Lmax)) (fuel + 1) s = .ok s') (c : Nat) (p : MPkt)
    (hpre : (absDRR cfg flow size s).phase = .pktHanded c p)
    (hdec : ∀ new, histOf s'.trace = histOf s.trace ++ new → ∃ i t, HEv.serve i t ∈ new ∨ HEv.park i t ∈ new) :
    ∃ m w id, (absDRR cfg flow size s).ctl.pc = .gotPkt m ∧ cfg.weights[m]? = some (c, w) ∧ flow id = c ∧ c < F ∧
      p = pktOf flow size id ∧ 0 < cellTime s (cDef c) ∧ cellVal s (cHol c) = .none ∧ 0 < cellInt s (cCls c) ∧
      (∀ f, f < F → cellTime s (cDef f) ≤ cellTime s' (cDef f)) ∧
      (((size id : ℚ) ≤ cellTime s (cDef c) ∧ histOf s'.trace = histOf s.trace ++ [.serve id s'.now] ∧
          (absDRR cfg flow size s').phase = .spawned p ∧ ∀ f, f < F → cellTime s' (cDef f) = cellTime s (cDef f)) ∨
        (cellTime s (cDef c) < (size id : ℚ) ∧ (∃ more, histOf s'.trace = histOf s.trace ++ .park id s'.now :: more) ∧
          (cellVal s' (cHol c) = .int id ∨ (absDRR cfg flow size s').phase = .spawned p))) := by
  obtain ⟨a, _, hi, _⟩ := reach_lts fuel hw ht hr (passBound_ok Lmax) hreach
  rw [absDRR_eq hi] at hpre ⊢
  cases hrun : a.run with
  | init q0 => simp [toM, mst, phaseOf, hrun] at hpre
  | W g => simp [toM, mst, phaseOf, hrun] at hpre
  | K g q0 => simp [toM, mst, phaseOf, hrun] at hpre
  | S p0 m id q0 => simp [toM, mst, phaseOf, hrun] at hpre
  | T p0 t0 m id q0 => simp [toM, mst, phaseOf, hrun] at hpre
  | F p0 m id q0 => simp [toM, mst, phaseOf, hrun] at hpre
  | H g m id q0 =>
    simp only [toM, mst, phaseOf, hrun, Phase.pktHanded.injEq] at hpre
    obtain ⟨rfl, rfl⟩ := hpre
    obtain ⟨⟨w, hw'⟩, k2, k3, k4, k5, k6, k7⟩ := decision_core fuel hi hrun hstep hdec
    exact ⟨m, w, id, by simp [toM, mst, ctlOf, pcOf, hrun], hw', rfl, k2, rfl, k3, k4, k5, k6, k7⟩

/-! ### concrete runs of the kernel model, evaluated by the kernel of Lean (exact arithmetic) -/

/-- classes 0, 1, 2 declared in the order 2, 0, 1 with weights 1, 2, 1 (quanta 1500, 3000, 1500); rate 4000 (a packet of 500
bytes is transmitted in one time unit) -/
def cfg3 : DRR.Cfg ℚ := { rate := 4000, weights := [(2, 1), (0, 2), (1, 1)] }
/-- packet `i` belongs to flow `fl[i]` and has `sz[i]` bytes -/
def tbl (l : List Nat) : Int → Nat := fun i => l.getD i.toNat 0

/-- what a finished run shows: entries left in the agenda, the service starts and the departures -/
def run3 (fl sz : List Nat) (P n : Nat) (arr : List (ℚ × Int)) : Option (Nat × List (Int × ℚ) × List (Int × ℚ)) :=
  (finalState (runAll (prog 3 (tbl fl) (tbl sz) cfg3 P) 1 n (initState 3 cfg3 arr))).map fun s =>
    (s.agenda.length, servesOf s.trace, outsOf s.trace)

/-- packets 0, 1 (500 bytes) and 2 (4000 bytes) of class 0 and packet 3 (2000 bytes) of class 1 queued at 0; packets 4 (500 bytes)
and 5 (9000 bytes) of class 2 arrive at 1 — exactly when the first transmission ends.  Class 0 (entry 1, quantum 3000) sends
packets 0 and 1 and parks packet 2 (4000 > 2000 left); class 1 parks packet 3 (2000 > 1500); class 2 sends packet 4 and parks
packet 5; class 0 (credit 5000) sends its parked head, empties and forgets its credit; class 1 (credit 3000) sends packet 3;
packet 5 waits until six quanta have been added in one burst: back to back, each transmission exactly `8·size/rate` -/
example : run3 [0, 0, 0, 1, 2, 2] [500, 500, 4000, 2000, 500, 9000] 8 100 [(0, 0), (0, 1), (0, 2), (0, 3), (1, 4), (0, 5)] =
    some (0, [(0, 0), (1, 1), (4, 2), (2, 3), (3, 11), (5, 15)], [(0, 1), (1, 2), (4, 3), (2, 11), (3, 15), (5, 33)]) := by
  decide +kernel

/-- … and every kernel step of that run (41 of them) is an action sequence the LTS accepts between the abstractions of the
two states (`refineCheck`), and its history is accepted by the oracle and ends drained -/
example : refineCheck 3 (tbl [0, 0, 0, 1, 2, 2]) (tbl [500, 500, 4000, 2000, 500, 9000]) cfg3 8 100
      (initState 3 cfg3 [(0, 0), (0, 1), (0, 2), (0, 3), (1, 4), (0, 5)]) 0 = some 41 ∧
    (finalState (runAll (prog 3 (tbl [0, 0, 0, 1, 2, 2]) (tbl [500, 500, 4000, 2000, 500, 9000]) cfg3 8) 1 100
      (initState 3 cfg3 [(0, 0), (0, 1), (0, 2), (0, 3), (1, 4), (0, 5)]))).map
    (fun s => (orun 3 (tbl [0, 0, 0, 1, 2, 2]) (tbl [500, 500, 4000, 2000, 500, 9000]) cfg3 oInit (histOf s.trace)).map (drained 3)) =
      some (some true) := by
  decide +kernel

/-- with too few passes allowed in a burst the modelled spin is reached: the run raises `Hang` (the theorems show that
`passBound Lmax` passes always suffice) -/
example : (match runAll (prog 3 (tbl [2]) (tbl [9000]) cfg3 3) 1 100 (initState 3 cfg3 [(0, 0)]) with
    | .raised x _ => some x.ty | _ => none) = some "Hang" ∧
    (run3 [2] [9000] (passBound 9000) 100 [(0, 0)]).map (·.2.2) = some [(0, 18)] := by
  decide +kernel

/-- a packet of an undeclared class: `put` raises the `KeyError` of `self.class_count[class_id] += 1` (in the source
process) -/
example : (match runAll (prog 3 (tbl [7]) (tbl [100]) cfg3 3) 1 100 (initState 3 cfg3 [(0, 0)]) with
    | .raised x _ => some x.ty | _ => none) = some "KeyError" := by
  decide +kernel

/-- the oracle is not vacuous.  Packets 0 (500 bytes) and 1 (4000 bytes) of class 0 (entry 1, quantum 3000) and packet 2 of
class 1 are put at 0.  Accepted: visit 0, serve 0, …, done, park 1 (4000 > 2500).  Rejected: sending packet 1 with credit 2500;
visiting class 1 (entry 2) before class 0 (entry 1) although class 0 is backlogged; parking packet 0 although the credit
covers it; going idle with a backlog; not resetting the credit of a class that has emptied. -/
example : orun 3 (tbl [0, 0, 1]) (tbl [500, 4000, 100]) cfg3 oInit
      [.idle 0, .put 0 0, .put 1 0, .put 2 0, .visit 0 0, .serve 0 0, .out 0 1, .done 0 1, .park 1 1, .visit 1 1, .serve 2 1] ≠ none ∧
    orun 3 (tbl [0, 0, 1]) (tbl [500, 4000, 100]) cfg3 oInit
      [.idle 0, .put 0 0, .put 1 0, .put 2 0, .visit 0 0, .serve 0 0, .out 0 1, .done 0 1, .serve 1 1] = none ∧
    orun 3 (tbl [0, 0, 1]) (tbl [500, 4000, 100]) cfg3 oInit [.idle 0, .put 0 0, .put 1 0, .put 2 0, .visit 1 0] = none ∧
    orun 3 (tbl [0, 0, 1]) (tbl [500, 4000, 100]) cfg3 oInit [.idle 0, .put 0 0, .put 1 0, .put 2 0, .visit 0 0, .park 0 0] = none ∧
    orun 3 (tbl [0, 0, 1]) (tbl [500, 4000, 100]) cfg3 oInit [.idle 0, .put 0 0, .idle 0] = none ∧
    orun 3 (tbl [0]) (tbl [500]) cfg3 oInit [.idle 0, .put 0 0, .visit 0 0, .serve 0 0, .out 0 1, .done 0 1, .idle 1] = none ∧
    orun 3 (tbl [0]) (tbl [500]) cfg3 oInit [.idle 0, .put 0 0, .visit 0 0, .serve 0 0, .out 0 1, .done 0 1, .reset 0 1, .idle 1] ≠ none := by
  decide +kernel

/-- the hypotheses of the theorems are met by that workload (`WorkOK`, `FlowsOK`) with `Lmax = 9000` -/
example : WorkOK (tbl [0, 0, 0, 1, 2, 2]) 3 (tbl [500, 500, 4000, 2000, 500, 9000]) 9000
      [(0, 0), (0, 1), (0, 2), (0, 3), (1, 4), (0, 5)] ∧ FlowsOK 3 cfg3 ∧ passBound 9000 = 8 := by
  refine ⟨?_, by unfold FlowsOK cfg3; decide, rfl⟩
  intro x hx
  simp only [List.mem_cons, List.not_mem_nil, or_false] at hx
  rcases hx with rfl | rfl | rfl | rfl | rfl | rfl <;> exact ⟨by norm_num, by unfold PktOK; decide⟩

end C15KD
