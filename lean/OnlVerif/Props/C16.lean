import OnlVerif.Lemmas.TcpSink
import OnlVerif.Lemmas.TcpSender
import OnlVerif.Lemmas.TcpLoop
import OnlVerif.Lemmas.TcpAckMono
import OnlVerif.Lemmas.TcpReorder
import OnlVerif.Lemmas.GenSink
import OnlVerif.Lemmas.TcpLiveQuiet
import OnlVerif.Lemmas.TcpLiveRun
import OnlVerif.Lemmas.TcpLiveTRun
/-!
# C16 — TCP acknowledgements are cumulative and correct; all data gets through

* **Sink** (`OnlVerif/Tcp/Sink.lean`, model of `TCPSink.packet_arrived/put`): for every finite arrival sequence the ACK
  is the length of the contiguous prefix of the bytes received so far, hence monotone; the buffer stays sorted,
  pairwise non-touching, and covers exactly the received bytes.  Sequence numbers and sizes are natural numbers.
* **Sender** (`OnlVerif/Tcp/CC.lean`, LTS of `TCPPacketGenerator` over exact rationals `ℚ`): no sequence of actions
  raises; the acknowledged mark never moves back, whatever the order of the ACKs (`last_ack_monotone`, `stale_ack_is_noop`;
  in the closed loop over a reordering return path: `reordering_return_path_safe`);
  on a loss-free, timely path nothing is sent twice; partial progress lemmas.
* **Closed loop** (`OnlVerif/Tcp/Loop.lean`, `LoopLive.lean`: sender ∥ lossy FIFO data path ∥ sink ∥ lossy FIFO ACK
  path) for a finite flow: the run never ends early (`quiescent_implies_complete`), never gets stuck (`never_stuck`),
  no reachable state is a dead end (`can_always_complete`), and every run with finitely many losses terminates with
  everything delivered and acknowledged - on paths that deliver at once (`terminates_under_loss_budget`) and on paths
  with arbitrary finite per-packet delays, where timers expire while packets are in flight
  (`terminates_over_delaying_paths`).

What these theorems do not give is listed in the comment before the examples.  The correspondence check explores drop
patterns against the real code as a failing-input search, not as a proof.
-/

namespace C16
open TcpSink TcpSender TcpScalar TcpCC TcpLoop TcpLive

/-! ## the sink -/

/-- **The ACK returned for every arrival equals the length of the contiguous prefix `[0, n)` of the union of all
ranges received so far** — for every finite arrival sequence `arr` of `(seq, size)` pairs (any order, duplicates,
overlaps, gaps, first segment missing) and every position `k`: `put` does not fail, and its ACK `n` satisfies
`IsPrefix (first k+1 ranges) n`, i.e. every byte `< n` lies in some received range and byte `n` in none. -/
theorem sink_ack_prefix (arr : List (Nat × Nat)) (k : Nat) (hk : k < arr.length) :
    ∃ n, (acks [] arr)[k]? = some (.ok n) ∧ IsPrefix (rangesOf (arr.take (k + 1))) n := by
  obtain ⟨⟨n, h1, h2⟩, _⟩ := run_spec arr [] [] sep_nil (fun b => Iff.rfl) k hk
  exact ⟨n, h1, by simpa using h2⟩

/-- **Buffer invariant**: after every arrival `recv_buffer` is non-empty, sorted, pairwise non-touching (each range
ends strictly before the next starts), and its union is exactly the union of the ranges received so far. -/
theorem sink_buffer_invariant (arr : List (Nat × Nat)) (k : Nat) (hk : k < arr.length) :
    ∃ B, (buffers [] arr)[k]? = some B ∧ B ≠ [] ∧ (∀ r ∈ B, r.1 ≤ r.2) ∧ B.Pairwise (fun a b => a.2 < b.1) ∧
      ∀ b, Covers B b ↔ Covers (rangesOf (arr.take (k + 1))) b := by
  obtain ⟨_, ⟨B, h1, h2, h3, h4⟩⟩ := run_spec arr [] [] sep_nil (fun b => Iff.rfl) k hk
  exact ⟨B, h1, h3, h2.1, h2.2, by simpa using h4⟩

/-- one arrival, from any sorted non-touching buffer: the new buffer covers the old bytes plus the packet's -/
theorem sink_arrival (buf : List Range) (seq size : Nat) (h : Sep buf) :
    Sep (packetArrived buf seq size) ∧
    ∀ b, Covers (packetArrived buf seq size) b ↔ Covers buf b ∨ (seq ≤ b ∧ b < seq + size) :=
  packetArrived_spec buf seq size h

/-- **The ACK never decreases.** -/
theorem sink_ack_mono (arr : List (Nat × Nat)) (i j : Nat) (hij : i ≤ j) (hj : j < arr.length) (n m : Nat)
    (hn : (acks [] arr)[i]? = some (.ok n)) (hm : (acks [] arr)[j]? = some (.ok m)) : n ≤ m := by
  obtain ⟨n', h1, p1⟩ := sink_ack_prefix arr i (Nat.lt_of_le_of_lt hij hj)
  obtain ⟨m', h2, p2⟩ := sink_ack_prefix arr j hj
  rw [hn] at h1; rw [hm] at h2
  injection h1 with h1; injection h1 with h1
  injection h2 with h2; injection h2 with h2
  subst h1 h2
  refine isPrefix_mono p1 p2 ?_
  intro b ⟨r, hr, hb⟩
  refine ⟨r, ?_, hb⟩
  unfold rangesOf at hr ⊢
  obtain ⟨p, hp, rfl⟩ := List.mem_map.mp hr
  exact List.mem_map.mpr ⟨p, List.take_subset_take_left arr (Nat.succ_le_succ hij) hp, rfl⟩

/-- the prefix length is determined by the received ranges alone (so "the" ACK of the specification is unique) -/
theorem prefix_unique (rs : List Range) (n m : Nat) (hn : IsPrefix rs n) (hm : IsPrefix rs m) : n = m :=
  isPrefix_unique hn hm

/-- coverage of the received bytes depends only on *which* `(seq, size)` arrivals occurred, not on their order or
multiplicity -/
theorem covers_rangesOf_congr {a₁ a₂ : List (Nat × Nat)} (h : ∀ x, x ∈ a₁ ↔ x ∈ a₂) (b : Nat) :
    Covers (rangesOf a₁) b ↔ Covers (rangesOf a₂) b := by
  refine covers_of_mem_iff (fun r => ?_) b
  unfold rangesOf
  simp only [List.mem_map]
  constructor <;> rintro ⟨p, hp, rfl⟩
  · exact ⟨p, (h p).mp hp, rfl⟩
  · exact ⟨p, (h p).mpr hp, rfl⟩

/-- **The final ACK does not depend on the order of arrival or on duplicates**: two non-empty arrival sequences with
the same set of `(seq, size)` segments (any permutation, any number of retransmitted copies of each) end with the same
ACK.  So whatever reordering and duplication the path (or the retransmission logic) produces, the sender is told the
same cumulative mark once the same segments are in. -/
theorem sink_final_ack_order_independent (a₁ a₂ : List (Nat × Nat)) (h₁ : a₁ ≠ []) (h₂ : a₂ ≠ [])
    (h : ∀ x, x ∈ a₁ ↔ x ∈ a₂) :
    ∃ n, (acks [] a₁)[a₁.length - 1]? = some (.ok n) ∧ (acks [] a₂)[a₂.length - 1]? = some (.ok n) := by
  have l₁ : 0 < a₁.length := List.length_pos_iff.mpr h₁
  have l₂ : 0 < a₂.length := List.length_pos_iff.mpr h₂
  obtain ⟨n, hn, pn⟩ := sink_ack_prefix a₁ (a₁.length - 1) (by omega)
  obtain ⟨m, hm, pm⟩ := sink_ack_prefix a₂ (a₂.length - 1) (by omega)
  rw [show a₁.length - 1 + 1 = a₁.length by omega, List.take_length] at pn
  rw [show a₂.length - 1 + 1 = a₂.length by omega, List.take_length] at pm
  have : n = m := isPrefix_unique ((isPrefix_congr (covers_rangesOf_congr h) n).mp pn) pm
  subst this
  exact ⟨n, hn, hm⟩

/-- **A duplicate is acknowledged with the ACK already given**: if the arrival at position `k + 1` is a copy of a
segment received earlier (a spurious retransmission), its ACK equals the ACK of arrival `k` — the mark neither moves
back (the defect repaired in the sink, §3 C16) nor forward. -/
theorem sink_duplicate_keeps_ack (arr : List (Nat × Nat)) (k : Nat) (hk : k + 1 < arr.length)
    (hd : arr[k + 1] ∈ arr.take (k + 1)) :
    ∃ n, (acks [] arr)[k]? = some (.ok n) ∧ (acks [] arr)[k + 1]? = some (.ok n) := by
  obtain ⟨n, hn, pn⟩ := sink_ack_prefix arr k (by omega)
  obtain ⟨m, hm, pm⟩ := sink_ack_prefix arr (k + 1) hk
  have hmem : ∀ x, x ∈ arr.take (k + 1) ↔ x ∈ arr.take (k + 1 + 1) := by
    intro x
    rw [List.take_add_one (i := k + 1), List.getElem?_eq_getElem hk]
    simp only [Option.toList_some, List.mem_append, List.mem_singleton]
    constructor
    · exact Or.inl
    · rintro (hx | rfl)
      · exact hx
      · exact hd
  have : n = m := isPrefix_unique ((isPrefix_congr (covers_rangesOf_congr hmem) n).mp pn) pm
  subst this
  exact ⟨n, hn, hm⟩

/-- **Once exactly the bytes `[0, N)` are in, the ACK is `N`** — for every non-empty arrival sequence (any segmentation,
order, overlap, duplication) whose ranges cover every byte below `N` and none from `N` on, the last ACK is the flow
size `N`: the sink tells the sender "all received" exactly when all is received. -/
theorem sink_all_received (arr : List (Nat × Nat)) (N : Nat) (hne : arr ≠ [])
    (hcov : ∀ b, Covers (rangesOf arr) b ↔ b < N) :
    (acks [] arr)[arr.length - 1]? = some (.ok N) := by
  have l : 0 < arr.length := List.length_pos_iff.mpr hne
  obtain ⟨n, hn, pn⟩ := sink_ack_prefix arr (arr.length - 1) (by omega)
  rw [show arr.length - 1 + 1 = arr.length by omega, List.take_length] at pn
  have hN : IsPrefix (rangesOf arr) N :=
    ⟨fun b hb => (hcov b).mpr hb, fun hc => Nat.lt_irrefl N ((hcov N).mp hc)⟩
  rw [isPrefix_unique pn hN] at hn
  exact hn

/-- non-vacuity: two orders (one with a duplicate) of the same three segments, evaluated -/
example : (acks [] [(0, 5), (10, 5), (5, 5)])[2]? = some (.ok 15) ∧
    (acks [] [(5, 5), (10, 5), (0, 5), (0, 5)])[3]? = some (.ok 15) := by decide

/-- in-order delivery: with `[0, n)` held, the segment `[n, n + size)` is acknowledged with `n + size` — the ACK of
exactly the next segment, which is what `TimelyAct` assumes of a loss-free order-preserving path -/
theorem sink_in_order (n size : Nat) :
    put [] 0 size = ([(0, size)], .ok size) ∧
    (0 < n → put [(0, n)] n size = ([(0, n + size)], .ok (n + size))) := by
  constructor
  · simp [put, packetArrived, sortR, insertR, mergeAll, mergeFrom, ackOf]
  · intro hn
    have h1 : leR (n, n + size) (0, n) = false := by
      unfold leR; simp; omega
    have h2 : leR (0, n) (n, n + size) = true := by
      unfold leR; simp; omega
    simp [put, packetArrived, sortR, insertR, h1, h2, mergeAll, mergeFrom, ackOf]

/-! ## the sender never raises -/

/-- **For every sequence of sender actions — resumptions of `run`, token hand-offs, ACKs with arbitrary ACK numbers,
echoed packet ids, orders and RTT samples, timer expiries, clock ticks — the step never returns a Python exception**
(`AssertionError`, `KeyError` of `self.timers[..]` / `del self.sent_packets[..]`, `ValueError` of `Timer`,
`ZeroDivisionError`, CUBIC's cube root), from any state satisfying the invariant (a fresh generator around `TCPReno`
with `cwnd ≥ mss > 0`, `ssthresh ≥ 0`, or around `TCPCubic()`, with `rtt_estimate > 0`: `inv_init`).  Actions the
kernel would not offer in a state (`fire` of a timer that is not pending/due, an ACK stamped in the future, …) are
rejected, not errors.  `ActOk`: ACK packets carry `flow_id ≥ 10000`, as the sink builds them. -/
theorem sender_never_raises (s0 s : Sender ℚ) (h0 : Inv s0) (hr : Reach s0 s) (a : Act ℚ) (ha : ActOk a) (e : PyErr) :
    s.step a ≠ .error e :=
  (step_safe (reach_inv h0 hr) a ha).1 e

/-- without the `flow_id` precondition the only possible exception is the `assert` of `put` -/
theorem only_the_assert_can_fail (s0 s : Sender ℚ) (h0 : Inv s0) (hr : Reach s0 s) (a : Act ℚ) (e : PyErr)
    (he : s.step a = .error e) : e = .assertion ∧ ∃ x, a = .ack x ∧ x.fid < 10000 := by
  have hi := reach_inv h0 hr
  cases a with
  | ack x =>
    by_cases hf : 10000 ≤ x.fid
    · exact absurd he ((step_safe hi (.ack x) hf).1 e)
    · have : s.step (.ack x) = .error .assertion := by
        show s.ackStep x = _
        unfold Sender.ackStep
        simp only [Nat.lt_of_not_le hf, if_true]
      rw [this] at he; injection he with he
      exact ⟨he.symm, x, rfl, Nat.lt_of_not_le hf⟩
  | wake f => exact absurd he ((step_safe hi (.wake f) trivial).1 e)
  | handoff => exact absurd he ((step_safe hi .handoff trivial).1 e)
  | fire q => exact absurd he ((step_safe hi (.fire q) trivial).1 e)
  | tick t => exact absurd he ((step_safe hi (.tick t) trivial).1 e)

/-! ## no spurious retransmission -/

/-- **Over a loss-free path whose round-trip time stays below the current RTO no segment is transmitted twice.**
Take any run from a calm state (no duplicates counted, no timer due — e.g. the initial state) in which every
action is *timely* (`TimelyAct`): each ACK is the ACK of exactly the next unacknowledged segment (what in-order,
loss-free delivery produces, `sink_in_order`) and the clock never reaches the expiry of a pending timer (every ACK is
back before its segment's RTO).  Then no `fire` action is ever enabled, `dupack` stays 0, every transmission is a new
segment, and the transmitted sequence numbers are strictly increasing — every segment is sent exactly once. -/
theorem no_spurious_retransmit (s s' : Sender ℚ) (acts : List (Act ℚ)) (outs : List (Tx ℚ)) (h : Inv s) (hc : Calm s)
    (hm : 0 < s.mss) (hr : TimelyRun s acts s' outs) :
    (∀ tx ∈ outs, tx.kind = .new) ∧ outs.Pairwise (fun x y => x.seq < y.seq) ∧ (∀ seq, Act.fire seq ∉ acts) ∧
    s'.dupack = 0 ∧ (∀ seq, ∃ why, s'.step (.fire seq) = .reject why) := by
  obtain ⟨_, c, _, _, f, p, nf⟩ := timelyRun_spec hr h hc hm
  refine ⟨fun tx htx => (f tx htx).1, p, nf, c.nodup, fun seq => ?_⟩
  rcases calm_no_fire c seq with e | e <;> exact ⟨_, e⟩

/-- a fresh sender is calm -/
theorem init_calm (kind : CCKind) (cc : CCState ℚ) (rtt : ℚ) (mss : Nat) (size : Option Nat) (now : ℚ) :
    Calm (Sender.init kind cc rtt mss size now) :=
  ⟨rfl, fun kv hkv => by simp [Sender.init] at hkv⟩

/-! ## progress (partial) -/

/-- **(a) every transmitted new segment is put under a retransmission timer** armed for the current RTO -/
theorem new_segment_is_timed_partial (s s' : Sender ℚ) (tx : Tx ℚ) (h : Inv s) (hs : s.sendStep = .sent s' tx) :
    AL.get? tx.seq s'.timers = some { expiry := s.now + s.est.rto, wake := s.now + s.est.rto, live := true } ∧
    tx.seq ∈ AL.keys s'.sent := by
  obtain ⟨hi, htx, _, _, _, _, _, _, _, _, ht, _⟩ := (sendStep_spec h).2.1 s' tx hs
  rw [htx, ht]
  refine ⟨by rw [AL.get?_set_self, arm_eq _ _ h.rto_pos], ?_⟩
  rw [← hi.keys, ht]
  exact AL.mem_of_get?_some (AL.get?_set_self _ _ _)

/-- **(b) a timer is cancelled only by an ACK that covers or answers its segment**: if an accepted action removes
`q` from the pending timers, the action is a new ACK (`ackno > last_ack`: an ACK overtaken by a later one cancels nothing,
`stale_ack_is_noop`) with `q < ackno` or `q = packet_id`.  So an unacknowledged segment stays under a live timer. -/
theorem timer_cancelled_only_by_ack_partial (s s' : Sender ℚ) (a : Act ℚ) (outs : List (Tx ℚ)) (h : Inv s) (ha : ActOk a)
    (hs : s.step a = .ok s' outs) (q : Nat) (hq : q ∈ AL.keys s.timers) (hq' : q ∉ AL.keys s'.timers) :
    ∃ x, a = .ack x ∧ s.last_ack < x.ackno ∧ (q < x.ackno ∨ q = x.pid) :=
  timer_cancel_only_by_ack s s' a outs h ha hs q hq hq'

/-- **(c) a pending timer that comes due retransmits its segment and stays pending** with the doubled RTO — so an
outstanding segment is transmitted again at `t₀ + rto`, `t₀ + 3·rto`, `t₀ + 7·rto`, … for as long as it is not
acknowledged: the sender keeps retransmitting. -/
theorem due_timer_retransmits_and_rearms_partial (s : Sender ℚ) (seq : Nat) (tr : TimerRec ℚ) (h : Inv s)
    (ht : AL.get? seq s.timers = some tr) (hdue : tr.live = true ∧ tr.wake = s.now ∧ ¬ s.now < tr.expiry) :
    ∃ s', s.step (.fire seq) = .ok s' [{ seq := seq, size := s.mss, stamp := s.now, kind := .resend }] ∧
      AL.get? seq s'.timers = some { expiry := s.now + 2 * s.est.rto, wake := s.now + 2 * s.est.rto, live := true } ∧
      s.now < s.now + 2 * s.est.rto ∧ s'.est.rto = 2 * s.est.rto := by
  obtain ⟨S, r, _, _⟩ := fireStep_spec s seq tr ht hdue
  have hmem : seq ∈ AL.keys s.sent := h.keys ▸ AL.mem_of_get?_some ht
  have hout := resend_out ({ s with cc := CC.timerExpired s.kind s.cc } : Sender ℚ) seq
  rw [if_pos hmem] at hout
  rw [hout] at r
  have hr2 : (TCPPacketGenerator.timeout_backoff s.est).rto = 2 * s.est.rto := by
    rw [backoff_eq]; show s.est.rto * 2 = _; ring
  have hpos := h.rto_pos
  refine ⟨_, r, ?_, by linarith, hr2⟩
  show AL.get? seq (AL.set seq _ s.timers) = _
  rw [AL.get?_set_self, hr2, arm_eq _ _ (by linarith)]

/-- **(d) an ACK that gets through moves `last_ack` to its number and cancels the timers it covers**: after a new ACK
`x` (`x.ackno > last_ack`), `last_ack = x.ackno`, no segment below `x.ackno` and not the answered segment `x.pid` is still timed, every other
timer is untouched, and the `run` process is given a wake-up token. -/
theorem new_ack_advances_partial (s : Sender ℚ) (x : AckIn ℚ) (h : Inv s) (hok : AckOk s x) (hnew : s.last_ack < x.ackno) :
    ∃ s', s.step (.ack x) = .ok s' [] ∧ s'.last_ack = x.ackno ∧ s'.tokens = s.tokens + 1 ∧
      ∀ q, q ∈ AL.keys s'.timers ↔ q ∈ AL.keys s.timers ∧ ¬ (q < x.ackno ∨ q = x.pid) := by
  obtain ⟨T, S, r, _, _, hT, _⟩ := ackStep_new_spec s x h.cc h.keys h.nodup hok hnew
  exact ⟨_, r, rfl, rfl, hT⟩

/-! ### the acknowledged mark is cumulative: it never moves back -/

/-- **The sender's acknowledged mark `last_ack` never decreases - for ACKs arriving in *any* order.**  In every state
reachable from a state satisfying the invariant (a fresh generator: `inv_init`) by accepted actions, every further accepted
action - a resumption of `run`, a token hand-off, a timer expiry, a clock tick, or an ACK with an arbitrary number, echoed
packet id and RTT sample, in particular one that was overtaken on the return path by a later cumulative ACK - leaves
`last_ack` where it is or moves it forward; hence `last_ack` is non-decreasing along the whole run.  No FIFO hypothesis on
the return path.  (Before the repair of `put` - `if ackno < self.last_ack: return` - an overtaken ACK was taken for a new one
and moved the mark *back*: `known_findings.jsonl`, `findings/demos/C16_stale_ack.py`.) -/
theorem last_ack_monotone (s0 s s' : Sender ℚ) (h0 : Inv s0) (hr : Reach s0 s) (a : Act ℚ) (ha : ActOk a)
    (outs : List (Tx ℚ)) (hs : s.step a = .ok s' outs) :
    s.last_ack ≤ s'.last_ack ∧ s0.last_ack ≤ s.last_ack :=
  ⟨step_last_ack_mono (reach_inv h0 hr) ha hs, reach_last_ack_mono h0 hr⟩

/-- **An ACK overtaken by a later cumulative one is ignored**: an acknowledgement with `ackno < last_ack` (well-formed:
`flow_id ≥ 10000`, not stamped in the future) is accepted, leaves the *whole* sender state unchanged - `last_ack`, `dupack`,
the window, the RTT estimator and RTO, the timers, the wake-up store - and sends nothing: it acknowledges nothing new and is
not a duplicate either.  From any state. -/
theorem stale_ack_is_noop (s : Sender ℚ) (x : AckIn ℚ) (hf : 10000 ≤ x.fid) (hp : x.ptime ≤ s.now)
    (hst : x.ackno < s.last_ack) : s.step (.ack x) = .ok s [] :=
  ackStep_stale s x ⟨hf, hp⟩ hst

/-- the hypotheses of `stale_ack_is_noop` and `last_ack_monotone` are met by a reachable state, and the conclusion is not
empty: the bulk scenario of the demo (3 segments, window of 3 segments, the ACKs come back in the order 1024, 1536, 512).
All six actions are accepted; after the overtaken ACK 512 the mark is still 1536 (the unrepaired code ended with 512) -/
example : ((runActs (Sender.init .reno ({ (TCPCubic.defaults : CCState ℚ) with mss := 512, cwnd := 1536, ssthresh := 65535 })
      10 512 (some 1536) 0)
    [.wake 8, .tick 1, .ack { fid := 10000, ackno := 1024, pid := 512, ptime := 0 },
     .ack { fid := 10000, ackno := 1536, pid := 1024, ptime := 0 }, .tick 2,
     .ack { fid := 10000, ackno := 512, pid := 0, ptime := 0 }]).map fun s => (s.last_ack, s.next_seq, s.dupack, s.timers.length))
    = some (1536, 1536, 0, 0) := by decide +kernel

/-- … and the state before that last ACK already had `last_ack = 1536 > 512` -/
example : ((runActs (Sender.init .reno ({ (TCPCubic.defaults : CCState ℚ) with mss := 512, cwnd := 1536, ssthresh := 65535 })
      10 512 (some 1536) 0)
    [.wake 8, .tick 1, .ack { fid := 10000, ackno := 1024, pid := 512, ptime := 0 },
     .ack { fid := 10000, ackno := 1536, pid := 1024, ptime := 0 }, .tick 2]).map fun s => (s.last_ack, decide (s.now = 2)))
    = some (1536, true) := by decide +kernel

/-! ### the closed loop (sender ∥ lossy FIFO data path ∥ sink ∥ lossy FIFO ACK path, `OnlVerif/Tcp/Loop.lean`) -/

/-- **(e) in the closed loop, every segment issued so far is at the sink or under a pending retransmission timer** —
for every interleaving of sender bursts, deliveries, ACK arrivals and losses on both paths (any packet in flight may be
lost at any time).  With (c) this is "the sender keeps retransmitting what the sink lacks".  (`Covers sink q`: the
first byte of segment `q` is held.) -/
theorem outstanding_segment_is_timed_partial (s0 : Sender ℚ) (l : Loop ℚ) (h0 : Inv s0) (hm : 0 < s0.mss)
    (hr : LReach (Loop.init s0) l) (q : Nat) (hq : q ∈ l.issued) :
    Covers l.sink q ∨ q ∈ AL.keys l.snd.timers :=
  (reach_J (J_init s0 h0 hm) hr).issued q hq

/-- **(f) every ACK in flight is backed by the sink**: all bytes below its number and the segment it answers are
held (so the sender's cumulative cancellation never forgets a segment the sink lacks), it carries `flow_id ≥ 10000`,
and its arrival at the sender raises nothing; the sink's `put` never fails on a delivery. -/
theorem acks_in_flight_are_backed_partial (s0 : Sender ℚ) (l : Loop ℚ) (h0 : Inv s0) (hm : 0 < s0.mss)
    (hr : LReach (Loop.init s0) l) :
    (∀ a ∈ l.acks, (∀ b, b < a.ackno → Covers l.sink b) ∧ Covers l.sink a.pid ∧ ∀ e, l.snd.step (.ack a) ≠ .error e) ∧
    (∀ tx ∈ l.data, ∃ n, (TcpSink.put l.sink tx.seq tx.size).2 = .ok n) ∧ Inv l.snd ∧ Sep l.sink := by
  have j := reach_J (J_init s0 h0 hm) hr
  refine ⟨fun a ha => ?_, fun tx _ => ?_, j.snd, j.sink⟩
  · obtain ⟨a1, a2, a3⟩ := j.acks a ha
    exact ⟨a2, a3, (step_safe j.snd (.ack a) a1).1⟩
  · obtain ⟨hsep', _⟩ := packetArrived_spec l.sink tx.seq tx.size j.sink
    obtain ⟨n, hn, _⟩ := ackOf_isPrefix _ hsep' (packetArrived_ne_nil l.sink tx.seq tx.size)
    exact ⟨n, by unfold TcpSink.put; exact hn⟩

/-- **Over a return path that reorders and loses ACKs, the sender's acknowledged mark stays a correct cumulative
acknowledgement.**  `TcpReorder.RReach`: the runs of the closed loop (sender bursts, deliveries over the FIFO data path, losses
on both paths, clock ticks, in any interleaving) in which additionally *any* ACK in flight - not only the oldest - may reach the
sender next (`Loop.ackArriveAt i`).  In every state of such a run from a fresh sender: the mark has not moved back, and no
further step moves it back; **every byte below `last_ack` is held by the sink**; every segment issued so far is at the sink or
under a pending retransmission timer; no ACK in flight can make `put` raise.  (That such runs also *complete* is searched by the
overtaken-ACK leg of the correspondence check, not proved: the liveness theorems below are for FIFO paths.) -/
theorem reordering_return_path_safe (s0 : Sender ℚ) (l : Loop ℚ) (h0 : Inv s0) (hm : 0 < s0.mss) (hl : s0.last_ack = 0)
    (hr : TcpReorder.RReach (Loop.init s0) l) :
    s0.last_ack ≤ l.snd.last_ack ∧ (∀ l', TcpReorder.RStep l l' → l.snd.last_ack ≤ l'.snd.last_ack) ∧
    (∀ b, b < l.snd.last_ack → Covers l.sink b) ∧
    (∀ q ∈ l.issued, Covers l.sink q ∨ q ∈ AL.keys l.snd.timers) ∧
    (∀ a ∈ l.acks, ∀ e, l.snd.step (.ack a) ≠ .error e) ∧ Inv l.snd := by
  have j := TcpReorder.reach_J (J_init s0 h0 hm) hr
  have m := TcpReorder.reach_mark (J_init s0 h0 hm) hr
  refine ⟨m.mono, fun l' hs => (TcpReorder.mark_step j hs).mono, ?_, j.issued, fun a ha => ?_, j.snd⟩
  · refine m.held (fun b hb => ?_)
    have : (Loop.init s0).snd.last_ack = 0 := hl
    omega
  · exact (step_safe j.snd (.ack a) (j.acks a ha).1).1

/-- such a run, with a real overtaking: three segments are sent and delivered, their ACKs (512, 1024, 1536) are in flight; the
second and the third arrive first, then the first one - below the mark.  Every step is accepted (`TcpReorder.runR_sound`); at
the end `last_ack = 1536`, the sink holds `[0, 1536)` and nothing is in flight -/
example : ((TcpReorder.runR (Loop.init (Sender.init .reno ({ (TCPCubic.defaults : CCState ℚ) with mss := 512, cwnd := 1536, ssthresh := 65535 })
      10 512 (some 1536) 0))
    [.inl (.own (.wake 8)), .inl .deliver, .inl .deliver, .inl .deliver, .inr 1, .inr 1, .inr 0]).map
      fun l => (l.snd.last_ack, l.sink, l.acks.length, l.snd.timers.length))
    = some (1536, [(0, 1536)], 0, 0) := by decide +kernel

/-! ### liveness, safety half: no premature quiescence -/

/-- **If the run ends, everything was delivered and acknowledged.**  Take a freshly constructed generator for a
finite flow of `n > 0` bytes, `n` a multiple of the generator's segment size `mss > 0`, around a congestion-control
object with `cwnd ≥ cc.mss > 0`, `ssthresh ≥ 0` (`CCInv`) whose own MSS is not smaller than the generator's
(`mss ≤ cc.mss`; both are 512 by default), with `rtt_estimate > 0`.  In **every** state `l` of the closed loop
sender ∥ lossy FIFO data path ∥ sink ∥ lossy FIFO ACK path reachable from it - any interleaving of sender bursts,
deliveries, ACK arrivals, clock ticks, and any packet or ACK lost at any time - in which the simulation kernel has no
event left (`Loop.Quiescent`: nothing in flight in either direction, no live retransmission timer, `run` neither
scheduled nor about to be handed a wake-up token; this is when the real `env.run()` returns), the sink's receive buffer
is exactly `[(0, n)]` and `last_ack = n`.  So losses can delay the transfer but the protocol never gives up early:
while a segment or its acknowledgement is missing something is still pending. -/
theorem quiescent_implies_complete (kind : CCKind) (cc : CCState ℚ) (rtt : ℚ) (mss n : Nat) (now : ℚ)
    (hcc : CCInv kind cc) (hrtt : 0 < rtt) (hn : 0 < n) (hm : 0 < mss) (hd : mss ∣ n) (hc : (mss : ℚ) ≤ cc.mss)
    (l : Loop ℚ) (hr : LReach (Loop.init (Sender.init kind cc rtt mss (some n) now)) l) (hq : l.Quiescent) :
    l.sink = [(0, n)] ∧ l.snd.last_ack = n :=
  quiescent_complete (reach_LInv (LInv_init (fresh_init kind cc rtt mss n now hcc hrtt hn hm hd hc)) hr) hq

/-- `Loop.Quiescent` means what it should: in a quiescent state no action of the closed loop other than the passing
of time is accepted (no resumption of `run`, no hand-off, no timer expiry, no delivery, no ACK arrival, nothing to
lose) -/
theorem quiescent_means_no_event (l : Loop ℚ) (hq : l.Quiescent) (a : LAct ℚ) (hnt : ∀ t, a ≠ .own (.tick t)) :
    l.step a = none :=
  quiescent_no_event hq a hnt

/-- the invariant behind it, for every reachable state (quiescent or not): while anything is unacknowledged the first
unacknowledged segment is under a retransmission timer; a blocked `run` with no token pending has something
outstanding; every ACK in flight still finds the timer of the segment at its number; the sink holds whole aligned
segments below `next_seq`, everything below `last_ack`, and whatever it lacks below `next_seq` is timed -/
theorem liveness_invariant (kind : CCKind) (cc : CCState ℚ) (rtt : ℚ) (mss n : Nat) (now : ℚ)
    (hcc : CCInv kind cc) (hrtt : 0 < rtt) (hn : 0 < n) (hm : 0 < mss) (hd : mss ∣ n) (hc : (mss : ℚ) ≤ cc.mss)
    (l : Loop ℚ) (hr : LReach (Loop.init (Sender.init kind cc rtt mss (some n) now)) l) :
    (l.snd.last_ack < l.snd.next_seq → l.snd.last_ack ∈ AL.keys l.snd.timers) ∧
    (l.snd.proc = .blocked → 0 < l.snd.tokens ∨ l.snd.last_ack < l.snd.next_seq) ∧
    (l.snd.proc = .finished → l.snd.next_seq = n) ∧
    (∀ a ∈ l.acks, l.snd.last_ack ≤ a.ackno ∧ (a.ackno < l.snd.next_seq → a.ackno ∈ AL.keys l.snd.timers)) ∧
    (∀ q, mss ∣ q → q < l.snd.next_seq → Covers l.sink q ∨ q ∈ AL.keys l.snd.timers) ∧
    (∀ b, b < l.snd.last_ack → Covers l.sink b) ∧ l.snd.last_ack ≤ l.snd.next_seq ∧ l.snd.next_seq ≤ n := by
  obtain ⟨h, hmss⟩ := reach_mss (LInv_init (fresh_init kind cc rtt mss n now hcc hrtt hn hm hd hc)) hr
  have hmss : l.snd.mss = mss := hmss
  refine ⟨h.s.tm, h.s.blk, h.s.finished, fun a ha => ⟨(h.acks a ha).ge, (h.acks a ha).timed⟩, ?_, h.lap, h.s.la_le, h.s.ns_le⟩
  rw [← hmss]
  exact h.seg

/-! ### liveness: no dead end -/

/-- **No reachable state is a dead end: losses can delay the transfer but never wedge it.**  Under the hypotheses of
`quiescent_implies_complete`, from **every** state `l` of the closed loop that is reachable by any interleaving and any
losses there is a finite sequence `acts` of loop actions **without any further loss** (`noDrop`: no `dropData`, no
`dropAck`) that is accepted action by action and ends in a state that is quiescent (the run is over) with
`sink = [(0, n)]` and `last_ack = n`.  The witness is constructive: any fair schedule works - deliver what is in
flight, resume `run` when it is scheduled, let due timers fire, advance the clock to the next timer only when nothing
else can happen (`Loop.Fair`); each such step decreases the lexicographic measure `TcpLive.mu`. -/
theorem can_always_complete (kind : CCKind) (cc : CCState ℚ) (rtt : ℚ) (mss n : Nat) (now : ℚ)
    (hcc : CCInv kind cc) (hrtt : 0 < rtt) (hn : 0 < n) (hm : 0 < mss) (hd : mss ∣ n) (hc : (mss : ℚ) ≤ cc.mss)
    (l : Loop ℚ) (hr : LReach (Loop.init (Sender.init kind cc rtt mss (some n) now)) l) :
    ∃ acts l', (∀ a ∈ acts, a.noDrop = true) ∧ l.run acts = some l' ∧ l'.Quiescent ∧
      l'.sink = [(0, n)] ∧ l'.snd.last_ack = n := by
  obtain ⟨acts, l', h1, h2, h3, h4⟩ :=
    can_complete (reach_LInv (LInv_init (fresh_init kind cc rtt mss n now hcc hrtt hn hm hd hc)) hr)
  exact ⟨acts, l', h1, h2, h3, h4.1, h4.2⟩

/-- **while the run is not over something can happen**: in every reachable state that is not quiescent, some action
of the fair discipline (a delivery, an ACK arrival, a resumption of `run`, a token hand-off, the expiry of a due timer,
or - when none of these is possible - the advance of the clock to the next timer) is accepted -/
theorem never_stuck (kind : CCKind) (cc : CCState ℚ) (rtt : ℚ) (mss n : Nat) (now : ℚ)
    (hcc : CCInv kind cc) (hrtt : 0 < rtt) (hn : 0 < n) (hm : 0 < mss) (hd : mss ∣ n) (hc : (mss : ℚ) ≤ cc.mss)
    (l : Loop ℚ) (hr : LReach (Loop.init (Sender.init kind cc rtt mss (some n) now)) l) (hq : ¬ l.Quiescent) :
    ∃ a l', Loop.Fair l a ∧ l.step a = some l' :=
  fair_progress (reach_LInv (LInv_init (fresh_init kind cc rtt mss n now hcc hrtt hn hm hd hc)) hr) hq

/-! ### liveness: termination under finitely many losses -/

/-- **Every fair run with finitely many losses is finite and ends with everything delivered and acknowledged.**
Runs with a loss budget (`Loop.BStep` on pairs `(k, l)`): a step is either a *fair* step of the closed loop
(`Loop.Fair`: any enabled burst - resumption of `run`, token hand-off, expiry of a due timer, delivery of the head of
the data path, arrival of the head of the ACK path - in **any** order; the clock advances only when neither path holds
a packet, and then exactly to the next timer wake-up, as the kernel jumps to its next event), or the loss of any packet
or ACK in flight, which consumes one unit of the budget `k` - "the path drops finitely many packets".  Under the
hypotheses of `quiescent_implies_complete`, for every budget `k`:

1. there is **no infinite run** from the initial state - the sender cannot retransmit for ever, the two paths cannot
   bounce packets for ever, the clock cannot advance for ever;
2. every state `(k', l)` the run can reach from which **no step is possible** (the run is maximal) is quiescent and has
   `sink = [(0, n)]`, `last_ack = n`.

So every maximal run reaches the complete state after finitely many steps, whichever packets (at most `k`) are lost
and however the enabled bursts are interleaved. -/
theorem terminates_under_loss_budget (kind : CCKind) (cc : CCState ℚ) (rtt : ℚ) (mss n : Nat) (now : ℚ)
    (hcc : CCInv kind cc) (hrtt : 0 < rtt) (hn : 0 < n) (hm : 0 < mss) (hd : mss ∣ n) (hc : (mss : ℚ) ≤ cc.mss)
    (k : Nat) :
    (¬ ∃ f : Nat → Nat × Loop ℚ, f 0 = (k, Loop.init (Sender.init kind cc rtt mss (some n) now)) ∧
        ∀ i, Loop.BStep (f i) (f (i + 1))) ∧
    (∀ k' l, Relation.ReflTransGen Loop.BStep (k, Loop.init (Sender.init kind cc rtt mss (some n) now)) (k', l) →
        (∀ y, ¬ Loop.BStep (k', l) y) → l.Quiescent ∧ l.sink = [(0, n)] ∧ l.snd.last_ack = n) := by
  have h0 := LInv_init (fresh_init kind cc rtt mss n now hcc hrtt hn hm hd hc)
  refine ⟨no_infinite_of_acc (bstep_acc k _ h0), fun k' l hr hstuck => ?_⟩
  have h : LInv n l := breach_LInv hr h0
  have hq := stuck_quiescent h hstuck
  exact ⟨hq, quiescent_complete h hq⟩

/-- the same from any reachable state (whatever was lost before), as well-foundedness: the converse of `Loop.BStep` is
well-founded below every `(k, l)` with `l` reachable -/
theorem fair_runs_wellFounded (kind : CCKind) (cc : CCState ℚ) (rtt : ℚ) (mss n : Nat) (now : ℚ)
    (hcc : CCInv kind cc) (hrtt : 0 < rtt) (hn : 0 < n) (hm : 0 < mss) (hd : mss ∣ n) (hc : (mss : ℚ) ≤ cc.mss)
    (l : Loop ℚ) (hr : LReach (Loop.init (Sender.init kind cc rtt mss (some n) now)) l) (k : Nat) :
    Acc (fun y x => Loop.BStep x y) (k, l) :=
  bstep_acc k l (reach_LInv (LInv_init (fresh_init kind cc rtt mss n now hcc hrtt hn hm hd hc)) hr)

/-- a budgeted fair run is in particular a run of the closed loop (so all safety results apply to it), it stops
exactly in the quiescent states, and each fair step decreases the measure `TcpLive.mu` in the lexicographic order -/
theorem fair_run_facts (n : Nat) (l : Loop ℚ) (h : LInv n l) :
    (∀ k y, Relation.ReflTransGen Loop.BStep (k, l) y → LReach l y.2) ∧
    (∀ k, l.Quiescent ↔ ∀ y, ¬ Loop.BStep (k, l) y) ∧
    (∀ a l', Loop.Fair l a → l.step a = some l' → Lt5 (mu n l') (mu n l)) :=
  ⟨fun _ _ hr => breach_lreach hr, fun _ => ⟨fun hq => quiescent_stuck hq, fun hs => stuck_quiescent h hs⟩,
   fun _ _ hf hs => fair_decreases h hf hs⟩

/-! ### liveness: termination over paths with delay -/

/-- **Over any pair of order-preserving paths that delay every packet by a finite amount and drop finitely many, the
transfer completes.**  `TLoop` attaches to each packet in flight the instant by which its path delivers it - chosen
arbitrarily, per packet, when it enters the path (not in the past).  A step (`TLoop.TStep`) is any enabled burst of the
sender, a delivery or an ACK arrival (possibly before that instant), or the advance of the clock from one event instant
to the next (a timer wake-up or a delivery instant), never beyond the delivery instant of a packet in flight nor
beyond a due timer - so **retransmission timers may expire while packets and ACKs are still in flight** (round-trip
times above the RTO, spurious retransmissions, duplicate ACKs and fast retransmits included); `TLoop.TBStep` adds the
loss of any packet in flight against a budget `k`.  Under the hypotheses of `quiescent_implies_complete`, for every `k`:

1. there is **no infinite run** from the initial state;
2. every reachable state from which **no step is possible** is quiescent and has `sink = [(0, n)]`, `last_ack = n`.

The measure (`TcpLive.tmu`, lexicographic): what the sink's prefix, `last_ack` and `next_seq` still have to go; whether
an ACK beyond `last_ack`, or else a copy of the segment at `last_ack`, is already in flight; the number of timer
expiries that can still precede the delivery instant of that packet (or, if there is none, the expiry of the timer of
`last_ack`) - finite because every expiry doubles the RTO; the weight of the packets in flight; the events not yet
due. -/
theorem terminates_over_delaying_paths (kind : CCKind) (cc : CCState ℚ) (rtt : ℚ) (mss n : Nat) (now : ℚ)
    (hcc : CCInv kind cc) (hrtt : 0 < rtt) (hn : 0 < n) (hm : 0 < mss) (hd : mss ∣ n) (hc : (mss : ℚ) ≤ cc.mss)
    (k : Nat) :
    (¬ ∃ f : Nat → Nat × TLoop ℚ, f 0 = (k, TLoop.init (Sender.init kind cc rtt mss (some n) now)) ∧
        ∀ i, TLoop.TBStep (f i) (f (i + 1))) ∧
    (∀ k' L, Relation.ReflTransGen TLoop.TBStep (k, TLoop.init (Sender.init kind cc rtt mss (some n) now)) (k', L) →
        (∀ y, ¬ TLoop.TBStep (k', L) y) → L.l.Quiescent ∧ L.l.sink = [(0, n)] ∧ L.l.snd.last_ack = n) := by
  have h0 := TInv_init (fresh_init kind cc rtt mss n now hcc hrtt hn hm hd hc)
  refine ⟨no_infinite_of_acc (tbstep_acc k _ h0), fun k' L hr hstuck => ?_⟩
  have h : TInv n L := tbreach_TInv hr h0
  have hq := tstuck_quiescent h hstuck
  exact ⟨hq, quiescent_complete h.inv hq⟩

/-- runs over timed paths are runs of the closed loop (all safety results apply), they can continue exactly while the
state is not quiescent, and every loss-free step decreases `TcpLive.tmu` -/
theorem timed_run_facts (n : Nat) (L : TLoop ℚ) (h : TInv n L) :
    (∀ k y, Relation.ReflTransGen TLoop.TBStep (k, L) y → LReach L.l y.2.l) ∧
    (∀ k, L.l.Quiescent ↔ ∀ y, ¬ TLoop.TBStep (k, L) y) ∧
    (∀ L', TLoop.TStep L L' → Lt5 (tmu n L') (tmu n L)) :=
  ⟨fun _ _ hr => tbreach_lreach hr, fun _ => ⟨fun hq => tquiescent_stuck h hq, fun hs => tstuck_quiescent h hs⟩,
   fun _ hs => tstep_decreases h hs⟩

/-
**Closed-loop liveness: what is proved and what is left.**  Full statement of the property clause:

  for every flow size `size = n · MSS`, `n ≥ 1`, every pair of order-preserving paths with arbitrary non-negative
  per-packet delays and finite sets `D`, `A` of dropped transmission indices (data, ACK direction), every
  `rtt_estimate > 0`, and `TCPReno` (`cwnd ≥ mss`, `ssthresh ≥ 0`) or `TCPCubic()`:
  the closed system  sender LTS ∥ data path ∥ `TcpSink.put` ∥ ACK path  reaches, after finitely many steps, a state
  with `sink.recv_buffer = [(0, size)]` and `sender.last_ack = size`, and no step on the way is an error.

Proved above for the models `OnlVerif/Tcp/Loop.lean` + `LoopLive.lean`, all for `cc.mss ≥ 512` (see below):

* no error on the way: `sender_never_raises`, `acks_in_flight_are_backed_partial`;
* safety half, for *arbitrary* delays (any interleaving of clock ticks with deliveries) and *arbitrary* losses (any
  packet in flight may be lost at any time, finitely or infinitely often): `quiescent_implies_complete` - whenever the
  event queue runs empty, everything has been delivered and acknowledged - and `never_stuck` - until then some event
  is enabled;
* `can_always_complete`: from every state reachable under arbitrary delays and losses, a finite loss-free continuation
  reaches the complete state - no loss pattern can wedge the protocol;
* `terminates_under_loss_budget`: with at most `k` losses (any `k`, any packets, at any moments), every order of the
  enabled bursts, on paths that deliver within the instant, every run is finite and ends complete;
* `terminates_over_delaying_paths`: the same over paths that delay each packet by an arbitrary finite amount, where
  timers expire while packets are in flight - the statement above, in the model.  "Finite sets of dropped transmission
  indices" is the loss budget: a run drops at most `|D| + |A|` packets.

What this does not give: (1) the step from the models to the code is the replay correspondence (sender and sink
separately, closed loops by trace comparison), not a proof; (2) exact rational arithmetic: in floating point a timer
armed for less than the resolution of the clock never fires (`TimerRec.live = false`), which the theorems exclude;
(3) in `TLoop` a path may deliver *before* the instant it announced and the clock moves from event to event - a
superset of the runs of a path with fixed per-packet delays, so nothing is lost, but the bound on the *time* of
completion (as opposed to the number of steps) is not stated; (4) flows with `start_time`, `finish_time`,
`arrival_dist`, `size_dist` or a size that is not a multiple of the MSS are outside the model (as for the rest of C16);
(5) both paths of `Loop` / `TLoop` are FIFO lists: that an ACK in flight is never below the acknowledged mark
(`liveness_invariant`, fourth clause) is a *consequence* of that model, not a hypothesis of the theorems, and the termination
measures use it.  For a return path that reorders ACKs what is proved is the sender-level part, for ACKs in any order:
`sender_never_raises`, `last_ack_monotone` (the mark never moves back), `stale_ack_is_noop` (an overtaken ACK changes nothing),
`timer_cancelled_only_by_ack_partial`, and the safety half in the closed loop, `reordering_return_path_safe` (the mark never
moves back, everything below it is at the sink, what the sink lacks is timed, nothing raises); that such runs complete is searched by the overtaken-ACK leg of `harness/c16.py`
(free return path, held ACKs, application-limited flows), not proved.

**A finding** (repaired: `fix:` commit "the TCP sender ignores an acknowledgement overtaken by a later cumulative one"): `put`
took an ACK with `ackno < last_ack` for a new ACK and moved `last_ack` back; the event queue could run empty with `last_ack`
short of the flow size although the sink held everything, and an application-limited flow could stall for ever
(`findings/demos/C16_stale_ack.py`).  With the early return `last_ack_monotone` holds without any order hypothesis.

**A finding**: `mss ≤ cc.mss` is needed.  `TCPPacketGenerator.mss` is the constant 512 while the congestion-control
object has its own `mss` parameter; with `TCPReno(mss=100, cwnd=512)`, a flow of 1024 bytes and the first transmission
of segment 0 dropped, the real run ends (event queue empty) with `last_ack = next_seq = 512`, `recv_buffer =
[[0, 512]]`: after the timeout `cwnd = cc.mss = 100`, the ACK of the retransmission makes it 200, and the send guard
`next_seq + 512 ≤ last_ack + cwnd` never opens again while nothing is outstanding that could produce an event (the
`example` below replays it in the model).
-/

/-! ## The sink source, re-translated on every run, *is* the model (bridge theorems)

`Generated/Sink.lean` is rewritten by `py2lean` from the current `onl/packet/tcp_sink.py` before this file is compiled. -/

/-- **The range-merge loop of `packet_arrived` as written in the source computes the model's `mergeAll`**: running the
*translated loop body* over any list of ranges — starting from the empty `merge_stats`, every `append` making the previous
last element final (`GenSink.genMerge`, the meaning of the structurally checked frame `merge_stats = []` / `for start, end in
self.recv_buffer` / `self.recv_buffer = merge_stats`) — yields exactly `mergeAll` of that list.  With the frame's
`append([packet_id, packet_id + size])` and `sort()` this is `packetArrived`.  (`<=` changed to `<` in the overlap test,
`max` to `min`, the wrong element appended … make this fail to compile.) -/
theorem sink_merge_generated_eq_model (l : List Range) :
    GenSink.genMerge (GenSink.mergeObj none 0) l = (mergeAll l).map GenSink.castR :=
  GenSink.genMerge_eq l

/-- **`TCPSink.put` as written in the source computes the model's `ackOf`**: on a non-empty receive buffer with first range
`r`, the translated `put` calls `super().put`, `packet_arrived`, builds the acknowledgement (`size=40`, same `packet_id`,
`flow_id + 10000` — checked structurally), writes `ack = r.2 if r.1 == 0 else 0` — the model's `ackOf` — into it and hands
it to `out` exactly once. -/
theorem sink_put_generated_eq_model (r : Range) (rest : List Range) (nse ack : Int) (e1 e2 e3 e4 e5 : Nat) :
    ∃ a, ackOf (r :: rest) = .ok a ∧
      Gen.TCPSink.put (GenSink.sinkObj nse ack e1 e2 e3 e4 e5) r.1 r.2 =
        GenSink.sinkObj a a (e1 + 1) (e2 + 1) (e3 + 1) (e4 + 1) (e5 + 1) :=
  GenSink.put_eq r rest nse ack e1 e2 e3 e4 e5

/-- the translated loop body run over the sorted ranges `[0,512) [512,1024) [2048,2560)`: the first two merge -/
example : GenSink.genMerge (GenSink.mergeObj none 0) [(0, 512), (512, 1024), (2048, 2560)] = [(0, 1024), (2048, 2560)] := by
  decide +kernel

/-! ## non-vacuity -/

/-- the counter-example of the original defect: arrivals 512, 0, 1024, 0 (sizes 512) are acknowledged 0, 1024, 1536, 1536 -/
example : acks [] [(512, 512), (0, 512), (1024, 512), (0, 512)] = [.ok 0, .ok 1024, .ok 1536, .ok 1536] := by decide

/-- overlapping, touching and empty ranges -/
example : buffers [] [(10, 5), (0, 4), (4, 6), (20, 0), (12, 9)] =
    [[(10, 15)], [(0, 4), (10, 15)], [(0, 15)], [(0, 15), (20, 20)], [(0, 21)]] := by decide

/-- a calm invariant state from which `no_spurious_retransmit` starts: the fresh Reno sender -/
example : Inv (Sender.init .reno ({ (TCPCubic.defaults : CCState ℚ) with mss := 512, cwnd := 512, ssthresh := 65535 }) 1 512 (some 2048) 0) ∧
    Calm (Sender.init .reno ({ (TCPCubic.defaults : CCState ℚ) with mss := 512, cwnd := 512, ssthresh := 65535 }) 1 512 (some 2048) 0) :=
  ⟨inv_init _ _ _ _ _ _ ⟨by norm_num, by norm_num, by norm_num, fun h => by cases h⟩ (by norm_num), init_calm _ _ _ _ _ _⟩

/-- the hypotheses of the sending lemmas are satisfiable: the first loop iteration of that sender finds the guard
open (`0 + 512 ≤ min 512 (0 + 512)`) and sends segment 0 -/
example : ∃ s1 tx, (Sender.init .reno ({ (TCPCubic.defaults : CCState ℚ) with mss := 512, cwnd := 512, ssthresh := 65535 })
    1 512 (some 2048) 0).sendStep = .sent s1 tx := by
  generalize hs : Sender.init .reno ({ (TCPCubic.defaults : CCState ℚ) with mss := 512, cwnd := 512, ssthresh := 65535 })
    1 512 (some 2048) 0 = s0
  have hg : s0.refill.guard = true := by
    rw [guard_iff, ← hs]
    simp [Sender.init, Sender.refill, Sender.pktSize, TcpSpec.InWindow, TCPCubic.defaults]
  have hd : s0.flowDone = false := by rw [← hs]; simp [Sender.init, Sender.flowDone]
  have hr : 0 < s0.refill.est.rto := by
    rw [← hs]; simp [Sender.init, Sender.refill, Sender.pktSize, TCPPacketGenerator.init_rto]
  unfold Sender.sendStep
  simp only [hd, hg, if_true, Bool.false_eq_true, if_false, emit_ok hr]
  exact ⟨_, _, rfl⟩

/-- an ACK that is timely for a state with `last_ack = 0`, `mss = 512`: the ACK of segment 0 -/
example : TimelyAct (Sender.init .reno (TCPCubic.defaults : CCState ℚ) 1 512 none 0)
    (.ack { fid := 10000, ackno := 512, pid := 0, ptime := 0 }) := ⟨Nat.le_refl _, rfl, rfl⟩

/-- a concrete run of a 2-segment flow (`n = 1024`, Reno with `cc.mss = cwnd = 512`, `rtt_estimate = 1`) with one loss:
segment 0 is sent and **dropped**; its timer expires at `t = 2` and retransmits it; it is delivered and acknowledged;
the ACK wakes `run`, which sends segment 512 and returns; that segment is delivered and acknowledged.  The run is
accepted action by action and ends in a quiescent state, which is complete - as `quiescent_implies_complete` says. -/
example : ((Loop.init (Sender.init .reno ({ (TCPCubic.defaults : CCState ℚ) with mss := 512, cwnd := 512, ssthresh := 65535 })
      1 512 (some 1024) 0)).run
    [.own (.wake 4), .dropData 0, .own (.tick 2), .own (.fire 0), .deliver, .ackArrive, .own .handoff, .own (.wake 4),
     .deliver, .ackArrive]).map (fun l => (decide l.Quiescent, decide (l.Complete 1024), l.sink, l.snd.last_ack))
    = some (true, true, [(0, 1024)], 1024) := by decide +kernel

/-- the state after the drop in that run is *not* quiescent (the timer of segment 0 is pending), and not complete -/
example : ((Loop.init (Sender.init .reno ({ (TCPCubic.defaults : CCState ℚ) with mss := 512, cwnd := 512, ssthresh := 65535 })
      1 512 (some 1024) 0)).run
    [.own (.wake 4), .dropData 0]).map (fun l => (decide l.Quiescent, decide (l.Complete 1024), l.snd.timers.length))
    = some (false, false, 1) := by decide +kernel

/-- **the hypothesis `mss ≤ cc.mss` of `quiescent_implies_complete` is necessary** (a finding about the code: the
generator's segment size is the constant 512 while the congestion-control object has its own `mss` parameter).  The
same run with `TCPReno(mss=100, cwnd=512)` - `CCInv` holds, `cwnd ≥ cc.mss` - : segment 0 is sent and dropped; the
timer expires, `timer_expired()` sets `cwnd = cc.mss = 100`, segment 0 is retransmitted, delivered, acknowledged; the
new ACK grows the window to 200 and wakes `run`, whose guard `512 + 512 ≤ min(1024, 512 + 200)` fails; `run` blocks
with nothing outstanding, no timer, nothing in flight: the kernel runs out of events with the second segment never
sent (`next_seq = 512 < 1024`). -/
example : ((Loop.init (Sender.init .reno ({ (TCPCubic.defaults : CCState ℚ) with mss := 100, cwnd := 512, ssthresh := 65535 })
      1 512 (some 1024) 0)).run
    [.own (.wake 4), .dropData 0, .own (.tick 2), .own (.fire 0), .deliver, .ackArrive, .own .handoff, .own (.wake 4)]).map
      (fun l => ((decide l.Quiescent, decide (l.Complete 1024), l.sink), (l.snd.last_ack, l.snd.next_seq, l.snd.proc)))
    = some ((true, false, [(0, 512)]), (512, 512, .blocked)) := by decide +kernel

/-- the run above is a fair run with loss budget 1 (`Loop.runB` checks that every action is accepted and is fair or an
allowed loss; `TcpLive.runB_sound`): it uses up the budget, and stops - quiescent and complete - as
`terminates_under_loss_budget` says -/
example : ((Loop.init (Sender.init .reno ({ (TCPCubic.defaults : CCState ℚ) with mss := 512, cwnd := 512, ssthresh := 65535 })
      1 512 (some 1024) 0)).runB 1
    [.own (.wake 4), .dropData 0, .own (.tick 2), .own (.fire 0), .deliver, .ackArrive, .own .handoff, .own (.wake 4),
     .deliver, .ackArrive]).map (fun y => (y.1, decide y.2.Quiescent, decide (y.2.Complete 1024)))
    = some (0, true, true) := by decide +kernel

/-- a second loss is refused with budget 1, and advancing the clock while a packet is in flight is not fair -/
example : ((Loop.init (Sender.init .reno ({ (TCPCubic.defaults : CCState ℚ) with mss := 512, cwnd := 512, ssthresh := 65535 })
      1 512 (some 1024) 0)).runB 1
    [.own (.wake 4), .dropData 0, .own (.tick 2), .own (.fire 0), .dropData 0]).isSome = false ∧
  ((Loop.init (Sender.init .reno ({ (TCPCubic.defaults : CCState ℚ) with mss := 512, cwnd := 512, ssthresh := 65535 })
      1 512 (some 1024) 0)).runB 1 [.own (.wake 4), .own (.tick 2)]).isSome = false ∧
  ((Loop.init (Sender.init .reno ({ (TCPCubic.defaults : CCState ℚ) with mss := 512, cwnd := 512, ssthresh := 65535 })
      1 512 (some 1024) 0)).run [.own (.wake 4), .own (.tick 2)]).isSome = true := by decide +kernel

/-- a run over paths with delay in which the timer of segment 0 expires (`t = 2`) **while the segment is still in
flight** (its path delivers it at `t = 3`): the segment is retransmitted, the original and then the duplicate are
delivered, the duplicate is answered by a duplicate ACK, the second segment follows; the run (17 steps, no loss) is a
`TBStep` run (`TLoop.runT` checks every side condition; `TcpLive.runT_sound`) and ends quiescent and complete -/
example : ((TLoop.init (Sender.init .reno ({ (TCPCubic.defaults : CCState ℚ) with mss := 512, cwnd := 512, ssthresh := 65535 })
      1 512 (some 1024) 0)).runT 0
    [.burst (.wake 4) [3], .tick 2, .burst (.fire 0) [5], .tick 3, .deliver (7/2), .tick (7/2), .ackArrive [],
     .burst .handoff [], .burst (.wake 4) [13/2], .tick 5, .deliver (11/2), .tick (11/2), .ackArrive [],
     .tick (13/2), .deliver 7, .tick 7, .ackArrive []]).map
      (fun y => (y.1, decide y.2.l.Quiescent, decide (y.2.l.Complete 1024), y.2.dT.length + y.2.aT.length))
    = some (0, true, true, 0) := by decide +kernel

/-- the clock cannot pass the delivery instant of a packet in flight (`tick 4` with a packet due at 3), it cannot stop
between events (`tick 1`), and without budget nothing is lost -/
example :
  ((TLoop.init (Sender.init .reno ({ (TCPCubic.defaults : CCState ℚ) with mss := 512, cwnd := 512, ssthresh := 65535 })
      1 512 (some 1024) 0)).runT 0 [.burst (.wake 4) [3], .tick 2, .burst (.fire 0) [5], .tick 4]).isSome = false ∧
  ((TLoop.init (Sender.init .reno ({ (TCPCubic.defaults : CCState ℚ) with mss := 512, cwnd := 512, ssthresh := 65535 })
      1 512 (some 1024) 0)).runT 0 [.burst (.wake 4) [3], .tick 1]).isSome = false ∧
  ((TLoop.init (Sender.init .reno ({ (TCPCubic.defaults : CCState ℚ) with mss := 512, cwnd := 512, ssthresh := 65535 })
      1 512 (some 1024) 0)).runT 0 [.burst (.wake 4) [3], .dropData 0]).isSome = false ∧
  ((TLoop.init (Sender.init .reno ({ (TCPCubic.defaults : CCState ℚ) with mss := 512, cwnd := 512, ssthresh := 65535 })
      1 512 (some 1024) 0)).runT 1 [.burst (.wake 4) [3], .dropData 0, .tick 2, .burst (.fire 0) [5]]).isSome = true := by
  decide +kernel

/-- the invariants `LInv`, `TInv` that `fair_run_facts`, `timed_run_facts` assume hold of the initial state of that
flow (and hence of everything reachable from it: `TcpLive.reach_LInv`, `TcpLive.tbreach_TInv`) -/
example : LInv 1024 (Loop.init (Sender.init .reno ({ (TCPCubic.defaults : CCState ℚ) with mss := 512, cwnd := 512, ssthresh := 65535 })
      1 512 (some 1024) 0)) ∧
    TInv 1024 (TLoop.init (Sender.init .reno ({ (TCPCubic.defaults : CCState ℚ) with mss := 512, cwnd := 512, ssthresh := 65535 })
      1 512 (some 1024) 0)) := by
  have f := fresh_init .reno ({ (TCPCubic.defaults : CCState ℚ) with mss := 512, cwnd := 512, ssthresh := 65535 }) 1 512 1024 0
    ⟨by norm_num, by norm_num, by norm_num, fun h => by cases h⟩ (by norm_num) (by norm_num) (by norm_num) ⟨2, rfl⟩ (by norm_num)
  exact ⟨LInv_init f, TInv_init f⟩

end C16
