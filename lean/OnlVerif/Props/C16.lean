import OnlVerif.Lemmas.TcpSink
import OnlVerif.Lemmas.TcpSender
import OnlVerif.Lemmas.TcpLoop
import OnlVerif.Lemmas.GenSink
/-!
# C16 — TCP acknowledgements are cumulative and correct; all data gets through

* **Sink** (`OnlVerif/Tcp/Sink.lean`, model of `TCPSink.packet_arrived/put`): for every finite arrival sequence the ACK
  is the length of the contiguous prefix of the bytes received so far, hence monotone; the buffer stays sorted,
  pairwise non-touching, and covers exactly the received bytes.  Sequence numbers and sizes are natural numbers.
* **Sender** (`OnlVerif/Tcp/CC.lean`, LTS of `TCPPacketGenerator` over exact rationals `ℚ`): no sequence of actions
  raises; on a loss-free, timely path nothing is sent twice; partial progress lemmas.

Closed-loop liveness (sender + sink + two lossy FIFO paths reach `last_ack = size` for every finite drop pattern) is
**not** proved; the statement is kept at the end with what is missing.  The correspondence check explores drop
patterns against the real code as a failing-input search, not as that proof.
-/

namespace C16
open TcpSink TcpSender TcpScalar TcpCC TcpLoop

/-! ## the sink -/

/-- **The ACK returned for every arrival equals the length of the contiguous prefix `[0, n)` of the union of all
ranges received so far** — for every finite arrival sequence `arr` of `(seq, size)` pairs (any order, duplicates,
overlaps, gaps, first segment missing) and every position `k`: `put` does not fail, and its ACK `n` satisfies
`IsPrefix (first k+1 ranges) n`, i.e. every byte `< n` lies in some received range and byte `n` in none. -/
theorem sink_ack_prefix (arr : List (Nat × Nat)) (k : Nat) (hk : k < arr.length) :
    ∃ n, (acks [] arr)[k]? = some (.ok n) ∧ IsPrefix (rangesOf (arr.take (k + 1))) n := by
  obtain ⟨⟨n, h1, h2⟩, _⟩ := run_spec arr [] [] sep_nil (fun b => Iff.rfl) k hk
  exact ⟨n, h1, by simpa using h2⟩

/-- **Buffer invariant**: after every arrival `recv_buffer` is non-empty, sorted, pairwise non-touching (each range
ends strictly before the next starts), and its union is exactly the union of the ranges received so far. -/
theorem sink_buffer_invariant (arr : List (Nat × Nat)) (k : Nat) (hk : k < arr.length) :
    ∃ B, (buffers [] arr)[k]? = some B ∧ B ≠ [] ∧ (∀ r ∈ B, r.1 ≤ r.2) ∧ B.Pairwise (fun a b => a.2 < b.1) ∧
      ∀ b, Covers B b ↔ Covers (rangesOf (arr.take (k + 1))) b := by
  obtain ⟨_, ⟨B, h1, h2, h3, h4⟩⟩ := run_spec arr [] [] sep_nil (fun b => Iff.rfl) k hk
  exact ⟨B, h1, h3, h2.1, h2.2, by simpa using h4⟩

/-- one arrival, from any sorted non-touching buffer: the new buffer covers the old bytes plus the packet's -/
theorem sink_arrival (buf : List Range) (seq size : Nat) (h : Sep buf) :
    Sep (packetArrived buf seq size) ∧
    ∀ b, Covers (packetArrived buf seq size) b ↔ Covers buf b ∨ (seq ≤ b ∧ b < seq + size) :=
  packetArrived_spec buf seq size h

/-- **The ACK never decreases.** -/
theorem sink_ack_mono (arr : List (Nat × Nat)) (i j : Nat) (hij : i ≤ j) (hj : j < arr.length) (n m : Nat)
    (hn : (acks [] arr)[i]? = some (.ok n)) (hm : (acks [] arr)[j]? = some (.ok m)) : n ≤ m := by
  obtain ⟨n', h1, p1⟩ := sink_ack_prefix arr i (Nat.lt_of_le_of_lt hij hj)
  obtain ⟨m', h2, p2⟩ := sink_ack_prefix arr j hj
  rw [hn] at h1; rw [hm] at h2
  injection h1 with h1; injection h1 with h1
  injection h2 with h2; injection h2 with h2
  subst h1 h2
  refine isPrefix_mono p1 p2 ?_
  intro b ⟨r, hr, hb⟩
  refine ⟨r, ?_, hb⟩
  unfold rangesOf at hr ⊢
  obtain ⟨p, hp, rfl⟩ := List.mem_map.mp hr
  exact List.mem_map.mpr ⟨p, List.take_subset_take_left arr (Nat.succ_le_succ hij) hp, rfl⟩

/-- the prefix length is determined by the received ranges alone (so "the" ACK of the specification is unique) -/
theorem prefix_unique (rs : List Range) (n m : Nat) (hn : IsPrefix rs n) (hm : IsPrefix rs m) : n = m :=
  isPrefix_unique hn hm

/-- in-order delivery: with `[0, n)` held, the segment `[n, n + size)` is acknowledged with `n + size` — the ACK of
exactly the next segment, which is what `TimelyAct` assumes of a loss-free order-preserving path -/
theorem sink_in_order (n size : Nat) :
    put [] 0 size = ([(0, size)], .ok size) ∧
    (0 < n → put [(0, n)] n size = ([(0, n + size)], .ok (n + size))) := by
  constructor
  · simp [put, packetArrived, sortR, insertR, mergeAll, mergeFrom, ackOf]
  · intro hn
    have h1 : leR (n, n + size) (0, n) = false := by
      unfold leR; simp; omega
    have h2 : leR (0, n) (n, n + size) = true := by
      unfold leR; simp; omega
    simp [put, packetArrived, sortR, insertR, h1, h2, mergeAll, mergeFrom, ackOf]

/-! ## the sender never raises -/

/-- **For every sequence of sender actions — resumptions of `run`, token hand-offs, ACKs with arbitrary ACK numbers,
echoed packet ids, orders and RTT samples, timer expiries, clock ticks — the step never returns a Python exception**
(`AssertionError`, `KeyError` of `self.timers[..]` / `del self.sent_packets[..]`, `ValueError` of `Timer`,
`ZeroDivisionError`, CUBIC's cube root), from any state satisfying the invariant (a fresh generator around `TCPReno`
with `cwnd ≥ mss > 0`, `ssthresh ≥ 0`, or around `TCPCubic()`, with `rtt_estimate > 0`: `inv_init`).  Actions the
kernel would not offer in a state (`fire` of a timer that is not pending/due, an ACK stamped in the future, …) are
rejected, not errors.  `ActOk`: ACK packets carry `flow_id ≥ 10000`, as the sink builds them. -/
theorem sender_never_raises (s0 s : Sender ℚ) (h0 : Inv s0) (hr : Reach s0 s) (a : Act ℚ) (ha : ActOk a) (e : PyErr) :
    s.step a ≠ .error e :=
  (step_safe (reach_inv h0 hr) a ha).1 e

/-- without the `flow_id` precondition the only possible exception is the `assert` of `put` -/
theorem only_the_assert_can_fail (s0 s : Sender ℚ) (h0 : Inv s0) (hr : Reach s0 s) (a : Act ℚ) (e : PyErr)
    (he : s.step a = .error e) : e = .assertion ∧ ∃ x, a = .ack x ∧ x.fid < 10000 := by
  have hi := reach_inv h0 hr
  cases a with
  | ack x =>
    by_cases hf : 10000 ≤ x.fid
    · exact absurd he ((step_safe hi (.ack x) hf).1 e)
    · have : s.step (.ack x) = .error .assertion := by
        show s.ackStep x = _
        unfold Sender.ackStep
        simp only [Nat.lt_of_not_le hf, if_true]
      rw [this] at he; injection he with he
      exact ⟨he.symm, x, rfl, Nat.lt_of_not_le hf⟩
  | wake f => exact absurd he ((step_safe hi (.wake f) trivial).1 e)
  | handoff => exact absurd he ((step_safe hi .handoff trivial).1 e)
  | fire q => exact absurd he ((step_safe hi (.fire q) trivial).1 e)
  | tick t => exact absurd he ((step_safe hi (.tick t) trivial).1 e)

/-! ## no spurious retransmission -/

/-- **Over a loss-free path whose round-trip time stays below the current RTO no segment is transmitted twice.**
Take any run from a calm state (no duplicates counted, no timer due — e.g. the initial state) in which every
action is *timely* (`TimelyAct`): each ACK is the ACK of exactly the next unacknowledged segment (what in-order,
loss-free delivery produces, `sink_in_order`) and the clock never reaches the expiry of a pending timer (every ACK is
back before its segment's RTO).  Then no `fire` action is ever enabled, `dupack` stays 0, every transmission is a new
segment, and the transmitted sequence numbers are strictly increasing — every segment is sent exactly once. -/
theorem no_spurious_retransmit (s s' : Sender ℚ) (acts : List (Act ℚ)) (outs : List (Tx ℚ)) (h : Inv s) (hc : Calm s)
    (hm : 0 < s.mss) (hr : TimelyRun s acts s' outs) :
    (∀ tx ∈ outs, tx.kind = .new) ∧ outs.Pairwise (fun x y => x.seq < y.seq) ∧ (∀ seq, Act.fire seq ∉ acts) ∧
    s'.dupack = 0 ∧ (∀ seq, ∃ why, s'.step (.fire seq) = .reject why) := by
  obtain ⟨_, c, _, _, f, p, nf⟩ := timelyRun_spec hr h hc hm
  refine ⟨fun tx htx => (f tx htx).1, p, nf, c.nodup, fun seq => ?_⟩
  rcases calm_no_fire c seq with e | e <;> exact ⟨_, e⟩

/-- a fresh sender is calm -/
theorem init_calm (kind : CCKind) (cc : CCState ℚ) (rtt : ℚ) (mss : Nat) (size : Option Nat) (now : ℚ) :
    Calm (Sender.init kind cc rtt mss size now) :=
  ⟨rfl, fun kv hkv => by simp [Sender.init] at hkv⟩

/-! ## progress (partial) -/

/-- **(a) every transmitted new segment is put under a retransmission timer** armed for the current RTO -/
theorem new_segment_is_timed_partial (s s' : Sender ℚ) (tx : Tx ℚ) (h : Inv s) (hs : s.sendStep = .sent s' tx) :
    AL.get? tx.seq s'.timers = some { expiry := s.now + s.est.rto, wake := s.now + s.est.rto, live := true } ∧
    tx.seq ∈ AL.keys s'.sent := by
  obtain ⟨hi, htx, _, _, _, _, _, _, _, _, ht, _⟩ := (sendStep_spec h).2.1 s' tx hs
  rw [htx, ht]
  refine ⟨by rw [AL.get?_set_self, arm_eq _ _ h.rto_pos], ?_⟩
  rw [← hi.keys, ht]
  exact AL.mem_of_get?_some (AL.get?_set_self _ _ _)

/-- **(b) a timer is cancelled only by an ACK that covers or answers its segment**: if an accepted action removes
`q` from the pending timers, the action is a new ACK with `q < ackno` or `q = packet_id`.  So an unacknowledged segment
stays under a live timer. -/
theorem timer_cancelled_only_by_ack_partial (s s' : Sender ℚ) (a : Act ℚ) (outs : List (Tx ℚ)) (h : Inv s) (ha : ActOk a)
    (hs : s.step a = .ok s' outs) (q : Nat) (hq : q ∈ AL.keys s.timers) (hq' : q ∉ AL.keys s'.timers) :
    ∃ x, a = .ack x ∧ x.ackno ≠ s.last_ack ∧ (q < x.ackno ∨ q = x.pid) :=
  timer_cancel_only_by_ack s s' a outs h ha hs q hq hq'

/-- **(c) a pending timer that comes due retransmits its segment and stays pending** with the doubled RTO — so an
outstanding segment is transmitted again at `t₀ + rto`, `t₀ + 3·rto`, `t₀ + 7·rto`, … for as long as it is not
acknowledged: the sender keeps retransmitting. -/
theorem due_timer_retransmits_and_rearms_partial (s : Sender ℚ) (seq : Nat) (tr : TimerRec ℚ) (h : Inv s)
    (ht : AL.get? seq s.timers = some tr) (hdue : tr.live = true ∧ tr.wake = s.now ∧ ¬ s.now < tr.expiry) :
    ∃ s', s.step (.fire seq) = .ok s' [{ seq := seq, size := s.mss, stamp := s.now, kind := .resend }] ∧
      AL.get? seq s'.timers = some { expiry := s.now + 2 * s.est.rto, wake := s.now + 2 * s.est.rto, live := true } ∧
      s.now < s.now + 2 * s.est.rto ∧ s'.est.rto = 2 * s.est.rto := by
  obtain ⟨S, r, _, _⟩ := fireStep_spec s seq tr ht hdue
  have hmem : seq ∈ AL.keys s.sent := h.keys ▸ AL.mem_of_get?_some ht
  have hout := resend_out ({ s with cc := CC.timerExpired s.kind s.cc } : Sender ℚ) seq
  rw [if_pos hmem] at hout
  rw [hout] at r
  have hr2 : (TCPPacketGenerator.timeout_backoff s.est).rto = 2 * s.est.rto := by
    rw [backoff_eq]; show s.est.rto * 2 = _; ring
  have hpos := h.rto_pos
  refine ⟨_, r, ?_, by linarith, hr2⟩
  show AL.get? seq (AL.set seq _ s.timers) = _
  rw [AL.get?_set_self, hr2, arm_eq _ _ (by linarith)]

/-- **(d) an ACK that gets through moves `last_ack` to its number and cancels the timers it covers**: after a new ACK
`x`, `last_ack = x.ackno`, no segment below `x.ackno` and not the answered segment `x.pid` is still timed, every other
timer is untouched, and the `run` process is given a wake-up token. -/
theorem new_ack_advances_partial (s : Sender ℚ) (x : AckIn ℚ) (h : Inv s) (hok : AckOk s x) (hnew : x.ackno ≠ s.last_ack) :
    ∃ s', s.step (.ack x) = .ok s' [] ∧ s'.last_ack = x.ackno ∧ s'.tokens = s.tokens + 1 ∧
      ∀ q, q ∈ AL.keys s'.timers ↔ q ∈ AL.keys s.timers ∧ ¬ (q < x.ackno ∨ q = x.pid) := by
  obtain ⟨T, S, r, _, _, hT, _⟩ := ackStep_new_spec s x h.cc h.keys h.nodup hok hnew
  exact ⟨_, r, rfl, rfl, hT⟩

/-! ### the closed loop (sender ∥ lossy FIFO data path ∥ sink ∥ lossy FIFO ACK path, `OnlVerif/Tcp/Loop.lean`) -/

/-- **(e) in the closed loop, every segment issued so far is at the sink or under a pending retransmission timer** —
for every interleaving of sender bursts, deliveries, ACK arrivals and losses on both paths (any packet in flight may be
lost at any time).  With (c) this is "the sender keeps retransmitting what the sink lacks".  (`Covers sink q`: the
first byte of segment `q` is held.) -/
theorem outstanding_segment_is_timed_partial (s0 : Sender ℚ) (l : Loop ℚ) (h0 : Inv s0) (hm : 0 < s0.mss)
    (hr : LReach (Loop.init s0) l) (q : Nat) (hq : q ∈ l.issued) :
    Covers l.sink q ∨ q ∈ AL.keys l.snd.timers :=
  (reach_J (J_init s0 h0 hm) hr).issued q hq

/-- **(f) every ACK in flight is backed by the sink**: all bytes below its number and the segment it answers are
held (so the sender's cumulative cancellation never forgets a segment the sink lacks), it carries `flow_id ≥ 10000`,
and its arrival at the sender raises nothing; the sink's `put` never fails on a delivery. -/
theorem acks_in_flight_are_backed_partial (s0 : Sender ℚ) (l : Loop ℚ) (h0 : Inv s0) (hm : 0 < s0.mss)
    (hr : LReach (Loop.init s0) l) :
    (∀ a ∈ l.acks, (∀ b, b < a.ackno → Covers l.sink b) ∧ Covers l.sink a.pid ∧ ∀ e, l.snd.step (.ack a) ≠ .error e) ∧
    (∀ tx ∈ l.data, ∃ n, (TcpSink.put l.sink tx.seq tx.size).2 = .ok n) ∧ Inv l.snd ∧ Sep l.sink := by
  have j := reach_J (J_init s0 h0 hm) hr
  refine ⟨fun a ha => ?_, fun tx _ => ?_, j.snd, j.sink⟩
  · obtain ⟨a1, a2, a3⟩ := j.acks a ha
    exact ⟨a2, a3, (step_safe j.snd (.ack a) a1).1⟩
  · obtain ⟨hsep', _⟩ := packetArrived_spec l.sink tx.seq tx.size j.sink
    obtain ⟨n, hn, _⟩ := ackOf_isPrefix _ hsep' (packetArrived_ne_nil l.sink tx.seq tx.size)
    exact ⟨n, by unfold TcpSink.put; exact hn⟩

/-
**Not proved — closed-loop liveness.**  Full statement:

  for every flow size `size = n · MSS`, `n ≥ 1`, every pair of order-preserving paths with arbitrary non-negative
  per-packet delays and finite sets `D`, `A` of dropped transmission indices (data, ACK direction), every
  `rtt_estimate > 0`, and `TCPReno` (`cwnd ≥ mss`, `ssthresh ≥ 0`) or `TCPCubic()`:
  the closed system  sender LTS ∥ data path ∥ `TcpSink.put` ∥ ACK path  reaches, after finitely many steps, a state
  with `sink.recv_buffer = [(0, size)]` and `sender.last_ack = size`, and no step on the way is an error.

What is there: `sender_never_raises` (no error, for all ACK/timer sequences, hence in the closed loop too),
`sink_ack_prefix` (the ACKs that come back are the true prefix lengths), the progress lemmas (a)–(d): every new
segment is timed; a timer goes away only through an ACK that covers or answers its segment; a due timer retransmits
and re-arms; a new ACK advances `last_ack` and wakes `run`; and for the closed loop with arbitrary losses the joint
safety invariant (e), (f): whatever the sink lacks is under a pending timer, and ACKs in flight never overstate what
the sink holds.

What is missing: (1) the drop sets as *finite* sets of transmission indices (the loop model lets a path lose any
packet at any time, which is what safety needs but makes liveness false without a fairness/finite-loss assumption);
(2) the well-founded measure: lexicographically (segments the sink lacks,
drop indices not yet consumed, retransmissions until the next undropped index) decreases between consecutive timer
expiries - this needs fairness of the kernel (time advances: G1-G3 of C01) and the argument that the transmission
indices of both paths eventually exceed `max D`, `max A`; (3) `last_ack = size` at quiescence, i.e. the last ACK is
retransmitted through duplicate data when it is dropped.  None of these is contradicted by the 7 000+ closed loops
the thorough tier runs (all drop subsets of size ≤ 2 for flows of ≤ 8 segments, random larger ones), which is evidence,
not proof.
-/

/-! ## The sink source, re-translated on every run, *is* the model (bridge theorems)

`Generated/Sink.lean` is rewritten by `py2lean` from the current `onl/packet/tcp_sink.py` before this file is compiled. -/

/-- **The range-merge loop of `packet_arrived` as written in the source computes the model's `mergeAll`**: running the
*translated loop body* over any list of ranges — starting from the empty `merge_stats`, every `append` making the previous
last element final (`GenSink.genMerge`, the meaning of the structurally checked frame `merge_stats = []` / `for start, end in
self.recv_buffer` / `self.recv_buffer = merge_stats`) — yields exactly `mergeAll` of that list.  With the frame's
`append([packet_id, packet_id + size])` and `sort()` this is `packetArrived`.  (`<=` changed to `<` in the overlap test,
`max` to `min`, the wrong element appended … make this fail to compile.) -/
theorem sink_merge_generated_eq_model (l : List Range) :
    GenSink.genMerge (GenSink.mergeObj none 0) l = (mergeAll l).map GenSink.castR :=
  GenSink.genMerge_eq l

/-- **`TCPSink.put` as written in the source computes the model's `ackOf`**: on a non-empty receive buffer with first range
`r`, the translated `put` calls `super().put`, `packet_arrived`, builds the acknowledgement (`size=40`, same `packet_id`,
`flow_id + 10000` — checked structurally), writes `ack = r.2 if r.1 == 0 else 0` — the model's `ackOf` — into it and hands
it to `out` exactly once. -/
theorem sink_put_generated_eq_model (r : Range) (rest : List Range) (nse ack : Int) (e1 e2 e3 e4 e5 : Nat) :
    ∃ a, ackOf (r :: rest) = .ok a ∧
      Gen.TCPSink.put (GenSink.sinkObj nse ack e1 e2 e3 e4 e5) r.1 r.2 =
        GenSink.sinkObj a a (e1 + 1) (e2 + 1) (e3 + 1) (e4 + 1) (e5 + 1) :=
  GenSink.put_eq r rest nse ack e1 e2 e3 e4 e5

/-- the translated loop body run over the sorted ranges `[0,512) [512,1024) [2048,2560)`: the first two merge -/
example : GenSink.genMerge (GenSink.mergeObj none 0) [(0, 512), (512, 1024), (2048, 2560)] = [(0, 1024), (2048, 2560)] := by
  decide +kernel

/-! ## non-vacuity -/

/-- the counter-example of the original defect: arrivals 512, 0, 1024, 0 (sizes 512) are acknowledged 0, 1024, 1536, 1536 -/
example : acks [] [(512, 512), (0, 512), (1024, 512), (0, 512)] = [.ok 0, .ok 1024, .ok 1536, .ok 1536] := by decide

/-- overlapping, touching and empty ranges -/
example : buffers [] [(10, 5), (0, 4), (4, 6), (20, 0), (12, 9)] =
    [[(10, 15)], [(0, 4), (10, 15)], [(0, 15)], [(0, 15), (20, 20)], [(0, 21)]] := by decide

/-- a calm invariant state from which `no_spurious_retransmit` starts: the fresh Reno sender -/
example : Inv (Sender.init .reno ({ (TCPCubic.defaults : CCState ℚ) with mss := 512, cwnd := 512, ssthresh := 65535 }) 1 512 (some 2048) 0) ∧
    Calm (Sender.init .reno ({ (TCPCubic.defaults : CCState ℚ) with mss := 512, cwnd := 512, ssthresh := 65535 }) 1 512 (some 2048) 0) :=
  ⟨inv_init _ _ _ _ _ _ ⟨by norm_num, by norm_num, by norm_num, fun h => by cases h⟩ (by norm_num), init_calm _ _ _ _ _ _⟩

/-- the hypotheses of the sending lemmas are satisfiable: the first loop iteration of that sender finds the guard
open (`0 + 512 ≤ min 512 (0 + 512)`) and sends segment 0 -/
example : ∃ s1 tx, (Sender.init .reno ({ (TCPCubic.defaults : CCState ℚ) with mss := 512, cwnd := 512, ssthresh := 65535 })
    1 512 (some 2048) 0).sendStep = .sent s1 tx := by
  generalize hs : Sender.init .reno ({ (TCPCubic.defaults : CCState ℚ) with mss := 512, cwnd := 512, ssthresh := 65535 })
    1 512 (some 2048) 0 = s0
  have hg : s0.refill.guard = true := by
    rw [guard_iff, ← hs]
    simp [Sender.init, Sender.refill, Sender.pktSize, TcpSpec.InWindow, TCPCubic.defaults]
  have hd : s0.flowDone = false := by rw [← hs]; simp [Sender.init, Sender.flowDone]
  have hr : 0 < s0.refill.est.rto := by
    rw [← hs]; simp [Sender.init, Sender.refill, Sender.pktSize, TCPPacketGenerator.init_rto]
  unfold Sender.sendStep
  simp only [hd, hg, if_true, Bool.false_eq_true, if_false, emit_ok hr]
  exact ⟨_, _, rfl⟩

/-- an ACK that is timely for a state with `last_ack = 0`, `mss = 512`: the ACK of segment 0 -/
example : TimelyAct (Sender.init .reno (TCPCubic.defaults : CCState ℚ) 1 512 none 0)
    (.ack { fid := 10000, ackno := 512, pid := 0, ptime := 0 }) := ⟨Nat.le_refl _, rfl, rfl⟩

end C16
