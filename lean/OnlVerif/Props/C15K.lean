import OnlVerif.Lemmas.RRKFinal
import OnlVerif.Props.C12
import OnlVerif.Props.C15
/-!
# C15/C12 on the kernel: the RR scheduler *as processes on the kernel model* refines the MultiQueueServer LTS

`OnlVerif/Net/RROnK.lean` writes `MultiQueueScheduler.put`, `Scheduler.send_packet` (a child process per transmission,
joined with `yield process`), `RR.run` and a packet source as one program of the kernel model `K` (`OnlVerif/Kernel`), with
the encoding of `Net/RROnK.lean`.  Nothing is assumed about scheduling: `Environment.step` of the kernel model decides what
runs when (the `StorePut` / `StoreGet` events of the per-flow stores and of the wake-up store, the `Initialize` and `Process`
events of the sender, the timeouts of the source and of the sender).  Every kernel step of this program is a (possibly empty)
sequence of actions the MultiQueueServer LTS with the RR record (`OnlVerif/Net/MultiQueue.lean`, `Net/Sched/RR.lean`)
*accepts*, so the admissibility rules of the LTS are consequences of the kernel model, and the C12/C15 theorems hold of kernel
runs.

The `queue_count` keys.  The LTS inserts a `queue_count` key whenever its loop *reads* it (Python's `defaultdict`).  For `RR`
this is observable exactly once: the first burst of `run` precedes every `put` and reads every declared flow in declaration
order; afterwards the keys are the declared flows in that order and no scan changes them (`RR.run` iterates its own `flows`
list, not the dict).  The abstraction function `absRR` computes the key order from "has `run` started" and the `put`
observations, and the refinement theorems below show that it follows the LTS exactly, first burst included
(`Lemmas/RRKLts.lean`: `settle_scan_init`, `settle_scan`); the driver leg compares the three key orders with the real dicts.

Scope: one `RR` over the flows `0 … F-1` (`F` arbitrary) declared each once in an arbitrary order (`FlowsOK`), an `out`
attached, `rate > 0`; one source process with non-negative gaps (zero gaps = bursts, and arrivals exactly at transmission
ends, included) whose packets belong to declared flows (a packet of another flow makes `RR.run` spin for ever without yielding:
a hang, which the model reports as the exception `Hang`); exact rational time; `fuel + 1` = any positive bound of the `_resume`
loop.
-/

namespace C15K
open RROnK RRK MQ

/-- **Refinement, step by step**: let `s` be reachable by kernel steps from the initial state and let the next kernel step
end in `s'`.  Then that step is a normal one (`.ok`: no exception — in particular neither the `AssertionError` of `assert store` nor `Hang` —, no stop), and there is a
(possibly empty) sequence of LTS actions that the MultiQueueServer LTS with the RR record *accepts* from the abstraction of
`s`, that ends exactly in the abstraction of `s'` (the step commutes with the executable abstraction function `absRR`), and
in which the packets accepted / sent out are exactly the `put` / `out` observations the kernel step appended to the trace. -/
theorem rr_on_kernel_step_refines (F : Nat) (flow size : Int → Nat) (cfg : RR.Cfg ℚ) (arrivals : List (ℚ × Int))
    (hw : WorkOK flow F arrivals) (ht : FlowsOK F cfg) (hr : 0 < cfg.rate) (fuel : Nat) (s s' : KState ℚ (RrSt ℚ))
    (hreach : KReach (prog F flow size cfg) (fuel + 1) (initState F arrivals) s)
    (hstep : (step (prog F flow size cfg) (fuel + 1) s).state? = some s') :
    step (prog F flow size cfg) (fuel + 1) s = .ok s' ∧
    ∃ new acts, histOf s'.trace = histOf s.trace ++ new ∧
      runActs (RR.sched cfg) (absRR cfg.flows flow size s) acts = .ok (absRR cfg.flows flow size s', putPk flow size new, outPk flow size new) := by
  obtain ⟨a, _, hi, _⟩ := reach_lts (size := size) fuel hw ht hr hreach
  cases hp : popMin s.agenda with
  | none => simp [_root_.step, hp, StepResult.state?] at hstep
  | some qr =>
    obtain ⟨q, rest⟩ := qr
    obtain ⟨s'', a', new, h1, h2, -, -, -, h6, acts, h7⟩ := inv_step_lts (size := size) fuel hi hp
    rw [h1] at hstep
    simp only [StepResult.state?, Option.some.injEq] at hstep
    subst hstep
    exact ⟨h1, new, acts, h6, by rw [absRR_eq hi, absRR_eq h2]; exact h7⟩

/-- **Refinement, whole runs**: every state reachable by kernel steps is the image under `absRR` of an *admissible* run of
the LTS from the state of a fresh `RR`: the LTS accepts some action sequence that ends in `absSP s` and in
which the packets accepted are the `put` observations and the packets sent out the `out` observations of the kernel trace,
in order — i.e. `absSP s` is `MQ.Reached`, the hypothesis of the C12 theorems. -/
theorem rr_on_kernel_refines_lts (F : Nat) (flow size : Int → Nat) (cfg : RR.Cfg ℚ) (arrivals : List (ℚ × Int))
    (hw : WorkOK flow F arrivals) (ht : FlowsOK F cfg) (hr : 0 < cfg.rate) (fuel : Nat) (s : KState ℚ (RrSt ℚ))
    (hreach : KReach (prog F flow size cfg) (fuel + 1) (initState F arrivals) s) :
    Reached (RR.sched cfg) (RR.Pc.at 0) 0 [] (absRR cfg.flows flow size s) (putPk flow size (histOf s.trace))
      (outPk flow size (histOf s.trace)) := by
  obtain ⟨a, acts, hi, hrun⟩ := reach_lts (size := size) fuel hw ht hr hreach
  refine ⟨by intro e he; simp at he, acts, ?_⟩
  rw [absRR_eq hi]
  exact hrun

/-- **No kernel step ever crashes, and `run()` returns**: for every workload as above, every state reachable by kernel
steps is followed by a normal step or has an empty agenda, and `run()` of the kernel model returns (agenda empty, no
exception) within `10·n + 4` kernel steps, `n` = the number of packets. -/
theorem rr_on_kernel_run_returns (F : Nat) (flow size : Int → Nat) (cfg : RR.Cfg ℚ) (arrivals : List (ℚ × Int))
    (hw : WorkOK flow F arrivals) (ht : FlowsOK F cfg) (hr : 0 < cfg.rate) (fuel n : Nat)
    (hn : 10 * arrivals.length + 4 ≤ n) :
    (∀ s, KReach (prog F flow size cfg) (fuel + 1) (initState F arrivals) s →
      (∃ s', step (prog F flow size cfg) (fuel + 1) s = .ok s') ∨ step (prog F flow size cfg) (fuel + 1) s = .empty) ∧
    ∃ sF, runAll (prog F flow size cfg) (fuel + 1) n (initState F arrivals) = .returned .none sF ∧ sF.agenda = [] ∧
      KReach (prog F flow size cfg) (fuel + 1) (initState F arrivals) sF := by
  constructor
  · intro s hs
    obtain ⟨a, hi⟩ := reach_inv (size := size) fuel hw ht hr hs
    cases hp : popMin s.agenda with
    | none => right; simp [_root_.step, hp]
    | some qr =>
      obtain ⟨q, rest⟩ := qr
      obtain ⟨s', _, _, h1, _⟩ := inv_step (size := size) fuel hi hp
      exact Or.inl ⟨s', h1⟩
  · have h0 := inv_init (flow := flow) arrivals hw ht hr
    obtain ⟨sF, aF, h1, -, h3, h4⟩ := run_returns (size := size) fuel (initState F arrivals) n _ _ h0
      (by rw [a0_mu]; omega) KReach.init
    exact ⟨sF, h1, h3, h4⟩

/-! ### the C12/C13 theorems for kernel runs -/

/-- **Work conservation on the kernel** (`C12.mq_never_idle_with_backlog`): in a state reachable by kernel steps, if the
LTS image may let the clock advance and no transmission is in progress, then `total_packets` is 0, every per-flow store is
empty and `run` holds no packet. -/
theorem kernel_never_idle_with_backlog (F : Nat) (flow size : Int → Nat) (cfg : RR.Cfg ℚ) (arrivals : List (ℚ × Int))
    (hw : WorkOK flow F arrivals) (ht : FlowsOK F cfg) (hr : 0 < cfg.rate) (fuel : Nat) (s : KState ℚ (RrSt ℚ))
    (hreach : KReach (prog F flow size cfg) (fuel + 1) (initState F arrivals) s) (t : ℚ)
    (htick : ∃ s' o, MQ.step (RR.sched cfg) (absRR cfg.flows flow size s) (.tick t) = .ok (s', o))
    (hidle : ∀ p d, (absRR cfg.flows flow size s).phase ≠ .sending p d) :
    total (absRR cfg.flows flow size s).queueCount = 0 ∧ inHand (absRR cfg.flows flow size s) = [] ∧
      ∀ c, storeOf (absRR cfg.flows flow size s).stores c = [] := by
  have := C12.mq_never_idle_with_backlog (RR.sched cfg) (RR.lawful cfg) (RR.Pc.at 0) 0 [] _ _ _
    (rr_on_kernel_refines_lts F flow size cfg arrivals hw ht hr fuel s hreach) t htick hidle
  exact ⟨this.1, this.2.1, this.2.2.1⟩

/-- **Per-flow FIFO and conservation on the kernel** (`C12.mq_flow_fifo`): at every state reachable by kernel steps the
packets of flow `f` handed to `put` so far are, in order, those of `f` handed to `out.put` followed by those of `f` still
held (in transmission, then waiting in `stores[f]`). -/
theorem kernel_flow_fifo (F : Nat) (flow size : Int → Nat) (cfg : RR.Cfg ℚ) (arrivals : List (ℚ × Int))
    (hw : WorkOK flow F arrivals) (ht : FlowsOK F cfg) (hr : 0 < cfg.rate) (fuel : Nat) (s : KState ℚ (RrSt ℚ))
    (hreach : KReach (prog F flow size cfg) (fuel + 1) (initState F arrivals) s) (f : Nat) :
    ofFlow f (putPk flow size (histOf s.trace)) =
      ofFlow f (outPk flow size (histOf s.trace)) ++ ofFlow f (heldC (RR.sched cfg) (absRR cfg.flows flow size s) f) :=
  C12.mq_flow_fifo (RR.sched cfg) (RR.lawful cfg) (RR.Pc.at 0) 0 [] _ _ _
    (rr_on_kernel_refines_lts F flow size cfg arrivals hw ht hr fuel s hreach) f f rfl

/-- **The counters are exact on the kernel** (`C12.mq_counters_eq`): `queue_count[f]`, `queue_byte_size[f]` and
`total_packets`, read from the attribute cells of a reachable kernel state, equal the number / bytes of the packets held. -/
theorem kernel_counters_eq (F : Nat) (flow size : Int → Nat) (cfg : RR.Cfg ℚ) (arrivals : List (ℚ × Int))
    (hw : WorkOK flow F arrivals) (ht : FlowsOK F cfg) (hr : 0 < cfg.rate) (fuel : Nat) (s : KState ℚ (RrSt ℚ))
    (hreach : KReach (prog F flow size cfg) (fuel + 1) (initState F arrivals) s) (f : Nat) :
    cnt (absRR cfg.flows flow size s).queueCount f = W (one f) (absRR cfg.flows flow size s) ∧
    cnt (absRR cfg.flows flow size s).queueBytes f = W (bytesOf f) (absRR cfg.flows flow size s) ∧
    total (absRR cfg.flows flow size s).queueCount = W (fun _ => 1) (absRR cfg.flows flow size s) :=
  C12.mq_counters_eq (RR.sched cfg) (RR.lawful cfg) (RR.Pc.at 0) 0 [] _ _ _
    (rr_on_kernel_refines_lts F flow size cfg arrivals hw ht hr fuel s hreach) f

/-! ### the direct form: cyclic visit order, one packet per visit, exact service times, work conservation, drain -/

/-- **What the oracle accepts** (`RROnK.ostep` at exact rational time, spelled out).  A `serve id t` observation is accepted
in oracle state `o` iff nothing is in transmission, `id` is the oldest waiting packet of its flow, its flow is entry `j` of
`flows` and every waiting packet of an entry the cyclic order visits before `j` — from the cursor (the entry behind the one
served last) up to `j`, wrapping at the end of `flows` — was put at an instant `≥ t` (none waits from an earlier instant), and
`t` is the instant of the last departure or the instant at which every waiting packet was put; the cursor then is `j + 1`.
An `out id t` observation is accepted iff `id` is in transmission since `s` and `t = s + 8·size/rate`. -/
theorem oracle_accepts_iff (F : Nat) (flow size : Int → Nat) (cfg : RR.Cfg ℚ) (o : OSt ℚ) (id : Int) (t : ℚ) :
    ((ostep F flow size cfg o (.serve id t)).isSome ↔
      o.busy = none ∧ (∃ tp rest, o.waiting (flow id) = (id, tp) :: rest) ∧
      (cfg.flows.idxOf (flow id) < cfg.flows.length ∧
        ∀ j' ∈ skipped cfg.flows.length o.cursor (cfg.flows.idxOf (flow id)), ∀ x ∈ o.waiting (cfg.flows.getD j' 0), t ≤ x.2) ∧
      (o.lastOut = some t ∨ ∀ f, f < F → ∀ x ∈ o.waiting f, x.2 = t)) ∧
    (∀ o', ostep F flow size cfg o (.serve id t) = some o' → o'.cursor = cfg.flows.idxOf (flow id) + 1 ∧ o'.busy = some (id, t)) ∧
    ((ostep F flow size cfg o (.out id t)).isSome ↔ ∃ s, o.busy = some (id, s) ∧ t = s + (size id * 8 : ℕ) / cfg.rate) := by
  refine ⟨?_, ?_, ?_⟩
  · simp only [ostep]
    split
    · rename_i h
      simp only [Option.isSome_some, true_iff]
      obtain ⟨h1, h2, ⟨h3, h3'⟩, h4⟩ := h
      refine ⟨by cases hb : o.busy <;> simp_all, ?_, ⟨h3, ?_⟩, ?_⟩
      · cases hw : o.waiting (flow id) with
        | nil => simp [hw] at h2
        | cons x r =>
          simp only [hw, List.head?_cons, Option.map_some, Option.some.injEq] at h2
          exact ⟨x.2, r, by rw [← h2]⟩
      · intro j' hj' x hx
        exact not_lt.mp (h3' j' hj' x hx)
      · rcases h4 with h4 | h4
        · left
          cases hl : o.lastOut with
          | none => simp [hl, lastIs] at h4
          | some d => simp only [hl, lastIs] at h4; rw [(eqT_iff _ _).mp h4]
        · right
          intro f hf x hx
          exact (eqT_iff _ _).mp (h4 f (List.mem_range.mpr hf) x hx)
    · rename_i h
      simp only [Option.isSome_none, Bool.false_eq_true, false_iff]
      rintro ⟨h1, ⟨tp, r, h2⟩, ⟨h3, h3'⟩, h4⟩
      apply h
      refine ⟨by simp [h1], by simp [h2], ⟨h3, fun j' hj' x hx => not_lt.mpr (h3' j' hj' x hx)⟩, ?_⟩
      rcases h4 with h4 | h4
      · left; rw [h4]; exact (eqT_iff _ _).mpr rfl
      · right; intro f hf x hx; exact (eqT_iff _ _).mpr (h4 f (List.mem_range.mp hf) x hx)
  · intro o' ho'
    simp only [ostep] at ho'
    split at ho'
    · cases ho'; exact ⟨rfl, rfl⟩
    · cases ho'
  · have hiff : OutOK size cfg.rate o id t ↔ ∃ s, o.busy = some (id, s) ∧ t = s + (size id * 8 : ℕ) / cfg.rate := by
      unfold OutOK
      cases hb : o.busy with
      | none => simp
      | some x =>
        obtain ⟨id', s0⟩ := x
        simp only [eqT_iff, RROnK.txTime, Num.ofNat_rat, Option.some.injEq, Prod.mk.injEq]
        constructor
        · rintro ⟨rfl, h⟩; exact ⟨s0, ⟨rfl, rfl⟩, h⟩
        · rintro ⟨s1, ⟨rfl, rfl⟩, h⟩; exact ⟨rfl, h⟩
    simp only [ostep]
    by_cases hok : OutOK size cfg.rate o id t
    · simp only [hok, if_true, Option.isSome_some, true_iff]
      exact hiff.mp hok
    · simp only [hok, if_false, Option.isSome_none, Bool.false_eq_true, false_iff]
      exact fun h => hok (hiff.mpr h)

/-- **The history of every kernel run passes the oracle, step by step**: at every state reachable by kernel steps the
`put` / `serve` / `out` observations recorded so far are accepted by `RROnK.orun` from the empty oracle state — every service
start so far respected the cyclic visit order with one packet per visit, per-flow FIFO, one-at-a-time and work conservation,
every departure came exactly `8·size/rate` after its service start (`oracle_accepts_iff`). -/
theorem rr_on_kernel_history_accepted (F : Nat) (flow size : Int → Nat) (cfg : RR.Cfg ℚ) (arrivals : List (ℚ × Int))
    (hw : WorkOK flow F arrivals) (ht : FlowsOK F cfg) (hr : 0 < cfg.rate) (fuel : Nat) (s : KState ℚ (RrSt ℚ))
    (hreach : KReach (prog F flow size cfg) (fuel + 1) (initState F arrivals) s) :
    ∃ o, orun F flow size cfg oInit (histOf s.trace) = some o := by
  obtain ⟨a, hi⟩ := reach_inv3 (size := size) fuel hw ht hr hreach
  obtain ⟨o, ho⟩ := hi.o
  exact ⟨o, ho.run⟩

/-- **Cyclic visit order, one packet per visit, exact service times, work conservation and drain for the RR scheduler as
kernel processes (direct form, no admissibility assumption).**  For every number of flows `F`, every declaration order of
them, every `rate > 0` and every finite workload with non-negative gaps whose packets belong to these flows (bursts and
arrivals exactly at transmission ends included), `run()` of the kernel model on the spawned processes

* returns (agenda empty, no exception ever leaves `step()` — `assert store` never fails, the loop never spins) within
  `10·n + 4` kernel steps;
* has handed exactly the workload to `put`: packet `k` at the sum of the first `k + 1` gaps (`arrivalsFrom`);
* has a `put` / `serve` / `out` history that the oracle accepts (`oracle_accepts_iff`): at every service start nothing else
  was in transmission, the packet was the oldest of its flow, **its flow was the next one in the cyclic declaration order —
  from the entry behind the one served last, wrapping at the end — that had a packet waiting from an earlier instant** (empty
  classes are skipped, a class gets one packet per visit), and the service started **at the very instant the previous
  transmission ended or at the instant the waiting packets arrived** (never idle with a backlog); every packet left
  **exactly `8·size/rate`** after its service start;
* ends drained: nothing waits, nothing is in transmission, and for every flow the packets handed to `out.put` are exactly
  the packets of that flow handed to `put`, in the same order (every packet leaves once, per flow in arrival order). -/
theorem rr_on_kernel_visit_order (F : Nat) (flow size : Int → Nat) (cfg : RR.Cfg ℚ) (arrivals : List (ℚ × Int))
    (hw : WorkOK flow F arrivals) (ht : FlowsOK F cfg) (hr : 0 < cfg.rate) (fuel n : Nat)
    (hn : 10 * arrivals.length + 4 ≤ n) :
    ∃ sF o, runAll (prog F flow size cfg) (fuel + 1) n (initState F arrivals) = .returned .none sF ∧ sF.agenda = [] ∧
      obsPuts (histOf sF.trace) = arrivalsFrom 0 arrivals ∧
      orun F flow size cfg oInit (histOf sF.trace) = some o ∧ drained F o = true ∧
      ∀ f, ofFlow f (outPk flow size (histOf sF.trace)) = ofFlow f (putPk flow size (histOf sF.trace)) := by
  obtain ⟨sF, aF, h1, h2, h3, h4⟩ := run_returns3 fuel (initState F arrivals) n _ _
    (inv3_init (size := size) hw ht hr) (by rw [a0_mu]; omega) KReach.init
  obtain ⟨o, g1, g2, g3, g4⟩ := inv3_final h2 h3
  refine ⟨sF, o, h1, h3, g3, g1, g2, ?_⟩
  intro f
  have := kernel_flow_fifo F flow size cfg arrivals hw ht hr fuel sF h4 f
  rw [absRR_eq h2.i, g4 f] at this
  simpa [ofFlow] using this.symm

/-- **The cyclic visit order at the decision burst, on kernel states**: let `s` be reachable by kernel steps and let the next
kernel step be one in which `run` takes a packet (the abstraction of the state after it has `run` holding a freshly taken
packet `p` of flow `c` at entry `j` of `flows`, the one before has not).  Then `c` is entry `j` of `flows`, `p` was the head
of `stores[c]` in `s`, and **the store of every entry the cyclic order visits before `j` — from the resume entry (the entry
behind the one just served, 0 after a wake-up), wrapping at the end of `flows` — is empty in `s`** — read from the `Store`
resources of the kernel state itself. -/
theorem rr_on_kernel_decision_cyclic (F : Nat) (flow size : Int → Nat) (cfg : RR.Cfg ℚ) (arrivals : List (ℚ × Int))
    (hw : WorkOK flow F arrivals) (ht : FlowsOK F cfg) (hr : 0 < cfg.rate) (fuel : Nat) (s s' : KState ℚ (RrSt ℚ))
    (hreach : KReach (prog F flow size cfg) (fuel + 1) (initState F arrivals) s)
    (hstep : step (prog F flow size cfg) (fuel + 1) s = .ok s') (c : Nat) (p : MPkt)
    (hpost : (absRR cfg.flows flow size s').phase = .pktHanded c p)
    (hpre : ∀ c p, (absRR cfg.flows flow size s).phase ≠ .pktHanded c p) :
    ∃ j, (absRR cfg.flows flow size s').ctl = .got j ∧ cfg.flows[j]? = some c ∧
      (∃ id is, (s.res (flowStore c)).items = id :: is ∧ p = pktOf flow size id) ∧
      ∀ j' ∈ skipped cfg.flows.length (RR.resumeIndex (absRR cfg.flows flow size s)) j, ∀ f', cfg.flows[j']? = some f' →
        (s.res (flowStore f')).items = [] := by
  obtain ⟨a, hi⟩ := reach_inv3 (size := size) fuel hw ht hr hreach
  cases hp : popMin s.agenda with
  | none => simp [_root_.step, hp] at hstep
  | some qr =>
    obtain ⟨q, rest⟩ := qr
    obtain ⟨s'', a', new, h1, h2, -, h4, -⟩ := inv_step_lts (size := size) fuel hi.i hp
    rw [h1] at hstep
    cases hstep
    rw [absRR_eq h2] at hpost ⊢
    have hpre' : ∀ g i id q0, a.run ≠ .H g i id q0 := by
      intro g i id q0 h
      exact hpre (flow id) (pktOf flow size id) (by rw [absRR_eq hi.i]; simp [toM, phaseOf, h])
    have hres : RR.resumeIndex (absRR cfg.flows flow size s) = resumeAt a.run := by
      rw [absRR_eq hi.i]
      unfold RR.resumeIndex resumeAt
      cases hrun : a.run <;> simp [toM, ctlOf, hrun]
    cases hrun' : a'.run with
    | H g j id q' =>
      simp only [toM, phaseOf, hrun', Phase.pktHanded.injEq] at hpost
      obtain ⟨rfl, rfl⟩ := hpost
      obtain ⟨e1, ⟨is, e3⟩, e4⟩ := astep_decision hi.i.i.a h4 hrun' hpre'
      have hfid : flow id < F := (mem_flows hi.i.i.a _).mp (List.mem_of_getElem? e1)
      refine ⟨j, by simp [toM, ctlOf, hrun'], e1, ⟨id, is, by rw [hi.i.i.k.st _ hfid, e3]; rfl, rfl⟩, ?_⟩
      rw [hres]
      intro j' hj' f' hf'
      have hf' : f' < F := (mem_flows hi.i.i.a _).mp (List.mem_of_getElem? hf')
      rw [hi.i.i.k.st f' hf', e4 j' hj' f' (by assumption)]
      rfl
    | init q0 => simp [toM, phaseOf, hrun'] at hpost
    | W g => simp [toM, phaseOf, hrun'] at hpost
    | K g q0 => simp [toM, phaseOf, hrun'] at hpost
    | S p0 i id q0 => simp [toM, phaseOf, hrun'] at hpost
    | T p0 t i id q0 => simp [toM, phaseOf, hrun'] at hpost
    | F p0 i id q0 => simp [toM, phaseOf, hrun'] at hpost

/-! ### concrete runs of the kernel model, evaluated by the kernel of Lean (exact arithmetic) -/

/-- flows 0, 1, 2 declared in the order 2, 0, 1; rate 8 (a packet of size 1 is transmitted in one time unit) -/
def cfg3 : RR.Cfg ℚ := { rate := 8, flows := [2, 0, 1] }
/-- packet `i` belongs to flow `fl[i]` -/
def flowOf (fl : List Nat) : Int → Nat := fun i => fl.getD i.toNat 0
def unit : Int → Nat := fun _ => 1

/-- what a finished run shows: entries left in the agenda, the service starts and the departures -/
def run3 (fl : List Nat) (n : Nat) (arr : List (ℚ × Int)) : Option (Nat × List (Int × ℚ) × List (Int × ℚ)) :=
  (finalState (runAll (prog 3 (flowOf fl) unit cfg3) 1 n (initState 3 arr))).map fun s =>
    (s.agenda.length, servesOf s.trace, outsOf s.trace)

/-- packets 0, 1 of flow 0, packet 2 of flow 1, packet 3 of flow 2 queued at 0; packet 4 (flow 2) and 5 (flow 1) arrive at 1 —
exactly when the first transmission ends.  The decision burst at 0 runs after the first `put` only: flow 0 (entry 1) is
served; the pass goes on with entry 2 (flow 1: packet 2), the next pass serves entry 0 (flow 2: packet 3), entry 1 (flow 0:
packet 1), entry 2 (flow 1: packet 5), and the pass after it entry 0 (flow 2: packet 4): one packet per visit, back to back,
each transmission exactly one time unit -/
example : run3 [0, 0, 1, 2, 2, 1] 80 [(0, 0), (0, 1), (0, 2), (0, 3), (1, 4), (0, 5)] =
    some (0, [(0, 0), (2, 1), (3, 2), (1, 3), (5, 4), (4, 5)], [(0, 1), (2, 2), (3, 3), (1, 4), (5, 5), (4, 6)]) := by
  decide +kernel

/-- … and every kernel step of that run (41 of them) is an action sequence the LTS accepts between the abstractions of the
two states (`refineCheck` replays the inferred actions through `MQ.step` and compares with `absRR`, the key order of
`queue_count` included) -/
example : refineCheck 3 (flowOf [0, 0, 1, 2, 2, 1]) unit cfg3 80
    (initState 3 [(0, 0), (0, 1), (0, 2), (0, 3), (1, 4), (0, 5)]) 0 = some 41 := by
  decide +kernel

/-- arrivals at 1 exactly when the transmission of packet 0 (flow 1, entry 2) ends: the pass is over, the next one starts at
the top: flow 2 (entry 0), then flow 0 (entry 1), then flow 1 -/
example : run3 [1, 0, 2, 1] 60 [(0, 0), (1, 1), (0, 2), (1, 3)] =
    some (0, [(0, 0), (2, 1), (1, 2), (3, 3)], [(0, 1), (2, 2), (1, 3), (3, 4)]) ∧
    refineCheck 3 (flowOf [1, 0, 2, 1]) unit cfg3 60 (initState 3 [(0, 0), (1, 1), (0, 2), (1, 3)]) 0 = some 29 := by
  decide +kernel

/-- idle gaps: each packet is served at its arrival instant (the wake-up token), 1→2, 6→7, 7→8 -/
example : run3 [1, 2, 0] 40 [(1, 0), (5, 1), (1, 2)] = some (0, [(0, 1), (1, 6), (2, 7)], [(0, 2), (1, 7), (2, 8)]) ∧
    refineCheck 3 (flowOf [1, 2, 0]) unit cfg3 40 (initState 3 [(1, 0), (5, 1), (1, 2)]) 0 = some 25 := by
  decide +kernel

/-- the keys of `queue_count`.  After the first kernel step (the first burst of `run`, before any `put`) the abstraction has
`run` blocked on the wake-up store and `queue_count` holds the three declared flows, in declaration order, at 0 —
`queue_byte_size` is still empty; after 13 steps (arrivals at 1, 2, 3) the sender has just been spawned for the second
packet, the keys of `queue_count` are unchanged and those of `queue_byte_size` are the flows in the order of their first
`put` -/
example : (match runAll (prog 3 (flowOf [1, 2, 0]) unit cfg3) 1 1 (initState 3 [(1, 0), (1, 1), (1, 2)]) with
    | .outOfFuel s => some (MQ.phaseName (absRR cfg3.flows (flowOf [1, 2, 0]) unit s),
        (absRR cfg3.flows (flowOf [1, 2, 0]) unit s).queueCount, (absRR cfg3.flows (flowOf [1, 2, 0]) unit s).queueBytes)
    | _ => none) = some ("W", [(2, 0), (0, 0), (1, 0)], []) := by
  decide +kernel

example : (match runAll (prog 3 (flowOf [1, 2, 0]) unit cfg3) 1 13 (initState 3 [(1, 0), (1, 1), (1, 2)]) with
    | .outOfFuel s => some (MQ.phaseName (absRR cfg3.flows (flowOf [1, 2, 0]) unit s),
        (absRR cfg3.flows (flowOf [1, 2, 0]) unit s).queueCount, (absRR cfg3.flows (flowOf [1, 2, 0]) unit s).queueBytes,
        (absRR cfg3.flows (flowOf [1, 2, 0]) unit s).now)
    | _ => none) = some ("S", [(2, 1), (0, 0), (1, 0)], [(1, 0), (2, 1)], 2) := by
  decide +kernel

/-- the hypotheses of the theorems are met by that workload (`WorkOK`, `FlowsOK`), and the history of its run is accepted by
the oracle and ends drained -/
example : WorkOK (flowOf [0, 0, 1, 2, 2, 1]) 3 [(0, 0), (0, 1), (0, 2), (0, 3), (1, 4), (0, 5)] ∧ FlowsOK 3 cfg3 := by
  refine ⟨?_, by unfold FlowsOK cfg3; decide⟩
  intro x hx
  simp only [List.mem_cons, List.not_mem_nil, or_false] at hx
  rcases hx with rfl | rfl | rfl | rfl | rfl | rfl <;> exact ⟨by norm_num, by unfold PktOK; decide⟩

example : (finalState (runAll (prog 3 (flowOf [0, 0, 1, 2, 2, 1]) unit cfg3) 1 80
      (initState 3 [(0, 0), (0, 1), (0, 2), (0, 3), (1, 4), (0, 5)]))).map
    (fun s => (orun 3 (flowOf [0, 0, 1, 2, 2, 1]) unit cfg3 oInit (histOf s.trace)).map (drained 3)) = some (some true) := by
  decide +kernel

/-- the oracle is not vacuous.  Packet 0 of flow 0 (entry 1) is in transmission 0→1 while packets of flow 1 (entry 2) and
flow 2 (entry 0) arrive at 1/2.  Serving entry 2 at 1, then entry 0 at 2 is accepted; serving entry 0 at 1 is rejected (entry
2 comes first and waits since 1/2); a second packet of flow 0 at 1 is rejected (one packet per visit: entries 2 and 0 wait); a
service that starts late (at 2, with a backlog and no departure at 2) is rejected; a departure later than
`start + 8·size/rate` is rejected. -/
example : orun 3 (flowOf [0, 1, 2]) unit cfg3 oInit
      [.put 0 0, .serve 0 0, .put 1 (1/2), .put 2 (1/2), .out 0 1, .serve 1 1, .out 1 2, .serve 2 2, .out 2 3] ≠ none ∧
    orun 3 (flowOf [0, 1, 2]) unit cfg3 oInit [.put 0 0, .serve 0 0, .put 1 (1/2), .put 2 (1/2), .out 0 1, .serve 2 1] = none ∧
    orun 3 (flowOf [0, 0, 2]) unit cfg3 oInit [.put 0 0, .serve 0 0, .put 1 (1/2), .put 2 (1/2), .out 0 1, .serve 1 1] = none ∧
    orun 3 (flowOf [0, 1, 2]) unit cfg3 oInit [.put 0 0, .serve 0 2] = none ∧
    orun 3 (flowOf [0, 1, 2]) unit cfg3 oInit [.put 0 0, .serve 0 0, .out 0 2] = none := by
  decide +kernel

end C15K
