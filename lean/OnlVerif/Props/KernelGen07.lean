import OnlVerif.Lemmas.GenKernelRes7
/-!
# KernelGen07 - containers and stores *as written in the source* are the kernel model `K` (C07)

One of the bridge modules into which `Props/KernelGen.lean` was split, one per owning property (`py2lean/SCOPE.md`): `py2lean/kernel.py`
regenerates the `Generated/Kernel*.lean` files named in the imports from `onl/sim` on every `./check` of the owning property, and the
theorems below (bridge theorems) prove that the generated definitions coincide with the functions of the hand-written kernel
model `K` (`Kernel/Agenda.lean`, `Ops.lean`, `Step.lean`) that the property theorems are about.  A flipped comparison, a changed
constant, priority or refusal, a lost or reordered effect in the source changes a generated definition and one of these proofs
no longer compiles - for every input, not for sampled ones.  Here: `canPut` / `applyPut` (= `doPut`), `getItem` / `takeOut` (= `doGet`), the `amount <= 0` refusal of `Container`, `Store`, `PriorityStore`, `FilterStore` (C07).

The encoding between the generated object views and the model state is explicit and hand-written
(`OnlVerif/Lemmas/GenKernelDefs.lean`: `resObj`, `runEff`, `buildEvent`, `applyTrig`, `toEntry`; the `run…` functions next to the
lemmas).  All statements hold for every scalar type `τ` (no arithmetic identity is used), in particular for `ℚ` and `Float`.
This module imports no generated file of another property.
-/

namespace KernelGen
open GenKernel
variable {τ σ : Type} [Num τ]

/-! ## containers and stores (C07) -/

/-- **`Container._do_put` as written in the source is the model's `doPut`**: guard `capacity - level >= amount`
(`canPut`), `level += amount`, `succeed()`. -/
theorem container_do_put_generated_eq_model (s : KState τ σ) (r : ResId) (e : EvId) (hk : (s.res r).kind = .container) :
    runContainerPut { r := r, e := e } s = some (doPut s r e) :=
  container_put_run s r e hk

/-- **`Container._do_get` as written in the source is the model's `doGet`**: guard `level >= amount` (`getItem`),
`level -= amount` (`takeOut`), `succeed()`. -/
theorem container_do_get_generated_eq_model (s : KState τ σ) (r : ResId) (e : EvId) (hk : (s.res r).kind = .container) :
    runContainerGet { r := r, e := e } s = some (doGet s r e) :=
  container_get_run s r e hk

/-- **the `amount <= 0` refusal of `ContainerPut.__init__` / `ContainerGet.__init__` is the guard of the model's `cput` /
`cget` calls**: the call ends with `ValueError` exactly when the translated constructor raises, otherwise the request is
built (`mkPut` / `mkGet`) with the amount the constructor stored. -/
theorem container_amount_guard_generated_eq_model (s : KState τ σ) (self : EvId) (r : ResId) (amount : Int)
    (hk : (s.res r).kind = .container) :
    doCall s self (.cput r amount) =
      (if (Gen.ContainerPut.init (reqObj (τ := τ)) amount).raised = 2 then (s, .err (valueErr "amount must be > 0"))
       else match initAmount (Gen.ContainerPut.init (reqObj (τ := τ)) amount).eff with
         | some a => ((mkPut s r { res := r, amount := a, time := s.now, proc := s.active }).1,
                      .ev (mkPut s r { res := r, amount := a, time := s.now, proc := s.active }).2)
         | none => (s, .unit)) ∧
    doCall s self (.cget r amount) =
      (if (Gen.ContainerGet.init (reqObj (τ := τ)) amount).raised = 2 then (s, .err (valueErr "amount must be > 0"))
       else match initAmount (Gen.ContainerGet.init (reqObj (τ := τ)) amount).eff with
         | some a => ((mkGet s r { res := r, amount := a, time := s.now, proc := s.active }).1,
                      .ev (mkGet s r { res := r, amount := a, time := s.now, proc := s.active }).2)
         | none => (s, .unit)) :=
  ⟨container_put_init s self r amount hk, container_get_init s self r amount hk⟩

/-- **`Store._do_put` / `_do_get` as written in the source are the model's `doPut` / `doGet`** (`Store`; `FilterStore`
inherits `_do_put`): `len(items) < capacity`, `items.append(item)`, `succeed()`; `if items: succeed(items.pop(0))`. -/
theorem store_generated_eq_model (s : KState τ σ) (r : ResId) (e : EvId) :
    ((s.res r).kind = .store ∨ (s.res r).kind = .fstore → runStorePut { r := r, e := e } s = some (doPut s r e)) ∧
    ((s.res r).kind = .store → runStoreGet { r := r, e := e } s = some (doGet s r e)) :=
  ⟨store_put_run s r e, store_get_run s r e⟩

/-- **`PriorityStore._do_put` / `_do_get` as written in the source are the model's `doPut` / `doGet`**: same guards;
`heappush` / `heappop` are effects whose meaning (bag + minimum, `listMin`) is hand-modelled. -/
theorem priority_store_generated_eq_model (s : KState τ σ) (r : ResId) (e : EvId) (hk : (s.res r).kind = .pstore) :
    runPStorePut { r := r, e := e } s = some (doPut s r e) ∧ runPStoreGet { r := r, e := e } s = some (doGet s r e) :=
  ⟨pstore_put_run s r e hk, pstore_get_run s r e hk⟩

/-- **`FilterStore._do_get` as written in the source is the model's `doGet`**: the first item that passes the filter is
removed and handed out (the loop shape is a landmark), and the method always returns `True` - a getter whose filter
matches nothing does not stop the scan. -/
theorem filter_store_generated_eq_model (s : KState τ σ) (r : ResId) (e : EvId) (hk : (s.res r).kind = .fstore) :
    runFStoreGet { r := r, e := e, m := (s.res r).items.find? (filterOk (reqOf s e).filter) } s = some (doGet s r e) :=
  fstore_get_run s r e hk

/-- **the guards of the `_do_put` methods as written in the source are the model's `canPut`**, class by class: the bool a
translated `_do_put` returns in state `s` is `canPut s r e` (`Container`: `capacity - level >= amount`; the stores:
`len(items) < capacity`).  (The `Resource` conjunct of the former four-part statement is
`KernelGen.resource_put_guard_generated_eq_model` in `Props/KernelGen06.lean`.) -/
theorem put_guards_generated_eq_model (s : KState τ σ) (r : ResId) (e : EvId) :
    ((s.res r).kind = .container →
      (Gen.Container.do_put (contObj (τ := τ) (s.res r)) (reqOf s e).amount).ret = canPut s r e) ∧
    ((s.res r).kind = .store ∨ (s.res r).kind = .fstore →
      (Gen.Store.do_put (resObj (τ := τ) (s.res r)) (s.res r).items.length).ret = canPut s r e) ∧
    ((s.res r).kind = .pstore →
      (Gen.PriorityStore.do_put (resObj (τ := τ) (s.res r)) (s.res r).items.length).ret = canPut s r e) :=
  ⟨container_put_guard s r e, store_put_guard s r e, pstore_put_guard s r e⟩

/-! ## non-vacuity: the generated definitions on concrete objects -/

/-- a container of capacity 5 holding 3 accepts 2 and refuses 3; an unbounded one accepts anything -/
example : (Gen.Container.do_put (contObj (τ := Rat) { kind := .container, capacity := some 5, level := 3 }) 2).ret = true ∧
    (Gen.Container.do_put (contObj (τ := Rat) { kind := .container, capacity := some 5, level := 3 }) 3).ret = false ∧
    (Gen.Container.do_put (contObj (τ := Rat) { kind := .container, capacity := none, level := 3 }) 1000).ret = true := by
  decide

end KernelGen
