import OnlVerif.Tcp.SenderOnK
/-!
# C16 / C17 on the kernel: the TCP sender *as processes on the kernel model* refines the sender LTS

`OnlVerif/Tcp/SenderOnK.lean` writes `TCPPacketGenerator.run`, `put`, `timeout_callback`, `resend_packet`, one `Timer`
process per segment and a network-script process (`yield env.timeout(gap); sender.put(ack)` for every entry of a script) as
a program of the kernel model `K` (`OnlVerif/Kernel`).  Nothing is assumed about scheduling: `Environment.step` of the kernel
model decides what runs when.
-/

namespace C16K
open SenderOnK

/-! ### concrete runs of the kernel model compared with the LTS, evaluated by the kernel of Lean (exact arithmetic) -/

/-- a `TCPReno(mss=512, cwnd=cwnd, ssthresh=65535)` -/
def reno (cwnd : Rat) : CCState Rat :=
  { mss := 512, cwnd := cwnd, ssthresh := 65535, W_last_max := 0, epoch_start := 0, origin_point := 0, d_min := 0, W_tcp := 0,
    K := 0, ack_cnt := 0, tcp_friendliness := true, fast_convergence := true, beta := 1/5, C := 2/5, cwnd_cnt := 0, cnt := 0 }

/-- an ACK packet -/
def ack (ackno pid : Nat) (stamp : Rat) : AckIn Rat := { fid := 10000, ackno := ackno, pid := pid, ptime := stamp }

/-- a flow of `n` segments of 512 bytes under Reno -/
def flowCfg (n : Nat) : Cfg := { kind := .reno, mss := 512, size := n * 512 }

/-- what a run of at most `n` kernel steps leaves: whether `run()` returned, the transmissions `(seq, instant)`, the final
`last_ack` and `cwnd` -/
def summary (cfg : Cfg) (n : Nat) (s : KState Rat (SnSt Rat)) : Option (Bool × List (Nat × Rat) × Nat × Rat) :=
  match runAll (body cfg) 1 n s with
  | .returned _ s => some (true, txsOf s.trace, (absSender cfg s).last_ack, (absSender cfg s).cc.cwnd)
  | .outOfFuel s => some (false, txsOf s.trace, (absSender cfg s).last_ack, (absSender cfg s).cc.cwnd)
  | .raised _ _ => none

/-- a loss-free 3-segment flow (round trip 1/5, initial `rtt_estimate` 1): segment 0 at 0, its ACK at 1/5 opens the window to
two segments, their ACKs arrive together at 2/5 -/
def lossFree : KState Rat (SnSt Rat) :=
  initState (reno 512) 1 [(1/5, ack 512 0 0), (1/5, ack 1024 512 (1/5)), (0, ack 1536 1024 (1/5))]

example : summary (flowCfg 3) 100 lossFree = some (true, [(0, 0), (512, 1/5), (1024, 1/5)], 1536, 2048) := by decide +kernel

/-- … and every one of its 20 kernel steps is an action sequence the sender LTS accepts between the abstractions of the two
states, with the LTS's transmissions equal to the step's `tx` observations -/
example : refineCheck (flowCfg 3) 100 lossFree 0 = some 20 := by decide +kernel

/-- **a loss recovered by a timeout**: the first transmission of segment 0 is lost; its timer (RTO = 2·`rtt_estimate` = 2)
fires at 2 and retransmits it (`cwnd` back to one segment, RTO doubled: the re-armed timer would fire at 6); the ACK of the
retransmission arrives at 11/5 and the rest of the flow follows -/
def timeoutLoss : KState Rat (SnSt Rat) :=
  initState (reno 512) 1 [(11/5, ack 512 0 2), (1/5, ack 1024 512 (11/5)), (0, ack 1536 1024 (11/5))]

example : summary (flowCfg 3) 100 timeoutLoss = some (true, [(0, 0), (0, 2), (512, 11/5), (1024, 11/5)], 1536, 2048) := by
  decide +kernel

example : refineCheck (flowCfg 3) 100 timeoutLoss 0 = some 21 := by decide +kernel

/-- **a loss recovered by fast retransmit**: a 4-segment flow with an initial window of four segments; segment 0 is lost, the
three others produce three duplicate ACKs `0` at 1/5; the third one retransmits segment 0 at 1/5 (long before its timer, due
at 2); the cumulative ACK 2048 arrives at 2/5, deflates the window (`cwnd = ssthresh = 1024`, then `+ MSS`) and ends the flow -/
def fastRetransmit : KState Rat (SnSt Rat) :=
  initState (reno 2048) 1 [(1/5, ack 0 512 0), (0, ack 0 1024 0), (0, ack 0 1536 0), (1/5, ack 2048 0 (1/5))]

example : summary (flowCfg 4) 100 fastRetransmit =
    some (true, [(0, 0), (512, 0), (1024, 0), (1536, 0), (0, 1/5)], 2048, 1536) := by decide +kernel

example : refineCheck (flowCfg 4) 100 fastRetransmit 0 = some 21 := by decide +kernel

end C16K
