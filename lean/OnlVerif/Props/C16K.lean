import OnlVerif.Lemmas.SndKFinal
import OnlVerif.Props.C16
import OnlVerif.Props.C17
/-!
# C16 / C17 on the kernel: the TCP sender *as processes on the kernel model* refines the sender LTS

`OnlVerif/Tcp/SenderOnK.lean` writes `TCPPacketGenerator.run`, `put`, `timeout_callback`, `resend_packet`, one `Timer`
process per segment (`Timer.__init__/run/stop/restart`, the encoding of `Util/TimerOnK.lean`) and a network-script process
(`yield env.timeout(gap); sender.put(ack)` for every entry of a script - arbitrary ACK numbers, packet ids and orders:
duplicates, stale ACKs, ACKs beyond `next_seq`) as one program of the kernel model `K` (`OnlVerif/Kernel`).  Nothing is
assumed about scheduling: `Environment.step` of the kernel model decides what runs when (the `Initialize` events of `run`,
of the script and of every `Timer` process, the `StorePut` / `StoreGet` events of the wake-up store, the sleep timeouts of the
timers - also of the stopped ones, which stay in the queue until they are due - and of the script, the process events of the
generators that have returned).  The theorems close the gap DESIGN §2.3 names for this device: every kernel step of this
program is a (possibly empty) sequence of actions the sender LTS (`OnlVerif/Tcp/CC.lean`) *accepts* - so the admissibility
rules of the LTS (a resumption of `run` and the hand-off of a wake-up token happen before the clock moves; a retransmission
timer fires exactly at its expiry unless it was stopped; `restart` from the timer's own callback re-arms it; no timer is
overdue when the clock moves) are consequences of the kernel model - no step ever crashes (C16: the run never raises), and
the C16/C17 theorems about the LTS hold of kernel runs.

Scope (`SndK.Setup`): one sender for a finite flow `size = n·mss` (`mss > 0`, `n > 0`) with Reno **or CUBIC** (any
congestion-control object satisfying the C17 invariant `cwnd ≥ cc.mss > 0`, `ssthresh ≥ 0`, for CUBIC `W_last_max = 0`,
`beta ≠ 2`), a positive initial `rtt_estimate`; **any number of segments and timers in flight**; one script process with
non-negative gaps (zero gaps and deliveries exactly at an expiry instant included) whose ACKs carry `flow_id ≥ 10000` and
are not stamped in the future of their delivery; exact rational time; `fuel + 1` = any positive bound of the `_resume` loop.
-/

namespace C16K
open SenderOnK SndK TcpSender TcpSpec

/-- **Refinement, step by step**: let `s` be reachable by kernel steps from the initial state and let the next kernel
step end in `s'`.  Then that step is a normal one (`.ok`: no exception leaves `Environment.step` - in particular none of
`KeyError`, `ValueError`, `ZeroDivisionError`, `AssertionError`, the modelled spin `Hang` - and no stop), and there is a
(possibly empty) sequence of LTS actions, with well-formed ACKs, that the sender LTS *accepts* from the abstraction of `s`,
that ends exactly in the abstraction of `s'` (the step commutes with the executable abstraction function `absSender`), and
whose transmissions are exactly the `tx` observations (`out.put`) the kernel step appended to the trace. -/
theorem sender_on_kernel_step_refines (cfg : Cfg) (cc : CCState ℚ) (rtt : ℚ) (script : Script) (hs : Setup cfg cc rtt script)
    (fuel : Nat) (s s' : KS) (hreach : KReach (body cfg) (fuel + 1) (initState cc rtt script) s)
    (hstep : (step (body cfg) (fuel + 1) s).state? = some s') :
    step (body cfg) (fuel + 1) s = .ok s' ∧
    ∃ acts outs, runLts (absSender cfg s) acts = .ok (absSender cfg s') outs ∧ (∀ x ∈ acts, ActOk x) ∧
      txsOf s'.trace = txsOf s.trace ++ outs.map txPair := by
  obtain ⟨h1, _, acts, outs, h3, h4, h5⟩ := step_events hs fuel hreach hstep
  exact ⟨h1, acts, outs, h3, h5, h4⟩

/-- **Refinement, whole runs**: every state reachable by kernel steps is the image of an accepted run of the sender LTS
from the state of a freshly constructed generator (`Sender.init`): the LTS accepts some action sequence that ends in
`absSender s` and whose transmissions are the `tx` observations of the kernel trace, in order. -/
theorem sender_on_kernel_refines_lts (cfg : Cfg) (cc : CCState ℚ) (rtt : ℚ) (script : Script) (hs : Setup cfg cc rtt script)
    (fuel : Nat) (s : KS) (hreach : KReach (body cfg) (fuel + 1) (initState cc rtt script) s) :
    ∃ acts outs, runLts (Sender.init cfg.kind cc rtt cfg.mss (some cfg.size) 0) acts = .ok (absSender cfg s) outs ∧
      (∀ x ∈ acts, ActOk x) ∧ txsOf s.trace = outs.map txPair := by
  obtain ⟨a, acts, outs, hk, hi, hrun, htx, hok⟩ := reach_inv hs fuel hreach
  refine ⟨acts, outs, ?_, hok, ?_⟩
  · rw [abs_eq hk hi]; exact hrun
  · rw [← htx]; exact hk.k.tx

/-- **The run never raises (C16 on the kernel model).**  At every state reachable by kernel steps the next
`Environment.step` processes an event normally or finds the agenda empty: no exception ever leaves `step()`; and whatever
step budget `n` the loop of `run()` is given, it raises nothing. -/
theorem sender_on_kernel_never_raises (cfg : Cfg) (cc : CCState ℚ) (rtt : ℚ) (script : Script) (hs : Setup cfg cc rtt script)
    (fuel : Nat) :
    (∀ s, KReach (body cfg) (fuel + 1) (initState cc rtt script) s →
      (∃ s', step (body cfg) (fuel + 1) s = .ok s') ∨ step (body cfg) (fuel + 1) s = .empty) ∧
    ∀ n, ∃ s, lastState (runAll (body cfg) (fuel + 1) n (initState cc rtt script)) = some s ∧
      KReach (body cfg) (fuel + 1) (initState cc rtt script) s := by
  refine ⟨fun s h => step_ok_or_empty hs fuel h, fun n => ?_⟩
  exact runLoop_reach (fun s h => step_ok_or_empty hs fuel h) n _ KReach.init

/-- **The safety invariant of C16 holds of kernel runs**: the abstraction of every reachable kernel state is reachable in
the sender LTS from a fresh generator by accepted actions (`TcpSender.Reach`), satisfies the invariant of the sender LTS
(`TcpSender.Inv`: `cwnd ≥ mss > 0`, `timers` and `sent_packets` have the same keys, `rto > 0`, `next_seq ≤ send_buffer` …),
and - `C16.sender_never_raises` transferred - no action of the LTS can raise from it. -/
theorem kernel_safety_invariant (cfg : Cfg) (cc : CCState ℚ) (rtt : ℚ) (script : Script) (hs : Setup cfg cc rtt script)
    (fuel : Nat) (s : KS) (hreach : KReach (body cfg) (fuel + 1) (initState cc rtt script) s) :
    Reach (Sender.init cfg.kind cc rtt cfg.mss (some cfg.size) 0) (absSender cfg s) ∧ TcpSender.Inv (absSender cfg s) ∧
    ∀ (x : Act ℚ), ActOk x → ∀ e, (absSender cfg s).step x ≠ .error e := by
  obtain ⟨acts, outs, hrun, hok, _⟩ := sender_on_kernel_refines_lts cfg cc rtt script hs fuel s hreach
  have h0 : TcpSender.Inv (Sender.init cfg.kind cc rtt cfg.mss (some cfg.size) 0) := inv_init _ _ _ _ _ _ hs.cc hs.rtt
  have hr := reach_of_run acts _ _ _ outs Reach.init hok hrun
  exact ⟨hr, reach_inv h0 hr, fun x hx e => C16.sender_never_raises _ _ h0 hr x hx e⟩

/-- **`cwnd` never falls below one MSS on kernel runs** (`C17.cwnd_ge_mss` transferred): at every reachable kernel state the
cells hold `cwnd ≥ cc.mss > 0`, `ssthresh ≥ 0`, `rto > 0`, and for CUBIC `W_last_max = 0`. -/
theorem kernel_cwnd_ge_mss (cfg : Cfg) (cc : CCState ℚ) (rtt : ℚ) (script : Script) (hs : Setup cfg cc rtt script)
    (fuel : Nat) (s : KS) (hreach : KReach (body cfg) (fuel + 1) (initState cc rtt script) s) :
    (absSender cfg s).cc.mss ≤ (absSender cfg s).cc.cwnd ∧ 0 < (absSender cfg s).cc.mss ∧
    0 ≤ (absSender cfg s).cc.ssthresh ∧ 0 < (absSender cfg s).est.rto ∧
    ((absSender cfg s).kind = .cubic → (absSender cfg s).cc.W_last_max = 0) := by
  obtain ⟨hr, _, _⟩ := kernel_safety_invariant cfg cc rtt script hs fuel s hreach
  exact C17.cwnd_ge_mss _ _ (inv_init _ _ _ _ _ _ hs.cc hs.rtt) hr

/-- **Transfer principle**: whatever holds of every accepted step of the sender LTS from a state that satisfies its invariant
(`P`: any of the single-step theorems of C16/C17) holds of every LTS step a kernel step consists of - the clock advance to
the instant of the popped entry, then the burst of the process the event resumes. -/
theorem sender_on_kernel_events_obey (P : Sender ℚ → Act ℚ → Sender ℚ → List (Tx ℚ) → Prop)
    (hP : ∀ S x S' o, TcpSender.Inv S → ActOk x → S.step x = .ok S' o → P S x S' o)
    (cfg : Cfg) (cc : CCState ℚ) (rtt : ℚ) (script : Script) (hs : Setup cfg cc rtt script)
    (fuel : Nat) (s s' : KS) (hreach : KReach (body cfg) (fuel + 1) (initState cc rtt script) s)
    (hstep : (step (body cfg) (fuel + 1) s).state? = some s') :
    ∃ acts outs, runLts (absSender cfg s) acts = .ok (absSender cfg s') outs ∧
      txsOf s'.trace = txsOf s.trace ++ outs.map txPair ∧ Along P (absSender cfg s) acts := by
  obtain ⟨_, hi, acts, outs, h3, h4, h5⟩ := step_events hs fuel hreach hstep
  exact ⟨acts, outs, h3, h4, (along_of_run hP acts _ _ outs hi h5 h3).1⟩

/-- **C17 `send_in_window` on kernel runs**: in every kernel step, the segments a resumption of `run` hands to `out` are
`next_seq, next_seq + MSS, …`, MSS-sized, new, stamped with the instant of the resumption, and each is sent with
`seq + MSS ≤ last_ack + cwnd` - inside the congestion window of that moment (`C17.send_in_window_burst` transferred). -/
theorem kernel_send_in_window (cfg : Cfg) (cc : CCState ℚ) (rtt : ℚ) (script : Script) (hs : Setup cfg cc rtt script)
    (fuel : Nat) (s s' : KS) (hreach : KReach (body cfg) (fuel + 1) (initState cc rtt script) s)
    (hstep : (step (body cfg) (fuel + 1) s).state? = some s') :
    ∃ acts outs, runLts (absSender cfg s) acts = .ok (absSender cfg s') outs ∧
      txsOf s'.trace = txsOf s.trace ++ outs.map txPair ∧
      Along (fun S x _ o => ∀ f, x = .wake f → ∀ i (hi : i < o.length),
        (o[i]).seq = S.next_seq + i * S.mss ∧ (o[i]).size = S.mss ∧ (o[i]).kind = .new ∧
        (((o[i]).seq : ℚ) + S.mss ≤ S.last_ack + S.cc.cwnd)) (absSender cfg s) acts :=
  sender_on_kernel_events_obey _ (fun S x S' o hi _ hst f hf => by
    subst hf
    exact C17.send_in_window_burst S S' f o hi hst) cfg cc rtt script hs fuel s s' hreach hstep

/-- **The Reno rules at every ACK event of a kernel run** (`C17.reno_new_ack_at_sender`, `third_dupack`, `more_dupacks`,
`new_ack_after_dupacks` transferred): when the script delivers `ack` into `put` in a kernel step,

* a new ACK (`ackno > last_ack`) outside fast recovery on a Reno sender grows `cwnd` by one MSS in slow start and by `MSS²/cwnd` in congestion
  avoidance (`renoGrow`), `ssthresh` stays, `last_ack` moves, `dupack = 0`;
* the third duplicate sets `ssthresh = max(2·MSS, cwnd/2)`, `cwnd = ssthresh + 3·MSS` and leaves the estimator alone;
* every further duplicate adds one MSS;
* the new ACK that ends fast recovery gives `cwnd = ssthresh + MSS`;
* an ACK below the acknowledged mark (overtaken on the return path by a later cumulative ACK) changes nothing and sends nothing
  (`C16.stale_ack_is_noop` transferred). -/
theorem kernel_reno_rules (cfg : Cfg) (cc : CCState ℚ) (rtt : ℚ) (script : Script) (hs : Setup cfg cc rtt script)
    (fuel : Nat) (s s' : KS) (hreach : KReach (body cfg) (fuel + 1) (initState cc rtt script) s)
    (hstep : (step (body cfg) (fuel + 1) s).state? = some s') :
    ∃ acts outs, runLts (absSender cfg s) acts = .ok (absSender cfg s') outs ∧
      txsOf s'.trace = txsOf s.trace ++ outs.map txPair ∧
      Along (fun S x S' o => ∀ a, x = .ack a →
        (S.last_ack < a.ackno → S.dupack < 3 → S.kind = .reno →
          S'.cc.cwnd = renoGrow S.cc.mss S.cc.cwnd S.cc.ssthresh ∧ S'.cc.ssthresh = S.cc.ssthresh ∧
          S'.last_ack = a.ackno ∧ S'.dupack = 0) ∧
        (a.ackno = S.last_ack → S.dupack = 2 →
          S'.cc.ssthresh = lossSsthresh S.cc.mss S.cc.cwnd ∧ S'.cc.cwnd = fastRetransmitCwnd S.cc.mss S.cc.cwnd ∧
          S'.dupack = 3 ∧ S'.est = S.est) ∧
        (a.ackno = S.last_ack → 3 ≤ S.dupack → S'.cc.cwnd = S.cc.cwnd + S.cc.mss ∧ S'.cc.ssthresh = S.cc.ssthresh) ∧
        (S.last_ack < a.ackno → 3 ≤ S.dupack → S'.cc.cwnd = S.cc.ssthresh + S.cc.mss ∧ S'.dupack = 0) ∧
        (a.ackno < S.last_ack → S' = S ∧ o = []))
        (absSender cfg s) acts :=
  sender_on_kernel_events_obey _ (fun S x S' o hi hx hst a ha => by
    subst ha
    have hok := ackOk_of_step hx hst
    refine ⟨fun h1 h2 h3 => ?_, fun h1 h2 => ?_, fun h1 h2 => ?_, fun h1 h2 => ?_, fun h1 => ?_⟩
    · obtain ⟨S2, e, r⟩ := C17.reno_new_ack_at_sender S a hi h3 hok h1 h2
      rw [hst] at e; cases e; exact r
    · obtain ⟨e0, S2, o2, e, r1, r2, r3, _⟩ := C17.third_dupack S a hok h1 h2
      rw [hst] at e; cases e
      rw [r2, e0]
      exact ⟨rfl, rfl, r1, r3⟩
    · obtain ⟨_, S2, o2, e, _, r2, r3, _⟩ := C17.more_dupacks S a hok h1 h2
      rw [hst] at e; cases e; exact ⟨r2, r3⟩
    · obtain ⟨_, S2, e, r1, _, _, r4, _⟩ := C17.new_ack_after_dupacks S a hi hok h1 h2
      rw [hst] at e; cases e; exact ⟨r4, r1⟩
    · have e := C16.stale_ack_is_noop S a hok.1 hok.2 h1
      rw [hst] at e; injection e with e1 e2; exact ⟨e1, e2⟩) cfg cc rtt script hs fuel s s' hreach hstep

/-- **The timeout rule at every timer expiry of a kernel run** (`C17.timeout_rule` transferred): when the sleep timeout of a
live `Timer` process is processed, `cwnd` becomes one MSS, `ssthresh` stays, the RTO doubles, exactly that segment is
retransmitted, and its timer is re-armed for the doubled RTO from now. -/
theorem kernel_timeout_rule (cfg : Cfg) (cc : CCState ℚ) (rtt : ℚ) (script : Script) (hs : Setup cfg cc rtt script)
    (fuel : Nat) (s s' : KS) (hreach : KReach (body cfg) (fuel + 1) (initState cc rtt script) s)
    (hstep : (step (body cfg) (fuel + 1) s).state? = some s') :
    ∃ acts outs, runLts (absSender cfg s) acts = .ok (absSender cfg s') outs ∧
      txsOf s'.trace = txsOf s.trace ++ outs.map txPair ∧
      Along (fun S x S' o => ∀ seq, x = .fire seq →
        o = [{ seq := seq, size := S.mss, stamp := S.now, kind := .resend }] ∧ S'.cc.cwnd = S.cc.mss ∧
        S'.cc.ssthresh = S.cc.ssthresh ∧ S'.est.rto = 2 * S.est.rto ∧
        AL.get? seq S'.timers = some { expiry := S.now + 2 * S.est.rto, wake := S.now + 2 * S.est.rto, live := true })
        (absSender cfg s) acts :=
  sender_on_kernel_events_obey _ (fun S x S' o hi _ hst seq hseq => by
    subst hseq
    have hf : S.fireStep seq = .ok S' o := hst
    cases ht : AL.get? seq S.timers with
    | none =>
      unfold Sender.fireStep at hf
      rw [ht] at hf; cases hf
    | some tr =>
      by_cases hdue : tr.live = true ∧ tr.wake = S.now ∧ ¬ S.now < tr.expiry
      · obtain ⟨_, S2, e, r1, _, r3, r4, _, r6, _⟩ := C17.timeout_rule S seq tr hi ht hdue
        rw [hst] at e
        injection e with e1 e2
        subst e1
        exact ⟨e2, r1, r3, r4, r6⟩
      · exfalso
        unfold Sender.fireStep at hf
        rw [ht] at hf
        have hd : (!tr.live || !Num.eqb tr.wake S.now || decide (S.now < tr.expiry)) = true := by
          by_contra hc
          apply hdue
          simp only [Bool.or_eq_true, Bool.not_eq_true', decide_eq_true_eq, not_or, Bool.not_eq_false] at hc
          exact ⟨hc.1.1, (TcpScalar.eqb_iff _ _).mp hc.1.2, hc.2⟩
        simp only [hd, if_true] at hf
        cases hf) cfg cc rtt script hs fuel s s' hreach hstep

/-- **C17 `rto_formula` on kernel runs**: after every new ACK delivered in a kernel step, `srtt' = srtt + (sample − srtt)/8`,
`rttvar' = rttvar + (|sample − srtt| − rttvar)/4` with `sample = now − ack.time`, and `RTO = srtt' + 4·rttvar'`. -/
theorem kernel_rto_formula (cfg : Cfg) (cc : CCState ℚ) (rtt : ℚ) (script : Script) (hs : Setup cfg cc rtt script)
    (fuel : Nat) (s s' : KS) (hreach : KReach (body cfg) (fuel + 1) (initState cc rtt script) s)
    (hstep : (step (body cfg) (fuel + 1) s).state? = some s') :
    ∃ acts outs, runLts (absSender cfg s) acts = .ok (absSender cfg s') outs ∧
      txsOf s'.trace = txsOf s.trace ++ outs.map txPair ∧
      Along (fun S x S' _ => ∀ a, x = .ack a → S.last_ack < a.ackno →
        S'.est.rtt_estimate = srttNext S.est.rtt_estimate (S.now - a.ptime) ∧
        S'.est.est_deviation = varNext S.est.rtt_estimate S.est.est_deviation (S.now - a.ptime) ∧
        S'.est.rto = S'.est.rtt_estimate + 4 * S'.est.est_deviation) (absSender cfg s) acts :=
  sender_on_kernel_events_obey _ (fun S x S' o hi hx hst a ha hnew => by
    subst ha
    obtain ⟨_, S2, e, r⟩ := C17.rto_formula S a hi (ackOk_of_step hx hst) hnew
    rw [hst] at e; cases e; exact r) cfg cc rtt script hs fuel s s' hreach hstep

/-- **C16 `last_ack_monotone` on kernel runs**: at every event of a kernel run of the program - whatever ACK numbers the network
script delivers, in whatever order - the attribute cell `last_ack` does not decrease (each LTS action the step maps to leaves
the acknowledged mark or moves it forward). -/
theorem kernel_last_ack_monotone (cfg : Cfg) (cc : CCState ℚ) (rtt : ℚ) (script : Script) (hs : Setup cfg cc rtt script)
    (fuel : Nat) (s s' : KS) (hreach : KReach (body cfg) (fuel + 1) (initState cc rtt script) s)
    (hstep : (step (body cfg) (fuel + 1) s).state? = some s') :
    ∃ acts outs, runLts (absSender cfg s) acts = .ok (absSender cfg s') outs ∧
      txsOf s'.trace = txsOf s.trace ++ outs.map txPair ∧
      Along (fun S _ S' _ => S.last_ack ≤ S'.last_ack) (absSender cfg s) acts :=
  sender_on_kernel_events_obey _ (fun _ _ _ _ hi hx hst => TcpSender.step_last_ack_mono hi hx hst)
    cfg cc rtt script hs fuel s s' hreach hstep

/-- **C16 `no_spurious_retransmit` on kernel runs**: if the LTS run a kernel run maps to is *timely* (`TimelyRun`: every
delivered ACK acknowledges exactly the next unacknowledged segment - what a loss-free order-preserving path produces - and
the clock never reaches the wake-up instant of a pending timer - every ACK is back before its segment's RTO), then no timer
fired, and the `tx` observations of the kernel trace have strictly increasing sequence numbers: every segment was handed to
`out` exactly once. -/
theorem kernel_no_spurious_retransmit (cfg : Cfg) (cc : CCState ℚ) (rtt : ℚ) (script : Script) (hs : Setup cfg cc rtt script)
    (fuel : Nat) (s : KS) (hreach : KReach (body cfg) (fuel + 1) (initState cc rtt script) s) :
    ∃ acts outs, runLts (Sender.init cfg.kind cc rtt cfg.mss (some cfg.size) 0) acts = .ok (absSender cfg s) outs ∧
      txsOf s.trace = outs.map txPair ∧
      (TimelyRun (Sender.init cfg.kind cc rtt cfg.mss (some cfg.size) 0) acts (absSender cfg s) outs →
        (txsOf s.trace).Pairwise (fun x y => x.1 < y.1) ∧ (∀ seq, Act.fire seq ∉ acts) ∧ (absSender cfg s).dupack = 0) := by
  obtain ⟨acts, outs, hrun, _, htx⟩ := sender_on_kernel_refines_lts cfg cc rtt script hs fuel s hreach
  refine ⟨acts, outs, hrun, htx, fun ht => ?_⟩
  obtain ⟨_, p2, p3, p4, _⟩ := C16.no_spurious_retransmit _ _ acts outs (inv_init _ _ _ _ _ _ hs.cc hs.rtt)
    (C16.init_calm _ _ _ _ _ _) hs.mss ht
  refine ⟨?_, p3, p4⟩
  rw [htx, List.pairwise_map]
  exact p2

/-! ### concrete runs of the kernel model compared with the LTS, evaluated by the kernel of Lean (exact arithmetic) -/

/-- a `TCPReno(mss=512, cwnd=cwnd, ssthresh=65535)` -/
def reno (cwnd : ℚ) : CCState ℚ :=
  { mss := 512, cwnd := cwnd, ssthresh := 65535, W_last_max := 0, epoch_start := 0, origin_point := 0, d_min := 0, W_tcp := 0,
    K := 0, ack_cnt := 0, tcp_friendliness := true, fast_convergence := true, beta := 1/5, C := 2/5, cwnd_cnt := 0, cnt := 0 }

/-- an ACK packet -/
def ack (ackno pid : Nat) (stamp : ℚ) : AckIn ℚ := { fid := 10000, ackno := ackno, pid := pid, ptime := stamp }

/-- a flow of `n` segments of 512 bytes under Reno -/
def flowCfg (n : Nat) : Cfg := { kind := .reno, mss := 512, size := n * 512 }

/-- what a run of at most `n` kernel steps leaves: whether `run()` returned, the transmissions `(seq, instant)`, the final
`last_ack` and `cwnd` -/
def summary (cfg : Cfg) (n : Nat) (s : KState ℚ (SnSt ℚ)) : Option (Bool × List (Nat × ℚ) × Nat × ℚ) :=
  match runAll (body cfg) 1 n s with
  | .returned _ s => some (true, txsOf s.trace, (absSender cfg s).last_ack, (absSender cfg s).cc.cwnd)
  | .outOfFuel s => some (false, txsOf s.trace, (absSender cfg s).last_ack, (absSender cfg s).cc.cwnd)
  | .raised _ _ => none

/-- a loss-free 3-segment flow (round trip 1/5, initial `rtt_estimate` 1): segment 0 at 0, its ACK at 1/5 opens the window to
two segments, their ACKs arrive together at 2/5 -/
def lossFree : KState ℚ (SnSt ℚ) :=
  initState (reno 512) 1 [(1/5, ack 512 0 0), (1/5, ack 1024 512 (1/5)), (0, ack 1536 1024 (1/5))]

example : summary (flowCfg 3) 100 lossFree = some (true, [(0, 0), (512, 1/5), (1024, 1/5)], 1536, 2048) := by decide +kernel

/-- … and every one of its 20 kernel steps is an action sequence the sender LTS accepts between the abstractions of the two
states, with the LTS's transmissions equal to the step's `tx` observations -/
example : refineCheck (flowCfg 3) 100 lossFree 0 = some 20 := by decide +kernel

/-- **a loss recovered by a timeout**: the first transmission of segment 0 is lost; its timer (RTO = 2·`rtt_estimate` = 2)
fires at 2 and retransmits it (`cwnd` back to one segment, RTO doubled: the re-armed timer would fire at 6); the ACK of the
retransmission arrives at 11/5 and the rest of the flow follows -/
def timeoutLoss : KState ℚ (SnSt ℚ) :=
  initState (reno 512) 1 [(11/5, ack 512 0 2), (1/5, ack 1024 512 (11/5)), (0, ack 1536 1024 (11/5))]

example : summary (flowCfg 3) 100 timeoutLoss = some (true, [(0, 0), (0, 2), (512, 11/5), (1024, 11/5)], 1536, 2048) := by
  decide +kernel

example : refineCheck (flowCfg 3) 100 timeoutLoss 0 = some 21 := by decide +kernel

/-- **a loss recovered by fast retransmit**: a 4-segment flow with an initial window of four segments; segment 0 is lost, the
three others produce three duplicate ACKs `0` at 1/5; the third one retransmits segment 0 at 1/5 (long before its timer, due
at 2); the cumulative ACK 2048 arrives at 2/5, deflates the window (`cwnd = ssthresh = 1024`, then `+ MSS`) and ends the flow -/
def fastRetransmit : KState ℚ (SnSt ℚ) :=
  initState (reno 2048) 1 [(1/5, ack 0 512 0), (0, ack 0 1024 0), (0, ack 0 1536 0), (1/5, ack 2048 0 (1/5))]

example : summary (flowCfg 4) 100 fastRetransmit =
    some (true, [(0, 0), (512, 0), (1024, 0), (1536, 0), (0, 1/5)], 2048, 1536) := by decide +kernel

example : refineCheck (flowCfg 4) 100 fastRetransmit 0 = some 21 := by decide +kernel

/-- **an ACK overtaken on the return path**: a 3-segment flow with an initial window of three segments; the ACKs of segments 512
and 1024 (cumulative: 1024, 1536) arrive at 1/5, the ACK of segment 0 (512) was held back and arrives at 6/5, below the
acknowledged mark: `put` returns at once; the mark stays at 1536 and the window at 1536 + 2·512 (the unrepaired code ended this
run with `last_ack = 512`) -/
def overtakenAck : KState ℚ (SnSt ℚ) :=
  initState (reno 1536) 1 [(1/5, ack 1024 512 0), (0, ack 1536 1024 0), (1, ack 512 0 0)]

example : summary (flowCfg 3) 100 overtakenAck = some (true, [(0, 0), (512, 0), (1024, 0)], 1536, 2560) := by decide +kernel

example : refineCheck (flowCfg 3) 100 overtakenAck 0 = some 18 := by decide +kernel

example : Setup (flowCfg 3) (reno 1536) 1 [(1/5, ack 1024 512 0), (0, ack 1536 1024 0), (1, ack 512 0 0)] := by
  refine ⟨⟨by norm_num [reno], by norm_num [reno], by norm_num [reno], fun h => by cases h⟩, by norm_num, by decide, by decide,
    ⟨3, by decide⟩, ?_⟩
  simp only [ScriptOK, ack]
  norm_num

/-- the hypotheses `Setup` of the theorems are met by the three runs above (Reno with `cwnd ≥ mss`, `rtt_estimate = 1`, flows of
3 and 4 segments, scripts with non-negative gaps whose ACKs are stamped in the past of their delivery) … -/
example : Setup (flowCfg 3) (reno 512) 1 [(1/5, ack 512 0 0), (1/5, ack 1024 512 (1/5)), (0, ack 1536 1024 (1/5))] := by
  refine ⟨⟨by norm_num [reno], by norm_num [reno], by norm_num [reno], fun h => by cases h⟩, by norm_num, by decide, by decide,
    ⟨3, by decide⟩, ?_⟩
  simp only [ScriptOK, ack]
  norm_num

example : Setup (flowCfg 4) (reno 2048) 1 [(1/5, ack 0 512 0), (0, ack 0 1024 0), (0, ack 0 1536 0), (1/5, ack 2048 0 (1/5))] := by
  refine ⟨⟨by norm_num [reno], by norm_num [reno], by norm_num [reno], fun h => by cases h⟩, by norm_num, by decide, by decide,
    ⟨4, by decide⟩, ?_⟩
  simp only [ScriptOK, ack]
  norm_num

/-- … and by a CUBIC sender with the constructor defaults of `TCPCubic()` -/
example : Setup { kind := .cubic, mss := 512, size := 5120 } (TCPCubic.defaults : CCState ℚ) (1/5) [(3/10, ack 512 0 0)] := by
  refine ⟨?_, by norm_num, by decide, by decide, ⟨10, by decide⟩, ?_⟩
  · refine ⟨?_, ?_, ?_, fun _ => ⟨?_, ?_⟩⟩ <;> (simp [TCPCubic.defaults]; try norm_num)
  · simp only [ScriptOK, ack]
    norm_num

end C16K
