import OnlVerif.Lemmas.REDKInit
import OnlVerif.Lemmas.REDKRule
import OnlVerif.Props.C08
import OnlVerif.Props.C09
/-!
# C09 / C08 on the kernel: generator → REDPort → sink *as processes on the kernel model* refine the RED LTS

`OnlVerif/Net/REDOnK.lean` writes a real `DistPacketGenerator.run`, `REDPort.put` (the exponentially weighted average in a
cell, `random.uniform` draws from a script, consumed only in the two random regions), the inherited `Port.run` and
`PacketSink.put` as ONE program of the kernel model `K` (`OnlVerif/Kernel`).  Nothing is assumed about scheduling:
`Environment.step` of the kernel model decides what runs when.  The theorems: every kernel step of this program is a
(possibly empty) sequence of actions the FifoServer LTS with the RED configuration (`Net/Fifo.lean`, `Net/Port.lean`:
`admitRed`, `redAvg`, `redDrop`) *accepts*, so the C09 theorems hold of kernel runs; RED's drop rule read off the cells; and
the C08 generator and sink laws hold of kernel runs.

Scope: one generator, one flow, `element_id` of the port falsy, both `limit_bytes` settings, every `rate` (no transmission
delay when `rate ≤ 0`), every `weight_factor`, thresholds and `max_probability` (no ordering assumed unless stated),
`initial_delay ≥ 0`, non-negative gaps (zero gaps = bursts, arrivals exactly at departure instants included), `finish` =
`inf` or any instant, and at least as many scripted uniform draws as gaps (`REDPort.put` takes at most one per packet);
exact rational time; `fuel + 1` = any positive bound of the `_resume` loop.  The modelling devices are listed in the header
of `Net/REDOnK.lean`.
-/

namespace C09K2
open REDOnK REDK

/-- **Refinement, step by step**: let `s` be reachable by kernel steps from the initial state and let the next kernel step
end in `s'`.  Then that step is a normal one (`.ok`: no exception, no stop), and there is a (possibly empty) sequence of LTS
actions that the RED port LTS *accepts* from the abstraction of `s`, that ends exactly in the abstraction of `s'` (the step
commutes with the executable `absRED`), and whose departures are exactly the `out.put` observations the kernel step
appended to the trace.  The draw the LTS packet of arrival `k` carries is, by the definition of `absRED`/`pktOf`, the `k`-th
entry of the ghost log `usOf`, and `red_on_kernel_drop_rule` shows that this entry is the draw the program consumed
(`0` when it consumed none). -/
theorem red_on_kernel_step_refines (c : Cfg ℚ) (gaps : List ℚ) (sizes : List Nat) (us : List ℚ)
    (hg : ∀ x ∈ gaps, 0 ≤ x) (hd : 0 ≤ c.initialDelay) (hu : gaps.length ≤ us.length) (fuel : Nat)
    (s s' : KState ℚ (RSt ℚ))
    (hreach : KReach (body c sizes) (fuel + 1) (initState gaps sizes us) s)
    (hstep : (step (body c sizes) (fuel + 1) s).state? = some s') :
    step (body c sizes) (fuel + 1) s = .ok s' ∧
    ∃ acts ins outs, Fifo.runActs (Port.dev (cfg c)) (absRED c sizes s) acts = .ok (absRED c sizes s', ins, outs) ∧
      (outsOf s'.trace).map (·.1.toNat) = (outsOf s.trace).map (·.1.toNat) ++ outs := by
  obtain ⟨a, _, hi, _⟩ := reach_inv fuel hg hd hu hreach
  cases hp : popMin s.agenda with
  | none => simp [step, hp, StepResult.state?] at hstep
  | some qr =>
    obtain ⟨q, rest⟩ := qr
    obtain ⟨s'', a', new, h1, h2, -, h4, -, -, acts, insI, -, h6⟩ := inv_step fuel hi hp
    rw [h1] at hstep
    simp only [StepResult.state?, Option.some.injEq] at hstep
    subst hstep
    refine ⟨h1, acts, insI.map Int.toNat, (outsV new).map (·.1.toNat), ?_, ?_⟩
    · rw [absRED_eq sizes hi.k, absRED_eq sizes h2.k]; exact h6
    · show (outsV (viewsOf s''.trace)).map _ = (outsV (viewsOf s.trace)).map _ ++ _
      rw [h4]; simp

/-- a concrete run (non-vacuity of every hypothesis: gaps ≥ 0, `initial_delay = 1`, 8 draws for 8 gaps): a burst of four
one-byte packets at `t = 1`, then one per time unit, `rate = 8` (one time unit each), packet-count figures
(`limit_bytes = False`), `weight_factor = 0` (the average is the current figure), `min_th = 1`, `max_th = 2`,
`qlimit = 3`, `max_p = 1/2`, `finish = 4`: the figures at the arrivals are 0, 0, 1, 2, 2, 2, 2, draws are consumed from
the third arrival on, packets 5 and 7 are refused (draws `1/8` and `1/2` ≤ `1/2`), the generator stops at the loop test
at `t = 4`, the sink records the five forwarded packets -/
example : (finalState (runAll (body ({ rate := 8, qlimit := 3, maxTh := 2, minTh := 1, maxP := 1/2, w := 0, limitBytes := false, initialDelay := 1, finish := some 4 } : Cfg ℚ) [1, 1, 1, 1, 1, 1, 1, 1]) 1 37
      (initState [0, 0, 0, 0, 1, 1, 1, 1] [1, 1, 1, 1, 1, 1, 1, 1] [1/4, 3/4, 1/8, 7/8, 1/2, 1/2, 1/2, 1/2]))).map
      (fun s => (s.agenda.length, gensOf s.trace, usOf s.trace, outsOf s.trace)) =
    some (0, [(1, 1), (2, 1), (3, 1), (4, 1), (5, 2), (6, 3), (7, 4)], [0, 0, 1/4, 3/4, 1/8, 7/8, 1/2],
      [(1, 2), (2, 3), (3, 4), (4, 5), (6, 6)]) := by
  decide +kernel

example : (finalState (runAll (body ({ rate := 8, qlimit := 3, maxTh := 2, minTh := 1, maxP := 1/2, w := 0, limitBytes := false, initialDelay := 1, finish := some 4 } : Cfg ℚ) [1, 1, 1, 1, 1, 1, 1, 1]) 1 37
      (initState [0, 0, 0, 0, 1, 1, 1, 1] [1, 1, 1, 1, 1, 1, 1, 1] [1/4, 3/4, 1/8, 7/8, 1/2, 1/2, 1/2, 1/2]))).map
      (fun s => (intsOf "drop" s.trace, cellInt s cReceived, cellInt s cDropped, cellInt s cSinkCnt, cellInt s cSinkBytes)) =
    some ([(5, 2), (7, 4)], 7, 2, 5, 5) := by
  decide +kernel

/-- the same workload with byte figures (`limit_bytes = True`, `qlimit = 3` bytes): the figure counts the packet in
transmission too, the average reaches `qlimit` at the fourth arrival of the burst, which is refused without a draw -/
example : (finalState (runAll (body ({ rate := 8, qlimit := 3, maxTh := 2, minTh := 1, maxP := 1/2, w := 0, limitBytes := true, initialDelay := 1, finish := none } : Cfg ℚ) [1, 1, 1, 1]) 1 21
      (initState [0, 0, 0, 0] [1, 1, 1, 1] [3/4, 3/4, 3/4, 3/4]))).map
      (fun s => (usOf s.trace, outsOf s.trace, intsOf "drop" s.trace, cellInt s cDropped)) =
    some ([0, 3/4, 3/4, 0], [(1, 2), (2, 3), (3, 4)], [(4, 1)], 1) := by
  decide +kernel

/-- **Refinement, whole runs**: every state reachable by kernel steps is the image of an *admissible* run of the RED port
LTS from its initial state: the LTS accepts some action sequence that ends in `absRED s`, in which the departed packets are
the `out.put` observations of the kernel trace, in order; the accepted packets `ins` together with `packets_dropped`
account for `packets_received`. -/
theorem red_on_kernel_refines_lts (c : Cfg ℚ) (gaps : List ℚ) (sizes : List Nat) (us : List ℚ)
    (hg : ∀ x ∈ gaps, 0 ≤ x) (hd : 0 ≤ c.initialDelay) (hu : gaps.length ≤ us.length) (fuel : Nat)
    (s : KState ℚ (RSt ℚ)) (hreach : KReach (body c sizes) (fuel + 1) (initState gaps sizes us) s) :
    ∃ acts ins, Fifo.runActs (Port.dev (cfg c)) (Fifo.init ({ avg := 0 } : PortSt ℚ) 0) acts =
        .ok (absRED c sizes s, ins, (outsOf s.trace).map (·.1.toNat)) ∧
      ins.length + (cellInt s cDropped).toNat = (cellInt s cReceived).toNat := by
  obtain ⟨a, acts, hi, hrun⟩ := reach_inv fuel hg hd hu hreach
  refine ⟨acts, a.accIds.map Int.toNat, ?_, ?_⟩
  · rw [absRED_eq sizes hi.k]; exact hrun
  · have hc1 : cellInt s cReceived = a.recv := cellInt_of hi.k.c1
    have hc4 : cellInt s cDropped = a.dropped := cellInt_of hi.k.c4
    rw [hc1, hc4, List.length_map, Int.toNat_natCast, Int.toNat_natCast]
    exact hi.a.nacc

/-- **`run()` returns**: within `4·n + 5` steps (`n` = the length of the gap script) the kernel model has run both
processes to the end without an exception leaving `step()` (no `TypeError`, no `IndexError` of the draw script, no
negative delay); the agenda and the store are empty, and the generator's packets (`gen` observations with the size the port
and the sink use) are exactly those of the C08 generator model `Gen.run` on the zipped scripts. -/
theorem red_on_kernel_run_returns (c : Cfg ℚ) (gaps : List ℚ) (sizes : List Nat) (us : List ℚ)
    (hg : ∀ x ∈ gaps, 0 ≤ x) (hd : 0 ≤ c.initialDelay) (hu : gaps.length ≤ us.length) (fuel n : Nat)
    (hn : 4 * gaps.length + 5 ≤ n) :
    ∃ sF, runAll (body c sizes) (fuel + 1) n (initState gaps sizes us) = .returned .none sF ∧ sF.agenda = [] ∧
      (sF.res storeId).items = [] ∧
      (gensOf sF.trace).map (fun x => (x.1, x.2, szOf sizes x.1)) =
        (Gen.run 0 c.initialDelay c.finish (gaps.zip sizes)).map fun p => ((p.id : Int), p.time, p.size) := by
  have h0 : Inv c sizes gaps (initState gaps sizes us) (a0 gaps sizes us) := inv_init gaps sizes us hg hd hu
  have hmu : (a0 gaps sizes us).mu < n := by
    simp [A.mu, a0, PPhase.mu, SPhase.mu]; omega
  obtain ⟨sF, aF, h1, h2, h3⟩ := run_returns fuel n _ _ h0 hmu
  have hf := inv_final h2 h3
  refine ⟨sF, h1, h3, ?_, ?_⟩
  · show (sF.res 0).items = []
    rw [h2.k.res]; exact hf.1
  · have := h2.a.gen.law
    rw [hf.2.2.1] at this
    simp only [SPhase.pred, List.map_nil, List.append_nil] at this
    exact this

/-- **C08 generator law on the kernel**: at every reachable kernel state the packets the generator process has emitted so
far (`gen` observations: id, `env.now`, with the size `Port.run` and the sink read for that id) are an initial segment of
the packets of the generator model `Gen.run` — for which `C08.generator_law` says: packet `n` has id `n`, leaves at
`initial_delay + Σ_{i ≤ n} gap_i` with the `n`-th drawn size, and `C08.generator_stops`: nothing is emitted once
`now ≥ finish` at the loop test.  (`red_on_kernel_run_returns`: at the end of `run()` it is the whole list.) -/
theorem generator_on_kernel_law (c : Cfg ℚ) (gaps : List ℚ) (sizes : List Nat) (us : List ℚ)
    (hg : ∀ x ∈ gaps, 0 ≤ x) (hd : 0 ≤ c.initialDelay) (hu : gaps.length ≤ us.length) (fuel : Nat)
    (s : KState ℚ (RSt ℚ)) (hreach : KReach (body c sizes) (fuel + 1) (initState gaps sizes us) s) :
    (∃ rest, (gensOf s.trace).map (fun x => (x.1, x.2, szOf sizes x.1)) ++ rest =
        (Gen.run 0 c.initialDelay c.finish (gaps.zip sizes)).map fun p => ((p.id : Int), p.time, p.size)) ∧
    (gensOf s.trace).length = (cellInt s cReceived).toNat ∧
    ∀ k (hk : k < (gensOf s.trace).length), ∃ hk' : k < (gaps.zip sizes).length,
      ((gensOf s.trace)[k]).1 = (k : Int) + 1 ∧
      ((gensOf s.trace)[k]).2 = (0 + c.initialDelay) + (((gaps.zip sizes).take (k + 1)).map (·.1)).sum ∧
      szOf sizes ((gensOf s.trace)[k]).1 = ((gaps.zip sizes)[k]).2 := by
  obtain ⟨a, _, hi, _⟩ := reach_inv fuel hg hd hu hreach
  have hlaw := hi.a.gen.law
  have hc1 : cellInt s cReceived = a.recv := cellInt_of hi.k.c1
  refine ⟨⟨_, hlaw⟩, by rw [hc1, Int.toNat_natCast]; exact hi.a.gen.ngen, ?_⟩
  intro k hk
  have hk2 : k < (gensV (viewsOf s.trace)).length := hk
  have hlen : k < ((Gen.run 0 c.initialDelay c.finish (gaps.zip sizes)).map gtrip).length := by
    rw [← hlaw]; simp only [List.length_append, List.length_map]
    exact Nat.lt_of_lt_of_le hk (Nat.le_add_right _ _)
  have hlen' : k < (Gen.emit c.finish (0 + c.initialDelay) 0 (gaps.zip sizes)).length := by
    simpa [Gen.run] using hlen
  obtain ⟨hk', h1, h2, h3⟩ := C08.generator_law c.finish (0 + c.initialDelay) 0 (gaps.zip sizes) k hlen'
  have hget : ((gensV (viewsOf s.trace)).map (fun x => (x.1, x.2, szOf sizes x.1)))[k]'(by simpa using hk2) =
      gtrip ((Gen.emit c.finish (0 + c.initialDelay) 0 (gaps.zip sizes))[k]) := by
    have e1 : (((gensV (viewsOf s.trace)).map (fun x => (x.1, x.2, szOf sizes x.1)) ++
        (a.src.pred c).map gtrip))[k]'(by simp; exact Nat.lt_of_lt_of_le hk2 (Nat.le_add_right _ _)) =
        ((Gen.run 0 c.initialDelay c.finish (gaps.zip sizes)).map gtrip)[k] := by
      simp only [hlaw]
    rw [List.getElem_append_left (by simpa using hk2)] at e1
    rw [e1]; simp [Gen.run]
  simp only [List.getElem_map, gtrip, Prod.mk.injEq] at hget
  refine ⟨hk', ?_, ?_, ?_⟩
  · show ((gensV (viewsOf s.trace))[k]).1 = _
    rw [hget.1, h1]; push_cast; ring
  · show ((gensV (viewsOf s.trace))[k]).2 = _
    rw [hget.2.1, h2]
  · show szOf sizes ((gensV (viewsOf s.trace))[k]).1 = _
    rw [hget.2.2, h3]

/-- **C08 sink law on the kernel**: at every reachable kernel state the sink's records are exactly those of the packets the
port forwarded: the `sink` observations are the `out.put` observations (same ids, same instants, same order); the per-flow
counters in cells 7 and 8 are the count and byte count the sink model `Sink.record` computes from these deliveries
(`C08.sink_counts`), i.e. the number of forwarded packets and the sum of their sizes; the recorded arrival instants are the
forwarding instants and the recorded waits are forwarding instant − creation instant (`C08.sink_waits_arrivals`). -/
theorem sink_on_kernel_counts (c : Cfg ℚ) (gaps : List ℚ) (sizes : List Nat) (us : List ℚ)
    (hg : ∀ x ∈ gaps, 0 ≤ x) (hd : 0 ≤ c.initialDelay) (hu : gaps.length ≤ us.length) (fuel : Nat)
    (s : KState ℚ (RSt ℚ)) (hreach : KReach (body c sizes) (fuel + 1) (initState gaps sizes us) s) :
    sinksOf s.trace = outsOf s.trace ∧
    cellInt s cSinkCnt = ((Sink.record {} c.flow (deliveries c sizes s.trace)).count : Int) ∧
    cellInt s cSinkBytes = ((Sink.record {} c.flow (deliveries c sizes s.trace)).bytes : Int) ∧
    (Sink.record {} c.flow (deliveries c sizes s.trace)).count = (outsOf s.trace).length ∧
    (Sink.record {} c.flow (deliveries c sizes s.trace)).bytes = ((outsOf s.trace).map fun x => szOf sizes x.1).sum ∧
    (Sink.record { recArrivals := true, absolute := true, recWaits := true } c.flow (deliveries c sizes s.trace)).arrivals =
      (outsOf s.trace).map (·.2) ∧
    (Sink.record { recArrivals := true, absolute := true, recWaits := true } c.flow (deliveries c sizes s.trace)).waits =
      (outsOf s.trace).map fun x => x.2 - genTime s.trace x.1 := by
  obtain ⟨a, _, hi, _⟩ := reach_inv fuel hg hd hu hreach
  have hsame : sinksOf s.trace = outsOf s.trace := hi.a.sink.same
  have hfil : (deliveries c sizes s.trace).filter (·.key == c.flow) = deliveries c sizes s.trace := by
    apply List.filter_eq_self.mpr
    intro d hd'
    simp only [deliveries, List.mem_map] at hd'
    obtain ⟨x, _, rfl⟩ := hd'
    simp
  have hcnt := C08.sink_counts {} c.flow (deliveries c sizes s.trace)
  have hwa := C08.sink_waits_arrivals c.flow (deliveries c sizes s.trace)
  rw [hfil] at hcnt hwa
  have hlen : (deliveries c sizes s.trace).length = (outsOf s.trace).length := by
    simp [deliveries, hsame]
  have hsum : ((deliveries c sizes s.trace).map (·.size)).sum = ((outsOf s.trace).map fun x => szOf sizes x.1).sum := by
    simp [deliveries, hsame, Function.comp_def]
  have hc7 : cellInt s cSinkCnt = a.scnt := cellInt_of hi.k.c7
  have hc8 : cellInt s cSinkBytes = a.sbytes := cellInt_of hi.k.c8
  have h1 : a.scnt = (outsOf s.trace).length := hi.a.sink.cnt
  have h2 : a.sbytes = ((outsOf s.trace).map fun x => szOf sizes x.1).sum := hi.a.sink.bytes
  refine ⟨hsame, ?_, ?_, ?_, ?_, ?_, ?_⟩
  · rw [hc7, hcnt.1, hlen, h1]
  · rw [hc8, hcnt.2, hsum, h2]
  · rw [hcnt.1, hlen]
  · rw [hcnt.2, hsum]
  · rw [hwa.2]; simp [deliveries, hsame, Function.comp_def]
  · rw [hwa.1]; simp [deliveries, hsame, Function.comp_def]

/-- **RED's drop rule on the kernel, for all workloads and all draw lists.**  Let `s` be reachable and let the next kernel
step end in `s'`; read `packets_received`, `average_queue_size`, `packets_dropped` off the cells (`absDev`), the queue
figure off the `K` store (`byte_size` resp. the real length of `store.items`), the draws still unconsumed off the
generator's local state (`drawsLeft`).  Then the step is either no arrival (counters, average, draw log untouched), or
exactly one arrival, and then: the new average is `redAvg` of the old one and the queue figure at this instant (so over a
run the averages follow the `redAvg` recurrence over the queue figures at the arrival instants); `random.uniform` is
called iff `needsDraw` — i.e. *not* when the average is at/above `qlimit` nor when it is below both thresholds — and then
the script is not empty and exactly its head `u` is consumed (the generator either sleeps again with the tail — resp. the
untouched script when no draw was needed — or has returned); the draw logged for the LTS packet is that `u` (`0` when
none was consumed); the packet is refused (`packets_dropped + 1`, store unchanged) iff `redDrop` of the new average and
`u` says so, otherwise it is appended to the store; at/above `qlimit` it is always refused; below `min_threshold`
(with `min_threshold ≤ max_threshold`, below `qlimit`) never. -/
theorem red_on_kernel_drop_rule (c : Cfg ℚ) (gaps : List ℚ) (sizes : List Nat) (us : List ℚ)
    (hg : ∀ x ∈ gaps, 0 ≤ x) (hd : 0 ≤ c.initialDelay) (hu : gaps.length ≤ us.length) (fuel : Nat)
    (s s' : KState ℚ (RSt ℚ))
    (hreach : KReach (body c sizes) (fuel + 1) (initState gaps sizes us) s)
    (hstep : (step (body c sizes) (fuel + 1) s).state? = some s') :
    let d := absDev s
    let d' := absDev s'
    let avg' := Port.redAvg d.avg (Port.redCur (cfg c) d (s.res storeId).items.length) c.w
    let u := if needsDraw c avg' then (drawsLeft s).headD 0 else 0
    let drop := Port.redDrop (Num.ofNat c.qlimit) c.maxTh c.minTh c.maxP avg' u
    (d'.received = d.received ∧ d'.avg = d.avg ∧ d'.dropped = d.dropped ∧ usOf s'.trace = usOf s.trace) ∨
    (d'.received = d.received + 1 ∧ d'.avg = avg' ∧ usOf s'.trace = usOf s.trace ++ [u] ∧
      (needsDraw c avg' = true → drawsLeft s ≠ []) ∧
      (drawsLeft s' = (if needsDraw c avg' then (drawsLeft s).tail else drawsLeft s) ∨ s'.triggered genProc = true) ∧
      (needsDraw c avg' = false ↔ ((Num.ofNat c.qlimit : ℚ) ≤ avg' ∨ (avg' < c.maxTh ∧ avg' < c.minTh))) ∧
      ((drop = true ∧ d'.dropped = d.dropped + 1 ∧ (s'.res storeId).items = (s.res storeId).items) ∨
       (drop = false ∧ d'.dropped = d.dropped ∧
         (s'.res storeId).items = (s.res storeId).items ++ [((d.received : Int) + 1)])) ∧
      ((Num.ofNat c.qlimit : ℚ) ≤ avg' → drop = true) ∧
      (avg' < c.minTh → c.minTh ≤ c.maxTh → avg' < (Num.ofNat c.qlimit : ℚ) → drop = false)) := by
  intro d d' avg' u drop
  obtain ⟨a, _, hi, _⟩ := reach_inv fuel hg hd hu hreach
  cases hp : popMin s.agenda with
  | none => simp [step, hp, StepResult.state?] at hstep
  | some qr =>
    obtain ⟨q, rest⟩ := qr
    obtain ⟨s'', a', new, h1, h2, -, h4, h3, -, -⟩ := inv_step fuel hi hp
    rw [h1] at hstep
    simp only [StepResult.state?, Option.some.injEq] at hstep
    subst hstep
    have hd0 : d = { byteSize := a.bytes, received := a.recv, dropped := a.dropped, busy := a.busy, busySize := a.bsz, avg := a.avg } :=
      absDev_eq hi.k
    have hd1 : d' = { byteSize := a'.bytes, received := a'.recv, dropped := a'.dropped, busy := a'.busy, busySize := a'.bsz, avg := a'.avg } :=
      absDev_eq h2.k
    have hus : usOf s''.trace = usOf s.trace ++ usV new := by
      show usV (viewsOf s''.trace) = usV (viewsOf s.trace) ++ usV new
      rw [h4]; simp
    have hit0 : (s.res storeId).items = a.items := by show (s.res 0).items = _; rw [hi.k.res]; rfl
    have hit1 : (s''.res storeId).items = a'.items := by show (s''.res 0).items = _; rw [h2.k.res]; rfl
    rcases astep_rule h3 with ⟨r1, r2, r3, r4⟩ | ⟨n, z, gaps', sizes', us', hsrc, hn, r1, r2, r3, r4, r5, r6⟩
    · left
      rw [hd0, hd1, hus, r4]
      exact ⟨r1, r2, r3, by simp⟩
    · right
      have hmin := (isMin_of_pop hi.k hp).1
      have hcur : Port.redCur (cfg c) d (s.res storeId).items.length = (Num.ofNat (curOf c a) : ℚ) := by
        rw [hit0]; exact cur_eq (hi.a.advance hmin) hn d (by rw [hd0])
      have havg : avg' = avgNew c a := by
        show Port.redAvg d.avg (Port.redCur (cfg c) d (s.res storeId).items.length) c.w = _
        rw [hcur, hd0]; rfl
      have hdl : drawsLeft s = us' := drawsLeft_wait hi.k hsrc
      have hu' : u = uAtt c (avgNew c a) us' := by
        show (if needsDraw c avg' then (drawsLeft s).headD 0 else 0) = _
        rw [havg, hdl]; rfl
      have hdrop : drop = dropQ c (avgNew c a) (uAtt c (avgNew c a) us') := by
        show Port.redDrop _ _ _ _ avg' u = _
        rw [havg, hu']; rfl
      have hnr : (n : Int) + 1 = (d.received : Int) + 1 := by
        rw [hd0]
        have := hi.a.gen.sent n (by rw [hsrc]; rfl)
        simp [this]
      refine ⟨by rw [hd0, hd1]; exact r1, by rw [hd1, havg]; exact r2, by rw [hus, r3, hu'], ?_, ?_,
        needsDraw_false_iff avg', ?_, ?_, ?_⟩
      · rw [havg, hdl]; exact r4
      · rcases r5 with ⟨n', z', g', sz', q', hw⟩ | ⟨q', he⟩
        · left
          rw [drawsLeft_wait h2.k hw, havg, hdl]; rfl
        · right; exact triggered_ending h2.k he
      · rcases r6 with ⟨e1, e2, e3⟩ | ⟨e1, e2, e3⟩
        · left; rw [hdrop, hd0, hd1, hit0, hit1]; exact ⟨e1, e2, e3⟩
        · right
          have e3' : a'.items = a.items ++ [((d.received : Int) + 1)] := by rw [e3, hnr]
          rw [hdrop, hd1, hit0, hit1]
          refine ⟨e1, ?_, e3'⟩
          rw [hd0]; exact e2
      · intro h; exact C09.red_always_drops_at_limit _ _ _ _ _ _ h
      · intro h1' h2' h3'; exact C09.red_never_drops_below_min _ _ _ _ _ _ h1' h2' h3'

/-- **Corollary (C09 `fifo_and_conservation` on the kernel, with RED drops)**: at every reachable kernel state the packets
the RED LTS image has accepted so far (`ins`: as many as `packets_received − packets_dropped`) are, in order, exactly the
packets logged by `out.put` followed by the packets the port holds (handed over / in transmission / waiting in the store):
FIFO, nothing accepted is lost, nothing duplicated. -/
theorem kernel_red_fifo_and_conservation (c : Cfg ℚ) (gaps : List ℚ) (sizes : List Nat) (us : List ℚ)
    (hg : ∀ x ∈ gaps, 0 ≤ x) (hd : 0 ≤ c.initialDelay) (hu : gaps.length ≤ us.length) (fuel : Nat)
    (s : KState ℚ (RSt ℚ)) (hreach : KReach (body c sizes) (fuel + 1) (initState gaps sizes us) s) :
    ∃ ins : List Nat, ins.length + (cellInt s cDropped).toNat = (cellInt s cReceived).toNat ∧
      ins = (outsOf s.trace).map (·.1.toNat) ++ Fifo.held (absRED c sizes s) := by
  obtain ⟨acts, ins, h, h2⟩ := red_on_kernel_refines_lts c gaps sizes us hg hd hu fuel s hreach
  have := (Fifo.run_conserves (Port.dev (cfg c)) (Port.idPreserving _) acts _ _ _ _ (Fifo.init_shape _ _) h).1
  exact ⟨ins, h2, by simpa [Fifo.init_held] using this⟩

/-- **Corollary (C09 `byte_occupancy_eq_held` on the kernel)**: at every reachable kernel state the attribute `byte_size`
(shared cell 0) equals the bytes of the packets the RED port holds. -/
theorem kernel_red_occupancy_eq_held (c : Cfg ℚ) (gaps : List ℚ) (sizes : List Nat) (us : List ℚ)
    (hg : ∀ x ∈ gaps, 0 ≤ x) (hd : 0 ≤ c.initialDelay) (hu : gaps.length ≤ us.length) (fuel : Nat)
    (s : KState ℚ (RSt ℚ)) (hreach : KReach (body c sizes) (fuel + 1) (initState gaps sizes us) s) :
    cellInt s cByteSize = Port.heldBytes (absRED c sizes s) := by
  obtain ⟨acts, ins, h, -⟩ := red_on_kernel_refines_lts c gaps sizes us hg hd hu fuel s hreach
  have := (Port.run_inv (cfg c) acts _ _ _ _ (Port.init_inv _ 0) h).bytes
  rw [absRED_dev] at this
  exact this

end C09K2
