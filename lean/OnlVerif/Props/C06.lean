import OnlVerif.Lemmas.ResStep
import OnlVerif.Lemmas.ConserveExamples
import OnlVerif.Lemmas.StrandStep
import OnlVerif.Lemmas.StrandDemo
/-!
# C06 — resources never exceed capacity, grant in queue order, never idle a slot

Model: the resource part of the kernel model `K` (`OnlVerif/Kernel/Ops.lean`: `Put/Get.__init__`,
`_trigger_put/_trigger_get`, `Resource/PriorityResource/PreemptiveResource._do_put/_do_get`, `SortedQueue`,
`cancel`).  The global theorems hold for every program (`σ`, `body`) and every reachable state.
-/

namespace C06
variable {σ : Type}

/-- **At every instant a Resource has at most `capacity` users** — in every state any program can reach, after
any mixture of request / release / cancel / with-exit / preemption. -/
theorem users_le_capacity (body : σ → Resume → Burst ℚ σ) (fuel : Nat) (s0 s : KState ℚ σ)
    (h0 : ResInv s0) (hr : KReach body fuel s0 s) (r : ResId) (c : Nat)
    (hk : isResKind (s.res r).kind = true) (hc : (s.res r).capacity = some c) :
    (s.res r).users.length ≤ c :=
  (reach_resInv body fuel s0 s h0 hr).users r c hk hc

/-- the initial environment (resources without users, nothing queued) satisfies the invariant -/
theorem init_resInv (t0 : ℚ) (rs : Array ResRec)
    (h : ∀ r, (rs.getD r default).users = [] ∧ (rs.getD r default).items = [] ∧
      ((rs.getD r default).kind = .container → 0 ≤ (rs.getD r default).level ∧
        ∀ c, (rs.getD r default).capacity = some c → (rs.getD r default).level ≤ (c : Int))) :
    ResInv ({ now := t0, resources := rs } : KState ℚ σ) := by
  refine ⟨?_, ?_, ?_, ?_⟩
  · intro r c _ _; show ((rs.getD r default).users).length ≤ c; rw [(h r).1]; simp
  · intro r hk; exact (h r).2.2 hk
  · intro r c _ _; show ((rs.getD r default).items).length ≤ c; rw [(h r).2.1]; simp
  · intro e rq he
    have : (({ now := t0, resources := rs } : KState ℚ σ).ev e) = default := by simp [KState.ev]
    rw [this] at he; cases he

/-- **A request is granted exactly when a slot is free** (`Resource._do_put`), and the grant records the
current time as `usage_since`. -/
theorem grant_iff_free_slot (s : KState ℚ σ) (r : ResId) (e : EvId) (hk : (s.res r).kind = .resource) :
    (doPut s r e).2 = hasRoom (s.res r).capacity (s.res r).users.length := by
  unfold doPut prePut
  simp only [hk]
  have : (ResKind.resource == ResKind.preemptive) = false := by decide
  simp only [this, Bool.false_eq_true, if_false]
  unfold canPut
  simp only [hk]
  split <;> simp_all

/-- **Queue order**: `_trigger_put` stops at the first request that cannot be granted, so a later-ranked request is
never granted ahead of an earlier-ranked one that is still waiting. -/
theorem scan_stops_at_first_blocked (r : ResId) (e : EvId) (rest : List EvId) (s : KState ℚ σ)
    (hb : canPut (prePut s r e) r e = false) (hu : (prePut s r e).triggered e = false) :
    scanPut r (e :: rest) s = prePut s r e := by
  unfold scanPut doPut
  simp only [hb, Bool.false_eq_true, if_false, hu]

/-- **Releasing twice, or releasing a non-user, is harmless**: the release always succeeds and removes the
request from the users only if it is there. -/
theorem release_harmless (s : KState ℚ σ) (r : ResId) (e : EvId) (hk : isResKind (s.res r).kind = true)
    (hin : r < s.resources.size) (hn : (reqOf s e).releaseOf ∉ (s.res r).users) :
    (doGet s r e).2 = true ∧ ((doGet s r e).1.res r).users = (s.res r).users := by
  rw [doGet_resKind s r e hk]
  refine ⟨rfl, ?_⟩
  show ((s.setUsers r _).res r).users = _
  unfold KState.setUsers
  rw [KState.res_setRes, if_pos ⟨rfl, hin⟩]
  exact List.erase_of_not_mem hn

/-- **Preemption rule**: a preempting request evicts the worst-ranked user only if that user ranks strictly worse;
otherwise the users are left alone. -/
theorem preempt_only_strictly_worse (s : KState ℚ σ) (r : ResId) (e w : EvId)
    (hw : worstUser s (s.res r).users = some w) (hnot : keyLt (reqOf s e) (reqOf s w) = false) :
    preemptStep s r e = s := by
  unfold preemptStep
  simp only [hw, hnot, Bool.false_eq_true, if_false]
  split <;> rfl

/-- **The evicted process receives `Interrupt(Preempted(by, usage_since, resource))`** and its slot is freed in the
same burst, so the common `_do_put` that follows can hand it to the preemptor. -/
theorem preempt_evicts_and_interrupts (s : KState ℚ σ) (r : ResId) (e w vp : EvId) (c : Nat)
    (hc : (s.res r).capacity = some c) (hfull : c ≤ (s.res r).users.length) (hp : (reqOf s e).preempt = true)
    (hw : worstUser s (s.res r).users = some w) (hlt : keyLt (reqOf s e) (reqOf s w) = true)
    (hproc : (reqOf s w).proc = some vp) :
    preemptStep s r e =
      (mkInterrupt (s.setUsers r ((s.res r).users.erase w)) vp (.preempted (reqOf s e).proc w r)).1 := by
  unfold preemptStep
  simp only [hc, Option.any_some, hfull, decide_true, hp, Bool.and_self, if_true, hw, hlt, hproc]

/-! ## ---- begin: "never strand a request" (global theorems, builder b-strand) ----

Vocabulary (defined in `Lemmas/StrandDefs.lean`):
* `AboutToAdvance s` — the agenda of `s` is empty or its next entry (`popMin`) is due strictly later than `s.now`;
* `SInv s` — the invariant: structural well-formedness of queues/agenda plus, for every resource, "the head of the put
  (get) queue is blocked, or a rescan `_trigger_put` (`_trigger_get`) is pending at the current instant";
* `DReach body fuel s0 s` — `s` is reachable from `s0` by kernel steps of the program `body`, each step satisfying the
  domain hypothesis `stepDom`: no process calls `succeed()/fail()` on a non-existent event or on a request that is still
  waiting in a queue (such a call makes the real `_trigger_put` drop the request and stop the scan, after which the
  property is false; it is outside "process programs using request / release / cancel / with");
* `NoTrigCalls b` — the burst `b` contains no `succeed()/fail()` call at all (static sufficient condition). -/

/-- **After a complete `_trigger_put` scan the oldest waiting request cannot be granted** (no free slot, and for a
`PreemptiveResource` nobody it could evict): the scan grants from the head and stops only at a request that
`_do_put` refuses; granted requests leave the queue.  `Pkg s none` is the structural part of the invariant (queued
requests are untriggered, unprocessed request events of this resource; queues without repetitions; users within
capacity); it holds in every reachable state (`strand_invariant_reachable`). -/
theorem scan_leaves_head_blocked (s : KState ℚ σ) (r : ResId) (h : Pkg s none) (e : EvId)
    (he : ((triggerPut s r).res r).putQ.head? = some e) :
    canPut (prePut (triggerPut s r) r e) r e = false :=
  (triggerPut_post h r).2.2.2.1 e he

/-- **The invariant holds in every state every program can reach** (inside the domain): whenever the oldest waiting
request of a resource could be granted, a rescan of its queue is pending *at the current instant* — an unprocessed
event (a `Release`, or any `Get`) that is in the agenda with `time = now` and carries `_trigger_put` of this resource.
Covers release, cancel, `with`-exit, eviction, for all three resource classes (and containers/stores). -/
theorem free_slot_implies_rescan_pending (body : σ → Resume → Burst ℚ σ) (fuel : Nat) (s0 s : KState ℚ σ)
    (h0 : SInv s0) (hr : DReach body fuel s0 s) (r : ResId) (e : EvId)
    (he : (s.res r).putQ.head? = some e) (hfree : canPut (prePut s r e) r e = true) :
    ∃ q ∈ s.agenda, q.time = s.now ∧ ∃ l, (s.ev q.ev).cbs = some l ∧ Cb.trigPut r ∈ l := by
  have h := reach_sinv body fuel s0 s h0 hr
  rcases (h.j.main r).1 with hb | hp
  · have := hb e he
    unfold putOk at this
    rw [this] at hfree; cases hfree
  · rcases hp with hp | hp
    · cases hp
    · exact hp

/-- **Whenever the clock is about to advance, no request is waiting while a slot is free**: for every program, in every
reachable state whose next agenda entry lies strictly in the future (or whose agenda is empty), the head of every put
queue is a request `_do_put` would refuse in this very state. -/
theorem no_idle_slot_at_advance (body : σ → Resume → Burst ℚ σ) (fuel : Nat) (s0 s : KState ℚ σ)
    (h0 : SInv s0) (hr : DReach body fuel s0 s) (ha : AboutToAdvance s) (r : ResId) (e : EvId)
    (he : (s.res r).putQ.head? = some e) : canPut (prePut s r e) r e = false :=
  (sinv_advance (reach_sinv body fuel s0 s h0 hr) ha r).1 e he

/-- **… in plain words for `Resource`, `PriorityResource`, `PreemptiveResource`**: if somebody is still queued when the
clock advances, then all `capacity` slots are taken. -/
theorem queue_nonempty_at_advance_implies_full (body : σ → Resume → Burst ℚ σ) (fuel : Nat) (s0 s : KState ℚ σ)
    (h0 : SInv s0) (hr : DReach body fuel s0 s) (ha : AboutToAdvance s) (r : ResId)
    (hk : isResKind (s.res r).kind = true) (hq : (s.res r).putQ ≠ []) :
    ∃ c, (s.res r).capacity = some c ∧ (s.res r).users.length = c := by
  have h := reach_sinv body fuel s0 s h0 hr
  obtain ⟨e, rest, hqe⟩ := List.exists_cons_of_ne_nil hq
  have hb : putOk s r e = false := (sinv_advance h ha r).1 e (by rw [hqe]; rfl)
  have hpre := prePut_eq_of_blocked h.j.pkg r e hb
  unfold putOk at hb
  rw [hpre] at hb
  have hroom : hasRoom (s.res r).capacity (s.res r).users.length = false := by
    unfold canPut at hb
    unfold isResKind at hk
    cases hkk : (s.res r).kind <;> simp only [hkk] at hb hk <;> first | exact hb | exact absurd hk (by decide)
  cases hc : (s.res r).capacity with
  | none => rw [hc] at hroom; cases hroom
  | some c =>
    refine ⟨c, rfl, ?_⟩
    have hle := h.j.pkg.usersLe r c hk hc
    rw [hc, hasRoom_some] at hroom
    simp only [decide_eq_false_iff_not, not_lt] at hroom
    omega

/-- **A release never waits**: when the clock is about to advance the get queue (the `Release` events) of every
resource is empty — each release was handled within the instant it was issued. -/
theorem releases_done_at_advance (body : σ → Resume → Burst ℚ σ) (fuel : Nat) (s0 s : KState ℚ σ)
    (h0 : SInv s0) (hr : DReach body fuel s0 s) (ha : AboutToAdvance s) (r : ResId)
    (hk : isResKind (s.res r).kind = true) : (s.res r).getQ = [] := by
  have hg := (sinv_advance (reach_sinv body fuel s0 s h0 hr) ha r).2.1
  cases hq : (s.res r).getQ with
  | nil => rfl
  | cons e rest =>
    exfalso
    have := hg e (by rw [hq]; rfl)
    unfold getItem at this
    unfold isResKind at hk
    cases hkk : (s.res r).kind <;> simp only [hkk] at this hk <;> first | cases this | exact absurd hk (by decide)

/-- **For programs that never call `succeed()/fail()` the domain hypothesis is automatic**: the theorem then speaks
about plain reachability `KReach` (the relation of `users_le_capacity`). -/
theorem no_idle_slot_at_advance_static (body : σ → Resume → Burst ℚ σ) (hb : ∀ st rs, NoTrigCalls (body st rs))
    (fuel : Nat) (s0 s : KState ℚ σ) (h0 : SInv s0) (hr : KReach body fuel s0 s) (ha : AboutToAdvance s)
    (r : ResId) (e : EvId) (he : (s.res r).putQ.head? = some e) : canPut (prePut s r e) r e = false :=
  no_idle_slot_at_advance body fuel s0 s h0 (dreach_of_noTrig body hb fuel s0 s hr) ha r e he

/-- **The invariant `SInv` holds in every state every program can reach** (inside the domain); in particular its
structural part `Pkg s none`, which is what the scan post-conditions need. -/
theorem strand_invariant_reachable (body : σ → Resume → Burst ℚ σ) (fuel : Nat) (s0 s : KState ℚ σ)
    (h0 : SInv s0) (hr : DReach body fuel s0 s) : SInv s ∧ Pkg s none :=
  ⟨reach_sinv body fuel s0 s h0 hr, (reach_sinv body fuel s0 s h0 hr).j.pkg⟩

/-- **`run(until=number)` and `run(until=event)` enter their step loop in a state satisfying the invariant** whenever
they are called in one (the sentinel event / the `StopSimulation` callback do not disturb it), so the theorems cover
every split plan of `run` / `step` calls. -/
theorem strand_invariant_at_run_start (s : KState ℚ σ) (h : SInv s) :
    (∀ at_ : ℚ, s.now < at_ →
      SInv ((((s.newEv { kind := .sentinel, cbs := some [], out := some (.ok .none) }).1.scheduleAt s.events.size URGENT
        at_)).addCb s.events.size .stop)) ∧
    (∀ e, SInv (s.addCb e .stop)) :=
  ⟨fun at_ h1 => sinv_untilTime_start h at_ h1, fun e => sinv_untilEvent_start h e⟩

/-- **The invariant holds initially**: in a fresh environment (nothing scheduled, resources idle), and it survives the
API calls that set a run up (`env.process(...)`, `resource.request()` …), so `SInv s0` is satisfiable by every
start state the harness uses. -/
theorem strand_invariant_initially (t0 : ℚ) (rs : Array ResRec)
    (h : ∀ r, (rs.getD r default).putQ = [] ∧ (rs.getD r default).getQ = [] ∧ (rs.getD r default).users = [])
    (setup : List (Call ℚ σ)) (hs : ∀ c ∈ setup, (∀ e v, c ≠ .succeed e v) ∧ (∀ e x, c ≠ .fail e x)) :
    SInv (setup.foldl (fun s c => (doCall s 0 c).1) ({ now := t0, resources := rs } : KState ℚ σ)) := by
  have base : SInv ({ now := t0, resources := rs } : KState ℚ σ) := sinv_init t0 rs h
  generalize ({ now := t0, resources := rs } : KState ℚ σ) = s at base
  induction setup generalizing s with
  | nil => exact base
  | cons c cs ih =>
    simp only [List.foldl_cons]
    refine ih (fun c' hc' => hs c' (List.mem_cons_of_mem _ hc')) _ ?_
    exact doCall_sinv base 0 c (callDom_of_noTrig s c (hs c List.mem_cons_self).1 (hs c List.mem_cons_self).2)

/-! non-vacuity of the block above: a capacity-1 `Resource` with one user (event 0, granted and processed) and one
queued request (event 1) at a moment when nothing is scheduled: the invariant holds, the clock is about to advance,
the queue is not empty — and indeed the slot is taken. -/
example :
    let s : KState ℚ Unit :=
      { now := 0,
        events := #[{ kind := .put 0, cbs := none, out := some (.ok .none), req := some { res := 0, time := 0 } },
                    { kind := .put 0, cbs := some [.trigGet 0], out := none, req := some { res := 0, time := 0 } }],
        resources := #[{ kind := .resource, capacity := some 1, users := [0], putQ := [1] }] }
    SInv s ∧ AboutToAdvance s ∧ (s.res 0).putQ = [1] ∧ canPut (prePut s 0 1) 0 1 = false := by
  intro s
  have hev : ∀ x, s.ev x = if x = 0 then
        { kind := .put 0, cbs := none, out := some (.ok .none), req := some { res := 0, time := 0 } }
      else if x = 1 then
        { kind := .put 0, cbs := some [.trigGet 0], out := none, req := some { res := 0, time := 0 } }
      else default := by
    intro x
    match x with
    | 0 => rfl
    | 1 => rfl
    | n + 2 => simp [s, KState.ev]
  have hres : ∀ r, s.res r = if r = 0 then { kind := .resource, capacity := some 1, users := [0], putQ := [1] }
      else default := by
    intro r
    match r with
    | 0 => rfl
    | n + 1 => simp [s, KState.res]
  have hblocked : canPut (prePut s 0 1) 0 1 = false := by
    rw [prePut_of_ne s 0 1 (by rw [hres]; simp)]
    unfold canPut; rw [hres]; rfl
  refine ⟨⟨⟨(by intro q hq; cases hq), (by intro q hq; cases hq), List.Pairwise.nil⟩, ⟨⟨?_, ?_, ?_, ?_, ?_, ?_, ?_, ?_, ?_⟩, ?_, ?_⟩⟩,
    (by intro q rest hq; cases hq), (by rw [hres]; rfl), hblocked⟩
  · intro q hq; cases hq
  · intro p hp; exact absurd rfl hp
  · intro x l c hl hm
    rw [hev] at hl
    split at hl
    · cases hl
    · split at hl
      · simp only [Option.some.injEq] at hl; subst hl; simp at hm
      · cases hl
  · intro r e hm
    rw [hres] at hm
    split at hm
    · rename_i hr; subst hr
      simp only [List.mem_singleton] at hm; subst hm
      rw [hev]; exact ⟨rfl, Or.inl rfl, [.trigGet 0], rfl, List.mem_singleton.mpr rfl⟩
    · cases hm
  · intro r e hm
    rw [hres] at hm
    split at hm <;> cases hm
  · intro r; rw [hres]; split
    · simp
    · exact List.nodup_nil
  · intro r; rw [hres]; split <;> exact List.nodup_nil
  · intro r w hm
    rw [hres] at hm
    split at hm
    · simp only [List.mem_singleton] at hm; subst hm; show 0 < 2; decide
    · cases hm
  · intro r c hk hc
    by_cases hr : r = 0
    · subst hr
      rw [hres] at hc ⊢
      simp only [if_true, Option.some.injEq] at hc ⊢
      subst hc; simp
    · rw [hres, if_neg hr]; exact Nat.zero_le _
  · intro c hc; cases hc
  · intro r
    refine ⟨Or.inl ?_, Or.inl ⟨?_, ?_⟩⟩
    · intro e he
      rw [hres] at he
      split at he
      · rename_i hr; subst hr
        simp only [List.head?_cons, Option.some.injEq] at he; subst he
        exact hblocked
      · cases he
    · intro e he
      rw [hres] at he
      split at he <;> cases he
    · intro _ e he
      rw [hres] at he
      split at he <;> cases he

/-! non-vacuity by a run (`Lemmas/StrandDemo.lean`): two processes `request → hold 5 → release` on a capacity-1
`Resource`; after three kernel steps of the model the first one holds the slot and sleeps, the second one is queued, the
only agenda entry is the timeout at 5.  All hypotheses of the theorems above hold, and the conclusion is not empty. -/
example : SInv Demo.resS0 ∧ DReach Demo.resBody 3 Demo.resS0 Demo.resS3 ∧ AboutToAdvance Demo.resS3 ∧
    (Demo.resS3.res 0).putQ ≠ [] ∧ ∃ c, (Demo.resS3.res 0).capacity = some c ∧ (Demo.resS3.res 0).users.length = c := by
  have hq : (Demo.resS3.res 0).putQ ≠ [] := by
    intro h
    have := Demo.resS3_queue.1
    rw [h] at this; cases this
  exact ⟨Demo.resS0_sinv, Demo.resS3_reach, Demo.resS3_advance, hq,
    queue_nonempty_at_advance_implies_full _ 3 _ _ Demo.resS0_sinv Demo.resS3_reach Demo.resS3_advance 0
      Demo.resS3_queue.2 hq⟩

/-! ## ---- end: "never strand a request" ---- -/

/-! non-vacuity: a capacity-1 resource satisfies the initial invariant -/
example : ResInv ({ now := 0, resources := #[{ kind := .resource, capacity := some 1 }] } : KState ℚ Unit) := by
  apply init_resInv
  intro r
  by_cases h : r = 0
  · subst h; simp
  · have : (#[({ kind := .resource, capacity := some 1 } : ResRec)].getD r default) = default := by
      simp [Array.getD, show ¬ r < 1 by omega]
    rw [this]; simp [default]

section ConserveBlock
open Conserve

/-! ## ===== b-conserve: global queue-order theorems (whole runs, every program) — BEGIN =====

Vocabulary (`Lemmas/Conserve*.lean`).  A request event is *granted* exactly when it is triggered (`out ≠ none`).
`WF s0`: the initial state is well-formed (`WF.init`: every fresh environment is).  `SafeReach body fuel s s'`: `s'` is
reachable from `s` by kernel steps of program `body` during which no `succeed`/`fail` call of the program targets a
request event (outside the domain: the real `_do_put` then raises "already triggered"); every run of a program that never
calls `succeed`/`fail` qualifies (`safeReach_of_noTrig`).  `Before l a b`: `a` stands before `b` in the list `l`.
`rankLt s prio a b`: `a` ranks strictly before `b` — creation order (event ids) for `Resource`; for the two priority
classes (`prio = true`) the key `(priority, request time, preempting-first)` compared as Python compares the tuple,
then creation order.  `AUnit t t'`: one atomic unit of the model (bookkeeping, a fresh event, an outcome written to a
non-request event, `grantPut`, `grantGet`, `newPut`, `newGet`, `cancelPut`, `cancelGet`), each with the guard under which
the model executes it; `UnitSeq`: finite sequences of units. -/

/-- **The request queue is always sorted by rank** — arrival order for `Resource`; (priority, request time,
preempting-first, arrival) for `PriorityResource` and `PreemptiveResource` — **and holds only waiting (untriggered)
requests of this resource, each once**, in every state any program can reach. -/
theorem queue_sorted_by_rank (body : σ → Resume → Burst ℚ σ) (fuel : Nat) (s0 s : KState ℚ σ)
    (hW : WF s0) (hS : QSorted s0) (hr : SafeReach body fuel s0 s) (r : ResId) :
    (s.res r).putQ.Pairwise (rankLt s (isPrioKind (s.res r).kind)) ∧ (s.res r).putQ.Nodup ∧
    ∀ e ∈ (s.res r).putQ, (s.ev e).kind = .put r ∧ (s.ev e).out = none :=
  have hWs := (reach_base body fuel s0 s hW hr).2
  ⟨((reach_queue body fuel s0 s hW hr).2 hS).put r, hWs.putNodup r, hWs.putQ r⟩

/-- **Requests are granted in queue order, along whole runs**: if `a` stands before `b` in the queue in some reachable
state `s`, then in every later state `s'` in which `b` has been granted, `a` has been granted too — or was cancelled
(it left the queue without being granted; it then is never granted). -/
theorem granted_in_queue_order (body : σ → Resume → Burst ℚ σ) (fuel : Nat) (s0 s s' : KState ℚ σ)
    (hW : WF s0) (hr0 : SafeReach body fuel s0 s) (hr : SafeReach body fuel s s') (r : ResId) (a b : EvId)
    (hab : Before (s.res r).putQ a b) (hb : (s'.ev b).out ≠ none) :
    (s'.ev a).out ≠ none ∨ (a ∉ (s'.res r).putQ ∧ (s'.ev a).out = none) :=
  have hWs := (reach_base body fuel s0 s hW hr0).2
  ((reach_queue body fuel s s' hWs hr).1.put r).order trivial a b hab hb

/-- **A later-ranked request is never granted ahead of an earlier-ranked waiting one**: for two waiting requests with
`a` ranked strictly before `b` (rank as in `queue_sorted_by_rank`), whenever `b` has been granted later on, `a` has been
granted as well, unless it was cancelled. -/
theorem never_granted_ahead_of_earlier_ranked (body : σ → Resume → Burst ℚ σ) (fuel : Nat) (s0 s s' : KState ℚ σ)
    (hW : WF s0) (hS : QSorted s0) (hr0 : SafeReach body fuel s0 s) (hr : SafeReach body fuel s s') (r : ResId) (a b : EvId)
    (ha : a ∈ (s.res r).putQ) (hbq : b ∈ (s.res r).putQ) (hrank : rankLt s (isPrioKind (s.res r).kind) a b)
    (hb : (s'.ev b).out ≠ none) :
    (s'.ev a).out ≠ none ∨ (a ∉ (s'.res r).putQ ∧ (s'.ev a).out = none) := by
  have hsorted := ((reach_queue body fuel s0 s hW hr0).2 hS).put r
  have hab : Before (s.res r).putQ a b := before_of_rel (fun _ _ h => rankLt_asymm h) hsorted ha hbq hrank
  exact granted_in_queue_order body fuel s0 s s' hW hr0 hr r a b hab hb

/-- **Waiting requests keep their relative order, and a cancelled request never comes back**: the other two clauses of
the order relation between any two states of a run. -/
theorem queue_order_is_stable (body : σ → Resume → Burst ℚ σ) (fuel : Nat) (s0 s s' : KState ℚ σ)
    (hW : WF s0) (hr0 : SafeReach body fuel s0 s) (hr : SafeReach body fuel s s') (r : ResId) :
    (∀ a b, Before (s.res r).putQ a b → a ∈ (s'.res r).putQ → b ∈ (s'.res r).putQ → Before (s'.res r).putQ a b) ∧
    (∀ a, (s.ev a).kind = .put r → a ∉ (s.res r).putQ → (s.ev a).out = none →
      a ∉ (s'.res r).putQ ∧ (s'.ev a).out = none) :=
  have hWs := (reach_base body fuel s0 s hW hr0).2
  have h := (reach_queue body fuel s s' hWs hr).1.put r
  ⟨h.keep, h.dead⟩

/-- **Every run is a finite sequence of atomic units** (so statements about "the moment of a grant" make sense). -/
theorem run_is_unit_sequence (body : σ → Resume → Burst ℚ σ) (fuel : Nat) (s0 s : KState ℚ σ)
    (hW : WF s0) (hr : SafeReach body fuel s0 s) : UnitSeq s0 s :=
  reach_units body fuel s0 s hW hr

/-- **Requests are granted one by one, each while it is the first of the queue**: the only atomic unit that triggers a
waiting request `e` of resource `r` is `_do_put` on `e`, executed while `e` is the head of the queue and a slot is free
(`canPut`, evaluated after the eviction step of a `PreemptiveResource`). -/
theorem request_granted_only_at_head (t t' : KState ℚ σ) (h : AUnit t t') (r : ResId) (e : EvId)
    (hk : (t.ev e).kind = .put r) (ho : (t.ev e).out = none) (ho' : (t'.ev e).out ≠ none) :
    ∃ rest, (t.res r).putQ = e :: rest ∧ canPut t r e = true ∧ t' = grantPutSt t r e :=
  h.grant_put hk ho ho'

/-- **Along every run, every granted request was first in the queue at the moment of its grant**: if `e` waits in a
reachable state `s` and has been granted in a later state `s'`, the run passed (`UnitSeq`) through a state `t` in
which `e` headed the queue and a slot was free, and continued from the state `_do_put` produced. -/
theorem every_grant_was_at_head (body : σ → Resume → Burst ℚ σ) (fuel : Nat) (s0 s s' : KState ℚ σ)
    (hW : WF s0) (hr0 : SafeReach body fuel s0 s) (hr : SafeReach body fuel s s') (r : ResId) (e : EvId)
    (hk : (s.ev e).kind = .put r) (ho : (s.ev e).out = none) (ho' : (s'.ev e).out ≠ none) :
    ∃ t rest, UnitSeq s t ∧ UnitSeq (grantPutSt t r e) s' ∧ (t.res r).putQ = e :: rest ∧ canPut t r e = true ∧
      (t.ev e).out = none :=
  have hWs := (reach_base body fuel s0 s hW hr0).2
  (reach_units body fuel s s' hWs hr).grant_put_moment hk ho ho'

/-! non-vacuity: `PriorityResource(capacity=1)`; requests with priorities 2 (granted at once), 1, 0, 1, then release of
the first.  The queue is `[prio 0, prio 1 (older), prio 1 (newer)]` = events `[4, 3, 5]`; two kernel steps later the
release has been processed and the priority-0 request (event 4, created after event 3) has been granted first. -/
example : WF ExPrio.s0 ∧ QSorted ExPrio.s0 ∧ SafeReach ExPrio.body 5 ExPrio.s0 ExPrio.s1 ∧
    SafeReach ExPrio.body 5 ExPrio.s1 ExPrio.s3 :=
  ⟨ExPrio.wf0, ExPrio.sorted0, ExPrio.reach1, ExPrio.reach13⟩
example : (ExPrio.s1.res 0).putQ = [4, 3, 5] ∧ (ExPrio.s3.res 0).putQ = [3, 5] ∧ (ExPrio.s3.res 0).users = [4] ∧
    ExPrio.s3.triggered 4 = true ∧ ExPrio.s3.triggered 3 = false := by decide +kernel
example : Before [4, 3, 5] 4 3 := by unfold Before; decide
example : rankLt ExPrio.s1 true 4 3 := by
  unfold rankLt; simp only [if_true]; left; decide +kernel

/-! ## ===== b-conserve — END ===== -/
end ConserveBlock

end C06
