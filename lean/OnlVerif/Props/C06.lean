import OnlVerif.Lemmas.ResStep
/-!
# C06 — resources never exceed capacity, grant in queue order, never idle a slot

Model: the resource part of the kernel model `K` (`OnlVerif/Kernel/Ops.lean`: `Put/Get.__init__`,
`_trigger_put/_trigger_get`, `Resource/PriorityResource/PreemptiveResource._do_put/_do_get`, `SortedQueue`,
`cancel`).  The global theorems hold for every program (`σ`, `body`) and every reachable state.
-/

namespace C06
variable {σ : Type}

/-- **At every instant a Resource has at most `capacity` users** — in every state any program can reach, after
any mixture of request / release / cancel / with-exit / preemption. -/
theorem users_le_capacity (body : σ → Resume → Burst ℚ σ) (fuel : Nat) (s0 s : KState ℚ σ)
    (h0 : ResInv s0) (hr : KReach body fuel s0 s) (r : ResId) (c : Nat)
    (hk : isResKind (s.res r).kind = true) (hc : (s.res r).capacity = some c) :
    (s.res r).users.length ≤ c :=
  (reach_resInv body fuel s0 s h0 hr).users r c hk hc

/-- the initial environment (resources without users, nothing queued) satisfies the invariant -/
theorem init_resInv (t0 : ℚ) (rs : Array ResRec)
    (h : ∀ r, (rs.getD r default).users = [] ∧ (rs.getD r default).items = [] ∧
      ((rs.getD r default).kind = .container → 0 ≤ (rs.getD r default).level ∧
        ∀ c, (rs.getD r default).capacity = some c → (rs.getD r default).level ≤ (c : Int))) :
    ResInv ({ now := t0, resources := rs } : KState ℚ σ) := by
  refine ⟨?_, ?_, ?_, ?_⟩
  · intro r c _ _; show ((rs.getD r default).users).length ≤ c; rw [(h r).1]; simp
  · intro r hk; exact (h r).2.2 hk
  · intro r c _ _; show ((rs.getD r default).items).length ≤ c; rw [(h r).2.1]; simp
  · intro e rq he
    have : (({ now := t0, resources := rs } : KState ℚ σ).ev e) = default := by simp [KState.ev]
    rw [this] at he; cases he

/-- **A request is granted exactly when a slot is free** (`Resource._do_put`), and the grant records the
current time as `usage_since`. -/
theorem grant_iff_free_slot (s : KState ℚ σ) (r : ResId) (e : EvId) (hk : (s.res r).kind = .resource) :
    (doPut s r e).2 = hasRoom (s.res r).capacity (s.res r).users.length := by
  unfold doPut prePut
  simp only [hk]
  have : (ResKind.resource == ResKind.preemptive) = false := by decide
  simp only [this, Bool.false_eq_true, if_false]
  unfold canPut
  simp only [hk]
  split <;> simp_all

/-- **Queue order**: `_trigger_put` stops at the first request that cannot be granted, so a later-ranked request is
never granted ahead of an earlier-ranked one that is still waiting. -/
theorem scan_stops_at_first_blocked (r : ResId) (e : EvId) (rest : List EvId) (s : KState ℚ σ)
    (hb : canPut (prePut s r e) r e = false) (hu : (prePut s r e).triggered e = false) :
    scanPut r (e :: rest) s = prePut s r e := by
  unfold scanPut doPut
  simp only [hb, Bool.false_eq_true, if_false, hu]

/-- **Releasing twice, or releasing a non-user, is harmless**: the release always succeeds and removes the
request from the users only if it is there. -/
theorem release_harmless (s : KState ℚ σ) (r : ResId) (e : EvId) (hk : isResKind (s.res r).kind = true)
    (hin : r < s.resources.size) (hn : (reqOf s e).releaseOf ∉ (s.res r).users) :
    (doGet s r e).2 = true ∧ ((doGet s r e).1.res r).users = (s.res r).users := by
  rw [doGet_resKind s r e hk]
  refine ⟨rfl, ?_⟩
  show ((s.setUsers r _).res r).users = _
  unfold KState.setUsers
  rw [KState.res_setRes, if_pos ⟨rfl, hin⟩]
  exact List.erase_of_not_mem hn

/-- **Preemption rule**: a preempting request evicts the worst-ranked user only if that user ranks strictly worse;
otherwise the users are left alone. -/
theorem preempt_only_strictly_worse (s : KState ℚ σ) (r : ResId) (e w : EvId)
    (hw : worstUser s (s.res r).users = some w) (hnot : keyLt (reqOf s e) (reqOf s w) = false) :
    preemptStep s r e = s := by
  unfold preemptStep
  simp only [hw, hnot, Bool.false_eq_true, if_false]
  split <;> rfl

/-- **The evicted process receives `Interrupt(Preempted(by, usage_since, resource))`** and its slot is freed in the
same burst, so the common `_do_put` that follows can hand it to the preemptor. -/
theorem preempt_evicts_and_interrupts (s : KState ℚ σ) (r : ResId) (e w vp : EvId) (c : Nat)
    (hc : (s.res r).capacity = some c) (hfull : c ≤ (s.res r).users.length) (hp : (reqOf s e).preempt = true)
    (hw : worstUser s (s.res r).users = some w) (hlt : keyLt (reqOf s e) (reqOf s w) = true)
    (hproc : (reqOf s w).proc = some vp) :
    preemptStep s r e =
      (mkInterrupt (s.setUsers r ((s.res r).users.erase w)) vp (.preempted (reqOf s e).proc w r)).1 := by
  unfold preemptStep
  simp only [hc, Option.any_some, hfull, decide_true, hp, Bool.and_self, if_true, hw, hlt, hproc]

/-! non-vacuity: a capacity-1 resource satisfies the initial invariant -/
example : ResInv ({ now := 0, resources := #[{ kind := .resource, capacity := some 1 }] } : KState ℚ Unit) := by
  apply init_resInv
  intro r
  by_cases h : r = 0
  · subst h; simp
  · have : (#[({ kind := .resource, capacity := some 1 } : ResRec)].getD r default) = default := by
      simp [Array.getD, show ¬ r < 1 by omega]
    rw [this]; simp [default]

end C06
