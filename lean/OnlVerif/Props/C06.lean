import OnlVerif.Lemmas.ResStep
import OnlVerif.Lemmas.ConserveExamples
/-!
# C06 — resources never exceed capacity, grant in queue order, never idle a slot

Model: the resource part of the kernel model `K` (`OnlVerif/Kernel/Ops.lean`: `Put/Get.__init__`,
`_trigger_put/_trigger_get`, `Resource/PriorityResource/PreemptiveResource._do_put/_do_get`, `SortedQueue`,
`cancel`).  The global theorems hold for every program (`σ`, `body`) and every reachable state.
-/

namespace C06
variable {σ : Type}

/-- **At every instant a Resource has at most `capacity` users** — in every state any program can reach, after
any mixture of request / release / cancel / with-exit / preemption. -/
theorem users_le_capacity (body : σ → Resume → Burst ℚ σ) (fuel : Nat) (s0 s : KState ℚ σ)
    (h0 : ResInv s0) (hr : KReach body fuel s0 s) (r : ResId) (c : Nat)
    (hk : isResKind (s.res r).kind = true) (hc : (s.res r).capacity = some c) :
    (s.res r).users.length ≤ c :=
  (reach_resInv body fuel s0 s h0 hr).users r c hk hc

/-- the initial environment (resources without users, nothing queued) satisfies the invariant -/
theorem init_resInv (t0 : ℚ) (rs : Array ResRec)
    (h : ∀ r, (rs.getD r default).users = [] ∧ (rs.getD r default).items = [] ∧
      ((rs.getD r default).kind = .container → 0 ≤ (rs.getD r default).level ∧
        ∀ c, (rs.getD r default).capacity = some c → (rs.getD r default).level ≤ (c : Int))) :
    ResInv ({ now := t0, resources := rs } : KState ℚ σ) := by
  refine ⟨?_, ?_, ?_, ?_⟩
  · intro r c _ _; show ((rs.getD r default).users).length ≤ c; rw [(h r).1]; simp
  · intro r hk; exact (h r).2.2 hk
  · intro r c _ _; show ((rs.getD r default).items).length ≤ c; rw [(h r).2.1]; simp
  · intro e rq he
    have : (({ now := t0, resources := rs } : KState ℚ σ).ev e) = default := by simp [KState.ev]
    rw [this] at he; cases he

/-- **A request is granted exactly when a slot is free** (`Resource._do_put`), and the grant records the
current time as `usage_since`. -/
theorem grant_iff_free_slot (s : KState ℚ σ) (r : ResId) (e : EvId) (hk : (s.res r).kind = .resource) :
    (doPut s r e).2 = hasRoom (s.res r).capacity (s.res r).users.length := by
  unfold doPut prePut
  simp only [hk]
  have : (ResKind.resource == ResKind.preemptive) = false := by decide
  simp only [this, Bool.false_eq_true, if_false]
  unfold canPut
  simp only [hk]
  split <;> simp_all

/-- **Queue order**: `_trigger_put` stops at the first request that cannot be granted, so a later-ranked request is
never granted ahead of an earlier-ranked one that is still waiting. -/
theorem scan_stops_at_first_blocked (r : ResId) (e : EvId) (rest : List EvId) (s : KState ℚ σ)
    (hb : canPut (prePut s r e) r e = false) (hu : (prePut s r e).triggered e = false) :
    scanPut r (e :: rest) s = prePut s r e := by
  unfold scanPut doPut
  simp only [hb, Bool.false_eq_true, if_false, hu]

/-- **Releasing twice, or releasing a non-user, is harmless**: the release always succeeds and removes the
request from the users only if it is there. -/
theorem release_harmless (s : KState ℚ σ) (r : ResId) (e : EvId) (hk : isResKind (s.res r).kind = true)
    (hin : r < s.resources.size) (hn : (reqOf s e).releaseOf ∉ (s.res r).users) :
    (doGet s r e).2 = true ∧ ((doGet s r e).1.res r).users = (s.res r).users := by
  rw [doGet_resKind s r e hk]
  refine ⟨rfl, ?_⟩
  show ((s.setUsers r _).res r).users = _
  unfold KState.setUsers
  rw [KState.res_setRes, if_pos ⟨rfl, hin⟩]
  exact List.erase_of_not_mem hn

/-- **Preemption rule**: a preempting request evicts the worst-ranked user only if that user ranks strictly worse;
otherwise the users are left alone. -/
theorem preempt_only_strictly_worse (s : KState ℚ σ) (r : ResId) (e w : EvId)
    (hw : worstUser s (s.res r).users = some w) (hnot : keyLt (reqOf s e) (reqOf s w) = false) :
    preemptStep s r e = s := by
  unfold preemptStep
  simp only [hw, hnot, Bool.false_eq_true, if_false]
  split <;> rfl

/-- **The evicted process receives `Interrupt(Preempted(by, usage_since, resource))`** and its slot is freed in the
same burst, so the common `_do_put` that follows can hand it to the preemptor. -/
theorem preempt_evicts_and_interrupts (s : KState ℚ σ) (r : ResId) (e w vp : EvId) (c : Nat)
    (hc : (s.res r).capacity = some c) (hfull : c ≤ (s.res r).users.length) (hp : (reqOf s e).preempt = true)
    (hw : worstUser s (s.res r).users = some w) (hlt : keyLt (reqOf s e) (reqOf s w) = true)
    (hproc : (reqOf s w).proc = some vp) :
    preemptStep s r e =
      (mkInterrupt (s.setUsers r ((s.res r).users.erase w)) vp (.preempted (reqOf s e).proc w r)).1 := by
  unfold preemptStep
  simp only [hc, Option.any_some, hfull, decide_true, hp, Bool.and_self, if_true, hw, hlt, hproc]

/-! non-vacuity: a capacity-1 resource satisfies the initial invariant -/
example : ResInv ({ now := 0, resources := #[{ kind := .resource, capacity := some 1 }] } : KState ℚ Unit) := by
  apply init_resInv
  intro r
  by_cases h : r = 0
  · subst h; simp
  · have : (#[({ kind := .resource, capacity := some 1 } : ResRec)].getD r default) = default := by
      simp [Array.getD, show ¬ r < 1 by omega]
    rw [this]; simp [default]

section ConserveBlock
open Conserve

/-! ## ===== b-conserve: global queue-order theorems (whole runs, every program) — BEGIN =====

Vocabulary (`Lemmas/Conserve*.lean`).  A request event is *granted* exactly when it is triggered (`out ≠ none`).
`WF s0`: the initial state is well-formed (`WF.init`: every fresh environment is).  `SafeReach body fuel s s'`: `s'` is
reachable from `s` by kernel steps of program `body` during which no `succeed`/`fail` call of the program targets a
request event (outside the domain: the real `_do_put` then raises "already triggered"); every run of a program that never
calls `succeed`/`fail` qualifies (`safeReach_of_noTrig`).  `Before l a b`: `a` stands before `b` in the list `l`.
`rankLt s prio a b`: `a` ranks strictly before `b` — creation order (event ids) for `Resource`; for the two priority
classes (`prio = true`) the key `(priority, request time, preempting-first)` compared as Python compares the tuple,
then creation order.  `AUnit t t'`: one atomic unit of the model (bookkeeping, a fresh event, an outcome written to a
non-request event, `grantPut`, `grantGet`, `newPut`, `newGet`, `cancelPut`, `cancelGet`), each with the guard under which
the model executes it; `UnitSeq`: finite sequences of units. -/

/-- **The request queue is always sorted by rank** — arrival order for `Resource`; (priority, request time,
preempting-first, arrival) for `PriorityResource` and `PreemptiveResource` — **and holds only waiting (untriggered)
requests of this resource, each once**, in every state any program can reach. -/
theorem queue_sorted_by_rank (body : σ → Resume → Burst ℚ σ) (fuel : Nat) (s0 s : KState ℚ σ)
    (hW : WF s0) (hS : QSorted s0) (hr : SafeReach body fuel s0 s) (r : ResId) :
    (s.res r).putQ.Pairwise (rankLt s (isPrioKind (s.res r).kind)) ∧ (s.res r).putQ.Nodup ∧
    ∀ e ∈ (s.res r).putQ, (s.ev e).kind = .put r ∧ (s.ev e).out = none :=
  have hWs := (reach_base body fuel s0 s hW hr).2
  ⟨((reach_queue body fuel s0 s hW hr).2 hS).put r, hWs.putNodup r, hWs.putQ r⟩

/-- **Requests are granted in queue order, along whole runs**: if `a` stands before `b` in the queue in some reachable
state `s`, then in every later state `s'` in which `b` has been granted, `a` has been granted too — or was cancelled
(it left the queue without being granted; it then is never granted). -/
theorem granted_in_queue_order (body : σ → Resume → Burst ℚ σ) (fuel : Nat) (s0 s s' : KState ℚ σ)
    (hW : WF s0) (hr0 : SafeReach body fuel s0 s) (hr : SafeReach body fuel s s') (r : ResId) (a b : EvId)
    (hab : Before (s.res r).putQ a b) (hb : (s'.ev b).out ≠ none) :
    (s'.ev a).out ≠ none ∨ (a ∉ (s'.res r).putQ ∧ (s'.ev a).out = none) :=
  have hWs := (reach_base body fuel s0 s hW hr0).2
  ((reach_queue body fuel s s' hWs hr).1.put r).order trivial a b hab hb

/-- **A later-ranked request is never granted ahead of an earlier-ranked waiting one**: for two waiting requests with
`a` ranked strictly before `b` (rank as in `queue_sorted_by_rank`), whenever `b` has been granted later on, `a` has been
granted as well, unless it was cancelled. -/
theorem never_granted_ahead_of_earlier_ranked (body : σ → Resume → Burst ℚ σ) (fuel : Nat) (s0 s s' : KState ℚ σ)
    (hW : WF s0) (hS : QSorted s0) (hr0 : SafeReach body fuel s0 s) (hr : SafeReach body fuel s s') (r : ResId) (a b : EvId)
    (ha : a ∈ (s.res r).putQ) (hbq : b ∈ (s.res r).putQ) (hrank : rankLt s (isPrioKind (s.res r).kind) a b)
    (hb : (s'.ev b).out ≠ none) :
    (s'.ev a).out ≠ none ∨ (a ∉ (s'.res r).putQ ∧ (s'.ev a).out = none) := by
  have hsorted := ((reach_queue body fuel s0 s hW hr0).2 hS).put r
  have hab : Before (s.res r).putQ a b := before_of_rel (fun _ _ h => rankLt_asymm h) hsorted ha hbq hrank
  exact granted_in_queue_order body fuel s0 s s' hW hr0 hr r a b hab hb

/-- **Waiting requests keep their relative order, and a cancelled request never comes back**: the other two clauses of
the order relation between any two states of a run. -/
theorem queue_order_is_stable (body : σ → Resume → Burst ℚ σ) (fuel : Nat) (s0 s s' : KState ℚ σ)
    (hW : WF s0) (hr0 : SafeReach body fuel s0 s) (hr : SafeReach body fuel s s') (r : ResId) :
    (∀ a b, Before (s.res r).putQ a b → a ∈ (s'.res r).putQ → b ∈ (s'.res r).putQ → Before (s'.res r).putQ a b) ∧
    (∀ a, (s.ev a).kind = .put r → a ∉ (s.res r).putQ → (s.ev a).out = none →
      a ∉ (s'.res r).putQ ∧ (s'.ev a).out = none) :=
  have hWs := (reach_base body fuel s0 s hW hr0).2
  have h := (reach_queue body fuel s s' hWs hr).1.put r
  ⟨h.keep, h.dead⟩

/-- **Every run is a finite sequence of atomic units** (so statements about "the moment of a grant" make sense). -/
theorem run_is_unit_sequence (body : σ → Resume → Burst ℚ σ) (fuel : Nat) (s0 s : KState ℚ σ)
    (hW : WF s0) (hr : SafeReach body fuel s0 s) : UnitSeq s0 s :=
  reach_units body fuel s0 s hW hr

/-- **Requests are granted one by one, each while it is the first of the queue**: the only atomic unit that triggers a
waiting request `e` of resource `r` is `_do_put` on `e`, executed while `e` is the head of the queue and a slot is free
(`canPut`, evaluated after the eviction step of a `PreemptiveResource`). -/
theorem request_granted_only_at_head (t t' : KState ℚ σ) (h : AUnit t t') (r : ResId) (e : EvId)
    (hk : (t.ev e).kind = .put r) (ho : (t.ev e).out = none) (ho' : (t'.ev e).out ≠ none) :
    ∃ rest, (t.res r).putQ = e :: rest ∧ canPut t r e = true ∧ t' = grantPutSt t r e :=
  h.grant_put hk ho ho'

/-- **Along every run, every granted request was first in the queue at the moment of its grant**: if `e` waits in a
reachable state `s` and has been granted in a later state `s'`, the run passed (`UnitSeq`) through a state `t` in
which `e` headed the queue and a slot was free, and continued from the state `_do_put` produced. -/
theorem every_grant_was_at_head (body : σ → Resume → Burst ℚ σ) (fuel : Nat) (s0 s s' : KState ℚ σ)
    (hW : WF s0) (hr0 : SafeReach body fuel s0 s) (hr : SafeReach body fuel s s') (r : ResId) (e : EvId)
    (hk : (s.ev e).kind = .put r) (ho : (s.ev e).out = none) (ho' : (s'.ev e).out ≠ none) :
    ∃ t rest, UnitSeq s t ∧ UnitSeq (grantPutSt t r e) s' ∧ (t.res r).putQ = e :: rest ∧ canPut t r e = true ∧
      (t.ev e).out = none :=
  have hWs := (reach_base body fuel s0 s hW hr0).2
  (reach_units body fuel s s' hWs hr).grant_put_moment hk ho ho'

/-! non-vacuity: `PriorityResource(capacity=1)`; requests with priorities 2 (granted at once), 1, 0, 1, then release of
the first.  The queue is `[prio 0, prio 1 (older), prio 1 (newer)]` = events `[4, 3, 5]`; two kernel steps later the
release has been processed and the priority-0 request (event 4, created after event 3) has been granted first. -/
example : WF ExPrio.s0 ∧ QSorted ExPrio.s0 ∧ SafeReach ExPrio.body 5 ExPrio.s0 ExPrio.s1 ∧
    SafeReach ExPrio.body 5 ExPrio.s1 ExPrio.s3 :=
  ⟨ExPrio.wf0, ExPrio.sorted0, ExPrio.reach1, ExPrio.reach13⟩
example : (ExPrio.s1.res 0).putQ = [4, 3, 5] ∧ (ExPrio.s3.res 0).putQ = [3, 5] ∧ (ExPrio.s3.res 0).users = [4] ∧
    ExPrio.s3.triggered 4 = true ∧ ExPrio.s3.triggered 3 = false := by decide +kernel
example : Before [4, 3, 5] 4 3 := by unfold Before; decide
example : rankLt ExPrio.s1 true 4 3 := by
  unfold rankLt; simp only [if_true]; left; decide +kernel

/-! ## ===== b-conserve — END ===== -/
end ConserveBlock

end C06
