import OnlVerif.Lemmas.TimerKAbsFun
import OnlVerif.Lemmas.TimerKTerm
/-!
# C19 on the kernel: the Timer *as processes on the kernel model* refines its LTS and fires exactly when prescribed

`OnlVerif/Util/TimerOnK.lean` writes `Timer.run`, `Timer.stop`, `Timer.restart` and a controller process
(`yield env.timeout(gap); timer.stop() | timer.restart(τ)` for every entry of a script) as a program of the kernel
model `K` (`OnlVerif/Kernel`); the callback is the observation `fire`, and it may itself call `stop()`/`restart(τ)` on
its timer (`cbs`: what the 1st, 2nd, … invocation does).  Here nothing is assumed about scheduling: `Environment.step`
of the kernel model decides what runs when, `Process.interrupt` is the kernel's `Interruption`, and `restart`'s two
guards (`active_process is self.proc`, `self.proc.is_alive`) are evaluated by the kernel model's own tests.  The
theorems close the gap DESIGN §2.3 names for this device: every kernel step of this program is a (possibly empty)
sequence of actions the Timer LTS (`OnlVerif/Util/Timer.lean`) *accepts*, so the admissibility rules of the LTS (URGENT
events — process starts, interrupts — before any timeout of the instant and before the clock moves; a wake exactly at
its due instant) are consequences of the kernel model, and the C19 theorems hold of kernel runs.

Scope: one timer created at instant 0 with a positive `timeout`, one-shot or auto-restart, a scalar argument; one
controller process created after the timer or (`ctlFirst`) before it, which makes one call per resumption, with
non-negative gaps (zero gaps and gaps that hit an expiry instant exactly — on either side of the wake-up — included) and
positive `restart` arguments; callback scripts with positive `restart` arguments; exact rational time; `fuel + 1` = any
positive bound of the `_resume` loop.
-/

namespace C19K
open TimerOnK TimerK
open Timer (CbOp)

/-- **Refinement, step by step**: let `s` be reachable by kernel steps from the initial state and let the next
kernel step end in `s'`.  Then that step is a normal one (`.ok`: no exception, no stop), and there is a (possibly
empty) sequence of LTS actions that the Timer LTS *accepts* from the abstraction of `s`, that ends exactly in the
abstraction of `s'` (the step commutes with the executable abstraction function `absTimer`), and whose callback
invocations are exactly the `fire` observations the kernel step appended to the trace. -/
theorem timer_on_kernel_step_refines (auto : Bool) (arg : Int) (cbs : List (Option (CbOp ℚ))) (ctlFirst : Bool) (T : ℚ)
    (script : List (ℚ × CbOp ℚ)) (hT : 0 < T) (hsc : ScriptOK script) (hcbs : CbsOK cbs) (fuel : Nat)
    (s s' : KState ℚ (TSt ℚ)) (hreach : KReach (body auto arg cbs) (fuel + 1) (initState ctlFirst T script) s)
    (hstep : (step (body auto arg cbs) (fuel + 1) s).state? = some s') :
    step (body auto arg cbs) (fuel + 1) s = .ok s' ∧
    ∃ acts new, Timer.run (absTimer auto arg s) acts = .ok (absTimer auto arg s') (new.map fun t => Timer.Out.fire t [arg]) ∧
      firesOf s'.trace = firesOf s.trace ++ new := by
  obtain ⟨a, _, hi, _⟩ := reach_inv (arg := arg) hcbs fuel ctlFirst script hT hsc hreach
  cases hp : popMin s.agenda with
  | none => simp [step, hp, StepResult.state?] at hstep
  | some qr =>
    obtain ⟨q, rest⟩ := qr
    obtain ⟨s'', a', new, h1, h2, h4, acts, h6⟩ := inv_step (arg := arg) hcbs fuel hi hp
    rw [h1] at hstep
    simp only [StepResult.state?, Option.some.injEq] at hstep
    subst hstep
    refine ⟨h1, acts, firesH new, ?_, ?_⟩
    · rw [absTimer_eq hi.k, absTimer_eq h2.k, ← outsOfH_eq]; exact h6
    · rw [firesOf_eq, firesOf_eq, h4, firesH_append]

/-- a reachable state in the middle of a run (after 3 kernel steps: the controller has just restarted the timer at
t = 1/2; the interrupt is on its way to the first process, the second has not started): the abstraction function gives
an LTS state with a sleeping and a not-started process and both URGENT events queued -/
example : (match runAll (body false 7 ([] : List (Option (CbOp ℚ)))) 1 3 (initState false (1 : ℚ) [(1/2, .restart 2)]) with
    | .outOfFuel s => some ((absTimer false 7 s).now, (absTimer false 7 s).expire, (absTimer false 7 s).procs.length,
        (absTimer false 7 s).proc, (absTimer false 7 s).uq)
    | _ => none) = some (1/2, 5/2, 2, 1, [.intr 0, .init 1]) := by
  decide +kernel

/-- **Refinement, whole runs**: every state reachable by kernel steps is the image of an *admissible* run of the
Timer LTS from the state the constructor builds (`Timer.create 0 T auto (scalar arg)`): the LTS accepts some action
sequence that ends in `absTimer s` and in which the callback invocations are the `fire` observations of the kernel
trace, in order, each with the constructor's argument. -/
theorem timer_on_kernel_refines_lts (auto : Bool) (arg : Int) (cbs : List (Option (CbOp ℚ))) (ctlFirst : Bool) (T : ℚ)
    (script : List (ℚ × CbOp ℚ)) (hT : 0 < T) (hsc : ScriptOK script) (hcbs : CbsOK cbs) (fuel : Nat)
    (s : KState ℚ (TSt ℚ)) (hreach : KReach (body auto arg cbs) (fuel + 1) (initState ctlFirst T script) s) :
    ∃ s0 acts, Timer.create (0 : ℚ) T auto (.scalar arg) = .ok s0 ∧
      Timer.run s0 acts = .ok (absTimer auto arg s) ((firesOf s.trace).map fun t => Timer.Out.fire t [arg]) := by
  obtain ⟨a, acts, hi, hrun⟩ := reach_inv (arg := arg) hcbs fuel ctlFirst script hT hsc hreach
  refine ⟨lts0 auto arg T, acts, create_lts0 auto arg hT, ?_⟩
  rw [absTimer_eq hi.k, firesOf_eq, ← outsOfH_eq]; exact hrun

/-- what the invariant says about the oracle: the history is accepted, nothing is overdue, nothing is pending once the
agenda is empty -/
theorem oracle_of_inv {auto : Bool} {cbs : List (Option (CbOp ℚ))} {T : ℚ} {s : KState ℚ (TSt ℚ)} {a : A}
    (hi : Inv auto cbs T s a) :
    ∃ o, orun auto cbs (o0 T) (histOf s.trace) = some o ∧ (∀ e, o.pending = some e → s.now ≤ e) ∧
      (s.agenda = [] → o.pending = none) := by
  refine ⟨oOf a, hi.a.orc, ?_, ?_⟩
  · intro e he
    unfold oOf at he
    cases hst : a.stopped with
    | true => simp [hst] at he
    | false =>
      have hp := hi.a.ph
      cases hph : a.ph with
      | init q0 =>
        rw [hph] at hp
        simp only [hst, hph, Bool.false_eq_true, if_false, Option.some.injEq] at he
        rw [← he]; exact le_of_lt hp.2.2.1
      | sleep t q0 =>
        simp only [hst, hph, Bool.false_eq_true, if_false, Option.some.injEq] at he
        rw [← he]; exact hi.a.due q0 (mem_ph (by simp [hph, TPhase.entries]))
      | dead => simp [hst, hph] at he
  · intro hag
    have h := hi.k.ag
    rw [hag] at h
    have hent : a.entries = [] := List.Perm.eq_nil h.symm
    simp only [A.entries, List.append_eq_nil_iff] at hent
    unfold oOf
    cases hph : a.ph with
    | init q0 => simp [hph, TPhase.entries] at hent
    | sleep t q0 => simp [hph, TPhase.entries] at hent
    | dead => simp

/-- **The callback fires exactly at the instants the property prescribes, and the run never crashes.**  For every
positive `timeout`, one-shot or auto-restart, every finite controller script with non-negative gaps and positive
`restart` arguments (calls exactly at an expiry instant included, before the wake-up as well as after it), every callback
script, and both creation orders: at every state `s` reachable by kernel steps

* the next `Environment.step` of the kernel model processes an event normally (`.ok`) or finds the agenda empty: no
  exception ever leaves `step()` (in particular none of the kernel's refusals "process has terminated" / "a process is not
  allowed to interrupt itself");
* the call/fire history recorded in the trace passes the C19 oracle `TimerOnK.ostep` from the state of a fresh timer:
  every callback invocation happened *exactly* at the pending instant — `0 + timeout` first; `timeout` after the previous
  firing for an auto-restart timer; `r + τ` after a `restart(τ)` at `r` on a pending timer or from the callback — none after
  a `stop()`, and no call found a prescribed firing overdue;
* nothing prescribed is overdue now (`pending ≥ now`), and once the agenda is empty nothing is pending at all. -/
theorem timer_on_kernel_fire_instants (auto : Bool) (arg : Int) (cbs : List (Option (CbOp ℚ))) (ctlFirst : Bool) (T : ℚ)
    (script : List (ℚ × CbOp ℚ)) (hT : 0 < T) (hsc : ScriptOK script) (hcbs : CbsOK cbs) (fuel : Nat)
    (s : KState ℚ (TSt ℚ)) (hreach : KReach (body auto arg cbs) (fuel + 1) (initState ctlFirst T script) s) :
    ((∃ s', step (body auto arg cbs) (fuel + 1) s = .ok s') ∨ step (body auto arg cbs) (fuel + 1) s = .empty) ∧
    ∃ o, orun auto cbs (o0 T) (histOf s.trace) = some o ∧ (∀ e, o.pending = some e → s.now ≤ e) ∧
      (s.agenda = [] → o.pending = none) := by
  obtain ⟨a, _, hi, _⟩ := reach_inv (arg := arg) hcbs fuel ctlFirst script hT hsc hreach
  refine ⟨?_, oracle_of_inv hi⟩
  cases hp : popMin s.agenda with
  | none => right; simp [step, hp]
  | some qr =>
    obtain ⟨q, rest⟩ := qr
    obtain ⟨s', _, _, h1, _⟩ := inv_step (arg := arg) hcbs fuel hi hp
    exact Or.inl ⟨s', h1⟩

/-- the states the `while True: self.step()` loop of `run()` goes through are reachable -/
theorem runLoop_reach {body : TSt ℚ → Resume → Burst ℚ (TSt ℚ)} {fuel : Nat} {s0 : KState ℚ (TSt ℚ)}
    (hok : ∀ s, KReach body fuel s0 s → (∃ s', step body fuel s = .ok s') ∨ step body fuel s = .empty) :
    ∀ (n : Nat) (s : KState ℚ (TSt ℚ)), KReach body fuel s0 s →
      ∃ s', lastState (runLoop body fuel none n s) = some s' ∧ KReach body fuel s0 s'
  | 0, s, h => ⟨s, rfl, h⟩
  | n + 1, s, h => by
    rcases hok s h with ⟨s', hs⟩ | hs
    · have := runLoop_reach hok n s' (KReach.step h (by rw [hs]; rfl))
      simpa [runLoop, hs] using this
    · exact ⟨s, by simp [runLoop, hs, lastState], h⟩

/-- **… as a statement about `run()`**: whatever step budget `n` the loop of `run()` is given, it raises nothing, and
the call/fire history of the state it has reached passes the C19 oracle with nothing overdue. -/
theorem timer_on_kernel_run_fire_instants (auto : Bool) (arg : Int) (cbs : List (Option (CbOp ℚ))) (ctlFirst : Bool)
    (T : ℚ) (script : List (ℚ × CbOp ℚ)) (hT : 0 < T) (hsc : ScriptOK script) (hcbs : CbsOK cbs) (fuel n : Nat) :
    ∃ s o, lastState (runAll (body auto arg cbs) (fuel + 1) n (initState ctlFirst T script)) = some s ∧
      orun auto cbs (o0 T) (histOf s.trace) = some o ∧ (∀ e, o.pending = some e → s.now ≤ e) ∧
      (s.agenda = [] → o.pending = none) := by
  obtain ⟨s, h1, h2⟩ := runLoop_reach
    (fun s hs => (timer_on_kernel_fire_instants auto arg cbs ctlFirst T script hT hsc hcbs fuel s hs).1) n _ KReach.init
  obtain ⟨-, o, h3, h4, h5⟩ := timer_on_kernel_fire_instants auto arg cbs ctlFirst T script hT hsc hcbs fuel s h2
  exact ⟨s, o, h1, h3, h4, h5⟩

/-- **A one-shot timer's run ends, and by then everything prescribed has happened.**  With `auto_restart = False`, for
every controller script and callback script as above, `run()` of the kernel model returns (agenda empty, no exception)
within `6·(calls of the controller) + (length of the callback script) + 6` kernel steps; the call/fire history of the
final trace passes the C19 oracle and leaves nothing pending: every prescribed firing has taken place, exactly at its
instant, and there was no other. -/
theorem timer_on_kernel_one_shot_returns (arg : Int) (cbs : List (Option (CbOp ℚ))) (ctlFirst : Bool) (T : ℚ)
    (script : List (ℚ × CbOp ℚ)) (hT : 0 < T) (hsc : ScriptOK script) (hcbs : CbsOK cbs) (fuel n : Nat)
    (hn : 6 * script.length + cbs.length + 6 ≤ n) :
    ∃ sF o, runAll (body false arg cbs) (fuel + 1) n (initState ctlFirst T script) = .returned .none sF ∧ sF.agenda = [] ∧
      orun false cbs (o0 T) (histOf sF.trace) = some o ∧ o.pending = none := by
  have h0 : Inv false cbs T (initState ctlFirst T script) (a0 ctlFirst T script) := inv_init ctlFirst script hT hsc
  have hmu : (a0 ctlFirst T script).mu cbs.length < n := by
    cases ctlFirst <;> simp [A.mu, a0, TPhase.mu, CPhase.mu, oldStat] <;> omega
  obtain ⟨sF, aF, h1, h2, h3⟩ := run_returns_oneshot (arg := arg) hcbs fuel n _ _ h0 hmu
  obtain ⟨o, h4, -, h6⟩ := oracle_of_inv h2
  exact ⟨sF, o, h1, h3, h4, h6 h3⟩

/-! ### what acceptance by the oracle means, clause by clause -/

/-- what an accepted call leaves behind -/
theorem ostep_call_some {auto : Bool} {cbs : List (Option (CbOp ℚ))} {o o2 : OSt ℚ} {t : ℚ} {op : CbOp ℚ}
    (h : ostep auto cbs o (.call t op) = some o2) :
    match op with
    | .stop => o2.pending = none ∧ o2.stopped = true
    | .restart tau => (o.pending = none → o2.pending = none ∧ o2.stopped = o.stopped) ∧
        (∀ e, o.pending = some e → o2.pending = some (t + tau)) := by
  have hnm : ∀ e, o.pending = some e → t ≤ e := by
    intro e he
    by_contra hc
    have : ostep auto cbs o (.call t op) = none := by
      simp [ostep, he, not_le.mp hc]
    rw [this] at h; cases h
  rw [ostep_call o t op hnm] at h
  simp only [Option.some.injEq] at h
  subst h
  cases op with
  | stop => exact ⟨rfl, rfl⟩
  | restart tau =>
    refine ⟨fun hp => ?_, fun e he => ?_⟩
    · simp [hp]
    · simp [he]

/-- a firing is accepted only at the pending instant -/
theorem ostep_fire_some {auto : Bool} {cbs : List (Option (CbOp ℚ))} {o o2 : OSt ℚ} {f : ℚ}
    (h : ostep auto cbs o (.fire f) = some o2) : o.pending = some f := by
  cases hp : o.pending with
  | none => simp [ostep, hp] at h
  | some e =>
    by_cases he : Num.eqb e f = true
    · rw [(Num.eqb_iff _ _).mp he]
    · simp [ostep, hp, he] at h

/-- once nothing is pending nothing fires any more, whatever is called -/
theorem oracle_quiet_of_not_pending {auto : Bool} {cbs : List (Option (CbOp ℚ))} :
    ∀ (h : List (HEv ℚ)) (o o' : OSt ℚ), o.pending = none → o.stopped = true ∨ auto = false →
      orun auto cbs o h = some o' → firesH h = [] ∧ o'.pending = none
  | [], o, o', hp, _, hr => by
    simp only [orun, Option.some.injEq] at hr
    subst hr; exact ⟨rfl, hp⟩
  | .fire f :: h, o, o', hp, _, hr => by
    simp only [orun] at hr
    cases hs : ostep auto cbs o (.fire f) with
    | none => rw [hs] at hr; cases hr
    | some o1 => rw [ostep_fire_some hs] at hp; cases hp
  | .call t op :: h, o, o', hp, hs, hr => by
    simp only [orun] at hr
    cases h1 : ostep auto cbs o (.call t op) with
    | none => rw [h1] at hr; cases hr
    | some o1 =>
      rw [h1] at hr
      have hk := ostep_call_some h1
      have h23 : o1.pending = none ∧ (o1.stopped = true ∨ auto = false) := by
        cases op with
        | stop => exact ⟨hk.1, Or.inl hk.2⟩
        | restart tau =>
          have := hk.1 hp
          exact ⟨this.1, by rw [this.2]; exact hs⟩
      have := oracle_quiet_of_not_pending h o1 o' h23.1 h23.2 hr
      exact ⟨by simpa [firesH] using this.1, this.2⟩

/-- **`stop()` is final on kernel runs**: in the history of any reachable state, no callback invocation follows a
`stop()` call of the controller — whatever `restart` calls come later, from outside or (there are none) from the callback. -/
theorem kernel_stop_is_final (auto : Bool) (arg : Int) (cbs : List (Option (CbOp ℚ))) (ctlFirst : Bool) (T : ℚ)
    (script : List (ℚ × CbOp ℚ)) (hT : 0 < T) (hsc : ScriptOK script) (hcbs : CbsOK cbs) (fuel : Nat)
    (s : KState ℚ (TSt ℚ)) (hreach : KReach (body auto arg cbs) (fuel + 1) (initState ctlFirst T script) s)
    (h1 h2 : List (HEv ℚ)) (t : ℚ) (hh : histOf s.trace = h1 ++ .call t .stop :: h2) : firesH h2 = [] := by
  obtain ⟨-, o, ho, -, -⟩ := timer_on_kernel_fire_instants auto arg cbs ctlFirst T script hT hsc hcbs fuel s hreach
  rw [hh, orun_append] at ho
  cases h : orun auto cbs (o0 T) h1 with
  | none => rw [h] at ho; cases ho
  | some o1 =>
    rw [h] at ho
    simp only [Option.bind_some, orun] at ho
    cases hs : ostep auto cbs o1 (.call t .stop) with
    | none => rw [hs] at ho; cases ho
    | some o2 =>
      rw [hs] at ho
      have : o2.pending = none ∧ o2.stopped = true := ostep_call_some hs
      exact (oracle_quiet_of_not_pending h2 o2 o this.1 (Or.inl this.2) ho).1

/-- **`restart(τ)` re-bases on kernel runs**: if in the history of a reachable state a callback invocation directly
follows a `restart(τ)` call made at `r`, it happened at exactly `r + τ` (not at the old expiry, not earlier, not later). -/
theorem kernel_restart_rebases (auto : Bool) (arg : Int) (cbs : List (Option (CbOp ℚ))) (ctlFirst : Bool) (T : ℚ)
    (script : List (ℚ × CbOp ℚ)) (hT : 0 < T) (hsc : ScriptOK script) (hcbs : CbsOK cbs) (fuel : Nat)
    (s : KState ℚ (TSt ℚ)) (hreach : KReach (body auto arg cbs) (fuel + 1) (initState ctlFirst T script) s)
    (h1 h2 : List (HEv ℚ)) (r tau f : ℚ) (hh : histOf s.trace = h1 ++ .call r (.restart tau) :: .fire f :: h2) :
    f = r + tau := by
  obtain ⟨-, o, ho, -, -⟩ := timer_on_kernel_fire_instants auto arg cbs ctlFirst T script hT hsc hcbs fuel s hreach
  rw [hh, orun_append] at ho
  cases h : orun auto cbs (o0 T) h1 with
  | none => rw [h] at ho; cases ho
  | some o1 =>
    rw [h] at ho
    simp only [Option.bind_some, orun] at ho
    cases hs : ostep auto cbs o1 (.call r (.restart tau)) with
    | none => rw [hs] at ho; cases ho
    | some o2 =>
      rw [hs] at ho
      simp only at ho
      cases hf : ostep auto cbs o2 (.fire f) with
      | none => rw [hf] at ho; cases ho
      | some o3 =>
        have hk := ostep_call_some hs
        have hp2 := ostep_fire_some hf
        cases hp1 : o1.pending with
        | none => rw [(hk.1 hp1).1] at hp2; cases hp2
        | some e =>
          rw [hk.2 e hp1] at hp2
          exact (Option.some.inj hp2).symm

/-! ### non-vacuity: concrete runs of the kernel model, evaluated by the kernel of Lean (exact arithmetic) -/

/-- what a run of `n` steps leaves: how it ended (`true` = `run()` returned), the instants of the callback invocations,
whether the whole call/fire history passes the oracle -/
def summary (auto : Bool) (cbs : List (Option (CbOp ℚ))) (ctlFirst : Bool) (T : ℚ) (script : List (ℚ × CbOp ℚ)) (n : Nat) :
    Option (Bool × List ℚ × Bool) :=
  match runAll (body auto 7 cbs) 1 n (initState ctlFirst T script) with
  | .returned _ s => some (true, firesOf s.trace, (orun auto cbs (o0 T) (histOf s.trace)).isSome)
  | .outOfFuel s => some (false, firesOf s.trace, (orun auto cbs (o0 T) (histOf s.trace)).isSome)
  | .raised _ _ => none

/-- undisturbed one-shot timer: exactly one invocation, at `0 + timeout` -/
example : summary false [] false 1 [] 20 = some (true, [1], true) := by decide +kernel

/-- `restart(2)` at 1/2: the old expiry 1 passes silently, the callback fires at 5/2 -/
example : summary false [] false 1 [(1/2, .restart 2)] 20 = some (true, [5/2], true) := by decide +kernel

/-- `restart(1)` at the expiry instant 1 *after* the wake-up (the timer was created first, so its timeout is older than
the controller's): the callback has fired, the process has ended, `restart` finds it dead and does not raise -/
example : summary false [] false 1 [(1, .restart 1)] 20 = some (true, [1], true) := by decide +kernel

/-- `restart(1)` at the expiry instant 1 *before* the wake-up (controller created first): the `Interruption` is URGENT, the
old process never wakes, the callback fires at 2 only -/
example : summary false [] true 1 [(1, .restart 1)] 20 = some (true, [2], true) := by decide +kernel

/-- `stop()` at the expiry instant before the wake-up: the process wakes but the callback is suppressed -/
example : summary false [] true 1 [(1, .stop)] 20 = some (true, [], true) := by decide +kernel

/-- `stop()` at the expiry instant after the wake-up: too late for this firing, final for the rest -/
example : summary true [] false 1 [(1, .stop), (5, .restart 1)] 30 = some (true, [1], true) := by decide +kernel

/-- `restart(3/2)` from the callback of a one-shot timer re-arms it (no self-interrupt): 1, then 1 + 3/2 -/
example : summary false [some (.restart (3/2))] false 1 [] 20 = some (true, [1, 5/2], true) := by decide +kernel

/-- an auto-restart timer (timeout 1/2) whose callback stops it at its third firing -/
example : summary true [none, none, some .stop] false (1/2) [] 30 = some (true, [1/2, 1, 3/2], true) := by decide +kernel

/-- an auto-restart timer under fire: restarted at 1/4 (→ 5/4), again exactly at 5/4 before the wake-up (→ 9/4), stopped
exactly at 9/4 before the wake-up, then `restart(3)` in the same instant after the (silent) wake-up: never fires -/
example : summary true [] false (1/2) [(1/4, .restart 1), (1, .restart 1), (1, .stop), (0, .restart 3)] 40 =
    some (true, [], true) := by decide +kernel

/-- an undisturbed auto-restart timer never ends: after 10 steps `run()` is still going and has fired at 1, 2, …, 7 -/
example : summary true [] false 1 [] 10 = some (false, [1, 2, 3, 4, 5, 6, 7], true) := by decide +kernel

end C19K
