import OnlVerif.Lemmas.GenKernelRun03
/-!
# KernelGen03 - the refusal test and the stop event of `Environment.run(until=<number>)` *as written in the source* are the kernel model `K` (C03)

One of the bridge modules into which `Props/KernelGen.lean` was split, one per owning property (`py2lean/SCOPE.md`): `py2lean/kernel.py`
regenerates the `Generated/Kernel*.lean` files named in the imports from `onl/sim` on every `./check` of the owning property, and the
theorems below (bridge theorems) prove that the generated definitions coincide with the functions of the hand-written kernel
model `K` (`Kernel/Agenda.lean`, `Ops.lean`, `Step.lean`) that the property theorems are about.  A flipped comparison, a changed
constant, priority or refusal, a lost or reordered effect in the source changes a generated definition and one of these proofs
no longer compiles - for every input, not for sampled ones.  Here: `runUntilTime` (C03); the generator also checks the frame of `Environment.run` (until-event, re-raise, empty schedule).

The encoding between the generated object views and the model state is explicit and hand-written
(`OnlVerif/Lemmas/GenKernelDefs.lean`: `resObj`, `runEff`, `buildEvent`, `applyTrig`, `toEntry`; the `run…` functions next to the
lemmas).  All statements hold for every scalar type `τ` (no arithmetic identity is used), in particular for `ℚ` and `Float`.
This module imports no generated file of another property.
-/

namespace KernelGen
open GenKernel
variable {τ σ : Type} [Num τ]

/-! ## `run(until=<number>)` (C03) -/

/-- **`Environment.run(until=<number>)` as written in the source is the model's `runUntilTime`**: refused with `ValueError`
exactly when `at <= now`; otherwise the stop event is pushed as `(at, URGENT, next(eid), until)` - at the absolute time
`at`, not `now + (at - now)`. -/
theorem run_until_generated_eq_model (body : σ → Resume → Burst τ σ) (fuel n : Nat) (at_ : τ) (s : KState τ σ) :
    runUntilTime body fuel n at_ s =
      (if Gen.Environment.run_refuse at_ s.now = true then
         .raised (valueErr "until must be > the current simulation time") s
       else
         let u := s.events.size
         let s1 := (s.newEv { kind := .sentinel, cbs := some [], out := some (.ok .none) }).1
         runLoop body fuel (some u) n ((pushEntry s1 (Gen.Environment.run_sentinel_entry at_ s1.eid u)).addCb u .stop)) :=
  run_until body fuel n at_ s

/-! ## non-vacuity: the generated definitions on concrete objects -/

/-- `run(until=now)` is refused, `run(until=now+1)` is not -/
example : Gen.Environment.run_refuse (3 : Rat) 3 = true ∧ Gen.Environment.run_refuse (4 : Rat) 3 = false := by
  decide

end KernelGen
