import Mathlib.Tactic.NormNum
import OnlVerif.Lemmas.Rt
import OnlVerif.Lemmas.GenRt20
/-!
# C20 — real-time pacing never runs ahead of the wall clock and alters no result

Model: `OnlVerif/Util/Rt.lean`.  `rtStep peek kstep s clock` is `RealtimeEnvironment.step` on the kernel component
`s.k`, where `clock` is the list of values the successive `monotonic()` calls return (an arbitrary oracle: processes
that burn wall time, sleeps that return early or late are all just different lists) and `peek`/`kstep` are
`Environment.peek`/`Environment.step` of an arbitrary kernel — in particular of the kernel model `K`.
The theorems hold for **every** reading list.  They are partial-correctness statements: over a finite list that never
reaches the due instant the sleep loop does not finish (`starved`); `sleep_loop_terminates` is the progress condition.
Time is exact (`ℚ`); the executable model runs at `Float` and is compared bit for bit with `onl.sim.rt`.
-/

namespace C20
open Rt
variable {κ ρ : Type}

/-- **Pacing alters no result (one step).**  A `step()` that returns hands the *unchanged* kernel state to
`Environment.step`: its result is exactly the result of the plain step, for every clock behaviour. -/
theorem rt_same_transitions (peek : κ → Option ℚ) (kstep : κ → ρ) (s : RtState ℚ κ) (clock : List ℚ) (r : ρ)
    (sleeps : List ℚ) (last : ℚ) (rest : List ℚ) (h : rtStep peek kstep s clock = .stepped r sleeps last rest) :
    r = kstep s.k :=
  (rtStep_stepped h).1

/-- **Pacing alters no result (whole runs).**  For every sequence of `step()` and `sync()` calls and every clock
behaviour, the results of the `Environment.step` calls made by the real-time run — each contains the whole kernel
state, hence the event sequence and all values — are a prefix of those of the un-paced run of the same kernel, and
all of them when the run executes all its operations.  (A run is cut short only by the too-slow error, by
`EmptySchedule`, by an exception of the program itself, or by the readings running out.) -/
theorem rt_same_transitions_run (peek : κ → Option ℚ) (kstep : κ → ρ) (cont : ρ → Option κ) (ops : List RtOp)
    (s : RtState ℚ κ) (clock : List ℚ) :
    (rtRun peek kstep cont ops s clock).results <+: plainRun kstep cont (ops.count RtOp.step) s.k ∧
    ((rtRun peek kstep cont ops s clock).ending = RunEnd.finished →
      (rtRun peek kstep cont ops s clock).results = plainRun kstep cont (ops.count RtOp.step) s.k) :=
  rtRun_results peek kstep cont ops s clock

/-- **… and `EmptySchedule` is raised by the paced step exactly when the plain step of the kernel model `K` raises
it** (`peek()` is `Infinity` iff the agenda is empty), for every program. -/
theorem rt_empty_iff_plain_empty {σ : Type} (body : σ → Resume → Burst ℚ σ) (fuel : Nat) (s : RtState ℚ (KState ℚ σ))
    (clock : List ℚ) :
    rtStep (fun k => peekTime k.agenda) (step body fuel) s clock = .emptySchedule ↔ step body fuel s.k = .empty := by
  rw [rtStep_empty_iff]
  exact peek_none_iff_step_empty body fuel s.k

/-- **Never early.**  If `step()` returns normally, the occurrence it processed was due at simulated time `t = peek()`
and the last value the wall clock showed before `Environment.step` ran is at or after
`real_start + (t - env_start) * factor`; that reading is one of the oracle's readings (`clock = pre ++ last :: rest`,
`rest` is left unread), and every reading of the sleep loop before it was still early. -/
theorem rt_never_early (peek : κ → Option ℚ) (kstep : κ → ρ) (s : RtState ℚ κ) (clock : List ℚ) (r : ρ)
    (sleeps : List ℚ) (last : ℚ) (rest : List ℚ) (h : rtStep peek kstep s clock = .stepped r sleeps last rest) :
    ∃ t, peek s.k = some t ∧ s.realStart + (t - s.envStart) * s.factor ≤ last ∧
      ∃ pre, clock = pre ++ last :: rest ∧
        ∀ c ∈ pre.drop (if s.strict then 1 else 0), c < s.realStart + (t - s.envStart) * s.factor := by
  obtain ⟨_, t, hp, hle, pre, hc, hpre, _⟩ := rtStep_stepped h
  exact ⟨t, hp, hle, pre, hc, hpre⟩

/-- **The strict rule.**  With the next occurrence due at simulated `t`, `step()` raises
`RuntimeError('Simulation too slow …')` exactly when the environment is strict and the first reading of the wall clock
is more than `factor` past the due instant; the `delta` it reports is the second reading minus the due instant. -/
theorem rt_strict_iff (peek : κ → Option ℚ) (kstep : κ → ρ) (s : RtState ℚ κ) (t c1 c2 : ℚ) (rest : List ℚ)
    (hp : peek s.k = some t) :
    (∃ d r, rtStep peek kstep s (c1 :: c2 :: rest) = .tooSlow d r) ↔
      (s.strict = true ∧ c1 - (s.realStart + (t - s.envStart) * s.factor) > s.factor) := by
  constructor
  · rintro ⟨d, r, h⟩
    obtain ⟨t', c1', c2', hp', hc, hs, hlt, _⟩ := rtStep_tooSlow_iff.mp h
    rw [hp] at hp'
    cases hp'
    cases hc
    exact ⟨hs, hlt⟩
  · rintro ⟨hs, hlt⟩
    exact ⟨c2 - dueTime s t, rest, rtStep_tooSlow_iff.mpr ⟨t, c1, c2, hp, rfl, hs, hlt, rfl⟩⟩

/-- **Never in non-strict mode**, whatever the clock does (and in strict mode never when the first reading is within
`factor` of the due instant). -/
theorem rt_never_raises_nonstrict (peek : κ → Option ℚ) (kstep : κ → ρ) (s : RtState ℚ κ) (clock : List ℚ)
    (d : ℚ) (rest : List ℚ) (h : rtStep peek kstep s clock = .tooSlow d rest) :
    s.strict = true ∧ ∃ t c1 c2, peek s.k = some t ∧ clock = c1 :: c2 :: rest ∧
      c1 - (s.realStart + (t - s.envStart) * s.factor) > s.factor ∧
      d = c2 - (s.realStart + (t - s.envStart) * s.factor) := by
  obtain ⟨t, c1, c2, hp, hc, hs, hlt, hd⟩ := rtStep_tooSlow_iff.mp h
  exact ⟨hs, t, c1, c2, hp, hc, hlt, hd⟩

/-- **`sync()` re-bases `real_start` to the moment of the call** and touches nothing else (in particular not the
kernel): a later `step()` that returns has waited until `c + (t - env_start) * factor`, where `c` is the reading
`sync()` took, and its strict test is relative to that instant. -/
theorem sync_rebases (peek : κ → Option ℚ) (kstep : κ → ρ) (s : RtState ℚ κ) (c : ℚ) :
    (sync s c).realStart = c ∧ (sync s c).k = s.k ∧ (sync s c).envStart = s.envStart ∧
    (sync s c).factor = s.factor ∧ (sync s c).strict = s.strict ∧
    (∀ clock r sleeps last rest, rtStep peek kstep (sync s c) clock = .stepped r sleeps last rest →
      r = kstep s.k ∧ ∃ t, peek s.k = some t ∧ c + (t - s.envStart) * s.factor ≤ last) ∧
    (∀ t c1 c2 rest, peek s.k = some t →
      ((∃ d r, rtStep peek kstep (sync s c) (c1 :: c2 :: rest) = .tooSlow d r) ↔
        (s.strict = true ∧ c1 - (c + (t - s.envStart) * s.factor) > s.factor))) := by
  refine ⟨rfl, rfl, rfl, rfl, rfl, ?_, ?_⟩
  · intro clock r sleeps last rest h
    obtain ⟨hr, t, hp, hle, _⟩ := rtStep_stepped h
    exact ⟨hr, t, hp, hle⟩
  · intro t c1 c2 rest hp
    exact rt_strict_iff peek kstep (sync s c) t c1 c2 rest hp

/-- **Progress of the sleep loop**: in non-strict mode (and in strict mode after a passed strict test) `step()` returns
as soon as the clock shows a reading at or after the due instant; without such a reading the finite oracle runs out
(`starved`) — the loop needs the clock to progress. -/
theorem sleep_loop_terminates (peek : κ → Option ℚ) (kstep : κ → ρ) (s : RtState ℚ κ) (t : ℚ) (clock : List ℚ)
    (hp : peek s.k = some t) (hs : s.strict = false)
    (hc : ∃ c ∈ clock, s.realStart + (t - s.envStart) * s.factor ≤ c) :
    ∃ sleeps last rest, rtStep peek kstep s clock = .stepped (kstep s.k) sleeps last rest := by
  obtain ⟨sleeps, last, rest, h⟩ := sleepLoop_terminates (due := dueTime s t) [] hc
  refine ⟨sleeps, last, rest, ?_⟩
  unfold rtStep
  rw [hp]
  simp only [strictPhase, hs, Bool.false_eq_true, if_false, sleepThenStep, h]

/-! ### The source, re-translated on every run, *is* the model (bridge theorems)

`Generated/Rt20.lean` is rewritten by `py2lean` (`more.py`) from the current `onl/sim/rt.py` before this file is compiled:
`RealtimeEnvironment.__init__`, `sync` and `step` as functions over an explicit list of `monotonic()` readings, in the order
in which CPython takes them.  `GenRt20.rtObj` reads a model state as the Python object, `GenRt20.toModel` reads the way the
translated `step` ends (`raise EmptySchedule()`, `raise RuntimeError(f'…{delta:.3f}…')`, the final `Environment.step(self)`)
as a result of `rtStep`.  The statements hold for **every** scalar type (`[Num α]`: `ℚ` of the theorems above and the `Float`
the driver runs at), every kernel (`peek`, `kstep`), every state and every list of readings. -/

/-- **`RealtimeEnvironment.step` as written in the source is the model's `rtStep`**: `EmptySchedule` iff `peek()` is
`Infinity`; the due instant `real_start + (evt_time - env_start) * factor`; in strict mode one reading for the test
`monotonic() - real_time > factor` and a second one for the reported `delta`; then one reading per iteration of the sleep
loop, which is left at the first reading with `real_time - reading <= 0` and sleeps `real_time - reading` otherwise; then
`Environment.step(self)` on the untouched kernel state.  (A flipped comparison, a reading more or less, another order of the
readings, a changed due instant make this fail to compile.) -/
theorem rt_step_generated_eq_model {α : Type} [Num α] (peek : κ → Option α) (kstep : κ → ρ) (s : RtState α κ)
    (clock : List α) :
    GenRt20.toModel kstep s.k (Gen.RealtimeEnvironment.step (GenRt20.rtObj s) (peek s.k) clock) =
      some (rtStep peek kstep s clock) :=
  GenRt20.step_eq peek kstep s clock

/-- **`sync()` as written in the source is the model's `sync`**: it takes one reading and stores it in `real_start`,
nothing else (without a reading left the run is `starved`, as in `rtRun`). -/
theorem rt_sync_generated_eq_model {α : Type} [Num α] (s : RtState α κ) (clock : List α) :
    Gen.RealtimeEnvironment.sync (GenRt20.rtObj s) clock =
      match clock with
      | [] => .starved
      | c :: rest => .returned (GenRt20.rtObj (sync s c)) rest :=
  GenRt20.sync_eq s clock

/-- **`__init__` as written in the source is the model's `create`**: whatever the object held before, after
`Environment.__init__(self, initial_time)` the constructor sets `env_start = initial_time`, takes one reading for
`real_start`, and stores `factor` and `strict`. -/
theorem rt_init_generated_eq_model {α : Type} [Num α] (o : Gen.RtObj α) (initialTime factor : α) (strict : Bool) (k : κ)
    (clock : List α) :
    Gen.RealtimeEnvironment.init o initialTime factor strict clock =
      match clock with
      | [] => .starved
      | c :: rest => .returned (GenRt20.rtObj (create initialTime factor strict c k)) rest :=
  GenRt20.init_eq o initialTime factor strict k clock

/-! ### non-vacuity (exact arithmetic): `initial_time = 2`, `factor = 1/2`, `real_start = 100`, next occurrence at 5,
hence due at `100 + (5 - 2)/2 = 101.5` -/

def exS (strict : Bool) : RtState ℚ (Option ℚ) :=
  { realStart := 100, envStart := 2, factor := 1/2, strict := strict, k := some 5 }

/-- strict, first reading 101 (early): one reading for the test, then sleep 1/2, the sleep returns early at 101.25,
sleep 1/4 more, 101.5 is on time -/
example : rtStep id (fun _ => ()) (exS true) [101, 101, 405/4, 203/2, 999] =
    .stepped () [1/2, 1/4] (203/2) [999] := by
  norm_num [rtStep, exS, strictPhase, dueTime, sleepThenStep, sleepLoop, zero_eq]

/-- lag exactly equal to `factor` (first reading 102 = 101.5 + 1/2): no error, no sleep -/
example : rtStep id (fun _ => ()) (exS true) [102, 102, 7] = .stepped () [] 102 [7] := by
  norm_num [rtStep, exS, strictPhase, dueTime, sleepThenStep, sleepLoop, zero_eq]

/-- lag above `factor`: the error, with `delta` from the second reading -/
example : rtStep id (fun _ => ()) (exS true) [1021/10, 103, 7] = .tooSlow (3/2) [7] := by
  norm_num [rtStep, exS, strictPhase, dueTime, sleepThenStep, sleepLoop, zero_eq]

/-- the same lag in non-strict mode: processed at once, nothing raised -/
example : rtStep id (fun _ => ()) (exS false) [1021/10, 103, 7] = .stepped () [] (1021/10) [103, 7] := by
  norm_num [rtStep, exS, strictPhase, dueTime, sleepThenStep, sleepLoop, zero_eq]

/-- after `sync()` at 200 the same occurrence is due at 201.5 -/
example : rtStep id (fun _ => ()) (sync (exS false) 200) [200, 203/1, 7] = .stepped () [3/2] 203 [7] := by
  norm_num [rtStep, exS, sync, strictPhase, dueTime, sleepThenStep, sleepLoop, zero_eq]

/-- a clock that never reaches the due instant starves the loop -/
example : rtStep id (fun _ => ()) (exS false) [100, 101, 101] = (.starved : RtResult ℚ Unit) := by
  norm_num [rtStep, exS, strictPhase, dueTime, sleepThenStep, sleepLoop, zero_eq]

/-- a run with a `sync()` in the middle: two kernel steps, as without pacing (the "kernel" counts down) -/
example : (rtRun (fun k : Nat => if k = 0 then none else some (k : ℚ)) (fun k => k - 1) some
      [.step, .sync, .step] { realStart := 0, envStart := 0, factor := 1, strict := false, k := 2 }
      [2, 10, 11]).results = [1, 0] := by
  norm_num [rtRun, rtStep, sync, strictPhase, dueTime, sleepThenStep, sleepLoop, zero_eq]

/-- the translated `step` on the first example above: one reading for the strict test, two sleeps, delegation at 101.5 -/
example : Gen.RealtimeEnvironment.step (GenRt20.rtObj (exS true)) (some 5) [101, 101, 405/4, 203/2, 999] =
    .delegated [1/2, 1/4] (203/2) [999] := by
  norm_num [Gen.RealtimeEnvironment.step, Gen.RealtimeEnvironment.step_loop1, GenRt20.rtObj, exS, zero_eq]

/-- … and on the too-slow example: `RuntimeError` (5) with `delta` from the second reading -/
example : Gen.RealtimeEnvironment.step (GenRt20.rtObj (exS true)) (some 5) [1021/10, 103, 7] = .raisedWith 5 (3/2) [7] := by
  norm_num [Gen.RealtimeEnvironment.step, GenRt20.rtObj, exS]

end C20
