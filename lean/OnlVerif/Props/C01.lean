import OnlVerif.Lemmas.KernelStep
import OnlVerif.Lemmas.OnceOrder
/-!
# C01 — events take effect in time order, urgent first, then in trigger order

Model: `OnlVerif/Kernel` (`Environment.schedule/step`, `Timeout`, `Initialize`, `Interruption`,
the numeric until-sentinel of `run`).  Time is exact (`ℚ`); the executable model runs at `Float`
and is compared bit for bit with the implementation by the correspondence check.
All theorems hold for every local-state type `σ` and every program `body`.
-/

namespace C01
variable {σ : Type}

open QEntry

/-- **The pop is the lexicographic minimum of `(time, priority, eid)`**, and popping removes exactly that entry. -/
theorem pop_is_minimum (l : List (QEntry ℚ)) (m : QEntry ℚ) (rest : List (QEntry ℚ))
    (h : popMin l = some (m, rest)) :
    l.Perm (m :: rest) ∧ ∀ x ∈ rest, ¬ KeyLt x m :=
  popMin_spec l m rest h

/-- **Simulated time never decreases**, whatever the step does (normal return, `StopSimulation`, or an
exception leaving `step()`), and the agenda invariant is kept. -/
theorem clock_monotone (body : σ → Resume → Burst ℚ σ) (fuel : Nat) (s s' : KState ℚ σ)
    (h : AgendaWF s) (hs : (step body fuel s).state? = some s') :
    s.now ≤ s'.now ∧ AgendaWF s' := by
  obtain ⟨q, rest, hq, hx⟩ := step_shape body fuel s s' hs
  have ho := openEvent_wf s q rest h hq
  exact ⟨by rw [hx.now_eq]; exact ho.2, ho.1.ext hx⟩

/-- **An occurrence takes effect exactly at its due time, in key order**: the step processes an entry `q` of the
agenda, sets the clock to exactly `q.time`, and `q` comes strictly before every other pending entry in
`(time, priority, eid)` order. -/
theorem takes_effect_at_due_time (body : σ → Resume → Burst ℚ σ) (fuel : Nat) (s s' : KState ℚ σ)
    (h : AgendaWF s) (hs : (step body fuel s).state? = some s') :
    ∃ q rest, popMin s.agenda = some (q, rest) ∧ q ∈ s.agenda ∧ s'.now = q.time ∧
      ∀ x ∈ rest, KeyLt q x := by
  obtain ⟨q, rest, hq, hx⟩ := step_shape body fuel s s' hs
  have sp := popMin_spec _ _ _ hq
  refine ⟨q, rest, hq, sp.1.symm.subset List.mem_cons_self, hx.now_eq, ?_⟩
  intro x hx'
  have hd := (List.Perm.pairwise_iff (R := fun a b : QEntry ℚ => a.eid ≠ b.eid) (fun {a b} h => h.symm) sp.1).mp h.distinct
  have hne : q.eid ≠ x.eid := (List.pairwise_cons.mp hd).1 x hx'
  rcases KeyLt.total hne with h1 | h1
  · exact h1
  · exact absurd h1 (sp.2 x hx')

/-- **Nothing pending is lost, duplicated or re-timed by a step**: the agenda after the step is the agenda before
without the processed entry, plus new entries in front; the new entries are due at the new `now` or later and
carry `eid`s larger than every `eid` issued before — so among equal `(time, priority)` they are processed after
everything that was triggered earlier (trigger order). -/
theorem pending_persist_and_new_are_later (body : σ → Resume → Burst ℚ σ) (fuel : Nat) (s s' : KState ℚ σ)
    (hs : (step body fuel s).state? = some s') :
    ∃ q rest new, popMin s.agenda = some (q, rest) ∧ s'.agenda = new ++ rest ∧
      ∀ n ∈ new, s'.now ≤ n.time ∧ s.eid ≤ n.eid := by
  obtain ⟨q, rest, hq, hx⟩ := step_shape body fuel s s' hs
  obtain ⟨new, ha, hp⟩ := hx.grows
  refine ⟨q, rest, new, hq, ha, ?_⟩
  intro n hn
  exact ⟨by rw [hx.now_eq]; exact (hp n hn).1, (hp n hn).2.1⟩

/-- **A timeout created at `t0` with delay `d ≥ 0` is due at exactly `t0 + d`** (NORMAL priority, fresh `eid`). -/
theorem timeout_due (s : KState ℚ σ) (self : EvId) (d : ℚ) (v : Val) (hd : 0 ≤ d) :
    ∃ e, (doCall s self (.timeout d v)).2 = .ev e ∧
      (doCall s self (.timeout d v)).1.agenda = { time := s.now + d, prio := NORMAL, eid := s.eid, ev := e } :: s.agenda := by
  have : ¬ d < (Num.zero : ℚ) := by rw [zero_eq]; exact not_lt.mpr hd
  simp only [doCall, this, if_false]
  exact ⟨_, rfl, rfl⟩

/-- **A negative delay is refused with `ValueError` and changes nothing.** -/
theorem negative_delay_refused (s : KState ℚ σ) (self : EvId) (d : ℚ) (v : Val) (hd : d < 0) :
    doCall s self (.timeout d v) = (s, .err (valueErr "Negative delay")) := by
  have : d < (Num.zero : ℚ) := by rw [zero_eq]; exact hd
  simp only [doCall, this, if_true]

/-- **Process starts are URGENT**: `env.process(...)` schedules the `Initialize` event at `now`, priority URGENT. -/
theorem process_start_urgent (s : KState ℚ σ) (self : EvId) (st : σ) :
    ∃ i, (doCall s self (.spawn st)).1.agenda = { time := s.now + Num.zero, prio := URGENT, eid := s.eid, ev := i } :: s.agenda :=
  ⟨_, rfl⟩

/-- **Interrupts are URGENT**: an accepted `interrupt()` schedules the `Interruption` at `now`, priority URGENT. -/
theorem interrupt_urgent (s : KState ℚ σ) (p : EvId) (c : Val) (h : (mkInterrupt s p c).2 = none) :
    ∃ iv, (mkInterrupt s p c).1.agenda = { time := s.now + Num.zero, prio := URGENT, eid := s.eid, ev := iv } :: s.agenda := by
  unfold mkInterrupt at h ⊢
  split
  · rename_i h1; rw [if_pos h1] at h; cases h
  · rename_i h1
    split
    · rename_i h2; rw [if_neg h1, if_pos h2] at h; cases h
    · exact ⟨_, rfl⟩

/-- **Every other trigger is NORMAL**: `succeed`, `fail`, process termination, condition and resource events all
go through `trigger`, which schedules at `now` with priority NORMAL. -/
theorem trigger_normal (s : KState ℚ σ) (e : EvId) (o : Outcome) :
    (s.trigger e o).agenda = { time := s.now + Num.zero, prio := NORMAL, eid := s.eid, ev := e } :: s.agenda := rfl

/-- an URGENT entry precedes every NORMAL entry of the same instant, whatever their `eid`s -/
theorem urgent_before_normal (a b : QEntry ℚ) (ht : a.time = b.time) (ha : a.prio = URGENT) (hb : b.prio = NORMAL) :
    KeyLt a b := Or.inr ⟨ht, Or.inl (by rw [ha, hb]; decide)⟩

/-- within one priority class of one instant, the earlier trigger (smaller `eid`) goes first -/
theorem trigger_order_within_class (a b : QEntry ℚ) (ht : a.time = b.time) (hp : a.prio = b.prio) (he : a.eid < b.eid) :
    KeyLt a b := Or.inr ⟨ht, Or.inr ⟨hp, he⟩⟩

/-! ### every reachable state -/

/-- states reachable by kernel steps (each step may end normally, by `StopSimulation` or by an exception) -/
inductive Reach (body : σ → Resume → Burst ℚ σ) (fuel : Nat) (s0 : KState ℚ σ) : KState ℚ σ → Prop
  | init : Reach body fuel s0 s0
  | step {s s'} : Reach body fuel s0 s → (step body fuel s).state? = some s' → Reach body fuel s0 s'

/-- **Along every run the clock is monotone and the agenda invariant holds**, for every program. -/
theorem reach_invariant (body : σ → Resume → Burst ℚ σ) (fuel : Nat) (s0 s : KState ℚ σ)
    (h0 : AgendaWF s0) (hr : Reach body fuel s0 s) : s0.now ≤ s.now ∧ AgendaWF s := by
  induction hr with
  | init => exact ⟨le_refl _, h0⟩
  | step _ hs ih =>
    have := clock_monotone body fuel _ _ ih.2 hs
    exact ⟨le_trans ih.1 this.1, this.2⟩

/-- the empty environment satisfies the invariant -/
theorem init_wf (t0 : ℚ) : AgendaWF ({ now := t0 } : KState ℚ σ) :=
  ⟨fun q hq => by simp at hq, fun q hq => by simp at hq, List.Pairwise.nil⟩

/-- the run-until sentinel: `run(until=at)` pushes it with priority URGENT for exactly the instant `at` -/
theorem sentinel_due (s : KState ℚ σ) (at_ : ℚ) (r : EvRec ℚ) :
    ((s.newEv r).1.scheduleAt (s.newEv r).2 URGENT at_).agenda =
      { time := at_, prio := URGENT, eid := s.eid, ev := s.events.size } :: s.agenda := rfl

/-- **Processing order over a whole run**: whenever a step pops entry `qi` and any later step of the run pops entry
`qj`, then `qi` precedes `qj` strictly in `(time, priority, eid)` order — *unless* `qj` was pushed only after `qi` had
been popped (it was not in the agenda then, and its `eid` was issued later).  This is the exact content of "never
earlier or later than due, urgent first, strictly in trigger order": nothing that was pending is ever overtaken. -/
theorem processed_order (body : σ → Resume → Burst ℚ σ) (fuel : Nat) (s0 s s' s2 : KState ℚ σ) (h0 : AgendaWF s0)
    (hr : KReach body fuel s0 s) (qi : QEntry ℚ) (resti : List (QEntry ℚ)) (hqi : popMin s.agenda = some (qi, resti))
    (hs : (step body fuel s).state? = some s') (hr2 : KReach body fuel s' s2)
    (qj : QEntry ℚ) (restj : List (QEntry ℚ)) (hqj : popMin s2.agenda = some (qj, restj)) :
    KeyLt qi qj ∨ (qj ∉ s.agenda ∧ s.eid ≤ qj.eid) :=
  Once.processed_order body fuel s0 s s' s2 h0 hr qi resti hqi hs hr2 qj restj hqj

/-- …in particular **the clock values at which two entries are processed are ordered like the entries**: a later
step never runs at an earlier time. -/
theorem processed_times_monotone (body : σ → Resume → Burst ℚ σ) (fuel : Nat) (s0 s s' s2 : KState ℚ σ) (h0 : AgendaWF s0)
    (hr : KReach body fuel s0 s) (qi : QEntry ℚ) (resti : List (QEntry ℚ)) (hqi : popMin s.agenda = some (qi, resti))
    (hs : (step body fuel s).state? = some s') (hr2 : KReach body fuel s' s2)
    (qj : QEntry ℚ) (restj : List (QEntry ℚ)) (hqj : popMin s2.agenda = some (qj, restj)) :
    qi.time ≤ qj.time := by
  have hw : AgendaWF s := (Once.reach_agenda body fuel s0 s h0 hr).1
  obtain ⟨q, rest, hq, hx⟩ := step_shape body fuel s s' hs
  rw [hqi] at hq; cases hq
  have hw' : AgendaWF s' := (openEvent_wf s qi resti hw hqi).1.ext hx
  have hw2 := (Once.reach_agenda body fuel s' s2 hw' hr2).1
  have hnow : s'.now = qi.time := hx.now_eq
  rw [← hnow]
  exact le_trans (Once.reach_now_mono body fuel s' s2 hw' hr2)
    (hw2.due qj ((popMin_spec _ _ _ hqj).1.symm.subset List.mem_cons_self))

/-! ### non-vacuity: a concrete state with a same-instant URGENT/NORMAL coincidence -/

example : AgendaWF ({ now := 1, eid := 3, agenda :=
    [⟨1, NORMAL, 0, 0⟩, ⟨1, URGENT, 2, 2⟩, ⟨5 / 2, NORMAL, 1, 1⟩] } : KState ℚ Unit) := by
  refine ⟨?_, ?_, ?_⟩
  · intro q hq; simp at hq; rcases hq with rfl | rfl | rfl <;> norm_num
  · intro q hq; simp at hq; rcases hq with rfl | rfl | rfl <;> simp
  · simp

end C01
