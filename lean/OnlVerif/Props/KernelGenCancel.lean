import OnlVerif.Lemmas.GenKernelCancel
/-!
# KernelGenCancel - `Put.cancel` / `Get.cancel` *as written in the source* are the kernel model `K` (C06 and C07)

One of the bridge modules into which `Props/KernelGen.lean` was split, one per owning property (`py2lean/SCOPE.md`): `py2lean/kernel.py`
regenerates the `Generated/Kernel*.lean` files named in the imports from `onl/sim` on every `./check` of the owning property, and the
theorems below (bridge theorems) prove that the generated definitions coincide with the functions of the hand-written kernel
model `K` (`Kernel/Agenda.lean`, `Ops.lean`, `Step.lean`) that the property theorems are about.  A flipped comparison, a changed
constant, priority or refusal, a lost or reordered effect in the source changes a generated definition and one of these proofs
no longer compiles - for every input, not for sampled ones.  Here: `cancelReq` (remove from the queue, then rescan it), which both C06 and C07 name; the generator also checks the shape of the scan loops `_trigger_put` / `_trigger_get` and of `Put.__init__` / `Get.__init__` that both properties rest on.

The encoding between the generated object views and the model state is explicit and hand-written
(`OnlVerif/Lemmas/GenKernelDefs.lean`: `resObj`, `runEff`, `buildEvent`, `applyTrig`, `toEntry`; the `run…` functions next to the
lemmas).  All statements hold for every scalar type `τ` (no arithmetic identity is used), in particular for `ℚ` and `Float`.
This module imports no generated file of another property.
-/

namespace KernelGen
open GenKernel
variable {τ σ : Type} [Num τ]

/-! ## cancellation (C06: "cancellations ... pass the slot on"; C07: "also after other requests have been cancelled") -/

/-- **`Put.cancel` / `Get.cancel` as written in the source are the model's `cancelReq`**: nothing for a triggered request;
otherwise remove it from its queue *and rescan that queue*.  (The request is in its queue - `queues_hold_pending_requests`,
C07 - otherwise `list.remove` raises, which the model reports as `ValueError`.) -/
theorem cancel_generated_eq_model (s : KState τ σ) (e : EvId) (r : ResId) :
    ((s.ev e).kind = .put r → (s.triggered e = false → (s.res r).putQ.contains e = true) →
      runPutCancel { r := r, e := e } s = some (cancelReq s e).1 ∧ (cancelReq s e).2 = none) ∧
    ((s.ev e).kind = .get r → (s.triggered e = false → (s.res r).getQ.contains e = true) →
      runGetCancel { r := r, e := e } s = some (cancelReq s e).1 ∧ (cancelReq s e).2 = none) :=
  ⟨put_cancel_run s e r, get_cancel_run s e r⟩

/-! ## non-vacuity: the generated definitions on concrete objects -/

/-- cancelling a pending request removes it and rescans; cancelling a triggered one does nothing -/
example : (Gen.Put.cancel (reqObj (τ := Rat)) false).eff.length = 2 ∧ (Gen.Put.cancel (reqObj (τ := Rat)) true).eff.length = 0 ∧
    (Gen.Get.cancel (reqObj (τ := Rat)) false).eff.length = 2 := by
  decide

end KernelGen
