import OnlVerif.Lemmas.TokenBucket
import OnlVerif.Lemmas.TwoRate
import OnlVerif.Lemmas.GenBucket
/-!
# C11 — token-bucket output conforms to (rate, bucket) and delays nothing needlessly

Models: `OnlVerif/Net/Fifo.lean` (the FifoServer LTS) instantiated with `OnlVerif/Net/TokenBucket.lean` and
`OnlVerif/Net/TwoRate.lean`.  "For all arrival workloads, rates, bucket sizes and peak rates" = for every action
sequence the LTS accepts (`Fifo.runActs … = .ok …`) from the initial state (bucket(s) full, `update_time = 0`, clock
`t0 ≥ 0`), for every configuration with positive rates and non-negative bucket sizes (`Good`).  Time and token levels
are exact rationals; the correspondence check replays the real classes through these models bit for bit.

Ghost logs (newest first): `TbSt.log` = (token-debit instant, size), `TbSt.outLog` = (departure instant, size),
`TrSt.log` = (debit instant, size, colour); `tb_log_records` / `tworate_log_records` tie them to the LTS's steps.
`Envelope.Conforms B r log` is the envelope over **every** stretch `i ≤ j` of the log (see `tb_envelope`).
-/

namespace C11
open Fifo Envelope

/-! ## TokenBucket -/

def tbStart (c : TbCfg ℚ) (t0 : ℚ) : FState ℚ (TbSt ℚ) := Fifo.init (TokenBucket.st0 c) t0

/-- **The debit log is what happened**: it grows only by a debit of the packet the server holds, stamped with the
current instant (the two debit steps are characterised by `tb_release` and `tb_release_fire`); the departure log
grows exactly when a packet is forwarded. -/
theorem tb_log_records (c : TbCfg ℚ) (s s' : FState ℚ (TbSt ℚ)) (a : FAct ℚ) (o : FOut ℚ)
    (h : step (TokenBucket.dev c) s a = .ok (s', o)) : TokenBucket.LogStep s s' o :=
  TokenBucket.log_step c s s' a o h

/-- **Release, when the packet reaches the head of the queue** (the server takes `p` at `now`).  With
`L = min(B, level + r·(now − update_time)/8)`:
* `size ≤ L`: the tokens are debited now (`level = L − size`, logged at `now`), and `p` is forwarded now — or exactly
  `8·size/peak` later when a peak rate is set;
* `L < size`: nothing is debited; the server sleeps for exactly the missing tokens: the wait `w` satisfies
  `L + r·w/8 = size`, and for every shorter wait the bucket would still be short — the *earliest* conforming instant. -/
theorem tb_release (c : TbCfg ℚ) (hg : TokenBucket.Good c) (s s' : FState ℚ (TbSt ℚ)) (x y : ℚ) (o : FOut ℚ)
    (p : Pkt ℚ) (hp : s.handed = some p) (h : step (TokenBucket.dev c) s (.resume x y) = .ok (s', o))
    (L : ℚ) (hL : L = min c.bucket (s.dev.level + c.rate * (s.now - s.dev.upd) / 8)) :
    ((p.size : ℚ) ≤ L →
      s'.dev.level = L - p.size ∧ s'.dev.upd = s.now ∧ s'.dev.log = (s.now, p.size) :: s.dev.log ∧
      (∀ k, TokenBucket.peakOn c = some k → o = .nothing ∧ s'.tx = some (p, s.now + (p.size : ℚ) * 8 / k, 0)) ∧
      (TokenBucket.peakOn c = none → o = .depart p)) ∧
    (L < p.size →
      o = .nothing ∧ s'.dev.level = L ∧ s'.dev.upd = s.now ∧ s'.dev.log = s.dev.log ∧ s'.dev.tokWait = true ∧
      ∃ w, s'.tx = some (p, s.now + w, 0) ∧ L + c.rate * w / 8 = p.size ∧
        ∀ w', w' < w → L + c.rate * w' / 8 < p.size) := by
  have hLe : TokenBucket.refillLevel c s.dev s.now = L := by rw [TokenBucket.refillLevel_eq, hL]
  have hr : c.rate ≠ 0 := ne_of_gt hg.rate
  simp only [step, hp, TokenBucket.dev_onResume] at h
  rcases TokenBucket.onResume_cases c s.dev s.now x y p with ⟨hs, he⟩ | ⟨hs, k, hk, he⟩ | ⟨hs, hk, he⟩
  · rw [he] at h
    simp only [proceed, Except.ok.injEq, Prod.mk.injEq] at h
    obtain ⟨rfl, rfl⟩ := h
    rw [hLe] at hs
    refine ⟨fun hc => absurd hs (not_lt.mpr hc), fun _ => ⟨rfl, hLe, rfl, rfl, rfl, ?_⟩⟩
    refine ⟨TokenBucket.tokenWait c (TokenBucket.refillLevel c s.dev s.now) p, rfl, ?_, ?_⟩
    · rw [TokenBucket.tokenWait_eq, hLe]; field_simp; ring
    · intro w' hw'
      rw [TokenBucket.tokenWait_eq, hLe] at hw'
      have h1 : c.rate * w' < c.rate * (((p.size : ℚ) - L) * 8 / c.rate) := mul_lt_mul_of_pos_left hw' hg.rate
      have h2 : c.rate * (((p.size : ℚ) - L) * 8 / c.rate) = ((p.size : ℚ) - L) * 8 := by field_simp
      rw [h2] at h1
      linarith
  · rw [he] at h
    simp only [proceed, Except.ok.injEq, Prod.mk.injEq] at h
    obtain ⟨rfl, rfl⟩ := h
    rw [hLe] at hs
    refine ⟨fun _ => ⟨?_, rfl, rfl, ?_, ?_⟩, fun hc => absurd hc hs⟩
    · show TokenBucket.refillLevel c s.dev s.now - (p.size : ℚ) = L - p.size
      rw [hLe]
    · intro k' hk'
      rw [hk] at hk'; cases hk'
      exact ⟨rfl, (by rw [TokenBucket.peakWait_eq])⟩
    · intro hn; rw [hk] at hn; cases hn
  · rw [he] at h
    simp only [proceed, Except.ok.injEq, Prod.mk.injEq] at h
    obtain ⟨rfl, rfl⟩ := h
    rw [hLe] at hs
    refine ⟨fun _ => ⟨?_, ?_, ?_, ?_, fun _ => rfl⟩, fun hc => absurd hc hs⟩
    · rw [issueGet_dev']
      show TokenBucket.refillLevel c s.dev s.now - (p.size : ℚ) = L - p.size
      rw [hLe]
    · rw [issueGet_dev']; rfl
    · rw [issueGet_dev']; rfl
    · intro k' hk'; rw [hk] at hk'; cases hk'

/-- **Release, when a timeout of the server fires.**  It fires exactly at its due instant, and the clock cannot pass
it.  After the wait for tokens the level is 0, `update_time` and the debit log carry the due instant, and `p` is
forwarded then — or `8·size/peak` later when a peak rate is set.  After the peak spacing `p` is forwarded. -/
theorem tb_release_fire (c : TbCfg ℚ) (s : FState ℚ (TbSt ℚ)) (p : Pkt ℚ) (due : ℚ) (k : Nat)
    (htx : s.tx = some (p, due, k)) :
    (∀ s' o, step (TokenBucket.dev c) s .fire = .ok (s', o) → s.now = due ∧
      (s.dev.tokWait = true →
        s'.dev.level = 0 ∧ s'.dev.upd = due ∧ s'.dev.log = (due, p.size) :: s.dev.log ∧
        (∀ r, TokenBucket.peakOn c = some r → o = .nothing ∧ s'.tx = some (p, due + (p.size : ℚ) * 8 / r, k + 1)) ∧
        (TokenBucket.peakOn c = none → o = .depart p)) ∧
      (s.dev.tokWait = false → o = .depart p ∧ s'.dev.log = s.dev.log)) ∧
    (∀ t s' o, step (TokenBucket.dev c) s (.tick t) = .ok (s', o) → t ≤ due) := by
  have hz : (Num.zero : ℚ) = 0 := zero_eq'
  constructor
  · intro s' o h
    have hnow : s.now = due := by
      have ht := step_trans _ _ _ _ _ h
      cases ht with
      | fireEmit p' due' k' htx' hnow hn => rw [htx] at htx'; cases htx'; exact hnow
      | fireLose p' due' k' htx' hnow hn => rw [htx] at htx'; cases htx'; exact hnow
      | fireWait p' due' k' dt htx' hnow hn => rw [htx] at htx'; cases htx'; exact hnow
    refine ⟨hnow, ?_⟩
    simp only [step, htx, TokenBucket.dev_onFire] at h
    rw [if_neg (by rw [hnow]; exact lt_irrefl _), if_neg (by rw [hnow]; exact lt_irrefl _)] at h
    rcases TokenBucket.onFire_cases c s.dev s.now k p with ⟨hw, r, hr, he⟩ | ⟨hw, hr, he⟩ | ⟨hw, he⟩
    · rw [he] at h
      simp only [proceed, Except.ok.injEq, Prod.mk.injEq] at h
      obtain ⟨rfl, rfl⟩ := h
      refine ⟨fun _ => ⟨hz, hnow, (by rw [← hnow]; rfl), ?_, ?_⟩, fun hc => (by rw [hw] at hc; cases hc)⟩
      · intro r' hr'
        rw [hr] at hr'; cases hr'
        exact ⟨rfl, (by rw [TokenBucket.peakWait_eq, ← hnow])⟩
      · intro hn; rw [hr] at hn; cases hn
    · rw [he] at h
      simp only [proceed, Except.ok.injEq, Prod.mk.injEq] at h
      obtain ⟨rfl, rfl⟩ := h
      refine ⟨fun _ => ⟨?_, ?_, ?_, ?_, fun _ => rfl⟩, fun hc => (by rw [hw] at hc; cases hc)⟩
      · rw [issueGet_dev']; exact hz
      · rw [issueGet_dev']; exact hnow
      · rw [issueGet_dev', ← hnow]; rfl
      · intro r' hr'; rw [hr] at hr'; cases hr'
    · rw [he] at h
      simp only [proceed, Except.ok.injEq, Prod.mk.injEq] at h
      obtain ⟨rfl, rfl⟩ := h
      refine ⟨fun hc => (by rw [hw] at hc; cases hc), fun _ => ⟨rfl, ?_⟩⟩
      rw [issueGet_dev']; rfl
  · intro t s' o h
    exact ((tick_ok_iff _ s t).mp ⟨s', o, h⟩).2.2.2.2 p due k htx

/-- **Level bounds**: in every reachable state `0 ≤ level ≤ bucket_size` (in particular after every debit and after
every refill) and `update_time ≤ now`. -/
theorem tb_level_bounds (c : TbCfg ℚ) (hg : TokenBucket.Good c) (t0 : ℚ) (h0 : 0 ≤ t0) (as : List (FAct ℚ))
    (s : FState ℚ (TbSt ℚ)) (ins outs : List Nat) (h : runActs (TokenBucket.dev c) (tbStart c t0) as = .ok (s, ins, outs)) :
    0 ≤ s.dev.level ∧ s.dev.level ≤ c.bucket ∧ s.dev.upd ≤ s.now := by
  have hi := (TokenBucket.run_inv c hg t0 h0 as s ins outs h).2.1
  exact ⟨hi.lvl0, hi.lvlB, hi.updLe⟩

/-- **The (rate, bucket) envelope, for all i ≤ j.**  After any admissible action sequence, take any two debits `ei`
(earlier) and `ej` (later) of the debit log with the debits `mid` between them:
`size_i + … + size_j ≤ max(bucket_size, size_i) + rate·(t_j − t_i)/8` over the token-debit instants.
(For `i = j` the statement is `size_i ≤ max(bucket_size, size_i)`, `Envelope.single_conforms`.) -/
theorem tb_envelope (c : TbCfg ℚ) (hg : TokenBucket.Good c) (t0 : ℚ) (h0 : 0 ≤ t0) (as : List (FAct ℚ))
    (s : FState ℚ (TbSt ℚ)) (ins outs : List Nat) (h : runActs (TokenBucket.dev c) (tbStart c t0) as = .ok (s, ins, outs))
    (newer mid older : List (ℚ × ℕ)) (ej ei : ℚ × ℕ) (hlog : s.dev.log = newer ++ ej :: (mid ++ ei :: older)) :
    (ej.2 : ℚ) + bytes mid + ei.2 ≤ max c.bucket ei.2 + c.rate * (ej.1 - ei.1) / 8 :=
  (TokenBucket.run_inv c hg t0 h0 as s ins outs h).2.1.conf newer ej mid ei older hlog

/-- **Peak spacing**: with a peak rate set, consecutive departures `e1` then `e2` are at least `8·size₂/peak` apart. -/
theorem tb_peak_spacing (c : TbCfg ℚ) (hg : TokenBucket.Good c) (t0 : ℚ) (h0 : 0 ≤ t0) (as : List (FAct ℚ))
    (s : FState ℚ (TbSt ℚ)) (ins outs : List Nat) (h : runActs (TokenBucket.dev c) (tbStart c t0) as = .ok (s, ins, outs))
    (r : ℚ) (hr : c.peak = some r) (hr0 : r ≠ 0)
    (newer older : List (ℚ × ℕ)) (e2 e1 : ℚ × ℕ) (hlog : s.dev.outLog = newer ++ e2 :: e1 :: older) :
    e1.1 + (e2.2 : ℚ) * 8 / r ≤ e2.1 :=
  (TokenBucket.run_inv c hg t0 h0 as s ins outs h).2.2.spaced r ((Num.optOn_iff c.peak r).mpr ⟨hr, hr0⟩) newer e2 e1 older hlog

/-- **First in first out, nothing lost**: no step ever refuses or discards a packet; the accepted packets are, in
order, exactly those that left followed by those still inside; at quiescence all have left. -/
theorem tb_lossless_fifo (c : TbCfg ℚ) :
    (∀ s a s' o, step (TokenBucket.dev c) s a = .ok (s', o) → o ≠ .dropped ∧ ∀ q, o ≠ .lost q) ∧
    (∀ t0 as s ins outs, runActs (TokenBucket.dev c) (tbStart c t0) as = .ok (s, ins, outs) →
      ins = outs ++ held s ∧ (Quiescent s → ins = outs)) := by
  refine ⟨fun s a s' o h => TokenBucket.never_loses c s s' a o h, ?_⟩
  intro t0 as s ins outs h
  have hcons := run_conserves (TokenBucket.dev c) (TokenBucket.idPreserving c) as (tbStart c t0) s ins outs (init_shape _ _) h
  have hio : ins = outs ++ held s := by simpa [tbStart, init_held] using hcons.1
  exact ⟨hio, fun hq => (by rw [hio, quiescent_held_empty s hcons.2 hq, List.append_nil])⟩

/-! ## TwoRateTokenBucket -/

def trStart (c : TrCfg ℚ) (t0 : ℚ) : FState ℚ (TrSt ℚ) := Fifo.init (TwoRate.st0 c) t0

open TwoRate in
/-- **The log is what happened**: in a reachable state, the log grows exactly when a packet is forwarded, by
(current instant, size, colour of the forwarded packet); no step refuses or discards a packet. -/
theorem tworate_log_records (c : TrCfg ℚ) (hg : Good c) (t0 : ℚ) (h0 : 0 ≤ t0) (as : List (FAct ℚ))
    (s : FState ℚ (TrSt ℚ)) (ins outs : List Nat) (h : runActs (dev c) (trStart c t0) as = .ok (s, ins, outs))
    (a : FAct ℚ) (s' : FState ℚ (TrSt ℚ)) (o : FOut ℚ) (hs : step (dev c) s a = .ok (s', o)) :
    LogStep s s' o ∧ o ≠ .dropped ∧ ∀ q, o ≠ .lost q :=
  log_step c hg s s' a o (run_inv c hg t0 h0 as s ins outs h).2 hs

open TwoRate in
/-- **Colour rule with PIR** (the server takes `p` at `now`; `cm`, `pk` are the committed and peak levels after the
refill `min(cap, level + rate·(now − update_time)/8)`):
* both buckets cover the packet → forwarded now, **green**, both buckets pay;
* only the committed tokens are short → forwarded now, **yellow**, the peak bucket pays and the committed bucket is
  emptied;
* the peak tokens are short → nothing is forwarded; the server sleeps exactly `(size − pk)·8/PIR`, both refilled
  levels are kept (`colour_after_wait`: it then leaves **red**). -/
theorem colour_rule (c : TrCfg ℚ) (s s' : FState ℚ (TrSt ℚ)) (x y : ℚ) (o : FOut ℚ) (p : Pkt ℚ) (k b pl : ℚ)
    (hk : pirOn c = some k) (hb : pbsOn c = some b) (hpl : s.dev.peak = some pl) (hp : s.handed = some p)
    (h : step (dev c) s (.resume x y) = .ok (s', o)) (cm pk : ℚ)
    (hcm : cm = min c.cbs (s.dev.commit + c.cir * (s.now - s.dev.upd) / 8))
    (hpk : pk = min b (pl + k * (s.now - s.dev.upd) / 8)) :
    ((p.size : ℚ) ≤ pk ∧ (p.size : ℚ) ≤ cm →
      o = .depart (paint p green) ∧ s'.dev.commit = cm - p.size ∧ s'.dev.peak = some (pk - p.size) ∧ s'.dev.upd = s.now) ∧
    ((p.size : ℚ) ≤ pk ∧ cm < p.size →
      o = .depart (paint p yellow) ∧ s'.dev.commit = 0 ∧ s'.dev.peak = some (pk - p.size) ∧ s'.dev.upd = s.now) ∧
    (pk < p.size →
      o = .nothing ∧ s'.dev.commit = cm ∧ s'.dev.peak = some pk ∧ s'.dev.upd = s.now ∧
      s'.tx = some (p, s.now + ((p.size : ℚ) - pk) * 8 / k, 0)) := by
  have ecm : cmOf c s.dev s.now = cm := by rw [hcm]; rfl
  have epk : pkOf b k pl s.dev s.now = pk := by rw [hpk]; rfl
  simp only [step, hp, dev_onResume] at h
  rw [onResume_pir c s.dev s.now x y p k b pl hk hb hpl] at h
  rcases resumePir_cases c s.dev s.now p k b pl with ⟨h1, he⟩ | ⟨h1, h2, he⟩ | ⟨h1, h2, he⟩
  · rw [he] at h
    simp only [proceed, Except.ok.injEq, Prod.mk.injEq] at h
    obtain ⟨rfl, rfl⟩ := h
    rw [epk] at h1
    refine ⟨fun hc => absurd h1 (not_lt.mpr hc.1), fun hc => absurd h1 (not_lt.mpr hc.1), fun _ => ?_⟩
    exact ⟨rfl, ecm, (by rw [← epk]; rfl), rfl, (by rw [tokenWait_eq, epk])⟩
  · rw [he] at h
    simp only [proceed, Except.ok.injEq, Prod.mk.injEq] at h
    obtain ⟨rfl, rfl⟩ := h
    rw [epk] at h1; rw [ecm] at h2
    refine ⟨fun hc => absurd h2 (not_lt.mpr hc.2), fun _ => ?_, fun hc => absurd hc h1⟩
    rw [issueGet_dev']
    exact ⟨rfl, zero', (by rw [← epk]; rfl), rfl⟩
  · rw [he] at h
    simp only [proceed, Except.ok.injEq, Prod.mk.injEq] at h
    obtain ⟨rfl, rfl⟩ := h
    rw [epk] at h1; rw [ecm] at h2
    refine ⟨fun _ => ?_, fun hc => absurd hc.2 h2, fun hc => absurd hc h1⟩
    rw [issueGet_dev']
    exact ⟨rfl, (by rw [← ecm]; rfl), (by rw [← epk]; rfl), rfl⟩

open TwoRate in
/-- **Colour rule without PIR**: green and forwarded now when the committed bucket (CIR, CBS) covers the packet;
otherwise the server sleeps exactly `(size − cm)·8/CIR` (`colour_after_wait`: it then leaves **yellow**). -/
theorem colour_rule_no_pir (c : TrCfg ℚ) (s s' : FState ℚ (TrSt ℚ)) (x y : ℚ) (o : FOut ℚ) (p : Pkt ℚ)
    (hk : pirOn c = none) (hp : s.handed = some p) (h : step (dev c) s (.resume x y) = .ok (s', o)) (cm : ℚ)
    (hcm : cm = min c.cbs (s.dev.commit + c.cir * (s.now - s.dev.upd) / 8)) :
    ((p.size : ℚ) ≤ cm → o = .depart (paint p green) ∧ s'.dev.commit = cm - p.size ∧ s'.dev.upd = s.now) ∧
    (cm < p.size → o = .nothing ∧ s'.dev.commit = cm ∧ s'.dev.upd = s.now ∧
      s'.tx = some (p, s.now + ((p.size : ℚ) - cm) * 8 / c.cir, 0)) := by
  have ecm : cmOf c s.dev s.now = cm := by rw [hcm]; rfl
  simp only [step, hp, dev_onResume] at h
  rw [onResume_cir c s.dev s.now x y p hk] at h
  rcases resumeCir_cases c s.dev s.now p with ⟨h2, he⟩ | ⟨h2, he⟩
  · rw [he] at h
    simp only [proceed, Except.ok.injEq, Prod.mk.injEq] at h
    obtain ⟨rfl, rfl⟩ := h
    rw [ecm] at h2
    exact ⟨fun hc => absurd h2 (not_lt.mpr hc), fun _ => ⟨rfl, ecm, rfl, (by rw [tokenWait_eq, ecm])⟩⟩
  · rw [he] at h
    simp only [proceed, Except.ok.injEq, Prod.mk.injEq] at h
    obtain ⟨rfl, rfl⟩ := h
    rw [ecm] at h2
    refine ⟨fun _ => ?_, fun hc => absurd hc h2⟩
    rw [issueGet_dev']
    exact ⟨rfl, (by rw [← ecm]; rfl), rfl⟩

open TwoRate in
/-- **A packet that had to wait** leaves exactly when its wait is over (the clock cannot pass that instant): **red**
with PIR (peak bucket emptied), **yellow** without (committed bucket emptied); `update_time` is that instant. -/
theorem colour_after_wait (c : TrCfg ℚ) (s : FState ℚ (TrSt ℚ)) (p : Pkt ℚ) (due : ℚ) (n : Nat)
    (htx : s.tx = some (p, due, n)) :
    (∀ s' o, step (dev c) s .fire = .ok (s', o) → s.now = due ∧ s'.dev.upd = due ∧
      (∀ k, pirOn c = some k → o = .depart (paint p red) ∧ s'.dev.peak = some 0 ∧ s'.dev.commit = s.dev.commit) ∧
      (pirOn c = none → o = .depart (paint p yellow) ∧ s'.dev.commit = 0)) ∧
    (∀ t s' o, step (dev c) s (.tick t) = .ok (s', o) → t ≤ due) := by
  constructor
  · intro s' o h
    have hnow : s.now = due := by
      have ht := step_trans _ _ _ _ _ h
      cases ht with
      | fireEmit p' due' k' htx' hnow hn => rw [htx] at htx'; cases htx'; exact hnow
      | fireLose p' due' k' htx' hnow hn => rw [htx] at htx'; cases htx'; exact hnow
      | fireWait p' due' k' dt htx' hnow hn => rw [htx] at htx'; cases htx'; exact hnow
    simp only [step, htx, dev_onFire] at h
    rw [if_neg (by rw [hnow]; exact lt_irrefl _), if_neg (by rw [hnow]; exact lt_irrefl _)] at h
    cases hk : pirOn c with
    | some k =>
      rw [onFire_pir c s.dev s.now n p k hk] at h
      simp only [proceed, Except.ok.injEq, Prod.mk.injEq] at h
      obtain ⟨rfl, rfl⟩ := h
      rw [issueGet_dev']
      refine ⟨hnow, hnow, fun k' _ => ⟨rfl, ?_, rfl⟩, fun hn => (by cases hn)⟩
      show some (Num.zero : ℚ) = some 0
      rw [zero']
    | none =>
      rw [onFire_cir c s.dev s.now n p hk] at h
      simp only [proceed, Except.ok.injEq, Prod.mk.injEq] at h
      obtain ⟨rfl, rfl⟩ := h
      rw [issueGet_dev']
      exact ⟨hnow, hnow, fun k' hk' => (by cases hk'), fun _ => ⟨rfl, zero'⟩⟩
  · intro t s' o h
    exact ((tick_ok_iff _ s t).mp ⟨s', o, h⟩).2.2.2.2 p due n htx

open TwoRate in
/-- **Colour rule, as equivalences** (with PIR, when the packet reaches the head): it is forwarded at once iff the peak
bucket covers it, and then it is green iff the committed bucket covers it too, yellow iff not — never red; red is
exactly "had to wait for peak tokens" (`colour_after_wait`). -/
theorem colour_rule_iff (c : TrCfg ℚ) (s s' : FState ℚ (TrSt ℚ)) (x y : ℚ) (o : FOut ℚ) (p : Pkt ℚ) (k b pl : ℚ)
    (hk : pirOn c = some k) (hb : pbsOn c = some b) (hpl : s.dev.peak = some pl) (hp : s.handed = some p)
    (h : step (dev c) s (.resume x y) = .ok (s', o)) (cm pk : ℚ)
    (hcm : cm = min c.cbs (s.dev.commit + c.cir * (s.now - s.dev.upd) / 8))
    (hpk : pk = min b (pl + k * (s.now - s.dev.upd) / 8)) :
    ((∃ q, o = .depart q) ↔ (p.size : ℚ) ≤ pk) ∧
    (∀ q, o = .depart q → (q.color = green ↔ (p.size : ℚ) ≤ cm) ∧ (q.color = yellow ↔ cm < p.size) ∧ q.color ≠ red) := by
  obtain ⟨hG, hY, hR⟩ := colour_rule c s s' x y o p k b pl hk hb hpl hp h cm pk hcm hpk
  by_cases h1 : (p.size : ℚ) ≤ pk
  · by_cases h2 : (p.size : ℚ) ≤ cm
    · obtain ⟨ho, _⟩ := hG ⟨h1, h2⟩
      subst ho
      refine ⟨⟨fun _ => h1, fun _ => ⟨_, rfl⟩⟩, ?_⟩
      intro q hq
      cases hq
      exact ⟨⟨fun _ => h2, fun _ => rfl⟩, ⟨fun hc => (by cases hc), fun hc => absurd h2 (not_le.mpr hc)⟩, (by show green ≠ red; decide)⟩
    · have h2' : cm < p.size := not_le.mp h2
      obtain ⟨ho, _⟩ := hY ⟨h1, h2'⟩
      subst ho
      refine ⟨⟨fun _ => h1, fun _ => ⟨_, rfl⟩⟩, ?_⟩
      intro q hq
      cases hq
      exact ⟨⟨fun hc => (by cases hc), fun hc => absurd hc h2⟩, ⟨fun _ => h2', fun _ => rfl⟩, (by show yellow ≠ red; decide)⟩
  · obtain ⟨ho, _⟩ := hR (not_le.mp h1)
    subst ho
    exact ⟨⟨fun ⟨q, hq⟩ => (by cases hq), fun hc => absurd hc h1⟩, fun q hq => (by cases hq)⟩

open TwoRate in
/-- **Green traffic conforms to (CIR, CBS), for all i ≤ j**: over any stretch of the green debits,
`size_i + … + size_j ≤ max(CBS, size_i) + CIR·(t_j − t_i)/8`. -/
theorem green_conforms (c : TrCfg ℚ) (hg : Good c) (t0 : ℚ) (h0 : 0 ≤ t0) (as : List (FAct ℚ))
    (s : FState ℚ (TrSt ℚ)) (ins outs : List Nat) (h : runActs (dev c) (trStart c t0) as = .ok (s, ins, outs))
    (newer mid older : List (ℚ × ℕ)) (ej ei : ℚ × ℕ) (hlog : greens s.dev.log = newer ++ ej :: (mid ++ ei :: older)) :
    (ej.2 : ℚ) + bytes mid + ei.2 ≤ max c.cbs ei.2 + c.cir * (ej.1 - ei.1) / 8 :=
  (run_inv c hg t0 h0 as s ins outs h).2.gConf newer ej mid ei older hlog

open TwoRate in
/-- **All traffic is shaped** against the peak bucket (PIR, PBS) — or against (CIR, CBS) when no PIR is given — for
all i ≤ j. -/
theorem tworate_envelope (c : TrCfg ℚ) (hg : Good c) (t0 : ℚ) (h0 : 0 ≤ t0) (as : List (FAct ℚ))
    (s : FState ℚ (TrSt ℚ)) (ins outs : List Nat) (h : runActs (dev c) (trStart c t0) as = .ok (s, ins, outs))
    (newer mid older : List (ℚ × ℕ)) (ej ei : ℚ × ℕ) (hlog : alls s.dev.log = newer ++ ej :: (mid ++ ei :: older)) :
    (∀ k b, pirOn c = some k → pbsOn c = some b → (ej.2 : ℚ) + bytes mid + ei.2 ≤ max b ei.2 + k * (ej.1 - ei.1) / 8) ∧
    (pirOn c = none → (ej.2 : ℚ) + bytes mid + ei.2 ≤ max c.cbs ei.2 + c.cir * (ej.1 - ei.1) / 8) := by
  have hi := (run_inv c hg t0 h0 as s ins outs h).2
  constructor
  · intro k b hk hb
    obtain ⟨pl, _, _, hc⟩ := hi.sPir k b hk hb
    exact hc newer ej mid ei older hlog
  · intro hk
    exact (hi.sCir hk).2 newer ej mid ei older hlog

open TwoRate in
/-- **Never fails**: with a PBS given whenever a PIR is (`Good`), in every reachable state the server's continuation
is accepted — neither `assert self.pbs` nor `assert self.current_bucket_peak is not None` can fail, whatever the
levels (in particular with an exactly empty peak bucket). -/
theorem tworate_never_fails (c : TrCfg ℚ) (hg : Good c) (t0 : ℚ) (h0 : 0 ≤ t0) (as : List (FAct ℚ))
    (s : FState ℚ (TrSt ℚ)) (ins outs : List Nat) (h : runActs (dev c) (trStart c t0) as = .ok (s, ins, outs)) :
    (∀ p x y, s.handed = some p → ∃ s' o, step (dev c) s (.resume x y) = .ok (s', o)) ∧
    (∀ p n, s.tx = some (p, s.now, n) → ∃ s' o, step (dev c) s .fire = .ok (s', o)) := by
  have hi := (run_inv c hg t0 h0 as s ins outs h).2
  constructor
  · intro p x y hp
    simp only [step, hp, dev_onResume]
    rcases onResume_good c hg s hi x y p with ⟨k, b, pl, _, _, _, he⟩ | ⟨_, he⟩
    · rw [he]
      rcases resumePir_cases c s.dev s.now p k b pl with ⟨_, e⟩ | ⟨_, _, e⟩ | ⟨_, _, e⟩ <;> rw [e] <;> exact ⟨_, _, rfl⟩
    · rw [he]
      rcases resumeCir_cases c s.dev s.now p with ⟨_, e⟩ | ⟨_, e⟩ <;> rw [e] <;> exact ⟨_, _, rfl⟩
  · intro p n htx
    simp only [step, htx, dev_onFire, lt_irrefl, if_false]
    cases hk : pirOn c with
    | some k => rw [onFire_pir c s.dev s.now n p k hk]; exact ⟨_, _, rfl⟩
    | none => rw [onFire_cir c s.dev s.now n p hk]; exact ⟨_, _, rfl⟩

open TwoRate in
/-- **First in first out, nothing lost** (no step refuses or discards: `tworate_log_records`). -/
theorem tworate_lossless_fifo (c : TrCfg ℚ) (t0 : ℚ) (as : List (FAct ℚ)) (s : FState ℚ (TrSt ℚ)) (ins outs : List Nat)
    (h : runActs (dev c) (trStart c t0) as = .ok (s, ins, outs)) : ins = outs ++ held s ∧ (Quiescent s → ins = outs) := by
  have hcons := run_conserves (dev c) (idPreserving c) as (trStart c t0) s ins outs (init_shape _ _) h
  have hio : ins = outs ++ held s := by simpa [trStart, init_held] using hcons.1
  exact ⟨hio, fun hq => (by rw [hio, quiescent_held_empty s hcons.2 hq, List.append_nil])⟩

/-! ### The source, re-translated on every run, *is* the model (bridge theorems)

`Generated/Bucket.lean` is rewritten by `py2lean` from the current `onl/netdev/token_bucket.py` / `two_level_token_bucket.py`
before this file is compiled: `put`, and one round of each server generator `run`, split at its `yield env.timeout(…)`
statements (`run_resume`: from the `get` to the first yield or the end of the round; `run_after_i`: from the resumption
after yield `i`).  `GenBucket.tbObj` / `trObj` encode a model state as the Python object (`out` attached);
`GenBucket.tbAfter` / `TrAgrees` say what a burst of the model's server leaves (asleep in which yield for which timeout /
round complete, packet coloured and forwarded / the exception the model names). -/

/-- **`TokenBucket.put` and a round of `TokenBucket.run` as written in the source are the model's `admitPkt`, `onResume`,
`onFire`, `onDone`**: refill `min(bucket_size, level + rate·Δt/8)`, the test `size > level`, the token wait
`(size − level)·8/rate`, the debits, the peak-rate spacing `size·8/peak` iff `peak` is truthy, `out.put` and the counter. -/
theorem tb_generated_eq_model (c : TbCfg ℚ) (d : TbSt ℚ) (puts outs ya : Nat) (ydt now x y : ℚ) (w k : Nat) (p : Pkt ℚ) :
    Gen.TokenBucket.put (GenBucket.tbObj c d puts outs ya ydt) =
      GenBucket.tbObj c (TokenBucket.admitPkt d now w p).1 (puts + 1) outs ya ydt ∧
    (d.tokWait = false →
      some (Gen.TokenBucket.run_resume (GenBucket.tbObj c d puts outs ya ydt) now p.size) =
        GenBucket.tbAfter c (TokenBucket.onResume c d now x y p) puts outs) ∧
    (d.tokWait = true →
      some (Gen.TokenBucket.run_after_1 (GenBucket.tbObj c d puts outs ya ydt) now p.size) =
        GenBucket.tbAfter c (TokenBucket.onFire c d now k p) puts outs) ∧
    (d.tokWait = false →
      some (Gen.TokenBucket.run_after_2 (GenBucket.tbObj c d puts outs ya ydt) now p.size) =
        GenBucket.tbAfter c (TokenBucket.onFire c d now k p) puts outs) :=
  ⟨GenBucket.tb_put_eq c d puts outs ya ydt now w p, GenBucket.tb_resume_eq c d puts outs ya ydt now x y p,
   GenBucket.tb_after_token_wait_eq c d puts outs ya ydt now k p, GenBucket.tb_after_peak_wait_eq c d puts outs ya ydt now k p⟩

/-- **`TwoRateTokenBucket.put` and a round of `TwoRateTokenBucket.run` as written in the source are the model's `admitPkt`,
`onResume`, `onFire`, `onDone`**: both refills, `assert self.pbs` / the `TypeError` on a missing peak bucket, the colour
decision (red after the PIR wait, yellow when only the peak bucket pays, green when both pay; without PIR yellow after the
CIR wait, else green), the waits `(size − level)·8/rate`, the debits, `out.put`. -/
theorem tworate_generated_eq_model (c : TrCfg ℚ) (d : TrSt ℚ) (puts outs paints : Nat) (col : Int) (ya : Nat)
    (ydt now x y : ℚ) (w n : Nat) (p : Pkt ℚ) :
    Gen.TwoRateTokenBucket.put (GenBucket.trObj c d puts outs paints col 0 ya ydt) =
      GenBucket.trObj c (TwoRate.admitPkt d now w p).1 (puts + 1) outs paints col 0 ya ydt ∧
    GenBucket.TrAgrees c (Gen.TwoRateTokenBucket.run_resume (GenBucket.trObj c d puts outs paints col 0 ya ydt) now p.size)
      (TwoRate.onResume c d now x y p) puts outs paints col ∧
    ((TwoRate.pirOn c).isSome →
      GenBucket.TrAgrees c (Gen.TwoRateTokenBucket.run_after_1 (GenBucket.trObj c d puts outs paints col 0 ya ydt) now p.size)
        (TwoRate.onFire c d now n p) puts outs paints col) ∧
    (TwoRate.pirOn c = none →
      GenBucket.TrAgrees c (Gen.TwoRateTokenBucket.run_after_2 (GenBucket.trObj c d puts outs paints col 0 ya ydt) now p.size)
        (TwoRate.onFire c d now n p) puts outs paints col) :=
  ⟨GenBucket.tr_put_eq c d puts outs paints col 0 ya ydt now w p,
   GenBucket.tr_resume_agrees c d puts outs paints col ya ydt now x y p,
   GenBucket.tr_after_pir_wait_agrees c d puts outs paints col ya ydt now n p,
   GenBucket.tr_after_cir_wait_agrees c d puts outs paints col ya ydt now n p⟩

/-- the translated round on a concrete bucket: rate 8, bucket 10, empty at t = 0; a 4-byte packet at t = 1 finds 1 token and
waits (4 − 1)·8/8 = 3 in yield 1 -/
example : (Gen.TokenBucket.run_resume (GenBucket.tbObj { rate := 8, bucket := 10, peak := none } { level := 0, upd := 0 } 1 0 0 0) 1 4).yield_dt = 3 ∧
    (Gen.TokenBucket.run_resume (GenBucket.tbObj { rate := 8, bucket := 10, peak := none } { level := 0, upd := 0 } 1 0 0 0) 1 4).yield_at = 1 := by
  decide +kernel

/-! ### non-vacuity -/

/-- the debit log (oldest first) and the departure log a token-bucket run ended with -/
def tbLogs (r : Except String (FState ℚ (TbSt ℚ) × List Nat × List Nat)) : Option (List (ℚ × ℕ) × List (ℚ × ℕ)) :=
  match r with
  | .ok (s, _, _) => some (s.dev.log.reverse, s.dev.outLog.reverse)
  | .error _ => none

/-- rate 800 bit/s = 100 byte/s, bucket 100, peak 1600 bit/s: packet 1 (100 B) at t = 0 finds the bucket full: debit at
0, out at 1/2 (peak spacing); packet 2 (150 B, larger than the bucket) reaches the head at 1/2 with 50 tokens, waits
exactly 1 s for the missing 100, debit at 3/2, out at 3/2 + 3/4. -/
def tbDemo : TbCfg ℚ := { rate := 800, bucket := 100, peak := some 1600 }

example : tbLogs (runActs (TokenBucket.dev tbDemo) (tbStart tbDemo 0)
    [.init, .put ⟨1, 0, 100, 0, 0, 0⟩, .put ⟨2, 0, 150, 0, 0, 0⟩, .handoff, .resume 0 0, .tick (1/2), .fire,
     .resume 0 0, .tick (3/2), .fire, .tick (9/4), .fire]) =
    some ([(0, 100), (3/2, 150)], [(1/2, 100), (9/4, 150)]) := by
  decide +kernel

example : TokenBucket.Good tbDemo := ⟨(by norm_num [tbDemo]), (by norm_num [tbDemo])⟩

/-- the colours and debit instants a two-rate run ended with, oldest first -/
def trLog (r : Except String (FState ℚ (TrSt ℚ) × List Nat × List Nat)) : Option (List (ℚ × ℕ × ℕ)) :=
  match r with
  | .ok (s, _, _) => some s.dev.log.reverse
  | .error _ => none

/-- CIR 800, CBS 100, PIR 1600, PBS 200; three 100-byte packets at t = 0: green (both cover), yellow (commit empty, peak
has 100), red (peak empty: waits 100·8/1600 = 1/2 s); then a fourth at t = 1/2 with the peak bucket exactly empty is
taken without failing and waits another 1/2 s. -/
def trDemo : TrCfg ℚ := { cir := 800, cbs := 100, pir := some 1600, pbs := some 200 }

example : trLog (runActs (TwoRate.dev trDemo) (trStart trDemo 0)
    [.init, .put ⟨1, 0, 100, 0, 0, 0⟩, .put ⟨2, 0, 100, 0, 0, 0⟩, .put ⟨3, 0, 100, 0, 0, 0⟩, .put ⟨4, 0, 100, 0, 0, 0⟩,
     .handoff, .resume 0 0, .resume 0 0, .resume 0 0, .tick (1/2), .fire, .resume 0 0, .tick 1, .fire]) =
    some [(0, 100, 1), (0, 100, 2), (1/2, 100, 3), (1, 100, 3)] := by
  decide +kernel

example : TwoRate.Good trDemo := by
  refine ⟨(by norm_num [trDemo]), (by norm_num [trDemo]), ?_⟩
  intro k hk
  have h1 := (Num.optOn_iff trDemo.pir k).mp hk
  have hk' : k = 1600 := by
    have := h1.1
    simp only [trDemo, Option.some.injEq] at this
    exact this.symm
  subst hk'
  exact ⟨(by norm_num), 200, (Num.optOn_iff trDemo.pbs 200).mpr ⟨rfl, (by norm_num)⟩, (by norm_num)⟩

/-- without PIR/PBS: green, then yellow after waiting for the committed tokens -/
def trDemo2 : TrCfg ℚ := { cir := 800, cbs := 100, pir := none, pbs := none }

example : trLog (runActs (TwoRate.dev trDemo2) (trStart trDemo2 0)
    [.init, .put ⟨1, 0, 100, 0, 0, 0⟩, .put ⟨2, 0, 50, 0, 0, 0⟩, .handoff, .resume 0 0, .resume 0 0, .tick (1/2), .fire]) =
    some [(0, 100, 1), (1/2, 50, 2)] := by
  decide +kernel

end C11
