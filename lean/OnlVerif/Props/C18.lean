import OnlVerif.Lemmas.RouteFatTree
import OnlVerif.Lemmas.RouteNet
import OnlVerif.Lemmas.RouteGen
/-!
# C18 — demuxes, switches, hubs, splitters and fat-tree FIBs deliver to the right place

Models: `OnlVerif/Net/Route.lean` (dispatch of `FlowDemux`, `FIBDemux`, the two packet switches, `Hub`,
`Splitter`/`NSplitter`) and `OnlVerif/Net/FatTree.lean` (`FatTree(k)` as a structural graph with the constructor's node
numbering and `networkx` neighbour order, `generate_fib` as folds over an arbitrary graph).  `FlowDemux.put`, `FIBDemux.put`
and `Splitter.put` are also regenerated from the Python source on every run (`py2lean/route.py` →
`OnlVerif/Generated/Route.lean`) and proved equal to the models (`generated_dispatch_agrees`); the other models are
hand-written.  All are tied to `/repo` by the differential replay of `harness/c18.py`.

Flow ids are non-negative (`0 ≤ p.flowId`); fewer than 10000 flows (`fid < 10000`), the ACK class being `fid + 10000`.
-/

namespace C18
open Route FatTree

/-! ### the models are the source

`py2lean/route.py` regenerates `Route.Gen.FlowDemux_put`, `FIBDemux_put` and `Splitter_put` from the Python source on every run. -/

/-- **The definitions translated from the source of `FlowDemux.put`, `FIBDemux.put` and `Splitter.put` coincide with the
hand-written dispatch models on every input** — so the rules below are theorems about the code as it is written; an edit of
the source that changes a routing decision regenerates a different definition and this proof stops compiling. -/
theorem generated_dispatch_agrees (fresh : Nat) (p : Pkt) :
    (∀ c : FlowDemuxCfg, (Route.Gen.FlowDemux_put c p).run fresh = FlowDemux.put c p) ∧
    (∀ c : FIBDemuxCfg, (Route.Gen.FIBDemux_put c p).run fresh = FIBDemux.put c p) ∧
    (∀ c : SplitterCfg, (Route.Gen.Splitter_put c p).run fresh = .ok (Splitter.put c p fresh)) :=
  ⟨fun c => Route.Gen.FlowDemux_put_eq c p fresh, fun c => Route.Gen.FIBDemux_put_eq c p fresh,
    fun c => Route.Gen.Splitter_put_eq c p fresh⟩

/-! ### FlowDemux -/

/-- **FlowDemux hands a packet of flow `f` to output `f`, else to the default output, else nowhere** — and it is the
object that was put. -/
theorem flowdemux_rule (c : FlowDemuxCfg) (p : Pkt) (hf : 0 ≤ p.flowId) :
    FlowDemux.put c p = .ok (match c.outs[p.flowId.toNat]? with
      | some d => [(d, p.ref)]
      | none =>
        match c.default with
        | some d => [(d, p.ref)]
        | none => []) := by
  unfold FlowDemux.put
  by_cases h : p.flowId < (c.outs.length : Int)
  · have hlt : p.flowId.toNat < c.outs.length := by omega
    rw [if_pos h, pyIndex_nonneg _ _ hf, List.getElem?_eq_getElem hlt]
  · have hge : c.outs.length ≤ p.flowId.toNat := by omega
    rw [if_neg h, List.getElem?_eq_none hge]
    cases c.default <;> rfl

/-! ### FIBDemux -/

/-- **FIBDemux: the flow's end device if registered; otherwise the output the table names; otherwise (unknown flow) the
default output, else nowhere; at most one output gets the packet.**  This holds for every output list, `None` and the
empty list included: without output devices every flow that has no end device is an unknown flow. -/
theorem fibdemux_rule (c : FIBDemuxCfg) (fib : List (Int × Int)) (p : Pkt) (hfib : c.fib = some fib) :
    (∀ d, dget c.ends p.flowId = some d → FIBDemux.put c p = .ok [(d, p.ref)]) ∧
    (dget c.ends p.flowId = none →
      (∀ outs port d, c.outs = some outs → dget fib p.flowId = some port → 0 ≤ port → outs[port.toNat]? = some d →
        FIBDemux.put c p = .ok [(d, p.ref)]) ∧
      (dget fib p.flowId = none →
        FIBDemux.put c p = .ok (match c.default with
          | some d => [(d, p.ref)]
          | none => [])) ∧
      ((c.outs = none ∨ c.outs = some []) →
        FIBDemux.put c p = .ok (match c.default with
          | some d => [(d, p.ref)]
          | none => []))) ∧
    (∀ l, FIBDemux.put c p = .ok l → l.length ≤ 1 ∧ ∀ x ∈ l, x.2 = p.ref) := by
  refine ⟨fun d hd => FIBDemux.put_end c fib p d hfib hd, ?_, fun l h => FIBDemux.put_atMostOne c p l h⟩
  intro hends
  exact ⟨fun outs port d houts hport h0 hd => FIBDemux.put_table c fib p outs port d hfib houts hends hport h0 hd,
    fun hnone => FIBDemux.put_unknown c fib p hfib hends hnone,
    fun houts => FIBDemux.put_noOutputs c fib p hfib hends houts⟩

/-- **The empty table is a valid table**: every flow without an end device is unknown and goes to the default output
(else nowhere), whatever the output list. -/
theorem fibdemux_empty_table (c : FIBDemuxCfg) (p : Pkt) (hfib : c.fib = some []) (hends : dget c.ends p.flowId = none) :
    FIBDemux.put c p = .ok (match c.default with
      | some d => [(d, p.ref)]
      | none => []) :=
  ((fibdemux_rule c [] p hfib).2.1 hends).2.1 rfl

/-! ### the packet switches -/

/-- **SimplePacketSwitch and FairPacketSwitch route by exactly these rules, every packet reaching exactly one output**
(output `i` of a switch with `n` ports is its `i`-th egress; a packet whose flow the rules send nowhere reaches none). -/
theorem switch_one_output (n : Nat) (p : Pkt) (hf : 0 ≤ p.flowId) :
    FlowDemux.put (SimplePacketSwitch.mk n) p
      = .ok (if p.flowId.toNat < n then [(p.flowId.toNat, p.ref)] else []) ∧
    ∀ (server : String) (c0 : FIBDemuxCfg) (fib : List (Int × Int)) (ends : List (Int × Dev)),
      FairPacketSwitch.mk n server = .ok c0 →
      let c := ends.foldl (fun c (fd : Int × Dev) => c.setEnd fd.1 fd.2) (c0.setFib fib)
      (∀ l, FIBDemux.put c p = .ok l → l.length ≤ 1) ∧
      (∀ d, dget c.ends p.flowId = some d → FIBDemux.put c p = .ok [(d, p.ref)]) ∧
      (dget c.ends p.flowId = none → ∀ port : Int, dget fib p.flowId = some port → 0 ≤ port → port.toNat < n →
        FIBDemux.put c p = .ok [(port.toNat, p.ref)]) := by
  constructor
  · rw [flowdemux_rule _ _ hf]
    simp only [SimplePacketSwitch.mk]
    by_cases h : p.flowId.toNat < n
    · simp [h]
    · simp [h]
  · intro server c0 fib ends hmk c
    obtain ⟨houts, hdef, _, _⟩ := FairPacketSwitch.mk_ok n server c0 hmk
    obtain ⟨so, sd, sf⟩ := setEnds_static ends (c0.setFib fib)
    have hfib : c.fib = some fib := sf
    have houts' : c.outs = some (List.range n) := so.trans houts
    have rule := fibdemux_rule c fib p hfib
    refine ⟨fun l h => (rule.2.2 l h).1, rule.1, ?_⟩
    intro hends port hport h0 hlt
    exact (rule.2.1 hends).1 _ port port.toNat houts' hport h0 (by simp [hlt])

/-! ### Hub -/

/-- **A Hub repeats a packet to every attached endpoint except its sender, through the endpoint's port device when one
was given**: the deliveries are, in endpoint order, one per endpoint whose `element_id` differs from `packet.src`; when
the output devices are pairwise different, each such endpoint is served exactly once and no sender is served. -/
theorem hub_rule (c : HubCfg) (p : Pkt) :
    Hub.put c p = (c.filter fun e => e.eid ≠ p.src).map (fun e => (e.out, p.ref)) ∧
    (∀ e : HubEndpoint, (∀ q, e.port = some q → e.out = q) ∧ (e.port = none → e.out = e.dev)) ∧
    ((c.map HubEndpoint.out).Nodup →
      ((Hub.put c p).map (·.1)).Nodup ∧ ∀ e ∈ c, (e.eid ≠ p.src ↔ (e.out, p.ref) ∈ Hub.put c p)) := by
  refine ⟨Hub.put_eq c p, ?_, ?_⟩
  · intro e
    constructor
    · intro q h; simp [HubEndpoint.out, h]
    · intro h; simp [HubEndpoint.out, h]
  · intro hn
    rw [Hub.put_eq]
    constructor
    · rw [List.map_map]
      exact List.Nodup.sublist (List.Sublist.map _ List.filter_sublist) hn
    · intro e he
      simp only [List.mem_map, List.mem_filter, decide_eq_true_eq, Prod.mk.injEq, and_true]
      constructor
      · intro hne; exact ⟨e, ⟨he, hne⟩, rfl⟩
      · rintro ⟨e', ⟨he', hne⟩, ho⟩
        have : e' = e := List.inj_on_of_nodup_map hn he' he ho
        exact this ▸ hne

/-- **A Hub can be built from endpoints alone, or with one optional port device per endpoint**: the `j`-th endpoint is
attached with the `j`-th port device (none when no port list was given). -/
theorem hub_constructor (eps : List (Nat × Dev)) (ports : List (Option Dev))
    (h : ports = [] ∨ ports.length = eps.length) :
    ∃ c, Hub.mk eps ports = .ok c ∧ c.length = eps.length ∧
      ∀ (j : Nat) (e : Nat × Dev), eps[j]? = some e → ∃ ep : HubEndpoint, c[j]? = some ep ∧ ep.eid = e.1 ∧ ep.dev = e.2 ∧
        (ports = [] → ep.port = none) ∧ (∀ q, ports[j]? = some q → ep.port = q) := by
  refine ⟨Hub.spec ports 0 eps, ?_, Hub.spec_length _ _ _, ?_⟩
  · unfold Hub.mk
    have : ¬ (¬ ports = [] ∧ ports.length ≠ eps.length) := by
      rcases h with h | h
      · simp [h]
      · simp [h]
    rw [if_neg this, Hub.addAll_eq]
    simp
  · intro j e he
    refine ⟨_, Hub.spec_get ports 0 eps j e he, rfl, rfl, ?_, ?_⟩
    · intro hp; simp [Hub.portAt, hp]
    · intro q hq; simp [Hub.portAt, hq]

/-! ### Splitter / NSplitter -/

/-- **A splitter gives the original to its first output and a separate copy, whose header fields can be changed
independently, to each other output**: with outputs `o :: rest` (unset ones skipped) the first output, if set, receives the
object that was put; every other set output receives exactly one object, in order; those objects are copies of the same
packet, all different from the original and from each other.  On the heap (the entering packet owning its `perhop_time` and
`priorities` tables): right after the dispatch each delivered object carries the original's field values and tables with
the original's contents; and for two different delivered objects, rebinding a field of one, or writing **in place** into
one of its tables, changes neither the fields nor the tables seen through the other. -/
theorem splitter_rule (o : Option Dev) (rest : List (Option Dev)) (p : Pkt) (fresh : Nat) (hf : p.ref.copy < fresh) :
    ∃ cs : List Delivery,
      NSplitter.put (o :: rest) p fresh = .ok ((match o with | some d => [(d, p.ref)] | none => []) ++ cs) ∧
      cs.map (·.1) = rest.filterMap id ∧
      (∀ x ∈ cs, x.2 ≠ p.ref ∧ x.2.id = p.ref.id) ∧
      (∀ l, NSplitter.put (o :: rest) p fresh = .ok l →
        (l.map (·.2)).Nodup ∧
        ∀ (h : Heap) (ob : Obj), h.objs p.ref = some ob → (∀ w, ob.tab w = (p.ref, w)) →
          (∀ x ∈ l, (∀ f, (splitHeap h p.ref l).readField x.2 f = h.readField p.ref f) ∧
            ∀ w k, (splitHeap h p.ref l).readTab x.2 w k = h.readTab p.ref w k) ∧
          (∀ x ∈ l, ∀ y ∈ l, x.2 ≠ y.2 →
            (∀ f v g, ((splitHeap h p.ref l).setField x.2 f v).readField y.2 g = (splitHeap h p.ref l).readField y.2 g) ∧
            (∀ f v w k, ((splitHeap h p.ref l).setField x.2 f v).readTab y.2 w k = (splitHeap h p.ref l).readTab y.2 w k) ∧
            (∀ w k v w' k', ((splitHeap h p.ref l).tabWrite x.2 w k v).readTab y.2 w' k'
              = (splitHeap h p.ref l).readTab y.2 w' k') ∧
            (∀ w k v g, ((splitHeap h p.ref l).tabWrite x.2 w k v).readField y.2 g
              = (splitHeap h p.ref l).readField y.2 g))) := by
  refine ⟨giveCopies p.ref fresh rest, ?_, giveCopies_devs _ _ _, ?_, ?_⟩
  · cases o <;> rfl
  · intro x hx
    have := giveCopies_fresh p.ref fresh rest x hx
    refine ⟨?_, this.1⟩
    intro e
    rw [e] at this
    omega
  · intro l hl
    simp only [NSplitter.put, Except.ok.injEq] at hl
    subst hl
    have hn := split_refs_nodup o rest p fresh hf
    refine ⟨hn, ?_⟩
    intro h ob ho hown
    have spec := splitHeap_spec h p.ref ob _ ho hown hn
    refine ⟨?_, ?_⟩
    · intro x hx
      obtain ⟨s1, s2⟩ := spec x hx
      refine ⟨fun f => by simp [Heap.readField, s1, ho], fun w k => ?_⟩
      simp only [Heap.readTab, s1, ho, Option.map_some, s2, hown]
    · intro x hx y hy hne
      obtain ⟨sx, _⟩ := spec x hx
      obtain ⟨sy, _⟩ := spec y hy
      have so := Heap.setField_other (splitHeap h p.ref (giveOriginal o p ++ giveCopies p.ref fresh rest)) x.2 y.2
      refine ⟨?_, ?_, ?_, ?_⟩
      · intro f v g
        simp only [Heap.readField, (so f v (fun e => hne e.symm)).1]
      · intro f v w k
        simp only [Heap.readTab, (so f v (fun e => hne e.symm)).1, (so f v (fun e => hne e.symm)).2]
      · intro w k v w' k'
        exact (Heap.tabWrite_other _ x.2 y.2 _ _ sx sy w w' (by simp [hne]) k k' v).1
      · intro w k v g
        exact (Heap.tabWrite_other _ x.2 y.2 _ _ sx sy w w (by simp [hne]) k 0 v).2 g

/-- `Splitter` is the two-output case, and `NSplitter(N)` always has a first output slot (`N ≥ 2`). -/
theorem splitter_is_two_way (c : SplitterCfg) (p : Pkt) (fresh : Nat) :
    NSplitter.put [c.out1, c.out2] p fresh = .ok (Splitter.put c p fresh) ∧
    ∀ n outs, NSplitter.mk n = .ok outs → ∃ o rest, outs = o :: rest ∧ rest ≠ [] := by
  refine ⟨rfl, ?_⟩
  intro n outs h
  unfold NSplitter.mk at h
  split at h
  · cases h
  · rename_i hn
    cases h
    have : n.toNat = (n.toNat - 2) + 1 + 1 := by omega
    rw [this]
    exact ⟨none, List.replicate (n.toNat - 2 + 1) none, by simp [List.replicate_succ], by simp [List.replicate_succ]⟩

/-! ### FatTree(k) -/

/-- **FatTree(k) has (k/2)² core, k²/2 aggregation and k²/2 edge switches and k³/4 hosts, k/2 hosts per edge switch**, for
every even `k`; and its nodes are numbered `0, 1, 2, …` in creation order (the numbering the model's adjacency lists use). -/
theorem fattree_counts (k : Nat) (hk : k % 2 = 0) :
    (ofLayer k .core).length = (k / 2) ^ 2 ∧
    (ofLayer k .aggregation).length = k ^ 2 / 2 ∧
    (ofLayer k .edge).length = k ^ 2 / 2 ∧
    (ofLayer k .leaf).length = k ^ 3 / 4 ∧
    (∀ p j, ((nbrs k (.edge p j)).filter fun n => n.layer = .leaf).length = k / 2) ∧
    (nodes k).map (FNode.num k) = List.range ((k / 2) ^ 2 + k ^ 2 / 2 + k ^ 2 / 2 + k ^ 3 / 4) := by
  obtain ⟨h, rfl⟩ : ∃ h, k = 2 * h := ⟨k / 2, by omega⟩
  have hh : 2 * h / 2 = h := by omega
  have e2 : (2 * h) ^ 2 / 2 = 2 * h * h := by
    have : (2 * h) ^ 2 = 2 * (2 * h * h) := by ring
    rw [this, Nat.mul_div_cancel_left _ (by norm_num)]
  have e3 : (2 * h) ^ 3 / 4 = 2 * h * (h * h) := by
    have : (2 * h) ^ 3 = 4 * (2 * h * (h * h)) := by ring
    rw [this, Nat.mul_div_cancel_left _ (by norm_num)]
  refine ⟨?_, ?_, ?_, ?_, ?_, ?_⟩
  · rw [ofLayer_length]; simp only [hh]; ring
  · rw [ofLayer_length, e2]; simp only [hh]
  · rw [ofLayer_length, e2]; simp only [hh]
  · rw [ofLayer_length, e3]; simp only [hh]
  · intro p j; rw [edge_hosts]; simp [hostsOf]
  · rw [nodes_num, e2, e3]
    congr 1
    simp only [nNodes, hh]
    ring

/-- **Every switch of FatTree(k) has degree k** (for even `k`), every host degree 1. -/
theorem fattree_degree (k : Nat) (hk : k % 2 = 0) (n : FNode) :
    (n.isSwitch = true → (nbrs k n).length = k) ∧ (n.isSwitch = false → (nbrs k n).length = 1) := by
  have : k / 2 + k / 2 = k := by omega
  rw [nbrs_length]
  cases n <;> simp [FNode.isSwitch, this]

/-- **The adjacency is the standard fat tree's**: a core switch `(a, b)` is joined to aggregation switch `a` of every pod,
an aggregation switch to the `k/2` edge switches of its pod and to `k/2` core switches, an edge switch to the `k/2`
aggregation switches of its pod and to its `k/2` hosts, a host to its edge switch; neighbour lists have no duplicates, stay
inside the node set and the relation is symmetric. -/
theorem fattree_adjacency (k : Nat) (n : FNode) (hn : n.Valid k) :
    (nbrs k n).Nodup ∧ (∀ m ∈ nbrs k n, m.Valid k ∧ n ∈ nbrs k m) ∧ (n ∈ nodes k) :=
  ⟨nbrs_nodup k n, fun m hm => ⟨nbrs_valid k n hn m hm, nbrs_symm k n m hn hm⟩, (mem_nodes k n).mpr hn⟩

/-! ### generate_fib -/

/-- **`port_to_nexthop` and `nexthop_to_port` are mutually inverse on the neighbour list** (which has no duplicates):
port `p` is the `p`-th neighbour. -/
theorem ports_bijective (ns : List Nat) (hn : ns.Nodup) (p z : Nat) :
    dget (initTab ns).portToNexthop p = ns[p]? ∧
    (dget (initTab ns).portToNexthop p = some z ↔ dget (initTab ns).nexthopToPort z = some p) := by
  refine ⟨initTab_ptn ns p, ?_⟩
  rw [initTab_ptn, initTab_ntp _ _ hn, getElem?_eq_some_iff_idxOf ns hn]
  by_cases hz : z ∈ ns <;> simp [hz]

/-- **The generated tables lead hop by hop from the source to the destination along exactly the flow's path, and the ACK
class back along the reverse.**  For every graph whose neighbour lists have no duplicates and every set of flows with
distinct ids below 10000 whose paths are duplicate-free walks of the graph: `generate_fib` succeeds; the port tables are
those of the neighbour lists; for every flow, following `flow_to_nexthop[fid]` from the source visits exactly the path and
stops at the destination (no entry there); at every hop `flow_to_port[fid]` is the port of that same next hop; with `tcp`
the class `fid + 10000` walks the reversed path from the destination, with matching ports.
Entries are keyed by flow id, so flows with distinct ids do not disturb one another (`lastWrite_all`). -/
theorem fib_walk (g : Graph) (flows : List FlowRec) (tcp : Bool) (hg : GraphOK g)
    (hd : flows.Pairwise fun x y => x.fid ≠ y.fid) (hlt : ∀ fl ∈ flows, fl.fid < 10000)
    (hp : ∀ fl ∈ flows, fl.path.Nodup ∧ IsWalk g fl.path) :
    ∃ st, generateFib g flows tcp = .ok st ∧
      (∀ n q, portToNexthop st n q = portToNexthop (initTables g) n q) ∧
      (∀ n z, nexthopToPort st n z = nexthopToPort (initTables g) n z) ∧
      ∀ fl ∈ flows, ∀ src rest, fl.path = src :: rest →
        (∀ fuel, fl.path.length ≤ fuel + 1 → walk (fun n => nexthopOf st n fl.fid) fuel src = fl.path) ∧
        (∀ dst, fl.path.getLast? = some dst → nexthopOf st dst fl.fid = none) ∧
        (∀ a z, (a, z) ∈ segments fl.path →
          nexthopOf st a fl.fid = some z ∧ ∃ i, portOf st a fl.fid = some i ∧ portToNexthop st a i = some z) ∧
        (tcp = true →
          (∀ dst rest', fl.path.reverse = dst :: rest' → ∀ fuel, fl.path.length ≤ fuel + 1 →
            walk (fun n => nexthopOf st n (ackClass fl.fid)) fuel dst = fl.path.reverse) ∧
          (nexthopOf st src (ackClass fl.fid) = none) ∧
          (∀ a z, (a, z) ∈ segments fl.path →
            nexthopOf st z (ackClass fl.fid) = some a ∧
              ∃ i, portOf st z (ackClass fl.fid) = some i ∧ portToNexthop st z i = some a)) := by
  rw [generateFib_eq]
  -- every write names an existing neighbour
  have hW : ∀ w ∈ allWrites flows tcp, (nexthopToPort (initTables g) w.1 w.2.2).isSome := by
    intro w hw
    obtain ⟨fl, hfl, hw⟩ := List.mem_flatMap.mp hw
    obtain ⟨seg, hseg, hw⟩ := List.mem_flatMap.mp hw
    have hadj := (hp fl hfl).2 seg hseg
    unfold writesOf at hw
    have fwd : (nexthopToPort (initTables g) seg.1 seg.2).isSome := by
      obtain ⟨i, hi, _⟩ := init_port_roundtrip g hg _ _ hadj.1; simp [hi]
    have bwd : (nexthopToPort (initTables g) seg.2 seg.1).isSome := by
      obtain ⟨i, hi, _⟩ := init_port_roundtrip g hg _ _ hadj.2; simp [hi]
    cases tcp <;> simp at hw
    · rw [hw]; exact fwd
    · rcases hw with rfl | rfl
      · exact fwd
      · exact bwd
  obtain ⟨st, hok, hntp, hptn, hnh, hpo⟩ := foldE_writes _ _ hW
  refine ⟨st, hok, hptn, hntp, ?_⟩
  intro fl hfl src rest hpath
  have hnd := (hp fl hfl).1
  have hwalk := (hp fl hfl).2
  -- the forward class reads the path's successor function
  have lw1 : ∀ n, lastWrite (allWrites flows tcp) n fl.fid = nextIn fl.path n := by
    intro n
    rw [lastWrite_all flows tcp hd hlt fl hfl n _ (Or.inl rfl)]
    exact lastWrite_flow_fwd tcp fl.fid fl.path hnd n
  have key1 : ∀ n, nexthopOf st n fl.fid = nextIn fl.path n := by
    intro n
    rw [hnh, lw1]
    cases nextIn fl.path n with
    | some z => rfl
    | none => exact (init_flow g n fl.fid).1
  refine ⟨?_, ?_, ?_, ?_⟩
  · intro fuel hfuel
    rw [hpath] at hfuel hnd ⊢
    apply walk_nextIn _ rest src fuel hnd _ hfuel
    intro n _
    rw [← hpath]
    exact key1 n
  · intro dst hdst
    rw [key1]
    exact nextIn_last fl.path hnd dst hdst
  · intro a z hseg
    have hnx := nextIn_of_segment fl.path hnd a z hseg
    refine ⟨by rw [key1, hnx], ?_⟩
    obtain ⟨i, hi1, hi2⟩ := init_port_roundtrip g hg a z (hwalk (a, z) hseg).1
    refine ⟨i, ?_, by rw [hptn]; exact hi2⟩
    rw [hpo, lw1, hnx]
    exact hi1
  · intro htcp
    subst htcp
    have lw2 : ∀ n, lastWrite (allWrites flows true) n (ackClass fl.fid) = prevIn fl.path n := by
      intro n
      rw [lastWrite_all flows true hd hlt fl hfl n _ (Or.inr rfl)]
      exact lastWrite_flow_ack fl.fid fl.path hnd n
    have key2 : ∀ n, nexthopOf st n (ackClass fl.fid) = prevIn fl.path n := by
      intro n
      rw [hnh, lw2]
      cases prevIn fl.path n with
      | some z => rfl
      | none => exact (init_flow g n _).1
    refine ⟨?_, ?_, ?_⟩
    · intro dst rest' hrev fuel hfuel
      have hnr : fl.path.reverse.Nodup := List.nodup_reverse.mpr hnd
      have hlen : fl.path.reverse.length ≤ fuel + 1 := by simpa using hfuel
      rw [hrev] at hnr hlen ⊢
      apply walk_nextIn _ rest' dst fuel hnr _ hlen
      intro n _
      rw [← hrev, key2]
      exact prevIn_eq_nextIn_reverse fl.path hnd n
    · rw [key2, prevIn_eq_nextIn_reverse fl.path hnd]
      apply nextIn_last _ (List.nodup_reverse.mpr hnd)
      rw [hpath]
      simp
    · intro a z hseg
      have hpv := prevIn_of_segment fl.path hnd a z hseg
      refine ⟨by rw [key2, hpv], ?_⟩
      obtain ⟨i, hi1, hi2⟩ := init_port_roundtrip g hg z a (hwalk (a, z) hseg).2
      refine ⟨i, ?_, by rw [hptn]; exact hi2⟩
      rw [hpo, lw2, hpv]
      exact hi1

/-- **In a network of FIBDemux switches driven by the generated tables every packet arrives at its own flow's sink and at
no other.**  Every node carries a switch with `nports ≥ degree` ports whose demux uses `flow_to_port` as its table, egress `i`
leads to `port_to_nexthop[i]`, and `sinks node` lists the flow classes whose end device is registered at that node (wiring of
`tests/apps/fattree.py`).  If flow `fl`'s sink is registered at its destination and at no earlier node of its path, a packet
of class `fid` injected at the source visits exactly the path and is handed to the sink of class `fid`; with `tcp`, a packet
of the ACK class injected at the destination travels the reversed path to the sink registered for it at the source. -/
theorem packets_reach_own_sink (g : Graph) (flows : List FlowRec) (tcp : Bool) (nports : Nat) (sinks : Nat → List Nat)
    (hg : GraphOK g) (hdeg : ∀ n ns, dget g n = some ns → ns.length ≤ nports)
    (hd : flows.Pairwise fun x y => x.fid ≠ y.fid) (hlt : ∀ fl ∈ flows, fl.fid < 10000)
    (hp : ∀ fl ∈ flows, fl.path.Nodup ∧ IsWalk g fl.path) :
    ∃ st, generateFib g flows tcp = .ok st ∧
      ∀ fl ∈ flows, ∀ src rest, fl.path = src :: rest → rest ≠ [] →
        ((∀ dst, fl.path.getLast? = some dst → fl.fid ∈ sinks dst) →
          (∀ a z, (a, z) ∈ segments fl.path → fl.fid ∉ sinks a) →
          follow (hop st nports sinks fl.fid) fl.path.length src = (fl.path, .deliver fl.fid)) ∧
        (tcp = true → ackClass fl.fid ∈ sinks src →
          (∀ a z, (a, z) ∈ segments fl.path → ackClass fl.fid ∉ sinks z) →
          ∀ dst rest', fl.path.reverse = dst :: rest' →
            follow (hop st nports sinks (ackClass fl.fid)) fl.path.length dst
              = (fl.path.reverse, .deliver (ackClass fl.fid))) := by
  obtain ⟨st, hok, hptn, hntp, H⟩ := fib_walk g flows tcp hg hd hlt hp
  refine ⟨st, hok, ?_⟩
  intro fl hfl src rest hpath hrest
  obtain ⟨_, _, hfwd, hack⟩ := H fl hfl src rest hpath
  have hwalk := (hp fl hfl).2
  -- a port index read from the tables is below `nports`
  have port_lt : ∀ a z i, Adj g a z → portToNexthop st a i = some z → i < nports := by
    intro a z i hadj hi
    obtain ⟨ns, hns, _⟩ := hadj
    rw [hptn, init_ptn g a i ns hns] at hi
    obtain ⟨hlt', _⟩ := List.getElem?_eq_some_iff.mp hi
    exact lt_of_lt_of_le hlt' (hdeg a ns hns)
  -- both ends of an edge carry tables
  have node_of_adj : ∀ a z, Adj g a z → (dget st a).isSome := by
    intro a z hadj
    obtain ⟨i, hi, _⟩ := init_port_roundtrip g hg a z hadj
    exact node_of_ntp st a z i (by rw [hntp]; exact hi)
  constructor
  · intro hsink hnot
    rw [hpath] at hsink hnot hwalk hfwd ⊢
    apply follow_path _ _ rest src _ _ _ (le_refl _)
    · intro a z hseg
      obtain ⟨_, i, hpo, hpt⟩ := hfwd a z hseg
      exact hop_forward st nports sinks fl.fid a i z (hnot a z hseg) hpo hpt (port_lt a z i (hwalk (a, z) hseg).1 hpt)
    · intro d hd'
      obtain ⟨a, ha⟩ := last_segment rest src d hd' hrest
      exact hop_deliver st nports sinks fl.fid d (node_of_adj d a (hwalk (a, d) ha).2) (hsink d hd')
  · intro htcp hsink hnot dst rest' hrev
    obtain ⟨_, _, hackseg⟩ := hack htcp
    have hlen : (dst :: rest').length ≤ fl.path.length := by
      rw [← hrev]; simp
    rw [hrev]
    apply follow_path _ _ rest' dst _ _ _ hlen
    · intro x y hseg
      rw [← hrev, segments_reverse] at hseg
      obtain ⟨_, i, hpo, hpt⟩ := hackseg y x hseg
      exact hop_forward st nports sinks _ x i y (hnot y x hseg) hpo hpt (port_lt x y i (hwalk (y, x) hseg).2 hpt)
    · intro d hd'
      rw [← hrev, List.getLast?_reverse, hpath] at hd'
      simp only [List.head?_cons, Option.some.injEq] at hd'
      subst hd'
      obtain ⟨z, r', rfl⟩ := List.exists_cons_of_ne_nil hrest
      have hseg : (src, z) ∈ segments fl.path := by rw [hpath]; simp [segments]
      exact hop_deliver st nports sinks _ src (node_of_adj src z (hwalk (src, z) hseg).1) hsink

/-- **`fib_walk` and `ports_bijective` apply to FatTree(k)** for every even `k`: the neighbour lists of the structural fat
tree, written with the constructor's node ids, have no duplicates and at most `k` entries (so `k`-port switches suffice for
`packets_reach_own_sink`); node `n`'s list is found under its id. -/
theorem fattree_graph_ok (k : Nat) (hk : k % 2 = 0) :
    GraphOK (graph k) ∧
    (∀ i ns, dget (graph k) i = some ns → ns.length ≤ k) ∧
    ∀ n ∈ nodes k, dget (graph k) (n.num k) = some ((nbrs k n).map (FNode.num k)) := by
  obtain ⟨h, rfl⟩ : ∃ h, k = 2 * h := ⟨k / 2, by omega⟩
  exact ⟨graph_ok h, graph_degree_le h, fun n hn => dget_graph h n hn⟩

/-! ### non-vacuity -/

/-- a three-node line `0 — 1 — 2` with two flows sharing the link `1 — 2` in opposite directions meets every hypothesis of `fib_walk` -/
example :
    let g : Graph := [(0, [1]), (1, [0, 2]), (2, [1])]
    let flows : List FlowRec := [⟨0, [0, 1, 2]⟩, ⟨7, [2, 1]⟩]
    GraphOK g ∧ (flows.Pairwise fun x y => x.fid ≠ y.fid) ∧ (∀ fl ∈ flows, fl.fid < 10000) ∧
      (∀ fl ∈ flows, fl.path.Nodup ∧ IsWalk g fl.path) := by
  intro g flows
  refine ⟨?_, by simp [flows], by simp [flows], ?_⟩
  · intro n ns h
    have hm := dget_mem _ _ _ h
    simp only [g, List.mem_cons, Prod.mk.injEq, List.not_mem_nil, or_false] at hm
    rcases hm with ⟨_, rfl⟩ | ⟨_, rfl⟩ | ⟨_, rfl⟩ <;> decide
  · intro fl hfl
    simp only [flows, List.mem_cons, List.not_mem_nil, or_false] at hfl
    rcases hfl with rfl | rfl
    · refine ⟨by decide, ?_⟩
      intro seg hseg
      simp only [segments, List.mem_cons, List.not_mem_nil, or_false] at hseg
      rcases hseg with rfl | rfl
      · exact ⟨⟨[1], rfl, by simp⟩, ⟨[0, 2], rfl, by simp⟩⟩
      · exact ⟨⟨[0, 2], rfl, by simp⟩, ⟨[1], rfl, by simp⟩⟩
    · refine ⟨by decide, ?_⟩
      intro seg hseg
      simp only [segments, List.mem_cons, List.not_mem_nil, or_false] at hseg
      subst hseg
      exact ⟨⟨[1], rfl, by simp⟩, ⟨[0, 2], rfl, by simp⟩⟩

/-- the model computes: on that line, with `tcp`, flow 0 is walked `0 → 1 → 2` and its ACK class `2 → 1 → 0` -/
example :
    (generateFib [(0, [1]), (1, [0, 2]), (2, [1])] [⟨0, [0, 1, 2]⟩, ⟨7, [2, 1]⟩] true).toOption.map
      (fun st => (walk (fun n => nexthopOf st n 0) 5 0, walk (fun n => nexthopOf st n 10000) 5 2, portOf st 1 0, portOf st 2 7))
      = some ([0, 1, 2], [2, 1, 0], some 1, some 0) := by decide

/-- a FIBDemux with an **empty table** and a default output (hypotheses of `fibdemux_empty_table`), with and without outputs -/
example : FIBDemux.put { outs := some [5, 6], ends := [(3, 9)], fib := some [], default := some 8 } { ref := ⟨1, 0⟩, flowId := 4 }
    = .ok [(8, ⟨1, 0⟩)] := by decide

example : FIBDemux.put { outs := none, ends := [(3, 9)], fib := some [], default := some 8 } { ref := ⟨1, 0⟩, flowId := 4 }
    = .ok [(8, ⟨1, 0⟩)] := by decide

/-- a heap in which the entering packet owns its two tables (hypothesis of `splitter_rule`), with a stamp already in one -/
example : ∃ (h : Heap) (ob : Obj), h.objs ⟨1, 0⟩ = some ob ∧ (∀ w, ob.tab w = (⟨1, 0⟩, w)) ∧
    h.readTab ⟨1, 0⟩ .perhop 7 = some (some 3) :=
  ⟨{ objs := fun r => if r = ⟨1, 0⟩ then some ⟨fun _ => 0, fun w => (⟨1, 0⟩, w)⟩ else none,
     tabs := fun t k => if t = (⟨1, 0⟩, Tab.perhop) ∧ k = 7 then some 3 else none },
   ⟨fun _ => 0, fun w => (⟨1, 0⟩, w)⟩, by simp, fun _ => rfl, by simp [Heap.readTab]⟩

/-- hub endpoints with pairwise different output devices, two of them sharing an element id (hypothesis of `hub_rule`) -/
example : (([⟨1, 10, none⟩, ⟨2, 11, some 20⟩, ⟨1, 12, none⟩] : HubCfg).map HubEndpoint.out).Nodup := by decide

/-- a fair switch that the constructor accepts (hypothesis of `switch_one_output`) -/
example : ∃ c, FairPacketSwitch.mk 4 "WFQ" = .ok c := ⟨_, rfl⟩

/-- valid nodes of `FatTree(4)` (hypothesis of `fattree_adjacency`), and its 36 nodes -/
example : (FNode.edge 3 1).Valid 4 ∧ (FNode.host 3 1 1).Valid 4 ∧ (nodes 4).length = 36 :=
  ⟨by simp [FNode.Valid], by simp [FNode.Valid], by decide⟩

end C18
