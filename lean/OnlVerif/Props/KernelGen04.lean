import OnlVerif.Lemmas.GenKernelProc04
/-!
# KernelGen04 - `Initialize.__init__` and `Interruption.__init__` *as written in the source* are the kernel model `K` (C04)

One of the bridge modules into which `Props/KernelGen.lean` was split, one per owning property (`py2lean/SCOPE.md`): `py2lean/kernel.py`
regenerates the `Generated/Kernel*.lean` files named in the imports from `onl/sim` on every `./check` of the owning property, and the
theorems below (bridge theorems) prove that the generated definitions coincide with the functions of the hand-written kernel
model `K` (`Kernel/Agenda.lean`, `Ops.lean`, `Step.lean`) that the property theorems are about.  A flipped comparison, a changed
constant, priority or refusal, a lost or reordered effect in the source changes a generated definition and one of these proofs
no longer compiles - for every input, not for sampled ones.  Here: the `spawn` call of `doCall`, `mkInterrupt` (C04).

The encoding between the generated object views and the model state is explicit and hand-written
(`OnlVerif/Lemmas/GenKernelDefs.lean`: `resObj`, `runEff`, `buildEvent`, `applyTrig`, `toEntry`; the `run…` functions next to the
lemmas).  All statements hold for every scalar type `τ` (no arithmetic identity is used), in particular for `ℚ` and `Float`.
This module imports no generated file of another property.
-/

namespace KernelGen
open GenKernel
variable {τ σ : Type} [Num τ]

/-! ## process start, interrupts (C04) -/

/-- **`Initialize.__init__` as written in the source is how the model's `spawn` call starts a process**: an event with the
callback `process._resume`, `_ok = True`, value `None`, scheduled `URGENT` now. -/
theorem process_start_generated_eq_model (s : KState τ σ) (self : EvId) (st : σ) :
    doCall s self (.spawn st) =
      (match buildEvent (fun _ => Cb.resume s.events.size) (Gen.Initialize.init (evObj (τ := τ))).eff {} with
       | some o =>
         let p := s.events.size
         let s1 := (s.newLabelled { kind := .proc, cbs := some [], out := none }).1
         let s2 := s1.setProc p { st, target := some (p + 1) }
         (schedAll (s2.newEv (o.toRec (.init p) .none default)).1 (p + 1) (schedOf (Gen.Initialize.init (evObj (τ := τ))).eff), .ev p)
       | none => (s, .unit)) :=
  spawn_call s self st

/-- **`Interruption.__init__` (`Process.interrupt`) as written in the source is the model's `mkInterrupt`**: refused with
`RuntimeError` for a dead target (first `raise`) and for the active process itself (second `raise`); otherwise an event with
the callback `_interrupt`, `_ok = False`, value `Interrupt(cause)`, `_defused = True`, scheduled `URGENT` now. -/
theorem interrupt_generated_eq_model (s : KState τ σ) (p : EvId) (cause : Val) :
    mkInterrupt s p cause =
      (if (Gen.Interruption.init (evObj (τ := τ)) (s.triggered p) (s.active == some p)).raised = 5 then
         (s, some (if (Gen.Interruption.init (evObj (τ := τ)) (s.triggered p) (s.active == some p)).raise_site = 1
                   then runtimeErr "terminated" else runtimeErr "self"))
       else match buildEvent (fun _ => Cb.intr s.events.size)
           (Gen.Interruption.init (evObj (τ := τ)) (s.triggered p) (s.active == some p)).eff {} with
         | some o =>
           (schedAll (s.newEv (o.toRec (.intr p) .none ⟨"Interrupt", [cause]⟩)).1 s.events.size
              (schedOf (Gen.Interruption.init (evObj (τ := τ)) (s.triggered p) (s.active == some p)).eff), none)
         | none => (s, none)) :=
  interrupt_init s p cause

/-! ## non-vacuity: the generated definitions on concrete objects -/

/-- interrupting a dead process is the first refusal, interrupting oneself the second; otherwise the event is built and scheduled -/
example : (Gen.Interruption.init (evObj (τ := Rat)) true false).raise_site = 1 ∧ (Gen.Interruption.init (evObj (τ := Rat)) false true).raise_site = 2 ∧
    (Gen.Interruption.init (evObj (τ := Rat)) false false).raised = 0 ∧ (Gen.Interruption.init (evObj (τ := Rat)) false false).eff.length = 7 := by
  decide

end KernelGen
