import OnlVerif.Lemmas.SchedSP
import OnlVerif.Net.SPOnK
/-!
# C12/C13 on the kernel: the SP scheduler *as processes on the kernel model* refines the MultiQueueServer LTS

`OnlVerif/Net/SPOnK.lean` writes `MultiQueueScheduler.put`, `Scheduler.send_packet` (a child process per transmission,
joined with `yield process`), `SP.run` and a packet source as one program of the kernel model `K` (`OnlVerif/Kernel`).
Nothing is assumed about scheduling: `Environment.step` of the kernel model decides what runs when (the `StorePut` /
`StoreGet` events of the per-flow stores and of the wake-up store, the `Initialize` and `Process` events of the sender, the
timeouts of the source and of the sender).
-/

namespace C13K
open SPOnK

/-! ### concrete runs of the kernel model, evaluated by the kernel of Lean (exact arithmetic) -/

/-- flows 1, 2, 3 with priorities 1 (L), 3 (M), 5 (H), rate 8 (a packet of size 1 is transmitted in one time unit) -/
def cfg3 : SP.Cfg ℚ := { rate := 8, prios := [(1, 1), (2, 3), (3, 5)] }
/-- packet `i` belongs to flow `fl[i]` -/
def flowOf (fl : List Nat) : Int → Nat := fun i => fl.getD i.toNat 0
def unit : Int → Nat := fun _ => 1

/-- what a finished run shows: entries left in the agenda, the service starts and the departures -/
def run3 (fl : List Nat) (n : Nat) (arr : List (ℚ × Int)) : Option (Nat × List (Int × ℚ) × List (Int × ℚ)) :=
  (finalState (runAll (prog 4 (flowOf fl) unit cfg3) 1 n (initState 4 arr))).map fun s =>
    (s.agenda.length, servesOf s.trace, outsOf s.trace)

/-- L, M, H queued at 0, a second H arrives at 1 — exactly when the first transmission ends —, then L and H at 2: the run
returns with an empty agenda; H(2) 0→1, then the H that arrived at the very instant the transmission ended (3) 1→2, H(5)
2→3 ahead of M(1) 3→4, L(0), L(4): back to back, each transmission exactly one time unit -/
example : run3 [1, 2, 3, 3, 1, 3] 60 [(0, 0), (0, 1), (0, 2), (1, 3), (1, 4), (0, 5)] =
    some (0, [(1, 0), (2, 1), (3, 2), (5, 3), (0, 4), (4, 5)], [(1, 1), (2, 2), (3, 3), (5, 4), (0, 5), (4, 6)]) := by
  decide +kernel

/-- … and every kernel step of that run (41 of them) is an action sequence the LTS accepts between the abstractions of the
two states (`refineCheck` replays the inferred actions through `MQ.step` and compares with `absSP`) -/
example : refineCheck 4 (flowOf [1, 2, 3, 3, 1, 3]) unit cfg3 60
    (initState 4 [(0, 0), (0, 1), (0, 2), (1, 3), (1, 4), (0, 5)]) 0 = some 41 := by
  decide +kernel

/-- a burst at one instant: the decision burst runs after the first two `put`s of the instant (L, M: it takes M), the two
H packets arrive later in the same instant and are served next, L last -/
example : run3 [1, 2, 3, 3] 40 [(0, 0), (0, 1), (0, 2), (0, 3)] =
    some (0, [(1, 0), (2, 1), (3, 2), (0, 3)], [(1, 1), (2, 2), (3, 3), (0, 4)]) ∧
    refineCheck 4 (flowOf [1, 2, 3, 3]) unit cfg3 40 (initState 4 [(0, 0), (0, 1), (0, 2), (0, 3)]) 0 = some 29 := by
  decide +kernel

/-- idle gaps: each packet is served at its arrival instant (the wake-up token), 1→2, 6→7, 7→8 -/
example : run3 [1, 3, 2] 40 [(1, 0), (5, 1), (1, 2)] = some (0, [(0, 1), (1, 6), (2, 7)], [(0, 2), (1, 7), (2, 8)]) ∧
    refineCheck 4 (flowOf [1, 3, 2]) unit cfg3 40 (initState 4 [(1, 0), (5, 1), (1, 2)]) 0 = some 25 := by
  decide +kernel

/-- a reachable state in the middle of a run (13 kernel steps; arrivals at 1, 2, 3): the second packet has arrived at the
instant the first transmission ended; the abstraction function gives an LTS state whose sender has just been spawned for
it, with the counters of flows 1 and 3 at 0 and 1 -/
example : (match runAll (prog 4 (flowOf [1, 3, 2]) unit cfg3) 1 13 (initState 4 [(1, 0), (1, 1), (1, 2)]) with
    | .outOfFuel s => some (MQ.phaseName (absSP (flowOf [1, 3, 2]) unit s), (absSP (flowOf [1, 3, 2]) unit s).queueCount,
        (absSP (flowOf [1, 3, 2]) unit s).now)
    | _ => none) = some ("S", [(1, 0), (3, 1)], 2) := by
  decide +kernel

end C13K
