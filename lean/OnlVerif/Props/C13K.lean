import OnlVerif.Lemmas.SPKFinal
import OnlVerif.Props.C12
import OnlVerif.Props.C13
/-!
# C12/C13 on the kernel: the SP scheduler *as processes on the kernel model* refines the MultiQueueServer LTS

`OnlVerif/Net/SPOnK.lean` writes `MultiQueueScheduler.put`, `Scheduler.send_packet` (a child process per transmission,
joined with `yield process`), `SP.run` and a packet source as one program of the kernel model `K` (`OnlVerif/Kernel`).
Nothing is assumed about scheduling: `Environment.step` of the kernel model decides what runs when (the `StorePut` /
`StoreGet` events of the per-flow stores and of the wake-up store, the `Initialize` and `Process` events of the sender, the
timeouts of the source and of the sender).  The theorems close the gap DESIGN §2.3 names for this device: every kernel step
of this program is a (possibly empty) sequence of actions the MultiQueueServer LTS with the SP record
(`OnlVerif/Net/MultiQueue.lean`, `Net/Sched/SP.lean`) *accepts*, so the admissibility rules of the LTS (a triggered event is
processed before the clock moves, a transmission ends exactly at its due instant, a wake-up token is handed over before the
clock moves) are consequences of the kernel model, and the C12/C13 theorems hold of kernel runs.

Scope: one `SP` over the flows `0 … F-1` (`F` arbitrary) with an arbitrary priority table naming only these flows,
`flow2class` the identity, an `out` attached, `rate > 0`; one source process with non-negative gaps (zero gaps = bursts, and
arrivals exactly at transmission ends, included) whose packets belong to flows with a positive priority (a packet of another
flow makes `SP.run` spin for ever without yielding: a hang, which the model reports as the exception `Hang`); exact rational
time; `fuel + 1` = any positive bound of the `_resume` loop.
-/

namespace C13K
open SPOnK SPK MQ

/-- **Refinement, step by step**: let `s` be reachable by kernel steps from the initial state and let the next kernel step
end in `s'`.  Then that step is a normal one (`.ok`: no exception — in particular never `Hang` —, no stop), and there is a
(possibly empty) sequence of LTS actions that the MultiQueueServer LTS with the SP record *accepts* from the abstraction of
`s`, that ends exactly in the abstraction of `s'` (the step commutes with the executable abstraction function `absSP`), and
in which the packets accepted / sent out are exactly the `put` / `out` observations the kernel step appended to the trace. -/
theorem sp_on_kernel_step_refines (F : Nat) (flow size : Int → Nat) (cfg : SP.Cfg ℚ) (arrivals : List (ℚ × Int))
    (hw : WorkOK flow F cfg arrivals) (ht : TableOK F cfg) (hr : 0 < cfg.rate) (fuel : Nat) (s s' : KState ℚ (SpSt ℚ))
    (hreach : KReach (prog F flow size cfg) (fuel + 1) (initState F arrivals) s)
    (hstep : (step (prog F flow size cfg) (fuel + 1) s).state? = some s') :
    step (prog F flow size cfg) (fuel + 1) s = .ok s' ∧
    ∃ new acts, histOf s'.trace = histOf s.trace ++ new ∧
      runActs (SP.sched cfg) (absSP flow size s) acts = .ok (absSP flow size s', putPk flow size new, outPk flow size new) := by
  obtain ⟨a, _, hi, _⟩ := reach_lts (size := size) fuel hw ht hr hreach
  cases hp : popMin s.agenda with
  | none => simp [_root_.step, hp, StepResult.state?] at hstep
  | some qr =>
    obtain ⟨q, rest⟩ := qr
    obtain ⟨s'', a', new, h1, h2, -, -, -, h6, acts, h7⟩ := inv_step_lts (size := size) fuel hi hp
    rw [h1] at hstep
    simp only [StepResult.state?, Option.some.injEq] at hstep
    subst hstep
    exact ⟨h1, new, acts, h6, by rw [absSP_eq hi, absSP_eq h2]; exact h7⟩

/-- **Refinement, whole runs**: every state reachable by kernel steps is the image under `absSP` of an *admissible* run of
the LTS from the state of a fresh `SP` (`C13.start 0`): the LTS accepts some action sequence that ends in `absSP s` and in
which the packets accepted are the `put` observations and the packets sent out the `out` observations of the kernel trace,
in order — i.e. `absSP s` is `MQ.Reached`, the hypothesis of the C12 theorems. -/
theorem sp_on_kernel_refines_lts (F : Nat) (flow size : Int → Nat) (cfg : SP.Cfg ℚ) (arrivals : List (ℚ × Int))
    (hw : WorkOK flow F cfg arrivals) (ht : TableOK F cfg) (hr : 0 < cfg.rate) (fuel : Nat) (s : KState ℚ (SpSt ℚ))
    (hreach : KReach (prog F flow size cfg) (fuel + 1) (initState F arrivals) s) :
    Reached (SP.sched cfg) (SP.Pc.scan 0) 0 [] (absSP flow size s) (putPk flow size (histOf s.trace))
      (outPk flow size (histOf s.trace)) := by
  obtain ⟨a, acts, hi, hrun⟩ := reach_lts (size := size) fuel hw ht hr hreach
  refine ⟨by intro e he; simp at he, acts, ?_⟩
  rw [absSP_eq hi]
  exact hrun

/-- **No kernel step ever crashes, and `run()` returns**: for every workload as above, every state reachable by kernel
steps is followed by a normal step or has an empty agenda, and `run()` of the kernel model returns (agenda empty, no
exception) within `10·n + 4` kernel steps, `n` = the number of packets. -/
theorem sp_on_kernel_run_returns (F : Nat) (flow size : Int → Nat) (cfg : SP.Cfg ℚ) (arrivals : List (ℚ × Int))
    (hw : WorkOK flow F cfg arrivals) (ht : TableOK F cfg) (hr : 0 < cfg.rate) (fuel n : Nat)
    (hn : 10 * arrivals.length + 4 ≤ n) :
    (∀ s, KReach (prog F flow size cfg) (fuel + 1) (initState F arrivals) s →
      (∃ s', step (prog F flow size cfg) (fuel + 1) s = .ok s') ∨ step (prog F flow size cfg) (fuel + 1) s = .empty) ∧
    ∃ sF, runAll (prog F flow size cfg) (fuel + 1) n (initState F arrivals) = .returned .none sF ∧ sF.agenda = [] ∧
      KReach (prog F flow size cfg) (fuel + 1) (initState F arrivals) sF := by
  constructor
  · intro s hs
    obtain ⟨a, hi⟩ := reach_inv (size := size) fuel hw ht hr hs
    cases hp : popMin s.agenda with
    | none => right; simp [_root_.step, hp]
    | some qr =>
      obtain ⟨q, rest⟩ := qr
      obtain ⟨s', _, _, h1, _⟩ := inv_step (size := size) fuel hi hp
      exact Or.inl ⟨s', h1⟩
  · have h0 := inv_init (flow := flow) arrivals hw ht hr
    obtain ⟨sF, aF, h1, -, h3, h4⟩ := run_returns (size := size) fuel (initState F arrivals) n _ _ h0
      (by rw [a0_mu]; omega) KReach.init
    exact ⟨sF, h1, h3, h4⟩

/-! ### the C12/C13 theorems for kernel runs -/

/-- **Work conservation on the kernel** (`C12.mq_never_idle_with_backlog`): in a state reachable by kernel steps, if the
LTS image may let the clock advance and no transmission is in progress, then `total_packets` is 0, every per-flow store is
empty and `run` holds no packet. -/
theorem kernel_never_idle_with_backlog (F : Nat) (flow size : Int → Nat) (cfg : SP.Cfg ℚ) (arrivals : List (ℚ × Int))
    (hw : WorkOK flow F cfg arrivals) (ht : TableOK F cfg) (hr : 0 < cfg.rate) (fuel : Nat) (s : KState ℚ (SpSt ℚ))
    (hreach : KReach (prog F flow size cfg) (fuel + 1) (initState F arrivals) s) (t : ℚ)
    (htick : ∃ s' o, MQ.step (SP.sched cfg) (absSP flow size s) (.tick t) = .ok (s', o))
    (hidle : ∀ p d, (absSP flow size s).phase ≠ .sending p d) :
    total (absSP flow size s).queueCount = 0 ∧ inHand (absSP flow size s) = [] ∧
      ∀ c, storeOf (absSP flow size s).stores c = [] := by
  have := C12.mq_never_idle_with_backlog (SP.sched cfg) (SP.lawful cfg) (SP.Pc.scan 0) 0 [] _ _ _
    (sp_on_kernel_refines_lts F flow size cfg arrivals hw ht hr fuel s hreach) t htick hidle
  exact ⟨this.1, this.2.1, this.2.2.1⟩

/-- **Per-flow FIFO and conservation on the kernel** (`C12.mq_flow_fifo`): at every state reachable by kernel steps the
packets of flow `f` handed to `put` so far are, in order, those of `f` handed to `out.put` followed by those of `f` still
held (in transmission, then waiting in `stores[f]`). -/
theorem kernel_flow_fifo (F : Nat) (flow size : Int → Nat) (cfg : SP.Cfg ℚ) (arrivals : List (ℚ × Int))
    (hw : WorkOK flow F cfg arrivals) (ht : TableOK F cfg) (hr : 0 < cfg.rate) (fuel : Nat) (s : KState ℚ (SpSt ℚ))
    (hreach : KReach (prog F flow size cfg) (fuel + 1) (initState F arrivals) s) (f : Nat) :
    ofFlow f (putPk flow size (histOf s.trace)) =
      ofFlow f (outPk flow size (histOf s.trace)) ++ ofFlow f (heldC (SP.sched cfg) (absSP flow size s) f) :=
  C12.mq_flow_fifo (SP.sched cfg) (SP.lawful cfg) (SP.Pc.scan 0) 0 [] _ _ _
    (sp_on_kernel_refines_lts F flow size cfg arrivals hw ht hr fuel s hreach) f f rfl

/-- **The counters are exact on the kernel** (`C12.mq_counters_eq`): `queue_count[f]`, `queue_byte_size[f]` and
`total_packets`, read from the attribute cells of a reachable kernel state, equal the number / bytes of the packets held. -/
theorem kernel_counters_eq (F : Nat) (flow size : Int → Nat) (cfg : SP.Cfg ℚ) (arrivals : List (ℚ × Int))
    (hw : WorkOK flow F cfg arrivals) (ht : TableOK F cfg) (hr : 0 < cfg.rate) (fuel : Nat) (s : KState ℚ (SpSt ℚ))
    (hreach : KReach (prog F flow size cfg) (fuel + 1) (initState F arrivals) s) (f : Nat) :
    cnt (absSP flow size s).queueCount f = W (one f) (absSP flow size s) ∧
    cnt (absSP flow size s).queueBytes f = W (bytesOf f) (absSP flow size s) ∧
    total (absSP flow size s).queueCount = W (fun _ => 1) (absSP flow size s) :=
  C12.mq_counters_eq (SP.sched cfg) (SP.lawful cfg) (SP.Pc.scan 0) 0 [] _ _ _
    (sp_on_kernel_refines_lts F flow size cfg arrivals hw ht hr fuel s hreach) f

/-! ### the direct form: strict priority, exact service times, work conservation, drain -/

/-- **What the oracle accepts** (`SPOnK.ostep` at exact rational time, spelled out).  A `serve id t` observation is accepted
in oracle state `o` iff nothing is in transmission, `id` is the oldest waiting packet of its flow, some table entry
`(flow id, π)` has `π > 0` and every waiting packet of a flow with a priority above `π` was put at an instant `≥ t` (none
waits from an earlier instant), and `t` is the instant of the last departure or the instant at which every waiting packet was
put; an `out id t` observation is accepted iff `id` is in transmission since `s` and `t = s + 8·size/rate`. -/
theorem oracle_accepts_iff (F : Nat) (flow size : Int → Nat) (cfg : SP.Cfg ℚ) (o : OSt ℚ) (id : Int) (t : ℚ) :
    ((ostep F flow size cfg o (.serve id t)).isSome ↔
      o.busy = none ∧ (∃ tp rest, o.waiting (flow id) = (id, tp) :: rest) ∧
      (∃ π, (flow id, π) ∈ cfg.prios ∧ 0 < π ∧
        ∀ f', f' < F → ∀ π', (f', π') ∈ cfg.prios → π < π' → ∀ x ∈ o.waiting f', t ≤ x.2) ∧
      (o.lastOut = some t ∨ ∀ f, f < F → ∀ x ∈ o.waiting f, x.2 = t)) ∧
    ((ostep F flow size cfg o (.out id t)).isSome ↔ ∃ s, o.busy = some (id, s) ∧ t = s + (size id * 8 : ℕ) / cfg.rate) := by
  constructor
  · simp only [ostep]
    split
    · rename_i h
      simp only [Option.isSome_some, true_iff]
      obtain ⟨h1, h2, ⟨e, he, he1, he2, he3⟩, h4⟩ := h
      refine ⟨by cases hb : o.busy <;> simp_all, ?_, ⟨e.2, by rw [← he1]; exact he, he2, ?_⟩, ?_⟩
      · cases hw : o.waiting (flow id) with
        | nil => simp [hw] at h2
        | cons x r =>
          simp only [hw, List.head?_cons, Option.map_some, Option.some.injEq] at h2
          exact ⟨x.2, r, by rw [← h2]⟩
      · intro f' hf' π' hm hlt x hx
        exact not_lt.mp (he3 f' (List.mem_range.mpr hf') ⟨(f', π'), hm, rfl, hlt⟩ x hx)
      · rcases h4 with h4 | h4
        · left
          cases hl : o.lastOut with
          | none => simp [hl, lastIs] at h4
          | some d => simp only [hl, lastIs] at h4; rw [(eqT_iff _ _).mp h4]
        · right
          intro f hf x hx
          exact (eqT_iff _ _).mp (h4 f (List.mem_range.mpr hf) x hx)
    · rename_i h
      simp only [Option.isSome_none, Bool.false_eq_true, false_iff]
      rintro ⟨h1, ⟨tp, r, h2⟩, ⟨π, hm, hpos, h3⟩, h4⟩
      apply h
      refine ⟨by simp [h1], by simp [h2], ⟨(flow id, π), hm, rfl, hpos, ?_⟩, ?_⟩
      · rintro f' hf' ⟨e', he', he1, he2⟩ x hx
        exact not_lt.mpr (h3 f' (List.mem_range.mp hf') e'.2 (by rw [← he1]; exact he') he2 x hx)
      · rcases h4 with h4 | h4
        · left; rw [h4]; exact (eqT_iff _ _).mpr rfl
        · right; intro f hf x hx; exact (eqT_iff _ _).mpr (h4 f (List.mem_range.mp hf) x hx)
  · have hiff : OutOK size cfg.rate o id t ↔ ∃ s, o.busy = some (id, s) ∧ t = s + (size id * 8 : ℕ) / cfg.rate := by
      unfold OutOK
      cases hb : o.busy with
      | none => simp
      | some x =>
        obtain ⟨id', s0⟩ := x
        simp only [eqT_iff, SPOnK.txTime, Num.ofNat_rat, Option.some.injEq, Prod.mk.injEq]
        constructor
        · rintro ⟨rfl, h⟩; exact ⟨s0, ⟨rfl, rfl⟩, h⟩
        · rintro ⟨s1, ⟨rfl, rfl⟩, h⟩; exact ⟨rfl, h⟩
    simp only [ostep]
    by_cases hok : OutOK size cfg.rate o id t
    · simp only [hok, if_true, Option.isSome_some, true_iff]
      exact hiff.mp hok
    · simp only [hok, if_false, Option.isSome_none, Bool.false_eq_true, false_iff]
      exact fun h => hok (hiff.mpr h)

/-- **The history of every kernel run passes the oracle, step by step**: at every state reachable by kernel steps the
`put` / `serve` / `out` observations recorded so far are accepted by `SPOnK.orun` from the empty oracle state — every service
start so far respected strict priority, per-flow FIFO, one-at-a-time and work conservation, every departure came exactly
`8·size/rate` after its service start (`oracle_accepts_iff`). -/
theorem sp_on_kernel_history_accepted (F : Nat) (flow size : Int → Nat) (cfg : SP.Cfg ℚ) (arrivals : List (ℚ × Int))
    (hw : WorkOK flow F cfg arrivals) (ht : TableOK F cfg) (hr : 0 < cfg.rate) (fuel : Nat) (s : KState ℚ (SpSt ℚ))
    (hreach : KReach (prog F flow size cfg) (fuel + 1) (initState F arrivals) s) :
    ∃ o, orun F flow size cfg oInit (histOf s.trace) = some o := by
  obtain ⟨a, hi⟩ := reach_inv3 (size := size) fuel hw ht hr hreach
  obtain ⟨o, ho⟩ := hi.o
  exact ⟨o, ho.run⟩

/-- **Strict priority, exact service times, work conservation and drain for the SP scheduler as kernel processes (direct
form, no admissibility assumption).**  For every number of flows `F`, every priority table over them, every `rate > 0` and
every finite workload with non-negative gaps whose packets belong to flows with a positive priority (bursts and arrivals
exactly at transmission ends included), `run()` of the kernel model on the spawned processes

* returns (agenda empty, no exception ever leaves `step()`) within `10·n + 4` kernel steps;
* has handed exactly the workload to `put`: packet `k` at the sum of the first `k + 1` gaps (`arrivalsFrom`);
* has a `put` / `serve` / `out` history that the oracle accepts (`oracle_accepts_iff`): at every service start nothing else
  was in transmission, the packet was the oldest of its flow, **no packet of a flow with a strictly higher priority was
  waiting from an earlier instant**, and the service started **at the very instant the previous transmission ended or at the
  instant the waiting packets arrived** (never idle with a backlog); every packet left **exactly `8·size/rate`** after its
  service start;
* ends drained: nothing waits, nothing is in transmission, and for every flow the packets handed to `out.put` are exactly
  the packets of that flow handed to `put`, in the same order (every packet leaves once, per flow in arrival order). -/
theorem sp_on_kernel_strict_priority (F : Nat) (flow size : Int → Nat) (cfg : SP.Cfg ℚ) (arrivals : List (ℚ × Int))
    (hw : WorkOK flow F cfg arrivals) (ht : TableOK F cfg) (hr : 0 < cfg.rate) (fuel n : Nat)
    (hn : 10 * arrivals.length + 4 ≤ n) :
    ∃ sF o, runAll (prog F flow size cfg) (fuel + 1) n (initState F arrivals) = .returned .none sF ∧ sF.agenda = [] ∧
      obsPuts (histOf sF.trace) = arrivalsFrom 0 arrivals ∧
      orun F flow size cfg oInit (histOf sF.trace) = some o ∧ drained F o = true ∧
      ∀ f, ofFlow f (outPk flow size (histOf sF.trace)) = ofFlow f (putPk flow size (histOf sF.trace)) := by
  obtain ⟨sF, aF, h1, h2, h3, h4⟩ := run_returns3 fuel (initState F arrivals) n _ _
    (inv3_init (size := size) hw ht hr) (by rw [a0_mu]; omega) KReach.init
  obtain ⟨o, g1, g2, g3, g4⟩ := inv3_final h2 h3
  refine ⟨sF, o, h1, h3, g3, g1, g2, ?_⟩
  intro f
  have := kernel_flow_fifo F flow size cfg arrivals hw ht hr fuel sF h4 f
  rw [absSP_eq h2.i, g4 f] at this
  simpa [ofFlow] using this.symm

/-- **Strict priority at the decision burst, on kernel states**: let `s` be reachable by kernel steps and let the next
kernel step be one in which `run` takes a packet (the abstraction of the state after it has `run` holding a freshly taken
packet `p` of flow `c`, the one before has not).  Then `c` has a table entry `(c, π)` with `π > 0`, `p` was the head of
`stores[c]` in `s`, and **the store of every flow with a table entry of priority above `π` is empty in `s`** — read from the
`Store` resources of the kernel state itself. -/
theorem sp_on_kernel_decision_strict (F : Nat) (flow size : Int → Nat) (cfg : SP.Cfg ℚ) (arrivals : List (ℚ × Int))
    (hw : WorkOK flow F cfg arrivals) (ht : TableOK F cfg) (hr : 0 < cfg.rate) (fuel : Nat) (s s' : KState ℚ (SpSt ℚ))
    (hreach : KReach (prog F flow size cfg) (fuel + 1) (initState F arrivals) s)
    (hstep : step (prog F flow size cfg) (fuel + 1) s = .ok s') (c : Nat) (p : MPkt)
    (hpost : (absSP flow size s').phase = .pktHanded c p) (hpre : ∀ c p, (absSP flow size s).phase ≠ .pktHanded c p) :
    ∃ π, (c, π) ∈ cfg.prios ∧ 0 < π ∧
      (∃ id is, (s.res (flowStore c)).items = id :: is ∧ p = pktOf flow size id) ∧
      ∀ f' π', (f', π') ∈ cfg.prios → π < π' → (s.res (flowStore f')).items = [] := by
  obtain ⟨a, hi⟩ := reach_inv3 (size := size) fuel hw ht hr hreach
  cases hp : popMin s.agenda with
  | none => simp [_root_.step, hp] at hstep
  | some qr =>
    obtain ⟨q, rest⟩ := qr
    obtain ⟨s'', a', new, h1, h2, -, h4, -⟩ := inv_step_lts (size := size) fuel hi.i hp
    rw [h1] at hstep
    cases hstep
    rw [absSP_eq h2] at hpost
    have hpre' : ∀ g i id q0, a.run ≠ .H g i id q0 := by
      intro g i id q0 h
      exact hpre (flow id) (pktOf flow size id) (by rw [absSP_eq hi.i]; simp [toM, phaseOf, h])
    cases hrun' : a'.run with
    | H g i id q' =>
      simp only [toM, phaseOf, hrun', Phase.pktHanded.injEq] at hpost
      obtain ⟨rfl, rfl⟩ := hpost
      obtain ⟨ent, hm, e1, e2, ⟨is, e3⟩, e4⟩ := astep_decision hi.i.i.a h4 hrun' hpre'
      have hfid : flow id < F := by rw [← e1]; exact ht ent hm
      refine ⟨ent.2, by rw [← e1]; exact hm, e2, ⟨id, is, by rw [hi.i.i.k.st _ hfid, e3]; rfl, rfl⟩, ?_⟩
      intro f' π' hm' hlt
      have hf' : f' < F := ht (f', π') hm'
      rw [hi.i.i.k.st f' hf', e4 f' hf' ⟨(f', π'), hm', rfl, hlt⟩]
      rfl
    | init q0 => simp [toM, phaseOf, hrun'] at hpost
    | W g => simp [toM, phaseOf, hrun'] at hpost
    | K g q0 => simp [toM, phaseOf, hrun'] at hpost
    | S p0 id q0 => simp [toM, phaseOf, hrun'] at hpost
    | T p0 t id q0 => simp [toM, phaseOf, hrun'] at hpost
    | F p0 id q0 => simp [toM, phaseOf, hrun'] at hpost

/-! ### concrete runs of the kernel model, evaluated by the kernel of Lean (exact arithmetic) -/

/-- flows 1, 2, 3 with priorities 1 (L), 3 (M), 5 (H), rate 8 (a packet of size 1 is transmitted in one time unit) -/
def cfg3 : SP.Cfg ℚ := { rate := 8, prios := [(1, 1), (2, 3), (3, 5)] }
/-- packet `i` belongs to flow `fl[i]` -/
def flowOf (fl : List Nat) : Int → Nat := fun i => fl.getD i.toNat 0
def unit : Int → Nat := fun _ => 1

/-- what a finished run shows: entries left in the agenda, the service starts and the departures -/
def run3 (fl : List Nat) (n : Nat) (arr : List (ℚ × Int)) : Option (Nat × List (Int × ℚ) × List (Int × ℚ)) :=
  (finalState (runAll (prog 4 (flowOf fl) unit cfg3) 1 n (initState 4 arr))).map fun s =>
    (s.agenda.length, servesOf s.trace, outsOf s.trace)

/-- L, M, H queued at 0, a second H arrives at 1 — exactly when the first transmission ends —, then L and H at 2: the run
returns with an empty agenda; H(2) 0→1, then the H that arrived at the very instant the transmission ended (3) 1→2, H(5)
2→3 ahead of M(1) 3→4, L(0), L(4): back to back, each transmission exactly one time unit -/
example : run3 [1, 2, 3, 3, 1, 3] 60 [(0, 0), (0, 1), (0, 2), (1, 3), (1, 4), (0, 5)] =
    some (0, [(1, 0), (2, 1), (3, 2), (5, 3), (0, 4), (4, 5)], [(1, 1), (2, 2), (3, 3), (5, 4), (0, 5), (4, 6)]) := by
  decide +kernel

/-- … and every kernel step of that run (41 of them) is an action sequence the LTS accepts between the abstractions of the
two states (`refineCheck` replays the inferred actions through `MQ.step` and compares with `absSP`) -/
example : refineCheck 4 (flowOf [1, 2, 3, 3, 1, 3]) unit cfg3 60
    (initState 4 [(0, 0), (0, 1), (0, 2), (1, 3), (1, 4), (0, 5)]) 0 = some 41 := by
  decide +kernel

/-- a burst at one instant: the decision burst runs after the first two `put`s of the instant (L, M: it takes M), the two
H packets arrive later in the same instant and are served next, L last -/
example : run3 [1, 2, 3, 3] 40 [(0, 0), (0, 1), (0, 2), (0, 3)] =
    some (0, [(1, 0), (2, 1), (3, 2), (0, 3)], [(1, 1), (2, 2), (3, 3), (0, 4)]) ∧
    refineCheck 4 (flowOf [1, 2, 3, 3]) unit cfg3 40 (initState 4 [(0, 0), (0, 1), (0, 2), (0, 3)]) 0 = some 29 := by
  decide +kernel

/-- idle gaps: each packet is served at its arrival instant (the wake-up token), 1→2, 6→7, 7→8 -/
example : run3 [1, 3, 2] 40 [(1, 0), (5, 1), (1, 2)] = some (0, [(0, 1), (1, 6), (2, 7)], [(0, 2), (1, 7), (2, 8)]) ∧
    refineCheck 4 (flowOf [1, 3, 2]) unit cfg3 40 (initState 4 [(1, 0), (5, 1), (1, 2)]) 0 = some 25 := by
  decide +kernel

/-- a reachable state in the middle of a run (13 kernel steps; arrivals at 1, 2, 3): the second packet has arrived at the
instant the first transmission ended; the abstraction function gives an LTS state whose sender has just been spawned for
it, with the counters of flows 1 and 3 at 0 and 1 -/
example : (match runAll (prog 4 (flowOf [1, 3, 2]) unit cfg3) 1 13 (initState 4 [(1, 0), (1, 1), (1, 2)]) with
    | .outOfFuel s => some (MQ.phaseName (absSP (flowOf [1, 3, 2]) unit s), (absSP (flowOf [1, 3, 2]) unit s).queueCount,
        (absSP (flowOf [1, 3, 2]) unit s).now)
    | _ => none) = some ("S", [(1, 0), (3, 1)], 2) := by
  decide +kernel

/-- the hypotheses of the theorems are met by that workload (`WorkOK`, `TableOK`), and the history of its run is accepted by
the oracle and ends drained -/
example : WorkOK (flowOf [1, 2, 3, 3, 1, 3]) 4 cfg3 [(0, 0), (0, 1), (0, 2), (1, 3), (1, 4), (0, 5)] ∧ TableOK 4 cfg3 := by
  refine ⟨?_, by unfold TableOK cfg3; decide⟩
  intro x hx
  simp only [List.mem_cons, List.not_mem_nil, or_false] at hx
  rcases hx with rfl | rfl | rfl | rfl | rfl | rfl <;>
    exact ⟨by norm_num, by decide, by first | exact ⟨1, by decide, by decide⟩ | exact ⟨3, by decide, by decide⟩ | exact ⟨5, by decide, by decide⟩⟩

example : (finalState (runAll (prog 4 (flowOf [1, 2, 3, 3, 1, 3]) unit cfg3) 1 60
      (initState 4 [(0, 0), (0, 1), (0, 2), (1, 3), (1, 4), (0, 5)]))).map
    (fun s => (orun 4 (flowOf [1, 2, 3, 3, 1, 3]) unit cfg3 oInit (histOf s.trace)).map (drained 4)) = some (some true) := by
  decide +kernel

/-- the oracle is not vacuous.  Packets 0, 1 are L, packet 2 is H; 0 is in transmission 0→1 while 1 and 2 arrive at 1/2.
Serving H at 1 is accepted; serving L at 1 is rejected (H waits since 1/2); a service that starts late (at 2, with a backlog
and no departure at 2) is rejected; a departure later than `start + 8·size/rate` is rejected. -/
example : orun 4 (flowOf [1, 1, 3]) unit cfg3 oInit
      [.put 0 0, .serve 0 0, .put 1 (1/2), .put 2 (1/2), .out 0 1, .serve 2 1, .out 2 2, .serve 1 2, .out 1 3] ≠ none ∧
    orun 4 (flowOf [1, 1, 3]) unit cfg3 oInit [.put 0 0, .serve 0 0, .put 1 (1/2), .put 2 (1/2), .out 0 1, .serve 1 1] = none ∧
    orun 4 (flowOf [1, 1, 3]) unit cfg3 oInit [.put 0 0, .serve 0 2] = none ∧
    orun 4 (flowOf [1, 1, 3]) unit cfg3 oInit [.put 0 0, .serve 0 0, .out 0 2] = none := by
  decide +kernel

end C13K
