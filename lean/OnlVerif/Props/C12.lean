import OnlVerif.Lemmas.MultiQueueRun
import OnlVerif.Lemmas.StampWfqOrd
import OnlVerif.Lemmas.StampVc
import OnlVerif.Lemmas.GenSchedTx
/-!
# C12 (multi-queue half) — SP, RR, WRR and DRR are work-conserving, non-preemptive, rate-exact and per-flow FIFO

Model: `OnlVerif/Net/MultiQueue.lean` (the MultiQueueServer LTS over the scheduler's atomic bursts) instantiated
with `OnlVerif/Net/Sched/{SP,RR,WRR,DRR}.lean`.  "For all workloads" = for every action sequence the LTS accepts
from the initial state (`runLog … = .ok …` / `runActs … = .ok …`); time and rates are exact rationals.  Each of the
theorems is stated for an arbitrary scheduler record `sc` that is `MQ.Lawful` (blocks on the wake-up token only
when `total_packets == 0`; never issues `store.get()` on a class with a parked head-of-line packet);
`mq_instances_lawful` shows that the four schedulers are.  The correspondence check replays the real
schedulers through this LTS bit for bit.
-/

namespace C12
open MQ
variable {κ : Type}

/-- **SP, RR, WRR and DRR are instances**: each `run()` blocks on the token store only behind
`if self.total_packets == 0`, and only DRR parks packets, never fetching from a class whose head is parked. -/
theorem mq_instances_lawful (a : SP.Cfg ℚ) (b : RR.Cfg ℚ) (c : WRR.Cfg ℚ) (d : DRR.Cfg ℚ) :
    Lawful (SP.sched a) ∧ Lawful (RR.sched b) ∧ Lawful (WRR.sched c) ∧ Lawful (DRR.sched d) :=
  ⟨SP.lawful a, RR.lawful b, WRR.lawful c, DRR.lawful d⟩

/-- **One packet at a time**: along every admissible run the starts of transmission and the departures alternate
strictly — start p₁, departure p₁, start p₂, departure p₂, … — so transmissions never overlap and the packet that
leaves is the one that was started. -/
theorem mq_one_at_a_time (sc : MQ.Sched ℚ κ) (k0 : κ) (t0 : ℚ) (counts : List (Nat × Int)) (as : List (MAct ℚ))
    (l : List (Entry κ)) (h : runLog sc (start k0 t0 counts) as = .ok l) :
    Alternates none (txEvents (l.map (·.out))) := by
  have := runLog_alternates sc as _ l h
  simpa [txOpen, start, MQ.init] using this

/-- **A transmission lasts exactly `8·size/rate`**: the sender started at `now` sleeps until exactly
`now + 8·size/rate`; the packet leaves only at that instant, and the clock cannot pass it. -/
theorem mq_service_time_exact (sc : MQ.Sched ℚ κ) (s : MQState ℚ κ) (p : MPkt) :
    (s.phase = .spawned p → ∀ s' o, step sc s .sendInit = .ok (s', o) →
        o = .started p (s.now + (p.size * 8 : ℕ) / sc.rate) ∧ s'.phase = .sending p (s.now + (p.size * 8 : ℕ) / sc.rate)) ∧
    (∀ due, s.phase = .sending p due →
        (∀ s' o, step sc s .sendFire = .ok (s', o) → s.now = due ∧ o = .depart p) ∧
        (∀ t s' o, step sc s (.tick t) = .ok (s', o) → t ≤ due)) := by
  refine ⟨fun hp s' o h => ?_, fun due hp => ⟨fun s' o h => ?_, fun t s' o h => ?_⟩⟩
  · have ht := step_trans sc s s' _ o h
    cases ht with
    | sendInit q hq =>
      rw [hp] at hq; cases hq
      exact ⟨rfl, rfl⟩
  · have ht := step_trans sc s s' _ o h
    cases ht with
    | sendFire q d hq hnow =>
      rw [hp] at hq; cases hq
      exact ⟨hnow, rfl⟩
  · have ht := step_trans sc s s' _ o h
    cases ht with
    | tickIdle _ h1 h2 h3 => rw [hp] at h2; cases h2
    | tickBusy _ q d h1 h2 h3 => rw [hp] at h2; cases h2; exact h3

/-- **No lost wake-up**: in every reachable state in which the loop is blocked on the wake-up store while packets are
held, a token is in the store — its hand-off is pending and the clock cannot advance. -/
theorem mq_no_lost_wakeup (sc : MQ.Sched ℚ κ) (L : Lawful sc) (k0 : κ) (t0 : ℚ) (counts : List (Nat × Int))
    (s : MQState ℚ κ) (ins outs : List MPkt) (h : Reached sc k0 t0 counts s ins outs)
    (hw : s.phase = .waitToken) (hb : 0 < W (fun _ => 1) s) :
    0 < s.tokens ∧ ∀ t s' o, step sc s (.tick t) ≠ .ok (s', o) := by
  have hi := (reached_inv sc L k0 t0 counts s ins outs h).1
  have htok : 0 < s.tokens := by
    by_contra hc
    have := hi.wake hw (by omega)
    rw [hi.tot] at this; omega
  refine ⟨htok, fun t s' o hs => ?_⟩
  have := (tick_ok_iff sc s t).mp ⟨s', o, hs⟩
  rcases this.2 with ⟨_, h0⟩ | ⟨p, d, hp, _⟩
  · omega
  · rw [hw] at hp; cases hp

/-- **Never idle with a backlog** (work conservation): whenever the clock may advance and no transmission is in
progress, nothing is held — `total_packets` is 0, every per-class store is empty, no packet is parked or in hand. -/
theorem mq_never_idle_with_backlog (sc : MQ.Sched ℚ κ) (L : Lawful sc) (k0 : κ) (t0 : ℚ) (counts : List (Nat × Int))
    (s : MQState ℚ κ) (ins outs : List MPkt) (h : Reached sc k0 t0 counts s ins outs) (t : ℚ)
    (htick : ∃ s' o, step sc s (.tick t) = .ok (s', o)) (hidle : ∀ p d, s.phase ≠ .sending p d) :
    total s.queueCount = 0 ∧ inHand s = [] ∧ (∀ c, storeOf s.stores c = []) ∧ (∀ c, lookupD s.hol c none = none) := by
  have hi := (reached_inv sc L k0 t0 counts s ins outs h).1
  rcases ((tick_ok_iff sc s t).mp htick).2 with ⟨hw, h0⟩ | ⟨p, d, hp, _⟩
  · have ht := hi.wake hw h0
    exact ⟨ht, nothing_held_of_total_zero s (by rw [← hi.tot]; exact ht)⟩
  · exact absurd hp (hidle p d)

/-- **Non-preemptive, no abort**: once a transmission of `p` is in progress, every accepted action other than the
end of that transmission (arrivals, clock ticks, monitor samples) leaves it in progress with the same end instant;
it ends only by `sendFire`, at its due instant, with the departure of `p`. -/
theorem mq_no_abort (sc : MQ.Sched ℚ κ) (s s' : MQState ℚ κ) (a : MAct ℚ) (o : MOut ℚ) (p : MPkt) (due : ℚ)
    (hp : s.phase = .sending p due) (h : step sc s a = .ok (s', o)) :
    (a = .sendFire ∧ o = .depart p ∧ s.now = due ∧ s'.phase = .finished p) ∨
    (s'.phase = .sending p due ∧ (∀ q, o ≠ .depart q) ∧ (∀ q d, o ≠ .started q d)) := by
  have ht := step_trans sc s s' a o h
  cases ht with
  | init _ h1 _ => rw [hp] at h1; cases h1
  | put q c k hc hk =>
    right
    have : (postToken { s with ctl := k }).phase = s.phase := by unfold postToken; split <;> rfl
    exact ⟨by show (postToken { s with ctl := k }).phase = _; rw [this, hp], fun _ hx => (by cases hx), fun _ _ hx => (by cases hx)⟩
  | tokenHandoff n h1 _ => rw [hp] at h1; cases h1
  | wake _ h1 _ => rw [hp] at h1; cases h1
  | resumeSend c q e k h1 _ => rw [hp] at h1; cases h1
  | resumePark c q k s2 _ h1 _ _ _ => rw [hp] at h1; cases h1
  | sendInit q h1 => rw [hp] at h1; cases h1
  | sendFire q d h1 hnow => rw [hp] at h1; cases h1; exact Or.inl ⟨rfl, rfl, hnow, rfl⟩
  | sendDone q k _ h1 _ _ => rw [hp] at h1; cases h1
  | tickIdle t _ h1 _ => rw [hp] at h1; cases h1
  | tickBusy t q d _ h1 _ => exact Or.inr ⟨hp, fun _ hx => (by cases hx), fun _ _ hx => (by cases hx)⟩
  | sample inc => exact Or.inr ⟨hp, fun _ hx => (by cases hx), fun _ _ hx => (by cases hx)⟩

/-- **Per-class FIFO and conservation**: after any admissible run the packets accepted for class `c` are, in order,
exactly the packets of `c` that have left followed by those still held (in hand, parked, stored). -/
theorem mq_class_fifo (sc : MQ.Sched ℚ κ) (L : Lawful sc) (k0 : κ) (t0 : ℚ) (counts : List (Nat × Int))
    (s : MQState ℚ κ) (ins outs : List MPkt) (h : Reached sc k0 t0 counts s ins outs) (c : Nat) :
    ofClass sc c ins = ofClass sc c outs ++ heldC sc s c :=
  (reached_inv sc L k0 t0 counts s ins outs h).2 c

/-- **Per-flow FIFO** (also when several flows share a class): the packets accepted from flow `f` are, in arrival
order, exactly the packets of `f` that have left followed by the packets of `f` still held. -/
theorem mq_flow_fifo (sc : MQ.Sched ℚ κ) (L : Lawful sc) (k0 : κ) (t0 : ℚ) (counts : List (Nat × Int))
    (s : MQState ℚ κ) (ins outs : List MPkt) (h : Reached sc k0 t0 counts s ins outs) (f c : Nat)
    (hc : sc.classOf f = some c) :
    ofFlow f ins = ofFlow f outs ++ ofFlow f (heldC sc s c) := by
  have := mq_class_fifo sc L k0 t0 counts s ins outs h c
  rw [← ofFlow_ofClass sc f c hc ins, this, ofFlow_append, ofFlow_ofClass sc f c hc outs]

/-- **Every accepted packet is transmitted exactly once** (drain): when the clock may advance and no transmission
is in progress, the packets that have left each class are exactly the packets accepted for it, in order, and every
packet of a configured flow occurs among the departures exactly as often as among the arrivals. -/
theorem mq_every_packet_once (sc : MQ.Sched ℚ κ) (L : Lawful sc) (k0 : κ) (t0 : ℚ) (counts : List (Nat × Int))
    (s : MQState ℚ κ) (ins outs : List MPkt) (h : Reached sc k0 t0 counts s ins outs) (t : ℚ)
    (htick : ∃ s' o, step sc s (.tick t) = .ok (s', o)) (hidle : ∀ p d, s.phase ≠ .sending p d) :
    (∀ c, ofClass sc c outs = ofClass sc c ins) ∧
    (∀ p c, sc.classOf p.flow = some c → outs.count p = ins.count p) := by
  have hn := mq_never_idle_with_backlog sc L k0 t0 counts s ins outs h t htick hidle
  have hc : ∀ c, ofClass sc c outs = ofClass sc c ins := by
    intro c
    have := mq_class_fifo sc L k0 t0 counts s ins outs h c
    rw [heldC_nil_of_nothing sc s hn.2.1 hn.2.2.1 hn.2.2.2 c] at this
    simpa using this.symm
  refine ⟨hc, fun p c hpc => ?_⟩
  have h1 : ∀ l : List MPkt, (ofClass sc c l).count p = l.count p := by
    intro l
    simp only [ofClass, List.count_filter, hpc, decide_true]
  rw [← h1 outs, ← h1 ins, hc c]

/-- **The per-flow counters are exact**: in every reachable state `queue_count[f]` and `queue_byte_size[f]` equal the
number and the bytes of the packets of flow `f` that are waiting (stored or parked) or being handed over / in
transmission, and `total_packets` is the number of all packets held. -/
theorem mq_counters_eq (sc : MQ.Sched ℚ κ) (L : Lawful sc) (k0 : κ) (t0 : ℚ) (counts : List (Nat × Int))
    (s : MQState ℚ κ) (ins outs : List MPkt) (h : Reached sc k0 t0 counts s ins outs) (f : Nat) :
    cnt s.queueCount f = W (one f) s ∧ cnt s.queueBytes f = W (bytesOf f) s ∧ total s.queueCount = W (fun _ => 1) s := by
  have hi := (reached_inv sc L k0 t0 counts s ins outs h).1
  exact ⟨hi.count f, hi.bytes f, hi.tot⟩

/-- **Monitor samples**: a round with `service_included` reports for every flow the packets/bytes held; without, the
same minus the packet in service when it is of that flow — and the packet in service (`current_packet`) is the
packet of the sender process: set whenever a transmission is in progress, never set otherwise. -/
theorem mq_monitor_eq (sc : MQ.Sched ℚ κ) (L : Lawful sc) (k0 : κ) (t0 : ℚ) (counts : List (Nat × Int))
    (s : MQState ℚ κ) (ins outs : List MPkt) (h : Reached sc k0 t0 counts s ins outs) :
    (∀ e ∈ monitorSample s true, e.2.1 = W (one e.1) s ∧ e.2.2 = W (bytesOf e.1) s) ∧
    (∀ e ∈ monitorSample s false, e.2.1 = W (one e.1) s - wOpt (one e.1) s.currentPacket ∧
                                   e.2.2 = W (bytesOf e.1) s - wOpt (bytesOf e.1) s.currentPacket) ∧
    (∀ p d, s.phase = .sending p d → s.currentPacket = some p) ∧
    (∀ p, s.currentPacket = some p → s.phase = .spawned p ∨ ∃ d, s.phase = .sending p d) := by
  have hi := (reached_inv sc L k0 t0 counts s ins outs h).1
  refine ⟨fun e he => ?_, fun e he => ?_, hi.curTx, hi.curOnly⟩
  · simp only [monitorSample, List.mem_map, if_true] at he
    obtain ⟨x, _, rfl⟩ := he
    exact ⟨hi.count _, hi.bytes _⟩
  · simp only [monitorSample, List.mem_map] at he
    obtain ⟨x, _, rfl⟩ := he
    cases hc : s.currentPacket with
    | none => simp [hi.count, hi.bytes]
    | some p =>
      by_cases hf : p.flow = x.1
      · simp [hf, hi.count, hi.bytes, one, bytesOf]
      · simp [hf, hi.count, hi.bytes, one, bytesOf]

/-! ### non-vacuity -/

/-- summary of a run: accepted ids, departed ids, tokens left, total -/
def summary {κ : Type} (r : Except String (MQState ℚ κ × List MPkt × List MPkt)) : Option (List Nat × List Nat × Nat × Int) :=
  match r with
  | .ok (s, ins, outs) => some (ins.map (·.id), outs.map (·.id), s.tokens, total s.queueCount)
  | .error _ => none

/-- a concrete admissible SP run: low- and high-priority packets arrive at 0, a second high-priority packet arrives
at the very instant the first transmission ends (before the departure: no token), the loop picks it up at `sendDone` -/
example : summary (runActs (SP.sched { rate := 8, prios := [(1, 1), (2, 5)] }) (start (SP.Pc.scan 0) 0 [])
    [.init, .put ⟨1, 1, 3⟩, .put ⟨2, 2, 2⟩, .tokenHandoff, .wake, .pktResume, .sendInit, .tick 2, .put ⟨3, 2, 1⟩,
     .sendFire, .sendDone, .pktResume, .sendInit, .tick 3, .sendFire, .sendDone, .pktResume, .sendInit, .tick 6,
     .sendFire, .sendDone, .tick 7]) = some ([1, 2, 3], [2, 3, 1], 0, 0) := by
  decide +kernel

/-- a concrete admissible DRR run with two flows mapped onto one class and a packet larger than the quantum
(parked as head of line, then taken in the next round) -/
example : summary (runActs (DRR.sched { rate := 8000, weights := [(7, 1), (8, 1)], flowMap := some [(1, 7), (2, 7), (3, 8)] })
    (start (DRR.ctl0 { rate := 8000, weights := [(7, 1), (8, 1)], flowMap := some [(1, 7), (2, 7), (3, 8)] }) 0
      (DRR.counts0 ({ rate := 8000, weights := [(7, 1), (8, 1)], flowMap := some [(1, 7), (2, 7), (3, 8)] } : DRR.Cfg ℚ)))
    [.init, .put ⟨1, 1, 2000⟩, .put ⟨2, 3, 1000⟩, .put ⟨3, 2, 500⟩, .tokenHandoff, .wake, .pktResume, .pktResume, .sendInit,
     .tick 1, .sendFire, .sendDone, .sendInit, .tick 3, .sendFire, .sendDone, .pktResume, .sendInit, .tick (7/2),
     .sendFire, .sendDone, .tick 10]) = some ([1, 2, 3], [2, 1, 3], 0, 0) := by
  decide +kernel

end C12

/-!
# C12, WFQ / VirtualClock half — work-conserving, non-preemptive, rate-exact, per-flow FIFO

Theorems about the StampServer LTS (`OnlVerif/Net/StampServer.lean`).  The generic ones hold for every scheduler
record `d : Sched ℚ σ` and every admissible action sequence from the initial state (`runActs … = .ok …`); the
per-flow order is instantiated for WFQ and VirtualClock (`OnlVerif/Net/Sched/*.lean`).  Time and rates are exact
rationals.
-/

namespace C12
section StampHalf
open Stamp

variable {σ : Type}

theorem msum_ind (f : Nat) (l : List SPkt) : msum (ind f) l = ((ofFlow f l).length : Int) := by
  induction l with
  | nil => simp
  | cons p l ih =>
    rw [msum_cons, ih, ofFlow_cons]
    by_cases h : p.flow = f
    · simp [ofFlow, ind, h]; ring
    · simp [ofFlow, ind, h]

theorem msum_szind (f : Nat) (l : List SPkt) :
    msum (szind f) l = (((ofFlow f l).map fun p => (p.size : Int))).sum := by
  induction l with
  | nil => simp
  | cons p l ih =>
    rw [msum_cons, ih, ofFlow_cons]
    by_cases h : p.flow = f
    · simp [ofFlow, szind, h]
    · simp [ofFlow, szind, h]

/-- **One packet at a time**: in every reachable state the loop is in exactly one phase (`Shape`), so at most one
packet is outside the store; `current_packet` is the packet in transmission; and a transmission can only start
while none is in progress. -/
theorem stamp_one_at_a_time (d : Sched ℚ σ) (sch0 : σ) (t0 : ℚ) (as : List (StAct ℚ)) (s : StState ℚ σ)
    (ins outs : List SPkt) (h : runActs d (init sch0 t0) as = .ok (s, ins, outs)) :
    Shape s ∧ (inHand s).length ≤ 1 ∧ s.currentPacket = s.tx.map Prod.fst ∧
    (∀ s' o, step d s .sendInit = .ok (s', o) → s.tx = none ∧ s.currentPacket = none ∧ s.fin = none) := by
  have hs := run_shape (init_shape sch0 t0) (runActs_run d as _ _ _ _ h)
  refine ⟨hs, ?_, hs.1, ?_⟩
  · rcases hs with ⟨_, h | h | h | h | h | h⟩
    · simp [inHand, h]
    · simp [inHand, h]
    · obtain ⟨it, hit⟩ := Option.isSome_iff_exists.mp h.2.2.1; simp [inHand, h, hit]
    · obtain ⟨p, hp⟩ := Option.isSome_iff_exists.mp h.2.2.2.1; simp [inHand, h, hp]
    · obtain ⟨x, hx⟩ := Option.isSome_iff_exists.mp h.2.2.2.2.1; simp [inHand, h, hx]
    · simp [inHand, h]
  · intro s' o hst
    have ht := step_trans d _ _ _ _ hst
    cases ht with
    | sendInit p h1 h2 h3 =>
      have hx := hs.of_spawned h1
      exact ⟨hx.2.2.2.1, by rw [hs.1, hx.2.2.2.1]; rfl, hx.2.2.2.2⟩

/-- **A transmission takes exactly `8·size/rate`**: it starts (`sendInit`) by scheduling its end at
`now + 8·size/rate`; the end (`sendFire`) is accepted at that instant only, forwards that very packet, and the clock
cannot pass it. -/
theorem stamp_service_time_exact (d : Sched ℚ σ) (s : StState ℚ σ) :
    (∀ s' o, step d s .sendInit = .ok (s', o) →
      ∃ p, s.spawned = some p ∧ s'.tx = some (p, s.now + 8 * (p.size : ℚ) / d.rate) ∧ s'.currentPacket = some p ∧
        o = .nothing) ∧
    (∀ p due, s.tx = some (p, due) →
      (∀ s' o, step d s .sendFire = .ok (s', o) → s.now = due ∧ o = .depart p ∧ s'.tx = none ∧ s'.currentPacket = none) ∧
      (∀ t s' o, step d s (.tick t) = .ok (s', o) → t ≤ due)) := by
  constructor
  · intro s' o hst
    have ht := step_trans d _ _ _ _ hst
    cases ht with
    | sendInit p h1 h2 h3 =>
      refine ⟨p, h1, ?_, rfl, rfl⟩
      show some (p, s.now + txTime d p) = _
      have : txTime d p = 8 * (p.size : ℚ) / d.rate := by
        show ((p.size * 8 : ℕ) : ℚ) / d.rate = _
        push_cast; ring
      rw [this]
  · intro p due htx
    constructor
    · intro s' o hst
      have ht := step_trans d _ _ _ _ hst
      cases ht with
      | sendFire p' due' h1 h2 =>
        rw [htx] at h1; cases h1
        exact ⟨h2, rfl, rfl, rfl⟩
    · intro t s' o hst
      have ht := step_trans d _ _ _ _ hst
      cases ht with
      | tick _ h1 => exact h1.2.2.2.2.2.2 p due htx

/-- **Never idle with a backlog**: in a reachable state in which the clock may advance while nothing is being
transmitted, the store is empty and the scheduler holds no packet at all (it is blocked in `get`).  Hence after a
transmission ends, or after an arrival to an idle scheduler, the next transmission starts in the same instant. -/
theorem stamp_never_idle_with_backlog (d : Sched ℚ σ) (sch0 : σ) (t0 : ℚ) (as : List (StAct ℚ)) (s : StState ℚ σ)
    (ins outs : List SPkt) (h : runActs d (init sch0 t0) as = .ok (s, ins, outs)) (t : ℚ) (s' : StState ℚ σ) (o : StOut)
    (htick : step d s (.tick t) = .ok (s', o)) (htx : s.tx = none) :
    s.items = [] ∧ held s = [] ∧ s.fin = none ∧ s.getPending = true := by
  have hs := run_shape (init_shape sch0 t0) (runActs_run d as _ _ _ _ h)
  have ht := step_trans d _ _ _ _ htick
  cases ht with
  | tick _ h1 => exact tick_idle_empty hs h1 htx

/-- **No abort, no preemption**: once a packet is in transmission until `due`, every accepted action other than
the end of that transmission leaves it in transmission with the same end; the end forwards exactly that packet. -/
theorem stamp_no_abort (d : Sched ℚ σ) (sch0 : σ) (t0 : ℚ) (as : List (StAct ℚ)) (s : StState ℚ σ)
    (ins outs : List SPkt) (h : runActs d (init sch0 t0) as = .ok (s, ins, outs)) (p : SPkt) (due : ℚ)
    (htx : s.tx = some (p, due)) (a : StAct ℚ) (s' : StState ℚ σ) (o : StOut) (hst : step d s a = .ok (s', o)) :
    (a = .sendFire ∧ o = .depart p ∧ s.now = due ∧ s'.tx = none) ∨
    (a ≠ .sendFire ∧ s'.tx = some (p, due) ∧ s'.currentPacket = some p ∧ left o = []) := by
  have hs := run_shape (init_shape sch0 t0) (runActs_run d as _ _ _ _ h)
  have hx := hs.of_tx htx
  have hc : s.currentPacket = some p := by rw [hs.1, htx]; rfl
  have ht := step_trans d _ _ _ _ hst
  cases ht with
  | initBlock h1 h2 => rw [hx.1] at h1; cases h1
  | initServe id it rest h1 h2 => rw [hx.1] at h1; cases h1
  | put q sch stamp h1 => exact Or.inr ⟨by simp, htx, hc, rfl⟩
  | handoff id it rest h1 h2 => rw [hx.2.1] at h1; cases h1
  | resume it h1 => rw [hx.2.2.1] at h1; cases h1
  | sendInit q h1 h2 h3 => rw [hx.2.2.2.1] at h1; cases h1
  | sendFire q due' h1 h2 =>
    rw [htx] at h1; cases h1
    exact Or.inl ⟨rfl, rfl, h2, rfl⟩
  | doneBlock q sch h1 h2 h3 => rw [hx.2.2.2.2] at h1; cases h1
  | doneServe q sch id it rest h1 h2 h3 => rw [hx.2.2.2.2] at h1; cases h1
  | tick t h1 => exact Or.inr ⟨by simp, htx, hc, rfl⟩
  | sample b => exact Or.inr ⟨by simp, htx, hc, rfl⟩

/-- **Every accepted packet is transmitted exactly once**: the accepted packets are a permutation of the departed
packets together with the packets still waiting or in transmission; and when the clock may advance with nothing in
transmission (in particular when the simulation has run out of events) nothing is held, so every accepted packet
has departed exactly once. -/
theorem stamp_every_packet_once (d : Sched ℚ σ) (sch0 : σ) (t0 : ℚ) (as : List (StAct ℚ)) (s : StState ℚ σ)
    (ins outs : List SPkt) (h : runActs d (init sch0 t0) as = .ok (s, ins, outs)) :
    ins.Perm (outs ++ held s) ∧
    (∀ t s' o, step d s (.tick t) = .ok (s', o) → s.tx = none → ins.Perm outs) := by
  have hr := runActs_run d as _ _ _ _ h
  have hp := (run_ginv (init_ginv sch0 t0) hr).2
  have h0 : held (init sch0 t0) = [] := by simp [held, inHand, waiting, init]
  rw [h0, List.nil_append] at hp
  refine ⟨hp, ?_⟩
  intro t s' o htick htx
  have := (stamp_never_idle_with_backlog d sch0 t0 as s ins outs h t s' o htick htx).2.1
  rw [this, List.append_nil] at hp
  exact hp

/-- **The per-flow counters** `queue_count[f]`, `queue_byte_size[f]` equal the number and the bytes of the
packets of flow `f` waiting or in transmission. -/
theorem stamp_counters_eq (d : Sched ℚ σ) (sch0 : σ) (t0 : ℚ) (as : List (StAct ℚ)) (s : StState ℚ σ)
    (ins outs : List SPkt) (h : runActs d (init sch0 t0) as = .ok (s, ins, outs)) (f : Nat) :
    getD s.queueCount f = ((ofFlow f (held s)).length : Int) ∧
    getD s.queueBytes f = ((ofFlow f (held s)).map fun p => (p.size : Int)).sum := by
  have hg := (run_ginv (init_ginv sch0 t0) (runActs_run d as _ _ _ _ h)).1
  exact ⟨by rw [hg.cnt f, msum_ind], by rw [hg.byt f, msum_szind]⟩

/-- **Monitor samples**: with `service_included` a sample of flow `f` is the number / bytes of its packets waiting
or in transmission; without, the packet in transmission (if it is of flow `f`) is subtracted. -/
theorem stamp_monitor_eq (d : Sched ℚ σ) (sch0 : σ) (t0 : ℚ) (as : List (StAct ℚ)) (s : StState ℚ σ)
    (ins outs : List SPkt) (h : runActs d (init sch0 t0) as = .ok (s, ins, outs)) (f : Nat) :
    sampleFlow s true f = (f, ((ofFlow f (held s)).length : Int), ((ofFlow f (held s)).map fun p => (p.size : Int)).sum) ∧
    sampleFlow s false f =
      (f, ((ofFlow f (held s)).length : Int) - (match s.tx with | some (p, _) => if p.flow = f then 1 else 0 | none => 0),
          ((ofFlow f (held s)).map fun p => (p.size : Int)).sum -
            (match s.tx with | some (p, _) => if p.flow = f then (p.size : Int) else 0 | none => 0)) ∧
    (∀ b, step d s (.sample b) = .ok (s, .samples (s.queueCount.map fun kv => sampleFlow s b kv.1))) := by
  have hs := run_shape (init_shape sch0 t0) (runActs_run d as _ _ _ _ h)
  obtain ⟨h1, h2⟩ := stamp_counters_eq d sch0 t0 as s ins outs h f
  have hc := hs.1
  refine ⟨?_, ?_, fun b => rfl⟩
  · unfold sampleFlow
    cases hcp : s.currentPacket <;> simp [h1, h2]
  · unfold sampleFlow
    cases htx : s.tx with
    | none =>
      rw [htx] at hc
      simp only [Option.map_none] at hc
      simp [hc, h1, h2]
    | some x =>
      obtain ⟨p, due⟩ := x
      rw [htx] at hc
      simp only [Option.map_some] at hc
      simp only [hc, Bool.not_false, Bool.true_and, decide_eq_true_eq]
      by_cases hf : p.flow = f
      · simp [hf, h1, h2]
      · simp [hf, h1, h2]

/-! ### per-flow FIFO -/

/-- **WFQ, per-flow FIFO**: with positive rate and weights and packets of positive size, the waiting packets of
one flow (indeed of one class) carry strictly increasing stamps, so serving a minimal key serves each flow in
arrival order: for every flow the accepted packets are, in order, the departed ones followed by those still held. -/
theorem stamp_flow_fifo_wfq (c : WfqCfg ℚ) (hp : WFQ.Pos c) (t0 : ℚ) (as : List (StAct ℚ)) (s : WFQ.WState)
    (ins outs : List SPkt) (h : runActs (WFQ.sched c) (WFQ.start t0) as = .ok (s, ins, outs))
    (hsz : ∀ p ∈ ins, 0 < p.size) (f : Nat) :
    FlowSorted s.items ∧ ofFlow f ins = ofFlow f outs ++ ofFlow f (held s) := by
  have hr := runActs_run _ as _ _ _ _ h
  -- the sizes of the packets accepted on a prefix of the run are positive as well
  have key : ∀ (s1 : WFQ.WState) i1 o1, Run (WFQ.sched c) (WFQ.start t0) s1 i1 o1 → (∀ p ∈ i1, 0 < p.size) →
      FlowSorted s1.items := fun s1 i1 o1 hr1 hs1 => (WFQ.run_word c hp hr1 hs1).srt.flowSorted
  refine ⟨key _ _ _ hr hsz, ?_⟩
  have hgen : ∀ (s2 : WFQ.WState) i2 o2, Run (WFQ.sched c) (WFQ.start t0) s2 i2 o2 → (∀ p ∈ i2, 0 < p.size) →
      ofFlow f (held (WFQ.start t0)) ++ ofFlow f i2 = ofFlow f o2 ++ ofFlow f (held s2) := by
    intro s2 i2 o2 hr2
    induction hr2 with
    | nil => intro _; simp
    | @snoc s3 s4 i3 o3 a o hr3 ht ih =>
      intro hs4
      have hs3 : ∀ p ∈ i3, 0 < p.size := fun p hp' => hs4 p (List.mem_append_left _ hp')
      have h1 := step_fifo (run_shape (init_shape _ _) hr3) (key _ _ _ hr3 hs3) ht f
      have ih' := ih hs3
      simp only [ofFlow_append]
      rw [← List.append_assoc, ih', List.append_assoc, h1, List.append_assoc]
  have := hgen _ _ _ hr hsz
  simpa [held, inHand, waiting, WFQ.start, init] using this

/-- **VirtualClock, per-flow FIFO** (positive vticks). -/
theorem stamp_flow_fifo_vc (c : VcCfg ℚ) (hp : VC.Pos c) (t0 : ℚ) (as : List (StAct ℚ)) (s : VC.VState)
    (ins outs : List SPkt) (h : runActs (VC.sched c) (VC.start c t0) as = .ok (s, ins, outs)) (f : Nat) :
    FlowSorted s.items ∧ ofFlow f ins = ofFlow f outs ++ ofFlow f (held s) := by
  have hr := runActs_run _ as _ _ _ _ h
  have key : ∀ (s1 : VC.VState) i1 o1, Run (VC.sched c) (VC.start c t0) s1 i1 o1 → FlowSorted s1.items :=
    fun s1 i1 o1 hr1 => (VC.run_vinv c hp hr1).2.srt.flowSorted
  refine ⟨key _ _ _ hr, ?_⟩
  have := run_fifo (init_shape _ _) key hr f
  simpa [held, inHand, waiting, VC.start, init] using this

/-! ### non-vacuity -/

/-- rate 8 bit/s; flows 0 and 2 share class 0 (weight 1), flow 1 is class 1 (weight 2) -/
def wcfg : WfqCfg ℚ := { rate := 8, weights := [(0, 1), (1, 2)], flow2class := [(0, 0), (1, 1), (2, 0)] }

/-- accepted ids, departed ids, may the clock advance?, nothing in transmission?, counters of flow 0 -/
def digest {σ : Type} (r : Except SErr (StState ℚ σ × List SPkt × List SPkt)) :
    Option (List Nat × List Nat × Bool × Bool × Int × Int) :=
  match r with
  | .ok (s, ins, outs) =>
    some (ins.map (·.id), outs.map (·.id), (tickOk s (s.now + 1)).isNone, s.tx.isNone, getD s.queueCount 0, getD s.queueBytes 0)
  | .error _ => none

/-- a complete WFQ run: two packets of flow 0 and one of flow 1 arrive at t = 0; they leave as 1, 2, 3 (stamps 1, 1,
2; packets 1 and 2 tie), back to back at t = 1, 3, 4; at the end the clock may advance with nothing in transmission
(the hypothesis of the drain clause) and the counters are back to 0 -/
example : digest (runActs (WFQ.sched wcfg) (WFQ.start 0)
    [.init none, .put ⟨1, 0, 1⟩, .put ⟨2, 1, 2⟩, .put ⟨3, 0, 1⟩, .handoff 1, .resume, .sendInit, .tick 1, .sendFire,
      .sendDone (some 2), .resume, .sendInit, .tick 3, .sendFire, .sendDone (some 3), .resume, .sendInit, .tick 4,
      .sendFire, .sendDone none]) = some ([1, 2, 3], [1, 2, 3], true, true, 0, 0) := by
  decide +kernel

/-- in the middle of that run (packet 2 in transmission, packet 3 waiting) the clock may advance, something *is* in
transmission, and flow 0 counts one packet of one byte -/
example : digest (runActs (WFQ.sched wcfg) (WFQ.start 0)
    [.init none, .put ⟨1, 0, 1⟩, .put ⟨2, 1, 2⟩, .put ⟨3, 0, 1⟩, .handoff 1, .resume, .sendInit, .tick 1, .sendFire,
      .sendDone (some 2), .resume, .sendInit]) = some ([1, 2, 3], [1], true, false, 1, 1) := by
  decide +kernel

/-- after a transmission ends with a packet waiting the clock may *not* advance before the next one has started -/
example : digest (runActs (WFQ.sched wcfg) (WFQ.start 0)
    [.init none, .put ⟨1, 0, 1⟩, .put ⟨2, 1, 2⟩, .handoff 1, .resume, .sendInit, .tick 1, .sendFire,
      .sendDone (some 2)]) = some ([1, 2], [1], false, true, 0, 0) := by
  decide +kernel

/-- a Monitor round during the transmission of packet 1 (flow 0): with the packet in service included flow 0 shows
2 packets / 2 bytes, without it 1 packet / 1 byte -/
example : (match runActs (WFQ.sched wcfg) (WFQ.start 0)
    [.init none, .put ⟨1, 0, 1⟩, .put ⟨2, 1, 2⟩, .put ⟨3, 0, 1⟩, .handoff 1, .resume, .sendInit] with
    | .ok (s, _, _) => (sampleAll s true, sampleAll s false)
    | .error _ => ([], [])) = ([(0, 2, 2), (1, 1, 2)], [(0, 1, 1), (1, 1, 2)]) := by
  decide +kernel

example : WFQ.Pos wcfg := by
  refine ⟨by decide +kernel, ?_⟩
  intro k w h
  simp only [wcfg, lookup] at h
  split at h
  · cases h; norm_num
  · split at h
    · cases h; norm_num
    · cases h

end StampHalf

/-! ### The source, re-translated on every run, *is* the transmission time of both LTSs (bridge theorems)

`Generated/SchedTx.lean` is rewritten by `py2lean` from the current `onl/scheduler/base.py` before this file is compiled: the
argument of the one `yield self.env.timeout(…)` of `Scheduler.send_packet`, which all six schedulers use.  "transmits one packet
at a time for exactly 8*size/rate" is a clause of C12 (the stamp rules of WFQ / VirtualClock are C14's).  Over exact rationals. -/

/-- **The transmission time in `Scheduler.send_packet` as written in the source is the model's `txTime`** = `8·size/rate`
(stamp family: WFQ, VirtualClock). -/
theorem send_delay_generated_eq_model {σ : Type} (d : Sched ℚ σ) (p : SPkt) :
    Gen.Scheduler.send_delay { rate := d.rate } p.size = Stamp.txTime d p :=
  GenSchedTx.send_delay_eq d p

/-- **The same for the multi-queue family** (SP, RR, WRR, DRR): the translated delay is `MQ.txTime` = `8·size/rate`. -/
theorem mq_send_delay_generated_eq_model {κ : Type} (sc : MQ.Sched ℚ κ) (p : MPkt) :
    Gen.Scheduler.send_delay { rate := sc.rate } p.size = MQ.txTime sc p :=
  GenSchedTx.mq_send_delay_eq sc p

/-- 1500 bytes at 12000 bit/s take one second -/
example : Gen.Scheduler.send_delay (α := ℚ) { rate := 12000 } 1500 = 1 := by
  unfold Gen.Scheduler.send_delay
  norm_num [Num.ofInt_rat, Num.ofNat_rat']

end C12
