import OnlVerif.Lemmas.MultiQueueRun
/-!
# C12 (multi-queue half) — SP, RR, WRR and DRR are work-conserving, non-preemptive, rate-exact and per-flow FIFO

Model: `OnlVerif/Net/MultiQueue.lean` (the MultiQueueServer LTS over the scheduler's atomic bursts) instantiated
with `OnlVerif/Net/Sched/{SP,RR,WRR,DRR}.lean`.  "For all workloads" = for every action sequence the LTS accepts
from the initial state (`runLog … = .ok …` / `runActs … = .ok …`); time and rates are exact rationals.  Each of the
theorems is stated for an arbitrary scheduler record `sc` that is `MQ.Lawful` (blocks on the wake-up token only
when `total_packets == 0`; never issues `store.get()` on a class with a parked head-of-line packet);
`mq_instances_lawful` shows that the four schedulers are.  The correspondence check replays the real
schedulers through this LTS bit for bit.
-/

namespace C12
open MQ
variable {κ : Type}

/-- **SP, RR, WRR and DRR are instances**: each `run()` blocks on the token store only behind
`if self.total_packets == 0`, and only DRR parks packets, never fetching from a class whose head is parked. -/
theorem mq_instances_lawful (a : SP.Cfg ℚ) (b : RR.Cfg ℚ) (c : WRR.Cfg ℚ) (d : DRR.Cfg ℚ) :
    Lawful (SP.sched a) ∧ Lawful (RR.sched b) ∧ Lawful (WRR.sched c) ∧ Lawful (DRR.sched d) :=
  ⟨SP.lawful a, RR.lawful b, WRR.lawful c, DRR.lawful d⟩

/-- **One packet at a time**: along every admissible run the starts of transmission and the departures alternate
strictly — start p₁, departure p₁, start p₂, departure p₂, … — so transmissions never overlap and the packet that
leaves is the one that was started. -/
theorem mq_one_at_a_time (sc : Sched ℚ κ) (k0 : κ) (t0 : ℚ) (counts : List (Nat × Int)) (as : List (MAct ℚ))
    (l : List (Entry κ)) (h : runLog sc (start k0 t0 counts) as = .ok l) :
    Alternates none (txEvents (l.map (·.out))) := by
  have := runLog_alternates sc as _ l h
  simpa [txOpen, start, MQ.init] using this

/-- **A transmission lasts exactly `8·size/rate`**: the sender started at `now` sleeps until exactly
`now + 8·size/rate`; the packet leaves only at that instant, and the clock cannot pass it. -/
theorem mq_service_time_exact (sc : Sched ℚ κ) (s : MQState ℚ κ) (p : MPkt) :
    (s.phase = .spawned p → ∀ s' o, step sc s .sendInit = .ok (s', o) →
        o = .started p (s.now + (p.size * 8 : ℕ) / sc.rate) ∧ s'.phase = .sending p (s.now + (p.size * 8 : ℕ) / sc.rate)) ∧
    (∀ due, s.phase = .sending p due →
        (∀ s' o, step sc s .sendFire = .ok (s', o) → s.now = due ∧ o = .depart p) ∧
        (∀ t s' o, step sc s (.tick t) = .ok (s', o) → t ≤ due)) := by
  refine ⟨fun hp s' o h => ?_, fun due hp => ⟨fun s' o h => ?_, fun t s' o h => ?_⟩⟩
  · have ht := step_trans sc s s' _ o h
    cases ht with
    | sendInit q hq =>
      rw [hp] at hq; cases hq
      exact ⟨rfl, rfl⟩
  · have ht := step_trans sc s s' _ o h
    cases ht with
    | sendFire q d hq hnow =>
      rw [hp] at hq; cases hq
      exact ⟨hnow, rfl⟩
  · have ht := step_trans sc s s' _ o h
    cases ht with
    | tickIdle _ h1 h2 h3 => rw [hp] at h2; cases h2
    | tickBusy _ q d h1 h2 h3 => rw [hp] at h2; cases h2; exact h3

/-- **No lost wake-up**: in every reachable state in which the loop is blocked on the wake-up store while packets are
held, a token is in the store — its hand-off is pending and the clock cannot advance. -/
theorem mq_no_lost_wakeup (sc : Sched ℚ κ) (L : Lawful sc) (k0 : κ) (t0 : ℚ) (counts : List (Nat × Int))
    (s : MQState ℚ κ) (ins outs : List MPkt) (h : Reached sc k0 t0 counts s ins outs)
    (hw : s.phase = .waitToken) (hb : 0 < W (fun _ => 1) s) :
    0 < s.tokens ∧ ∀ t s' o, step sc s (.tick t) ≠ .ok (s', o) := by
  have hi := (reached_inv sc L k0 t0 counts s ins outs h).1
  have htok : 0 < s.tokens := by
    by_contra hc
    have := hi.wake hw (by omega)
    rw [hi.tot] at this; omega
  refine ⟨htok, fun t s' o hs => ?_⟩
  have := (tick_ok_iff sc s t).mp ⟨s', o, hs⟩
  rcases this.2 with ⟨_, h0⟩ | ⟨p, d, hp, _⟩
  · omega
  · rw [hw] at hp; cases hp

/-- **Never idle with a backlog** (work conservation): whenever the clock may advance and no transmission is in
progress, nothing is held — `total_packets` is 0, every per-class store is empty, no packet is parked or in hand. -/
theorem mq_never_idle_with_backlog (sc : Sched ℚ κ) (L : Lawful sc) (k0 : κ) (t0 : ℚ) (counts : List (Nat × Int))
    (s : MQState ℚ κ) (ins outs : List MPkt) (h : Reached sc k0 t0 counts s ins outs) (t : ℚ)
    (htick : ∃ s' o, step sc s (.tick t) = .ok (s', o)) (hidle : ∀ p d, s.phase ≠ .sending p d) :
    total s.queueCount = 0 ∧ inHand s = [] ∧ (∀ c, storeOf s.stores c = []) ∧ (∀ c, lookupD s.hol c none = none) := by
  have hi := (reached_inv sc L k0 t0 counts s ins outs h).1
  rcases ((tick_ok_iff sc s t).mp htick).2 with ⟨hw, h0⟩ | ⟨p, d, hp, _⟩
  · have ht := hi.wake hw h0
    exact ⟨ht, nothing_held_of_total_zero s (by rw [← hi.tot]; exact ht)⟩
  · exact absurd hp (hidle p d)

/-- **Non-preemptive, no abort**: once a transmission of `p` is in progress, every accepted action other than the
end of that transmission (arrivals, clock ticks, monitor samples) leaves it in progress with the same end instant;
it ends only by `sendFire`, at its due instant, with the departure of `p`. -/
theorem mq_no_abort (sc : Sched ℚ κ) (s s' : MQState ℚ κ) (a : MAct ℚ) (o : MOut ℚ) (p : MPkt) (due : ℚ)
    (hp : s.phase = .sending p due) (h : step sc s a = .ok (s', o)) :
    (a = .sendFire ∧ o = .depart p ∧ s.now = due ∧ s'.phase = .finished p) ∨
    (s'.phase = .sending p due ∧ (∀ q, o ≠ .depart q) ∧ (∀ q d, o ≠ .started q d)) := by
  have ht := step_trans sc s s' a o h
  cases ht with
  | init _ h1 _ => rw [hp] at h1; cases h1
  | put q c k hc hk =>
    right
    have : (postToken { s with ctl := k }).phase = s.phase := by unfold postToken; split <;> rfl
    exact ⟨by show (postToken { s with ctl := k }).phase = _; rw [this, hp], fun _ hx => (by cases hx), fun _ _ hx => (by cases hx)⟩
  | tokenHandoff n h1 _ => rw [hp] at h1; cases h1
  | wake _ h1 _ => rw [hp] at h1; cases h1
  | resumeSend c q e k h1 _ => rw [hp] at h1; cases h1
  | resumePark c q k s2 _ h1 _ _ _ => rw [hp] at h1; cases h1
  | sendInit q h1 => rw [hp] at h1; cases h1
  | sendFire q d h1 hnow => rw [hp] at h1; cases h1; exact Or.inl ⟨rfl, rfl, hnow, rfl⟩
  | sendDone q k _ h1 _ _ => rw [hp] at h1; cases h1
  | tickIdle t _ h1 _ => rw [hp] at h1; cases h1
  | tickBusy t q d _ h1 _ => exact Or.inr ⟨hp, fun _ hx => (by cases hx), fun _ _ hx => (by cases hx)⟩
  | sample inc => exact Or.inr ⟨hp, fun _ hx => (by cases hx), fun _ _ hx => (by cases hx)⟩

/-- **Per-class FIFO and conservation**: after any admissible run the packets accepted for class `c` are, in order,
exactly the packets of `c` that have left followed by those still held (in hand, parked, stored). -/
theorem mq_class_fifo (sc : Sched ℚ κ) (L : Lawful sc) (k0 : κ) (t0 : ℚ) (counts : List (Nat × Int))
    (s : MQState ℚ κ) (ins outs : List MPkt) (h : Reached sc k0 t0 counts s ins outs) (c : Nat) :
    ofClass sc c ins = ofClass sc c outs ++ heldC sc s c :=
  (reached_inv sc L k0 t0 counts s ins outs h).2 c

/-- **Per-flow FIFO** (also when several flows share a class): the packets accepted from flow `f` are, in arrival
order, exactly the packets of `f` that have left followed by the packets of `f` still held. -/
theorem mq_flow_fifo (sc : Sched ℚ κ) (L : Lawful sc) (k0 : κ) (t0 : ℚ) (counts : List (Nat × Int))
    (s : MQState ℚ κ) (ins outs : List MPkt) (h : Reached sc k0 t0 counts s ins outs) (f c : Nat)
    (hc : sc.classOf f = some c) :
    ofFlow f ins = ofFlow f outs ++ ofFlow f (heldC sc s c) := by
  have := mq_class_fifo sc L k0 t0 counts s ins outs h c
  rw [← ofFlow_ofClass sc f c hc ins, this, ofFlow_append, ofFlow_ofClass sc f c hc outs]

/-- **Every accepted packet is transmitted exactly once** (drain): when the clock may advance and no transmission
is in progress, the packets that have left each class are exactly the packets accepted for it, in order, and every
packet of a configured flow occurs among the departures exactly as often as among the arrivals. -/
theorem mq_every_packet_once (sc : Sched ℚ κ) (L : Lawful sc) (k0 : κ) (t0 : ℚ) (counts : List (Nat × Int))
    (s : MQState ℚ κ) (ins outs : List MPkt) (h : Reached sc k0 t0 counts s ins outs) (t : ℚ)
    (htick : ∃ s' o, step sc s (.tick t) = .ok (s', o)) (hidle : ∀ p d, s.phase ≠ .sending p d) :
    (∀ c, ofClass sc c outs = ofClass sc c ins) ∧
    (∀ p c, sc.classOf p.flow = some c → outs.count p = ins.count p) := by
  have hn := mq_never_idle_with_backlog sc L k0 t0 counts s ins outs h t htick hidle
  have hc : ∀ c, ofClass sc c outs = ofClass sc c ins := by
    intro c
    have := mq_class_fifo sc L k0 t0 counts s ins outs h c
    rw [heldC_nil_of_nothing sc s hn.2.1 hn.2.2.1 hn.2.2.2 c] at this
    simpa using this.symm
  refine ⟨hc, fun p c hpc => ?_⟩
  have h1 : ∀ l : List MPkt, (ofClass sc c l).count p = l.count p := by
    intro l
    simp only [ofClass, List.count_filter, hpc, decide_true]
  rw [← h1 outs, ← h1 ins, hc c]

/-- **The per-flow counters are exact**: in every reachable state `queue_count[f]` and `queue_byte_size[f]` equal the
number and the bytes of the packets of flow `f` that are waiting (stored or parked) or being handed over / in
transmission, and `total_packets` is the number of all packets held. -/
theorem mq_counters_eq (sc : Sched ℚ κ) (L : Lawful sc) (k0 : κ) (t0 : ℚ) (counts : List (Nat × Int))
    (s : MQState ℚ κ) (ins outs : List MPkt) (h : Reached sc k0 t0 counts s ins outs) (f : Nat) :
    cnt s.queueCount f = W (one f) s ∧ cnt s.queueBytes f = W (bytesOf f) s ∧ total s.queueCount = W (fun _ => 1) s := by
  have hi := (reached_inv sc L k0 t0 counts s ins outs h).1
  exact ⟨hi.count f, hi.bytes f, hi.tot⟩

/-- **Monitor samples**: a round with `service_included` reports for every flow the packets/bytes held; without, the
same minus the packet in service when it is of that flow — and the packet in service (`current_packet`) is the
packet of the sender process: set whenever a transmission is in progress, never set otherwise. -/
theorem mq_monitor_eq (sc : Sched ℚ κ) (L : Lawful sc) (k0 : κ) (t0 : ℚ) (counts : List (Nat × Int))
    (s : MQState ℚ κ) (ins outs : List MPkt) (h : Reached sc k0 t0 counts s ins outs) :
    (∀ e ∈ monitorSample s true, e.2.1 = W (one e.1) s ∧ e.2.2 = W (bytesOf e.1) s) ∧
    (∀ e ∈ monitorSample s false, e.2.1 = W (one e.1) s - wOpt (one e.1) s.currentPacket ∧
                                   e.2.2 = W (bytesOf e.1) s - wOpt (bytesOf e.1) s.currentPacket) ∧
    (∀ p d, s.phase = .sending p d → s.currentPacket = some p) ∧
    (∀ p, s.currentPacket = some p → s.phase = .spawned p ∨ ∃ d, s.phase = .sending p d) := by
  have hi := (reached_inv sc L k0 t0 counts s ins outs h).1
  refine ⟨fun e he => ?_, fun e he => ?_, hi.curTx, hi.curOnly⟩
  · simp only [monitorSample, List.mem_map, if_true] at he
    obtain ⟨x, _, rfl⟩ := he
    exact ⟨hi.count _, hi.bytes _⟩
  · simp only [monitorSample, List.mem_map] at he
    obtain ⟨x, _, rfl⟩ := he
    cases hc : s.currentPacket with
    | none => simp [hi.count, hi.bytes]
    | some p =>
      by_cases hf : p.flow = x.1
      · simp [hf, hi.count, hi.bytes, one, bytesOf]
      · simp [hf, hi.count, hi.bytes, one, bytesOf]

/-! ### non-vacuity -/

/-- summary of a run: accepted ids, departed ids, tokens left, total -/
def summary {κ : Type} (r : Except String (MQState ℚ κ × List MPkt × List MPkt)) : Option (List Nat × List Nat × Nat × Int) :=
  match r with
  | .ok (s, ins, outs) => some (ins.map (·.id), outs.map (·.id), s.tokens, total s.queueCount)
  | .error _ => none

/-- a concrete admissible SP run: low- and high-priority packets arrive at 0, a second high-priority packet arrives
at the very instant the first transmission ends (before the departure: no token), the loop picks it up at `sendDone` -/
example : summary (runActs (SP.sched { rate := 8, prios := [(1, 1), (2, 5)] }) (start (SP.Pc.scan 0) 0 [])
    [.init, .put ⟨1, 1, 3⟩, .put ⟨2, 2, 2⟩, .tokenHandoff, .wake, .pktResume, .sendInit, .tick 2, .put ⟨3, 2, 1⟩,
     .sendFire, .sendDone, .pktResume, .sendInit, .tick 3, .sendFire, .sendDone, .pktResume, .sendInit, .tick 6,
     .sendFire, .sendDone, .tick 7]) = some ([1, 2, 3], [2, 3, 1], 0, 0) := by
  decide +kernel

/-- a concrete admissible DRR run with two flows mapped onto one class and a packet larger than the quantum
(parked as head of line, then taken in the next round) -/
example : summary (runActs (DRR.sched { rate := 8000, weights := [(7, 1), (8, 1)], flowMap := some [(1, 7), (2, 7), (3, 8)] })
    (start (DRR.ctl0 { rate := 8000, weights := [(7, 1), (8, 1)], flowMap := some [(1, 7), (2, 7), (3, 8)] }) 0
      (DRR.counts0 ({ rate := 8000, weights := [(7, 1), (8, 1)], flowMap := some [(1, 7), (2, 7), (3, 8)] } : DRR.Cfg ℚ)))
    [.init, .put ⟨1, 1, 2000⟩, .put ⟨2, 3, 1000⟩, .put ⟨3, 2, 500⟩, .tokenHandoff, .wake, .pktResume, .pktResume, .sendInit,
     .tick 1, .sendFire, .sendDone, .sendInit, .tick 3, .sendFire, .sendDone, .pktResume, .sendInit, .tick (7/2),
     .sendFire, .sendDone, .tick 10]) = some ([1, 2, 3], [2, 1, 3], 0, 0) := by
  decide +kernel

end C12
