import OnlVerif.Lemmas.TcpSender
/-!
# C17 — TCP sends only inside its window and adapts it by the Reno/CUBIC rules

The window rules are theorems about the definitions **generated from the current source** by
`py2lean/translate.py` (`OnlVerif/Generated/TcpCC.lean`: `CongestionControl.*`, `TCPReno.ack_received`,
`TCPCubic.*`, the estimator block of `TCPPacketGenerator.put`, its early return on an overtaken ACK, the RTO back-off of
`timeout_callback`, the send guard of `run`), compared with the hand-written specification functions of `OnlVerif/Lemmas/TcpSpec.lean`, which state the
textbook rules independently.  An edit of the source such as `<=`→`<`, `/ 2`→`/ 4`, `3 *`→`2 *`, `0.125`→`0.25`
changes a generated definition and these proofs stop compiling.  The sender-level statements are about the
hand-written LTS `Sender.step` (`OnlVerif/Tcp/CC.lean`), which calls the generated functions and is tied to the
implementation by the bit-exact replay of `harness/c17.py`.

All arithmetic is exact rational arithmetic (`ℚ`); floating-point rounding is modelled (bit-compared), not verified.
`Inv` is the invariant of `OnlVerif/Lemmas/TcpSender.lean`: `cwnd ≥ cc.mss > 0`, `ssthresh ≥ 0`, `rto > 0`,
`rtt_estimate > 0`, `est_deviation ≥ 0`, `timers` and `sent_packets` have the same distinct keys,
`next_seq ≤ send_buffer`, and for CUBIC `W_last_max = 0`, `beta ≠ 2`.  It holds for a fresh generator around
`TCPReno(mss, cwnd, ssthresh)` with `cwnd ≥ mss > 0`, `ssthresh ≥ 0` and around `TCPCubic()` (examples at the end) and
is kept by every action (`cwnd_ge_mss`).
-/

namespace C17
open TcpScalar TcpSpec TcpCC TcpSender

/-! ### new ACK (Reno) -/

/-- **A new ACK adds one MSS in slow start (`cwnd ≤ ssthresh`) and `MSS·MSS/cwnd` in congestion avoidance**, and
touches nothing else; it cannot divide by zero while `cwnd > 0`.  (About the generated `TCPReno.ack_received`.) -/
theorem reno_new_ack (c : CCState ℚ) (rtt now : ℚ) :
    TCPReno.ack_received c rtt now = { c with cwnd := renoGrow c.mss c.cwnd c.ssthresh } ∧
    (0 < c.cwnd → TCPReno.ack_received.safe c rtt now = true) := by
  constructor
  · unfold TCPReno.ack_received renoGrow
    split_ifs <;> rfl
  · intro h; exact reno_ack_safe c rtt now (Or.inr (ne_of_gt h))

/-- the same at the sender: a new ACK (`ackno > last_ack`; an ACK *below* the acknowledged mark was overtaken on the way back
and is ignored, `stale_ack_ignored`) outside fast recovery (`dupack < 3`: none, one or two duplicates counted, so
nothing is deflated) on a Reno sender grows the *current* window by the Reno rule and clears the duplicate count -/
theorem reno_new_ack_at_sender (s : Sender ℚ) (a : AckIn ℚ) (h : Inv s) (hk : s.kind = .reno) (hok : AckOk s a)
    (hnew : s.last_ack < a.ackno) (h0 : s.dupack < 3) :
    ∃ s', s.step (.ack a) = .ok s' [] ∧ s'.cc.cwnd = renoGrow s.cc.mss s.cc.cwnd s.cc.ssthresh ∧
      s'.cc.ssthresh = s.cc.ssthresh ∧ s'.last_ack = a.ackno ∧ s'.dupack = 0 := by
  obtain ⟨T, S, r, _⟩ := ackStep_new_spec s a h.cc h.keys h.nodup hok hnew
  have hcc : ccBeforeNew s = s.cc := by unfold ccBeforeNew; rw [if_neg (by omega)]
  refine ⟨_, r, ?_, ?_, rfl, rfl⟩
  · show (CC.ackReceived s.kind (ccBeforeNew s) (TCPPacketGenerator.put_sample_rtt s.now a.ptime) s.now).cwnd = _
    rw [hk, hcc]; show (TCPReno.ack_received s.cc (TCPPacketGenerator.put_sample_rtt s.now a.ptime) s.now).cwnd = _
    rw [(reno_new_ack s.cc _ s.now).1]
  · show (CC.ackReceived s.kind (ccBeforeNew s) (TCPPacketGenerator.put_sample_rtt s.now a.ptime) s.now).ssthresh = _
    rw [hk, hcc]; show (TCPReno.ack_received s.cc (TCPPacketGenerator.put_sample_rtt s.now a.ptime) s.now).ssthresh = _
    rw [(reno_new_ack s.cc _ s.now).1]

/-! ### duplicate ACKs -/

/-- **The third duplicate ACK sets `ssthresh = max(2·MSS, cwnd/2)` and `cwnd = ssthresh + 3·MSS`** (generated
`consecutive_dupacks_received`), **and retransmits the missing segment**: the sender's `put` reaches `dupack = 3`,
applies that rule, hands the segment numbered `ackno` to `out` again (if it is outstanding) and leaves the RTT
estimator alone. -/
theorem third_dupack (s : Sender ℚ) (a : AckIn ℚ) (hok : AckOk s a) (hd : a.ackno = s.last_ack) (h2 : s.dupack = 2) :
    (CongestionControl.consecutive_dupacks_received s.cc =
      { s.cc with ssthresh := lossSsthresh s.cc.mss s.cc.cwnd, cwnd := fastRetransmitCwnd s.cc.mss s.cc.cwnd }) ∧
    ∃ s' outs, s.step (.ack a) = .ok s' outs ∧ s'.dupack = 3 ∧
      s'.cc = CongestionControl.consecutive_dupacks_received s.cc ∧ s'.est = s.est ∧ s'.last_ack = s.last_ack ∧
      outs = (if a.ackno ∈ AL.keys s.sent then [{ seq := a.ackno, size := s.mss, stamp := s.now, kind := .resend }] else []) := by
  constructor
  · unfold CongestionControl.consecutive_dupacks_received lossSsthresh fastRetransmitCwnd lossSsthresh
    simp only [ofNat_eq, Nat.cast_ofNat, pymax_eq]
  · refine ⟨_, _, ackStep_third s a hok hd h2, ?_⟩
    unfold Sender.thirdDup
    obtain ⟨S, hS, _⟩ := resend_frame
      ({ s with dupack := 3, cc := CongestionControl.consecutive_dupacks_received s.cc } : Sender ℚ) a.ackno
    rw [resend_out, hS]
    exact ⟨rfl, rfl, rfl, rfl, rfl⟩

/-- **Every further duplicate ACK adds one MSS** (generated `more_dupacks_received`) and leaves `ssthresh` and the RTT
estimator alone. -/
theorem more_dupacks (s : Sender ℚ) (a : AckIn ℚ) (hok : AckOk s a) (hd : a.ackno = s.last_ack) (h3 : 3 ≤ s.dupack) :
    (CongestionControl.more_dupacks_received s.cc = { s.cc with cwnd := s.cc.cwnd + s.cc.mss }) ∧
    ∃ s' outs, s.step (.ack a) = .ok s' outs ∧ s'.dupack = s.dupack + 1 ∧
      s'.cc.cwnd = s.cc.cwnd + s.cc.mss ∧ s'.cc.ssthresh = s.cc.ssthresh ∧ s'.est = s.est ∧ s'.last_ack = s.last_ack := by
  refine ⟨rfl, _, _, ackStep_more s a hok hd h3, ?_⟩
  unfold Sender.moreDup
  simp only
  obtain ⟨S, hS, _⟩ := resend_frame
    ({ s with dupack := s.dupack + 1, cc := CongestionControl.more_dupacks_received s.cc } : Sender ℚ) a.ackno
  split_ifs
  · rw [hS]; exact ⟨rfl, rfl, rfl, rfl, rfl⟩
  · exact ⟨rfl, rfl, rfl, rfl, rfl⟩

/-- **After the third duplicate ACK (fast recovery, `dupack ≥ 3`) the next new ACK first deflates `cwnd` to `ssthresh`
(generated `dupack_over`) and is then counted like any new ACK**: the resulting window is `ack_received` applied to
the deflated state — for Reno and for CUBIC that is `ssthresh + MSS`, because the deflated window satisfies
`cwnd ≤ ssthresh` — and `dupack` returns to 0. -/
theorem new_ack_after_dupacks (s : Sender ℚ) (a : AckIn ℚ) (h : Inv s) (hok : AckOk s a) (hnew : s.last_ack < a.ackno)
    (hdup : 3 ≤ s.dupack) :
    (CongestionControl.dupack_over s.cc = { s.cc with cwnd := s.cc.ssthresh }) ∧
    ∃ s', s.step (.ack a) = .ok s' [] ∧ s'.dupack = 0 ∧ s'.last_ack = a.ackno ∧
      s'.cc = CC.ackReceived s.kind (CongestionControl.dupack_over s.cc)
                (TCPPacketGenerator.put_sample_rtt s.now a.ptime) s.now ∧
      s'.cc.cwnd = s.cc.ssthresh + s.cc.mss ∧ s'.cc.ssthresh = s.cc.ssthresh := by
  refine ⟨rfl, ?_⟩
  obtain ⟨T, S, r, _⟩ := ackStep_new_spec s a h.cc h.keys h.nodup hok hnew
  have hcc : ccBeforeNew s = CongestionControl.dupack_over s.cc := by unfold ccBeforeNew; rw [if_pos hdup]
  rw [hcc] at r
  exact ⟨_, r, rfl, rfl, rfl, (ack_after_deflate s.kind s.cc _ s.now).1, (ack_after_deflate s.kind s.cc _ s.now).2⟩

/-- **A new ACK after only one or two duplicate ACKs is a plain new ACK: nothing is deflated.**  The window is
`ack_received` applied to the *unchanged* state — exactly what the same ACK does with `dupack = 0` — so for both
classes slow start (`cwnd ≤ ssthresh`) adds one MSS, and Reno congestion avoidance adds `MSS·MSS/cwnd`; `ssthresh`
stays and `dupack` returns to 0.  (No fast retransmit has happened, so there is no inflated window to take back.) -/
theorem new_ack_after_few_dupacks (s : Sender ℚ) (a : AckIn ℚ) (h : Inv s) (hok : AckOk s a) (hnew : s.last_ack < a.ackno)
    (hdup : 0 < s.dupack ∧ s.dupack < 3) :
    ∃ s', s.step (.ack a) = .ok s' [] ∧ s'.dupack = 0 ∧ s'.last_ack = a.ackno ∧
      s'.cc = CC.ackReceived s.kind s.cc (TCPPacketGenerator.put_sample_rtt s.now a.ptime) s.now ∧
      (∃ s0, ({ s with dupack := 0 } : Sender ℚ).step (.ack a) = .ok s0 [] ∧ s0.cc = s'.cc) ∧
      (s.cc.cwnd ≤ s.cc.ssthresh → s'.cc.cwnd = s.cc.cwnd + s.cc.mss) ∧
      (s.kind = .reno → s'.cc.cwnd = renoGrow s.cc.mss s.cc.cwnd s.cc.ssthresh) ∧
      s'.cc.ssthresh = s.cc.ssthresh := by
  obtain ⟨T, S, r, _⟩ := ackStep_new_spec s a h.cc h.keys h.nodup hok hnew
  have hcc : ccBeforeNew s = s.cc := by unfold ccBeforeNew; rw [if_neg (by omega)]
  rw [hcc] at r
  obtain ⟨T0, S0, r0, _⟩ := ackStep_new_spec ({ s with dupack := 0 } : Sender ℚ) a h.cc h.keys h.nodup hok hnew
  have hcc0 : ccBeforeNew ({ s with dupack := 0 } : Sender ℚ) = s.cc := by
    unfold ccBeforeNew; rw [if_neg (by show ¬ 3 ≤ 0; omega)]
  rw [hcc0] at r0
  have hp := ack_plain h.cc (TCPPacketGenerator.put_sample_rtt s.now a.ptime) s.now
  refine ⟨_, r, rfl, rfl, rfl, ⟨_, r0, rfl⟩, hp.2, ?_, hp.1⟩
  intro hk
  show (CC.ackReceived s.kind s.cc (TCPPacketGenerator.put_sample_rtt s.now a.ptime) s.now).cwnd = _
  rw [hk]; show (TCPReno.ack_received s.cc (TCPPacketGenerator.put_sample_rtt s.now a.ptime) s.now).cwnd = _
  rw [(reno_new_ack s.cc _ s.now).1]

/-! ### retransmission timeout -/

/-- **A retransmission timeout sets `cwnd` to one MSS** (generated `timer_expired`, for CUBIC with `cubic_reset`),
**retransmits the segment and doubles the RTO** (generated `timeout_backoff`); the timer is re-armed for the doubled
RTO from now, `ssthresh` and the smoothed estimates stay. -/
theorem timeout_rule (s : Sender ℚ) (seq : Nat) (tr : TimerRec ℚ) (h : Inv s) (ht : AL.get? seq s.timers = some tr)
    (hdue : tr.live = true ∧ tr.wake = s.now ∧ ¬ s.now < tr.expiry) :
    (TCPPacketGenerator.timeout_backoff s.est = { s.est with rto := s.est.rto * 2 }) ∧
    ∃ s', s.step (.fire seq) = .ok s' [{ seq := seq, size := s.mss, stamp := s.now, kind := .resend }] ∧
      s'.cc.cwnd = s.cc.mss ∧ s'.cc.mss = s.cc.mss ∧ s'.cc.ssthresh = s.cc.ssthresh ∧
      s'.est.rto = 2 * s.est.rto ∧ s'.est.rtt_estimate = s.est.rtt_estimate ∧
      AL.get? seq s'.timers = some { expiry := s.now + 2 * s.est.rto, wake := s.now + 2 * s.est.rto, live := true } ∧
      AL.keys s'.timers = AL.keys s.timers := by
  refine ⟨backoff_eq s.est, ?_⟩
  obtain ⟨S, r, _, _⟩ := fireStep_spec s seq tr ht hdue
  have hmem : seq ∈ AL.keys s.sent := h.keys ▸ AL.mem_of_get?_some ht
  have hout := resend_out ({ s with cc := CC.timerExpired s.kind s.cc } : Sender ℚ) seq
  rw [if_pos hmem] at hout
  rw [hout] at r
  have hcw : (CC.timerExpired s.kind s.cc).cwnd = s.cc.mss ∧ (CC.timerExpired s.kind s.cc).mss = s.cc.mss ∧
      (CC.timerExpired s.kind s.cc).ssthresh = s.cc.ssthresh := by
    cases s.kind with
    | reno => exact ⟨rfl, rfl, rfl⟩
    | cubic =>
      show (TCPCubic.timer_expired s.cc).cwnd = _ ∧ (TCPCubic.timer_expired s.cc).mss = _ ∧ (TCPCubic.timer_expired s.cc).ssthresh = _
      rw [cubic_timer_expired_eq]; exact ⟨rfl, rfl, rfl⟩
  have hr2 : (TCPPacketGenerator.timeout_backoff s.est).rto = 2 * s.est.rto := by rw [backoff_eq]; show s.est.rto * 2 = _; ring
  refine ⟨_, r, hcw.1, hcw.2.1, hcw.2.2, hr2, by rw [backoff_eq], ?_, AL.keys_set_of_mem _ _ _ (AL.mem_of_get?_some ht)⟩
  show AL.get? seq (AL.set seq _ s.timers) = _
  rw [AL.get?_set_self, hr2, arm_eq _ _ (by have := h.rto_pos; linarith)]

/-! ### CUBIC -/

/-- **CUBIC growth on an ACK in congestion avoidance.**  With `W_last_max = 0` (invariant, `cwnd_ge_mss`) and
`cwnd > 0`:
the generated `cubic_update` never reaches its cube-root branch and divides by zero nowhere (`safe`), and equals the
cubic / TCP-friendly formulas of the specification — new epoch at `now` with origin at the current window and `K = 0`,
target `origin + C·(now + d_min − epoch_start − K)³`, `cnt = cwnd/(target − cwnd)` (or `100·cwnd`), TCP-friendly
estimate `W_tcp + 3β/(2−β)·ack_cnt/cwnd` capping `cnt` at `cwnd/(W_tcp − cwnd)`; and the generated `ack_received` adds
one MSS in slow start, else runs `cubic_update` and adds one MSS exactly when `cwnd_cnt > cnt`. -/
theorem cubic_growth (c : CCState ℚ) (rtt now : ℚ) (hW : c.W_last_max = 0) (hc : 0 < c.cwnd) (hb : c.beta ≠ 2) :
    let e := epochOf c.epoch_start c.origin_point c.K c.W_tcp c.ack_cnt c.cwnd now
    let target := cubicTarget e c.C c.d_min now
    let w := friendlyW e c.beta c.cwnd
    TCPCubic.cubic_update.safe c now = true ∧
    TCPCubic.cubic_update c now =
      { c with epoch_start := e.start, origin_point := e.origin, K := e.K,
               W_tcp := if c.tcp_friendliness then w else e.W_tcp,
               ack_cnt := if c.tcp_friendliness then 0 else e.ack_cnt,
               cnt := if c.tcp_friendliness then friendlyCnt (cubicCnt c.cwnd target) c.cwnd w
                      else cubicCnt c.cwnd target } ∧
    TCPCubic.ack_received.safe c rtt now = true ∧
    TCPCubic.ack_received c rtt now =
      (if c.cwnd ≤ c.ssthresh then { c with d_min := dminNext c.d_min rtt, cwnd := c.cwnd + c.mss }
       else
        let u := TCPCubic.cubic_update { c with d_min := dminNext c.d_min rtt } now
        if u.cnt < u.cwnd_cnt then { u with cwnd := c.cwnd + c.mss, cwnd_cnt := 0 }
        else { u with cwnd_cnt := u.cwnd_cnt + 1 }) := by
  intro e target w
  have hnW : ¬ c.cwnd < c.W_last_max := by rw [hW]; exact not_lt.mpr hc.le
  refine ⟨cubic_update_safe c now hnW (ne_of_gt hc) hb, cubic_update_eq c now hnW,
    cubic_ack_safe c rtt now hW hb (Or.inr hc), ?_⟩
  rw [cubic_ack_eq]
  have hnW' : ¬ ({ c with d_min := dminNext c.d_min rtt } : CCState ℚ).cwnd <
      ({ c with d_min := dminNext c.d_min rtt } : CCState ℚ).W_last_max := hnW
  split_ifs with h1
  · rfl
  · simp only [cubic_update_eq _ now hnW']

/-- the cube-root branch, were it reached, is flagged by `safe` (so the sender model turns it into an error instead
of computing with a placeholder): first ACK of an epoch with `cwnd < W_last_max` -/
theorem cube_root_is_flagged (c : CCState ℚ) (now : ℚ) (he : c.epoch_start ≤ 0) (hW : c.cwnd < c.W_last_max) :
    TCPCubic.cubic_update.safe c now = false := cubic_update_unsafe_of_cuberoot c now he hW

/-! ### `cwnd ≥ MSS`, always -/

/-- **`cwnd` never falls below one MSS**: along every sequence of sender actions (resumptions of `run`, ACKs with
arbitrary numbers / echoed ids / RTT samples ≥ 0, timer expiries, clock ticks) from a state satisfying the invariant,
after every action `cwnd ≥ cc.mss > 0`; also `ssthresh ≥ 0`, `rto > 0`, and for CUBIC `W_last_max = 0` — the
invariant that makes the cube-root branch unreachable. -/
theorem cwnd_ge_mss (s0 s : Sender ℚ) (h0 : Inv s0) (hr : Reach s0 s) :
    s.cc.mss ≤ s.cc.cwnd ∧ 0 < s.cc.mss ∧ 0 ≤ s.cc.ssthresh ∧ 0 < s.est.rto ∧
    (s.kind = .cubic → s.cc.W_last_max = 0) := by
  have h := reach_inv h0 hr
  exact ⟨h.cc.cwnd_ge, h.cc.mss_pos, h.cc.ssthresh_nonneg, h.rto_pos, fun hk => (h.cc.cubic hk).1⟩

/-- one step of the same: an accepted action keeps `cwnd ≥ MSS` (this is the inductive step of `cwnd_ge_mss`) -/
theorem cwnd_ge_mss_step (s s' : Sender ℚ) (a : Act ℚ) (outs : List (Tx ℚ)) (h : Inv s) (ha : ActOk a)
    (hs : s.step a = .ok s' outs) : s'.cc.mss ≤ s'.cc.cwnd ∧ Inv s' :=
  ⟨((step_safe h a ha).2 s' outs hs).cc.cwnd_ge, (step_safe h a ha).2 s' outs hs⟩

/-! ### RTO -/

/-- **After every new ACK `RTO = srtt + 4·rttvar`, with `srtt` and `rttvar` updated from that ACK's RTT sample
`now − ack.time` with gains 1/8 and 1/4** (generated estimator block), whatever the ACK number, also right after
duplicates. -/
theorem rto_formula (s : Sender ℚ) (a : AckIn ℚ) (h : Inv s) (hok : AckOk s a) (hnew : s.last_ack < a.ackno) :
    (∀ e : RttEst ℚ, ∀ now pt : ℚ, TCPPacketGenerator.put_estimator e now pt =
      { rtt_estimate := srttNext e.rtt_estimate (now - pt),
        est_deviation := varNext e.rtt_estimate e.est_deviation (now - pt),
        rto := rtoOf (srttNext e.rtt_estimate (now - pt)) (varNext e.rtt_estimate e.est_deviation (now - pt)) }) ∧
    ∃ s', s.step (.ack a) = .ok s' [] ∧
      s'.est.rtt_estimate = srttNext s.est.rtt_estimate (s.now - a.ptime) ∧
      s'.est.est_deviation = varNext s.est.rtt_estimate s.est.est_deviation (s.now - a.ptime) ∧
      s'.est.rto = s'.est.rtt_estimate + 4 * s'.est.est_deviation := by
  refine ⟨estimator_spec, ?_⟩
  obtain ⟨T, S, r, _⟩ := ackStep_new_spec s a h.cc h.keys h.nodup hok hnew
  refine ⟨_, r, ?_, ?_, ?_⟩
  · show (TCPPacketGenerator.put_estimator s.est s.now a.ptime).rtt_estimate = _
    rw [estimator_spec]
  · show (TCPPacketGenerator.put_estimator s.est s.now a.ptime).est_deviation = _
    rw [estimator_spec]
  · show (TCPPacketGenerator.put_estimator s.est s.now a.ptime).rto =
      (TCPPacketGenerator.put_estimator s.est s.now a.ptime).rtt_estimate +
        4 * (TCPPacketGenerator.put_estimator s.est s.now a.ptime).est_deviation
    rw [estimator_spec]; rfl

/-! ### sending -/

/-- **New data segments are MSS-sized, consecutively numbered, and sent only while
`next_seq + MSS ≤ min(buffered data, last_ack + cwnd)`** (the generated guard of `run` is exactly that condition), **so
unacknowledged new data never exceeds the congestion window at the moment of sending.**  One loop iteration: -/
theorem send_in_window (s s' : Sender ℚ) (tx : Tx ℚ) (h : Inv s) (hs : s.sendStep = .sent s' tx) :
    tx.seq = s.next_seq ∧ tx.size = s.mss ∧ tx.kind = .new ∧ s'.next_seq = s.next_seq + s.mss ∧
    InWindow s.next_seq s.mss s.refill.send_buffer s.last_ack s.cc.cwnd ∧
    ((s'.next_seq : ℚ) - s.last_ack ≤ s.cc.cwnd) ∧
    (∀ a b c d e : ℚ, TCPPacketGenerator.run_send_guard a b c d e = true ↔ InWindow a b c d e) := by
  obtain ⟨_, htx, hn, _, _, _, _, _, _, _, _, hw⟩ := (sendStep_spec h).2.1 s' tx hs
  refine ⟨by rw [htx], by rw [htx], by rw [htx], hn, hw, ?_, ?_⟩
  · unfold InWindow at hw
    have := le_trans hw (min_le_right _ _)
    rw [hn]; push_cast; linarith
  · intro a b c d e
    unfold TCPPacketGenerator.run_send_guard InWindow
    simp only [decide_eq_true_eq, pymin_eq]

/-- a whole resumption of `run`: the emitted segments are `next_seq, next_seq + MSS, …`, all of size MSS, all new,
each inside the window of that moment (`last_ack` and `cwnd` do not change while `run` is sending) -/
theorem send_in_window_burst (s s' : Sender ℚ) (fuel : Nat) (outs : List (Tx ℚ)) (h : Inv s)
    (hs : s.step (.wake fuel) = .ok s' outs) :
    ∀ i (hi : i < outs.length), (outs[i]).seq = s.next_seq + i * s.mss ∧ (outs[i]).size = s.mss ∧
      (outs[i]).kind = .new ∧ (((outs[i]).seq : ℚ) + s.mss ≤ s.last_ack + s.cc.cwnd) := by
  have hs' : s.wakeStep fuel = .ok s' outs := hs
  unfold Sender.wakeStep at hs'
  split_ifs at hs'
  obtain ⟨new, e, hem⟩ := (runLoop_spec fuel s [] h).2 s' outs hs'
  simp only [List.nil_append] at e
  subst e
  intro i hi
  obtain ⟨a1, a2, a3, _, a5⟩ := emits_window hem h i hi
  exact ⟨a1, a2, a3, a5⟩

/-! ### an acknowledgement below the acknowledged mark -/

/-- **An ACK that a later cumulative ACK has overtaken on the return path (`ackno < last_ack`) is not part of the window law: it
is neither a new ACK nor a duplicate.**  The sender's `put` accepts it and changes *nothing* - `cwnd`, `ssthresh`, `dupack`,
`last_ack`, the RTT estimator and the RTO are not updated from its (stale) sample, no timer is touched - and nothing is
retransmitted; in particular the send window `last_ack + cwnd` does not close. -/
theorem stale_ack_ignored (s : Sender ℚ) (a : AckIn ℚ) (hok : AckOk s a) (hst : a.ackno < s.last_ack) :
    ∃ s', s.step (.ack a) = .ok s' [] ∧ s'.cc = s.cc ∧ s'.est = s.est ∧ s'.dupack = s.dupack ∧ s'.last_ack = s.last_ack ∧
      s'.timers = s.timers ∧ s' = s :=
  ⟨s, ackStep_stale s a hok hst, rfl, rfl, rfl, rfl, rfl, rfl⟩

/-- **The early return of `put` as written in the source is the model's test** (bridge): the generated
`TCPPacketGenerator.put_stale_guard` - the test of the `if …: return` that stands between `ackno = ack.ack` and the duplicate-ACK
counting - at the sender's numbers is `ackno < last_ack`; where it holds the model's `put` returns the state unchanged, where it
does not the model goes on to the duplicate-ACK counting (`ackCore`).  (`<` changed to `<=`, `!=`, `>` … makes this fail to
compile; without the guard the translator stops.) -/
theorem stale_guard_generated_eq_model (s : Sender ℚ) (a : AckIn ℚ) (hok : AckOk s a) :
    (∀ x l : Nat, TCPPacketGenerator.put_stale_guard (Num.ofNat x : ℚ) (Num.ofNat l) = decide (x < l)) ∧
    (TCPPacketGenerator.put_stale_guard (Num.ofNat a.ackno : ℚ) (Num.ofNat s.last_ack) = true →
      s.step (.ack a) = .ok s []) ∧
    (TCPPacketGenerator.put_stale_guard (Num.ofNat a.ackno : ℚ) (Num.ofNat s.last_ack) = false →
      s.step (.ack a) = s.ackCore a) := by
  have hg : ∀ x l : Nat, TCPPacketGenerator.put_stale_guard (Num.ofNat x : ℚ) (Num.ofNat l) = decide (x < l) := by
    intro x l
    unfold TCPPacketGenerator.put_stale_guard
    simp only [ofNat_eq, Nat.cast_lt]
  refine ⟨hg, fun h => ?_, fun h => ?_⟩
  · rw [hg, decide_eq_true_eq] at h
    exact ackStep_stale s a hok h
  · rw [hg, decide_eq_false_iff_not] at h
    exact ackStep_core s a hok h

/-! ### non-vacuity -/

/-- the hypotheses of `stale_ack_ignored` are met: the acknowledged mark is at 1536 and the ACK of the first segment (512),
held back on the return path, arrives -/
example : let s : Sender ℚ := { Sender.init .reno ({ (TCPCubic.defaults : CCState ℚ) with mss := 512, cwnd := 1536 }) 1 512 none 0
      with last_ack := 1536, next_seq := 1536, send_buffer := 1536 }
    AckOk s { fid := 10000, ackno := 512, pid := 0, ptime := 0 } ∧ (512 : Nat) < s.last_ack ∧
    TCPPacketGenerator.put_stale_guard (Num.ofNat 512 : ℚ) (Num.ofNat s.last_ack) = true ∧
    TCPPacketGenerator.put_stale_guard (Num.ofNat 1536 : ℚ) (Num.ofNat s.last_ack) = false := by
  intro s
  refine ⟨⟨Nat.le_refl _, le_refl _⟩, by decide, ?_, ?_⟩ <;>
    (unfold TCPPacketGenerator.put_stale_guard; simp only [ofNat_eq]; norm_num [s, Sender.init])


/-- a Reno object with `cwnd ≥ mss > 0`, `ssthresh ≥ 0` satisfies the congestion-control invariant … -/
example : CCInv .reno ({ (TCPCubic.defaults : CCState ℚ) with mss := 512, cwnd := 1300, ssthresh := 0 }) :=
  ⟨by norm_num, by norm_num, by norm_num, fun h => by cases h⟩

/-- … so does `TCPCubic()` with the constructor defaults generated from the source (`W_last_max = 0`, `beta = 1/5`) … -/
example : CCInv .cubic (TCPCubic.defaults : CCState ℚ) := by
  refine ⟨?_, ?_, ?_, fun _ => ⟨?_, ?_⟩⟩ <;> simp [TCPCubic.defaults] <;> norm_num

/-- … and a fresh generator around it (`rtt_estimate = 1`) satisfies the sender invariant. -/
example : Inv (Sender.init .cubic (TCPCubic.defaults : CCState ℚ) 1 512 (some 5120) 0) :=
  inv_init _ _ _ _ _ _ (by refine ⟨?_, ?_, ?_, fun _ => ⟨?_, ?_⟩⟩ <;> simp [TCPCubic.defaults] <;> norm_num) (by norm_num)

/-- the hypotheses of `new_ack_after_few_dupacks` are met: one duplicate counted, then the ACK of the next segment -/
example : let s : Sender ℚ := { Sender.init .cubic (TCPCubic.defaults : CCState ℚ) 1 512 none 0 with dupack := 1 }
    Inv s ∧ AckOk s { fid := 10000, ackno := 512, pid := 0, ptime := 0 } ∧ s.last_ack < (512 : Nat) ∧
      (0 < s.dupack ∧ s.dupack < 3) := by
  intro s
  have hi : Inv (Sender.init .cubic (TCPCubic.defaults : CCState ℚ) 1 512 none 0) :=
    inv_init _ _ _ _ _ _ (by refine ⟨?_, ?_, ?_, fun _ => ⟨?_, ?_⟩⟩ <;> simp [TCPCubic.defaults] <;> norm_num) (by norm_num)
  exact ⟨hi.transfer rfl rfl rfl rfl rfl (Nat.le_refl 0), ⟨Nat.le_refl _, le_refl _⟩, by decide, by decide, by decide⟩

/-- the hypotheses of `cubic_growth` are met by a CUBIC state in congestion avoidance -/
example : let c : CCState ℚ := { (TCPCubic.defaults : CCState ℚ) with cwnd := 4096, ssthresh := 2048, cwnd_cnt := 3 }
    c.W_last_max = 0 ∧ 0 < c.cwnd ∧ c.beta ≠ 2 ∧ ¬ c.cwnd ≤ c.ssthresh := by
  simp [TCPCubic.defaults]; norm_num

/-- Reno in congestion avoidance: `cwnd = 1024 > ssthresh = 512` grows by `512·512/1024 = 256` -/
example : (TCPReno.ack_received ({ (TCPCubic.defaults : CCState ℚ) with cwnd := 1024, ssthresh := 512 }) 0 0).cwnd = 1280 := by
  rw [(reno_new_ack _ _ _).1]; simp [renoGrow, TCPCubic.defaults]; norm_num

end C17
