import OnlVerif.Lemmas.SchedSP
import OnlVerif.Lemmas.GenSp13
/-!
# C13 — static priority always serves the highest-priority backlogged flow

Model: the MultiQueueServer LTS (`OnlVerif/Net/MultiQueue.lean`) with the record `SP.sched`
(`OnlVerif/Net/Sched/SP.lean`, a literal transcription of `SP.run`).  The *start of a transmission* is the
scheduler's decision burst: the burst (`init`, `wake` or `sendDone`) in which the loop commits to a queue and takes
the packet with `store.get()` (DESIGN §3); the transmission then begins in the same simulated instant.
"In every admissible run" = for every action sequence accepted from the initial state, for all priority tables.
-/

namespace C13
open MQ SP

/-- the state of an `SP` scheduler after `__init__` -/
def start (t0 : ℚ) : MQState ℚ Pc := MQ.init (Pc.scan 0) t0 []

/-- **Strict priority at every decision**: in every admissible run, at every decision burst that starts service of a
packet `p` of flow `c` with priority `π`: `π` is positive, `p` is the oldest waiting packet of `c`, and the store of
every flow with a strictly higher priority is empty at that instant (before and after the burst). -/
theorem sp_strict (cfg : Cfg ℚ) (t0 : ℚ) (as : List (MAct ℚ)) (l : List (Entry Pc))
    (h : runLog (sched cfg) (start t0) as = .ok l) (e : Entry Pc) (he : e ∈ l)
    (hdec : e.act = .init ∨ e.act = .wake ∨ e.act = .sendDone) (c : Nat) (p : MPkt)
    (hph : e.post.phase = .pktHanded c p) :
    ∃ π, (c, π) ∈ cfg.prios ∧ 0 < π ∧ (∃ rest, storeOf e.pre.stores c = p :: rest) ∧
      ∀ f' π', (f', π') ∈ cfg.prios → π < π' → storeOf e.pre.stores f' = [] ∧ storeOf e.post.stores f' = [] := by
  have hc0 : CtlOk (start t0) := fun _ => rfl
  obtain ⟨hc, hs⟩ := runLog_ctlOk cfg as (start t0) l hc0 h e he
  obtain ⟨i, π, rest, hi, hpos, hsc, hst, hpost⟩ := (step_sp cfg e.pre e.post e.act e.out hc hs).2 hdec c p hph
  have hmem : (c, π) ∈ cfg.prios := (mem_sortDesc _ _).mp (List.mem_of_getElem? hi)
  refine ⟨π, hmem, hpos, ⟨rest, hst⟩, fun f' π' hf' hlt => ?_⟩
  obtain ⟨j, hj, hjb⟩ := higher_before cfg.prios i (c, π) (f', π') hi hf' hlt
  have hempty : storeOf e.pre.stores f' = [] := hsc j hj f' π' hjb (lt_trans hpos hlt)
  refine ⟨hempty, ?_⟩
  rw [hpost, storeOf_setKey]
  split
  · rename_i hfc
    rw [hfc, hst] at hempty; cases hempty
  · exact hempty

/-- **Only decision bursts hand a packet to the loop**: a step after which the loop holds a freshly taken packet is
`init`, `wake` or `sendDone` (SP never parks a packet, so `pktResume` never fetches another one). -/
theorem sp_decision_points (cfg : Cfg ℚ) (s s' : MQState ℚ Pc) (a : MAct ℚ) (o : MOut ℚ) (c : Nat) (p : MPkt)
    (h : step (sched cfg) s a = .ok (s', o)) (hpost : s'.phase = .pktHanded c p) (hpre : s.phase ≠ .pktHanded c p) :
    a = .init ∨ a = .wake ∨ a = .sendDone := by
  have ht := step_trans (sched cfg) s s' a o h
  cases ht with
  | init _ _ _ => exact Or.inl rfl
  | put q cl k hcl hk =>
    exfalso
    have : (postToken ({ s with ctl := k } : MQState ℚ Pc)).phase = s.phase := by unfold postToken; split <;> rfl
    simp only [enqueue, countIn, this] at hpost
    exact hpre hpost
  | tokenHandoff n _ _ => cases hpost
  | wake _ _ _ => exact Or.inr (Or.inl rfl)
  | resumeSend cl q e k _ _ => cases hpost
  | resumePark cl q k s2 _ hp hd hpk hr => exact absurd hd (SP.neverParks cfg _ _ _ _ _)
  | sendInit q _ => cases hpost
  | sendFire q due _ _ => cases hpost
  | sendDone q k _ _ _ _ => exact Or.inr (Or.inr rfl)
  | tickIdle t _ _ _ => exact absurd hpost hpre
  | tickBusy t q due _ _ _ => exact absurd hpost hpre
  | sample inc => exact absurd hpost hpre

/-- **A decision is never revoked and a transmission never aborted**: once the loop has taken `p` (`pktHanded`), the
only accepted steps that change its phase lead to the sender of `p` (`pktResume`), to the transmission of `p`
(`sendInit`) and to the departure of `p` at its due instant (`sendFire`); arrivals — however urgent — clock ticks and
monitor samples leave the phase untouched. -/
theorem sp_no_abort (cfg : Cfg ℚ) (s s' : MQState ℚ Pc) (a : MAct ℚ) (o : MOut ℚ) (p : MPkt)
    (h : step (sched cfg) s a = .ok (s', o)) :
    (∀ c, s.phase = .pktHanded c p → (a = .pktResume ∧ s'.phase = .spawned p) ∨ s'.phase = s.phase) ∧
    (s.phase = .spawned p → (a = .sendInit ∧ ∃ d, s'.phase = .sending p d ∧ o = .started p d) ∨ s'.phase = s.phase) ∧
    (∀ d, s.phase = .sending p d →
      (a = .sendFire ∧ o = .depart p ∧ s.now = d ∧ s'.phase = .finished p) ∨ (s'.phase = s.phase ∧ ∀ q, o ≠ .depart q)) := by
  have ht := step_trans (sched cfg) s s' a o h
  cases ht with
  | init _ hp _ =>
    exact ⟨fun c h1 => (by rw [hp] at h1; cases h1), fun h1 => (by rw [hp] at h1; cases h1), fun d h1 => (by rw [hp] at h1; cases h1)⟩
  | put q cl k hcl hk =>
    have : (enqueue (countIn (postToken ({ s with ctl := k } : MQState ℚ Pc)) q) cl q).phase = s.phase := by
      show (postToken ({ s with ctl := k } : MQState ℚ Pc)).phase = s.phase
      unfold postToken; split <;> rfl
    exact ⟨fun c _ => Or.inr this, fun _ => Or.inr this, fun d _ => Or.inr ⟨this, fun _ hx => (by cases hx)⟩⟩
  | tokenHandoff n hp _ =>
    exact ⟨fun c h1 => (by rw [hp] at h1; cases h1), fun h1 => (by rw [hp] at h1; cases h1), fun d h1 => (by rw [hp] at h1; cases h1)⟩
  | wake _ hp _ =>
    exact ⟨fun c h1 => (by rw [hp] at h1; cases h1), fun h1 => (by rw [hp] at h1; cases h1), fun d h1 => (by rw [hp] at h1; cases h1)⟩
  | resumeSend cl q e k hp hd =>
    refine ⟨fun c h1 => ?_, fun h1 => (by rw [hp] at h1; cases h1), fun d h1 => (by rw [hp] at h1; cases h1)⟩
    rw [hp] at h1; cases h1
    exact Or.inl ⟨rfl, rfl⟩
  | resumePark cl q k s2 _ hp hd hpk hr => exact absurd hd (SP.neverParks cfg _ _ _ _ _)
  | sendInit q hp =>
    refine ⟨fun c h1 => (by rw [hp] at h1; cases h1), fun h1 => ?_, fun d h1 => (by rw [hp] at h1; cases h1)⟩
    rw [hp] at h1; cases h1
    exact Or.inl ⟨rfl, _, rfl, rfl⟩
  | sendFire q due hp hnow =>
    refine ⟨fun c h1 => (by rw [hp] at h1; cases h1), fun h1 => (by rw [hp] at h1; cases h1), fun d h1 => ?_⟩
    rw [hp] at h1; cases h1
    exact Or.inl ⟨rfl, rfl, hnow, rfl⟩
  | sendDone q k _ hp _ _ =>
    exact ⟨fun c h1 => (by rw [hp] at h1; cases h1), fun h1 => (by rw [hp] at h1; cases h1), fun d h1 => (by rw [hp] at h1; cases h1)⟩
  | tickIdle t _ _ _ =>
    exact ⟨fun c _ => Or.inr rfl, fun _ => Or.inr rfl, fun d _ => Or.inr ⟨rfl, fun _ hx => (by cases hx)⟩⟩
  | tickBusy t q due _ _ _ =>
    exact ⟨fun c _ => Or.inr rfl, fun _ => Or.inr rfl, fun d _ => Or.inr ⟨rfl, fun _ hx => (by cases hx)⟩⟩
  | sample inc =>
    exact ⟨fun c _ => Or.inr rfl, fun _ => Or.inr rfl, fun d _ => Or.inr ⟨rfl, fun _ hx => (by cases hx)⟩⟩

/-! ### The source, re-translated on every run, *is* the model (bridge theorems)

`Generated/Sp13.lean` is rewritten by `py2lean` (`more.py`) from the current `onl/scheduler/sp.py` before this file is
compiled: the table `SP.__init__` builds (`sorted(priorities.items(), key=lambda item: item[1], reverse=True)` as Python's
stable sort, `Gen.pySorted` = core's `List.mergeSort`), what the body of `for flow_id, prio in self.priorities` does with
one entry (`Gen.SP.run_entry`), the scan (`Gen.SP.run_scan`) and the end-of-pass test (`Gen.SP.run_wait`).  The frame of
`run` (`while True` / the `for` over `self.priorities` / the end-of-pass `if` with `yield self.packets_available.get()`) and
the sequence get → annotation → `send_packet` are checked structurally by the translator. -/

/-- **The table as built in the source is the model's table**: Python's `sorted(…, key=priority, reverse=True)` — stable,
descending — of the `priorities` dict (in insertion order) is `SP.sortDesc`, hence `SP.table`: most urgent first, flows of
equal priority in the order in which they were configured. -/
theorem sp_order_generated_eq_model {α : Type} [Num α] (cfg : Cfg α) :
    Gen.SP.init_order cfg.prios = sortDesc cfg.prios ∧ Gen.SP.init_order cfg.prios = table cfg :=
  ⟨GenSp13.order_eq cfg.prios, GenSp13.order_eq cfg.prios⟩

/-- **The scan as written in the source is the model's scan.**  (i) One move of the model at entry `i` of the table is the
translated loop body on that entry: priority not positive or store empty → next entry, else take the head of that store.
(ii) So a pass serves the *first* entry in table order with a positive priority and a non-empty store.  (iii) Whenever the
body serves it leaves the `for` with `break`, i.e. the scan starts again from the top (`rescan = true`; in the model: after
the transmission the loop is at `endPass`, which continues at `scan 0`).  (iv) At the end of a pass the server waits on
`packets_available` iff `total_packets == 0`, else rescans at once. -/
theorem sp_pick_generated_eq_model {α : Type} [Num α] (cfg : Cfg α) (v : MQ.View) :
    (∀ i, micro cfg (.scan i) v =
      match (table cfg)[i]? with
      | none => .goto .endPass
      | some (f, pr) =>
        match Gen.SP.run_entry pr (v.storeLen f : Nat) with
        | .next => .goto (.scan (i + 1))
        | .serve _ => .get f (.got i)) ∧
    (∀ (size : Nat → Int) (t : List (Nat × Int)),
      Gen.SP.run_scan size t = t.find? (fun e => decide (0 < e.2) && !decide (size e.1 = 0))) ∧
    (∀ pr size r, Gen.SP.run_entry pr size = .serve r → r = true) ∧
    (∀ p, onDone .sent p = .ok .endPass) ∧
    micro cfg .endPass v = (if Gen.SP.run_wait v.total = true then .block (.scan 0) else .goto (.scan 0)) :=
  ⟨fun i => GenSp13.micro_scan_eq cfg i v, GenSp13.run_scan_eq, GenSp13.serve_rescans, fun _ => rfl,
   GenSp13.micro_endPass_eq cfg v⟩

/-- the translated table and scan on the example below: priorities L(1), M(3), H(5) configured in that order, a second flow
with priority 3 configured last stays behind the first; with H empty and both M flows backlogged the first M flow is served -/
example : Gen.SP.init_order [(1, 1), (2, 3), (3, 5), (4, 3)] = [(3, 5), (2, 3), (4, 3), (1, 1)] ∧
    Gen.SP.run_scan (fun f => if f = 3 then 0 else 2) (Gen.SP.init_order [(1, 1), (2, 3), (3, 5), (4, 3)]) = some (2, 3) := by
  rw [GenSp13.order_eq]      -- `List.mergeSort` is defined by well-founded recursion: evaluated through the bridge
  decide +kernel

/-! ### non-vacuity -/

/-- phases after each step of a run (as the letters the harness reads off `proc.target`) -/
def phases (r : Except String (List (Entry Pc))) : Option (List String) :=
  match r with
  | .ok l => some (l.map fun e => phaseName e.post)
  | .error _ => none

/-- a concrete admissible run with three priority levels backlogged: H(5), M(3), L(1) queued at 0 in the order L, M, H;
a second H arrives during the first transmission.  The decision bursts (`wake`, then each `sendDone`) end in phase
`H` (packet handed): the hypotheses of `sp_strict` are met four times. -/
example : phases (runLog (sched { rate := 8, prios := [(1, 1), (2, 3), (3, 5)] }) (start 0)
    [.init, .put ⟨1, 1, 1⟩, .put ⟨2, 2, 1⟩, .put ⟨3, 3, 1⟩, .tokenHandoff, .wake, .pktResume, .sendInit, .put ⟨4, 3, 1⟩,
     .tick 1, .sendFire, .sendDone, .pktResume, .sendInit, .tick 2, .sendFire, .sendDone, .pktResume, .sendInit, .tick 3,
     .sendFire, .sendDone]) =
    some ["W", "W", "W", "W", "K", "H", "S", "T", "T", "T", "F", "H", "S", "T", "T", "F", "H", "S", "T", "T", "F", "H"] := by
  decide +kernel

/-- … and the packets leave in the order H, H, M, L -/
example : (match runActs (sched { rate := 8, prios := [(1, 1), (2, 3), (3, 5)] }) (start 0)
    [.init, .put ⟨1, 1, 1⟩, .put ⟨2, 2, 1⟩, .put ⟨3, 3, 1⟩, .tokenHandoff, .wake, .pktResume, .sendInit, .put ⟨4, 3, 1⟩,
     .tick 1, .sendFire, .sendDone, .pktResume, .sendInit, .tick 2, .sendFire, .sendDone, .pktResume, .sendInit, .tick 3,
     .sendFire, .sendDone, .pktResume, .sendInit, .tick 4, .sendFire, .sendDone] with
    | .ok (_, _, outs) => some (outs.map (·.id)) | .error _ => none) = some [3, 4, 2, 1] := by
  decide +kernel

end C13
