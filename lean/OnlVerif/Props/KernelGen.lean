import OnlVerif.Lemmas.GenKernelRes
import OnlVerif.Lemmas.GenKernelCond
import OnlVerif.Lemmas.GenKernelSched
/-!
# KernelGen - the kernel's decision logic *as written in the source* is the kernel model `K`

`py2lean/kernel.py` regenerates `Generated/Kernel{Res,Cond,Sched}.lean` from `onl/sim/core.py`, `events.py`,
`resources/*.py` on every `./check C01|C04|C05|C06|C07`.  The theorems below (bridge theorems) prove that the generated
definitions coincide with the functions of the hand-written model (`Kernel/Agenda.lean`, `Ops.lean`, `Step.lean`) that the
theorems of C01, C04-C07 are about: `QEntry.lt`, `KState.schedule`, the `doCall` guards, `mkInterrupt`, `finishProc`,
`runUntilTime`, `closeEvent` (C01/C02/C04); `evaluate`, `condCheck` (C05); `hasRoom`, `canPut`/`applyPut` (= `doPut`),
`keyLt`, `preemptStep`, `getItem`/`takeOut` (= `doGet`), `cancelReq` (C06/C07).  A flipped comparison, a changed constant,
priority or refusal, a lost or reordered effect in the source changes a generated definition and one of these proofs no
longer compiles - for every input, not for sampled ones.

The encoding between the generated object views and the model state is explicit and hand-written:
`OnlVerif/Lemmas/GenKernelDefs.lean` (`GenKernel.resObj`, `runEff`, `run…`, `buildEvent`, `applyTrig`, `toEntry`).
All statements hold for every scalar type `τ` (no arithmetic identity is used), in particular for `ℚ` and `Float`.
-/

namespace KernelGen
open GenKernel
variable {τ σ : Type} [Num τ]

/-! ## resources (C06) -/

/-- **`Resource._do_put` as written in the source is the model's `doPut`** (free-slot test `hasRoom`, `canPut`; effects
`applyPut`: `users.append(event)`, `usage_since = now`, `succeed()`) for `Resource` and `PriorityResource`: running the
translated method on the object view of the state, performing its effect list in program order and pairing the result
with the returned bool gives exactly `doPut s r e`. -/
theorem resource_do_put_generated_eq_model (s : KState τ σ) (r : ResId) (e : EvId)
    (hk : (s.res r).kind = .resource ∨ (s.res r).kind = .priority) :
    runResourcePut { r := r, e := e } s = some (doPut s r e) :=
  resource_put_run s r e hk

/-- **the free-slot test of `Resource._do_put` is `hasRoom`**: the translated method returns `True` exactly when
`len(users) < capacity` in the model's sense (`capacity = inf` always has room). -/
theorem resource_guard_generated_eq_model (rr : ResRec) (n : Nat) :
    (Gen.Resource.do_put (resObj (τ := τ) rr) (n : Int)).ret = hasRoom rr.capacity n :=
  resource_guard rr n

/-- **`Resource._do_get` (release) as written in the source is the model's `doGet`** for the three resource classes:
remove the released request from `users` if it is there, `succeed()`, return `True`. -/
theorem resource_do_get_generated_eq_model (s : KState τ σ) (r : ResId) (e : EvId)
    (hk : (s.res r).kind = .resource ∨ (s.res r).kind = .priority ∨ (s.res r).kind = .preemptive) :
    runResourceGet { r := r, e := e } s = some (doGet s r e) :=
  resource_get_run s r e hk

/-- **`PriorityRequest.key` as written in the source orders requests like the model's `keyLt`**: Python's tuple `<` on the
generated key `(priority, time, not preempt)` is `keyLt`. -/
theorem priority_key_generated_eq_model (a b : ReqData τ) : keyLt a b = Py.keyLt (keyOf a) (keyOf b) :=
  keyLt_eq a b

/-- **`PreemptiveResource._do_put` as written in the source is the model's `doPut`** (`preemptStep`, then the common
`_do_put`): the eviction test `len(users) >= capacity and event.preempt`, the comparison `preempt.key > event.key`,
`users.remove(preempt)` and the interrupt of the victim's process, then `Resource._do_put`.  `w` is the victim
`sorted(users, key=key)[-1]` (`worstUser`, a landmark) whenever there is a user; the capacity is not 0
(`Resource.__init__` refuses it). -/
theorem preemptive_do_put_generated_eq_model (s : KState τ σ) (r : ResId) (e w : EvId) (hk : (s.res r).kind = .preemptive)
    (hw : ∀ w', worstUser s (s.res r).users = some w' → w' = w) (hcap : (s.res r).capacity ≠ some 0) :
    runPreemptStep { r := r, e := e, w := w } s = some (preemptStep s r e) ∧
    runPreemptivePut { r := r, e := e, w := w } s = some (doPut s r e) :=
  ⟨preemptive_pre_put s r e w hw hcap, preemptive_do_put s r e w hk hw hcap⟩

/-! ## containers and stores (C07) -/

/-- **`Container._do_put` as written in the source is the model's `doPut`**: guard `capacity - level >= amount`
(`canPut`), `level += amount`, `succeed()`. -/
theorem container_do_put_generated_eq_model (s : KState τ σ) (r : ResId) (e : EvId) (hk : (s.res r).kind = .container) :
    runContainerPut { r := r, e := e } s = some (doPut s r e) :=
  container_put_run s r e hk

/-- **`Container._do_get` as written in the source is the model's `doGet`**: guard `level >= amount` (`getItem`),
`level -= amount` (`takeOut`), `succeed()`. -/
theorem container_do_get_generated_eq_model (s : KState τ σ) (r : ResId) (e : EvId) (hk : (s.res r).kind = .container) :
    runContainerGet { r := r, e := e } s = some (doGet s r e) :=
  container_get_run s r e hk

/-- **the `amount <= 0` refusal of `ContainerPut.__init__` / `ContainerGet.__init__` is the guard of the model's `cput` /
`cget` calls**: the call ends with `ValueError` exactly when the translated constructor raises, otherwise the request is
built (`mkPut` / `mkGet`) with the amount the constructor stored. -/
theorem container_amount_guard_generated_eq_model (s : KState τ σ) (self : EvId) (r : ResId) (amount : Int)
    (hk : (s.res r).kind = .container) :
    doCall s self (.cput r amount) =
      (if (Gen.ContainerPut.init (reqObj (τ := τ)) amount).raised = 2 then (s, .err (valueErr "amount must be > 0"))
       else match initAmount (Gen.ContainerPut.init (reqObj (τ := τ)) amount).eff with
         | some a => ((mkPut s r { res := r, amount := a, time := s.now, proc := s.active }).1,
                      .ev (mkPut s r { res := r, amount := a, time := s.now, proc := s.active }).2)
         | none => (s, .unit)) ∧
    doCall s self (.cget r amount) =
      (if (Gen.ContainerGet.init (reqObj (τ := τ)) amount).raised = 2 then (s, .err (valueErr "amount must be > 0"))
       else match initAmount (Gen.ContainerGet.init (reqObj (τ := τ)) amount).eff with
         | some a => ((mkGet s r { res := r, amount := a, time := s.now, proc := s.active }).1,
                      .ev (mkGet s r { res := r, amount := a, time := s.now, proc := s.active }).2)
         | none => (s, .unit)) :=
  ⟨container_put_init s self r amount hk, container_get_init s self r amount hk⟩

/-- **`Store._do_put` / `_do_get` as written in the source are the model's `doPut` / `doGet`** (`Store`; `FilterStore`
inherits `_do_put`): `len(items) < capacity`, `items.append(item)`, `succeed()`; `if items: succeed(items.pop(0))`. -/
theorem store_generated_eq_model (s : KState τ σ) (r : ResId) (e : EvId) :
    ((s.res r).kind = .store ∨ (s.res r).kind = .fstore → runStorePut { r := r, e := e } s = some (doPut s r e)) ∧
    ((s.res r).kind = .store → runStoreGet { r := r, e := e } s = some (doGet s r e)) :=
  ⟨store_put_run s r e, store_get_run s r e⟩

/-- **`PriorityStore._do_put` / `_do_get` as written in the source are the model's `doPut` / `doGet`**: same guards;
`heappush` / `heappop` are effects whose meaning (bag + minimum, `listMin`) is hand-modelled. -/
theorem priority_store_generated_eq_model (s : KState τ σ) (r : ResId) (e : EvId) (hk : (s.res r).kind = .pstore) :
    runPStorePut { r := r, e := e } s = some (doPut s r e) ∧ runPStoreGet { r := r, e := e } s = some (doGet s r e) :=
  ⟨pstore_put_run s r e hk, pstore_get_run s r e hk⟩

/-- **`FilterStore._do_get` as written in the source is the model's `doGet`**: the first item that passes the filter is
removed and handed out (the loop shape is a landmark), and the method always returns `True` - a getter whose filter
matches nothing does not stop the scan. -/
theorem filter_store_generated_eq_model (s : KState τ σ) (r : ResId) (e : EvId) (hk : (s.res r).kind = .fstore) :
    runFStoreGet { r := r, e := e, m := (s.res r).items.find? (filterOk (reqOf s e).filter) } s = some (doGet s r e) :=
  fstore_get_run s r e hk

/-- **the guards of the `_do_put` methods as written in the source are the model's `canPut`**, class by class: the bool a
translated `_do_put` returns in state `s` is `canPut s r e` (`Resource`: free slot; `Container`: `capacity - level >= amount`;
the stores: `len(items) < capacity`). -/
theorem put_guards_generated_eq_model (s : KState τ σ) (r : ResId) (e : EvId) :
    ((s.res r).kind = .resource ∨ (s.res r).kind = .priority ∨ (s.res r).kind = .preemptive →
      (Gen.Resource.do_put (resObj (τ := τ) (s.res r)) (s.res r).users.length).ret = canPut s r e) ∧
    ((s.res r).kind = .container →
      (Gen.Container.do_put (contObj (τ := τ) (s.res r)) (reqOf s e).amount).ret = canPut s r e) ∧
    ((s.res r).kind = .store ∨ (s.res r).kind = .fstore →
      (Gen.Store.do_put (resObj (τ := τ) (s.res r)) (s.res r).items.length).ret = canPut s r e) ∧
    ((s.res r).kind = .pstore →
      (Gen.PriorityStore.do_put (resObj (τ := τ) (s.res r)) (s.res r).items.length).ret = canPut s r e) :=
  ⟨fun hk => (resource_do_put_at s r e 0 hk).2, container_put_guard s r e, store_put_guard s r e, pstore_put_guard s r e⟩

/-- **`Put.cancel` / `Get.cancel` as written in the source are the model's `cancelReq`**: nothing for a triggered request;
otherwise remove it from its queue *and rescan that queue*.  (The request is in its queue - `queues_hold_pending_requests`,
C07 - otherwise `list.remove` raises, which the model reports as `ValueError`.) -/
theorem cancel_generated_eq_model (s : KState τ σ) (e : EvId) (r : ResId) :
    ((s.ev e).kind = .put r → (s.triggered e = false → (s.res r).putQ.contains e = true) →
      runPutCancel { r := r, e := e } s = some (cancelReq s e).1 ∧ (cancelReq s e).2 = none) ∧
    ((s.ev e).kind = .get r → (s.triggered e = false → (s.res r).getQ.contains e = true) →
      runGetCancel { r := r, e := e } s = some (cancelReq s e).1 ∧ (cancelReq s e).2 = none) :=
  ⟨put_cancel_run s e r, get_cancel_run s e r⟩

/-! ## conditions (C05) -/

/-- **`Condition.all_events` / `any_events` as written in the source are the model's `evaluate`**. -/
theorem evaluate_generated_eq_model (all : Bool) (n c : Nat) :
    evaluate all n c = Gen.Condition.evaluate all (n : Int) (c : Int) ∧
    evaluate true n c = Gen.Condition.all_events (n : Int) (c : Int) ∧
    evaluate false n c = Gen.Condition.any_events (n : Int) (c : Int) :=
  ⟨evaluate_eq all n c, evaluate_eq true n c, evaluate_eq false n c⟩

/-- **`Condition._check` as written in the source is the model's `condCheck`**: nothing once the condition is triggered;
otherwise count the operand, then either (operand failed) defuse it and fail with its exception, or (predicate holds for the
new count) succeed. -/
theorem cond_check_generated_eq_model (s : KState τ σ) (c e : EvId) :
    runCondCheck { c := c, e := e } s = some (condCheck s c e) :=
  cond_check_run s c e

/-! ## scheduling (C01 / C02 / C04) -/

/-- **the priorities and the queue entry as written in the source are the model's**: `URGENT = 0`, `NORMAL = 1`;
`Environment.schedule` pushes `(now + delay, priority, next(eid), event)`, which is `KState.schedule`; Python's order on
those tuples is `QEntry.lt`. -/
theorem schedule_generated_eq_model (s : KState τ σ) (e : EvId) (prio : Nat) (delay : τ) (a b : τ × Nat × Nat × Nat) :
    Gen.URGENT = URGENT ∧ Gen.NORMAL = NORMAL ∧
    s.schedule e prio delay = pushEntry s (Gen.Environment.schedule_entry s.now delay prio s.eid e) ∧
    QEntry.lt (toEntry a) (toEntry b) = Py.entryLt a b :=
  ⟨rfl, rfl, rfl, entry_lt_eq a b⟩

/-- **`Timeout.__init__` as written in the source is the model's `timeout` call**: refused with `ValueError` exactly when
`delay < 0`; otherwise an event with no callbacks, `_ok = True` and the given value is scheduled with the priority and
delay of the source's `schedule` call (`NORMAL`, `delay`). -/
theorem timeout_generated_eq_model (s : KState τ σ) (self : EvId) (d : τ) (v : Val) :
    doCall s self (.timeout d v) =
      (if (Gen.Timeout.init (evObj (τ := τ)) d).raised = 2 then (s, .err (valueErr "Negative delay"))
       else match buildEvent (fun _ => Cb.stop) (Gen.Timeout.init (evObj (τ := τ)) d).eff {} with
         | some o =>
           (schedAll (s.newLabelled (o.toRec .timeout v default)).1 (s.newLabelled (o.toRec (τ := τ) .timeout v default)).2
              (schedOf (Gen.Timeout.init (evObj (τ := τ)) d).eff),
            .ev (s.newLabelled (o.toRec (τ := τ) .timeout v default)).2)
         | none => (s, .unit)) :=
  timeout_init s self d v

/-- **`Event.succeed` / `Event.fail` as written in the source are the model's `succeed` / `fail` calls**: refused with
`RuntimeError` exactly when the event is already triggered; otherwise `_ok`, `_value` are written and the event is
scheduled as the source says (default priority `NORMAL`, delay 0), which is `KState.trigger`. -/
theorem succeed_fail_generated_eq_model (s : KState τ σ) (self e : EvId) (v : Val) (x : Exc) :
    doCall s self (.succeed e v) =
      (if (Gen.Event.succeed (evObj (τ := τ)) (s.triggered e)).raised = 5 then (s, .err (runtimeErr "already triggered"))
       else match applyTrig s e (Gen.Event.succeed (evObj (τ := τ)) (s.triggered e)).eff v default with
         | some s' => (s', .unit)
         | none => (s, .unit)) ∧
    doCall s self (.fail e x) =
      (if (Gen.Event.fail (evObj (τ := τ)) (s.triggered e) false).raised = 5 then (s, .err (runtimeErr "already triggered"))
       else match applyTrig s e (Gen.Event.fail (evObj (τ := τ)) (s.triggered e) false).eff .none x with
         | some s' => (s', .unit)
         | none => (s, .unit)) :=
  ⟨succeed_call s self e v, fail_call s self e x⟩

/-- **the end of `Process._resume` as written in the source is the model's `finishProc`**: when the generator returns
(`StopIteration`) or raises, the process event gets `_ok = True` / `False`, its value, and is scheduled with the default
priority `NORMAL` now - `KState.trigger`, the state change of `finishProc`. -/
theorem process_end_generated_eq_model (s : KState τ σ) (p : EvId) (pr : ProcRec σ) (v : Val) (x : Exc) :
    (applyTrig s p (Gen.Process.resume_returned (evObj (τ := τ))).eff v x).map
        (fun s' => { ((s'.emit (.ended p (.ok v) s.now)).setProc p { pr with target := none }) with active := none }) =
      some (finishProc s p pr (.ok v)) ∧
    (applyTrig s p (Gen.Process.resume_raised (evObj (τ := τ))).eff v x).map
        (fun s' => { ((s'.emit (.ended p (.fail x) s.now)).setProc p { pr with target := none }) with active := none }) =
      some (finishProc s p pr (.fail x)) :=
  ⟨rfl, rfl⟩

/-- **`Initialize.__init__` as written in the source is how the model's `spawn` call starts a process**: an event with the
callback `process._resume`, `_ok = True`, value `None`, scheduled `URGENT` now. -/
theorem process_start_generated_eq_model (s : KState τ σ) (self : EvId) (st : σ) :
    doCall s self (.spawn st) =
      (match buildEvent (fun _ => Cb.resume s.events.size) (Gen.Initialize.init (evObj (τ := τ))).eff {} with
       | some o =>
         let p := s.events.size
         let s1 := (s.newLabelled { kind := .proc, cbs := some [], out := none }).1
         let s2 := s1.setProc p { st, target := some (p + 1) }
         (schedAll (s2.newEv (o.toRec (.init p) .none default)).1 (p + 1) (schedOf (Gen.Initialize.init (evObj (τ := τ))).eff), .ev p)
       | none => (s, .unit)) :=
  spawn_call s self st

/-- **`Interruption.__init__` (`Process.interrupt`) as written in the source is the model's `mkInterrupt`**: refused with
`RuntimeError` for a dead target (first `raise`) and for the active process itself (second `raise`); otherwise an event with
the callback `_interrupt`, `_ok = False`, value `Interrupt(cause)`, `_defused = True`, scheduled `URGENT` now. -/
theorem interrupt_generated_eq_model (s : KState τ σ) (p : EvId) (cause : Val) :
    mkInterrupt s p cause =
      (if (Gen.Interruption.init (evObj (τ := τ)) (s.triggered p) (s.active == some p)).raised = 5 then
         (s, some (if (Gen.Interruption.init (evObj (τ := τ)) (s.triggered p) (s.active == some p)).raise_site = 1
                   then runtimeErr "terminated" else runtimeErr "self"))
       else match buildEvent (fun _ => Cb.intr s.events.size)
           (Gen.Interruption.init (evObj (τ := τ)) (s.triggered p) (s.active == some p)).eff {} with
         | some o =>
           (schedAll (s.newEv (o.toRec (.intr p) .none ⟨"Interrupt", [cause]⟩)).1 s.events.size
              (schedOf (Gen.Interruption.init (evObj (τ := τ)) (s.triggered p) (s.active == some p)).eff), none)
         | none => (s, none)) :=
  interrupt_init s p cause

/-- **`Environment.run(until=<number>)` as written in the source is the model's `runUntilTime`**: refused with `ValueError`
exactly when `at <= now`; otherwise the stop event is pushed as `(at, URGENT, next(eid), until)` - at the absolute time
`at`, not `now + (at - now)`. -/
theorem run_until_generated_eq_model (body : σ → Resume → Burst τ σ) (fuel n : Nat) (at_ : τ) (s : KState τ σ) :
    runUntilTime body fuel n at_ s =
      (if Gen.Environment.run_refuse at_ s.now = true then
         .raised (valueErr "until must be > the current simulation time") s
       else
         let u := s.events.size
         let s1 := (s.newEv { kind := .sentinel, cbs := some [], out := some (.ok .none) }).1
         runLoop body fuel (some u) n ((pushEntry s1 (Gen.Environment.run_sentinel_entry at_ s1.eid u)).addCb u .stop)) :=
  run_until body fuel n at_ s

omit [Num τ] in
/-- **the crash test of `Environment.step` as written in the source is the model's `closeEvent`**: after the callbacks,
the exception of the event is re-raised exactly when `not event._ok and not hasattr(event, '_defused')`. -/
theorem step_crash_generated_eq_model (s : KState τ σ) (e : EvId) (d : Bool) :
    closeEvent { s := s, stop := none } e =
      (match (s.ev e).out with
       | some (.fail x) => if Gen.Environment.step_crashes false (s.ev e).defused = true then .crash x s else .ok s
       | _ => .ok s) ∧
    Gen.Environment.step_crashes true d = false :=
  ⟨close_event s e, step_crashes_ok d⟩

/-! ## non-vacuity: the generated definitions on concrete objects -/

/-- a full `Resource` (capacity 1, one user) refuses; with a free slot it grants with the three effects in order -/
example : (Gen.Resource.do_put (resObj (τ := Rat) { kind := .resource, capacity := some 1, users := [3] }) 1).ret = false ∧
    ((Gen.Resource.do_put (resObj (τ := Rat) { kind := .resource, capacity := some 2, users := [3] }) 1).eff.length = 3) := by
  decide

/-- a preempting request with a better key evicts: remove + interrupt; with an equal key it does not -/
example : (Gen.PreemptiveResource.pre_put (resObj (τ := Rat) { kind := .preemptive, capacity := some 1, users := [3] }) 1 true
      (Gen.PriorityRequest.key 0 (2 : Rat) true) (Gen.PriorityRequest.key 1 (1 : Rat) true)).eff.length = 2 ∧
    (Gen.PreemptiveResource.pre_put (resObj (τ := Rat) { kind := .preemptive, capacity := some 1, users := [3] }) 1 true
      (Gen.PriorityRequest.key 1 (1 : Rat) true) (Gen.PriorityRequest.key 1 (1 : Rat) true)).eff.length = 0 := by
  decide

/-- a container of capacity 5 holding 3 accepts 2 and refuses 3; an unbounded one accepts anything -/
example : (Gen.Container.do_put (contObj (τ := Rat) { kind := .container, capacity := some 5, level := 3 }) 2).ret = true ∧
    (Gen.Container.do_put (contObj (τ := Rat) { kind := .container, capacity := some 5, level := 3 }) 3).ret = false ∧
    (Gen.Container.do_put (contObj (τ := Rat) { kind := .container, capacity := none, level := 3 }) 1000).ret = true := by
  decide

/-- `_check` of an untriggered all-of-two condition on its second successful operand succeeds; on a failed operand it
defuses and fails -/
example : (Gen.Condition.check (α := Rat) { count := 1, eff := [] } false true true 2).eff.length = 2 ∧
    (Gen.Condition.check (α := Rat) { count := 0, eff := [] } false false true 2).eff.length = 3 ∧
    (Gen.Condition.check (α := Rat) { count := 0, eff := [] } true true true 2).eff.length = 0 := by
  decide

/-- a negative delay is refused, `run(until=now)` is refused -/
example : (Gen.Timeout.init (evObj (τ := Rat)) (-1)).raised = 2 ∧ (Gen.Timeout.init (evObj (τ := Rat)) 0).raised = 0 ∧
    Gen.Environment.run_refuse (3 : Rat) 3 = true ∧ Gen.Environment.run_refuse (4 : Rat) 3 = false := by
  decide

end KernelGen
