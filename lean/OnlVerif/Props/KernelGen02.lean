import OnlVerif.Lemmas.GenKernelEvent02
/-!
# KernelGen02 - `Event.succeed` / `Event.fail`, the end of `Process._resume` and the crash test of `Environment.step` *as written in the source* are the kernel model `K` (C02)

One of the bridge modules into which `Props/KernelGen.lean` was split, one per owning property (`py2lean/SCOPE.md`): `py2lean/kernel.py`
regenerates the `Generated/Kernel*.lean` files named in the imports from `onl/sim` on every `./check` of the owning property, and the
theorems below (bridge theorems) prove that the generated definitions coincide with the functions of the hand-written kernel
model `K` (`Kernel/Agenda.lean`, `Ops.lean`, `Step.lean`) that the property theorems are about.  A flipped comparison, a changed
constant, priority or refusal, a lost or reordered effect in the source changes a generated definition and one of these proofs
no longer compiles - for every input, not for sampled ones.  Here: the `succeed` / `fail` calls of `doCall` (`KState.trigger`), `finishProc`, `closeEvent` (C02).  In `Generated/KernelEvent02.lean` the *priority* argument of a `schedule` call is not translated (the effect carries the model's `NORMAL`) and an omitted delay stands for the model's 0: which class an occurrence is put in, and the defaults of `Environment.schedule`, are C01's clauses (`Gen.Site.*`, `Props/KernelGen01.lean`).

The encoding between the generated object views and the model state is explicit and hand-written
(`OnlVerif/Lemmas/GenKernelDefs.lean`: `resObj`, `runEff`, `buildEvent`, `applyTrig`, `toEntry`; the `run…` functions next to the
lemmas).  All statements hold for every scalar type `τ` (no arithmetic identity is used), in particular for `ℚ` and `Float`.
This module imports no generated file of another property.
-/

namespace KernelGen
open GenKernel
variable {τ σ : Type} [Num τ]

/-! ## triggering an event once, the termination event of a process, unhandled failures (C02) -/

/-- **`Event.succeed` / `Event.fail` as written in the source are the model's `succeed` / `fail` calls**: refused with
`RuntimeError` exactly when the event is already triggered; otherwise `_ok`, `_value` are written and the event is
scheduled as the source says (default priority `NORMAL`, delay 0), which is `KState.trigger`. -/
theorem succeed_fail_generated_eq_model (s : KState τ σ) (self e : EvId) (v : Val) (x : Exc) :
    doCall s self (.succeed e v) =
      (if (Gen.Event.succeed (evObj (τ := τ)) (s.triggered e)).raised = 5 then (s, .err (runtimeErr "already triggered"))
       else match applyTrig s e (Gen.Event.succeed (evObj (τ := τ)) (s.triggered e)).eff v default with
         | some s' => (s', .unit)
         | none => (s, .unit)) ∧
    doCall s self (.fail e x) =
      (if (Gen.Event.fail (evObj (τ := τ)) (s.triggered e) false).raised = 5 then (s, .err (runtimeErr "already triggered"))
       else match applyTrig s e (Gen.Event.fail (evObj (τ := τ)) (s.triggered e) false).eff .none x with
         | some s' => (s', .unit)
         | none => (s, .unit)) :=
  ⟨succeed_call s self e v, fail_call s self e x⟩

/-- **the end of `Process._resume` as written in the source is the model's `finishProc`**: when the generator returns
(`StopIteration`) or raises, the process event gets `_ok = True` / `False`, its value, and is scheduled with the default
priority `NORMAL` now - `KState.trigger`, the state change of `finishProc`. -/
theorem process_end_generated_eq_model (s : KState τ σ) (p : EvId) (pr : ProcRec σ) (v : Val) (x : Exc) :
    (applyTrig s p (Gen.Process.resume_returned (evObj (τ := τ))).eff v x).map
        (fun s' => { ((s'.emit (.ended p (.ok v) s.now)).setProc p { pr with target := none }) with active := none }) =
      some (finishProc s p pr (.ok v)) ∧
    (applyTrig s p (Gen.Process.resume_raised (evObj (τ := τ))).eff v x).map
        (fun s' => { ((s'.emit (.ended p (.fail x) s.now)).setProc p { pr with target := none }) with active := none }) =
      some (finishProc s p pr (.fail x)) :=
  ⟨rfl, rfl⟩

omit [Num τ] in
/-- **the crash test of `Environment.step` as written in the source is the model's `closeEvent`**: after the callbacks,
the exception of the event is re-raised exactly when `not event._ok and not hasattr(event, '_defused')`. -/
theorem step_crash_generated_eq_model (s : KState τ σ) (e : EvId) (d : Bool) :
    closeEvent { s := s, stop := none } e =
      (match (s.ev e).out with
       | some (.fail x) => if Gen.Environment.step_crashes false (s.ev e).defused = true then .crash x s else .ok s
       | _ => .ok s) ∧
    Gen.Environment.step_crashes true d = false :=
  ⟨close_event s e, step_crashes_ok d⟩

/-! ## non-vacuity: the generated definitions on concrete objects -/

/-- a second `succeed` is refused with `RuntimeError` and performs no effect; the first one writes `_ok`, `_value` and schedules;
an undefused failure crashes `step`, a defused one does not -/
example : (Gen.Event.succeed (evObj (τ := Rat)) true).raised = 5 ∧ (Gen.Event.succeed (evObj (τ := Rat)) true).eff.length = 0 ∧
    (Gen.Event.succeed (evObj (τ := Rat)) false).eff.length = 3 ∧
    Gen.Environment.step_crashes false false = true ∧ Gen.Environment.step_crashes false true = false := by
  decide

end KernelGen
